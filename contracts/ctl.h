/* contracts/ctl.h -- libxcm/ctl/ctl.c, the per-socket control interface, server side (C14).
 * Attached by redeclaration after the real TU (and env/ctl_env.h, which holds the unit's ghost state) were included.
 *
 * Conventions: xv_ctl_j / xv_ctl_i / xv_ctl_p / xv_ctl_reg (and the prelude's xv_mc) are ghost indices nobody assigns -- a
 * clause about "the byte at xv_ctl_j" is proved for every offset.  xv_ctl_g_foreign/xv_ctl_g_fev are ghost constants.
 * Contracts that are also ASSUMED of a callee bind nothing to ghost constants in their requires clauses (the call site
 * could not establish it); they use __CPROVER_old instead.  Every contract starts with the two clauses that pin the
 * opaque zero xv_ctl_z (env/ctl_env.h).  All struct fields are read through the XV_FLD accessors (by address, as scalars).
 *
 * Call graph and cut:   ctl_process -> process_client -> client_send | client_receive -> process_get_attr -> xcm_attr_get (contract)
 *                                   -> remove_client                               -> process_get_all_attr -> xcm_attr_get_all (stub) -> add_attr
 *                                   -> accept_client           ctl_create (create_ux inlined)      ctl_destroy -> remove_client
 */
#ifndef XV_CTL_H
#define XV_CTL_H
#include "contracts/begin.h"

/* ------------------------------------------------------------------ xcm_attr_get (libxcm/core/xcm.c), ASSUMED
 * name must be a C string terminated inside the object it points into (and shorter than XCM_ATTR_NAME_MAX);
 * at most `capacity` bytes of value are written; the ghosts record what the in-process call reported. */
int xcm_attr_get(struct xcm_socket *s, const char *name, enum xcm_attr_type *type, void *value, size_t capacity)
__CPROVER_requires(XV_CTL_Z_LO)
__CPROVER_requires(XV_CTL_Z_HI)
__CPROVER_requires(XV_CSTR64(name))
__CPROVER_requires(capacity <= 0x7fffffffUL && __CPROVER_w_ok(type, sizeof(*type)) && __CPROVER_w_ok(value, capacity))
__CPROVER_assigns(xv_errno, *type, __CPROVER_object_upto(value, capacity + (size_t)xv_ctl_z), xv_ctl_get)
__CPROVER_ensures(__CPROVER_return_value >= -1 && (__CPROVER_return_value < 0 || (size_t)__CPROVER_return_value <= capacity))
__CPROVER_ensures(__CPROVER_return_value == xv_ctl_get_rv && xv_ctl_get_calls == __CPROVER_old(xv_ctl_get_calls) + 1)
__CPROVER_ensures(__CPROVER_return_value < 0 ==> (xv_errno > 0 && xv_errno == xv_ctl_get_errno))
__CPROVER_ensures(__CPROVER_return_value >= 0 ==> ((int)*type == xv_ctl_get_type && \
                  (xv_ctl_j < (size_t)__CPROVER_return_value ==> ((const uint8_t *)value)[xv_ctl_j] == xv_ctl_get_j)))
;

/* ------------------------------------------------------------------ process_get_attr */
static void process_get_attr(struct xcm_socket *socket, struct ctl_proto_get_attr_req *req, struct ctl_proto_msg *response)
__CPROVER_requires(XV_CTL_Z_LO)
__CPROVER_requires(XV_CTL_Z_HI)
__CPROVER_requires(__CPROVER_is_fresh(socket, sizeof(*socket)) && __CPROVER_is_fresh(req, sizeof(*req)) && __CPROVER_is_fresh(response, XV_CTL_SIZEOF(*response)))
__CPROVER_assigns(xv_errno, xv_ctl_get)
__CPROVER_assigns(XV_MSG_TYPE(response), XV_MSG_REJ_ERRNO(response), XV_ATTR_TYPE(XV_MSG_ATTRP(response)), XV_ATTR_LEN(XV_MSG_ATTRP(response)), \
                  __CPROVER_object_upto(&XV_ATTR_VAL(XV_MSG_ATTRP(response), 0), CTL_ATTR_VALUE_MAX + (size_t)xv_ctl_z))
__CPROVER_ensures(xv_errno == __CPROVER_old(xv_errno))
__CPROVER_ensures(xv_ctl_get_calls == __CPROVER_old(xv_ctl_get_calls) || xv_ctl_get_calls == __CPROVER_old(xv_ctl_get_calls) + 1)
/* PO[C14] process_get_attr.reply_type */
__CPROVER_ensures(XV_MSG_TYPE(response) == ctl_proto_type_get_attr_cfm || XV_MSG_TYPE(response) == ctl_proto_type_get_attr_rej)
/* PO[C14] process_get_attr.reply_equals_in_process */
__CPROVER_ensures((XV_CSTR64(req->attr_name) && !XV_IS_TLS_KEY(req->attr_name)) ==> (xv_ctl_get_calls == __CPROVER_old(xv_ctl_get_calls) + 1 && (xv_ctl_get_rv >= 0 \
        ? (XV_MSG_TYPE(response) == ctl_proto_type_get_attr_cfm && XV_ATTR_LEN(XV_MSG_ATTRP(response)) == (size_t)xv_ctl_get_rv && \
           XV_ATTR_TYPE(XV_MSG_ATTRP(response)) == xv_ctl_get_type && XV_ATTR_LEN(XV_MSG_ATTRP(response)) <= CTL_ATTR_VALUE_MAX && \
           (xv_ctl_j < (size_t)xv_ctl_get_rv ==> XV_ATTR_VAL(XV_MSG_ATTRP(response), xv_ctl_j) == xv_ctl_get_j)) \
        : (XV_MSG_TYPE(response) == ctl_proto_type_get_attr_rej && XV_MSG_REJ_ERRNO(response) == xv_ctl_get_errno && xv_ctl_get_errno > 0))))
/* PO[C14] process_get_attr.tls_key_never_disclosed */
__CPROVER_ensures(XV_IS_TLS_KEY(req->attr_name) ==> (XV_MSG_TYPE(response) == ctl_proto_type_get_attr_rej && XV_MSG_REJ_ERRNO(response) == EACCES && \
        (xv_ctl_j < CTL_ATTR_VALUE_MAX ==> XV_ATTR_VAL(XV_MSG_ATTRP(response), xv_ctl_j) == 0)))
/* a name without terminator inside attr_name[64] is never handed to the attribute code: the query is rejected */
/* PO[C14] process_get_attr.unterminated_name_rejected */
__CPROVER_ensures(!XV_CSTR64(req->attr_name) ==> (XV_MSG_TYPE(response) == ctl_proto_type_get_attr_rej && XV_MSG_REJ_ERRNO(response) > 0 && \
        xv_ctl_get_calls == __CPROVER_old(xv_ctl_get_calls)))
;

/* ------------------------------------------------------------------ add_attr: the xcm_attr_get_all callback
 * An attribute is REPORTABLE when the protocol can carry it: name shorter than name[64], value at most 512 bytes, and it is
 * not tls.key.  A reportable attribute is appended (exact copy) while the table has room; anything else leaves the reply
 * untouched -- in particular nothing is ever written outside the entry being filled, and nothing aborts. */
static void add_attr(const char *attr_name, enum xcm_attr_type type, void *value, size_t len, void *data)
__CPROVER_requires(XV_CTL_Z_LO)
__CPROVER_requires(XV_CTL_Z_HI)
__CPROVER_requires(__CPROVER_is_fresh(data, XV_CTL_SIZEOF(struct ctl_proto_get_all_attr_cfm)))
__CPROVER_requires(XV_CFM_LEN(data) <= CTL_PROTO_MAX_ATTRS && XV_CFM_LEN(data) == xv_ctl_g_len0)
__CPROVER_requires(xv_ctl_g_namelen < XV_CTL_NAME_OBJ && __CPROVER_is_fresh(attr_name, xv_ctl_g_namelen + 1))
__CPROVER_requires(attr_name[xv_ctl_g_namelen] == 0 && XV_NONUL96(attr_name, xv_ctl_g_namelen))
__CPROVER_requires(len <= XV_CTL_LEN_MAX && len == xv_ctl_g_len && __CPROVER_is_fresh(value, len == 0 ? 1 : len))
__CPROVER_assigns(AA_ADDS(attr_name, xv_ctl_g_namelen, len): __CPROVER_object_upto(&XV_CFM_LEN(data), XV_CTL_SIZEOF(size_t)), __CPROVER_object_upto(AA_ENTRYP(data), XV_CTL_SIZEOF(struct ctl_proto_attr)))
/* PO[C14] add_attr.table_bound */
__CPROVER_ensures(XV_CFM_LEN(data) <= CTL_PROTO_MAX_ATTRS && \
                  XV_CFM_LEN(data) == xv_ctl_g_len0 + (AA_ADDS(attr_name, xv_ctl_g_namelen, len) ? 1 : 0))
/* PO[C14] add_attr.entry_equals_in_process */
__CPROVER_ensures(AA_ADDS(attr_name, xv_ctl_g_namelen, len) ==> (XV_ATTR_TYPE(AA_ENTRYP(data)) == (int)type && XV_ATTR_LEN(AA_ENTRYP(data)) == len && \
        (xv_mc < len ==> XV_ATTR_VAL(AA_ENTRYP(data), xv_mc) == ((const uint8_t *)value)[xv_mc]) && \
        (xv_ctl_j <= xv_ctl_g_namelen ==> XV_ATTR_NAME(AA_ENTRYP(data), xv_ctl_j) == attr_name[xv_ctl_j]) && XV_ATTR_NAME(AA_ENTRYP(data), xv_ctl_g_namelen) == 0))
;

/* ------------------------------------------------------------------ process_get_all_attr
 * xcm_attr_get_all is the stub of env/ctl_env.h: ANY number of callbacks with ANY name/type/value; it counts the reportable
 * ones (xv_ctl_all_n) and records the xv_ctl_i-th of them.  The reply must be typed, list min(n, 64) attributes, and
 * its xv_ctl_i-th entry must be the xv_ctl_i-th reportable attribute -- whatever pending_response held before. */
static void process_get_all_attr(struct xcm_socket *socket, struct ctl_proto_msg *response)
__CPROVER_requires(XV_CTL_Z_LO)
__CPROVER_requires(XV_CTL_Z_HI)
__CPROVER_requires(__CPROVER_is_fresh(socket, sizeof(*socket)) && __CPROVER_is_fresh(response, XV_CTL_SIZEOF(*response)))
__CPROVER_assigns(XV_CTL_ALL_GHOSTS, XV_MSG_TYPE(response), __CPROVER_object_upto(XV_MSG_CFMP(response), XV_CTL_SIZEOF(struct ctl_proto_get_all_attr_cfm)))
__CPROVER_ensures(xv_ctl_all_calls == __CPROVER_old(xv_ctl_all_calls) + 1)
/* PO[C14] process_get_all_attr.reply_type */
__CPROVER_ensures(XV_MSG_TYPE(response) == ctl_proto_type_get_all_attr_cfm)
/* PO[C14] process_get_all_attr.table_bound */
__CPROVER_ensures(XV_CFM_LEN(XV_MSG_CFMP(response)) <= CTL_PROTO_MAX_ATTRS && \
                  XV_CFM_LEN(XV_MSG_CFMP(response)) == (xv_ctl_all_n < CTL_PROTO_MAX_ATTRS ? xv_ctl_all_n : CTL_PROTO_MAX_ATTRS))
/* PO[C14] process_get_all_attr.reply_equals_in_process */
__CPROVER_ensures(XV_CTL_ALL_ENTRY_I(XV_MSG_CFMP(response)))
;

/* ================================================================== the session table: struct ctl and its clients
 * Representation invariant CTL_INV: 0..MAX_CLIENTS sessions; the listening descriptor and every session descriptor are
 * non-negative and hold a LIVE xpoll registration of the owning socket's xpoll; the registration ids are pairwise distinct.
 * Nothing is said about is_response_pending / pending_response: every contract holds for ANY previous content. */
/* every field is read BY ADDRESS as a scalar (see XV_FLD in env/ctl_env.h): `ctl->clients[1].fd` through a pointer with two
 * possible targets (ctl_create's return value: NULL or the new object) makes CBMC read all 75 864 bytes of struct ctl */
#define CTL_NUM(c_) XV_FLD(int, c_, offsetof(struct ctl, num_clients))
#define CTL_SOCK(c_) XV_FLD(struct xcm_socket *, c_, offsetof(struct ctl, socket))
#define CTL_SFD(c_) XV_FLD(int, c_, offsetof(struct ctl, server_fd))
#define CTL_SREG(c_) XV_FLD(int, c_, offsetof(struct ctl, server_fd_reg_id))
#define CTL_CP(c_, i) ((uint8_t *)(c_) + offsetof(struct ctl, clients) + (i) * sizeof(struct client))   /* address of session i */
#define CL_FD(cp) XV_FLD(int, cp, offsetof(struct client, fd))
#define CL_REG(cp) XV_FLD(int, cp, offsetof(struct client, fd_reg_id))
#define CL_PEND(cp) XV_FLD(bool, cp, offsetof(struct client, is_response_pending))
#define CL_MSG(cp) ((uint8_t *)(cp) + offsetof(struct client, pending_response))                          /* address of its reply buffer */
/* assigns clauses name scalar fields as byte slices (one array update instead of one per byte); ctl_process's single slice
 * "session table and counter" relies on num_clients following clients[] directly: */
_Static_assert(offsetof(struct ctl, num_clients) == offsetof(struct ctl, clients) + sizeof(struct client[MAX_CLIENTS]), "struct ctl layout");
_Static_assert(offsetof(struct client, fd) == 0 && offsetof(struct client, is_response_pending) == 8, "struct client layout");
#define CTL_REG_OK(id) ((id) >= 0 && (id) < XV_CTL_REGS && xv_ctl_live[id])
#define CTL_INV(ctl) (CTL_NUM(ctl) >= 0 && CTL_NUM(ctl) <= MAX_CLIENTS && CTL_SOCK(ctl)->xpoll == xv_ctl_xpoll && \
    CTL_SFD(ctl) >= 0 && CTL_REG_OK(CTL_SREG(ctl)) && \
    (CTL_NUM(ctl) >= 1 ==> (CL_FD(CTL_CP(ctl, 0)) >= 0 && CTL_REG_OK(CL_REG(CTL_CP(ctl, 0))) && CL_REG(CTL_CP(ctl, 0)) != CTL_SREG(ctl))) && \
    (CTL_NUM(ctl) >= 2 ==> (CL_FD(CTL_CP(ctl, 1)) >= 0 && CTL_REG_OK(CL_REG(CTL_CP(ctl, 1))) && CL_REG(CTL_CP(ctl, 1)) != CTL_SREG(ctl) && \
                                  CL_REG(CTL_CP(ctl, 1)) != CL_REG(CTL_CP(ctl, 0)))))
#define CTL_MEM(c_) (__CPROVER_is_fresh(c_, XV_CTL_SIZEOF(struct ctl)) && __CPROVER_is_fresh(CTL_SOCK(c_), sizeof(struct xcm_socket)))
/* the header of struct ctl is never written after ctl_create */
#define CTL_HDR_SAME(ctl) (CTL_SOCK(ctl) == __CPROVER_old(CTL_SOCK(ctl)) && CTL_SFD(ctl) == __CPROVER_old(CTL_SFD(ctl)) && \
                           CTL_SREG(ctl) == __CPROVER_old(CTL_SREG(ctl)))
/* PASSIVITY towards the data path, at the xpoll.  xv_ctl_reg is an arbitrary registration id; the ghost constant
 * xv_ctl_g_foreign says "it exists, is not one of this ctl's, and has event mask xv_ctl_g_fev".  CTL_FOREIGN is required and
 * ensured by every function: a registration of the data path is never deleted, modified or taken over. */
_Bool xv_ctl_g_foreign; int xv_ctl_g_fev;
#define CTL_OWNS(ctl, r) ((r) == CTL_SREG(ctl) || (CTL_NUM(ctl) >= 1 && (r) == CL_REG(CTL_CP(ctl, 0))) || \
                          (CTL_NUM(ctl) >= 2 && (r) == CL_REG(CTL_CP(ctl, 1))))
#define CTL_FOREIGN(ctl) (xv_ctl_g_foreign ==> (xv_ctl_reg >= 0 && xv_ctl_reg < XV_CTL_REGS && xv_ctl_live[xv_ctl_reg] && \
                          xv_ctl_ev[xv_ctl_reg] == xv_ctl_g_fev && !CTL_OWNS(ctl, xv_ctl_reg)))
/* ghost state every session-level function may write */
#define CTL_EP_GHOSTS xv_errno, XV_CTL_EP_OBJS, xv_ctl_ep_ops
/* client points at one of the sessions in use.  pointer_equals ASSIGNS the pointer when the clause is assumed, so symex knows
 * the exact address.  A job that ENFORCES a per-session contract is run once per slot (-DXV_CTL_SLOT=0|1, a complete case
 * split of the disjunction below; every offset into the 76 KB struct ctl is then a constant); where the contract is
 * ASSUMED of a callee (ctl_process -> process_client) the general form is what the call site has to establish. */
#ifdef XV_CTL_SLOT
#define CTL_SESSION(client, ctl) (CTL_NUM(ctl) > XV_CTL_SLOT && __CPROVER_pointer_equals((client), CTL_CP(ctl, XV_CTL_SLOT)))
#else
#define CTL_SESSION(client, ctl) ((CTL_NUM(ctl) >= 1 && __CPROVER_pointer_equals((client), CTL_CP(ctl, 0))) || \
                                  (CTL_NUM(ctl) >= 2 && __CPROVER_pointer_equals((client), CTL_CP(ctl, 1))))
#endif
#define CTL_SAME(x) ((x) == __CPROVER_old(x))
#define CTL_INC(x) ((x) == __CPROVER_old(x) + 1)
#define CTL_MSG_SIZE sizeof(struct ctl_proto_msg)

/* ------------------------------------------------------------------ client_send: hand the pending reply to send(2) */
#define CS_GHOSTS xv_ctl_snd
static int client_send(struct client *client, struct ctl *ctl)
__CPROVER_requires(XV_CTL_Z_LO)
__CPROVER_requires(XV_CTL_Z_HI)
__CPROVER_requires(CTL_MEM(ctl) && CTL_INV(ctl) && CTL_SESSION(client, ctl) && CTL_FOREIGN(ctl))
__CPROVER_assigns(CTL_EP_GHOSTS, CS_GHOSTS, CL_PEND(client))
__CPROVER_ensures((__CPROVER_return_value == 0 || __CPROVER_return_value == -1) && CTL_INV(ctl) && CTL_FOREIGN(ctl))
/* PO[C14] client_send.sends_the_pending_reply */
__CPROVER_ensures(CTL_INC(xv_ctl_send_calls) && xv_ctl_send_fd == CL_FD(client) && xv_ctl_send_len == CTL_MSG_SIZE && xv_ctl_send_buf == CL_MSG(client) && \
                  (xv_ctl_j < CTL_MSG_SIZE ==> xv_ctl_send_j == ((const uint8_t *)CL_MSG(client))[xv_ctl_j]))
/* PO[C14] client_send.outcome */
__CPROVER_ensures(xv_ctl_send_rc >= 0 \
        ? (__CPROVER_return_value == 0 && !CL_PEND(client) && xv_ctl_ev[CL_REG(client)] == EPOLLIN) \
        : (CL_PEND(client) == __CPROVER_old(CL_PEND(client)) && CTL_SAME(xv_ctl_ep_ops) && \
           __CPROVER_return_value == (xv_ctl_send_errno == EAGAIN ? 0 : -1)))
;

/* ------------------------------------------------------------------ client_receive: one request, ARBITRARY bytes of ARBITRARY length
 * xv_ctl_recv_rc is what recv(2) returned (-1 | 0..sizeof msg), xv_ctl_req_type the type field of the datagram,
 * xv_ctl_req_key / xv_ctl_req_cstr what its attr_name[64] held. */
#define CR_GHOSTS xv_ctl_rd, xv_ctl_rcv, xv_ctl_get, XV_CTL_ALL_GHOSTS
#define CR_FULL (xv_ctl_readable && xv_ctl_recv_rc == (long)CTL_MSG_SIZE)
#define CR_NO_ATTR_CALL (CTL_SAME(xv_ctl_get_calls) && CTL_SAME(xv_ctl_all_calls))
#define CR_UNTOUCHED(client) (CL_PEND(client) == __CPROVER_old(CL_PEND(client)) && CR_NO_ATTR_CALL)
static int client_receive(struct client *client, struct ctl *ctl)
__CPROVER_requires(XV_CTL_Z_LO)
__CPROVER_requires(XV_CTL_Z_HI)
__CPROVER_requires(CTL_MEM(ctl) && CTL_INV(ctl) && CTL_SESSION(client, ctl) && CTL_FOREIGN(ctl) && !CL_PEND(client))
__CPROVER_assigns(CTL_EP_GHOSTS, CR_GHOSTS, CL_PEND(client), __CPROVER_object_upto(CL_MSG(client), XV_CTL_SIZEOF(struct ctl_proto_msg)))
__CPROVER_ensures((__CPROVER_return_value == 0 || __CPROVER_return_value == -1) && CTL_INV(ctl) && CTL_FOREIGN(ctl))
__CPROVER_ensures(CTL_INC(xv_ctl_readable_calls) && (xv_ctl_readable ? (CTL_INC(xv_ctl_recv_calls) && xv_ctl_recv_fd == CL_FD(client)) : CTL_SAME(xv_ctl_recv_calls)))
/* PO[C14] client_receive.nothing_to_read */
__CPROVER_ensures((!xv_ctl_readable || (xv_ctl_recv_rc == -1 && xv_ctl_recv_errno == EAGAIN)) ==> \
                  (__CPROVER_return_value == 0 && CR_UNTOUCHED(client) && CTL_SAME(xv_ctl_ep_ops)))
/* PO[C14] client_receive.malformed_or_gone_is_dropped */
__CPROVER_ensures((xv_ctl_readable && ((xv_ctl_recv_rc == -1 && xv_ctl_recv_errno != EAGAIN) || (xv_ctl_recv_rc >= 0 && xv_ctl_recv_rc != (long)CTL_MSG_SIZE))) ==> \
                  (__CPROVER_return_value == -1 && CR_UNTOUCHED(client) && CTL_SAME(xv_ctl_ep_ops)))
/* PO[C14] client_receive.unknown_type_is_dropped */
__CPROVER_ensures((CR_FULL && xv_ctl_req_type != ctl_proto_type_get_attr_req && xv_ctl_req_type != ctl_proto_type_get_all_attr_req) ==> \
                  (__CPROVER_return_value == -1 && !CL_PEND(client) && CR_NO_ATTR_CALL))
/* PO[C14] client_receive.get_attr_reply */
__CPROVER_ensures((CR_FULL && xv_ctl_req_type == ctl_proto_type_get_attr_req) ==> (__CPROVER_return_value == 0 && CL_PEND(client) && \
        xv_ctl_ev[CL_REG(client)] == EPOLLOUT && CTL_SAME(xv_ctl_all_calls) && \
        (XV_MSG_TYPE(CL_MSG(client)) == ctl_proto_type_get_attr_cfm || XV_MSG_TYPE(CL_MSG(client)) == ctl_proto_type_get_attr_rej) && \
        ((xv_ctl_req_cstr && !xv_ctl_req_key) ==> (CTL_INC(xv_ctl_get_calls) && (xv_ctl_get_rv >= 0 \
            ? (XV_MSG_TYPE(CL_MSG(client)) == ctl_proto_type_get_attr_cfm && XV_ATTR_LEN(XV_MSG_ATTRP(CL_MSG(client))) == (size_t)xv_ctl_get_rv && \
               XV_ATTR_TYPE(XV_MSG_ATTRP(CL_MSG(client))) == xv_ctl_get_type && \
               (xv_ctl_j < (size_t)xv_ctl_get_rv ==> XV_ATTR_VAL(XV_MSG_ATTRP(CL_MSG(client)), xv_ctl_j) == xv_ctl_get_j)) \
            : (XV_MSG_TYPE(CL_MSG(client)) == ctl_proto_type_get_attr_rej && XV_MSG_REJ_ERRNO(CL_MSG(client)) == xv_ctl_get_errno)))) && \
        (!xv_ctl_req_cstr ==> (XV_MSG_TYPE(CL_MSG(client)) == ctl_proto_type_get_attr_rej && CTL_SAME(xv_ctl_get_calls)))))
/* PO[C14] client_receive.tls_key_never_disclosed */
__CPROVER_ensures((CR_FULL && xv_ctl_req_type == ctl_proto_type_get_attr_req && xv_ctl_req_key) ==> \
        (XV_MSG_TYPE(CL_MSG(client)) == ctl_proto_type_get_attr_rej && XV_MSG_REJ_ERRNO(CL_MSG(client)) == EACCES && \
         (xv_ctl_j < CTL_ATTR_VALUE_MAX ==> XV_ATTR_VAL(XV_MSG_ATTRP(CL_MSG(client)), xv_ctl_j) == 0)))
/* PO[C14] client_receive.get_all_reply */
__CPROVER_ensures((CR_FULL && xv_ctl_req_type == ctl_proto_type_get_all_attr_req) ==> (__CPROVER_return_value == 0 && CL_PEND(client) && \
        xv_ctl_ev[CL_REG(client)] == EPOLLOUT && CTL_SAME(xv_ctl_get_calls) && CTL_INC(xv_ctl_all_calls) && \
        XV_MSG_TYPE(CL_MSG(client)) == ctl_proto_type_get_all_attr_cfm && \
        XV_CFM_LEN(XV_MSG_CFMP(CL_MSG(client))) == (xv_ctl_all_n < CTL_PROTO_MAX_ATTRS ? xv_ctl_all_n : CTL_PROTO_MAX_ATTRS) && \
        XV_CTL_ALL_ENTRY_I(XV_MSG_CFMP(CL_MSG(client)))))
;

/* ------------------------------------------------------------------ process_client: send if a reply is pending, else receive */
static int process_client(struct client *client, struct ctl *ctl)
__CPROVER_requires(XV_CTL_Z_LO)
__CPROVER_requires(XV_CTL_Z_HI)
__CPROVER_requires(CTL_MEM(ctl) && CTL_INV(ctl) && CTL_SESSION(client, ctl) && CTL_FOREIGN(ctl))
__CPROVER_assigns(CTL_EP_GHOSTS, CS_GHOSTS, CR_GHOSTS, CL_PEND(client), __CPROVER_object_upto(CL_MSG(client), XV_CTL_SIZEOF(struct ctl_proto_msg)))
__CPROVER_ensures((__CPROVER_return_value == 0 || __CPROVER_return_value == -1) && CTL_INV(ctl) && CTL_FOREIGN(ctl))
/* PO[C14] process_client.one_step_per_session */
__CPROVER_ensures(__CPROVER_old(CL_PEND(client)) \
        ? (CTL_INC(xv_ctl_send_calls) && CTL_SAME(xv_ctl_recv_calls) && CR_NO_ATTR_CALL && xv_ctl_send_buf == CL_MSG(client)) \
        : (CTL_SAME(xv_ctl_send_calls) && (CTL_SAME(xv_ctl_recv_calls) || CTL_INC(xv_ctl_recv_calls))))
;

/* ------------------------------------------------------------------ accept_client: room for one more session */
#define AC_GHOSTS xv_ctl_rd, xv_ctl_acc
#define AC_NEW(ctl) CTL_CP(ctl, __CPROVER_old(CTL_NUM(ctl)))
static void accept_client(struct ctl *ctl)
__CPROVER_requires(XV_CTL_Z_LO)
__CPROVER_requires(XV_CTL_Z_HI)
__CPROVER_requires(CTL_MEM(ctl) && CTL_INV(ctl) && CTL_FOREIGN(ctl) && CTL_NUM(ctl) < MAX_CLIENTS)
__CPROVER_assigns(CTL_EP_GHOSTS, AC_GHOSTS, __CPROVER_object_upto(&CTL_NUM(ctl), XV_CTL_SIZEOF(int)))
__CPROVER_assigns(__CPROVER_object_upto(CTL_CP(ctl, CTL_NUM(ctl)), offsetof(struct client, is_response_pending) + XV_CTL_SIZEOF(bool)))
__CPROVER_ensures(CTL_INV(ctl) && CTL_FOREIGN(ctl) && CTL_INC(xv_ctl_readable_calls))
/* PO[C14] accept_client.table_bound */
__CPROVER_ensures((xv_ctl_readable && xv_ctl_accept_rc >= 0) \
        ? (CTL_NUM(ctl) == __CPROVER_old(CTL_NUM(ctl)) + 1 && CTL_NUM(ctl) <= MAX_CLIENTS && CL_FD(AC_NEW(ctl)) == xv_ctl_accept_rc && \
           !CL_PEND(AC_NEW(ctl)) && xv_ctl_ev[CL_REG(AC_NEW(ctl))] == EPOLLIN && \
           (CTL_NUM(ctl) == MAX_CLIENTS ==> xv_ctl_ev[CTL_SREG(ctl)] == 0)) \
        : (CTL_SAME(CTL_NUM(ctl)) && CTL_SAME(xv_ctl_ep_ops)))
;

/* ------------------------------------------------------------------ remove_client: close one session, keep the other intact */
#define RC_GHOSTS xv_ctl_cls
#define RC_OTHER(ctl, idx) CTL_CP(ctl, 1 - (idx))
static void remove_client(struct ctl *ctl, int client_idx)
__CPROVER_requires(XV_CTL_Z_LO)
__CPROVER_requires(XV_CTL_Z_HI)
__CPROVER_requires(CTL_MEM(ctl) && CTL_INV(ctl) && CTL_FOREIGN(ctl) && client_idx >= 0 && client_idx < CTL_NUM(ctl))
__CPROVER_assigns(CTL_EP_GHOSTS, RC_GHOSTS, __CPROVER_object_upto(&CTL_NUM(ctl), XV_CTL_SIZEOF(int)), __CPROVER_object_upto(CTL_CP(ctl, 0), XV_CTL_SIZEOF(struct client)))
__CPROVER_ensures(CTL_INV(ctl) && CTL_FOREIGN(ctl) && CTL_HDR_SAME(ctl))
/* PO[C14] remove_client.session_closed */
__CPROVER_ensures(CTL_NUM(ctl) == __CPROVER_old(CTL_NUM(ctl)) - 1 && CTL_INC(xv_ctl_close_calls) && \
                  xv_ctl_closed_fd == __CPROVER_old(CL_FD(CTL_CP(ctl, client_idx))) && !xv_ctl_live[__CPROVER_old(CL_REG(CTL_CP(ctl, client_idx)))])
/* the session that stays is slot 0 afterwards and is what it was: descriptor, registration, pending flag, and (byte at the
 * arbitrary offset xv_mc of its struct client, i.e.) its pending reply */
/* PO[C14] remove_client.other_session_intact */
__CPROVER_ensures(CTL_NUM(ctl) == 1 ==> (CL_FD(CTL_CP(ctl, 0)) == __CPROVER_old(CL_FD(RC_OTHER(ctl, client_idx))) && \
        CL_REG(CTL_CP(ctl, 0)) == __CPROVER_old(CL_REG(RC_OTHER(ctl, client_idx))) && \
        CL_PEND(CTL_CP(ctl, 0)) == __CPROVER_old(CL_PEND(RC_OTHER(ctl, client_idx))) && \
        (xv_mc < sizeof(struct client) ==> (CTL_CP(ctl, 0))[xv_mc] == __CPROVER_old(RC_OTHER(ctl, client_idx)[xv_mc]))))
;

/* ------------------------------------------------------------------ ctl_process (public, self-recursive)
 * PASSIVE: assigns struct ctl's session table (not its header, not the socket), its xpoll registrations, and ghost
 * records of the system calls made; errno is what it was. */
void ctl_process(struct ctl *ctl)
__CPROVER_requires(XV_CTL_Z_LO)
__CPROVER_requires(XV_CTL_Z_HI)
__CPROVER_requires(CTL_MEM(ctl) && CTL_INV(ctl) && CTL_FOREIGN(ctl))
__CPROVER_assigns(CTL_EP_GHOSTS, CS_GHOSTS, CR_GHOSTS, AC_GHOSTS, RC_GHOSTS, \
                  __CPROVER_object_upto(CTL_CP(ctl, 0), XV_CTL_SIZEOF(struct client[MAX_CLIENTS]) + sizeof(int)))
/* PO[C14] ctl_process.table_invariant */
__CPROVER_ensures(CTL_INV(ctl) && CTL_NUM(ctl) >= 0 && CTL_NUM(ctl) <= MAX_CLIENTS)
/* PO[C14] ctl_process.errno_restored */
__CPROVER_ensures(xv_errno == __CPROVER_old(xv_errno))
/* PO[C14] ctl_process.data_path_registrations_untouched */
__CPROVER_ensures(CTL_FOREIGN(ctl))
;

/* ------------------------------------------------------------------ ctl_create (public; create_ux is inlined: stat, socket, bind, listen, unlink are stubs)
 * NULL (no registration made, every descriptor it opened closed again) or a new struct ctl: empty session table, listening
 * descriptor registered for EPOLLIN with the socket's xpoll.  The socket itself is not written (frame).  errno: any. */
#define CTL_FOREIGN0 (xv_ctl_g_foreign ==> (xv_ctl_reg >= 0 && xv_ctl_reg < XV_CTL_REGS && xv_ctl_live[xv_ctl_reg] && xv_ctl_ev[xv_ctl_reg] == xv_ctl_g_fev))
struct ctl *ctl_create(struct xcm_socket *socket)
__CPROVER_requires(XV_CTL_Z_LO)
__CPROVER_requires(XV_CTL_Z_HI)
__CPROVER_requires(__CPROVER_is_fresh(socket, sizeof(*socket)) && socket->xpoll == xv_ctl_xpoll && CTL_FOREIGN0)
__CPROVER_assigns(CTL_EP_GHOSTS, xv_ctl_acc, xv_ctl_cls, xv_ctl_unl)
__CPROVER_ensures(__CPROVER_return_value == NULL || __CPROVER_is_fresh(__CPROVER_return_value, XV_CTL_SIZEOF(struct ctl)))
/* PO[C14] ctl_create.empty_table_registered */
__CPROVER_ensures(__CPROVER_return_value != NULL ==> (CTL_SOCK(__CPROVER_return_value) == socket && CTL_NUM(__CPROVER_return_value) == 0 && \
        CTL_INV(__CPROVER_return_value) && CTL_INC(xv_ctl_ep_ops) && xv_ctl_ev[CTL_SREG(__CPROVER_return_value)] == EPOLLIN && \
        CTL_INC(xv_ctl_fds_made) && CTL_SAME(xv_ctl_close_calls) && CTL_FOREIGN(__CPROVER_return_value)))
/* failure: nothing registered, and as many descriptors closed as opened */
__CPROVER_ensures(__CPROVER_return_value == NULL ==> (CTL_SAME(xv_ctl_ep_ops) && CTL_FOREIGN0 && \
        xv_ctl_fds_made - __CPROVER_old(xv_ctl_fds_made) == xv_ctl_close_calls - __CPROVER_old(xv_ctl_close_calls)))
;

/* ------------------------------------------------------------------ ctl_destroy (public)
 * owner == true : xcm_close -- sessions and listening descriptor closed and deregistered, the bound path unlinked.
 * owner == false: xcm_cleanup in a forked child -- descriptors closed, but the epoll instance is SHARED with the parent
 *                 process and the file belongs to it: no epoll operation, no unlink. */
void ctl_destroy(struct ctl *ctl, bool owner)
__CPROVER_requires(XV_CTL_Z_LO)
__CPROVER_requires(XV_CTL_Z_HI)
__CPROVER_requires(ctl == NULL || (CTL_MEM(ctl) && CTL_INV(ctl) && CTL_FOREIGN(ctl)))
__CPROVER_assigns(ctl != NULL: CTL_EP_GHOSTS, RC_GHOSTS, xv_ctl_unl, CTL_NUM(ctl), __CPROVER_object_upto(CTL_CP(ctl, 0), XV_CTL_SIZEOF(struct client)))
__CPROVER_frees(ctl)
/* PO[C14] ctl_destroy.errno_restored */
__CPROVER_ensures(xv_errno == __CPROVER_old(xv_errno))
__CPROVER_ensures(ctl != NULL ==> __CPROVER_was_freed(ctl))
/* every descriptor of the control interface is closed: one per session and the listening one */
/* PO[C14,C08] ctl_destroy.descriptors_closed */
__CPROVER_ensures(ctl != NULL ==> (xv_ctl_close_calls == __CPROVER_old(xv_ctl_close_calls) + (unsigned long)__CPROVER_old(CTL_NUM(ctl)) + 1 && CTL_FOREIGN0))
/* PO[C14] ctl_destroy.control_file_removed_by_owner_only */
__CPROVER_ensures((ctl != NULL && owner && xv_ctl_gsn_ok) \
        ? (CTL_INC(xv_ctl_unlink_calls) && (xv_ctl_p < UNIX_PATH_MAX ==> xv_ctl_unlink_p == xv_ctl_bound_p)) : CTL_SAME(xv_ctl_unlink_calls))
/* PO[C14] ctl_destroy.owner_deregisters */
__CPROVER_ensures((ctl != NULL && owner) ==> !xv_ctl_live[__CPROVER_old(CTL_SREG(ctl))])
/* PO[C14,C08] ctl_destroy.not_owner_leaves_epoll_alone */
__CPROVER_ensures((ctl == NULL || !owner) ==> CTL_SAME(xv_ctl_ep_ops))
;

#include "contracts/end.h"
#endif
