/* contracts/attrpath.h -- libxcm/core/attr_path.c (C10: no name string causes a crash; C19: paths are canonical)
 * ghost state, string layout and the AP_* character classes: harness/attrpath/_ghost.h */
#ifndef XV_ATTRPATH_H
#define XV_ATTRPATH_H
#include "contracts/begin.h"

_Static_assert(ATTR_PATH_INDEX_START == '[' && ATTR_PATH_INDEX_END == ']' && ATTR_PATH_KEY_DELIM == '.', "AP_SPECIAL in _ghost.h matches attr_path.h");
#define AP_BASE_FRESH (__CPROVER_is_fresh(xv_ap_base, AP_STR_MAX))
/* the string: NUL at the end of the object and no NUL before it.  "No NUL before" is stated for the ONE arbitrary
 * absolute position xv_ap_a (never assigned): every job is proved for every value of it, and the only consumer of the
 * fact -- the strlen shortcut in env/attrpath_env.h -- asserts it for that same position.  (A bounded forall over the
 * 299 positions costs ~45k variables each time a replaced callee's precondition is checked: 130 x 2 times in parse.) */
#define AP_BASE_STR (xv_ap_len <= AP_END && xv_ap_base[AP_END] == 0 && \
                     ((xv_ap_a >= AP_END - xv_ap_len && xv_ap_a < AP_END) ==> xv_ap_base[xv_ap_a] != 0))
#define AP_START (xv_ap_base + (AP_END - xv_ap_len))
/* p points at a character (or the NUL) of a string that passed the length gate */
/* (pointer_in_range_dfcc, not same_object: symex resolves dereferences through value sets, an assumed same_object on a
 * nondeterministic pointer would leave its pointee unconstrained) */
#define AP_INSIDE(p) (xv_ap_len <= ATTR_PATH_NAME_MAX && __CPROVER_pointer_in_range_dfcc(xv_ap_base, (p), xv_ap_base + AP_END) && \
                      AP_OFF(p) >= AP_END - xv_ap_len)
#define AP_RV __CPROVER_return_value
/* Clauses that READ CHARACTERS of the string are dropped (XV_AP_SLIM) where a contract REPLACES a call in the job of
 * attr_path_parse: assuming less is sound, and each read at a symbolic offset would be paid once per unwound iteration.
 * They are proved in the callee's own job. */
#ifdef XV_AP_STRICT_INDEX
#define __CPROVER_ensures_strict(e) __CPROVER_ensures(e)
#else
#define __CPROVER_ensures_strict(e)
#endif
#ifdef XV_AP_DESTROY_JOB
#define __CPROVER_ensures_destroy(e) __CPROVER_ensures(e)
#else
#define __CPROVER_ensures_destroy(e)
#endif
#ifdef XV_AP_SLIM
#define __CPROVER_ensures_chars(e)
#else
#define __CPROVER_ensures_chars(e) __CPROVER_ensures(e)
#endif
/* a key component made by the parser: own object, own NUL-terminated key of n >= 1 key characters */
#define AP_IS_KEY(c, n) (__CPROVER_is_fresh((c), sizeof(struct attr_pcomp)) && (c)->type == attr_pcomp_type_key && \
                         __CPROVER_is_fresh((c)->key, (size_t)(n) + 1) && (c)->key[n] == 0)
/* the slot a component pointer is stored into: writable and still NULL (attr_path_parse gets its array from ut_calloc).
 * w_ok, not is_fresh: the harness hands in a slot it initialised itself, so that symex knows its old content (a slot made
 * by is_fresh holds a nondeterministic pointer, whose dereference in the ensures clauses fans out over every object of
 * the program: 2M variables) */
#define AP_SLOT(comp) (__CPROVER_w_ok((comp), sizeof(*(comp))) && *(comp) == NULL)
#define AP_IS_INDEX(c) (__CPROVER_is_fresh((c), sizeof(struct attr_pcomp)) && (c)->type == attr_pcomp_type_index)

/* ---- attr_pcomp_parse_key: longest non-empty run of key characters at path_str */
static int attr_pcomp_parse_key(const char *path_str, struct attr_pcomp **comp)
__CPROVER_requires(AP_BASE_FRESH && AP_SLOT(comp))
__CPROVER_requires(AP_BASE_STR)
__CPROVER_requires(AP_INSIDE(path_str))
__CPROVER_assigns(*comp)
__CPROVER_ensures(AP_RV == -1 || (AP_RV >= 1 && (size_t)AP_RV <= AP_REM(path_str)))
/* PO[C19] attr_pcomp_parse_key.rejects_iff_empty_key */
__CPROVER_ensures_chars((AP_RV == -1) == !AP_KEYCHAR(path_str[0]))
__CPROVER_ensures(AP_RV == -1 ==> *comp == NULL)
__CPROVER_ensures(AP_RV > 0 ==> AP_IS_KEY(*comp, AP_RV))
/* PO[C19] attr_pcomp_parse_key.key_is_exact_copy */
__CPROVER_ensures_chars((AP_RV > 0 && xv_ap_q < (size_t)AP_RV) ==> ((*comp)->key[xv_ap_q] == path_str[xv_ap_q] && AP_KEYCHAR(path_str[xv_ap_q])))
/* PO[C19] attr_pcomp_parse_key.longest_match */
__CPROVER_ensures_chars(AP_RV > 0 ==> !AP_KEYCHAR(path_str[AP_RV]))
;

/* ---- attr_pcomp_parse_index: "<index>]" at path_str (the '[' was consumed by the caller) */
static int attr_pcomp_parse_index(const char *path_str, struct attr_pcomp **comp)
__CPROVER_requires(AP_BASE_FRESH && AP_SLOT(comp))
__CPROVER_requires(AP_BASE_STR)
__CPROVER_requires(AP_INSIDE(path_str))
__CPROVER_assigns(*comp, xv_ap_strtol_val, xv_ap_strtol_used)
__CPROVER_ensures(AP_RV == -1 || (AP_RV >= 2 && (size_t)AP_RV <= AP_REM(path_str)))
__CPROVER_ensures(AP_RV == -1 ==> *comp == NULL)
__CPROVER_ensures(AP_RV > 0 ==> AP_IS_INDEX(*comp))
/* PO[C19] attr_pcomp_parse_index.value_in_range */
__CPROVER_ensures(AP_RV > 0 ==> (xv_ap_strtol_used == (size_t)AP_RV - 1 && xv_ap_strtol_val >= 0 && xv_ap_strtol_val < LONG_MAX && \
                                 (*comp)->index == (size_t)xv_ap_strtol_val))
/* PO[C19] attr_pcomp_parse_index.closing_bracket */
__CPROVER_ensures_chars(AP_RV > 0 ==> path_str[AP_RV - 1] == ATTR_PATH_INDEX_END)
/* between the brackets there is nothing but what strtol consumed (white space, sign, digits): no NUL, no special character */
/* PO[C19] attr_pcomp_parse_index.number_characters_only */
__CPROVER_ensures_chars((AP_RV > 0 && xv_ap_q < (size_t)AP_RV - 1) ==> AP_NUMCHAR(path_str[xv_ap_q]))
/* the documented syntax is "[<index>]": an index is a sequence of digits -- no white space, no sign.  This clause is
 * present ONLY in the job that checks it (parse_index, -DXV_AP_STRICT_INDEX): where the contract replaces a call it must
 * not be assumed, because the current code violates it and the assumption would cut those inputs out of the callers' proofs */
/* PO[C19] attr_pcomp_parse_index.digits_only */
__CPROVER_ensures_strict((AP_RV > 0 && xv_ap_q < (size_t)AP_RV - 1) ==> AP_DIGIT(path_str[xv_ap_q]))
;

/* ---- attr_pcomp_parse: one ".key" or "[index]" component at path_str; 0 at the end of the string */
static int attr_pcomp_parse(const char *path_str, struct attr_pcomp **comp)
__CPROVER_requires(AP_BASE_FRESH && AP_SLOT(comp))
__CPROVER_requires(AP_BASE_STR)
__CPROVER_requires(AP_INSIDE(path_str))
__CPROVER_assigns(*comp, xv_ap_strtol_val, xv_ap_strtol_used)
__CPROVER_ensures(AP_RV == -1 || AP_RV == 0 || (AP_RV >= 2 && (size_t)AP_RV <= AP_REM(path_str)))
/* PO[C19] attr_pcomp_parse.zero_iff_end_of_string */
__CPROVER_ensures((AP_RV == 0) == (AP_REM(path_str) == 0))
__CPROVER_ensures(AP_RV <= 0 ==> *comp == NULL)
__CPROVER_ensures(AP_RV > 0 ==> (__CPROVER_is_fresh(*comp, sizeof(struct attr_pcomp)) && \
                                 ((*comp)->type == attr_pcomp_type_key || (*comp)->type == attr_pcomp_type_index)))
__CPROVER_ensures((AP_RV > 0 && (*comp)->type == attr_pcomp_type_key) ==> (__CPROVER_is_fresh((*comp)->key, (size_t)AP_RV) && (*comp)->key[AP_RV - 1] == 0))
__CPROVER_ensures((AP_RV > 0 && (*comp)->type == attr_pcomp_type_index) ==> (AP_RV >= 3 && (*comp)->index == (size_t)xv_ap_strtol_val && \
                                 xv_ap_strtol_val >= 0 && xv_ap_strtol_val < LONG_MAX))
/* PO[C19] attr_pcomp_parse.rejects_other_first_character */
__CPROVER_ensures_chars((path_str[0] != 0 && path_str[0] != ATTR_PATH_KEY_DELIM && path_str[0] != ATTR_PATH_INDEX_START) ==> AP_RV == -1)
/* PO[C19] attr_pcomp_parse.key_component_text */
__CPROVER_ensures_chars((AP_RV > 0 && (*comp)->type == attr_pcomp_type_key) ==> (path_str[0] == ATTR_PATH_KEY_DELIM && !AP_KEYCHAR(path_str[AP_RV])))
/* PO[C19] attr_pcomp_parse.key_is_exact_copy */
__CPROVER_ensures_chars((AP_RV > 0 && (*comp)->type == attr_pcomp_type_key && xv_ap_q < (size_t)AP_RV - 1) ==> \
                        ((*comp)->key[xv_ap_q] == path_str[1 + xv_ap_q] && AP_KEYCHAR(path_str[1 + xv_ap_q])))
/* PO[C19] attr_pcomp_parse.index_component_text */
__CPROVER_ensures_chars((AP_RV > 0 && (*comp)->type == attr_pcomp_type_index) ==> (path_str[0] == ATTR_PATH_INDEX_START && path_str[AP_RV - 1] == ATTR_PATH_INDEX_END))
/* PO[C19] attr_pcomp_parse.index_number_characters_only */
__CPROVER_ensures_chars((AP_RV > 0 && (*comp)->type == attr_pcomp_type_index && xv_ap_q < (size_t)AP_RV - 2) ==> AP_NUMCHAR(path_str[1 + xv_ap_q]))
;

/* ---- the heap shape of a path: slots 0..num_comps-1 hold live, pairwise distinct components, a key component owns a
 * live key string.  CBMC has no inductive heap predicates; the shape is WRITTEN OUT for AP_SHAPE_N = 4 slots, so every job
 * that takes a whole path as input (destroy, equal, len, to_str) is a BOUNDED stand-in: paths of 0..4 components (writing
 * out all ATTR_PATH_COMP_MAX = 64 slots exhausts the solver's memory in attr_path_destroy; 8 slots take 8 minutes).  Key strings live in objects
 * of AP_KEY_OBJ bytes with a NUL in the last byte: keys of 0..AP_KEY_OBJ-1 characters. */
#define AP_SHAPE_N 4
#define AP_KEY_OBJ 8
#define AP_SLOT_OK(p, i) ((i) < (p)->num_comps ==> (__CPROVER_is_fresh((p)->comps[i], sizeof(struct attr_pcomp)) && \
    ((p)->comps[i]->type == attr_pcomp_type_key || (p)->comps[i]->type == attr_pcomp_type_index) && \
    ((p)->comps[i]->type == attr_pcomp_type_key ==> (__CPROVER_is_fresh((p)->comps[i]->key, AP_KEY_OBJ) && (p)->comps[i]->key[AP_KEY_OBJ - 1] == 0))))
#define AP_PATH_SHAPE(p) ((p)->num_comps <= AP_SHAPE_N && \
    AP_SLOT_OK(p, 0) && \
    AP_SLOT_OK(p, 1) && \
    AP_SLOT_OK(p, 2) && \
    AP_SLOT_OK(p, 3))
#define AP_PATH_OK(p) (__CPROVER_is_fresh((p), sizeof(struct attr_path)) && AP_PATH_SHAPE(p))
#define AP_FREE_COMP(p, i) p != NULL && !xv_ap_trust_shape && i < p->num_comps: p->comps[i]
#define AP_FREE_KEY(p, i) p != NULL && !xv_ap_trust_shape && i < p->num_comps && p->comps[i]->type == attr_pcomp_type_key: p->comps[i]->key
#define AP_FREES_COMPS(p) AP_FREE_COMP(p, 0); \
    AP_FREE_COMP(p, 1); \
    AP_FREE_COMP(p, 2); \
    AP_FREE_COMP(p, 3)
#define AP_FREES_KEYS(p) AP_FREE_KEY(p, 0); \
    AP_FREE_KEY(p, 1); \
    AP_FREE_KEY(p, 2); \
    AP_FREE_KEY(p, 3)

/* ---- attr_path_destroy
 * xv_ap_trust_shape (ghost, never assigned): TRUE only in the job of attr_path_parse, whose loop contract cannot carry the
 * heap shape (loops/attrpath.loops).  There the call of attr_path_destroy on the failure path is replaced by this contract
 * with the shape part of the precondition TRUSTED (listed as an assumption; the shape of what attr_path_parse builds is
 * checked for all strings of the bounded jobs, with the real attr_path_destroy and --memory-leak-check).  In the job that
 * proves attr_path_destroy itself the flag is FALSE: the whole precondition is assumed and everything is proved freed. */
_Bool xv_ap_trust_shape;
struct attr_pcomp *xv_ap_g_comp; char *xv_ap_g_key;   /* ghost constants: component xv_ap_j and its key on entry */
void attr_path_destroy(struct attr_path *path)
__CPROVER_requires(path == NULL || (__CPROVER_is_fresh(path, sizeof(struct attr_path)) && path->num_comps <= ATTR_PATH_COMP_MAX))
__CPROVER_requires((path != NULL && !xv_ap_trust_shape) ==> AP_PATH_SHAPE(path))
__CPROVER_requires((path != NULL && !xv_ap_trust_shape && xv_ap_j < path->num_comps) ==> (xv_ap_g_comp == path->comps[xv_ap_j] && \
                   (path->comps[xv_ap_j]->type == attr_pcomp_type_key ==> xv_ap_g_key == path->comps[xv_ap_j]->key) && \
                   (path->comps[xv_ap_j]->type != attr_pcomp_type_key ==> xv_ap_g_key == NULL)))
__CPROVER_assigns()
__CPROVER_frees(path; AP_FREES_COMPS(path); AP_FREES_KEYS(path))
/* (was_freed clauses only where the contract is ENFORCED, -DXV_AP_DESTROY_JOB: assuming them at a replaced call trips
 * a check of CBMC's contracts library -- "ptr must exist in the contract's frees clause" -- although path is listed) */
/* PO[C19] attr_path_destroy.frees_path */
__CPROVER_ensures_destroy(path != NULL ==> __CPROVER_was_freed(path))
/* PO[C19] attr_path_destroy.frees_every_component */
__CPROVER_ensures_destroy((path != NULL && xv_ap_j < __CPROVER_old(path->num_comps)) ==> __CPROVER_was_freed(xv_ap_g_comp))
/* PO[C19] attr_path_destroy.frees_every_key */
__CPROVER_ensures_destroy((path != NULL && xv_ap_j < __CPROVER_old(path->num_comps) && xv_ap_g_key != NULL) ==> __CPROVER_was_freed(xv_ap_g_key))
__CPROVER_ensures(1)
;

/* ---- attr_path_parse (outer loop: loop contract, see loops/attrpath.loops) */
struct attr_path *attr_path_parse(const char *path_str, bool root)
__CPROVER_requires(AP_BASE_FRESH)
__CPROVER_requires(AP_BASE_STR)
__CPROVER_requires(__CPROVER_pointer_in_range_dfcc(xv_ap_base, path_str, xv_ap_base + AP_END) && AP_OFF(path_str) == AP_END - xv_ap_len)
__CPROVER_assigns(xv_ap_strtol_val, xv_ap_strtol_used)
__CPROVER_ensures(AP_RV == NULL || __CPROVER_is_fresh(AP_RV, sizeof(struct attr_path)))
/* PO[C10,C19] attr_path_parse.overlong_rejected */
__CPROVER_ensures(xv_ap_len > ATTR_PATH_NAME_MAX ==> AP_RV == NULL)
/* PO[C10,C19] attr_path_parse.comp_bound */
__CPROVER_ensures(AP_RV != NULL ==> AP_RV->num_comps <= ATTR_PATH_COMP_MAX)
/* PO[C19] attr_path_parse.empty_string_is_empty_path */
__CPROVER_ensures(xv_ap_len == 0 ==> (AP_RV != NULL && AP_RV->num_comps == 0))
/* PO[C19] attr_path_parse.nonempty_string_has_components */
__CPROVER_ensures((AP_RV != NULL && xv_ap_len > 0) ==> (AP_RV->num_comps >= 1 && 2 * AP_RV->num_comps <= xv_ap_len + 1))
/* PO[C19] attr_path_parse.unused_slots_null */
__CPROVER_ensures((AP_RV != NULL && xv_ap_j < ATTR_PATH_COMP_MAX && xv_ap_j >= AP_RV->num_comps) ==> AP_RV->comps[xv_ap_j] == NULL)
;

/* ---- accessors (the ut_assert()s of the real text are the API preconditions) */
size_t attr_path_num_comps(const struct attr_path *path)
__CPROVER_requires(__CPROVER_is_fresh(path, sizeof(struct attr_path)))
__CPROVER_assigns()
__CPROVER_ensures(AP_RV == path->num_comps)
;
const struct attr_pcomp *attr_path_get_comp(const struct attr_path *path, size_t comp_num)
__CPROVER_requires(__CPROVER_is_fresh(path, sizeof(struct attr_path)) && path->num_comps <= ATTR_PATH_COMP_MAX && comp_num < path->num_comps)
__CPROVER_assigns()
/* PO[C10] attr_path_get_comp.in_bounds_slot */
__CPROVER_ensures(AP_RV == path->comps[comp_num])
;
enum attr_pcomp_type attr_pcomp_get_type(const struct attr_pcomp *pcomp)
__CPROVER_requires(__CPROVER_is_fresh(pcomp, sizeof(struct attr_pcomp)))
__CPROVER_assigns()
__CPROVER_ensures(AP_RV == pcomp->type)
;
bool attr_pcomp_is_key(const struct attr_pcomp *pcomp)
__CPROVER_requires(__CPROVER_is_fresh(pcomp, sizeof(struct attr_pcomp)))
__CPROVER_assigns()
__CPROVER_ensures(AP_RV == (pcomp->type == attr_pcomp_type_key))
;
bool attr_pcomp_is_index(const struct attr_pcomp *pcomp)
__CPROVER_requires(__CPROVER_is_fresh(pcomp, sizeof(struct attr_pcomp)))
__CPROVER_assigns()
__CPROVER_ensures(AP_RV == (pcomp->type == attr_pcomp_type_index))
;
const char *attr_pcomp_get_key(const struct attr_pcomp *pcomp)
__CPROVER_requires(__CPROVER_is_fresh(pcomp, sizeof(struct attr_pcomp)) && pcomp->type == attr_pcomp_type_key)
__CPROVER_assigns()
__CPROVER_ensures(AP_RV == pcomp->key)
;
size_t attr_pcomp_get_index(const struct attr_pcomp *pcomp)
__CPROVER_requires(__CPROVER_is_fresh(pcomp, sizeof(struct attr_pcomp)) && pcomp->type == attr_pcomp_type_index)
__CPROVER_assigns()
__CPROVER_ensures(AP_RV == pcomp->index)
;

/* ---- attr_path_equal (bounded: AP_PATH_OK).  Sound and complete, stated for the arbitrary component xv_ap_j and the
 * arbitrary key position xv_ap_q: position q "counts" if no NUL precedes it in a's key (then it lies within a's string,
 * NUL included); two strings are equal iff they agree on every such position */
#define AP_EQ_A(a) ((a)->comps[xv_ap_j])
/* (v: name of the bound variable -- it must be unique within one contract) */
#define AP_Q_COUNTS(k, v) (xv_ap_q < AP_KEY_OBJ && __CPROVER_forall { size_t v; (v < AP_KEY_OBJ) ==> (v < xv_ap_q ==> (k)[v] != 0) })
#define AP_J_BOTH(a, b, t) (xv_ap_j < (a)->num_comps && (a)->num_comps == (b)->num_comps && AP_EQ_A(a)->type == (t) && AP_EQ_A(b)->type == (t))
bool attr_path_equal(const struct attr_path *path_a, const struct attr_path *path_b)
__CPROVER_requires(AP_PATH_OK(path_a))
__CPROVER_requires(AP_PATH_OK(path_b))
__CPROVER_assigns()
/* PO[C19] attr_path_equal.true_implies_same_components */
__CPROVER_ensures(AP_RV ==> (path_a->num_comps == path_b->num_comps && \
    (xv_ap_j < path_a->num_comps ==> AP_EQ_A(path_a)->type == AP_EQ_A(path_b)->type) && \
    (AP_J_BOTH(path_a, path_b, attr_pcomp_type_index) ==> AP_EQ_A(path_a)->index == AP_EQ_A(path_b)->index) && \
    ((AP_J_BOTH(path_a, path_b, attr_pcomp_type_key) && AP_Q_COUNTS(AP_EQ_A(path_a)->key, k1_)) ==> AP_EQ_A(path_a)->key[xv_ap_q] == AP_EQ_A(path_b)->key[xv_ap_q])))
/* PO[C19] attr_path_equal.false_if_sizes_differ */
__CPROVER_ensures(path_a->num_comps != path_b->num_comps ==> !AP_RV)
/* PO[C19] attr_path_equal.false_if_a_component_differs */
__CPROVER_ensures((xv_ap_j < path_a->num_comps && path_a->num_comps == path_b->num_comps && AP_EQ_A(path_a)->type != AP_EQ_A(path_b)->type) ==> !AP_RV)
__CPROVER_ensures((AP_J_BOTH(path_a, path_b, attr_pcomp_type_index) && AP_EQ_A(path_a)->index != AP_EQ_A(path_b)->index) ==> !AP_RV)
__CPROVER_ensures((AP_J_BOTH(path_a, path_b, attr_pcomp_type_key) && AP_Q_COUNTS(AP_EQ_A(path_a)->key, k2_) && \
                   AP_EQ_A(path_a)->key[xv_ap_q] != AP_EQ_A(path_b)->key[xv_ap_q]) ==> !AP_RV)
;

/* ---- attr_path_len / attr_path_to_str (bounded: AP_PATH_OK).  Ghost constants (never assigned) bound by AP_TEXT_OK:
 * xv_ap_klen[i] = strlen of key i, xv_ap_dlen[i] = number of decimal digits of index i (indices below LONG_MAX, as the
 * parser makes them: PO attr_pcomp_parse_index.value_in_range) */
size_t xv_ap_klen[AP_SHAPE_N], xv_ap_dlen[AP_SHAPE_N];
#define AP_TEXT_I(p, i) (((i) < (p)->num_comps && (p)->comps[i]->type == attr_pcomp_type_key) ==> \
        (xv_ap_klen[i] < AP_KEY_OBJ && (p)->comps[i]->key[xv_ap_klen[i]] == 0 && \
         __CPROVER_forall { size_t kk_##i; (kk_##i < AP_KEY_OBJ) ==> (kk_##i < xv_ap_klen[i] ==> (p)->comps[i]->key[kk_##i] != 0) })) && \
    (((i) < (p)->num_comps && (p)->comps[i]->type == attr_pcomp_type_index) ==> \
        ((p)->comps[i]->index < (size_t)LONG_MAX && xv_ap_dlen[i] >= 1 && xv_ap_dlen[i] <= 19 && \
         (xv_ap_dlen[i] == 1 || (p)->comps[i]->index >= xv_ap_p10[xv_ap_dlen[i] - 1]) && (p)->comps[i]->index < xv_ap_p10[xv_ap_dlen[i]]))
#define AP_TEXT_OK(p) (AP_TEXT_I(p, 0) && AP_TEXT_I(p, 1) && AP_TEXT_I(p, 2) && AP_TEXT_I(p, 3))
#define AP_LEN_I(p, i, root) ((i) >= (p)->num_comps ? (size_t)0 : (p)->comps[i]->type == attr_pcomp_type_key ? \
        xv_ap_klen[i] + (((i) == 0 && (root)) ? (size_t)0 : (size_t)1) : xv_ap_dlen[i] + 2)
#define AP_LEN(p, root) (AP_LEN_I(p, 0, root) + AP_LEN_I(p, 1, root) + AP_LEN_I(p, 2, root) + AP_LEN_I(p, 3, root))
_Static_assert(AP_SHAPE_N == 4, "AP_TEXT_OK / AP_LEN are written out for 4 slots");
/* a root path starts with a key (ut_assert in attr_path_len; attr_path_parse guarantees it) */
#define AP_ROOT_OK(p, root) ((root) ==> ((p)->num_comps == 0 || (p)->comps[0]->type == attr_pcomp_type_key))

size_t attr_path_len(const struct attr_path *path, bool root)
__CPROVER_requires(AP_PATH_OK(path))
__CPROVER_requires(AP_TEXT_OK(path) && AP_ROOT_OK(path, root))
__CPROVER_assigns()
/* PO[C19] attr_path_len.exact */
__CPROVER_ensures(AP_RV == AP_LEN(path, root))
;
/* attr_path_to_str has no contract job: its output buffer is a heap block of symbolic size written at symbolic offsets,
 * which exhausts the solver even for two components.  It is covered by the bounded plain-CBMC job roundtrip. */
#include "contracts/end.h"
#endif
