/* contracts/attrpath.h -- libxcm/core/attr_path.c (C10: no name string causes a crash; C19: paths are canonical)
 * ghost state, string layout and the AP_* character classes: harness/attrpath/_ghost.h */
#ifndef XV_ATTRPATH_H
#define XV_ATTRPATH_H
#include "contracts/begin.h"

_Static_assert(ATTR_PATH_INDEX_START == '[' && ATTR_PATH_INDEX_END == ']' && ATTR_PATH_KEY_DELIM == '.', "AP_SPECIAL in _ghost.h matches attr_path.h");
#define AP_BASE_FRESH (__CPROVER_is_fresh(xv_ap_base, AP_STR_MAX))
#ifdef XV_AP_E1
#define AP_BASE_STR (xv_ap_len <= AP_END && xv_ap_base[AP_END] == 0)
#else
#define AP_BASE_STR (xv_ap_len <= AP_END && xv_ap_base[AP_END] == 0 && \
                     __CPROVER_forall { size_t q_; (q_ < AP_END) ==> (q_ >= AP_END - xv_ap_len ==> xv_ap_base[q_] != 0) })
#endif
#define AP_START (xv_ap_base + (AP_END - xv_ap_len))
/* p points at a character (or the NUL) of a string that passed the length gate */
/* (pointer_in_range_dfcc, not same_object: symex resolves dereferences through value sets, an assumed same_object on a
 * nondeterministic pointer would leave its pointee unconstrained) */
#define AP_INSIDE(p) (xv_ap_len <= ATTR_PATH_NAME_MAX && __CPROVER_pointer_in_range_dfcc(xv_ap_base, (p), xv_ap_base + AP_END) && \
                      AP_OFF(p) >= AP_END - xv_ap_len)
#define AP_RV __CPROVER_return_value
/* a key component made by the parser: own object, own NUL-terminated key of n >= 1 key characters */
#define AP_IS_KEY(c, n) (__CPROVER_is_fresh((c), sizeof(struct attr_pcomp)) && (c)->type == attr_pcomp_type_key && \
                         __CPROVER_is_fresh((c)->key, (size_t)(n) + 1) && (c)->key[n] == 0)
/* the slot a component pointer is stored into: writable and still NULL (attr_path_parse gets its array from ut_calloc).
 * w_ok, not is_fresh: the harness hands in a slot it initialised itself, so that symex knows its old content (a slot made
 * by is_fresh holds a nondeterministic pointer, whose dereference in the ensures clauses fans out over every object of
 * the program: 2M variables) */
#define AP_SLOT(comp) (__CPROVER_w_ok((comp), sizeof(*(comp))) && *(comp) == NULL)
#define AP_IS_INDEX(c) (__CPROVER_is_fresh((c), sizeof(struct attr_pcomp)) && (c)->type == attr_pcomp_type_index)

/* ---- attr_pcomp_parse_key: longest non-empty run of key characters at path_str */
static int attr_pcomp_parse_key(const char *path_str, struct attr_pcomp **comp)
__CPROVER_requires(AP_BASE_FRESH && AP_SLOT(comp))
__CPROVER_requires(AP_BASE_STR)
__CPROVER_requires(AP_INSIDE(path_str))
__CPROVER_assigns(*comp)
__CPROVER_ensures(AP_RV == -1 || (AP_RV >= 1 && (size_t)AP_RV <= AP_REM(path_str)))
/* PO[C19] attr_pcomp_parse_key.rejects_iff_empty_key */
__CPROVER_ensures((AP_RV == -1) == !AP_KEYCHAR(path_str[0]))
__CPROVER_ensures(AP_RV == -1 ==> *comp == __CPROVER_old(*comp))
__CPROVER_ensures(AP_RV > 0 ==> AP_IS_KEY(*comp, AP_RV))
/* PO[C19] attr_pcomp_parse_key.key_is_exact_copy */
__CPROVER_ensures((AP_RV > 0 && xv_ap_q < (size_t)AP_RV) ==> ((*comp)->key[xv_ap_q] == path_str[xv_ap_q] && AP_KEYCHAR(path_str[xv_ap_q])))
/* PO[C19] attr_pcomp_parse_key.longest_match */
__CPROVER_ensures(AP_RV > 0 ==> !AP_KEYCHAR(path_str[AP_RV]))
;

/* ---- attr_pcomp_parse_index: "<index>]" at path_str (the '[' was consumed by the caller) */
static int attr_pcomp_parse_index(const char *path_str, struct attr_pcomp **comp)
__CPROVER_requires(AP_BASE_FRESH && AP_SLOT(comp))
__CPROVER_requires(AP_BASE_STR)
__CPROVER_requires(AP_INSIDE(path_str))
__CPROVER_assigns(*comp, xv_ap_strtol_val, xv_ap_strtol_used)
__CPROVER_ensures(AP_RV == -1 || (AP_RV >= 2 && (size_t)AP_RV <= AP_REM(path_str)))
__CPROVER_ensures(AP_RV == -1 ==> *comp == __CPROVER_old(*comp))
__CPROVER_ensures(AP_RV > 0 ==> AP_IS_INDEX(*comp))
/* PO[C19] attr_pcomp_parse_index.value_and_terminator */
__CPROVER_ensures(AP_RV > 0 ==> (xv_ap_strtol_used == (size_t)AP_RV - 1 && path_str[AP_RV - 1] == ATTR_PATH_INDEX_END && \
                                 xv_ap_strtol_val >= 0 && xv_ap_strtol_val < LONG_MAX && (*comp)->index == (size_t)xv_ap_strtol_val))
/* between the brackets there is nothing but what strtol consumed: no NUL, no special character */
__CPROVER_ensures((AP_RV > 0 && xv_ap_q < (size_t)AP_RV - 1) ==> AP_KEYCHAR(path_str[xv_ap_q]))
/* PO[C19] attr_pcomp_parse_index.digits_only */
__CPROVER_ensures((AP_RV > 0 && xv_ap_q < (size_t)AP_RV - 1) ==> AP_DIGIT(path_str[xv_ap_q]))
;
#include "contracts/end.h"
#endif
