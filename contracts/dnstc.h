/* contracts/dnstc.h -- name resolution and multi-address connect (C13), their resources (C08) and wake-ups (C04)
 *
 *   part DNS (XV_DNSTC_DNS): libxcm/tp/dns/xcm_dns_cares.c
 *   part TC  (XV_DNSTC_TC) : libxcm/tp/tcp/tconnect.c
 *
 * Attached to the REAL functions by redeclaration after the TU has been #included.  Contracts of functions of OTHER modules
 * (xpoll.c, timer_mgr.c, tcp_attr.c, common_tp.c, util.c) are ASSUMED here (to be enforced in their own units); they talk
 * about ghost counters only.
 */
#ifndef XV_DNSTC_H
#define XV_DNSTC_H
#include "contracts/begin.h"

#include "harness/dnstc/_ghost.h"

/* ==================================================================================================================== */
#ifdef XV_DNSTC_DNS
/* ==================================================================================================================== */


/* ---- xpoll.c (ASSUMED) ---- */
struct xpoll *xpoll_create(void *log_ref)
__CPROVER_requires(XV_DT_CNT_OK(xv_xpolls))
__CPROVER_assigns(xv_errno, xv_xpolls)
__CPROVER_ensures(__CPROVER_return_value == NULL || __CPROVER_is_fresh(__CPROVER_return_value, 1))
__CPROVER_ensures(__CPROVER_return_value == NULL ? (xv_errno > 0 && xv_xpolls == __CPROVER_old(xv_xpolls)) \
                                                 : (xv_errno == __CPROVER_old(xv_errno) && xv_xpolls == __CPROVER_old(xv_xpolls) + 1))
;
/* errno preserved (ut_close, free) */
void xpoll_destroy(struct xpoll *xpoll)
__CPROVER_requires(xpoll == NULL || xv_xpolls > 0)
__CPROVER_assigns(xv_xpolls)
__CPROVER_ensures(xv_xpolls == __CPROVER_old(xv_xpolls) - (xpoll != NULL ? 1 : 0))
;
int xpoll_get_fd(struct xpoll *xpoll)
__CPROVER_requires(xpoll != NULL)
__CPROVER_assigns()
__CPROVER_ensures(__CPROVER_return_value >= 0)
;

/* ---- the query interface as xcm_dns_resolve_sync (and btcp) sees it.  ENFORCED on the real bodies by the jobs
 * dnstc.dns_query_result, dnstc.dns_query_process, ...; ASSUMED in dnstc.dns_resolve_sync. */

/* a new query is in progress; NULL (nothing left behind) when the timer manager or the c-ares channel cannot be made */
#define Q_RESOLVE_ENSURES(rv) \
    (((rv) == NULL && xv_errno > 0 && xv_queries == __CPROVER_old(xv_queries)) || \
     ((rv) != NULL && (rv)->state == query_state_in_progress && xv_queries == __CPROVER_old(xv_queries) + 1 && xv_errno == __CPROVER_old(xv_errno)))

/* processing never leaves a terminal state (a finished query stays finished) */
#define Q_PROCESS_ENSURES(q) \
    (Q_STATE_OK(q) && (Q_TERMINAL(__CPROVER_old((q)->state)) ==> (q)->state == __CPROVER_old((q)->state)))

/* the result: in progress -> -1/EAGAIN; failed -> -1/ENOENT (and the ghost "a terminal failure has been reported" is set);
 * successful -> the number of addresses stored, 1..capacity */
#define Q_RESULT_ENSURES(rv, q, capacity) ( \
    ((q)->state == query_state_in_progress ==> ((rv) == -1 && xv_errno == EAGAIN && xv_q_failed_seen == __CPROVER_old(xv_q_failed_seen))) && \
    ((q)->state == query_state_failed ==> ((rv) == -1 && xv_errno == ENOENT && xv_q_failed_seen)) && \
    ((q)->state == query_state_successful ==> ((rv) >= 1 && (rv) <= (capacity) && (rv) <= XCM_DNS_MAX_RESULT_SIZE && \
                                               xv_errno == __CPROVER_old(xv_errno) && xv_q_failed_seen == __CPROVER_old(xv_q_failed_seen))) && \
    (q)->state == __CPROVER_old((q)->state))

struct xcm_dns_query *xcm_dns_resolve(const char *domain_name, struct xpoll *xpoll, double timeout, void *log_ref)
__CPROVER_requires(xpoll != NULL && domain_name != NULL)
__CPROVER_assigns(xv_errno, xv_queries)
__CPROVER_ensures(__CPROVER_return_value == NULL || __CPROVER_is_fresh(__CPROVER_return_value, sizeof(struct xcm_dns_query)))
__CPROVER_ensures(Q_RESOLVE_ENSURES(__CPROVER_return_value))
__CPROVER_ensures(__CPROVER_return_value != NULL ==> Q_OK(__CPROVER_return_value))
;
void xcm_dns_query_process(struct xcm_dns_query *query)
__CPROVER_requires(query != NULL && Q_OK(query))
__CPROVER_assigns(__CPROVER_object_whole(query))
__CPROVER_ensures(Q_OK(query) && Q_PROCESS_ENSURES(query))
;
int xcm_dns_query_result(struct xcm_dns_query *query, struct xcm_addr_ip *ips, int capacity)
__CPROVER_requires(query != NULL && Q_OK(query) && capacity >= 1 && capacity <= XCM_DNS_MAX_RESULT_SIZE)
__CPROVER_requires(__CPROVER_w_ok(ips, sizeof(struct xcm_addr_ip) * capacity))
__CPROVER_assigns(xv_errno, xv_q_failed_seen, __CPROVER_object_upto(query->channel_fd_reg_ids, sizeof(query->channel_fd_reg_ids)))
__CPROVER_assigns(__CPROVER_object_upto(ips, sizeof(struct xcm_addr_ip) * capacity))
__CPROVER_ensures(Q_RESULT_ENSURES(__CPROVER_return_value, query, capacity))
;
/* errno preserved: see job dnstc.dns_query_destroy */
void xcm_dns_query_destroy(struct xcm_dns_query *query, bool owner)
__CPROVER_requires(query == NULL || Q_OK(query))
__CPROVER_assigns(xv_queries)
__CPROVER_ensures(xv_queries == __CPROVER_old(xv_queries) - (query != NULL ? 1 : 0))
;

/* ---- xcm_dns_resolve_sync ------------------------------------------------------------------------------------------ */
#define HOST_IS_NAME(h) ((h)->type != xcm_addr_type_ip)
int xcm_dns_resolve_sync(struct xcm_addr_host *host, void *log_ref)
__CPROVER_requires(__CPROVER_is_fresh(host, sizeof(*host)))
__CPROVER_requires(XV_DT_CNT_OK(xv_xpolls) && XV_DT_CNT_OK(xv_queries) && !xv_q_failed_seen && !xv_polled_after_fail && !xv_polled)
__CPROVER_assigns(XV_POLL_ASSIGNS, xv_xpolls, xv_queries, xv_q_failed_seen, host->type, __CPROVER_object_upto(&host->ip, sizeof(struct xcm_addr_ip)))
__CPROVER_ensures(__CPROVER_return_value == 0 || __CPROVER_return_value == -1)
/* PO[C13] resolve_sync.ip_needs_no_resolution: a literal address is left alone: no xpoll, no query, no poll() */
__CPROVER_ensures(__CPROVER_old(host->type) == xcm_addr_type_ip ==> (__CPROVER_return_value == 0 && !xv_polled && xv_errno == __CPROVER_old(xv_errno)))
/* PO[C13] resolve_sync.failure_is_reported_as_ENOENT: once xcm_dns_query_result has reported a terminal failure the function returns -1 with ENOENT */
__CPROVER_ensures(xv_q_failed_seen ==> (__CPROVER_return_value == -1 && xv_errno == ENOENT))
/* PO[C13] resolve_sync.no_wait_after_failure: ... and it does so WITHOUT waiting on poll() again (it does not hang) */
__CPROVER_ensures(!xv_polled_after_fail)
/* PO[C13] resolve_sync.success_is_an_address: 0 only with an IP address stored in *host */
__CPROVER_ensures(__CPROVER_return_value == 0 ==> (host->type == xcm_addr_type_ip && !xv_q_failed_seen))
/* PO[C13] resolve_sync.failure_keeps_the_name_tag: a failed resolution does not turn the host into an "IP" one */
__CPROVER_ensures(__CPROVER_return_value == -1 ==> host->type == __CPROVER_old(host->type))
/* PO[C08] resolve_sync.releases_everything: the temporary xpoll instance and the query are gone on every path */
__CPROVER_ensures(xv_xpolls == __CPROVER_old(xv_xpolls) && xv_queries == __CPROVER_old(xv_queries))
/* the wait is on the xpoll descriptor, for input, without timeout (the query's own timer makes it finite) */
__CPROVER_ensures(xv_polled ==> (xv_poll_fd >= 0 && xv_poll_events == POLLIN && xv_poll_timeout == -1))
;

#endif /* XV_DNSTC_DNS */


/* ==================================================================================================================== */
#ifdef XV_DNSTC_TC
/* ==================================================================================================================== */
#ifndef TRK_MAX_IPS
#define TRK_MAX_IPS 32                      /* XCM_DNS_MAX_RESULT_SIZE: the longest list a resolver query hands out       */
#endif
#define FAM_OK(f) ((f) == AF_INET || (f) == AF_INET6)
#define XV_ERRNO_OK(e) ((e) >= 1 && (e) <= XV_ERRNO_MAX)
#define XV_UPD(x, cond, val) ((cond) ? (x) == (val) : (x) == __CPROVER_old(x))
#define XV_SAME(x) ((x) == __CPROVER_old(x))

/* ---- other modules (ASSUMED): ghost counters and last-call records -------------------------------------------------- */

/* tcp_attr.c: applies the options to fd; 0, or -1 with the errno of the option that failed.  Begins an attempt (log). */
#define XV_TRACK_OF(opts) ((struct track *)((char *)(opts) - offsetof(struct track, tcp_opts)))
int tcp_opts_effectuate(struct tcp_opts *opts, int fd)
__CPROVER_requires(XV_FD_OURS(fd) && __CPROVER_r_ok(opts, sizeof(*opts)))
/* the options are the snapshot held in a struct track (that track is the one the attempt log follows) */
__CPROVER_requires(__CPROVER_POINTER_OFFSET(opts) == offsetof(struct track, tcp_opts) && __CPROVER_OBJECT_SIZE(opts) == sizeof(struct track))
__CPROVER_assigns(xv_errno, xv_eff, xv_pre, xv_fail, xv_arow)
__CPROVER_ensures(__CPROVER_return_value == 0 || (__CPROVER_return_value == -1 && XV_ERRNO_OK(xv_errno)))
__CPROVER_ensures(xv_eff_n == __CPROVER_old(xv_eff_n) + 1 && xv_eff_fd == fd && xv_eff_rc == __CPROVER_return_value && xv_eff_opts == (const void *)opts)
__CPROVER_ensures(xv_trk == (void *)XV_TRACK_OF(opts) && !xv_tcn_top && xv_pre_bind_fd == -1 && xv_pre_eff_fd == (__CPROVER_return_value == 0 ? fd : -1))
__CPROVER_ensures(XV_UPD(xv_fail_n, __CPROVER_return_value < 0, __CPROVER_old(xv_fail_n) + 1) && XV_UPD(xv_fail_errno, __CPROVER_return_value < 0, xv_errno))
__CPROVER_ensures(XV_UPD(xv_att_begun, XV_TRACK_OF(opts)->ip_idx == xv_ai, __CPROVER_old(xv_att_begun) + 1))
__CPROVER_ensures(XV_UPD(xv_att_failed, XV_TRACK_OF(opts)->ip_idx == xv_ai && __CPROVER_return_value < 0, __CPROVER_old(xv_att_failed) + 1))
__CPROVER_ensures(XV_UPD(xv_att_errno, XV_TRACK_OF(opts)->ip_idx == xv_ai && __CPROVER_return_value < 0, xv_errno))
__CPROVER_ensures(XV_SAME(xv_att_conn) && XV_SAME(xv_att_conn_rc) && XV_SAME(xv_att_conn_errno) && XV_SAME(xv_att_conn_fd) && XV_SAME(xv_att_conn_src))
;
/* common_tp.c: builds a sockaddr_in / sockaddr_in6 (aborts on any other family) */
void tp_ip_to_sockaddr(const struct xcm_addr_ip *xcm_ip, uint16_t port, int64_t scope, struct sockaddr *sockaddr)
__CPROVER_requires(__CPROVER_r_ok(xcm_ip, sizeof(*xcm_ip)) && FAM_OK(xcm_ip->family) && __CPROVER_w_ok(sockaddr, sizeof(struct sockaddr_storage)))
/* PO[C13,C11] tp_ip_to_sockaddr.scope_in_range (precondition, checked at every call site): -1 ("not set") or an interface index 0..UINT32_MAX.  Unit addrpub
 * enforces the function under the stronger `AF_INET6 ==> 0 <= scope`; the one call that can break that is the bind() address of an IPv6 xcm.local_addr on the
 * IPv4 descriptor of a track, which the kernel refuses for its family.  That the DESTINATION of connect() never carries the marker is part of
 * "every attempt goes to the listed address" (env/dnstc_env.h connect(): xv_wrong_addr; fix 3e146f1) */
__CPROVER_requires(scope >= -1 && scope <= 0xffffffffLL)
__CPROVER_assigns(__CPROVER_object_upto(sockaddr, sizeof(struct sockaddr_storage)), xv_sa)
__CPROVER_ensures(sockaddr->sa_family == xcm_ip->family)
__CPROVER_ensures(xv_sa_src == (const void *)xcm_ip && xv_sa_dst == (const void *)sockaddr && xv_sa_port == port && xv_sa_scope == scope)
;
#define XV_KC_BIND_SAME (XV_SAME(xv_kc.bind_calls) && XV_SAME(xv_kc.bind_ok_calls) && XV_SAME(xv_kc.bind_fd))
#define XV_EST_SAME (XV_SAME(xv_est_n) && XV_SAME(xv_est_fd) && XV_SAME(xv_est_rc) && XV_SAME(xv_est_errno))
#define XV_XP_REG_SAME (XV_SAME(xv_reg_fd) && XV_SAME(xv_reg_event) && XV_SAME(xv_reg_id))
#define XV_TM_SCHED_SAME (XV_SAME(xv_sched_id) && XV_SAME(xv_sched_timeout) && XV_SAME(xv_sched_mgr))
#define XV_TM_EXP_SAME (XV_SAME(xv_expired_ret) && XV_SAME(xv_expired_n))
/* xpoll.c: registers an open descriptor (aborts if it is registered already or epoll refuses); errno untouched */
int xpoll_fd_reg_add(struct xpoll *xpoll, int fd, int event)
__CPROVER_requires(xpoll != NULL && XV_FD_OURS(fd) && XV_DT_CNT_OK(xv_regs))
__CPROVER_assigns(xv_xp)
__CPROVER_ensures(__CPROVER_return_value >= 0 && xv_regs == __CPROVER_old(xv_regs) + 1 && xv_reg_fd == fd && xv_reg_event == event && xv_reg_id == __CPROVER_return_value && XV_SAME(xv_del_id))
;
void xpoll_fd_reg_del(struct xpoll *xpoll, int reg_id)
__CPROVER_requires(xpoll != NULL && reg_id >= 0 && xv_regs > 0)
__CPROVER_assigns(xv_xp)
__CPROVER_ensures(xv_regs == __CPROVER_old(xv_regs) - 1 && xv_del_id == reg_id && XV_XP_REG_SAME)
;
void xpoll_fd_reg_del_if_valid(struct xpoll *xpoll, int reg_id)
__CPROVER_requires(xpoll != NULL && (reg_id < 0 || xv_regs > 0))
__CPROVER_assigns(xv_xp)
__CPROVER_ensures((reg_id >= 0 ? (xv_regs == __CPROVER_old(xv_regs) - 1 && xv_del_id == reg_id) : (XV_SAME(xv_regs) && XV_SAME(xv_del_id))) && XV_XP_REG_SAME)
;
/* timer_mgr.c.  A timer id >= 0 held by the caller names a LIVE timer (typestate kept by the contracts below);
 * timer_mgr_has_expired and timer_mgr_ack dereference / assert the timer, so they need a live one. */
int64_t timer_mgr_schedule(struct timer_mgr *mgr, double relative_timeout)
__CPROVER_requires(mgr != NULL && XV_DT_CNT_OK(xv_timers))
__CPROVER_assigns(xv_tm)
__CPROVER_ensures(__CPROVER_return_value >= 0 && xv_timers == __CPROVER_old(xv_timers) + 1)
__CPROVER_ensures(xv_sched_id == __CPROVER_return_value && xv_sched_timeout == relative_timeout && xv_sched_mgr == (const void *)mgr && XV_TM_EXP_SAME)
;
bool timer_mgr_has_expired(struct timer_mgr *mgr, int64_t timer_id)
__CPROVER_requires(mgr != NULL && timer_id >= 0 && xv_timers > 0)
__CPROVER_assigns(xv_tm)
__CPROVER_ensures(__CPROVER_return_value == xv_expired_ret && xv_expired_n == __CPROVER_old(xv_expired_n) + 1 && XV_SAME(xv_timers) && XV_TM_SCHED_SAME)
;
void timer_mgr_ack(struct timer_mgr *mgr, int64_t *timer_id)
__CPROVER_requires(mgr != NULL && __CPROVER_rw_ok(timer_id, sizeof(*timer_id)) && *timer_id >= 0 && xv_timers > 0)
__CPROVER_assigns(*timer_id, xv_tm)
__CPROVER_ensures(*timer_id == -1 && xv_timers == __CPROVER_old(xv_timers) - 1 && XV_TM_SCHED_SAME && XV_TM_EXP_SAME)
;
void timer_mgr_cancel(struct timer_mgr *mgr, int64_t *timer_id)
__CPROVER_requires(mgr != NULL && __CPROVER_rw_ok(timer_id, sizeof(*timer_id)) && (*timer_id < 0 || xv_timers > 0))
__CPROVER_assigns(*timer_id, xv_tm)
__CPROVER_ensures(*timer_id == -1 && xv_timers == __CPROVER_old(xv_timers) - (__CPROVER_old(*timer_id) >= 0 ? 1 : 0) && XV_TM_SCHED_SAME && XV_TM_EXP_SAME)
;
/* util.c: SO_ERROR of a descriptor whose connect() was in progress: 0 connected, -1/EINPROGRESS not yet, -1/e failed with e */
int ut_established(int fd)
__CPROVER_requires(XV_FD_OURS(fd))
__CPROVER_assigns(xv_errno, xv_est)
__CPROVER_ensures(__CPROVER_return_value == 0 || (__CPROVER_return_value == -1 && XV_ERRNO_OK(xv_errno)))
__CPROVER_ensures(xv_est_n == __CPROVER_old(xv_est_n) + 1 && xv_est_fd == fd && xv_est_rc == __CPROVER_return_value && \
                  xv_est_errno == (__CPROVER_return_value < 0 ? xv_errno : 0))
;

/* ---- struct track: representation ----------------------------------------------------------------------------------- */
#define TRK_FD_OK(fd) ((fd) == -1 || (XV_FD_OURS(fd) && xv_fdt.e[fd].nonblock))
#define TRK_NUM_OK(t) ((t)->num_remote_ips >= 0 && (t)->num_remote_ips <= TRK_MAX_IPS)
#define TRK_IPS_BYTES(t) (sizeof(struct xcm_addr_ip) * ((t)->num_remote_ips > 0 ? (t)->num_remote_ips : 1))
/* every address of the list is an IPv4 or an IPv6 one (get_ip / host_parse produce nothing else) */
#define TRK_FAMS_OK_V(t, v) __CPROVER_forall { int v; (0 <= v && v < TRK_MAX_IPS) ==> (v < (t)->num_remote_ips ==> FAM_OK((t)->remote_ips[v].family)) }
#define TRK_FAMS_OK(t) TRK_FAMS_OK_V(t, xv_q)
#define TRK_FDS_OK(t) (TRK_FD_OK((t)->fd4) && TRK_FD_OK((t)->fd6) && ((t)->fd4 < 0 || (t)->fd4 != (t)->fd6))
#define TRK_IDX_OK(t) ((t)->ip_idx >= -1 && (t)->ip_idx < ((t)->num_remote_ips > 0 ? (t)->num_remote_ips : 0))
#define TRK_LOCAL_OK(t) ((t)->local_ip == NULL || FAM_OK((t)->local_ip->family))
/* the local address a track binds to is the track's OWN copy (fix 987216f: it used to be a pointer into begin_connect()'s stack frame, read by every attempt
 * begun after begin_connect() had returned): NULL when no local address was given, otherwise &t->local_ip_data holding the caller's family and address bytes */
#define TRK_LOCAL_OWNED(t, lip) ((lip) == NULL ? (t)->local_ip == NULL : ((t)->local_ip == &(t)->local_ip_data && (t)->local_ip_data.family == (lip)->family && \
                                 (t)->local_ip_data.addr.ip6[xv_mc & 15] == (lip)->addr.ip6[xv_mc & 15]))
#define TRK_SUPP(t, fam) ((fam) == AF_INET ? (t)->fd4 >= 0 : (t)->fd6 >= 0)
#define TRK_FAM(t, i) ((t)->remote_ips[i].family)
#define TRK_CUR_OK(t) ((t)->ip_idx >= 0 && TRK_SUPP(t, TRK_FAM(t, (t)->ip_idx)))
#define TRK_CURFD(t) (TRK_FAM(t, (t)->ip_idx) == AF_INET ? (t)->fd4 : (t)->fd6)
#define TRK_AI_IN(t) (xv_ai >= 0 && xv_ai < (t)->num_remote_ips)
#define TRK_GHOST_OK_S(slack) (XV_DT_CNT_OK(xv_regs) && XV_DT_CNT_OK(xv_timers) && xv_regs < XV_DT_CNT_MAX - (slack) && xv_timers < XV_DT_CNT_MAX - (slack) && \
                               xv_pre_eff_fd == -1 && xv_pre_bind_fd == -1)
#define TRK_GHOST_OK(t) TRK_GHOST_OK_S(2)
#define XV_FK_SAME_TC (xv_fdt.e[xv_fk].open == __CPROVER_old(xv_fdt.e[xv_fk].open) && (xv_fdt.e[xv_fk].open ==> xv_fdt.e[xv_fk].nonblock == __CPROVER_old(xv_fdt.e[xv_fk].nonblock)))
/* no descriptor opened, closed or altered */
#define TRK_FDT_SAME (XV_FK_SAME_TC && XV_SAME(xv_open_cnt) && XV_SAME(xv_close_calls) && XV_SAME(xv_socket_calls))

#define TRK_FRESH(t) (__CPROVER_is_fresh(t, sizeof(struct track)))
#define TRK_IPS_FRESH(t) (__CPROVER_is_fresh((t)->remote_ips, TRK_IPS_BYTES(t)))
#define TRK_IPS_FREEABLE(t) (__CPROVER_is_fresh((t)->remote_ips, 1))
/* (where this precondition is CHECKED - at calls replaced by a contract - the address is the track's own copy; where it is ASSUMED see the note at tconnect_connect) */
#ifdef XV_TRK_OWNED_AT_CALLS     /* job dnstc.track_create: the only job where a track made by the real track_create reaches a replaced callee */
#define TRK_LOCAL_FRESH(t) ((t)->local_ip == NULL || (t)->local_ip == &(t)->local_ip_data || __CPROVER_is_fresh((t)->local_ip, sizeof(struct xcm_addr_ip)))
#else
#define TRK_LOCAL_FRESH(t) ((t)->local_ip == NULL || __CPROVER_is_fresh((t)->local_ip, sizeof(struct xcm_addr_ip)))
#endif
#define TRK_REQUIRES_SHAPE(t) TRK_REQUIRES_SHAPE_V(t, xv_q)
/* (scope: -1 = not set, otherwise an interface index: set_scope_attr admits 0..UINT32_MAX only - enforced in unit btcp) */
#define SCOPE_OK(sc) ((sc) >= -1 && (sc) <= 0xffffffffLL)
#define TRK_REQUIRES_SHAPE_V(t, v) (TRK_FAMS_OK_V(t, v) && TRK_FDS_OK(t) && TRK_IDX_OK(t) && TRK_LOCAL_OK(t) && SCOPE_OK((t)->scope) && (t)->timer_mgr != NULL && (t)->xpoll != NULL && \
                               xv_fk >= 0 && xv_fk < XV_NFD && (t)->tcp_connect_timeout == (t)->tcp_connect_timeout /* not NaN */)
#define TRK_REQUIRES_REST(t) (TRK_REQUIRES_SHAPE(t) && TRK_GHOST_OK(t))

#define TRK_ASSIGNS(t) (t)->ip_idx, (t)->state, (t)->badness_reason, (t)->fd_reg_id, (t)->timer_id
#define TCN_GHOST_ASSIGNS xv_errno, xv_tc.att

#define XV_AROW_SAME (XV_SAME(xv_att_begun) && XV_SAME(xv_att_failed) && XV_SAME(xv_att_conn) && XV_SAME(xv_att_errno) && XV_SAME(xv_att_conn_rc) && \
                      XV_SAME(xv_att_conn_errno) && XV_SAME(xv_att_conn_fd) && XV_SAME(xv_att_conn_src))
/* ---- track_connect_next: the postconditions, parameterised by the index (i0) and the badness reason (b0) the walk starts from -- */
/* outcome is one of: an attempt in progress, connected, list exhausted */
#define TCN_STATE(t) ((t)->state == track_state_connecting || (t)->state == track_state_connected || (t)->state == track_state_bad)
/* the index moves strictly forward to an address whose family the track has a descriptor for; exhausted: it stays on the last address tried */
#define TCN_IDX(t, i0) (((t)->state != track_state_bad ==> ((t)->ip_idx > (i0) && (t)->ip_idx < (t)->num_remote_ips && TRK_CUR_OK(t))) && \
                        ((t)->state == track_state_bad ==> ((t)->ip_idx >= (i0) && TRK_IDX_OK(t))))
/* address xv_ai was passed over: its family has no descriptor and it was never touched, or EXACTLY ONE attempt was made on it and failed */
#define TCN_SKIPPED(t, i0) ((TRK_AI_IN(t) && xv_ai > (i0) && ((t)->state == track_state_bad || xv_ai < (t)->ip_idx)) ==> \
        (TRK_SUPP(t, TRK_FAM(t, xv_ai)) \
            ? (xv_att_begun == __CPROVER_old(xv_att_begun) + 1 && xv_att_failed == __CPROVER_old(xv_att_failed) + 1 && XV_ERRNO_OK(xv_att_errno) && \
               xv_att_conn - __CPROVER_old(xv_att_conn) <= 1u && \
               (xv_att_conn != __CPROVER_old(xv_att_conn) ==> (xv_att_conn_src == (const void *)&(t)->remote_ips[xv_ai] && xv_att_conn_rc == -1 && \
                                                              xv_att_conn_errno == xv_att_errno && xv_att_errno != EINPROGRESS))) \
            : (XV_SAME(xv_att_begun) && XV_SAME(xv_att_failed) && XV_SAME(xv_att_conn))))
/* the walk stops at the first address whose connect() succeeds or is in progress: nothing beyond it (and nothing at or before the start) is touched */
#define TCN_UNTOUCHED(t, i0) ((xv_ai <= (i0) || ((t)->state != track_state_bad && xv_ai > (t)->ip_idx) || !TRK_AI_IN(t)) ==> \
        XV_AROW_SAME)
/* the address it stops at: one attempt, no failed step, one connect() on the descriptor of its family, to THAT address, with the reported outcome */
#define TCN_CURRENT(t, i0) (((t)->state != track_state_bad && xv_ai == (t)->ip_idx) ==> \
        (xv_att_begun == __CPROVER_old(xv_att_begun) + 1 && XV_SAME(xv_att_failed) && xv_att_conn == __CPROVER_old(xv_att_conn) + 1 && \
         xv_att_conn_fd == TRK_CURFD(t) && xv_att_conn_src == (const void *)&(t)->remote_ips[xv_ai] && \
         ((t)->state == track_state_connected ? xv_att_conn_rc == 0 : (xv_att_conn_rc == -1 && xv_att_conn_errno == EINPROGRESS))))
/* badness_reason is at all times the errno of the LAST failed attempt; an exhausted list without any: ENOENT */
#define TCN_REASON(t, b0) ((xv_fail_n != __CPROVER_old(xv_fail_n) ? ((t)->badness_reason == xv_fail_errno && XV_ERRNO_OK(xv_fail_errno)) \
            : (XV_SAME(xv_fail_errno) && (t)->badness_reason == (((t)->state == track_state_bad && (b0) == 0) ? ENOENT : (b0)))))
/* at most one failed step and one connect() per address passed over (the counters are unsigned and wrap: this is also what makes
 * "xv_fail_n changed" mean "a step failed") */
#define TCN_END(t) ((t)->state == track_state_bad ? (t)->num_remote_ips : (t)->ip_idx)
#define TCN_BOUNDED(t, i0) (xv_fail_n - __CPROVER_old(xv_fail_n) <= (unsigned)(TCN_END(t) - (i0) - 1) && \
                            xv_conn_n - __CPROVER_old(xv_conn_n) <= (unsigned)(TCN_END(t) - (i0) - 1) + ((t)->state != track_state_bad ? 1u : 0u))
/* EVERY attempt: options snapshot applied to the descriptor, then (local address configured) bound to it, registered, then connect() to remote_ips[ip_idx]:remote_port */
#define TCN_ORDER(t) (XV_SAME(xv_unprepared) && XV_SAME(xv_wrong_addr) && XV_SAME(xv_unregistered) && \
                      ((t)->local_ip != NULL ? XV_SAME(xv_unbound) : XV_SAME(xv_kc.bind_calls)) && xv_pre_eff_fd == -1 && xv_pre_bind_fd == -1)
/* every attempt but the one it stopped at was dissolved again (connect(AF_UNSPEC)) -- only attempts that got as far as connect() */
#define TCN_ABORTED(t) (xv_disc_n - __CPROVER_old(xv_disc_n) == (xv_conn_n - __CPROVER_old(xv_conn_n)) - ((t)->state != track_state_bad ? 1u : 0u))
/* C04: in progress => the descriptor is registered for EPOLLOUT and the connect timer is armed with tcp_connect_timeout */
#define TCN_REGISTERED(t) ((t)->fd_reg_id >= 0 && (t)->fd_reg_id == xv_reg_id && xv_reg_fd == TRK_CURFD(t) && xv_reg_event == EPOLLOUT)
#define TCN_WAKEUP(t) (((t)->state == track_state_connecting ==> (TCN_REGISTERED(t) && (t)->timer_id >= 0 && (t)->timer_id == xv_sched_id && \
                                                                   xv_sched_timeout == (t)->tcp_connect_timeout && xv_sched_mgr == (const void *)(t)->timer_mgr)) && \
                       ((t)->state == track_state_connected ==> (TCN_REGISTERED(t) && (t)->timer_id == -1)))
/* C08: what the track holds afterwards: r0/t0 = registrations/timers before */
#define TCN_RESOURCES(t, r0, t0) (xv_regs == (r0) + ((t)->state != track_state_bad ? 1 : 0) && xv_timers == (t0) + ((t)->state == track_state_connecting ? 1 : 0) && \
                          ((t)->state == track_state_bad ==> ((t)->fd_reg_id == -1 && (t)->timer_id == -1)) && TRK_FDT_SAME)

static void track_connect_next(struct track *track)
__CPROVER_requires(TRK_FRESH(track) && TRK_NUM_OK(track))
__CPROVER_requires(TRK_IPS_FRESH(track))
__CPROVER_requires(TRK_LOCAL_FRESH(track))
__CPROVER_requires(TRK_REQUIRES_REST(track))
__CPROVER_requires(track->state == track_state_connecting && track->fd_reg_id == -1 && track->timer_id == -1)
#ifdef XV_TCN_I0
/* CASE SPLIT of job dnstc.track_connect_next@iNN (one variant per start index -1..31; the union is every index TRK_IDX_OK admits).
 * The address loop is closed by unwinding; started from a SYMBOLIC index every unwound iteration reads the list at a symbolic
 * offset and the proof costs O(n^2) (4 minutes for n = 32); from a CONSTANT index it is linear (seconds).  Only the TOP call of
 * a variant is pinned to its index: xv_tcn_top is set by the harness and cleared by the first tcp_opts_effectuate, so the
 * recursive calls are checked against, and replaced by, the general contract.  Jobs that replace track_connect_next do not
 * define XV_TCN_I0: they use the general contract, which is what the variants together establish (induction on the number
 * of addresses left). */
__CPROVER_requires(xv_tcn_top ==> track->ip_idx == XV_TCN_I0)
#endif
__CPROVER_assigns(TRK_ASSIGNS(track), TCN_GHOST_ASSIGNS)
/* PO[C13] track_connect_next.outcome */
__CPROVER_ensures(TCN_STATE(track))
/* PO[C13] track_connect_next.index_strictly_increases */
__CPROVER_ensures(TCN_IDX(track, __CPROVER_old(track->ip_idx)))
/* PO[C13] track_connect_next.skipped_means_unsupported_or_failed_attempt */
__CPROVER_ensures(TCN_SKIPPED(track, __CPROVER_old(track->ip_idx)))
/* PO[C13] track_connect_next.stops_at_first_success_or_in_progress */
__CPROVER_ensures(TCN_UNTOUCHED(track, __CPROVER_old(track->ip_idx)))
/* PO[C13] track_connect_next.current_attempt */
__CPROVER_ensures(TCN_CURRENT(track, __CPROVER_old(track->ip_idx)))
/* PO[C13,C06] track_connect_next.errno_of_last_failed_attempt */
__CPROVER_ensures(TCN_REASON(track, __CPROVER_old(track->badness_reason)))
/* PO[C13] track_connect_next.one_attempt_per_address */
__CPROVER_ensures(TCN_BOUNDED(track, __CPROVER_old(track->ip_idx)))
/* PO[C13] track_connect_next.options_bind_register_before_connect */
__CPROVER_ensures(TCN_ORDER(track))
/* PO[C13,C08] track_connect_next.failed_attempts_dissolved */
__CPROVER_ensures(TCN_ABORTED(track))
/* PO[C04] track_connect_next.in_progress_is_registered_and_timed */
__CPROVER_ensures(TCN_WAKEUP(track))
/* PO[C08] track_connect_next.resources */
__CPROVER_ensures(TCN_RESOURCES(track, __CPROVER_old(xv_regs), __CPROVER_old(xv_timers)))
/* frame inside the ghost object: no timer is polled, no SO_ERROR read */
__CPROVER_ensures(XV_TM_EXP_SAME && XV_EST_SAME)
;

#define XV_CONN_ATT_SAME (XV_SAME(xv_conn_n) && XV_SAME(xv_conn_idx) && XV_SAME(xv_conn_fd) && XV_SAME(xv_conn_rc) && XV_SAME(xv_conn_errno) && \
                          XV_SAME(xv_unprepared) && XV_SAME(xv_unbound) && XV_SAME(xv_wrong_addr) && XV_SAME(xv_unregistered))
/* ---- track_abort_connect -------------------------------------------------------------------------------------------- */
static void track_abort_connect(struct track *track)
__CPROVER_requires(TRK_FRESH(track) && TRK_NUM_OK(track))
__CPROVER_requires(TRK_IPS_FRESH(track))
__CPROVER_requires(TRK_LOCAL_FRESH(track))
__CPROVER_requires(TRK_REQUIRES_SHAPE(track) && TRK_CUR_OK(track))
__CPROVER_requires(XV_DT_CNT_OK(xv_regs) && XV_DT_CNT_OK(xv_timers))
__CPROVER_requires((track->fd_reg_id < 0 || xv_regs > 0) && (track->timer_id < 0 || xv_timers > 0))
__CPROVER_assigns(track->fd_reg_id, track->timer_id, xv_errno, xv_xp, xv_tm, xv_kc, xv_conn)
/* PO[C08] track_abort_connect.releases_registration_and_timer */
__CPROVER_ensures(track->fd_reg_id == -1 && track->timer_id == -1 && xv_regs == __CPROVER_old(xv_regs) - (__CPROVER_old(track->fd_reg_id) >= 0 ? 1 : 0) && \
                  xv_timers == __CPROVER_old(xv_timers) - (__CPROVER_old(track->timer_id) >= 0 ? 1 : 0))
/* PO[C13,C08] track_abort_connect.dissolves_the_attempt: one connect(AF_UNSPEC) on the descriptor of the current address; the descriptor stays open for the next address */
__CPROVER_ensures(xv_disc_n == __CPROVER_old(xv_disc_n) + 1 && xv_disc_fd == TRK_CURFD(track) && TRK_FDT_SAME)
__CPROVER_ensures(xv_kc.connect_calls == __CPROVER_old(xv_kc.connect_calls) + 1 && xv_kc.connect_fd == TRK_CURFD(track) && \
                  xv_kc.connect_ok_calls - __CPROVER_old(xv_kc.connect_ok_calls) <= 1u && XV_KC_BIND_SAME)
/* no attempt is made here */
__CPROVER_ensures(XV_CONN_ATT_SAME && XV_XP_REG_SAME && XV_TM_SCHED_SAME && XV_TM_EXP_SAME)
;


/* ---- track_process_connecting -------------------------------------------------------------------------------------- */
/* what the attempt in progress turned out to be */
#define TPC_TIMEDOUT (xv_expired_ret)
#define TPC_SOERR (!xv_expired_ret && xv_est_rc < 0 && xv_est_errno != EINPROGRESS)
#define TPC_PENDING (!xv_expired_ret && xv_est_rc < 0 && xv_est_errno == EINPROGRESS)
#define TPC_ESTABLISHED (!xv_expired_ret && xv_est_rc == 0)
#define TPC_MOVED_ON (TPC_TIMEDOUT || TPC_SOERR)
#define TRK_CONNECTING_OK(t) ((t)->state == track_state_connecting && TRK_CUR_OK(t) && (t)->fd_reg_id >= 0 && xv_regs > 0 && (t)->timer_id >= 0 && xv_timers > 0)
/* the track is left exactly as it was (nothing logged, registered, scheduled, cancelled) */
#define TRK_UNCHANGED(t) (XV_SAME((t)->state) && TRK_UNCHANGED_BUT_STATE(t))
#define TRK_UNCHANGED_BUT_STATE(t) (XV_SAME((t)->ip_idx) && XV_SAME((t)->fd_reg_id) && XV_SAME((t)->timer_id) && XV_SAME((t)->badness_reason) && \
                          XV_SAME(xv_regs) && XV_SAME(xv_timers) && XV_CONN_ATT_SAME && XV_SAME(xv_disc_n) && XV_SAME(xv_fail_n) && XV_SAME(xv_fail_errno) && XV_AROW_SAME && \
                          XV_SAME(xv_eff_n) && XV_SAME(xv_kc.bind_calls) && XV_SAME(xv_kc.connect_calls) && XV_SAME(xv_pre_eff_fd) && XV_SAME(xv_pre_bind_fd))
static void track_process_connecting(struct track *track)
__CPROVER_requires(TRK_FRESH(track) && TRK_NUM_OK(track))
__CPROVER_requires(TRK_IPS_FRESH(track))
__CPROVER_requires(TRK_LOCAL_FRESH(track))
__CPROVER_requires(TRK_REQUIRES_SHAPE(track) && TRK_GHOST_OK_S(4) && TRK_CONNECTING_OK(track))
__CPROVER_assigns(TRK_ASSIGNS(track), TCN_GHOST_ASSIGNS)
__CPROVER_ensures(TCN_STATE(track) && xv_expired_n == __CPROVER_old(xv_expired_n) + 1)
/* the connect timer is looked at first; SO_ERROR of the descriptor of the current address only if it has not expired */
__CPROVER_ensures(TPC_TIMEDOUT ? XV_SAME(xv_est_n) : (xv_est_n == __CPROVER_old(xv_est_n) + 1 && (!TPC_MOVED_ON ==> xv_est_fd == TRK_CURFD(track)) && \
                                                    (xv_est_rc == 0 || (xv_est_rc == -1 && XV_ERRNO_OK(xv_est_errno)))))
/* PO[C13] track_process_connecting.still_in_progress: EINPROGRESS and timer running: nothing happens */
__CPROVER_ensures(TPC_PENDING ==> TRK_UNCHANGED(track))
/* PO[C13] track_process_connecting.established: SO_ERROR 0: connected, on the address that was being tried; its descriptor stays registered */
__CPROVER_ensures(TPC_ESTABLISHED ==> (track->state == track_state_connected && TRK_UNCHANGED_BUT_STATE(track)))
/* PO[C13] track_process_connecting.timeout_is_ETIMEDOUT_and_moves_on: the attempt is given up with ETIMEDOUT as its errno and the walk continues behind it */
__CPROVER_ensures(TPC_TIMEDOUT ==> (TCN_IDX(track, __CPROVER_old(track->ip_idx)) && TCN_REASON(track, ETIMEDOUT)))
/* PO[C13] track_process_connecting.so_error_is_its_errno_and_moves_on: SO_ERROR e (not EINPROGRESS): e is the attempt's errno and the walk continues behind it */
__CPROVER_ensures(TPC_SOERR ==> (TCN_IDX(track, __CPROVER_old(track->ip_idx)) && TCN_REASON(track, xv_est_errno) && XV_ERRNO_OK(xv_est_errno)))
/* PO[C13] track_process_connecting.walk_continues_like_connect_next: behind the abandoned address the contract of track_connect_next holds */
__CPROVER_ensures(TPC_MOVED_ON ==> (TCN_SKIPPED(track, __CPROVER_old(track->ip_idx)) && TCN_UNTOUCHED(track, __CPROVER_old(track->ip_idx)) && \
                                   TCN_CURRENT(track, __CPROVER_old(track->ip_idx)) && TCN_BOUNDED(track, __CPROVER_old(track->ip_idx)) && TCN_ORDER(track)))
/* PO[C13,C08] track_process_connecting.abandoned_attempt_dissolved: the abandoned attempt and every later failed one is dissolved (connect(AF_UNSPEC)) */
__CPROVER_ensures(TPC_MOVED_ON ==> (xv_disc_n - __CPROVER_old(xv_disc_n) == 1u + (xv_conn_n - __CPROVER_old(xv_conn_n)) - (track->state != track_state_bad ? 1u : 0u)))
/* PO[C04] track_process_connecting.in_progress_is_registered_and_timed */
__CPROVER_ensures(TPC_MOVED_ON ==> TCN_WAKEUP(track))
/* PO[C08] track_process_connecting.resources: the abandoned attempt's registration and timer are released before the next one takes its own */
__CPROVER_ensures(TPC_MOVED_ON ==> TCN_RESOURCES(track, __CPROVER_old(xv_regs) - 1, __CPROVER_old(xv_timers) - 1))
;

/* ---- track_process_initial_delay ------------------------------------------------------------------------------------- */
static void track_process_initial_delay(struct track *track)
__CPROVER_requires(TRK_FRESH(track) && TRK_NUM_OK(track))
__CPROVER_requires(TRK_IPS_FRESH(track))
__CPROVER_requires(TRK_LOCAL_FRESH(track))
__CPROVER_requires(TRK_REQUIRES_SHAPE(track) && TRK_GHOST_OK_S(4))
__CPROVER_requires(track->state == track_state_initial_delay && track->fd_reg_id == -1 && track->timer_id >= 0 && xv_timers > 0)
__CPROVER_assigns(TRK_ASSIGNS(track), TCN_GHOST_ASSIGNS)
__CPROVER_ensures(xv_expired_n == __CPROVER_old(xv_expired_n) + 1)
/* PO[C13] track_process_initial_delay.waits: until the head start has elapsed nothing is tried */
__CPROVER_ensures(!xv_expired_ret ==> TRK_UNCHANGED(track))
/* PO[C13] track_process_initial_delay.then_walks: afterwards the walk starts: the contract of track_connect_next from the index the track stood at */
__CPROVER_ensures(xv_expired_ret ==> (TCN_STATE(track) && TCN_IDX(track, __CPROVER_old(track->ip_idx)) && TCN_REASON(track, __CPROVER_old(track->badness_reason)) && \
                  TCN_SKIPPED(track, __CPROVER_old(track->ip_idx)) && TCN_UNTOUCHED(track, __CPROVER_old(track->ip_idx)) && TCN_CURRENT(track, __CPROVER_old(track->ip_idx)) && \
                  TCN_BOUNDED(track, __CPROVER_old(track->ip_idx)) && TCN_ORDER(track) && TCN_ABORTED(track)))
/* PO[C04] track_process_initial_delay.in_progress_is_registered_and_timed */
__CPROVER_ensures(xv_expired_ret ==> TCN_WAKEUP(track))
/* PO[C08] track_process_initial_delay.resources: the delay timer is released (acknowledged) before the first attempt arms its own */
__CPROVER_ensures(xv_expired_ret ==> TCN_RESOURCES(track, __CPROVER_old(xv_regs), __CPROVER_old(xv_timers) - 1))
;


/* ---- what a track holds: conservation law of registrations and timers --------------------------------------------------- */
#define TRK_HELD(x) ((x) >= 0 ? 1 : 0)
/* everything the track has registered/scheduled and not released again is named by its fd_reg_id / timer_id */
#define TRK_ACCOUNTED(t) (xv_regs - TRK_HELD((t)->fd_reg_id) == __CPROVER_old(xv_regs) - TRK_HELD(__CPROVER_old((t)->fd_reg_id)) && \
                          xv_timers - TRK_HELD((t)->timer_id) == __CPROVER_old(xv_timers) - TRK_HELD(__CPROVER_old((t)->timer_id)))
/* states in which track_get_connected_fd may be called (not: finished -- the descriptor has been handed over already) */
#define TRK_ENTRY_STATE_OK(t) ( \
    ((t)->state == track_state_initial_delay && (t)->fd_reg_id == -1 && (t)->timer_id >= 0 && xv_timers > 0) || \
    TRK_CONNECTING_OK(t) || \
    ((t)->state == track_state_connected && TRK_CUR_OK(t) && (t)->fd_reg_id >= 0 && xv_regs > 0 && ((t)->timer_id < 0 || xv_timers > 0)) || \
    ((t)->state == track_state_bad && XV_ERRNO_OK((t)->badness_reason) && (t)->fd_reg_id == -1 && (t)->timer_id == -1))
#define OPTS_EQ(a, b) ((a)->keepalive == (b)->keepalive && (a)->keepalive_time == (b)->keepalive_time && (a)->keepalive_interval == (b)->keepalive_interval && \
                       (a)->keepalive_count == (b)->keepalive_count && (a)->user_timeout == (b)->user_timeout)
/* badness_reason: 0 (no attempt has failed yet) or the errno of the last failed attempt */
#define TRK_REASON_OK(t) ((t)->badness_reason == 0 || XV_ERRNO_OK((t)->badness_reason))
#define TRK_IN_PROGRESS(t) ((t)->state == track_state_connecting || (t)->state == track_state_initial_delay)

/* ---- track_get_connected_fd ---------------------------------------------------------------------------------------------- */
static int track_get_connected_fd(struct track *track, int *fd, int64_t *scope, struct tcp_opts *tcp_opts)
__CPROVER_requires(TRK_FRESH(track) && TRK_NUM_OK(track))
__CPROVER_requires(TRK_IPS_FRESH(track))
__CPROVER_requires(TRK_LOCAL_FRESH(track))
__CPROVER_requires(TRK_FAMS_OK(track))
__CPROVER_requires(TRK_FDS_OK(track))
__CPROVER_requires(TRK_IDX_OK(track) && TRK_LOCAL_OK(track) && SCOPE_OK(track->scope))
__CPROVER_requires(track->timer_mgr != NULL && track->xpoll != NULL && xv_fk >= 0 && xv_fk < XV_NFD && track->tcp_connect_timeout == track->tcp_connect_timeout)
__CPROVER_requires(TRK_GHOST_OK_S(8))
__CPROVER_requires(TRK_ENTRY_STATE_OK(track))
__CPROVER_requires(TRK_REASON_OK(track))
__CPROVER_requires(__CPROVER_is_fresh(fd, sizeof(*fd)) && __CPROVER_is_fresh(scope, sizeof(*scope)) && __CPROVER_is_fresh(tcp_opts, sizeof(*tcp_opts)))
__CPROVER_assigns(TRK_ASSIGNS(track), track->fd4, track->fd6, *fd, *scope, *tcp_opts, TCN_GHOST_ASSIGNS)
__CPROVER_ensures((__CPROVER_return_value == 0 || __CPROVER_return_value == -1) && (TRK_IN_PROGRESS(track) || track->state == track_state_bad || track->state == track_state_finished))
/* PO[C13] track_get_connected_fd.in_progress_is_EAGAIN */
__CPROVER_ensures(TRK_IN_PROGRESS(track) ==> (__CPROVER_return_value == -1 && xv_errno == EAGAIN))
/* PO[C13,C06] track_get_connected_fd.exhausted_reports_errno_of_last_failed_attempt */
__CPROVER_ensures(track->state == track_state_bad ==> (__CPROVER_return_value == -1 && xv_errno == track->badness_reason && XV_ERRNO_OK(xv_errno)))
/* PO[C13] track_get_connected_fd.exhausted_stays_exhausted: a track that has run out of addresses stays so, with the same errno, and does nothing */
__CPROVER_ensures(__CPROVER_old(track->state) == track_state_bad ==> (track->state == track_state_bad && TRK_UNCHANGED_BUT_STATE(track)))
/* PO[C13] track_get_connected_fd.success_iff_connected */
__CPROVER_ensures((__CPROVER_return_value == 0) == (track->state == track_state_finished))
/* PO[C13,C08] track_get_connected_fd.hands_over_the_connected_descriptor: the descriptor of the address that connected, open, no longer registered, no longer the track's; scope and options snapshot with it */
__CPROVER_ensures(__CPROVER_return_value == 0 ==> (TRK_IDX_OK(track) && track->ip_idx >= 0 && XV_FD_OURS(*fd) && xv_fdt.e[*fd].nonblock && track->fd_reg_id == -1 && OPTS_EQ(tcp_opts, &track->tcp_opts) && \
        (TRK_FAM(track, track->ip_idx) == AF_INET ? (*fd == __CPROVER_old(track->fd4) && track->fd4 == -1 && XV_SAME(track->fd6) && *scope == -1) \
                                                 : (*fd == __CPROVER_old(track->fd6) && track->fd6 == -1 && XV_SAME(track->fd4) && *scope == (track->scope < 0 ? 0 : track->scope)))))
__CPROVER_ensures(__CPROVER_return_value == -1 ==> (XV_SAME(track->fd4) && XV_SAME(track->fd6)))
/* PO[C08] track_get_connected_fd.accounted: registrations and timers are conserved; nothing is opened or closed */
__CPROVER_ensures(TRK_ACCOUNTED(track) && TRK_FDT_SAME && xv_pre_eff_fd == -1 && xv_pre_bind_fd == -1)
/* PO[C04] track_get_connected_fd.in_progress_is_registered_or_timed: an attempt in progress has its descriptor registered for EPOLLOUT and a timer; a delayed track its timer */
__CPROVER_ensures((track->state == track_state_connecting ==> (track->fd_reg_id >= 0 && track->timer_id >= 0)) && (track->state == track_state_initial_delay ==> track->timer_id >= 0) && \
                  (track->state == track_state_bad ==> (track->fd_reg_id == -1 && track->timer_id == -1)))
;


/* ---- timer_mgr.c, creation and destruction (ASSUMED).  A timer manager owns a timerfd (not in the ghost descriptor table: counted
 * by xv_tmgrs) and its registration in the xpoll instance; destroying it destroys every timer it still has. */
struct timer_mgr *timer_mgr_create(struct xpoll *xpoll, void *log_ref)
__CPROVER_requires(xpoll != NULL && XV_DT_CNT_OK(xv_tmgrs) && XV_DT_CNT_OK(xv_regs))
__CPROVER_assigns(xv_errno, xv_tmgrs, xv_xp)
__CPROVER_ensures(__CPROVER_return_value == NULL || __CPROVER_is_fresh(__CPROVER_return_value, 1))
__CPROVER_ensures(__CPROVER_return_value == NULL ? (XV_ERRNO_OK(xv_errno) && XV_SAME(xv_tmgrs) && XV_SAME(xv_regs)) \
                                                 : (XV_SAME(xv_errno) && xv_tmgrs == __CPROVER_old(xv_tmgrs) + 1 && xv_regs == __CPROVER_old(xv_regs) + 1))
;
/* errno preserved (xpoll_fd_reg_del, ut_close, free); owner == false: the xpoll instance is not touched */
void timer_mgr_destroy(struct timer_mgr *mgr, bool owner)
__CPROVER_requires(mgr == NULL || (xv_tmgrs > 0 && (!owner || xv_regs > 0)))
__CPROVER_assigns(xv_tmgrs, xv_xp, xv_tm)
__CPROVER_ensures(mgr == NULL ? (XV_SAME(xv_tmgrs) && XV_SAME(xv_regs) && XV_SAME(xv_timers)) \
                              : (xv_tmgrs == __CPROVER_old(xv_tmgrs) - 1 && xv_regs == __CPROVER_old(xv_regs) - (owner ? 1 : 0) && xv_timers == 0))
__CPROVER_ensures((mgr == NULL || !owner) ==> (XV_SAME(xv_del_id) && XV_XP_REG_SAME))
;

/* ---- track_destroy ----------------------------------------------------------------------------------------------------- */
#ifdef XV_TD_JOB
#define __CPROVER_ensures_td(x) __CPROVER_ensures(x)
#else
#define __CPROVER_ensures_td(x)
#endif
static void track_destroy(struct track *track, bool owner)
__CPROVER_requires(track == NULL || (TRK_FRESH(track) && TRK_NUM_OK(track)))
/* (the address list: a heap object of its own; its length does not matter here) */
__CPROVER_requires(track == NULL || TRK_IPS_FREEABLE(track))
__CPROVER_requires(track == NULL || (track->timer_mgr != NULL && track->xpoll != NULL && (track->fd_reg_id < 0 || xv_regs > 0) && (track->timer_id < 0 || xv_timers > 0)))
#ifdef XV_TD_JOB
__CPROVER_requires(track == NULL || xv_g_ips == (const void *)track->remote_ips)
#endif
__CPROVER_assigns(xv_xp, xv_tm)
__CPROVER_assigns(track != NULL: track->timer_id)
__CPROVER_frees(track != NULL: track->remote_ips; track)
/* PO[C08] track_destroy.owner_releases_registration_and_timer */
__CPROVER_ensures((track != NULL && owner) ==> (xv_regs == __CPROVER_old(xv_regs) - TRK_HELD(__CPROVER_old(track->fd_reg_id)) && \
                                                xv_timers == __CPROVER_old(xv_timers) - TRK_HELD(__CPROVER_old(track->timer_id))))
/* PO[C08,C04] track_destroy.cleanup_is_process_local: owner == false (xcm_cleanup in a forked child): no xpoll change, no timer change */
__CPROVER_ensures((track == NULL || !owner) ==> (XV_SAME(xv_regs) && XV_SAME(xv_timers) && XV_SAME(xv_del_id)))
/* PO[C08] track_destroy.frees_its_memory */
__CPROVER_ensures_td(track != NULL ==> (__CPROVER_was_freed(track) && __CPROVER_was_freed(xv_g_ips)))
;

/* ---- dup_ips: the track's private copy of the address list -------------------------------------------------------------- */
static struct xcm_addr_ip *dup_ips(const struct xcm_addr_ip *ips, int num_ips)
__CPROVER_requires(num_ips >= 1 && num_ips <= TRK_MAX_IPS && __CPROVER_is_fresh(ips, sizeof(struct xcm_addr_ip) * num_ips) && xv_mc < sizeof(struct xcm_addr_ip) * TRK_MAX_IPS)
__CPROVER_assigns()
/* PO[C13] dup_ips.exact_copy: memory of its own, the same bytes (xv_mc: any offset), in particular the same family in every entry */
__CPROVER_ensures(__CPROVER_is_fresh(__CPROVER_return_value, sizeof(struct xcm_addr_ip) * num_ips) && \
                  (xv_mc < sizeof(struct xcm_addr_ip) * num_ips ==> ((const uint8_t *)__CPROVER_return_value)[xv_mc] == ((const uint8_t *)ips)[xv_mc]))
#ifndef XV_DUP_JOB
/* TRUSTED(libc) memcpy copies EVERY byte.  Job dnstc.dup_ips proves the clause above on the real body against env/base.h's
 * memcpy model, which keeps the bytes at offsets 0..7 and at the arbitrary offset xv_mc only (an exact model of a copy of up
 * to 640 bytes between two objects of symbolic size was tried: 26M clauses / solver out of memory).  "Every byte at offset
 * xv_mc, for every xv_mc" IS every byte; the quantified form below is that statement for the family fields, which
 * track_connect_next needs for all entries at once.  It is assumed where dup_ips is replaced, not proved. */
__CPROVER_ensures(__CPROVER_forall { int xv_q; (0 <= xv_q && xv_q < TRK_MAX_IPS) ==> (xv_q < num_ips ==> __CPROVER_return_value[xv_q].family == ips[xv_q].family) })
#endif
;

/* ---- track_create -------------------------------------------------------------------------------------------------------- */
#define IPS_FAMS_OK(ips, n) __CPROVER_forall { int xv_q; (0 <= xv_q && xv_q < TRK_MAX_IPS) ==> (xv_q < (n) ==> FAM_OK((ips)[xv_q].family)) }
#define TCR_U8(p) ((const uint8_t *)(p))
static struct track *track_create(int fd4, int fd6, const struct xcm_addr_ip *local_ip, uint16_t local_port, int64_t scope, double tcp_connect_timeout, \
                                  const struct tcp_opts *tcp_opts, const struct xcm_addr_ip *remote_ips, int num_remote_ips, uint16_t remote_port, \
                                  double initial_delay, struct timer_mgr *timer_mgr, struct xpoll *xpoll, void *log_ref)
__CPROVER_requires(num_remote_ips >= 1 && num_remote_ips <= TRK_MAX_IPS && __CPROVER_is_fresh(remote_ips, sizeof(struct xcm_addr_ip) * num_remote_ips) && \
                   __CPROVER_is_fresh(tcp_opts, sizeof(*tcp_opts)) && (local_ip == NULL || __CPROVER_is_fresh(local_ip, sizeof(*local_ip))))
__CPROVER_requires(IPS_FAMS_OK(remote_ips, num_remote_ips) && (local_ip == NULL || FAM_OK(local_ip->family)) && SCOPE_OK(scope))
__CPROVER_requires(TRK_FD_OK(fd4) && TRK_FD_OK(fd6) && (fd4 >= 0 || fd6 >= 0) && fd4 != fd6 && timer_mgr != NULL && xpoll != NULL && TRK_GHOST_OK_S(4) && \
                   xv_fk >= 0 && xv_fk < XV_NFD && xv_mc < sizeof(struct xcm_addr_ip) * TRK_MAX_IPS)
__CPROVER_requires(tcp_connect_timeout == tcp_connect_timeout && initial_delay == initial_delay /* neither is NaN */)
__CPROVER_assigns(TCN_GHOST_ASSIGNS)
__CPROVER_ensures(__CPROVER_is_fresh(__CPROVER_return_value, sizeof(struct track)))
/* PO[C13,C11] track_create.keeps_its_own_copy_of_the_local_address: nothing of the caller's frame is referenced after the call */
__CPROVER_ensures(TRK_LOCAL_OWNED(__CPROVER_return_value, local_ip))
/* PO[C13] track_create.remembers_what_it_was_given: descriptors, scope, timeout, options SNAPSHOT, port, delay, timer manager, xpoll */
__CPROVER_ensures(__CPROVER_return_value->fd4 == fd4 && __CPROVER_return_value->fd6 == fd6 && \
                  __CPROVER_return_value->local_port == local_port && __CPROVER_return_value->scope == scope && __CPROVER_return_value->tcp_connect_timeout == tcp_connect_timeout && \
                  OPTS_EQ(&__CPROVER_return_value->tcp_opts, tcp_opts) && __CPROVER_return_value->remote_port == remote_port && \
                  __CPROVER_return_value->timer_mgr == timer_mgr && __CPROVER_return_value->xpoll == xpoll && __CPROVER_return_value->log_ref == log_ref)
/* PO[C13] track_create.private_copy_of_exactly_the_addresses_given: num_remote_ips entries, byte for byte (xv_mc: any offset), in memory of its own */
__CPROVER_ensures(__CPROVER_return_value->num_remote_ips == num_remote_ips && \
                  __CPROVER_is_fresh(__CPROVER_return_value->remote_ips, sizeof(struct xcm_addr_ip) * num_remote_ips) && \
                  (xv_mc < sizeof(struct xcm_addr_ip) * num_remote_ips ==> TCR_U8(__CPROVER_return_value->remote_ips)[xv_mc] == TCR_U8(remote_ips)[xv_mc]))
/* PO[C13,C04] track_create.delayed_track_only_arms_a_timer: initial_delay > 0: nothing is tried yet; a timer with that delay is armed */
__CPROVER_ensures(initial_delay > 0 ==> (__CPROVER_return_value->state == track_state_initial_delay && __CPROVER_return_value->ip_idx == -1 && \
                  __CPROVER_return_value->fd_reg_id == -1 && __CPROVER_return_value->badness_reason == 0 && __CPROVER_return_value->timer_id >= 0 && \
                  __CPROVER_return_value->timer_id == xv_sched_id && xv_sched_timeout == initial_delay && xv_sched_mgr == (const void *)timer_mgr && \
                  xv_timers == __CPROVER_old(xv_timers) + 1 && XV_SAME(xv_regs) && XV_CONN_ATT_SAME && XV_SAME(xv_eff_n) && XV_SAME(xv_fail_n) && XV_AROW_SAME && \
                  XV_SAME(xv_pre_eff_fd) && XV_SAME(xv_pre_bind_fd)))
/* PO[C13] track_create.undelayed_track_walks_at_once: otherwise the walk starts from the head of the list: the contract of track_connect_next from index -1, no failure so far */
__CPROVER_ensures(!(initial_delay > 0) ==> (TCN_STATE(__CPROVER_return_value) && TCN_IDX(__CPROVER_return_value, -1) && TCN_REASON(__CPROVER_return_value, 0) && \
                  TCN_SKIPPED(__CPROVER_return_value, -1) && TCN_UNTOUCHED(__CPROVER_return_value, -1) && TCN_CURRENT(__CPROVER_return_value, -1) && \
                  TCN_BOUNDED(__CPROVER_return_value, -1) && TCN_ORDER(__CPROVER_return_value) && TCN_ABORTED(__CPROVER_return_value)))
/* PO[C04] track_create.in_progress_is_registered_and_timed */
__CPROVER_ensures(!(initial_delay > 0) ==> TCN_WAKEUP(__CPROVER_return_value))
/* PO[C08] track_create.resources */
__CPROVER_ensures(!(initial_delay > 0) ==> TCN_RESOURCES(__CPROVER_return_value, __CPROVER_old(xv_regs), __CPROVER_old(xv_timers)))
__CPROVER_ensures(TRK_FDT_SAME)
;


/* ======================================================================================================================== */
/* struct tconnect                                                                                                          */
/* ======================================================================================================================== */
#define XV_TABLE_SAME_EXCEPT2(a, b) ((xv_fk != (a) && xv_fk != (b)) ==> XV_FK_SAME_TC)
#define TC_FDS_OK(tc) (TRK_FD_OK((tc)->fd4) && TRK_FD_OK((tc)->fd6) && ((tc)->fd4 < 0 || (tc)->fd4 != (tc)->fd6))

/* ---- tconnect_create ------------------------------------------------------------------------------------------------------ */
struct tconnect *tconnect_create(enum tconnect_algorithm algorithm, struct xpoll *xpoll, void *log_ref)
__CPROVER_requires(xpoll != NULL && XV_FD_GHOST_RANGE && XV_DT_CNT_OK(xv_tmgrs) && XV_DT_CNT_OK(xv_regs) && xv_regs > 0 && xv_fk >= 0 && xv_fk < XV_NFD)
__CPROVER_assigns(xv_errno, XV_SOCKET_ASSIGNS, XV_CLOSE_ASSIGNS, xv_tmgrs, xv_xp, xv_tm)
/* PO[C08] tconnect_create.failure_leaves_nothing_behind: whichever of socket(AF_INET), socket(AF_INET6), timer_mgr_create fails: NULL, errno set, no descriptor, no timer manager, no registration left */
__CPROVER_ensures(__CPROVER_return_value == NULL ==> (XV_ERRNO_OK(xv_errno) && XV_SAME(xv_open_cnt) && XV_SAME(xv_tmgrs) && XV_SAME(xv_regs) && XV_FK_SAME_TC && \
                  xv_close_calls - __CPROVER_old(xv_close_calls) <= 2))
/* PO[C08,C05] tconnect_create.success_owns_two_nonblocking_sockets_and_a_timer_manager */
__CPROVER_ensures(__CPROVER_return_value != NULL ==> (__CPROVER_is_fresh(__CPROVER_return_value, sizeof(struct tconnect)) && \
                  XV_FD_OURS(__CPROVER_return_value->fd4) && xv_fdt.e[__CPROVER_return_value->fd4].nonblock && \
                  XV_FD_OURS(__CPROVER_return_value->fd6) && xv_fdt.e[__CPROVER_return_value->fd6].nonblock && __CPROVER_return_value->fd4 != __CPROVER_return_value->fd6 && \
                  xv_open_cnt == __CPROVER_old(xv_open_cnt) + 2 && xv_socket_calls == __CPROVER_old(xv_socket_calls) + 2 && XV_SAME(xv_close_calls) && \
                  xv_tmgrs == __CPROVER_old(xv_tmgrs) + 1 && xv_regs == __CPROVER_old(xv_regs) + 1 && __CPROVER_return_value->timer_mgr != NULL && \
                  __CPROVER_return_value->num_tracks == 0 && __CPROVER_return_value->algorithm == algorithm && __CPROVER_return_value->xpoll == xpoll && \
                  __CPROVER_return_value->log_ref == log_ref && XV_TABLE_SAME_EXCEPT2(__CPROVER_return_value->fd4, __CPROVER_return_value->fd6)))
;

/* ---- tconnect_destroy ----------------------------------------------------------------------------------------------------- */
#define TC_T(tc, i) ((tc)->tracks[i])
#define TC_TRACK_HELD_OK(t) (((t)->fd_reg_id < 0 || xv_regs >= 3) && ((t)->timer_id < 0 || xv_timers >= 2) && (t)->timer_mgr != NULL && (t)->xpoll != NULL)
void tconnect_destroy(struct tconnect *tconnect, bool owner)
__CPROVER_requires(tconnect == NULL || (__CPROVER_is_fresh(tconnect, sizeof(struct tconnect)) && tconnect->num_tracks >= 0 && tconnect->num_tracks <= MAX_NUM_TRACKS))
__CPROVER_requires((tconnect != NULL && tconnect->num_tracks >= 1) ==> (TRK_FRESH(TC_T(tconnect, 0)) && TRK_NUM_OK(TC_T(tconnect, 0))))
__CPROVER_requires((tconnect != NULL && tconnect->num_tracks >= 1) ==> (TRK_IPS_FREEABLE(TC_T(tconnect, 0)) && TC_TRACK_HELD_OK(TC_T(tconnect, 0))))
__CPROVER_requires((tconnect != NULL && tconnect->num_tracks >= 2) ==> (TRK_FRESH(TC_T(tconnect, 1)) && TRK_NUM_OK(TC_T(tconnect, 1))))
__CPROVER_requires((tconnect != NULL && tconnect->num_tracks >= 2) ==> (TRK_IPS_FREEABLE(TC_T(tconnect, 1)) && TC_TRACK_HELD_OK(TC_T(tconnect, 1))))
__CPROVER_requires(tconnect == NULL || (TC_FDS_OK(tconnect) && tconnect->timer_mgr != NULL && xv_tmgrs > 0 && xv_regs >= 1))
__CPROVER_requires(XV_FD_GHOST_RANGE && XV_DT_CNT_OK(xv_regs) && XV_DT_CNT_OK(xv_timers) && XV_DT_CNT_OK(xv_tmgrs) && xv_fk >= 0 && xv_fk < XV_NFD)
__CPROVER_assigns(xv_errno, XV_CLOSE_ASSIGNS, xv_tmgrs, xv_xp, xv_tm)
__CPROVER_assigns((tconnect != NULL && tconnect->num_tracks >= 1): TC_T(tconnect, 0)->timer_id; (tconnect != NULL && tconnect->num_tracks >= 2): TC_T(tconnect, 1)->timer_id)
__CPROVER_frees(tconnect; (tconnect != NULL && tconnect->num_tracks >= 1): TC_T(tconnect, 0); (tconnect != NULL && tconnect->num_tracks >= 1): TC_T(tconnect, 0)->remote_ips; \
                (tconnect != NULL && tconnect->num_tracks >= 2): TC_T(tconnect, 1); (tconnect != NULL && tconnect->num_tracks >= 2): TC_T(tconnect, 1)->remote_ips)
/* PO[C08] tconnect_destroy.closes_the_descriptors_it_still_owns: fd4/fd6 (unless handed over: -1), nothing else; errno survives */
__CPROVER_ensures(tconnect != NULL ==> (xv_open_cnt == __CPROVER_old(xv_open_cnt) - TRK_HELD(__CPROVER_old(tconnect->fd4)) - TRK_HELD(__CPROVER_old(tconnect->fd6)) && \
                  xv_close_calls == __CPROVER_old(xv_close_calls) + TRK_HELD(__CPROVER_old(tconnect->fd4)) + TRK_HELD(__CPROVER_old(tconnect->fd6)) && \
                  XV_TABLE_SAME_EXCEPT2(__CPROVER_old(tconnect->fd4), __CPROVER_old(tconnect->fd6)) && XV_SAME(xv_errno)))
__CPROVER_ensures((tconnect != NULL && __CPROVER_old(tconnect->fd4) >= 0) ==> !xv_fdt.e[__CPROVER_old(tconnect->fd4)].open)
__CPROVER_ensures((tconnect != NULL && __CPROVER_old(tconnect->fd6) >= 0) ==> !xv_fdt.e[__CPROVER_old(tconnect->fd6)].open)
/* PO[C08] tconnect_destroy.releases_timer_manager_and_all_timers */
__CPROVER_ensures(tconnect != NULL ==> (xv_tmgrs == __CPROVER_old(xv_tmgrs) - 1 && xv_timers == 0))
/* PO[C08] tconnect_destroy.owner_releases_every_registration: those of the tracks and the timer manager's */
__CPROVER_ensures((tconnect != NULL && owner) ==> xv_regs == __CPROVER_old(xv_regs) - 1 \
                  - (__CPROVER_old(tconnect->num_tracks) >= 1 ? TRK_HELD(__CPROVER_old(TC_T(tconnect, 0)->fd_reg_id)) : 0) \
                  - (__CPROVER_old(tconnect->num_tracks) >= 2 ? TRK_HELD(__CPROVER_old(TC_T(tconnect, 1)->fd_reg_id)) : 0))
/* PO[C08] tconnect_destroy.cleanup_is_process_local: owner == false (xcm_cleanup in a forked child): the xpoll instance is not touched */
__CPROVER_ensures((tconnect != NULL && !owner) ==> (XV_SAME(xv_regs) && XV_SAME(xv_del_id)))
/* PO[C08] tconnect_destroy.null_is_noop */
__CPROVER_ensures(tconnect == NULL ==> (XV_SAME(xv_open_cnt) && XV_SAME(xv_close_calls) && XV_SAME(xv_tmgrs) && XV_SAME(xv_regs) && XV_SAME(xv_timers) && XV_FK_SAME_TC))
;


/* ---- tconnect_connect ------------------------------------------------------------------------------------------------------- */
#define HAPPY_DELAY (200e-3)      /* HAPPY_EYEBALLS_INITIAL_IPV4_DELAY */
#define TC_EXISTS_FAM(ips, n, fam, v) __CPROVER_exists { int v; (0 <= v && v < TRK_MAX_IPS) && v < (int)(n) && (ips)[v].family == (fam) }
/* the track was created from THESE arguments (everything but descriptors, list length and delay, which differ per algorithm) */
#define TC_TRACK_ARGS(t) (TRK_LOCAL_OWNED(t, local_ip) && (t)->local_port == local_port && (t)->tcp_connect_timeout == tcp_connect_timeout && OPTS_EQ(&(t)->tcp_opts, tcp_opts) && \
                          (t)->remote_port == remote_port && (t)->timer_mgr == tconnect->timer_mgr && (t)->xpoll == tconnect->xpoll && (t)->log_ref == tconnect->log_ref && \
                          (xv_mc < sizeof(struct xcm_addr_ip) * (t)->num_remote_ips ==> TCR_U8((t)->remote_ips)[xv_mc] == TCR_U8(remote_ips)[xv_mc]))
#define TC_SCOPE_REFUSED (scope >= 0 && num_remote_ips == 1 && remote_ips[0].family == AF_INET)
#define TC_NOTHING_DONE (XV_SAME(tconnect->num_tracks) && XV_SAME(xv_timers) && XV_SAME(xv_regs) && XV_SAME(xv_eff_n) && XV_SAME(xv_conn_n))
int tconnect_connect(struct tconnect *tconnect, const struct xcm_addr_ip *local_ip, uint16_t local_port, int64_t scope, double tcp_connect_timeout, \
                     const struct tcp_opts *tcp_opts, const struct xcm_addr_ip *remote_ips, size_t num_remote_ips, uint16_t remote_port)
__CPROVER_requires(__CPROVER_is_fresh(tconnect, sizeof(struct tconnect)) && num_remote_ips >= 1 && num_remote_ips <= TRK_MAX_IPS)
__CPROVER_requires(__CPROVER_is_fresh(remote_ips, sizeof(struct xcm_addr_ip) * num_remote_ips) && __CPROVER_is_fresh(tcp_opts, sizeof(*tcp_opts)) && \
                   (local_ip == NULL || __CPROVER_is_fresh(local_ip, sizeof(*local_ip))))
__CPROVER_requires(IPS_FAMS_OK(remote_ips, (int)num_remote_ips) && (local_ip == NULL || FAM_OK(local_ip->family)) && SCOPE_OK(scope))
/* a tconnect as tconnect_create leaves it: both descriptors, a timer manager, no track yet */
__CPROVER_requires(XV_FD_OURS(tconnect->fd4) && xv_fdt.e[tconnect->fd4].nonblock && XV_FD_OURS(tconnect->fd6) && xv_fdt.e[tconnect->fd6].nonblock && tconnect->fd4 != tconnect->fd6 && \
                   tconnect->timer_mgr != NULL && tconnect->xpoll != NULL && tconnect->num_tracks == 0)
__CPROVER_requires(TRK_GHOST_OK_S(16) && xv_fk >= 0 && xv_fk < XV_NFD && xv_mc < sizeof(struct xcm_addr_ip) * TRK_MAX_IPS && tcp_connect_timeout == tcp_connect_timeout)
__CPROVER_assigns(tconnect->tracks[0], tconnect->tracks[1], tconnect->num_tracks, TCN_GHOST_ASSIGNS)
__CPROVER_ensures(__CPROVER_return_value == 0 || __CPROVER_return_value == -1)
/* PO[C13] tconnect_connect.scope_with_single_ipv4_refused: EINVAL before anything is created */
__CPROVER_ensures(TC_SCOPE_REFUSED ==> (__CPROVER_return_value == -1 && xv_errno == EINVAL && TC_NOTHING_DONE))
/* PO[C13] tconnect_connect.unknown_algorithm_refused */
__CPROVER_ensures((!TC_SCOPE_REFUSED && tconnect->algorithm != tconnect_algorithm_single && tconnect->algorithm != tconnect_algorithm_sequential && \
                   tconnect->algorithm != tconnect_algorithm_happy_eyeballs) ==> (__CPROVER_return_value == -1 && xv_errno == ENOTSUP && TC_NOTHING_DONE))
/* PO[C13] tconnect_connect.single_tries_only_the_first_address: ONE track, over both descriptors, whose list is remote_ips[0] alone, not delayed */
__CPROVER_ensures((!TC_SCOPE_REFUSED && tconnect->algorithm == tconnect_algorithm_single) ==> (__CPROVER_return_value == 0 && tconnect->num_tracks == 1 && \
                  TC_T(tconnect, 0)->num_remote_ips == 1 && TC_T(tconnect, 0)->fd4 == tconnect->fd4 && TC_T(tconnect, 0)->fd6 == tconnect->fd6 && \
                  TC_T(tconnect, 0)->scope == scope && TC_TRACK_ARGS(TC_T(tconnect, 0)) && TC_T(tconnect, 0)->state != track_state_initial_delay))
/* PO[C13] tconnect_connect.sequential_walks_the_whole_list_in_order: ONE track, over both descriptors, with all num_remote_ips addresses, not delayed */
__CPROVER_ensures((!TC_SCOPE_REFUSED && tconnect->algorithm == tconnect_algorithm_sequential) ==> (__CPROVER_return_value == 0 && tconnect->num_tracks == 1 && \
                  TC_T(tconnect, 0)->num_remote_ips == (int)num_remote_ips && TC_T(tconnect, 0)->fd4 == tconnect->fd4 && TC_T(tconnect, 0)->fd6 == tconnect->fd6 && \
                  TC_T(tconnect, 0)->scope == scope && TC_TRACK_ARGS(TC_T(tconnect, 0)) && TC_T(tconnect, 0)->state != track_state_initial_delay))
/* PO[C13] tconnect_connect.happy_eyeballs_one_track_per_family_present: as many tracks as families in the list */
__CPROVER_ensures((!TC_SCOPE_REFUSED && tconnect->algorithm == tconnect_algorithm_happy_eyeballs) ==> (__CPROVER_return_value == 0 && \
                  tconnect->num_tracks == (TC_EXISTS_FAM(remote_ips, num_remote_ips, AF_INET, xv_q4) ? 1 : 0) + (TC_EXISTS_FAM(remote_ips, num_remote_ips, AF_INET6, xv_q6) ? 1 : 0) && \
                  tconnect->num_tracks >= 1))
/* PO[C13] tconnect_connect.happy_eyeballs_ipv4_track: IPv4 present: track 0 has the IPv4 descriptor only, the whole list, and is held back 200 ms iff IPv6 is present too */
__CPROVER_ensures((!TC_SCOPE_REFUSED && tconnect->algorithm == tconnect_algorithm_happy_eyeballs && TC_EXISTS_FAM(remote_ips, num_remote_ips, AF_INET, xv_q4b)) ==> ( \
                  TC_T(tconnect, 0)->fd4 == tconnect->fd4 && TC_T(tconnect, 0)->fd6 == -1 && TC_T(tconnect, 0)->num_remote_ips == (int)num_remote_ips && TC_T(tconnect, 0)->scope == -1 && \
                  TC_TRACK_ARGS(TC_T(tconnect, 0)) && \
                  ((TC_T(tconnect, 0)->state == track_state_initial_delay) == (tconnect->num_tracks == 2)) && \
                  (tconnect->num_tracks == 2 ==> TC_T(tconnect, 0)->timer_id >= 0)))
/* PO[C13] tconnect_connect.happy_eyeballs_ipv6_track: IPv6 present: the last track has the IPv6 descriptor only, the whole list, the configured scope, and starts at once */
__CPROVER_ensures((!TC_SCOPE_REFUSED && tconnect->algorithm == tconnect_algorithm_happy_eyeballs && TC_EXISTS_FAM(remote_ips, num_remote_ips, AF_INET6, xv_q6c)) ==> ( \
                  TC_T(tconnect, tconnect->num_tracks - 1)->fd4 == -1 && TC_T(tconnect, tconnect->num_tracks - 1)->fd6 == tconnect->fd6 && \
                  TC_T(tconnect, tconnect->num_tracks - 1)->num_remote_ips == (int)num_remote_ips && TC_T(tconnect, tconnect->num_tracks - 1)->scope == scope && \
                  TC_TRACK_ARGS(TC_T(tconnect, tconnect->num_tracks - 1)) && TC_T(tconnect, tconnect->num_tracks - 1)->state != track_state_initial_delay))
/* PO[C08] tconnect_connect.descriptors_stay_with_tconnect: nothing opened or closed */
__CPROVER_ensures(TRK_FDT_SAME)
;


/* ---- tconnect_get_connected_fd ------------------------------------------------------------------------------------------------ */
#define TC_TRACK_FIELDS(t) TRK_ASSIGNS(t), (t)->fd4, (t)->fd6
/* a track of this tconnect: its descriptors are the tconnect's (or -1) */
#define TC_OWNS(tc, t) (((t)->fd4 == -1 || (t)->fd4 == (tc)->fd4) && ((t)->fd6 == -1 || (t)->fd6 == (tc)->fd6))
#define TC_TRACK_READY(tc, t, v) (TRK_REQUIRES_SHAPE_V(t, v) && TRK_ENTRY_STATE_OK(t) && TRK_REASON_OK(t) && TC_OWNS(tc, t))
#define TRK_DONE(t) ((t)->state == track_state_finished)
#define TC_N(tc) ((tc)->num_tracks)
#define TC_ANY_IN_PROGRESS(tc) ((TC_N(tc) >= 1 && TRK_IN_PROGRESS(TC_T(tc, 0))) || (TC_N(tc) >= 2 && TRK_IN_PROGRESS(TC_T(tc, 1))))
int tconnect_get_connected_fd(struct tconnect *tconnect, int *fd, int64_t *scope, struct tcp_opts *tcp_opts)
__CPROVER_requires(__CPROVER_is_fresh(tconnect, sizeof(struct tconnect)) && tconnect->num_tracks >= 0 && tconnect->num_tracks <= MAX_NUM_TRACKS && TC_FDS_OK(tconnect))
__CPROVER_requires(__CPROVER_is_fresh(fd, sizeof(*fd)) && __CPROVER_is_fresh(scope, sizeof(*scope)) && __CPROVER_is_fresh(tcp_opts, sizeof(*tcp_opts)))
__CPROVER_requires(TC_N(tconnect) >= 1 ==> (TRK_FRESH(TC_T(tconnect, 0)) && TRK_NUM_OK(TC_T(tconnect, 0))))
__CPROVER_requires(TC_N(tconnect) >= 1 ==> TRK_IPS_FRESH(TC_T(tconnect, 0)))
__CPROVER_requires(TC_N(tconnect) >= 1 ==> TRK_LOCAL_FRESH(TC_T(tconnect, 0)))
__CPROVER_requires(TC_N(tconnect) >= 1 ==> TC_TRACK_READY(tconnect, TC_T(tconnect, 0), xv_qa))
__CPROVER_requires(TC_N(tconnect) >= 2 ==> (TRK_FRESH(TC_T(tconnect, 1)) && TRK_NUM_OK(TC_T(tconnect, 1))))
__CPROVER_requires(TC_N(tconnect) >= 2 ==> TRK_IPS_FRESH(TC_T(tconnect, 1)))
/* (the local address of a track is its own copy, t->local_ip == &t->local_ip_data (enforced on track_create).  CBMC cannot dereference a pointer field
 * that is merely assumed equal to another address (HOWTO, trap a), so in PRECONDITIONS the address is given an object of its own (TRK_LOCAL_FRESH).
 * Nothing under proof writes through local_ip (const) or compares the pointer: same behaviour.) */
__CPROVER_requires(TC_N(tconnect) >= 2 ==> TRK_LOCAL_FRESH(TC_T(tconnect, 1)))
__CPROVER_requires(TC_N(tconnect) >= 2 ==> (TC_TRACK_READY(tconnect, TC_T(tconnect, 1), xv_qb) && TC_T(tconnect, 0)->fd6 == -1 && TC_T(tconnect, 1)->fd4 == -1))
__CPROVER_requires(TRK_GHOST_OK_S(32) && xv_regs >= 2 && xv_timers >= 2 && xv_fk >= 0 && xv_fk < XV_NFD)
__CPROVER_assigns(tconnect->fd4, tconnect->fd6, *fd, *scope, *tcp_opts, TCN_GHOST_ASSIGNS)
__CPROVER_assigns(TC_N(tconnect) >= 1: TC_TRACK_FIELDS(TC_T(tconnect, 0)); TC_N(tconnect) >= 2: TC_TRACK_FIELDS(TC_T(tconnect, 1)))
__CPROVER_ensures(__CPROVER_return_value == 0 || __CPROVER_return_value == -1)
/* PO[C13] tconnect_get_connected_fd.success_iff_a_track_connected */
__CPROVER_ensures((__CPROVER_return_value == 0) == ((TC_N(tconnect) >= 1 && TRK_DONE(TC_T(tconnect, 0))) || (TC_N(tconnect) >= 2 && TRK_DONE(TC_T(tconnect, 1)))))
/* PO[C13] tconnect_get_connected_fd.first_connected_track_wins: when track 0 delivers, track 1 is not even looked at */
__CPROVER_ensures((TC_N(tconnect) >= 2 && TRK_DONE(TC_T(tconnect, 0))) ==> (XV_SAME(TC_T(tconnect, 1)->state) && XV_SAME(TC_T(tconnect, 1)->ip_idx) && XV_SAME(TC_T(tconnect, 1)->fd_reg_id) && \
                  XV_SAME(TC_T(tconnect, 1)->timer_id) && XV_SAME(TC_T(tconnect, 1)->fd4) && XV_SAME(TC_T(tconnect, 1)->fd6)))
/* PO[C13] tconnect_get_connected_fd.EAGAIN_while_any_in_progress */
__CPROVER_ensures((__CPROVER_return_value != 0 && TC_ANY_IN_PROGRESS(tconnect)) ==> (__CPROVER_return_value == -1 && xv_errno == EAGAIN))
/* PO[C13] tconnect_get_connected_fd.else_errno_of_the_last_track: every track exhausted: the errno of the last failed attempt of the LAST track; no track at all: ENOENT */
__CPROVER_ensures((__CPROVER_return_value != 0 && !TC_ANY_IN_PROGRESS(tconnect)) ==> (__CPROVER_return_value == -1 && \
                  xv_errno == (TC_N(tconnect) == 0 ? ENOENT : TC_T(tconnect, TC_N(tconnect) - 1)->badness_reason)))
/* PO[C13] tconnect_get_connected_fd.EAGAIN_only_while_in_progress: "try again" is reported only if there is something left to wait for */
__CPROVER_ensures((__CPROVER_return_value == -1 && xv_errno == EAGAIN) ==> TC_ANY_IN_PROGRESS(tconnect))
/* PO[C13,C08] tconnect_get_connected_fd.descriptor_handed_over: the connected descriptor is open, the caller's from now on: tconnect forgets it (its destructor will not close it) */
__CPROVER_ensures(__CPROVER_return_value == 0 ==> (XV_FD_OURS(*fd) && xv_fdt.e[*fd].nonblock && XV_SAME(xv_errno) && \
                  ((*fd == __CPROVER_old(tconnect->fd4) && tconnect->fd4 == -1 && XV_SAME(tconnect->fd6)) || \
                   (*fd != __CPROVER_old(tconnect->fd4) && *fd == __CPROVER_old(tconnect->fd6) && tconnect->fd6 == -1 && XV_SAME(tconnect->fd4)))))
/* PO[C08] tconnect_get_connected_fd.otherwise_keeps_its_descriptors: nothing opened, nothing closed */
__CPROVER_ensures((__CPROVER_return_value == -1 ==> (XV_SAME(tconnect->fd4) && XV_SAME(tconnect->fd6))) && TRK_FDT_SAME)
;

#endif /* XV_DNSTC_TC */

#include "contracts/end.h"
#endif
