/* contracts/dnstc.h -- name resolution and multi-address connect (C13), their resources (C08) and wake-ups (C04)
 *
 *   part DNS (XV_DNSTC_DNS): libxcm/tp/dns/xcm_dns_cares.c
 *   part TC  (XV_DNSTC_TC) : libxcm/tp/tcp/tconnect.c
 *
 * Attached to the REAL functions by redeclaration after the TU has been #included.  Contracts of functions of OTHER modules
 * (xpoll.c, timer_mgr.c, tcp_attr.c, common_tp.c, util.c) are ASSUMED here (to be enforced in their own units); they talk
 * about ghost counters only.
 */
#ifndef XV_DNSTC_H
#define XV_DNSTC_H
#include "contracts/begin.h"

#include "harness/dnstc/_ghost.h"

/* ==================================================================================================================== */
#ifdef XV_DNSTC_DNS
/* ==================================================================================================================== */


/* ---- xpoll.c (ASSUMED) ---- */
struct xpoll *xpoll_create(void *log_ref)
__CPROVER_requires(XV_DT_CNT_OK(xv_xpolls))
__CPROVER_assigns(xv_errno, xv_xpolls)
__CPROVER_ensures(__CPROVER_return_value == NULL || __CPROVER_is_fresh(__CPROVER_return_value, 1))
__CPROVER_ensures(__CPROVER_return_value == NULL ? (xv_errno > 0 && xv_xpolls == __CPROVER_old(xv_xpolls)) \
                                                 : (xv_errno == __CPROVER_old(xv_errno) && xv_xpolls == __CPROVER_old(xv_xpolls) + 1))
;
/* errno preserved (ut_close, free) */
void xpoll_destroy(struct xpoll *xpoll)
__CPROVER_requires(xpoll == NULL || xv_xpolls > 0)
__CPROVER_assigns(xv_xpolls)
__CPROVER_ensures(xv_xpolls == __CPROVER_old(xv_xpolls) - (xpoll != NULL ? 1 : 0))
;
int xpoll_get_fd(struct xpoll *xpoll)
__CPROVER_requires(xpoll != NULL)
__CPROVER_assigns()
__CPROVER_ensures(__CPROVER_return_value >= 0)
;

/* ---- the query interface as xcm_dns_resolve_sync (and btcp) sees it.  ENFORCED on the real bodies by the jobs
 * dnstc.dns_query_result, dnstc.dns_query_process, ...; ASSUMED in dnstc.dns_resolve_sync. */

/* a new query is in progress; NULL (nothing left behind) when the timer manager or the c-ares channel cannot be made */
#define Q_RESOLVE_ENSURES(rv) \
    (((rv) == NULL && xv_errno > 0 && xv_queries == __CPROVER_old(xv_queries)) || \
     ((rv) != NULL && (rv)->state == query_state_in_progress && xv_queries == __CPROVER_old(xv_queries) + 1 && xv_errno == __CPROVER_old(xv_errno)))

/* processing never leaves a terminal state (a finished query stays finished) */
#define Q_PROCESS_ENSURES(q) \
    (Q_STATE_OK(q) && (Q_TERMINAL(__CPROVER_old((q)->state)) ==> (q)->state == __CPROVER_old((q)->state)))

/* the result: in progress -> -1/EAGAIN; failed -> -1/ENOENT (and the ghost "a terminal failure has been reported" is set);
 * successful -> the number of addresses stored, 1..capacity */
#define Q_RESULT_ENSURES(rv, q, capacity) ( \
    ((q)->state == query_state_in_progress ==> ((rv) == -1 && xv_errno == EAGAIN && xv_q_failed_seen == __CPROVER_old(xv_q_failed_seen))) && \
    ((q)->state == query_state_failed ==> ((rv) == -1 && xv_errno == ENOENT && xv_q_failed_seen)) && \
    ((q)->state == query_state_successful ==> ((rv) >= 1 && (rv) <= (capacity) && (rv) <= XCM_DNS_MAX_RESULT_SIZE && \
                                               xv_errno == __CPROVER_old(xv_errno) && xv_q_failed_seen == __CPROVER_old(xv_q_failed_seen))) && \
    (q)->state == __CPROVER_old((q)->state))

struct xcm_dns_query *xcm_dns_resolve(const char *domain_name, struct xpoll *xpoll, double timeout, void *log_ref)
__CPROVER_requires(xpoll != NULL && domain_name != NULL)
__CPROVER_assigns(xv_errno, xv_queries)
__CPROVER_ensures(__CPROVER_return_value == NULL || __CPROVER_is_fresh(__CPROVER_return_value, sizeof(struct xcm_dns_query)))
__CPROVER_ensures(Q_RESOLVE_ENSURES(__CPROVER_return_value))
__CPROVER_ensures(__CPROVER_return_value != NULL ==> Q_OK(__CPROVER_return_value))
;
void xcm_dns_query_process(struct xcm_dns_query *query)
__CPROVER_requires(query != NULL && Q_OK(query))
__CPROVER_assigns(__CPROVER_object_whole(query))
__CPROVER_ensures(Q_OK(query) && Q_PROCESS_ENSURES(query))
;
int xcm_dns_query_result(struct xcm_dns_query *query, struct xcm_addr_ip *ips, int capacity)
__CPROVER_requires(query != NULL && Q_OK(query) && capacity >= 1 && capacity <= XCM_DNS_MAX_RESULT_SIZE)
__CPROVER_requires(__CPROVER_w_ok(ips, sizeof(struct xcm_addr_ip) * capacity))
__CPROVER_assigns(xv_errno, xv_q_failed_seen, __CPROVER_object_upto(query->channel_fd_reg_ids, sizeof(query->channel_fd_reg_ids)))
__CPROVER_assigns(__CPROVER_object_upto(ips, sizeof(struct xcm_addr_ip) * capacity))
__CPROVER_ensures(Q_RESULT_ENSURES(__CPROVER_return_value, query, capacity))
;
/* errno preserved: see job dnstc.dns_query_destroy */
void xcm_dns_query_destroy(struct xcm_dns_query *query, bool owner)
__CPROVER_requires(query == NULL || Q_OK(query))
__CPROVER_assigns(xv_queries)
__CPROVER_ensures(xv_queries == __CPROVER_old(xv_queries) - (query != NULL ? 1 : 0))
;

/* ---- xcm_dns_resolve_sync ------------------------------------------------------------------------------------------ */
#define HOST_IS_NAME(h) ((h)->type != xcm_addr_type_ip)
int xcm_dns_resolve_sync(struct xcm_addr_host *host, void *log_ref)
__CPROVER_requires(__CPROVER_is_fresh(host, sizeof(*host)))
__CPROVER_requires(XV_DT_CNT_OK(xv_xpolls) && XV_DT_CNT_OK(xv_queries) && !xv_q_failed_seen && !xv_polled_after_fail && !xv_polled)
__CPROVER_assigns(XV_POLL_ASSIGNS, xv_xpolls, xv_queries, xv_q_failed_seen, host->type, __CPROVER_object_upto(&host->ip, sizeof(struct xcm_addr_ip)))
__CPROVER_ensures(__CPROVER_return_value == 0 || __CPROVER_return_value == -1)
/* PO[C13] resolve_sync.ip_needs_no_resolution: a literal address is left alone: no xpoll, no query, no poll() */
__CPROVER_ensures(__CPROVER_old(host->type) == xcm_addr_type_ip ==> (__CPROVER_return_value == 0 && !xv_polled && xv_errno == __CPROVER_old(xv_errno)))
/* PO[C13] resolve_sync.failure_is_reported_as_ENOENT: once xcm_dns_query_result has reported a terminal failure the function returns -1 with ENOENT */
__CPROVER_ensures(xv_q_failed_seen ==> (__CPROVER_return_value == -1 && xv_errno == ENOENT))
/* PO[C13] resolve_sync.no_wait_after_failure: ... and it does so WITHOUT waiting on poll() again (it does not hang) */
__CPROVER_ensures(!xv_polled_after_fail)
/* PO[C13] resolve_sync.success_is_an_address: 0 only with an IP address stored in *host */
__CPROVER_ensures(__CPROVER_return_value == 0 ==> (host->type == xcm_addr_type_ip && !xv_q_failed_seen))
/* PO[C13] resolve_sync.failure_keeps_the_name_tag: a failed resolution does not turn the host into an "IP" one */
__CPROVER_ensures(__CPROVER_return_value == -1 ==> host->type == __CPROVER_old(host->type))
/* PO[C08] resolve_sync.releases_everything: the temporary xpoll instance and the query are gone on every path */
__CPROVER_ensures(xv_xpolls == __CPROVER_old(xv_xpolls) && xv_queries == __CPROVER_old(xv_queries))
/* the wait is on the xpoll descriptor, for input, without timeout (the query's own timer makes it finite) */
__CPROVER_ensures(xv_polled ==> (xv_poll_fd >= 0 && xv_poll_events == POLLIN && xv_poll_timeout == -1))
;

#endif /* XV_DNSTC_DNS */

#include "contracts/end.h"
#endif
