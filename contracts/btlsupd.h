/* contracts/btlsupd.h -- libxcm/tp/tls/xcm_tp_btls.c, the half that unit btls left out:
 *   C04/C16  conn_update, server_update, btls_update: what the byte-stream TLS transport registers for wake-up
 *   C08/C18  btls_server (bind ladder), btls_close, btls_cleanup (+ deinit/conn_deinit inlined): life cycle
 *   C10      tls.peer_names (get_peer_names_attr, get_actual_/get_valid_peer_names_attr), the peer certificate getters (subject key id,
 *            subject CN, SANs), the credential getters (tls.*_file, tls.cert/key/tc/crl) and the five boolean policy getters
 * Reuses contracts/btls.h (socket shape, finalize_tls_conf, item/slist/ctx_store models) and env/ssl_env.h unchanged; the models
 * of the callees this unit must observe more closely are in env/btlsupd_env.h (see there for the redirection).
 *
 * ---------------------------------------------------------------------------------------------------------------------------
 * conn_update AS A TABLE.  Inputs: state, c = s->condition (what the application awaits: 0, R, S, R|S), sc = conn.ssl_condition
 * (the XCM operation whose SSL_read/SSL_write OpenSSL refused last: 0 = none since the last successful/any SSL call, R = receive,
 * S = send), sw = conn.ssl_wants (the direction OpenSSL said it needs: R or S; 0 only with sc == 0), hp = SSL_has_pending(),
 * pl = hp && sc != R (deliverable plaintext pending, see below).
 * Outputs: L = the condition handed to the btcp sub-socket, U = the sub-socket's update ran (seeing L), B = the bell rings.
 *
 *   state        c      pl   sc   sw  |  L     U  B   | why (code comment / property)
 *   handshaking  any    -    0    R|S |  sw    1  0   | C04: OpenSSL said what the handshake waits for
 *   closed, bad  any    -    -    -   |  0     0  1   | C04/C06: terminal condition to report, whatever is awaited
 *   ready        0      -    -    -   |  0     1  0   | C16: nothing awaited
 *   ready        R,R|S  1    !=R  -   |  0     0  1   | C04: plaintext already inside OpenSSL will never make the fd readable
 *   ready        != 0   *    0    -   |  0     0  1   | "No SSL_read()/write() issued": nothing known, let the application try
 *   ready        R      0    R    sw  |  sw    1  0   | C16: after a refused receive: exactly what OpenSSL asked for
 *   ready        S      -    S    sw  |  sw    1  0   | same for a refused send
 *   ready        R      0    S    -   |  0     0  1   | "No overlap": nothing known about the awaited direction, let the application try
 *   ready        S      -    R    -   |  0     0  1   | same
 *   ready        R|S    0    S    R   |  R     1  0   | send refused, wants read ("reneg"): R serves both the send and the awaited R
 *   ready        R|S    0    S    S   |  R|S   1  0   | send refused, wants write ("backpressure"); R: the application's own interest
 *   ready        R|S    0    R    R|S |  R|S   1  0   | receive refused; S: the application's own interest (no send was refused)
 *   (* = with c containing R: pl == 0, else any)
 * pl ("deliverable plaintext is pending") := SSL_has_pending() && sc != R.  SSL_has_pending() is true for processed AND for unprocessed
 * data, i.e. also while only a PART of a TLS record has arrived.  With sc == R the last SSL call on this connection was an SSL_read that
 * OpenSSL refused (WANT_READ/WANT_WRITE) and nothing has entered OpenSSL since (every SSL call resets ssl_condition first): whatever is
 * buffered is not deliverable (assumption A8 on OpenSSL: SSL_read does not refuse while it holds processed application data), so
 * ringing the bell for it makes the descriptor readable although "xcm_receive has reported EAGAIN and nothing new has arrived" (C16):
 * the event loop spins until the rest of the record arrives.  THE CURRENT TREE DOES THAT (rows 4 and 6 disagree for hp == 1, sc == R):
 * obligations conn_update.exact_table, .after_refused_op_exactly_ssl_wants, .bell_only_where_justified FAIL; reproduced natively
 * (harness/btlsupd/native_spin.c.txt + native_spin_client.py.txt: 1.4 million wake-ups in 2 s while half a record is pending; 2 with the fix:
 * `bts->conn.ssl_condition != XCM_SO_RECEIVABLE &&` in front of the first SSL_has_pending() test, and the second, then dead, test removed).
 *
 * The C04 reading of a row: for EACH awaited direction d the application is woken when d may have become possible:
 *   NEED(d) = sw if the last refused operation was the one for d (sc == d), else d itself (nothing refused: the btcp socket's
 *   own readiness in that direction); no lost wake-up <=> B || (U && L includes NEED(d) for every awaited d).
 * The C16 reading: B only in the rows that say so; L never contains a direction that neither OpenSSL nor the application asked for.
 */
#ifndef XV_BTLSUPD_H
#define XV_BTLSUPD_H
#include "contracts/begin.h"

#define XU_R XCM_SO_RECEIVABLE
#define XU_S XCM_SO_SENDABLE
#define XU_RS (XCM_SO_RECEIVABLE | XCM_SO_SENDABLE)
#define XU_C(s) ((s)->condition)
#define XU_SC(s) (BT(s)->conn.ssl_condition)
#define XU_SW(s) (BT(s)->conn.ssl_wants)
#define XU_LOW(s) (BT(s)->btcp_socket)
#define XU_L(s) (BT(s)->btcp_socket->condition)
#define XU_DIR(v) ((v) == XU_R || (v) == XU_S)
#define XU_HP (xvu_has_pending != 0)

/* the socket under proof with its btcp sub-socket (an object of its own) and the ghost names of what it owns */
#define XU_SOCK(s) (BT_FRESH(s) && __CPROVER_is_fresh(XU_LOW(s), sizeof(struct xcm_socket)) && XU_LOW(s) == xvu_low && (s)->xpoll == xvu_xpoll)
#define XU_CONN_OWNS(s) (BT(s)->conn.bell_reg_id == xvu_bell_id && BT(s)->conn.ssl == xvu_ssl)
/* representation invariant of (ssl_condition, ssl_wants): both are reset to 0 before every SSL call (try_finish_tls_handshake,
 * btls_send, btls_receive); process_ssl_event sets ssl_condition = the operation and ssl_wants = R/S together on WANT_READ/
 * WANT_WRITE (ssl_condition 0 for a handshake step), ssl_wants = R alone on a spurious EINPROGRESS; a socket that is still
 * handshaking after its step got WANT_* or EINPROGRESS (anything else leaves the state).  Preservation by those four functions:
 * lemma job btlsupd.wants_inv (plain CBMC on the real functions) */
#define XU_WANTS_INV(s) ((XU_SC(s) == 0 || XU_DIR(XU_SC(s))) && (XU_SW(s) == 0 || XU_DIR(XU_SW(s))) && (XU_SC(s) != 0 ==> XU_SW(s) != 0) && \
                         (BT_STATE(s) == conn_state_tls_handshaking ==> (XU_SC(s) == 0 && XU_SW(s) != 0)))
/* update() is reachable on a connection only after a successful connect/accept: handshaking, ready, closed or bad */
#define XU_UPD_STATE(s) (BT_STATE(s) == conn_state_tls_handshaking || BT_STATE(s) == conn_state_ready || BT_STATE(s) == conn_state_closed || BT_STATE(s) == conn_state_bad)
/* the ghost constants xvu_in_* (env/btlsupd_env.h, never assigned) are bound to the inputs of the table, so that the canaries of the
 * harness can name its rows */
#define XU_IN_BOUND(s) ((int)BT_STATE(s) == xvu_in_st && XU_C(s) == xvu_in_c && XU_SC(s) == xvu_in_sc && XU_SW(s) == xvu_in_sw)
#define XU_CONN_UPD_REQ(s) (XU_CONN_OWNS(s) && XU_UPD_STATE(s) && XU_WANTS_INV(s) && (XU_C(s) & ~XU_RS) == 0 && XU_IN_BOUND(s))
#define XU_SERVER_UPD_REQ(s) ((XU_C(s) & ~XCM_SO_ACCEPTABLE) == 0)

/* ---- the table */
/* deliverable plaintext is pending inside OpenSSL (see the header: SSL_has_pending() counts a partial record too) */
#define XU_PLAIN(sc) (XU_HP && (sc) != XU_R)
#define XU_T_BELL_READY(c, sc) ((c) != 0 && ((((c) & XU_R) != 0 && XU_PLAIN(sc)) || ((c) & (sc)) == 0))
#define XU_T_BELL(st, c, sc) ((st) == conn_state_closed || (st) == conn_state_bad || ((st) == conn_state_ready && XU_T_BELL_READY(c, sc)))
#define XU_T_LOW(st, c, sc, sw) ((st) == conn_state_tls_handshaking ? (sw) : \
                                 ((st) != conn_state_ready || (c) == 0 || XU_T_BELL_READY(c, sc)) ? 0 : \
                                 (c) == (sc) ? (sw) : ((sc) == XU_S && (sw) == XU_R) ? XU_R : XU_RS)
#define XU_BELL(s) XU_T_BELL(BT_STATE(s), XU_C(s), XU_SC(s))
#define XU_TLOW(s) XU_T_LOW(BT_STATE(s), XU_C(s), XU_SC(s), XU_SW(s))
/* what the awaited direction d needs from below */
#define XU_NEED_DIR(d, c, sc, sw) ((((c) & (d)) == 0) ? 0 : (sc) == (d) ? (sw) : (d))
#define XU_NEED(s) (XU_NEED_DIR(XU_R, XU_C(s), XU_SC(s), XU_SW(s)) | XU_NEED_DIR(XU_S, XU_C(s), XU_SC(s), XU_SW(s)))

#define XU_RINGS (xvu.bell_ringing != 0)
#define XU_BELL_SET_ONCE (xvu.bell_mods == __CPROVER_old(xvu.bell_mods) + 1)
#define XU_LOW_UPDATED_ONCE(s) (xvu.low_updates == __CPROVER_old(xvu.low_updates) + 1 && xvu.low_upd_cond == XU_L(s))
#define XU_LOW_NOT_UPDATED (xvu.low_updates == __CPROVER_old(xvu.low_updates))
#define XU_UPD_ASSIGNS xvu.low_updates, xvu.low_upd_cond, xvu.bell_mods, xvu.bell_ringing, xvu.pending_calls, xvu.foreign

/* the postconditions of conn_update, over a socket expression (shared with btls_update) */
#define XU_CONN_EXACT(s) (XU_L(s) == XU_TLOW(s) && XU_BELL_SET_ONCE && XU_RINGS == XU_BELL(s) && (XU_BELL(s) ? XU_LOW_NOT_UPDATED : XU_LOW_UPDATED_ONCE(s)))
#define XU_CONN_HANDSHAKING(s) (BT_STATE(s) == conn_state_tls_handshaking ==> (XU_SW(s) != 0 && XU_L(s) == XU_SW(s) && XU_LOW_UPDATED_ONCE(s)))
#define XU_CONN_NO_LOST_WAKEUP(s) ((BT_STATE(s) == conn_state_ready && XU_C(s) != 0) ==> \
                                   ((XU_BELL_SET_ONCE && XU_RINGS) || (XU_LOW_UPDATED_ONCE(s) && (xvu.low_upd_cond & XU_NEED(s)) == XU_NEED(s))))
#define XU_CONN_PENDING_RINGS(s) ((BT_STATE(s) == conn_state_ready && (XU_C(s) & XU_R) != 0 && XU_PLAIN(XU_SC(s))) ==> (XU_BELL_SET_ONCE && XU_RINGS))
#define XU_CONN_TERMINAL_RINGS(s) ((BT_STATE(s) == conn_state_closed || BT_STATE(s) == conn_state_bad) ==> (XU_BELL_SET_ONCE && XU_RINGS))
#define XU_CONN_IDLE_QUIET(s) ((BT_STATE(s) == conn_state_ready && XU_C(s) == 0) ==> (XU_L(s) == 0 && XU_BELL_SET_ONCE && !XU_RINGS && XU_LOW_UPDATED_ONCE(s)))
#define XU_CONN_REFUSED_EXACT(s) ((BT_STATE(s) == conn_state_ready && XU_DIR(XU_C(s)) && XU_SC(s) == XU_C(s)) ==> \
                                  (XU_L(s) == XU_SW(s) && XU_BELL_SET_ONCE && !XU_RINGS && XU_LOW_UPDATED_ONCE(s)))
#define XU_CONN_BELL_JUSTIFIED(s) (XU_RINGS ==> (BT_STATE(s) == conn_state_closed || BT_STATE(s) == conn_state_bad || \
                                   (BT_STATE(s) == conn_state_ready && XU_C(s) != 0 && (((XU_C(s) & XU_R) != 0 && XU_PLAIN(XU_SC(s))) || XU_SC(s) == 0 || (XU_C(s) & XU_SC(s)) == 0))))
#define XU_CONN_LOW_JUSTIFIED(s) ((XU_L(s) & ~(BT_STATE(s) == conn_state_ready ? (XU_C(s) | XU_SW(s)) : XU_SW(s))) == 0 && (XU_RINGS ==> (XU_L(s) == 0 && XU_LOW_NOT_UPDATED)))

static void conn_update(struct xcm_socket *s)
__CPROVER_requires(XU_SOCK(s) && XU_CONN_UPD_REQ(s) && XVU_RANGE && XVL_OWES)
/* the frame: the sub-socket's awaited condition, the records of the sub-socket's update, the bell and SSL_has_pending -- not the
 * socket's own condition or state, not errno, nothing else of the sub-socket */
__CPROVER_assigns(XU_L(s), XU_UPD_ASSIGNS)
/* PO[C04,C16] conn_update.exact_table: the whole table of this file's header: lower condition, bell (set exactly once), and the sub-socket's update run exactly when the bell stays silent, seeing that lower condition */
__CPROVER_ensures(XU_CONN_EXACT(s))
/* PO[C04] conn_update.handshaking_awaits_what_openssl_asked: lower condition == ssl_wants != 0, handed down before the sub-socket's update ran */
__CPROVER_ensures(XU_CONN_HANDSHAKING(s))
/* PO[C04] conn_update.no_lost_wakeup: ready and something awaited: the bell rings, or the sub-socket was updated with a condition that includes, for every awaited direction, what OpenSSL asked for when it refused that operation last, else that direction itself */
__CPROVER_ensures(XU_CONN_NO_LOST_WAKEUP(s))
/* PO[C04] conn_update.pending_plaintext_rings_bell: RECEIVABLE awaited and deliverable data already inside OpenSSL: the bell rings (the descriptor underneath will not become readable for it) */
__CPROVER_ensures(XU_CONN_PENDING_RINGS(s))
/* PO[C04,C06] conn_update.terminal_rings_bell: closed/bad: the bell rings whatever is awaited */
__CPROVER_ensures(XU_CONN_TERMINAL_RINGS(s))
/* PO[C16] conn_update.idle_is_quiet: ready and nothing awaited: the sub-socket awaits nothing (and was told so), the bell is silent */
__CPROVER_ensures(XU_CONN_IDLE_QUIET(s))
/* PO[C16] conn_update.after_refused_op_exactly_ssl_wants: the awaited operation is the one OpenSSL refused last (RECEIVABLE after xcm_receive reported EAGAIN, nothing new arrived -- whatever SSL_has_pending() says about a partial record): the sub-socket awaits exactly ssl_wants, the bell is silent */
__CPROVER_ensures(XU_CONN_REFUSED_EXACT(s))
/* PO[C16] conn_update.bell_only_where_justified: the bell rings only when closed/bad, or ready with something awaited and (deliverable plaintext pending with RECEIVABLE awaited, or no SSL operation refused since the last one, or the refused one is not among the awaited) */
__CPROVER_ensures(XU_CONN_BELL_JUSTIFIED(s))
/* PO[C16] conn_update.lower_only_what_was_asked: the sub-socket never awaits a direction that neither the application nor OpenSSL asked for; with the bell ringing it awaits nothing and is not updated */
__CPROVER_ensures(XU_CONN_LOW_JUSTIFIED(s))
/* PO[C16] conn_update.nothing_else: only the socket's own bell registration, own SSL and own sub-socket are addressed; SSL_has_pending is asked only when RECEIVABLE is awaited on a ready socket */
__CPROVER_ensures(xvu.foreign == __CPROVER_old(xvu.foreign) && XV_GROW(xvu.pending_calls, 2) && \
                  (!(BT_STATE(s) == conn_state_ready && (XU_C(s) & XU_R) != 0) ==> xvu.pending_calls == __CPROVER_old(xvu.pending_calls)))
;

/* ---- server_update: the listening btcp sub-socket awaits exactly what the application awaits */
#define XU_SERVER_FORWARDS(s) (XU_L(s) == XU_C(s) && XU_LOW_UPDATED_ONCE(s) && xvu.low_upd_cond == XU_C(s))
static void server_update(struct xcm_socket *s)
__CPROVER_requires(XU_SOCK(s) && XU_SERVER_UPD_REQ(s) && XVU_RANGE && XVL_OWES)
__CPROVER_assigns(XU_L(s), xvu.low_updates, xvu.low_upd_cond, xvu.foreign)
/* PO[C04,C16] server_update.forwards_condition: lower condition == s->condition (ACCEPTABLE <=> lower ACCEPTABLE), set before the sub-socket's update ran, which ran once; no bell is involved */
__CPROVER_ensures(XU_SERVER_FORWARDS(s) && xvu.foreign == __CPROVER_old(xvu.foreign))
;

/* ---- btls_update: dispatch on the socket type (real conn_update/server_update inlined) */
static void btls_update(struct xcm_socket *s)
__CPROVER_requires(XU_SOCK(s) && BT_PROTO_FRESH(s) && BT_PROTO(s) && XVU_RANGE && XVL_OWES)
__CPROVER_requires((s->type == xcm_socket_type_conn && XU_CONN_UPD_REQ(s)) || (s->type == xcm_socket_type_server && XU_SERVER_UPD_REQ(s)))
__CPROVER_assigns(XU_L(s), XU_UPD_ASSIGNS)
/* PO[C04,C16] btls_update.conn_exact_table */
__CPROVER_ensures(BT_IS_CONN(s) ==> XU_CONN_EXACT(s))
/* PO[C04] btls_update.conn_no_lost_wakeup */
__CPROVER_ensures(BT_IS_CONN(s) ==> (XU_CONN_HANDSHAKING(s) && XU_CONN_NO_LOST_WAKEUP(s) && XU_CONN_PENDING_RINGS(s) && XU_CONN_TERMINAL_RINGS(s)))
/* PO[C16] btls_update.conn_quiet_when_idle */
__CPROVER_ensures(BT_IS_CONN(s) ==> (XU_CONN_IDLE_QUIET(s) && XU_CONN_REFUSED_EXACT(s) && XU_CONN_BELL_JUSTIFIED(s) && XU_CONN_LOW_JUSTIFIED(s)))
/* PO[C04,C16] btls_update.server_forwards_condition: and a server socket never touches a bell */
__CPROVER_ensures(!BT_IS_CONN(s) ==> (XU_SERVER_FORWARDS(s) && xvu.bell_mods == __CPROVER_old(xvu.bell_mods) && xvu.pending_calls == __CPROVER_old(xvu.pending_calls)))
__CPROVER_ensures(xvu.foreign == __CPROVER_old(xvu.foreign))
;

/* ================================================================================================================ */
/* C08/C18: life cycle -- btls_server (bind ladder), btls_close, btls_cleanup; the REAL deinit/conn_deinit are inlined */
/* ================================================================================================================ */
#define XU_TYPE_OK(s) ((s)->type == xcm_socket_type_conn || (s)->type == xcm_socket_type_server)
/* a context reference is held exactly when ssl_ctx is set (ctx_store_get_ctx counts in xv_ctx_refs, contracts/btls.h) */
#define XU_CTX_HELD_OK(s) (BT(s)->ssl_ctx == NULL || (BT(s)->ssl_ctx == XV_CTX && xv_ctx_refs >= 1))
#define XU_LIFE_GHOSTS (XVU_RANGE && XV_SSL_GHOST_RANGE && XV_OTHER_RANGE && BT_CONF_GHOST_RANGE)
/* what deinit() touches outside the socket */
#define XU_DEINIT_ASSIGNS xvu.low_st, xvu.low_destroys, xvu.low_leaks, xvu.bell_dels, xvu.foreign, xv_ssl_free_calls, xv_ssl_free_ssl, \
                          xv_it_w_deinits, xv_slist_destroy_calls, xv_slist_destroyed, xv_ctx_refs
#define XU_DEINIT_SOCK_ASSIGNS(s) BT(s)->cert, BT(s)->key, BT(s)->tc, BT(s)->crl, BT(s)->btcp_socket
#define XU_SAME(f) ((f) == __CPROVER_old(f))
#define XU_PLUS(f, n) ((f) == __CPROVER_old(f) + (n))
/* the sub-socket is gone for good: destroyed once, nothing it held was lost with it, the socket no longer points to it */
#define XU_LOW_GONE(s) (xvu.low_st == XVL_DESTROYED && XU_PLUS(xvu.low_destroys, 1) && XU_SAME(xvu.low_leaks) && XU_LOW(s) == NULL && XU_SAME(xvu.foreign))
#define XU_CTX_RELEASED_IFF_HELD(s) (xv_ctx_refs == __CPROVER_old(xv_ctx_refs) - (BT(s)->ssl_ctx != NULL ? 1 : 0))
#define XU_NAMES_RELEASED(s) (BT(s)->valid_peer_names != NULL ? (XU_PLUS(xv_slist_destroy_calls, 1) && xv_slist_destroyed == BT(s)->valid_peer_names) : XU_SAME(xv_slist_destroy_calls))
#define XU_ITEM_RELEASED(s) (BT_W(s, type) == item_type_none && xv_it_w_deinits == __CPROVER_old(xv_it_w_deinits) + (BT_W_OLD(s, type) != item_type_none ? 1 : 0))
#define XU_SSL_FREED_IFF_CONN(s) (BT_IS_CONN(s) ? (XU_PLUS(xv_ssl_free_calls, 1) && xv_ssl_free_ssl == BT(s)->conn.ssl) : XU_SAME(xv_ssl_free_calls))

/* entry state of close/cleanup: any socket that went through init: a server (bound or not) or a connection in any state; its
 * sub-socket owes a close.  xvu_null: the call is made with NULL (a no-op) */
#define XU_END_REQ(s) (xvu_null ? (s) == NULL : \
        (XU_SOCK(s) && BT_PROTO_FRESH(s) && BT_PROTO(s) && XU_TYPE_OK(s) && BT_ITEMS_OK(s) && BT_SEL_OK(s) && XU_CTX_HELD_OK(s) && XVL_OWES && \
         (BT_IS_CONN(s) ==> (XU_CONN_OWNS(s) && BT_STATE(s) >= conn_state_initialized && BT_STATE(s) <= conn_state_closed))))

static void btls_close(struct xcm_socket *s)
__CPROVER_requires(XU_END_REQ(s) && XU_LIFE_GHOSTS)
__CPROVER_assigns(xv_errno, xvu.shutdowns, xvu.shutdown_low_st, xvu.low_closes, XU_DEINIT_ASSIGNS)
__CPROVER_assigns(s != NULL: XU_DEINIT_SOCK_ASSIGNS(s))
/* PO[C08] btls_close.sub_socket_closed_once_then_destroyed: one close (no cleanup) of the btcp sub-socket while it owed one, then its destruction */
__CPROVER_ensures(s != NULL ==> (XU_PLUS(xvu.low_closes, 1) && XU_SAME(xvu.low_cleanups) && XU_LOW_GONE(s)))
/* PO[C08,C18] btls_close.context_released_iff_held: the TLS context reference goes back to the cache exactly once iff the socket holds one */
__CPROVER_ensures(s != NULL ==> XU_CTX_RELEASED_IFF_HELD(s))
/* PO[C08] btls_close.ssl_freed_iff_connection: the connection's own SSL is freed once; a server socket has none */
__CPROVER_ensures(s != NULL ==> XU_SSL_FREED_IFF_CONN(s))
/* PO[C08] btls_close.bell_deregistered_iff_connection: the owner closes: the connection's bell registration is deleted once (and not modified); a server has none */
__CPROVER_ensures(s != NULL ==> (xvu.bell_dels == __CPROVER_old(xvu.bell_dels) + (BT_IS_CONN(s) ? 1 : 0) && XU_SAME(xvu.bell_mods)))
/* PO[C08] btls_close.names_and_credentials_released: the name list is destroyed once iff there is one; every credential item is emptied (watched one: released once iff designated) */
__CPROVER_ensures(s != NULL ==> (XU_NAMES_RELEASED(s) && XU_ITEM_RELEASED(s)))
/* close_notify is sent on a ready connection only, once, on the socket's own SSL, BEFORE the sub-socket it travels through is closed */
__CPROVER_ensures(s != NULL ==> ((BT_IS_CONN(s) && BT_STATE(s) == conn_state_ready) \
        ? (XU_PLUS(xvu.shutdowns, 1) && (xvu.shutdown_low_st == XVL_INIT || xvu.shutdown_low_st == XVL_LIVE)) \
        : (XU_SAME(xvu.shutdowns) && XU_SAME(xv_errno))))
/* PO[C08] btls_close.null_is_a_no_op */
__CPROVER_ensures(s == NULL ==> (XU_SAME(xvu.low_closes) && XU_SAME(xvu.low_destroys) && XU_SAME(xv_ctx_refs) && XU_SAME(xv_ssl_free_calls) && XU_SAME(xvu.bell_dels) && \
                                 XU_SAME(xvu.shutdowns) && XU_SAME(xvu.foreign) && XU_SAME(xv_errno)))
;

static void btls_cleanup(struct xcm_socket *s)
__CPROVER_requires(XU_END_REQ(s) && XU_LIFE_GHOSTS)
__CPROVER_assigns(xvu.low_cleanups, XU_DEINIT_ASSIGNS)
__CPROVER_assigns(s != NULL: XU_DEINIT_SOCK_ASSIGNS(s))
/* PO[C08] btls_cleanup.sub_socket_cleaned_up_once_then_destroyed: one cleanup (NOT a close: the descriptor's epoll registrations and the connection belong to the parent) then its destruction */
__CPROVER_ensures(s != NULL ==> (XU_PLUS(xvu.low_cleanups, 1) && XU_SAME(xvu.low_closes) && XU_LOW_GONE(s)))
/* PO[C08] btls_cleanup.owner_and_peer_untouched: no close_notify to the peer, no change of the bell registrations (the epoll instance is shared with the owner), errno untouched */
__CPROVER_ensures(XU_SAME(xvu.shutdowns) && XU_SAME(xvu.bell_dels) && XU_SAME(xvu.bell_mods) && XU_SAME(xv_errno))
/* PO[C08,C18] btls_cleanup.context_released_iff_held: process-local: the child's reference to the cached context */
__CPROVER_ensures(s != NULL ==> XU_CTX_RELEASED_IFF_HELD(s))
/* PO[C08] btls_cleanup.ssl_freed_iff_connection: process-local memory */
__CPROVER_ensures(s != NULL ==> XU_SSL_FREED_IFF_CONN(s))
/* PO[C08] btls_cleanup.names_and_credentials_released */
__CPROVER_ensures(s != NULL ==> (XU_NAMES_RELEASED(s) && XU_ITEM_RELEASED(s)))
/* PO[C08] btls_cleanup.null_is_a_no_op */
__CPROVER_ensures(s == NULL ==> (XU_SAME(xvu.low_cleanups) && XU_SAME(xvu.low_destroys) && XU_SAME(xv_ctx_refs) && XU_SAME(xv_ssl_free_calls) && XU_SAME(xvu.foreign)))
;

/* ---- btls_server: address, policy/credentials (finalize_tls_conf: its contract of unit btls), context, bind of the sub-socket */
#define XU_SRV_ADDR_OK (xvu.addr_rv == 0)
#define XU_SRV_CTX_TRIED (xv_ctx_get_calls != __CPROVER_old(xv_ctx_get_calls))
#define XU_SRV_BIND_TRIED (xvu.low_servers != __CPROVER_old(xvu.low_servers))
static int btls_server(struct xcm_socket *s, const char *local_addr)
__CPROVER_requires(XU_SOCK(s) && __CPROVER_is_fresh(local_addr, 1) && s->type == xcm_socket_type_server && BT_ITEMS_OK(s) && BT_BOOLS_OK(s) && BT_SEL_OK(s) && \
                   BT(s)->ssl_ctx == NULL && xvu.low_st == XVL_INIT && XU_LIFE_GHOSTS)
__CPROVER_assigns(xv_errno, XV_ITEM_ASSIGNS, XV_ASP_ASSIGNS, XV_NS_ASSIGNS, xv_getenv_calls, xv_slist_destroy_calls, xv_slist_destroyed)
__CPROVER_assigns(xv_ctx_get_calls, xv_ctx_refs, xv_ctx_cert, xv_ctx_key, xv_ctx_tc, xv_ctx_crl, xv_ctx_cert_type, xv_ctx_key_type, xv_ctx_tc_type, xv_ctx_crl_type)
__CPROVER_assigns(xvu.addr_calls, xvu.addr_rv, xvu.addr_buf, xvu.addr_in, xvu.low_servers, xvu.low_server_rv, xvu.low_server_addr_ok, xvu.low_closes, XU_DEINIT_ASSIGNS)
__CPROVER_assigns(XU_DEINIT_SOCK_ASSIGNS(s), BT(s)->valid_peer_names, BT(s)->ssl_ctx, BT(s)->server.created)
__CPROVER_ensures(__CPROVER_return_value == 0 || (__CPROVER_return_value == -1 && xv_errno > 0))
/* PO[C08] btls_server.failure_leaves_nothing: a failed bind, at whichever step, keeps no context reference, and the sub-socket is destroyed without anything it held being lost; every credential item is emptied; nothing that belongs to a connection is touched */
__CPROVER_ensures(__CPROVER_return_value == -1 ==> (XU_SAME(xv_ctx_refs) && XU_LOW_GONE(s) && XU_SAME(xvu.low_cleanups) && XU_SAME(xvu.bell_dels) && XU_SAME(xv_ssl_free_calls) && BT_W(s, type) == item_type_none))
/* PO[C08] btls_server.close_rule_of_xcm_tp_h: the sub-socket is closed exactly once if the failure came before its own server() call, and NOT closed after its own server() call failed (it has cleaned up itself) */
__CPROVER_ensures(__CPROVER_return_value == -1 ==> xvu.low_closes == __CPROVER_old(xvu.low_closes) + (XU_SRV_BIND_TRIED ? 0 : 1))
/* PO[C08,C18] btls_server.success_holds_exactly: a bound server holds its live sub-socket (neither closed nor destroyed) and ONE reference to the context made from its credentials */
__CPROVER_ensures(__CPROVER_return_value == 0 ==> (xvu.low_st == XVL_LIVE && XU_SAME(xvu.low_closes) && XU_SAME(xvu.low_destroys) && XU_SAME(xvu.low_leaks) && XU_SAME(xvu.foreign) && \
                                                    XU_LOW(s) == xvu_low && XU_PLUS(xv_ctx_refs, 1) && BT(s)->ssl_ctx == XV_CTX && BT(s)->server.created == 1))
/* PO[C18] btls_server.own_credentials: the context is fetched once, for the socket's own four items as finalize_tls_conf left them (trusted CAs iff tls.auth, CRL iff tls.check_crl) */
__CPROVER_ensures(XU_SRV_CTX_TRIED ==> (XU_PLUS(xv_ctx_get_calls, 1) && BT_CTX_FROM_OWN(s)))
/* PO[C09] btls_server.inconsistent_policy_refused: an inconsistent policy never binds anything nor loads credentials: EINVAL (unless the address is unusable as well) */
__CPROVER_ensures(BT_INCONSISTENT(s) ==> (__CPROVER_return_value == -1 && !XU_SRV_CTX_TRIED && !XU_SRV_BIND_TRIED && (XU_SRV_ADDR_OK ==> xv_errno == EINVAL)))
/* the ladder: address first (a refused address consults nothing), then credentials, the bind last -- exactly one, of the address btls_to_btcp produced from local_addr; success <=> that bind succeeded */
__CPROVER_ensures(XU_PLUS(xvu.addr_calls, 1) && xvu.addr_in == local_addr && (!XU_SRV_ADDR_OK ==> (__CPROVER_return_value == -1 && BT_NO_LOOKUPS && !XU_SRV_CTX_TRIED && !XU_SRV_BIND_TRIED)))
__CPROVER_ensures(XU_SRV_BIND_TRIED ==> (XU_PLUS(xvu.low_servers, 1) && xvu.low_server_addr_ok && XU_SRV_CTX_TRIED && XU_SRV_ADDR_OK))
__CPROVER_ensures((__CPROVER_return_value == 0) == (XU_SRV_BIND_TRIED && xvu.low_server_rv == 0))
;

/* ================================================================================================================ */
/* C10: the attribute getters unit btls left out (jobs include harness/btlsupd/_c10.h)                               */
/* ================================================================================================================ */
#ifdef XVU_C10
/* The caller's buffer is an object of EXACTLY `capacity` bytes (1 byte for capacity 0, which must then not be written: it is in no
 * assigns clause): any store beyond `capacity` is a failed pointer/assigns obligation at the offending statement.  Capacities above
 * XG_CAP_MAX and values longer than XG_LEN_MAX are not explored (is_fresh needs a bound). */
#define XG_CAP_MAX 1024
#define XG_LEN_MAX 1500
#define XG_OUT(value, capacity) ((capacity) <= XG_CAP_MAX && __CPROVER_is_fresh((value), (capacity) == 0 ? 1 : (capacity)))
#define XG_STR_OK (xvg_len <= XG_LEN_MAX && xvg_c_j != 0)
#define XG_CH(p) ((const char *)(p))
/* the string value (ghost length xvg_len) and its NUL are written iff they fit; the result is the number of bytes written; the
 * copy is byte-exact (arbitrary position xv_j) */
#define XG_STR_WRITTEN(rv, value) ((rv) == (int)(xvg_len + 1) && XG_CH(value)[xvg_len] == 0 && ((xv_j >= 0 && (size_t)xv_j < xvg_len) ==> XG_CH(value)[xv_j] == xvg_c_j))
#define XG_STR_RESULT(rv, value, capacity) (xvg_len + 1 <= (capacity) ? XG_STR_WRITTEN(rv, value) : ((rv) == -1 && xv_errno == EOVERFLOW))
#define XG_FITS(rv, capacity) ((rv) >= -1 && ((rv) >= 0 ==> (size_t)(rv) <= (capacity)))
#define XG_CERT_ASSIGNS xv_x509_refs, xv_peer_cert_calls
#define XG_CERT_RANGE (XV_SSL_CNT_OK(xv_x509_refs) && XV_SSL_CNT_OK(xv_peer_cert_calls))
#define XG_HAS_CERT (xv_ssl_peer_cert != 0)
#define XG_CERT_BALANCED (xv_x509_refs == __CPROVER_old(xv_x509_refs))
#define XG_STR_ASSIGNS xvg_strcpy_calls, xvg_strcpy_dst

/* ---- tls.peer_names on an established connection: the names the peer's certificate carries */
static int get_actual_peer_names_attr(struct xcm_socket *s, void *value, size_t capacity)
__CPROVER_requires(BT_FRESH(s) && XG_OUT(value, capacity) && XG_STR_OK && XVG_RANGE && XG_CERT_RANGE && XV_SSL_CNT_OK(xv_slist_destroy_calls))
__CPROVER_assigns(xv_errno, XG_CERT_ASSIGNS, XG_STR_ASSIGNS, xvg.names_calls, xvg.names_list, xvg.join_calls, xvg.join_list, xvg.join_str, xv_slist_n, xv_slist_destroy_calls, xv_slist_destroyed)
__CPROVER_assigns(capacity > 0: __CPROVER_object_upto(value, capacity))
/* PO[C10] get_actual_peer_names_attr.never_more_than_capacity */
__CPROVER_ensures(XG_FITS(__CPROVER_return_value, capacity))
/* PO[C10] get_actual_peer_names_attr.fits_or_eoverflow: the joined names and their NUL are written iff they fit; the result is the number of bytes written */
__CPROVER_ensures((XG_HAS_CERT && xvg_nnames > 0) ==> XG_STR_RESULT(__CPROVER_return_value, value, capacity))
/* PO[C10] get_actual_peer_names_attr.no_names_is_enoent: a certificate without any subject name: ENOENT */
__CPROVER_ensures((XG_HAS_CERT && xvg_nnames == 0) ==> (__CPROVER_return_value == -1 && xv_errno == ENOENT))
/* PO[C10] get_actual_peer_names_attr.no_certificate_writes_nothing: no peer certificate (tls.auth off): 0 bytes, nothing written */
__CPROVER_ensures(!XG_HAS_CERT ==> (__CPROVER_return_value == 0 && xvg_strcpy_calls == __CPROVER_old(xvg_strcpy_calls)))
/* the certificate reference is given back; the temporary list is destroyed exactly once iff it was made */
__CPROVER_ensures(XG_CERT_BALANCED && (XG_HAS_CERT ? (XU_PLUS(xv_slist_destroy_calls, 1) && xv_slist_destroyed == xvg.names_list) : XU_SAME(xv_slist_destroy_calls)))
;
/* ---- tls.peer_names before/without an established connection: the names expected (same contract as harness/btls/get_valid_peer_names.c,
 * over this unit's string ghosts; used as an ASSUMED contract by the job of get_peer_names_attr, enforced in job btlsupd.get_valid_peer_names) */
static int get_valid_peer_names_attr(struct xcm_socket *s, void *value, size_t capacity)
__CPROVER_requires(BT_FRESH(s) && XG_OUT(value, capacity) && XG_STR_OK && XVG_RANGE)
__CPROVER_requires(BT(s)->valid_peer_names != NULL ==> __CPROVER_is_fresh(BT(s)->valid_peer_names, 8))
__CPROVER_assigns(xv_errno, XG_STR_ASSIGNS, xvg.join_calls, xvg.join_list, xvg.join_str)
__CPROVER_assigns(capacity > 0: __CPROVER_object_upto(value, capacity))
/* PO[C10] get_valid_peer_names_attr.never_more_than_capacity */
__CPROVER_ensures(XG_FITS(__CPROVER_return_value, capacity))
/* PO[C10] get_valid_peer_names_attr.fits_or_eoverflow */
__CPROVER_ensures(BT(s)->valid_peer_names != NULL ==> XG_STR_RESULT(__CPROVER_return_value, value, capacity))
/* PO[C10] get_valid_peer_names_attr.no_names_is_enoent */
__CPROVER_ensures(BT(s)->valid_peer_names == NULL ==> (__CPROVER_return_value == -1 && xv_errno == ENOENT && xvg_strcpy_calls == __CPROVER_old(xvg_strcpy_calls)))
;
/* ---- tls.peer_names: dispatch */
#define XG_ESTABLISHED(s) (BT_IS_CONN(s) && BT_STATE(s) == conn_state_ready)
static int get_peer_names_attr(struct xcm_socket *s, void *context, void *value, size_t capacity)
__CPROVER_requires(BT_FRESH(s) && XU_TYPE_OK(s) && XG_OUT(value, capacity) && XG_STR_OK && XVG_RANGE && XG_CERT_RANGE && XV_SSL_CNT_OK(xv_slist_destroy_calls))
__CPROVER_requires(BT(s)->valid_peer_names != NULL ==> __CPROVER_is_fresh(BT(s)->valid_peer_names, 8))
__CPROVER_assigns(xv_errno, XG_CERT_ASSIGNS, XG_STR_ASSIGNS, xvg.names_calls, xvg.names_list, xvg.join_calls, xvg.join_list, xvg.join_str, xv_slist_n, xv_slist_destroy_calls, xv_slist_destroyed)
__CPROVER_assigns(capacity > 0: __CPROVER_object_upto(value, capacity))
/* PO[C10] get_peer_names_attr.never_more_than_capacity: whatever the socket kind and state */
__CPROVER_ensures(XG_FITS(__CPROVER_return_value, capacity))
/* PO[C10] get_peer_names_attr.capacity_zero_is_eoverflow */
__CPROVER_ensures(capacity == 0 ==> (__CPROVER_return_value == -1 && xv_errno == EOVERFLOW && xvg_strcpy_calls == __CPROVER_old(xvg_strcpy_calls)))
/* PO[C10] get_peer_names_attr.established_reports_certificate_names: fits => written, rv == bytes written; else EOVERFLOW */
__CPROVER_ensures((capacity > 0 && XG_ESTABLISHED(s) && XG_HAS_CERT && xvg_nnames > 0) ==> XG_STR_RESULT(__CPROVER_return_value, value, capacity))
/* PO[C10] get_peer_names_attr.otherwise_reports_expected_names */
__CPROVER_ensures((capacity > 0 && !XG_ESTABLISHED(s) && BT(s)->valid_peer_names != NULL) ==> XG_STR_RESULT(__CPROVER_return_value, value, capacity))
__CPROVER_ensures((capacity > 0 && !XG_ESTABLISHED(s) && BT(s)->valid_peer_names == NULL) ==> (__CPROVER_return_value == -1 && xv_errno == ENOENT))
__CPROVER_ensures((capacity > 0 && XG_ESTABLISHED(s) && XG_HAS_CERT && xvg_nnames == 0) ==> (__CPROVER_return_value == -1 && xv_errno == ENOENT))
;

/* ---- tls.peer_subject_key_id (binary) */
static int get_peer_subject_key_id(struct xcm_socket *s, void *context, void *value, size_t capacity)
__CPROVER_requires(BT_FRESH(s) && BT_IS_CONN(s) && XG_OUT(value, capacity) && xvg_ski_len <= XG_LEN_MAX && XVG_RANGE && XG_CERT_RANGE)
__CPROVER_assigns(xv_errno, XG_CERT_ASSIGNS, xvg.has_ski_calls, xvg.ski_len_calls, xvg.ski_calls, xvg.ski_buf)
__CPROVER_assigns(capacity > 0: __CPROVER_object_upto(value, capacity))
/* PO[C10] get_peer_subject_key_id.never_more_than_capacity */
__CPROVER_ensures(XG_FITS(__CPROVER_return_value, capacity))
/* PO[C10] get_peer_subject_key_id.fits_or_eoverflow: the whole identifier is stored iff it fits (rv == its length == bytes written), else EOVERFLOW and nothing is stored */
__CPROVER_ensures((BT_STATE(s) == conn_state_ready && XG_HAS_CERT && xvg_has_ski) ==> \
        (xvg_ski_len <= capacity ? (__CPROVER_return_value == (int)xvg_ski_len && XU_PLUS(xvg.ski_calls, 1) && xvg.ski_buf == value && \
                                    ((xv_j >= 0 && (size_t)xv_j < xvg_ski_len) ==> XG_CH(value)[xv_j] == xvg_c_j)) \
                                 : (__CPROVER_return_value == -1 && xv_errno == EOVERFLOW && XU_SAME(xvg.ski_calls))))
/* PO[C10] get_peer_subject_key_id.absent_is_empty: not established, no certificate, or no identifier: 0 bytes, nothing written */
__CPROVER_ensures(!(BT_STATE(s) == conn_state_ready && XG_HAS_CERT && xvg_has_ski) ==> (__CPROVER_return_value == 0 && XU_SAME(xvg.ski_calls)))
__CPROVER_ensures(XG_CERT_BALANCED)
;
/* ---- tls.peer.cert.subject.cn */
static int get_peer_subject_cn(struct xcm_socket *s, void *context, void *value, size_t capacity)
__CPROVER_requires(BT_FRESH(s) && BT_IS_CONN(s) && XG_OUT(value, capacity) && XG_STR_OK && XVG_RANGE && XG_CERT_RANGE)
__CPROVER_assigns(xv_errno, XG_CERT_ASSIGNS, XG_STR_ASSIGNS, xvg.cn_calls)
__CPROVER_assigns(capacity > 0: __CPROVER_object_upto(value, capacity))
/* PO[C10] get_peer_subject_cn.never_more_than_capacity */
__CPROVER_ensures(XG_FITS(__CPROVER_return_value, capacity))
/* PO[C10] get_peer_subject_cn.fits_or_eoverflow */
__CPROVER_ensures((BT_STATE(s) == conn_state_ready && XG_HAS_CERT && !xvg_no_str) ==> XG_STR_RESULT(__CPROVER_return_value, value, capacity))
/* PO[C10] get_peer_subject_cn.absent_is_enoent: established but no certificate or no CN: ENOENT; not established: 0 bytes */
__CPROVER_ensures((BT_STATE(s) == conn_state_ready && (!XG_HAS_CERT || xvg_no_str)) ==> (__CPROVER_return_value == -1 && xv_errno == ENOENT))
__CPROVER_ensures(BT_STATE(s) != conn_state_ready ==> (__CPROVER_return_value == 0 && xvg_strcpy_calls == __CPROVER_old(xvg_strcpy_calls)))
__CPROVER_ensures(XG_CERT_BALANCED)
;
/* ---- tls.peer.cert.san.{dns,emails,dirs[].cn}: the index-th subject alternative name of one type */
static int get_san_attr(struct xcm_socket *s, enum cert_san_type san_type, size_t index, void *value, size_t capacity)
__CPROVER_requires(BT_FRESH(s) && XG_OUT(value, capacity) && XG_STR_OK && XVG_RANGE && XG_CERT_RANGE && (unsigned)san_type <= (unsigned)cert_san_type_dir)
__CPROVER_assigns(xv_errno, XG_CERT_ASSIGNS, XG_STR_ASSIGNS, xvg.count_calls, xvg.san_calls, xvg.dir_calls, xvg.san_type, xvg.san_index)
__CPROVER_assigns(capacity > 0: __CPROVER_object_upto(value, capacity))
/* PO[C10] get_san_attr.never_more_than_capacity */
__CPROVER_ensures(XG_FITS(__CPROVER_return_value, capacity))
/* PO[C10] get_san_attr.fits_or_eoverflow */
__CPROVER_ensures((XG_HAS_CERT && index < xvg_nsan && !xvg_no_str) ==> (XG_STR_RESULT(__CPROVER_return_value, value, capacity) && xvg.san_index == index && xvg.san_type == (int)san_type))
/* PO[C10] get_san_attr.absent_is_enoent: no certificate, index beyond the count (the certificate is re-read on every call), or no such name */
__CPROVER_ensures((!XG_HAS_CERT || index >= xvg_nsan || xvg_no_str) ==> (__CPROVER_return_value == -1 && xv_errno == ENOENT && xvg_strcpy_calls == __CPROVER_old(xvg_strcpy_calls)))
__CPROVER_ensures(XG_CERT_BALANCED)
;
#define XG_SAN_GETTER_CONTRACT(type) \
__CPROVER_requires(BT_FRESH(s) && XG_OUT(value, capacity) && XG_STR_OK && XVG_RANGE && XG_CERT_RANGE) \
__CPROVER_assigns(xv_errno, XG_CERT_ASSIGNS, XG_STR_ASSIGNS, xvg.count_calls, xvg.san_calls, xvg.dir_calls, xvg.san_type, xvg.san_index) \
__CPROVER_assigns(capacity > 0: __CPROVER_object_upto(value, capacity)) \
__CPROVER_ensures(XG_FITS(__CPROVER_return_value, capacity)) \
__CPROVER_ensures((XG_HAS_CERT && (size_t)context < xvg_nsan && !xvg_no_str) ==> (XG_STR_RESULT(__CPROVER_return_value, value, capacity) && xvg.san_index == (size_t)context && xvg.san_type == (int)(type))) \
__CPROVER_ensures((!XG_HAS_CERT || (size_t)context >= xvg_nsan || xvg_no_str) ==> (__CPROVER_return_value == -1 && xv_errno == ENOENT))
static int get_san_dns_attr(struct xcm_socket *s, void *context, void *value, size_t capacity)
/* PO[C10] get_san_dns_attr.fits_or_eoverflow_or_enoent: the list index travels in `context`: the name of that index and type, written iff it fits, rv == bytes written */
XG_SAN_GETTER_CONTRACT(cert_san_type_dns)
;
static int get_san_email_attr(struct xcm_socket *s, void *context, void *value, size_t capacity)
/* PO[C10] get_san_email_attr.fits_or_eoverflow_or_enoent */
XG_SAN_GETTER_CONTRACT(cert_san_type_email)
;
static int get_san_dir_cn_attr(struct xcm_socket *s, void *context, void *value, size_t capacity)
/* PO[C10] get_san_dir_cn_attr.fits_or_eoverflow_or_enoent */
XG_SAN_GETTER_CONTRACT(cert_san_type_dir)
;

/* ---- tls.cert_file/key_file/tc_file/crl_file (strings) and tls.cert/key/tc/crl (binary): the REAL get_file_attr/get_value_attr are
 * inlined; the item's data is a NUL-terminated string of the ghost length (item.c: ut_strdup / ut_strndup of a NUL-free value) */
#define XG_ITEM_DATA(s, f, ty) (BT(s)->f.type == (ty) ==> (__CPROVER_is_fresh(BT(s)->f.data, xvg_len + 1) && BT(s)->f.data[xvg_len] == 0 && \
                                                         ((xv_j >= 0 && (size_t)xv_j < xvg_len) ==> BT(s)->f.data[xv_j] == xvg_c_j)))
#define XG_FILE_GETTER_CONTRACT(f) \
__CPROVER_requires(BT_FRESH(s) && XG_OUT(filename, capacity) && XG_STR_OK && XVG_RANGE && BT_IT_OK(BT(s)->f) && XG_ITEM_DATA(s, f, item_type_file)) \
__CPROVER_assigns(xv_errno, XG_STR_ASSIGNS, xvg.tp_str_calls) \
__CPROVER_assigns(capacity > 0: __CPROVER_object_upto(filename, capacity)) \
__CPROVER_ensures(XG_FITS(__CPROVER_return_value, capacity)) \
__CPROVER_ensures(BT(s)->f.type == item_type_file ? XG_STR_RESULT(__CPROVER_return_value, filename, capacity) \
                                                  : (__CPROVER_return_value == -1 && xv_errno == ENOENT && xvg_strcpy_calls == __CPROVER_old(xvg_strcpy_calls)))
#define XG_VALUE_GETTER_CONTRACT(f) \
__CPROVER_requires(BT_FRESH(s) && XG_OUT(value, capacity) && XG_STR_OK && XVG_RANGE && BT_IT_OK(BT(s)->f) && XG_ITEM_DATA(s, f, item_type_value)) \
__CPROVER_assigns(xv_errno, xvg.tp_bin_calls) \
__CPROVER_assigns(capacity > 0: __CPROVER_object_upto(value, capacity)) \
__CPROVER_ensures(XG_FITS(__CPROVER_return_value, capacity)) \
__CPROVER_ensures(BT(s)->f.type == item_type_value ? (xvg_len <= capacity ? __CPROVER_return_value == (int)xvg_len : (__CPROVER_return_value == -1 && xv_errno == EOVERFLOW)) \
                                                   : (__CPROVER_return_value == -1 && xv_errno == ENOENT))
static int get_cert_file_attr(struct xcm_socket *s, void *context, void *filename, size_t capacity)
/* PO[C10] get_cert_file_attr.fits_or_eoverflow_or_enoent: designated by file: the name and its NUL iff they fit, rv == bytes written; otherwise ENOENT */
XG_FILE_GETTER_CONTRACT(cert)
;
static int get_key_file_attr(struct xcm_socket *s, void *context, void *filename, size_t capacity)
/* PO[C10] get_key_file_attr.fits_or_eoverflow_or_enoent */
XG_FILE_GETTER_CONTRACT(key)
;
static int get_tc_file_attr(struct xcm_socket *s, void *context, void *filename, size_t capacity)
/* PO[C10] get_tc_file_attr.fits_or_eoverflow_or_enoent */
XG_FILE_GETTER_CONTRACT(tc)
;
static int get_crl_file_attr(struct xcm_socket *s, void *context, void *filename, size_t capacity)
/* PO[C10] get_crl_file_attr.fits_or_eoverflow_or_enoent */
XG_FILE_GETTER_CONTRACT(crl)
;
static int get_cert_attr(struct xcm_socket *s, void *context, void *value, size_t capacity)
/* PO[C10] get_cert_attr.fits_or_eoverflow_or_enoent: designated by value: exactly the value's bytes (no NUL) iff they fit, rv == their number; otherwise ENOENT */
XG_VALUE_GETTER_CONTRACT(cert)
;
static int get_key_attr(struct xcm_socket *s, void *context, void *value, size_t capacity)
/* PO[C10] get_key_attr.fits_or_eoverflow_or_enoent */
XG_VALUE_GETTER_CONTRACT(key)
;
static int get_tc_attr(struct xcm_socket *s, void *context, void *value, size_t capacity)
/* PO[C10] get_tc_attr.fits_or_eoverflow_or_enoent */
XG_VALUE_GETTER_CONTRACT(tc)
;
static int get_crl_attr(struct xcm_socket *s, void *context, void *value, size_t capacity)
/* PO[C10] get_crl_attr.fits_or_eoverflow_or_enoent */
XG_VALUE_GETTER_CONTRACT(crl)
;
/* ---- the five boolean policy attributes */
#define XG_BOOL_GETTER_CONTRACT(f) \
__CPROVER_requires(BT_FRESH(s) && XG_OUT(value, capacity) && XVG_RANGE && BT_BOOLS_OK(s)) \
__CPROVER_assigns(xv_errno, xvg.tp_bool_calls) \
__CPROVER_assigns(capacity > 0: __CPROVER_object_upto(value, capacity)) \
__CPROVER_ensures(XG_FITS(__CPROVER_return_value, capacity)) \
__CPROVER_ensures(capacity >= sizeof(bool) ? (__CPROVER_return_value == (int)sizeof(bool) && *BT_U8(value) == (BT(s)->f ? 1 : 0)) : (__CPROVER_return_value == -1 && xv_errno == EOVERFLOW))
static int get_client_attr(struct xcm_socket *s, void *context, void *value, size_t capacity)
/* PO[C10] get_client_attr.one_byte_or_eoverflow */
XG_BOOL_GETTER_CONTRACT(tls_client)
;
static int get_auth_attr(struct xcm_socket *s, void *context, void *value, size_t capacity)
/* PO[C10] get_auth_attr.one_byte_or_eoverflow */
XG_BOOL_GETTER_CONTRACT(tls_auth)
;
static int get_check_crl_attr(struct xcm_socket *s, void *context, void *value, size_t capacity)
/* PO[C10] get_check_crl_attr.one_byte_or_eoverflow */
XG_BOOL_GETTER_CONTRACT(check_crl)
;
static int get_check_time_attr(struct xcm_socket *s, void *context, void *value, size_t capacity)
/* PO[C10] get_check_time_attr.one_byte_or_eoverflow */
XG_BOOL_GETTER_CONTRACT(check_time)
;
static int get_verify_peer_name_attr(struct xcm_socket *s, void *context, void *value, size_t capacity)
/* PO[C10] get_verify_peer_name_attr.one_byte_or_eoverflow */
XG_BOOL_GETTER_CONTRACT(verify_peer_name)
;
#endif

#include "contracts/end.h"
#endif
