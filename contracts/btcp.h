/* contracts/btcp.h -- libxcm/tp/tcp/xcm_tp_btcp.c, the byte-stream TCP transport (the layer below tcp framing).
 *
 *   C02  btcp_send / btcp_receive deliver exactly the accepted bytes: the lower-layer contract macros of contracts/lower.h,
 *        which unit framing ASSUMES of xcm_tp_socket_send/receive/finish, are ENFORCED here down to send(2)/recv(2)
 *   C06  closed / bad are absorbing, the stored errno is immutable and is what every later call reports
 *   C04/C16  conn_update / server_update / btcp_update register exactly the right epoll interest, ring the bell exactly
 *        in the terminal states (and when name resolution has completed)
 *   C05  xv_blocked is in no assigns clause; descriptors are O_NONBLOCK
 *   C11  try_finish_connect: ready => the options in force on the descriptor are conn.tcp_opts; state guards of setters
 *   C13  connect errors => bad with the errno of tconnect / the resolver
 *   C17  byte counters
 *
 * The kernel is env/btcp_env.h (TRUSTED; it maintains the ghost byte stream of prelude.h) and env/sockopt.h.
 * tconnect_*, xcm_dns_*, xpoll_*, tcp_opts_*, xcm_addr_parse_btcp are other modules: contracts, ASSUMED here.
 * Attached to the REAL static functions by redeclaration after the TU has been #included.
 */
#ifndef XV_BTCP_H
#define XV_BTCP_H
#include "contracts/begin.h"

#include "contracts/lower.h"
#include <limits.h>

#define BT(s) ((struct btcp_socket *)((uint8_t *)(s) + sizeof(struct xcm_socket)))
#define BT_SIZE (sizeof(struct xcm_socket) + sizeof(struct btcp_socket))
#define BST(s) (BT(s)->conn.state)
#define BRSN(s) (BT(s)->conn.badness_reason)
#define BCN(s, c) (BT(s)->conn.cnts[xcm_tp_cnt_##c])

/* ================================================================================================================ */
/* ghost state of the modules cut away                                                                              */
/* ================================================================================================================ */

/* ---- xpoll (libxcm/core/xpoll.c) seen through ONE arbitrary descriptor registration and ONE arbitrary bell.
 * xb_t_reg / xb_t_bell are never assigned: a fact stated for the tracked row is proved for every registration id, i.e. the
 * four variables are the maps  id -> (live, fd, epoll event mask)  and  id -> (live, ringing).  An event mask of 0 means
 * "not in the kernel's epoll set" (xpoll.c: reg_epoll_mod does EPOLL_CTL_DEL for 0). */
int xb_t_reg;   _Bool xb_t_reg_live;  int xb_t_reg_fd; int xb_t_reg_event;
int xb_t_reg_owner;                  /* who made the tracked registration: 1 = xcm_tp_btcp.c itself, else another module (tconnect, resolver, timers) */
int xb_t_bell;  _Bool xb_t_bell_live; _Bool xb_t_bell_ringing;
long xb_reg_mods, xb_bell_mods;      /* number of xpoll_fd_reg_mod / xpoll_bell_reg_mod calls */
#define XP_REG_ROW xb_t_reg_live, xb_t_reg_fd, xb_t_reg_event, xb_t_reg_owner
#define XP_REG_SAME (xb_t_reg_live == __CPROVER_old(xb_t_reg_live) && xb_t_reg_fd == __CPROVER_old(xb_t_reg_fd) && \
                     xb_t_reg_event == __CPROVER_old(xb_t_reg_event) && xb_t_reg_owner == __CPROVER_old(xb_t_reg_owner))
/* another module adds, modifies and deletes ITS OWN registrations only (registration ids are private to whoever got them
 * from xpoll_fd_reg_add) */
#define XP_FOREIGN ((__CPROVER_old(xb_t_reg_live) && __CPROVER_old(xb_t_reg_owner) == 1) ==> XP_REG_SAME)
#define XP_BELL_SAME (xb_t_bell_live == __CPROVER_old(xb_t_bell_live) && xb_t_bell_ringing == __CPROVER_old(xb_t_bell_ringing))
/* ghost call counters: below XB_CALLS_MAX on entry of a public operation; helper functions called in mid-operation accept
 * the slack an operation can add (XB_IN); the assumed contracts of other modules accept twice the maximum (XB_EXT) */
#define XB_CNT_LIM(c, lim) ((c) >= 0 && (c) < (lim))
#define XB_IN(c) XB_CNT_LIM(c, XB_CALLS_MAX + 64)
#define XB_EXT(c) XB_CNT_LIM(c, 2 * XB_CALLS_MAX)
#define XP_RANGE_LIM(lim) (XB_CNT_LIM(xb_reg_mods, lim) && XB_CNT_LIM(xb_bell_mods, lim))
#define XP_RANGE XP_RANGE_LIM(XB_CALLS_MAX)
#define XP_RANGE_EXT XP_RANGE_LIM(2 * XB_CALLS_MAX)

/* xpoll.c: get_fd_reg() asserts that the id is a live registration; the registration's mask becomes `event`; nothing else
 * changes; errno is left alone (reg_epoll_mod brackets the only epoll_ctl that is allowed to fail) */
void xpoll_fd_reg_mod(struct xpoll *xpoll, int reg_id, int event)
__CPROVER_requires(reg_id >= 0 && (reg_id == xb_t_reg ==> xb_t_reg_live) && XP_RANGE_EXT)
__CPROVER_assigns(xb_t_reg_event, xb_reg_mods)
__CPROVER_ensures(xb_reg_mods == __CPROVER_old(xb_reg_mods) + 1)
__CPROVER_ensures(reg_id == xb_t_reg ? xb_t_reg_event == event : xb_t_reg_event == __CPROVER_old(xb_t_reg_event))
;
/* xpoll.c: get_bell_reg() asserts that the id is a live bell */
void xpoll_bell_reg_mod(struct xpoll *xpoll, int reg_id, bool ringing)
__CPROVER_requires(reg_id >= 0 && (reg_id == xb_t_bell ==> xb_t_bell_live) && XP_RANGE_EXT)
__CPROVER_assigns(xb_t_bell_ringing, xb_bell_mods)
__CPROVER_ensures(xb_bell_mods == __CPROVER_old(xb_bell_mods) + 1)
__CPROVER_ensures(reg_id == xb_t_bell ? !xb_t_bell_ringing == !ringing : xb_t_bell_ringing == __CPROVER_old(xb_t_bell_ringing))
;
/* xpoll.c: asserts fd >= 0 and that fd has no registration yet; returns a free id, which becomes (live, fd, event) */
int xpoll_fd_reg_add(struct xpoll *xpoll, int fd, int event)
__CPROVER_requires(fd >= 0 && !(xb_t_reg_live && xb_t_reg_fd == fd))
__CPROVER_assigns(XP_REG_ROW)
__CPROVER_ensures(__CPROVER_return_value >= 0)
__CPROVER_ensures(__CPROVER_return_value == xb_t_reg \
        ? (!__CPROVER_old(xb_t_reg_live) && xb_t_reg_live && xb_t_reg_fd == fd && xb_t_reg_event == event && xb_t_reg_owner == 1) : XP_REG_SAME)
;
/* xpoll.c: removes registration reg_id if reg_id >= 0 (asserted live); errno preserved */
void xpoll_fd_reg_del_if_valid(struct xpoll *xpoll, int reg_id)
__CPROVER_requires(reg_id < 0 || reg_id != xb_t_reg || xb_t_reg_live)
__CPROVER_assigns(XP_REG_ROW)
__CPROVER_ensures(reg_id == xb_t_reg ? !xb_t_reg_live : XP_REG_SAME)
;
void xpoll_bell_reg_del(struct xpoll *xpoll, int reg_id)
__CPROVER_requires(reg_id >= 0 && (reg_id != xb_t_bell || xb_t_bell_live))
__CPROVER_assigns(xb_t_bell_live, xb_t_bell_ringing)
__CPROVER_ensures(reg_id == xb_t_bell ? !xb_t_bell_live : XP_BELL_SAME)
;

/* ---- xv_lower_dead is btcp's abstract state "closed or bad" (env/btcp_env.h).  Before the descriptor exists the events that
 * finish the connection are failures of the modules below: the ghost update is attached to THEIR contracts (real code cannot
 * write a ghost); that the code then really moves to state bad is the obligation BT_DEAD_IS_STATE of every contract here. */
#define XB_KILLS_IF(cond) ((cond) ? xv_lower_dead : xv_lower_dead == __CPROVER_old(xv_lower_dead))

/* ---- setsockopt record of env/sockopt.h (same vocabulary as contracts/tcpattr.h, which cannot be included next to this
 * file: one function, one contract) */
#define B_SO_ASSIGNS xv_so_calls, xv_so_fails, xv_so_n, xv_so_fd, xv_so_val, xv_so_len, xv_so_rc, xv_so_ok_n, xv_so_ok_fd, xv_so_ok_val, \
                     xv_gsn_calls, xv_gsn_fails
#define B_SO_RANGE (xv_so_calls >= 0 && xv_so_calls < XB_CALLS_MAX && xv_so_fails >= 0 && xv_so_fails <= xv_so_calls && \
                    xv_so_n >= 0 && xv_so_n <= xv_so_calls && xv_so_ok_n >= 0 && xv_so_ok_n <= xv_so_n && \
                    xv_gsn_calls >= 0 && xv_gsn_calls < XB_CALLS_MAX && xv_gsn_fails >= 0 && xv_gsn_fails <= xv_gsn_calls && \
                    (xv_fd_family == AF_INET || xv_fd_family == AF_INET6))
#define B_SO_IS(l, o) (xv_so_level == (l) && xv_so_opt == (o))
/* v is the value of option (l,o) in force on fd: the last successful setsockopt for the option was (fd, v) */
#define B_SO_INFORCE(l, o, fd, v) (B_SO_IS(l, o) ==> (xv_so_ok_n >= 1 && xv_so_ok_fd == (fd) && xv_so_ok_val == (v)))
#define B_ADM(v, k) ((v) >= 1 && (v) <= INT_MAX / (k))
#define B_OPTS_VALID(o) (B_ADM((o)->keepalive_time, 1) && B_ADM((o)->keepalive_interval, 1) && B_ADM((o)->keepalive_count, 1) && \
                         B_ADM((o)->user_timeout, 1000))
/* the five configurable options of *o are the ones in force on fd (for the tracked option: for every option) */
#define B_OPTS_INFORCE(fd, o) ( \
        B_SO_INFORCE(SOL_TCP, TCP_KEEPIDLE, fd, (int)(o)->keepalive_time) && B_SO_INFORCE(SOL_TCP, TCP_KEEPINTVL, fd, (int)(o)->keepalive_interval) && \
        B_SO_INFORCE(SOL_TCP, TCP_KEEPCNT, fd, (int)(o)->keepalive_count) && B_SO_INFORCE(SOL_SOCKET, SO_KEEPALIVE, fd, (int)(o)->keepalive) && \
        B_SO_INFORCE(SOL_TCP, TCP_USER_TIMEOUT, fd, (int)((o)->user_timeout * 1000)))
#define B_OPTS_EQ(a, b) ((a)->keepalive == (b)->keepalive && (a)->keepalive_time == (b)->keepalive_time && \
                         (a)->keepalive_interval == (b)->keepalive_interval && (a)->keepalive_count == (b)->keepalive_count && \
                         (a)->user_timeout == (b)->user_timeout)

/* tcp_attr.c (ENFORCED in unit tcpattr, jobs tcpattr.opts_equal / tcpattr.opts_effectuate, with the same meaning):
 * == is field-wise equality of all five fields */
bool tcp_opts_equal(const struct tcp_opts *opts_a, const struct tcp_opts *opts_b)
__CPROVER_requires(__CPROVER_r_ok(opts_a, sizeof(*opts_a)) && __CPROVER_r_ok(opts_b, sizeof(*opts_b)) && B_OPTS_VALID(opts_a) && B_OPTS_VALID(opts_b))
__CPROVER_assigns()
__CPROVER_ensures(!__CPROVER_return_value == !B_OPTS_EQ(opts_a, opts_b))
;
/* every option of *opts is written to fd; success only if the kernel accepted them all.  On failure errno is the
 * kernel's (setsockopt/getsockname of env/sockopt.h: > 0).
 * TRUSTED(kernel) setsockopt(2)/getsockname(2) on a TCP socket do not fail with EAGAIN. */
int xb_eff_errno;     /* ghost: errno of the last failed tcp_opts_effectuate */
long xb_eff_calls;
int tcp_opts_effectuate(struct tcp_opts *opts, int fd)
__CPROVER_requires(__CPROVER_r_ok(opts, sizeof(*opts)) && B_OPTS_VALID(opts) && B_SO_RANGE && XB_EXT(xb_eff_calls))
__CPROVER_assigns(xv_errno, B_SO_ASSIGNS, xb_eff_errno, xb_eff_calls, xv_lower_dead)
__CPROVER_ensures(__CPROVER_return_value == 0 || __CPROVER_return_value == -1)
__CPROVER_ensures(XB_KILLS_IF(__CPROVER_return_value == -1))
__CPROVER_ensures(xb_eff_calls == __CPROVER_old(xb_eff_calls) + 1 && B_SO_RANGE)
__CPROVER_ensures(__CPROVER_return_value == 0 ==> B_OPTS_INFORCE(fd, opts))
__CPROVER_ensures(__CPROVER_return_value == -1 ==> (xv_errno > 0 && xv_errno != EAGAIN && xv_errno == xb_eff_errno))
;

/* ---- tconnect.c.  The object is opaque here (incomplete type): a non-NULL handle.
 * tconnect_get_connected_fd (tconnect.c:545): 0 => *fd is a descriptor tconnect created (socket(SOCK_NONBLOCK)), now
 *   connected and handed over: open, O_NONBLOCK, without xpoll registration (track_get_connected_fd deletes it);
 *   *tcp_opts are the options tconnect applied to it, *scope its scope; errno untouched.
 *   -1 => errno > 0 (EAGAIN: still in progress; else the errno of the last failed attempt / ENOENT), outputs untouched. */
int xb_tc_rc, xb_tc_errno;    /* ghost: result and errno of the last tconnect_get_connected_fd */
long xb_tc_calls, xb_tc_destroys;
long xb_tc_creates, xb_q_creates;     /* ghost: number of attempt objects / resolver queries made */
#define XB_FD_OK(fd) ((fd) >= 0 && (fd) < XB_NFD && xb_fdt.e[fd].open && xb_fdt.e[fd].nonblock)
int tconnect_get_connected_fd(struct tconnect *tconnect, int *fd, int64_t *scope, struct tcp_opts *tcp_opts)
__CPROVER_requires(tconnect != NULL && __CPROVER_w_ok(fd, sizeof(*fd)) && __CPROVER_w_ok(scope, sizeof(*scope)) && __CPROVER_w_ok(tcp_opts, sizeof(*tcp_opts)))
__CPROVER_requires(B_SO_RANGE && XB_EXT(xb_tc_calls))
__CPROVER_assigns(*fd, *scope, *tcp_opts, xv_errno, XP_REG_ROW, B_SO_ASSIGNS, xb_tc_rc, xb_tc_errno, xb_tc_calls, xv_lower_dead)
__CPROVER_ensures((__CPROVER_return_value == 0 || __CPROVER_return_value == -1) && __CPROVER_return_value == xb_tc_rc)
__CPROVER_ensures(XB_KILLS_IF(__CPROVER_return_value == -1 && xv_errno != EAGAIN))
__CPROVER_ensures(xb_tc_calls == __CPROVER_old(xb_tc_calls) + 1 && B_SO_RANGE && XP_FOREIGN)
__CPROVER_ensures(__CPROVER_return_value == -1 ==> (xv_errno > 0 && xv_errno == xb_tc_errno && *fd == __CPROVER_old(*fd) && *scope == __CPROVER_old(*scope)))
__CPROVER_ensures(__CPROVER_return_value == 0 ==> (xv_errno == __CPROVER_old(xv_errno) && XB_FD_OK(*fd) && !(xb_t_reg_live && xb_t_reg_fd == *fd) && \
                                                    *scope >= -1 && *scope <= (int64_t)UINT32_MAX))
__CPROVER_ensures(__CPROVER_return_value == 0 ==> (B_OPTS_VALID(tcp_opts) && B_OPTS_INFORCE(*fd, tcp_opts)))
;
/* tconnect.c:590: releases the remaining descriptors, registrations and timers of the attempt; errno preserved (close and
 * epoll_ctl(DEL) are bracketed in util.c / xpoll.c).  Does not touch a descriptor that was handed over. */
void tconnect_destroy(struct tconnect *tconnect, bool owner)
__CPROVER_requires(XB_EXT(xb_tc_destroys))
__CPROVER_assigns(xb_tc_destroys)
__CPROVER_ensures(xb_tc_destroys == __CPROVER_old(xb_tc_destroys) + (tconnect != NULL ? 1 : 0))
;
/* tconnect.c:497: starts the attempt(s): -1 with errno > 0 and != EAGAIN (ENOTSUP, the errno of bind/socket ...) */
long xb_tc_connects;
int tconnect_connect(struct tconnect *tconnect, const struct xcm_addr_ip *local_ip, uint16_t local_port, int64_t scope,
                     double tcp_connect_timeout, const struct tcp_opts *tcp_opts, const struct xcm_addr_ip *remote_ips,
                     size_t num_remote_ips, uint16_t remote_port)
__CPROVER_requires(tconnect != NULL && (local_ip == NULL || __CPROVER_r_ok(local_ip, sizeof(*local_ip))) && __CPROVER_r_ok(tcp_opts, sizeof(*tcp_opts)) && B_OPTS_VALID(tcp_opts))
__CPROVER_requires(num_remote_ips >= 1 && num_remote_ips <= XCM_DNS_MAX_RESULT_SIZE && __CPROVER_r_ok(remote_ips, num_remote_ips * sizeof(*remote_ips)))
__CPROVER_requires(tcp_connect_timeout >= 0 && B_SO_RANGE && XB_EXT(xb_tc_connects))
/* (same precondition as in contracts/dnstc.h, where tconnect_connect is enforced: -1 = not set, otherwise an interface index) */
__CPROVER_requires(scope >= -1 && scope <= (int64_t)UINT32_MAX)
__CPROVER_assigns(xv_errno, XP_REG_ROW, B_SO_ASSIGNS, xb_tc_connects, xv_lower_dead)
__CPROVER_ensures(__CPROVER_return_value == 0 || (__CPROVER_return_value == -1 && xv_errno > 0 && xv_errno != EAGAIN))
__CPROVER_ensures(XB_KILLS_IF(__CPROVER_return_value == -1))
__CPROVER_ensures(xb_tc_connects == __CPROVER_old(xb_tc_connects) + 1 && B_SO_RANGE && XP_FOREIGN)
;

/* ---- xcm_dns_cares.c.  The query is opaque: a non-NULL handle; xb_q_completed is its "no longer in progress" flag */
_Bool xb_q_completed;
int xb_q_rc, xb_q_errno;      /* ghost: result and errno of the last xcm_dns_query_result */
long xb_q_destroys, xb_q_processes;
size_t xb_la_len;     /* ghost (never assigned): strlen of the string handed to btcp_set_local_addr */
bool xcm_dns_query_completed(struct xcm_dns_query *query)
__CPROVER_requires(query != NULL)
__CPROVER_assigns()
__CPROVER_ensures(!__CPROVER_return_value == !xb_q_completed)
;
/* drives c-ares: its sockets do I/O (errno is NOT preserved), its descriptors/timer are (re)registered with xpoll */
void xcm_dns_query_process(struct xcm_dns_query *query)
__CPROVER_requires(query != NULL && XB_EXT(xb_q_processes))
__CPROVER_assigns(xv_errno, xb_q_completed, XP_REG_ROW, xb_q_processes)
__CPROVER_ensures(xb_q_processes == __CPROVER_old(xb_q_processes) + 1 && XP_FOREIGN)
__CPROVER_ensures(__CPROVER_old(xb_q_completed) ==> xb_q_completed)
;
/* in progress: -1/EAGAIN; failed: -1/ENOENT; successful: 1..capacity addresses */
int xcm_dns_query_result(struct xcm_dns_query *query, struct xcm_addr_ip *ips, int capacity)
__CPROVER_requires(query != NULL && capacity >= 1 && capacity <= XCM_DNS_MAX_RESULT_SIZE && __CPROVER_w_ok(ips, capacity * sizeof(*ips)))
__CPROVER_assigns(xv_errno, XP_REG_ROW, xb_q_rc, xb_q_errno, xv_lower_dead, __CPROVER_object_upto(ips, capacity * sizeof(*ips)))
__CPROVER_ensures(XB_KILLS_IF(__CPROVER_return_value == -1 && xv_errno != EAGAIN))
__CPROVER_ensures(__CPROVER_return_value == xb_q_rc && ((__CPROVER_return_value >= 1 && __CPROVER_return_value <= capacity) || __CPROVER_return_value == -1))
__CPROVER_ensures(__CPROVER_return_value == -1 ==> (xv_errno == xb_q_errno && (xv_errno == EAGAIN ? !xb_q_completed : (xv_errno == ENOENT && xb_q_completed))))
__CPROVER_ensures((__CPROVER_return_value >= 1 ==> xb_q_completed) && XP_FOREIGN)
;
/* errno preserved (see tconnect_destroy) */
void xcm_dns_query_destroy(struct xcm_dns_query *query, bool owner)
__CPROVER_requires(XB_EXT(xb_q_destroys))
__CPROVER_assigns(xb_q_destroys, XP_REG_ROW)
__CPROVER_ensures(xb_q_destroys == __CPROVER_old(xb_q_destroys) + (query != NULL ? 1 : 0) && XP_FOREIGN)
;
/* F20: a named host is resolved SYNCHRONOUSLY (poll(-1)): the calling thread sleeps => xv_blocked.  -1 => errno > 0 */
int xcm_dns_resolve_sync(struct xcm_addr_host *host, void *log_ref)
__CPROVER_requires(__CPROVER_w_ok(host, sizeof(*host)))
__CPROVER_assigns(xv_errno, xv_lower_dead, __CPROVER_object_whole(host))
__CPROVER_assigns(host->type != xcm_addr_type_ip: xv_blocked)
__CPROVER_ensures(__CPROVER_return_value == 0 || (__CPROVER_return_value == -1 && xv_errno > 0 && xv_errno != EAGAIN))
__CPROVER_ensures(XB_KILLS_IF(__CPROVER_return_value == -1))
__CPROVER_ensures(__CPROVER_return_value == 0 ==> host->type == xcm_addr_type_ip)
;
/* xcm_addr.c (unit addr): -1 => EINVAL/ENAMETOOLONG */
int xcm_addr_parse_btcp(const char *btcp_addr_s, struct xcm_addr_host *host, uint16_t *port)
__CPROVER_requires(__CPROVER_w_ok(host, sizeof(*host)) && __CPROVER_w_ok(port, sizeof(*port)))
__CPROVER_assigns(xv_errno, xv_lower_dead, __CPROVER_object_whole(host), *port)
__CPROVER_ensures(__CPROVER_return_value == 0 || (__CPROVER_return_value == -1 && (xv_errno == EINVAL || xv_errno == ENAMETOOLONG)))
__CPROVER_ensures(XB_KILLS_IF(__CPROVER_return_value == -1))
__CPROVER_ensures(__CPROVER_return_value == 0 ==> (host->type == xcm_addr_type_ip || host->type == xcm_addr_type_name))
;

/* every btcp harness calls this after xv_ghost_havoc(); xb_env_havoc(); xv_sockopt_havoc(); */
static inline void xb_ghost_havoc(void)
{
    xb_t_reg = nondet_int(); xb_t_reg_live = nondet_bool(); xb_t_reg_fd = nondet_int(); xb_t_reg_event = nondet_int(); xb_t_reg_owner = nondet_int();
    xb_t_bell = nondet_int(); xb_t_bell_live = nondet_bool(); xb_t_bell_ringing = nondet_bool();
    xb_reg_mods = nondet_long(); xb_bell_mods = nondet_long();
    xb_eff_errno = nondet_int(); xb_eff_calls = nondet_long();
    xb_tc_rc = nondet_int(); xb_tc_errno = nondet_int(); xb_tc_calls = nondet_long(); xb_tc_destroys = nondet_long(); xb_tc_connects = nondet_long();
    xb_q_completed = nondet_bool(); xb_q_rc = nondet_int(); xb_q_errno = nondet_int(); xb_q_destroys = nondet_long(); xb_q_processes = nondet_long();
    xb_la_len = nondet_size_t(); xb_tc_creates = nondet_long(); xb_q_creates = nondet_long();
}

/* ================================================================================================================ */
/* representation invariant of a connection socket                                                                  */
/* ================================================================================================================ */
/* s->proto is the registered btcp protocol (assert_socket: ops == &btcp_ops).  The proto object is made by is_fresh: a
 * pointer read from a fresh object and merely assumed equal to the address of a global is not dereferenceable for CBMC */
#define BT_PROTO(s) (__CPROVER_is_fresh((s)->proto, sizeof(struct xcm_tp_proto)) && (s)->proto->ops == &btcp_ops)
#define BT_IS(s, st) (BST(s) == conn_state_##st)
#define BT_DEAD(s) (BT_IS(s, closed) || BT_IS(s, bad))
/* xv_lower_dead IS "state in {closed, bad}" (see env/btcp_env.h) */
/* (a havocked _Bool may hold any non-zero byte: compare truth values, not representations) */
#define BT_DEAD_IS_STATE(s) (!xv_lower_dead == !BT_DEAD(s))
/* the socket's own registration: a live registration of its descriptor */
#define BT_REG_OK(s) (BT(s)->fd_reg_id >= 0 && (xb_t_reg == BT(s)->fd_reg_id ==> (xb_t_reg_live && xb_t_reg_fd == BT(s)->fd && xb_t_reg_owner == 1)))
#define BT_BELL_OK(s) (BT(s)->conn.bell_reg_id >= 0 && (xb_t_bell == BT(s)->conn.bell_reg_id ==> xb_t_bell_live))
/* the facts assert_conn_socket() states for the states a socket can be in after xcm_connect/xcm_accept returned, plus:
 * ready => the descriptor is open and O_NONBLOCK (C05, C08) and registered with xpoll; in every state the descriptor and its
 * registration are absent (-1) or open/live (a connection that went bad keeps its descriptor until it is closed);
 * bad => the stored errno is a real one and not EAGAIN (C06: it is what every later call reports);
 * closed => the kernel has reported end of stream (C06: "once the close has been seen") */
#define BT_CONN_OK(s) (BT_CONN_OK_BUT_EOF(s) && (BT_IS(s, closed) ==> xv_rx_eof))
#define BT_CONN_OK_BUT_EOF(s) ((s)->type == xcm_socket_type_conn && BT(s)->scope >= -1 && BT(s)->scope <= (int64_t)UINT32_MAX && \
        BST(s) >= conn_state_resolving && BST(s) <= conn_state_bad && \
        (BT_IS(s, resolving) ==> (BT(s)->conn.query != NULL && BT(s)->conn.tconnect != NULL && BT(s)->fd == -1 && BT(s)->fd_reg_id == -1)) && \
        (BT_IS(s, connecting) ==> (BT(s)->conn.tconnect != NULL && BT(s)->fd == -1 && BT(s)->fd_reg_id == -1)) && \
        (BT_IS(s, ready) ==> (XB_FD_OK(BT(s)->fd) && BT_REG_OK(s))) && \
        (BT(s)->fd == -1 || XB_FD_OK(BT(s)->fd)) && (BT(s)->fd_reg_id == -1 || BT_REG_OK(s)) && \
        (BT_IS(s, bad) ==> (BRSN(s) > 0 && BRSN(s) != EAGAIN)) && \
        ((BT_IS(s, resolving) || BT_IS(s, connecting)) ==> BT(s)->conn.tcp_connect_timeout >= 0) && \
        BT_DEAD_IS_STATE(s) && B_OPTS_VALID(&BT(s)->conn.tcp_opts))
/* counters (C17): < 2^61 on entry (a connection cannot move 2 EiB); btcp buffers nothing, so what was accepted has been
 * handed down and what was taken from the kernel has been delivered: from_app == to_lower, from_lower == to_app */
#define BT_C1(s, c, lim) (BCN(s, c) >= 0 && BCN(s, c) < (lim))
#define BT_CNT_LIM(s, lim) (BT_C1(s, to_app_bytes, lim) && BT_C1(s, from_app_bytes, lim) && BT_C1(s, to_lower_bytes, lim) && BT_C1(s, from_lower_bytes, lim) && \
                            BT_C1(s, to_app_msgs, lim) && BT_C1(s, from_lower_msgs, lim))
#define BT_CNT_RANGE(s) BT_CNT_LIM(s, 1L << 61)
#define BT_CNT_RANGE_OUT(s) BT_CNT_LIM(s, (1L << 61) + (1L << 32))
#define BT_CNT_INV(s) (BCN(s, from_app_bytes) == BCN(s, to_lower_bytes) && BCN(s, from_lower_bytes) == BCN(s, to_app_bytes))
#define BT_SAME(s, c) (BCN(s, c) == __CPROVER_old(BCN(s, c)))
#define BT_GE(s, c) (BCN(s, c) >= __CPROVER_old(BCN(s, c)))
#define BT_CNT_SAME(s) (BT_SAME(s, to_app_bytes) && BT_SAME(s, from_app_bytes) && BT_SAME(s, to_lower_bytes) && BT_SAME(s, from_lower_bytes))
#define BT_GHOST_LIM(lim) (xv_tx_off >= 0 && xv_tx_off < XV_OFF_MAX && xv_rx_off >= 0 && xv_rx_off < XV_OFF_MAX && xv_k >= 0 && xv_k < 2 * XV_OFF_MAX && \
                        XB_ENV_RANGE && XP_RANGE_LIM(lim) && B_SO_RANGE && XB_CNT_LIM(xb_eff_calls, lim) && XB_CNT_LIM(xb_tc_calls, lim) && XB_CNT_LIM(xb_tc_destroys, lim) && \
                        XB_CNT_LIM(xb_tc_connects, lim) && XB_CNT_LIM(xb_q_destroys, lim) && XB_CNT_LIM(xb_q_processes, lim))
#define BT_GHOST_RANGE BT_GHOST_LIM(XB_CALLS_MAX)            /* entry of a public operation */
/* helpers are entered in mid-operation: try_establish (L1) -> try_finish_resolution (L2) -> begin_connect (L3) -> try_finish_connect (L4) */
#define BT_GHOST_RANGE_L1 BT_GHOST_LIM(XB_CALLS_MAX + 8)
#define BT_GHOST_RANGE_L2 BT_GHOST_LIM(XB_CALLS_MAX + 16)
#define BT_GHOST_RANGE_L3 BT_GHOST_LIM(XB_CALLS_MAX + 24)
#define BT_GHOST_RANGE_L4 BT_GHOST_LIM(XB_CALLS_MAX + 32)
/* helper objects are destroyed exactly when their pointer is reset to NULL, once (C08) */
#define BT_TC_ACCOUNT(s) (BT(s)->conn.tconnect == __CPROVER_old(BT(s)->conn.tconnect) ? xb_tc_destroys == __CPROVER_old(xb_tc_destroys) \
                          : (BT(s)->conn.tconnect == NULL && xb_tc_destroys == __CPROVER_old(xb_tc_destroys) + 1))
#define BT_Q_ACCOUNT(s) (BT(s)->conn.query == __CPROVER_old(BT(s)->conn.query) ? xb_q_destroys == __CPROVER_old(xb_q_destroys) \
                          : (BT(s)->conn.query == NULL && xb_q_destroys == __CPROVER_old(xb_q_destroys) + 1))
/* every establishment function makes at most two calls of each kind */
#define BT_C_BOUNDED(c) ((c) >= __CPROVER_old(c) && (c) <= __CPROVER_old(c) + 2)
#define BT_EST_BOUNDED (BT_C_BOUNDED(xb_eff_calls) && BT_C_BOUNDED(xb_tc_calls) && BT_C_BOUNDED(xb_tc_destroys) && BT_C_BOUNDED(xb_tc_connects) && \
                        BT_C_BOUNDED(xb_q_destroys) && BT_C_BOUNDED(xb_q_processes))
#define BT_NO_IO (xb_send_calls == __CPROVER_old(xb_send_calls) && xb_recv_calls == __CPROVER_old(xb_recv_calls))
#define BT_STATE_SAME(s) (BST(s) == __CPROVER_old(BST(s)) && BRSN(s) == __CPROVER_old(BRSN(s)) && BT(s)->fd == __CPROVER_old(BT(s)->fd) && \
                          BT(s)->fd_reg_id == __CPROVER_old(BT(s)->fd_reg_id))

/* ================================================================================================================ */
/* connection establishment (C11, C13, C06)                                                                         */
/* ================================================================================================================ */
/* what the establishment functions may write: the state machine fields, the ghost records of the modules they call; NOT
 * the counters, NOT the ghost byte stream, NOT the send/recv records (no I/O), NOT xv_blocked (C05) */
#define BT_EST_FIELDS(s) BST(s), BRSN(s), BT(s)->fd, BT(s)->fd_reg_id, BT(s)->scope, BT(s)->conn.query, BT(s)->conn.tconnect
#define BT_EST_GHOSTS xv_lower_dead, XP_REG_ROW, B_SO_ASSIGNS, xb_eff_errno, xb_eff_calls, xb_tc_rc, xb_tc_errno, xb_tc_calls, xb_tc_destroys, \
                      xb_tc_connects, xb_q_completed, xb_q_rc, xb_q_errno, xb_q_destroys, xb_q_processes
/* the only module below btcp that can kill the connection before it exists is the connect attempt / the resolver: their
 * failure is the event at which xv_lower_dead is set (ghost update attached to the CONTRACT of the two functions below,
 * since real code cannot write a ghost) */

/* ---- try_finish_connect: poll the connect attempt */
static void try_finish_connect(struct xcm_socket *s)
__CPROVER_requires(__CPROVER_is_fresh(s, BT_SIZE) && BT_CONN_OK(s) && BT_IS(s, connecting) && BT_GHOST_RANGE_L4)
__CPROVER_assigns(BST(s), BRSN(s), BT(s)->fd, BT(s)->fd_reg_id, BT(s)->scope, BT(s)->conn.tconnect)
__CPROVER_assigns(xv_errno, xv_lower_dead, XP_REG_ROW, B_SO_ASSIGNS, xb_eff_errno, xb_eff_calls, xb_tc_rc, xb_tc_errno, xb_tc_calls, xb_tc_destroys)
/* errno is never changed (the outcome is reported by the public operation from the stored state) */
__CPROVER_ensures(xv_errno == __CPROVER_old(xv_errno) && xb_tc_calls == __CPROVER_old(xb_tc_calls) + 1 && B_SO_RANGE && BT_C_BOUNDED(xb_eff_calls) && BT_C_BOUNDED(xb_tc_destroys))
__CPROVER_ensures((BT_IS(s, connecting) || BT_IS(s, ready) || BT_IS(s, bad)) && BT_CONN_OK(s))
/* PO[C08] try_finish_connect.attempt_destroyed_once */
__CPROVER_ensures(BT_TC_ACCOUNT(s))
/* PO[C13] try_finish_connect.in_progress: EAGAIN => still connecting, nothing else changed */
__CPROVER_ensures((xb_tc_rc == -1 && xb_tc_errno == EAGAIN) ==> (BT_IS(s, connecting) && BT(s)->conn.tconnect == __CPROVER_old(BT(s)->conn.tconnect) && \
                   BT(s)->fd == -1 && BT(s)->fd_reg_id == __CPROVER_old(BT(s)->fd_reg_id) && xb_tc_destroys == __CPROVER_old(xb_tc_destroys)))
/* PO[C13,C06] try_finish_connect.connect_error_is_stored: any other errno => bad, with exactly that errno */
__CPROVER_ensures((xb_tc_rc == -1 && xb_tc_errno != EAGAIN) ==> (BT_IS(s, bad) && BRSN(s) == xb_tc_errno && BRSN(s) > 0))
/* the options in force on the new descriptor are conn.tcp_opts, also when they were changed while the attempt was in
 * progress (the parked-and-reapplied path) */
/* PO[C11] try_finish_connect.ready_means_options_in_force */
__CPROVER_ensures(BT_IS(s, ready) ==> B_OPTS_INFORCE(BT(s)->fd, &BT(s)->conn.tcp_opts))
/* PO[C11,C06] try_finish_connect.reapply_failure_is_bad: options that cannot be applied => bad with the kernel's errno, never a ready connection with other options */
__CPROVER_ensures((xb_tc_rc == 0 && !BT_IS(s, ready)) ==> (BT_IS(s, bad) && xb_eff_calls == __CPROVER_old(xb_eff_calls) + 1 && BRSN(s) == xb_eff_errno && BRSN(s) > 0))
/* connected => the descriptor is the one tconnect handed over, open, O_NONBLOCK, registered with xpoll (mask 0 until
 * update()), the attempt is destroyed exactly once */
/* PO[C04,C08] try_finish_connect.descriptor_registered */
__CPROVER_ensures(xb_tc_rc == 0 ==> (XB_FD_OK(BT(s)->fd) && BT_REG_OK(s) && (xb_t_reg == BT(s)->fd_reg_id ==> xb_t_reg_event == 0) && \
                   BT(s)->conn.tconnect == NULL && xb_tc_destroys == __CPROVER_old(xb_tc_destroys) + 1))
;

/* ---- begin_connect: resolve the local address (if any), start the attempt(s), poll once */
#define BT_LADDR_OK(s) (BT(s)->laddr[XCM_ADDR_MAX] == 0)
static void begin_connect(struct xcm_socket *s, const struct xcm_addr_ip *remote_ips, int num_remote_ips)
__CPROVER_requires(__CPROVER_is_fresh(s, BT_SIZE) && BT_PROTO(s) && BT_CONN_OK(s) && BT_IS(s, connecting) && BT_GHOST_RANGE_L3 && BT_LADDR_OK(s))
__CPROVER_requires(num_remote_ips >= 1 && num_remote_ips <= XCM_DNS_MAX_RESULT_SIZE && __CPROVER_is_fresh(remote_ips, num_remote_ips * sizeof(struct xcm_addr_ip)))
__CPROVER_assigns(BST(s), BRSN(s), BT(s)->fd, BT(s)->fd_reg_id, BT(s)->scope, BT(s)->conn.tconnect)
__CPROVER_assigns(xv_errno, xv_lower_dead, XP_REG_ROW, B_SO_ASSIGNS, xb_eff_errno, xb_eff_calls, xb_tc_rc, xb_tc_errno, xb_tc_calls, xb_tc_destroys, xb_tc_connects)
#ifdef XB_F20_TOLERATED
/* job btcp.begin_connect@but_c05 ONLY: everything except C05 is decided with the sleep of xcm_dns_resolve_sync admitted.  The
 * contract every other job uses (and btcp.begin_connect@c05 enforces) has no xv_blocked in its frame. */
__CPROVER_assigns(xv_blocked)
#endif
__CPROVER_ensures(xv_errno == __CPROVER_old(xv_errno) && B_SO_RANGE && xb_tc_calls <= __CPROVER_old(xb_tc_calls) + 1 && xb_tc_connects <= __CPROVER_old(xb_tc_connects) + 1)
__CPROVER_ensures(BT_C_BOUNDED(xb_eff_calls) && BT_C_BOUNDED(xb_tc_calls) && BT_C_BOUNDED(xb_tc_destroys) && BT_C_BOUNDED(xb_tc_connects))
__CPROVER_ensures((BT_IS(s, connecting) || BT_IS(s, ready) || BT_IS(s, bad)) && BT_CONN_OK(s))
/* PO[C08] begin_connect.attempt_destroyed_once */
__CPROVER_ensures(BT_TC_ACCOUNT(s))
/* PO[C13,C06] begin_connect.failure_is_stored: an attempt that could not be started, or failed at once, leaves the socket bad with a real errno */
__CPROVER_ensures((xb_tc_connects == __CPROVER_old(xb_tc_connects) || xb_tc_calls == __CPROVER_old(xb_tc_calls)) ==> (BT_IS(s, bad) && BRSN(s) > 0 && BRSN(s) != EAGAIN))
/* PO[C11] begin_connect.ready_means_options_in_force */
__CPROVER_ensures(BT_IS(s, ready) ==> B_OPTS_INFORCE(BT(s)->fd, &BT(s)->conn.tcp_opts))
;

/* ---- try_finish_resolution: poll the resolver; on an answer start connecting */
static void try_finish_resolution(struct xcm_socket *s)
__CPROVER_requires(__CPROVER_is_fresh(s, BT_SIZE) && BT_PROTO(s) && BT_CONN_OK(s) && BT_IS(s, resolving) && BT_GHOST_RANGE_L2 && BT_LADDR_OK(s))
__CPROVER_assigns(BT_EST_FIELDS(s))
__CPROVER_assigns(xv_errno, xv_lower_dead, XP_REG_ROW, B_SO_ASSIGNS, xb_eff_errno, xb_eff_calls, xb_tc_rc, xb_tc_errno, xb_tc_calls, xb_tc_destroys, xb_tc_connects, xb_q_rc, xb_q_errno, xb_q_destroys)
__CPROVER_ensures(xv_errno == __CPROVER_old(xv_errno) && B_SO_RANGE && BT_CONN_OK(s))
__CPROVER_ensures(BT_C_BOUNDED(xb_eff_calls) && BT_C_BOUNDED(xb_tc_calls) && BT_C_BOUNDED(xb_tc_destroys) && BT_C_BOUNDED(xb_tc_connects) && BT_C_BOUNDED(xb_q_destroys))
__CPROVER_ensures((xb_q_rc == -1 || xb_q_rc >= 1) && (BT_IS(s, resolving) || BT_IS(s, connecting) || BT_IS(s, ready) || BT_IS(s, bad)))
/* PO[C13] try_finish_resolution.in_progress: EAGAIN => still resolving, the query lives on */
__CPROVER_ensures((xb_q_rc == -1 && xb_q_errno == EAGAIN) ==> (BT_IS(s, resolving) && BT(s)->conn.query == __CPROVER_old(BT(s)->conn.query) && \
                   xb_q_destroys == __CPROVER_old(xb_q_destroys) && xb_tc_connects == __CPROVER_old(xb_tc_connects)))
/* PO[C13,C06] try_finish_resolution.resolver_error_is_stored: failed resolution => bad with the resolver's errno (ENOENT) */
__CPROVER_ensures((xb_q_rc == -1 && xb_q_errno != EAGAIN) ==> (BT_IS(s, bad) && BRSN(s) == xb_q_errno && BRSN(s) == ENOENT && xb_tc_connects == __CPROVER_old(xb_tc_connects)))
/* PO[C13] try_finish_resolution.answer_starts_connecting */
__CPROVER_ensures(xb_q_rc >= 1 ==> (BT_IS(s, connecting) || BT_IS(s, ready) || BT_IS(s, bad)))
/* PO[C08] try_finish_resolution.helpers_destroyed_once */
__CPROVER_ensures(BT_TC_ACCOUNT(s) && BT_Q_ACCOUNT(s))
/* PO[C08] try_finish_resolution.query_released_once */
__CPROVER_ensures(!BT_IS(s, resolving) ==> (BT(s)->conn.query == NULL && xb_q_destroys == __CPROVER_old(xb_q_destroys) + 1))
__CPROVER_ensures(BT_IS(s, ready) ==> B_OPTS_INFORCE(BT(s)->fd, &BT(s)->conn.tcp_opts))
;

/* ---- try_establish: called first by send/receive/finish: advances resolving/connecting, is a no-op otherwise */
#define BT_OLD_IS(s, st) (__CPROVER_old(BST(s)) == conn_state_##st)
#define BT_OLD_ESTABLISHING(s) (BT_OLD_IS(s, resolving) || BT_OLD_IS(s, connecting))
static void try_establish(struct xcm_socket *s)
__CPROVER_requires(__CPROVER_is_fresh(s, BT_SIZE) && BT_PROTO(s) && BT_CONN_OK(s) && BT_GHOST_RANGE_L1 && BT_LADDR_OK(s))
__CPROVER_assigns(BT_EST_FIELDS(s), xv_errno, BT_EST_GHOSTS)
__CPROVER_ensures(BT_CONN_OK(s) && B_SO_RANGE && BT_EST_BOUNDED)
/* PO[C06] try_establish.terminal_and_ready_untouched: ready, closed and bad are left exactly as they are (no module is even called) */
__CPROVER_ensures(!BT_OLD_ESTABLISHING(s) ==> (BT_STATE_SAME(s) && xv_errno == __CPROVER_old(xv_errno) && xv_lower_dead == __CPROVER_old(xv_lower_dead) && \
                   XP_REG_SAME && xb_tc_calls == __CPROVER_old(xb_tc_calls) && xb_q_processes == __CPROVER_old(xb_q_processes)))
/* PO[C08] try_establish.helpers_destroyed_once */
__CPROVER_ensures(BT_TC_ACCOUNT(s) && BT_Q_ACCOUNT(s))
/* PO[C13] try_establish.forward_only: the state machine only moves forward */
__CPROVER_ensures(BT_OLD_IS(s, connecting) ==> ((BT_IS(s, connecting) || BT_IS(s, ready) || BT_IS(s, bad)) && xv_errno == __CPROVER_old(xv_errno)))
__CPROVER_ensures(BT_OLD_IS(s, resolving) ==> (BT_IS(s, resolving) || BT_IS(s, connecting) || BT_IS(s, ready) || BT_IS(s, bad)))
/* PO[C11] try_establish.ready_means_options_in_force */
__CPROVER_ensures((BT_OLD_ESTABLISHING(s) && BT_IS(s, ready)) ==> B_OPTS_INFORCE(BT(s)->fd, &BT(s)->conn.tcp_opts))
;

/* ================================================================================================================ */
/* data transfer (C02, C06, C17, C05)                                                                               */
/* ================================================================================================================ */
/* lengths/capacities above this are not explored (is_fresh needs a bound).  It is above INT_MAX and above the kernel's
 * MAX_RW_COUNT, so the `int rc = send()/recv()` conversions are exercised with the largest values the kernel can return */
#define XB_LEN_MAX ((1UL << 32) + 16)
#define BT_IO_REQUIRES(s) (__CPROVER_is_fresh(s, BT_SIZE) && BT_PROTO(s) && BT_CONN_OK(s) && BT_GHOST_RANGE && BT_LADDR_OK(s) && BT_CNT_RANGE(s) && BT_CNT_INV(s))
/* what a data-transfer operation may write on top of try_establish */
#define BT_IO_ASSIGNS(s) BT_EST_FIELDS(s), xv_errno, BT_EST_GHOSTS

/* ---- btcp_send */
#define BT_SENT_ONE(s, buf, len) (xb_send_calls == __CPROVER_old(xb_send_calls) + 1 && xb_send_fd == BT(s)->fd && xb_send_buf == (buf) && \
                                  xb_send_len == (len) && xb_send_flags == MSG_NOSIGNAL)
static int btcp_send(struct xcm_socket *__restrict s, const void *__restrict buf, size_t len)
__CPROVER_requires(BT_IO_REQUIRES(s))
__CPROVER_requires(len <= XB_LEN_MAX && __CPROVER_is_fresh(buf, len == 0 ? 1 : len))
__CPROVER_assigns(BT_IO_ASSIGNS(s), LOWER_SEND_ASSIGNS, XB_SEND_REC, BCN(s, from_app_bytes), BCN(s, to_lower_bytes))
/* PO[C06,C17] btcp_send.state_agrees_with_events: the invariant; in particular closed/bad exactly after an event that ends the connection; from_app == to_lower */
__CPROVER_ensures(BT_CONN_OK_BUT_EOF(s) && BT_CNT_RANGE_OUT(s) && BT_CNT_INV(s) && LOWER_DEAD_MONOTONE)
/* PO[C02,C06] btcp_send.lower_contract: what unit framing assumes of xcm_tp_socket_send (contracts/lower.h) */
__CPROVER_ensures(len >= 1 ==> LOWER_SEND_ENSURES(__CPROVER_return_value, buf, len))
/* PO[C02] btcp_send.rv_range: 1..len or -1 (0 only for len == 0) */
__CPROVER_ensures(__CPROVER_return_value >= -1 && (__CPROVER_return_value >= 0 ==> (size_t)__CPROVER_return_value <= len) && (__CPROVER_return_value == 0 ==> len == 0))
/* PO[C02] btcp_send.one_send_in_ready: in state ready exactly one send(fd, buf, len, MSG_NOSIGNAL) on the socket's own descriptor; rv is the kernel's count, or -1 with the kernel's errno */
__CPROVER_ensures(BT_OLD_IS(s, ready) ==> (BT_SENT_ONE(s, buf, len) && BT(s)->fd == __CPROVER_old(BT(s)->fd) && (long)__CPROVER_return_value == xb_send_ret && \
                                             (__CPROVER_return_value == -1 ==> xv_errno == xb_send_errno)))
/* PO[C02] btcp_send.at_most_one_send: never more than one send, never a recv; a send is made only on a connection that is (or just became) established */
__CPROVER_ensures(xb_recv_calls == __CPROVER_old(xb_recv_calls) && (xb_send_calls == __CPROVER_old(xb_send_calls) || \
                   (BT_SENT_ONE(s, buf, len) && (long)__CPROVER_return_value == xb_send_ret && !BT_IS(s, resolving) && !BT_IS(s, connecting))))
/* PO[C02] btcp_send.no_io_unless_ready: closed, bad, still resolving/connecting => no system call at all, -1 */
__CPROVER_ensures((BT_OLD_IS(s, closed) || BT_OLD_IS(s, bad) || BT_IS(s, resolving) || BT_IS(s, connecting)) ==> (BT_NO_IO && __CPROVER_return_value == -1))
__CPROVER_ensures((BT_IS(s, resolving) || BT_IS(s, connecting)) ==> xv_errno == EAGAIN)
/* PO[C06] btcp_send.bad_sticky: bad is absorbing, the reason immutable, and it is the errno reported */
__CPROVER_ensures(BT_OLD_IS(s, bad) ==> (BT_STATE_SAME(s) && __CPROVER_return_value == -1 && xv_errno == __CPROVER_old(BRSN(s)) && xv_tx_off == __CPROVER_old(xv_tx_off)))
/* PO[C06] btcp_send.closed_sticky: closed is absorbing; send fails EPIPE */
__CPROVER_ensures(BT_OLD_IS(s, closed) ==> (BT_STATE_SAME(s) && __CPROVER_return_value == -1 && xv_errno == EPIPE && xv_tx_off == __CPROVER_old(xv_tx_off)))
/* PO[C06] btcp_send.errno_passthrough: EAGAIN leaves the connection ready; any other errno e of send(2) is reported by this call and ends the connection: bad with reason e (EPIPE: see next) */
__CPROVER_ensures((xb_send_calls != __CPROVER_old(xb_send_calls) && xb_send_ret == -1) ==> (__CPROVER_return_value == -1 && xv_errno == xb_send_errno && \
                   (xb_send_errno == EAGAIN ? BT_IS(s, ready) : (BT_DEAD(s) && (xb_send_errno != EPIPE ==> (BT_IS(s, bad) && BRSN(s) == xb_send_errno))))))
/* PO[C06] btcp_send.closed_only_after_eof: state closed means the peer's close HAS BEEN SEEN (recv returned 0); from then on receive reports 0 forever without reading */
__CPROVER_ensures(BT_IS(s, closed) ==> xv_rx_eof)
/* PO[C06] btcp_send.a_successful_send_keeps_ready */
__CPROVER_ensures(__CPROVER_return_value >= 0 ==> BT_IS(s, ready))
/* PO[C17] btcp_send.cnt: from_app/to_lower grow by exactly the accepted bytes, nothing is counted on failure, the receive side is untouched */
__CPROVER_ensures(__CPROVER_return_value > 0 \
        ? (BCN(s, from_app_bytes) == __CPROVER_old(BCN(s, from_app_bytes)) + __CPROVER_return_value && BCN(s, to_lower_bytes) == __CPROVER_old(BCN(s, to_lower_bytes)) + __CPROVER_return_value) \
        : (BT_SAME(s, from_app_bytes) && BT_SAME(s, to_lower_bytes)))
;

/* ---- btcp_receive.  XB_CAP0 (job variant btcp.receive@cap0) instantiates the contract for capacity == 0, which is
 * outside contracts/lower.h (the framing layers never ask for 0 bytes) but inside the API (xcm_receive(s, buf, 0)) */
#ifdef XB_CAP0
#define BT_CAP_REQUIRES(capacity) ((capacity) == 0)
#else
#ifndef XB_CAP_MAX
#define XB_CAP_MAX XB_LEN_MAX
#endif
#ifndef XB_CAP_MIN
#define XB_CAP_MIN 1
#endif
#define BT_CAP_REQUIRES(capacity) ((capacity) >= XB_CAP_MIN && (capacity) <= XB_CAP_MAX)
#endif
#define BT_RECV_ONE(s, buf, capacity) (xb_recv_calls == __CPROVER_old(xb_recv_calls) + 1 && xb_recv_fd == BT(s)->fd && xb_recv_buf == (buf) && \
                                       xb_recv_len == (capacity) && xb_recv_flags == 0)
static int btcp_receive(struct xcm_socket *__restrict s, void *__restrict buf, size_t capacity)
__CPROVER_requires(BT_IO_REQUIRES(s))
__CPROVER_requires(BT_CAP_REQUIRES(capacity) && __CPROVER_is_fresh(buf, capacity == 0 ? 1 : capacity))
__CPROVER_assigns(BT_IO_ASSIGNS(s), xv_rx_off, xv_rx_eof, XB_RECV_REC)
__CPROVER_assigns(BCN(s, from_lower_bytes), BCN(s, from_lower_msgs), BCN(s, to_app_bytes), BCN(s, to_app_msgs))
__CPROVER_assigns(capacity > 0: __CPROVER_object_upto(buf, capacity))
__CPROVER_ensures(BT_CNT_RANGE_OUT(s) && BT_CNT_INV(s) && LOWER_DEAD_MONOTONE && B_SO_RANGE)
/* PO[C02,C06] btcp_receive.lower_contract: what unit framing assumes of xcm_tp_socket_receive (contracts/lower.h) */
__CPROVER_ensures(capacity >= 1 ==> LOWER_RECV_ENSURES(__CPROVER_return_value, buf, capacity))
/* PO[C02] btcp_receive.never_more_than_capacity */
__CPROVER_ensures(__CPROVER_return_value >= -1 && (__CPROVER_return_value > 0 ==> (size_t)__CPROVER_return_value <= capacity))
/* PO[C02] btcp_receive.one_recv_in_ready: in state ready exactly one recv(fd, buf, capacity, 0) on the socket's own descriptor; rv is the kernel's result, -1 comes with the kernel's errno */
__CPROVER_ensures(BT_OLD_IS(s, ready) ==> (BT_RECV_ONE(s, buf, capacity) && BT(s)->fd == __CPROVER_old(BT(s)->fd) && (long)__CPROVER_return_value == xb_recv_ret && \
                                             (__CPROVER_return_value == -1 ==> xv_errno == xb_recv_errno)))
/* PO[C02] btcp_receive.at_most_one_recv: never more than one recv, never a send */
__CPROVER_ensures(xb_send_calls == __CPROVER_old(xb_send_calls) && (xb_recv_calls == __CPROVER_old(xb_recv_calls) || \
                   (BT_RECV_ONE(s, buf, capacity) && (long)__CPROVER_return_value == xb_recv_ret && !BT_IS(s, resolving) && !BT_IS(s, connecting))))
/* PO[C02] btcp_receive.no_io_unless_ready */
__CPROVER_ensures((BT_OLD_IS(s, closed) || BT_OLD_IS(s, bad) || BT_IS(s, resolving) || BT_IS(s, connecting)) ==> BT_NO_IO)
__CPROVER_ensures((BT_IS(s, resolving) || BT_IS(s, connecting)) ==> (__CPROVER_return_value == -1 && xv_errno == EAGAIN))
/* PO[C06] btcp_receive.bad_sticky */
__CPROVER_ensures(BT_OLD_IS(s, bad) ==> (BT_STATE_SAME(s) && __CPROVER_return_value == -1 && xv_errno == __CPROVER_old(BRSN(s)) && xv_rx_off == __CPROVER_old(xv_rx_off)))
/* PO[C06] btcp_receive.closed_sticky: after the close has been seen receive returns 0 forever */
__CPROVER_ensures(BT_OLD_IS(s, closed) ==> (BT_STATE_SAME(s) && __CPROVER_return_value == 0 && xv_rx_off == __CPROVER_old(xv_rx_off)))
/* PO[C06] btcp_receive.errno_passthrough: EAGAIN leaves the connection ready; any other errno e of recv(2) => bad with reason e, reported by this call */
__CPROVER_ensures((xb_recv_calls != __CPROVER_old(xb_recv_calls) && xb_recv_ret == -1) ==> (__CPROVER_return_value == -1 && xv_errno == xb_recv_errno && \
                   (xb_recv_errno == EAGAIN ? BT_IS(s, ready) : (BT_IS(s, bad) && BRSN(s) == xb_recv_errno))))
/* PO[C06] btcp_receive.eof_closes: recv == 0 on a non-empty buffer => closed; data => still ready */
__CPROVER_ensures((xb_recv_calls != __CPROVER_old(xb_recv_calls) && xb_recv_ret == 0 && capacity >= 1) ==> (BT_IS(s, closed) && __CPROVER_return_value == 0))
__CPROVER_ensures(__CPROVER_return_value > 0 ==> BT_IS(s, ready))
/* PO[C06,C02] btcp_receive.closed_only_after_eof: the connection is declared closed by the peer only when the kernel reported end of stream */
__CPROVER_ensures(BT_IS(s, closed) ==> xv_rx_eof)
/* PO[C06,C02] btcp_receive.state_agrees_with_events: the invariant; in particular closed/bad exactly after an event that ends the connection (fatal errno, end of stream) */
__CPROVER_ensures(BT_CONN_OK_BUT_EOF(s))
/* PO[C17] btcp_receive.cnt: from_lower/to_app grow by exactly the delivered bytes; nothing is counted for EOF or a failure; the send side is untouched */
__CPROVER_ensures(__CPROVER_return_value > 0 \
        ? (BCN(s, from_lower_bytes) == __CPROVER_old(BCN(s, from_lower_bytes)) + __CPROVER_return_value && BCN(s, to_app_bytes) == __CPROVER_old(BCN(s, to_app_bytes)) + __CPROVER_return_value) \
        : (BT_SAME(s, from_lower_bytes) && BT_SAME(s, to_app_bytes) && BT_SAME(s, from_lower_msgs) && BT_SAME(s, to_app_msgs)))
;

/* ---- btcp_finish (connection sockets; a server socket has nothing to finish: job btcp.finish_server) */
static int btcp_finish(struct xcm_socket *s)
#ifdef XB_SERVER
__CPROVER_requires(__CPROVER_is_fresh(s, BT_SIZE) && s->type == xcm_socket_type_server)
__CPROVER_assigns()
/* PO[C04] btcp_finish.server_never_busy */
__CPROVER_ensures(__CPROVER_return_value == 0)
#else
__CPROVER_requires(BT_IO_REQUIRES(s))
__CPROVER_assigns(BT_IO_ASSIGNS(s))
__CPROVER_ensures(BT_CONN_OK(s) && LOWER_DEAD_MONOTONE && BT_NO_IO)
/* PO[C06,C04] btcp_finish.lower_contract: what unit framing assumes of xcm_tp_socket_finish (contracts/framing.h), minus `errno unchanged on success` (next clause) */
__CPROVER_ensures((__CPROVER_return_value == 0 && !xv_lower_dead && !__CPROVER_old(xv_lower_dead)) || \
                  (__CPROVER_return_value == -1 && xv_errno > 0 && (xv_errno != EAGAIN ==> xv_lower_dead)))
/* success leaves errno alone -- unless name resolution was driven in this very call (xcm_dns_query_process sits outside the
 * errno bracket of try_establish and c-ares does socket I/O) */
__CPROVER_ensures((__CPROVER_return_value == 0 && !BT_OLD_IS(s, resolving)) ==> xv_errno == __CPROVER_old(xv_errno))
#ifdef XB_FINISH_LITERAL
/* the text of contracts/framing.h verbatim (diagnostic only, no job defines this: it fails on the path resolving -> ready in one call) */
__CPROVER_ensures((__CPROVER_return_value == 0 && !xv_lower_dead && !__CPROVER_old(xv_lower_dead) && xv_errno == __CPROVER_old(xv_errno)) || \
                  (__CPROVER_return_value == -1 && xv_errno > 0 && (xv_errno != EAGAIN ==> xv_lower_dead)))
#endif
/* PO[C06] btcp_finish.reports_state: ready <=> 0; resolving/connecting => EAGAIN; bad => the stored errno; closed => EPIPE */
__CPROVER_ensures((__CPROVER_return_value == 0) == BT_IS(s, ready))
__CPROVER_ensures((BT_IS(s, resolving) || BT_IS(s, connecting)) ==> xv_errno == EAGAIN)
__CPROVER_ensures(BT_IS(s, bad) ==> xv_errno == BRSN(s))
__CPROVER_ensures(BT_IS(s, closed) ==> xv_errno == EPIPE)
/* PO[C06] btcp_finish.terminal_sticky */
__CPROVER_ensures((BT_OLD_IS(s, bad) || BT_OLD_IS(s, closed)) ==> BT_STATE_SAME(s))
#endif
;

/* ---- btcp_get_cnt (C17): the stored value */
static int64_t btcp_get_cnt(struct xcm_socket *conn_s, enum xcm_tp_cnt cnt)
__CPROVER_requires(__CPROVER_is_fresh(conn_s, BT_SIZE) && (int)cnt >= 0 && (int)cnt < XCM_TP_NUM_BYTESTREAM_CNTS)
__CPROVER_assigns()
/* PO[C17] btcp_get_cnt.stored_value */
__CPROVER_ensures(__CPROVER_return_value == BT(conn_s)->conn.cnts[cnt])
;

/* ================================================================================================================ */
/* update (C04, C16)                                                                                                */
/* ================================================================================================================ */
#define BT_MASK(cond) ((((cond) & XCM_SO_SENDABLE) ? (int)EPOLLOUT : 0) | (((cond) & XCM_SO_RECEIVABLE) ? (int)EPOLLIN : 0))
#define BT_MY_REG(s) (xb_t_reg == BT(s)->fd_reg_id)
#define BT_MY_BELL(s) (xb_t_bell == BT(s)->conn.bell_reg_id)
#define BT_UPD_REQUIRES(s) (__CPROVER_is_fresh(s, BT_SIZE) && (s)->type == xcm_socket_type_conn && BST(s) >= conn_state_resolving && BST(s) <= conn_state_bad && \
                            BT_BELL_OK(s) && (BT_IS(s, ready) ==> BT_REG_OK(s)) && (BT_IS(s, resolving) ==> BT(s)->conn.query != NULL) && XP_RANGE)
#define BT_UPD_ASSIGNS xb_t_reg_event, xb_reg_mods, xb_t_bell_ringing, xb_bell_mods
static void conn_update(struct xcm_socket *s)
__CPROVER_requires(BT_UPD_REQUIRES(s))
__CPROVER_assigns(BT_UPD_ASSIGNS)
/* PO[C04,C16] conn_update.ready_exact_mask: ready => the descriptor's registered mask is EXACTLY EPOLLOUT iff SENDABLE is awaited | EPOLLIN iff RECEIVABLE is awaited (condition 0 => 0: not polled) */
__CPROVER_ensures((BT_IS(s, ready) && BT_MY_REG(s)) ==> xb_t_reg_event == BT_MASK(s->condition))
/* PO[C16] conn_update.ready_bell_silent */
__CPROVER_ensures((BT_IS(s, ready) && BT_MY_BELL(s)) ==> !xb_t_bell_ringing)
/* PO[C04,C06] conn_update.terminal_rings_bell: closed/bad => the bell rings (the descriptor is readable whatever is awaited) */
__CPROVER_ensures((BT_DEAD(s) && BT_MY_BELL(s)) ==> xb_t_bell_ringing)
/* PO[C04,C16] conn_update.resolving_bell_iff_completed: while resolving the bell rings iff the resolver has finished (there may be no descriptor event for that) */
__CPROVER_ensures((BT_IS(s, resolving) && BT_MY_BELL(s)) ==> !xb_t_bell_ringing == !xb_q_completed)
/* PO[C16] conn_update.connecting_bell_silent: the connect attempt has its own registrations */
__CPROVER_ensures((BT_IS(s, connecting) && BT_MY_BELL(s)) ==> !xb_t_bell_ringing)
/* PO[C16] conn_update.nothing_else: no other registration and no other bell is touched; the descriptor's mask only in state ready */
__CPROVER_ensures((!BT_MY_REG(s) || !BT_IS(s, ready)) ==> xb_t_reg_event == __CPROVER_old(xb_t_reg_event))
__CPROVER_ensures(!BT_MY_BELL(s) ==> xb_t_bell_ringing == __CPROVER_old(xb_t_bell_ringing))
__CPROVER_ensures(xb_reg_mods == __CPROVER_old(xb_reg_mods) + (BT_IS(s, ready) ? 1 : 0) && xb_bell_mods == __CPROVER_old(xb_bell_mods) + 1)
;
#define BT_SRV_MASK(cond) (((cond) & XCM_SO_ACCEPTABLE) ? (int)EPOLLIN : 0)
#define BT_SRV_REQUIRES(s) (__CPROVER_is_fresh(s, BT_SIZE) && (s)->type == xcm_socket_type_server && BT_REG_OK(s) && XP_RANGE)
static void server_update(struct xcm_socket *s)
__CPROVER_requires(BT_SRV_REQUIRES(s))
__CPROVER_assigns(xb_t_reg_event, xb_reg_mods)
/* PO[C04,C16] server_update.acceptable_iff_epollin: the listening descriptor is polled for EPOLLIN iff ACCEPTABLE is awaited, for nothing else */
__CPROVER_ensures(BT_MY_REG(s) ==> xb_t_reg_event == BT_SRV_MASK(s->condition))
/* PO[C16] server_update.nothing_else */
__CPROVER_ensures(!BT_MY_REG(s) ==> xb_t_reg_event == __CPROVER_old(xb_t_reg_event))
__CPROVER_ensures(xb_reg_mods == __CPROVER_old(xb_reg_mods) + 1)
;
static void btcp_update(struct xcm_socket *s)
__CPROVER_requires(__CPROVER_is_fresh(s, BT_SIZE) && XP_RANGE && (s->type == xcm_socket_type_conn || s->type == xcm_socket_type_server))
__CPROVER_requires(s->type == xcm_socket_type_conn ==> (BST(s) >= conn_state_resolving && BST(s) <= conn_state_bad && \
                            BT_BELL_OK(s) && (BT_IS(s, ready) ==> BT_REG_OK(s)) && (BT_IS(s, resolving) ==> BT(s)->conn.query != NULL)))
__CPROVER_requires(s->type == xcm_socket_type_server ==> BT_REG_OK(s))
__CPROVER_assigns(BT_UPD_ASSIGNS)
/* PO[C04,C16] btcp_update.conn_ready_exact_mask */
__CPROVER_ensures((s->type == xcm_socket_type_conn && BT_IS(s, ready) && BT_MY_REG(s)) ==> xb_t_reg_event == BT_MASK(s->condition))
/* PO[C04,C06,C16] btcp_update.conn_bell: rings in closed/bad, rings iff completed while resolving, silent in connecting/ready */
__CPROVER_ensures((s->type == xcm_socket_type_conn && BT_MY_BELL(s)) ==> !xb_t_bell_ringing == !(BT_DEAD(s) || (BT_IS(s, resolving) && xb_q_completed)))
/* PO[C04,C16] btcp_update.server_acceptable_iff_epollin */
__CPROVER_ensures((s->type == xcm_socket_type_server && BT_MY_REG(s)) ==> xb_t_reg_event == BT_SRV_MASK(s->condition))
/* PO[C16] btcp_update.nothing_else */
__CPROVER_ensures((!BT_MY_REG(s) || (s->type == xcm_socket_type_conn && !BT_IS(s, ready))) ==> xb_t_reg_event == __CPROVER_old(xb_t_reg_event))
__CPROVER_ensures((s->type == xcm_socket_type_server || !BT_MY_BELL(s)) ==> xb_t_bell_ringing == __CPROVER_old(xb_t_bell_ringing))
;

/* ================================================================================================================ */
/* creation-time attributes (C11): "refused with EACCES afterwards, changing nothing"                               */
/* ================================================================================================================ */
/* xcm_tp.c: memcpy of sizeof(double) bytes (bit pattern: also NaN payloads) */
#define XB_BITS(p) (*(const uint64_t *)(p))
void xcm_tp_set_double_attr(const void *buf, size_t len, double *value)
__CPROVER_requires(__CPROVER_r_ok(buf, sizeof(double)) && __CPROVER_w_ok(value, sizeof(double)))
__CPROVER_assigns(*value)
__CPROVER_ensures(XB_BITS(value) == XB_BITS(buf))
;
/* tconnect.c:618: strcmp against the three names */
enum tconnect_algorithm tconnect_algorithm_enum(const char *str)
__CPROVER_requires(__CPROVER_r_ok(str, 1))
__CPROVER_assigns()
__CPROVER_ensures((int)__CPROVER_return_value >= (int)tconnect_algorithm_none && (int)__CPROVER_return_value <= (int)tconnect_algorithm_happy_eyeballs)
;
/* any connection socket the attribute machinery can be handed: after btcp_init, in any later state */
#define BT_ATTR_REQ(s) (__CPROVER_is_fresh(s, BT_SIZE) && (s)->type == xcm_socket_type_conn && BST(s) >= conn_state_initialized && BST(s) <= conn_state_bad)
#define BT_DNS_T(s) (BT(s)->conn.dns_opts.timeout)
#define BT_TCT(s) (BT(s)->conn.tcp_connect_timeout)

static int set_dns_timeout_attr(struct xcm_socket *s, void *context, const void *value, size_t len)
__CPROVER_requires(BT_ATTR_REQ(s) && len == sizeof(double) && __CPROVER_is_fresh(value, sizeof(double)) && BT_DNS_T(s) >= 0)
__CPROVER_assigns(xv_errno, BT_DNS_T(s))
__CPROVER_ensures(__CPROVER_return_value == 0 || (__CPROVER_return_value == -1 && xv_errno > 0))
/* PO[C11] set_dns_timeout_attr.refused_after_creation */
__CPROVER_ensures(!BT_IS(s, initialized) ==> (__CPROVER_return_value == -1 && xv_errno == EACCES))
/* PO[C11] set_dns_timeout_attr.failure_changes_nothing */
__CPROVER_ensures(__CPROVER_return_value == -1 ==> BT_DNS_T(s) == __CPROVER_old(BT_DNS_T(s)))
/* PO[C11] set_dns_timeout_attr.accepted_is_stored */
__CPROVER_ensures(__CPROVER_return_value == 0 ==> (XB_BITS(&BT_DNS_T(s)) == XB_BITS(value) && !BT(s)->conn.dns_opts.timeout_disabled))
/* a negative time is refused; so is any value on a socket that never resolves (accepted connection / resolver without timeout support) */
__CPROVER_ensures((BT_IS(s, initialized) && BT(s)->conn.dns_opts.timeout_disabled) ==> (__CPROVER_return_value == -1 && xv_errno == ENOENT))
__CPROVER_ensures((BT_IS(s, initialized) && !BT(s)->conn.dns_opts.timeout_disabled && *(const double *)value < 0) ==> (__CPROVER_return_value == -1 && xv_errno == EINVAL))
;

static int set_dns_algorithm_attr(struct xcm_socket *s, void *context, const void *value, size_t len)
__CPROVER_requires(BT_ATTR_REQ(s) && len >= 1 && len <= 32 && __CPROVER_is_fresh(value, len) && ((const char *)value)[len - 1] == 0)
__CPROVER_assigns(xv_errno, BT(s)->conn.dns_algorithm)
__CPROVER_ensures(__CPROVER_return_value == 0 || (__CPROVER_return_value == -1 && (xv_errno == EACCES || xv_errno == EINVAL)))
/* PO[C11] set_dns_algorithm_attr.refused_after_creation */
__CPROVER_ensures(!BT_IS(s, initialized) ==> (__CPROVER_return_value == -1 && xv_errno == EACCES))
/* PO[C11] set_dns_algorithm_attr.failure_changes_nothing */
__CPROVER_ensures(__CPROVER_return_value == -1 ==> BT(s)->conn.dns_algorithm == __CPROVER_old(BT(s)->conn.dns_algorithm))
/* PO[C11] set_dns_algorithm_attr.accepted_is_a_known_algorithm */
__CPROVER_ensures(__CPROVER_return_value == 0 ==> ((int)BT(s)->conn.dns_algorithm >= (int)tconnect_algorithm_single && (int)BT(s)->conn.dns_algorithm <= (int)tconnect_algorithm_happy_eyeballs))
;

static int set_tcp_connect_timeout_attr(struct xcm_socket *s, void *context, const void *value, size_t len)
__CPROVER_requires(BT_ATTR_REQ(s) && len == sizeof(double) && __CPROVER_is_fresh(value, sizeof(double)) && BT_TCT(s) >= -1)
__CPROVER_assigns(xv_errno, BT_TCT(s))
__CPROVER_ensures(__CPROVER_return_value == 0 || (__CPROVER_return_value == -1 && (xv_errno == EACCES || xv_errno == EINVAL)))
/* xcm.h: "tcp.connect_timeout ... Writable only at the time of the xcm_connect_a() call" */
/* PO[C11] set_tcp_connect_timeout_attr.refused_after_creation */
__CPROVER_ensures(!BT_IS(s, initialized) ==> (__CPROVER_return_value == -1 && xv_errno == EACCES))
/* PO[C11] set_tcp_connect_timeout_attr.failure_changes_nothing */
__CPROVER_ensures(__CPROVER_return_value == -1 ==> BT_TCT(s) == __CPROVER_old(BT_TCT(s)))
/* PO[C11] set_tcp_connect_timeout_attr.accepted_is_stored */
__CPROVER_ensures(__CPROVER_return_value == 0 ==> XB_BITS(&BT_TCT(s)) == XB_BITS(value))
__CPROVER_ensures(*(const double *)value < 0 ==> __CPROVER_return_value == -1)
/* PO[C11] set_tcp_connect_timeout_attr.stored_value_admissible: what is stored is a time (>= 0; in particular not NaN): btcp_connect hands it to tconnect as the timer value */
__CPROVER_ensures(__CPROVER_return_value == 0 ==> BT_TCT(s) >= 0)
;

/* ipv6.scope: "Writable only at socket creation": a connection socket in state initialized, a server socket not yet created */
static int set_scope_attr(struct xcm_socket *s, void *context, const void *value, size_t len)
__CPROVER_requires(__CPROVER_is_fresh(s, BT_SIZE) && len == sizeof(int64_t) && __CPROVER_is_fresh(value, sizeof(int64_t)))
__CPROVER_requires(s->type == xcm_socket_type_server || (s->type == xcm_socket_type_conn && BST(s) >= conn_state_initialized && BST(s) <= conn_state_bad))
__CPROVER_requires(BT(s)->scope >= -1 && BT(s)->scope <= (int64_t)UINT32_MAX)
__CPROVER_assigns(xv_errno, BT(s)->scope)
__CPROVER_ensures(__CPROVER_return_value == 0 || (__CPROVER_return_value == -1 && (xv_errno == EACCES || xv_errno == EINVAL)))
/* PO[C11] set_scope_attr.refused_after_creation */
__CPROVER_ensures(((s->type == xcm_socket_type_conn && !BT_IS(s, initialized)) || (s->type == xcm_socket_type_server && BT(s)->server.created)) ==> \
                  (__CPROVER_return_value == -1 && xv_errno == EACCES))
/* PO[C11] set_scope_attr.failure_changes_nothing */
__CPROVER_ensures(__CPROVER_return_value == -1 ==> BT(s)->scope == __CPROVER_old(BT(s)->scope))
/* PO[C11] set_scope_attr.accepted_is_stored: a scope id is a uint32; an inherited scope cannot be replaced by another one */
__CPROVER_ensures(__CPROVER_return_value == 0 ==> (BT(s)->scope == *(const int64_t *)value && BT(s)->scope >= 0 && BT(s)->scope <= (int64_t)UINT32_MAX && \
                   (__CPROVER_old(BT(s)->scope) < 0 || __CPROVER_old(BT(s)->scope) == BT(s)->scope)))
;

/* xcm.local_addr: "Writable only if supplied to xcm_connect_a()".  Variant guard: any state but initialized; variant accept:
 * state initialized, with strlen(3) routed through xb_strlen (harness/btcp/_unit.h), which records its result */
#define XB_LA_MAX (XCM_ADDR_MAX + 8)
static int btcp_set_local_addr(struct xcm_socket *s, const char *local_addr)
__CPROVER_requires(BT_ATTR_REQ(s) && xb_la_len <= XB_LA_MAX && __CPROVER_is_fresh(local_addr, XB_LA_MAX + 1) && local_addr[xb_la_len] == 0)
#ifdef XB_LA_GUARD
__CPROVER_requires(!BT_IS(s, initialized))
#else
__CPROVER_requires(BT_IS(s, initialized))
#endif
__CPROVER_requires(xv_j >= 0 && xv_j <= XB_LA_MAX && (xv_j <= XCM_ADDR_MAX ==> BT(s)->laddr[xv_j] == (char)xv_g_sb_j))
__CPROVER_assigns(xv_errno, __CPROVER_object_upto(BT(s)->laddr, XCM_ADDR_MAX + 1))
#ifdef XB_STRLEN_GHOST
__CPROVER_assigns(xb_strlen_ret)
#endif
__CPROVER_ensures(__CPROVER_return_value == 0 || (__CPROVER_return_value == -1 && (xv_errno == EACCES || xv_errno == EINVAL)))
/* PO[C11] btcp_set_local_addr.refused_after_creation */
__CPROVER_ensures(!BT_IS(s, initialized) ==> (__CPROVER_return_value == -1 && xv_errno == EACCES))
/* PO[C11] btcp_set_local_addr.failure_changes_nothing: (for the arbitrary index xv_j: every byte of the stored address) */
__CPROVER_ensures((__CPROVER_return_value == -1 && xv_j <= XCM_ADDR_MAX) ==> BT(s)->laddr[xv_j] == (char)xv_g_sb_j)
#ifdef XB_STRLEN_GHOST
/* PO[C11,C12] btcp_set_local_addr.too_long_refused */
__CPROVER_ensures((BT_IS(s, initialized) && xb_strlen_ret > XCM_ADDR_MAX) ==> (__CPROVER_return_value == -1 && xv_errno == EINVAL))
/* PO[C11] btcp_set_local_addr.accepted_is_stored: the whole string including its terminator */
__CPROVER_ensures(__CPROVER_return_value == 0 ==> (xb_strlen_ret <= XCM_ADDR_MAX && BT(s)->laddr[xb_strlen_ret] == 0 && ((size_t)xv_j <= xb_strlen_ret ==> BT(s)->laddr[xv_j] == local_addr[xv_j])))
#endif
;

/* ================================================================================================================ */
/* socket creation: btcp_connect / btcp_accept establish the invariant (C13, C11, C05, C08)                          */
/* ================================================================================================================ */
/* tconnect.c:378 / xcm_dns_cares.c:177: a handle, or NULL with errno > 0 (socket(2), timerfd, c-ares configuration ...) */
struct tconnect *tconnect_create(enum tconnect_algorithm algorithm, struct xpoll *xpoll, void *log_ref)
__CPROVER_requires((int)algorithm >= (int)tconnect_algorithm_single && (int)algorithm <= (int)tconnect_algorithm_happy_eyeballs && XB_EXT(xb_tc_creates))
__CPROVER_assigns(xv_errno, XP_REG_ROW, xb_tc_creates)
__CPROVER_ensures((__CPROVER_return_value == NULL ==> (xv_errno > 0 && xv_errno != EAGAIN)) && XP_FOREIGN)
__CPROVER_ensures(xb_tc_creates == __CPROVER_old(xb_tc_creates) + (__CPROVER_return_value != NULL ? 1 : 0))
;
struct xcm_dns_query *xcm_dns_resolve(const char *domain_name, struct xpoll *xpoll, double timeout, void *log_ref)
__CPROVER_requires(__CPROVER_r_ok(domain_name, 1) && XB_EXT(xb_q_creates))
__CPROVER_assigns(xv_errno, XP_REG_ROW, xb_q_completed, xb_q_creates)
__CPROVER_ensures((__CPROVER_return_value == NULL ==> (xv_errno > 0 && xv_errno != EAGAIN)) && XP_FOREIGN)
__CPROVER_ensures(xb_q_creates == __CPROVER_old(xb_q_creates) + (__CPROVER_return_value != NULL ? 1 : 0))
;
/* a connection socket as xcm_tp_socket_create + btcp_init + the attribute setters leave it */
#define BT_FRESH_CONN(s) ((s)->type == xcm_socket_type_conn && BT_IS(s, initialized) && BT(s)->fd == -1 && BT(s)->fd_reg_id == -1 && \
        BT(s)->conn.query == NULL && BT(s)->conn.tconnect == NULL && BT_BELL_OK(s) && B_OPTS_VALID(&BT(s)->conn.tcp_opts) && BT_LADDR_OK(s) && \
        (BT(s)->conn.tcp_connect_timeout == -1 || BT(s)->conn.tcp_connect_timeout >= 0) && \
        (int)BT(s)->conn.dns_algorithm >= (int)tconnect_algorithm_none && (int)BT(s)->conn.dns_algorithm <= (int)tconnect_algorithm_happy_eyeballs && \
        !xv_lower_dead && BT(s)->scope >= -1 && BT(s)->scope <= (int64_t)UINT32_MAX)
/* what deinit() does to a socket whose creation failed: registrations dropped, helper objects destroyed, descriptor closed */
#define BT_CREATE_ASSIGNS(s) BT_EST_FIELDS(s), xv_errno, BT_EST_GHOSTS, xb_t_bell_live, xb_t_bell_ringing

static int btcp_connect(struct xcm_socket *s, const char *remote_addr)
__CPROVER_requires(__CPROVER_is_fresh(s, BT_SIZE) && BT_PROTO(s) && BT_FRESH_CONN(s) && BT_GHOST_RANGE && __CPROVER_is_fresh(remote_addr, 8))
__CPROVER_requires(XB_CNT_OK(xb_tc_creates) && XB_CNT_OK(xb_q_creates))
__CPROVER_assigns(xb_tc_creates, xb_q_creates)
__CPROVER_assigns(BT_CREATE_ASSIGNS(s), BT(s)->conn.remote_port, BT(s)->conn.dns_algorithm, BT(s)->conn.tcp_connect_timeout, XB_CLOSE_REC, XB_FDT_ASSIGNS)
__CPROVER_ensures(__CPROVER_return_value == 0 || (__CPROVER_return_value == -1 && xv_errno > 0))
/* PO[C13,C06] btcp_connect.success_establishes_invariant: 0 => resolving, connecting or (already) ready, never a terminal state; every later operation starts from BT_CONN_OK */
__CPROVER_ensures(__CPROVER_return_value == 0 ==> (BT_CONN_OK(s) && (BT_IS(s, resolving) || BT_IS(s, connecting) || BT_IS(s, ready)) && BT_BELL_OK(s)))
/* PO[C13,C06] btcp_connect.immediate_failure_is_reported: a connection that is bad already is reported by connect itself, with the stored errno */
__CPROVER_ensures((__CPROVER_return_value == -1 && BT_IS(s, bad)) ==> xv_errno == BRSN(s))
/* PO[C13] btcp_connect.defaults: algorithm "single" and a 3 s connect timeout unless configured */
__CPROVER_ensures(__CPROVER_return_value == 0 ==> ((int)BT(s)->conn.dns_algorithm >= (int)tconnect_algorithm_single && BT(s)->conn.tcp_connect_timeout >= 0 && \
                   (__CPROVER_old(BT(s)->conn.tcp_connect_timeout) >= 0 ==> BT(s)->conn.tcp_connect_timeout == __CPROVER_old(BT(s)->conn.tcp_connect_timeout))))
/* PO[C08] btcp_connect.failure_releases_everything: -1 => the bell registration is dropped, every attempt object and resolver query made is destroyed exactly once, no descriptor kept */
__CPROVER_ensures(__CPROVER_return_value == -1 ==> ((BT_MY_BELL(s) ==> !xb_t_bell_live) && BT(s)->fd == -1 && xb_close_calls <= __CPROVER_old(xb_close_calls) + 1 && \
                   xb_tc_destroys - __CPROVER_old(xb_tc_destroys) == xb_tc_creates - __CPROVER_old(xb_tc_creates) && \
                   xb_q_destroys - __CPROVER_old(xb_q_destroys) == xb_q_creates - __CPROVER_old(xb_q_creates)))
/* PO[C08] btcp_connect.success_keeps_what_is_needed: 0 => nothing is destroyed that is still referenced */
__CPROVER_ensures(__CPROVER_return_value == 0 ==> (xb_close_calls == __CPROVER_old(xb_close_calls) && \
                   xb_tc_creates - xb_tc_destroys == __CPROVER_old(xb_tc_creates) - __CPROVER_old(xb_tc_destroys) + (BT(s)->conn.tconnect != NULL ? 1 : 0) && \
                   xb_q_creates - xb_q_destroys == __CPROVER_old(xb_q_creates) - __CPROVER_old(xb_q_destroys) + (BT(s)->conn.query != NULL ? 1 : 0)))
;

/* btcp_accept: the descriptor table is in the frame */
#define BT_FD_SAME(i) (!xb_fdt.e[i].open == !__CPROVER_old(xb_fdt.e[i].open) && (xb_fdt.e[i].open ==> !xb_fdt.e[i].nonblock == !__CPROVER_old(xb_fdt.e[i].nonblock)))
#define XB_FK_OK (xb_fk >= 0 && xb_fk < XB_NFD)
static int btcp_accept(struct xcm_socket *conn_s, struct xcm_socket *server_s)
__CPROVER_requires(__CPROVER_is_fresh(conn_s, BT_SIZE) && BT_PROTO(conn_s) && BT_FRESH_CONN(conn_s) && BT_GHOST_RANGE && XB_FK_OK)
__CPROVER_requires(__CPROVER_is_fresh(server_s, BT_SIZE) && BT_PROTO(server_s) && server_s->type == xcm_socket_type_server && XB_FD_OK(BT(server_s)->fd))
/* xpoll registrations are dropped before their descriptor is closed (deinit), so a live registration names an open descriptor */
__CPROVER_requires(xb_t_reg_live ==> XB_FD_OURS(xb_t_reg_fd))
__CPROVER_assigns(BST(conn_s), BT(conn_s)->fd, BT(conn_s)->fd_reg_id, xv_errno, xv_lower_dead, XP_REG_ROW, B_SO_ASSIGNS, xb_eff_errno, xb_eff_calls, \
                  xb_tc_destroys, xb_q_destroys, xb_t_bell_live, xb_t_bell_ringing, XB_ACCEPT_REC, XB_CLOSE_REC, XB_FDT_ASSIGNS)
__CPROVER_ensures(__CPROVER_return_value == 0 || (__CPROVER_return_value == -1 && xv_errno > 0))
/* PO[C11] btcp_accept.connect_only_attributes_refused: xcm.local_addr, dns.algorithm, tcp.connect_timeout on xcm_accept_a => EACCES, nothing accepted */
__CPROVER_ensures((BT(conn_s)->laddr[0] != 0 || BT(conn_s)->conn.dns_algorithm != tconnect_algorithm_none || BT(conn_s)->conn.tcp_connect_timeout >= 0) ==> \
                  (__CPROVER_return_value == -1 && xv_errno == EACCES && xb_accept_calls == __CPROVER_old(xb_accept_calls)))
/* PO[C05] btcp_accept.one_nonblocking_accept: at most one accept4 on the server's descriptor; the new descriptor is O_NONBLOCK */
__CPROVER_ensures(xb_accept_calls <= __CPROVER_old(xb_accept_calls) + 1 && (xb_accept_calls != __CPROVER_old(xb_accept_calls) ==> xb_accept_fd == BT(server_s)->fd))
/* PO[C11,C06,C08] btcp_accept.success_establishes_invariant: 0 => ready on the accepted descriptor, registered, the socket's TCP options in force on it */
__CPROVER_ensures(__CPROVER_return_value == 0 ==> (BT_CONN_OK(conn_s) && BT_IS(conn_s, ready) && BT(conn_s)->fd == xb_accept_ret && xb_open_cnt == __CPROVER_old(xb_open_cnt) + 1 && \
                   B_OPTS_INFORCE(BT(conn_s)->fd, &BT(conn_s)->conn.tcp_opts) && (BT_MY_REG(conn_s) ==> xb_t_reg_event == 0)))
/* PO[C08] btcp_accept.failure_leaks_nothing: -1 => no descriptor more than before (an accepted one is closed again), the bell registration dropped */
__CPROVER_ensures(__CPROVER_return_value == -1 ==> (xb_open_cnt == __CPROVER_old(xb_open_cnt) && BT_FD_SAME(xb_fk) && BT(conn_s)->fd == -1 && \
                   (xb_t_bell == BT(conn_s)->conn.bell_reg_id ==> !xb_t_bell_live)))
/* PO[C08] btcp_accept.other_descriptors_untouched */
__CPROVER_ensures((__CPROVER_return_value == 0 && xb_fk != BT(conn_s)->fd) ==> BT_FD_SAME(xb_fk))
;

#include "contracts/end.h"
#endif
