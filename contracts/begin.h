/* contracts/begin.h -- included at the top of every contracts file.
 * Unless XV_FULL_CHECKS is defined (thorough tier), CBMC's generated pointer/overflow/bounds checks are switched off
 * INSIDE THE TEXT OF CONTRACT CLAUSES (not in the code under proof): a clause such as TX_SHAPE dereferences the same
 * few pointers dozens of times and each dereference costs six obligations, which is where the solver time went
 * (buffer_hdr: 380 s with, 6 s without).  XV_CONTRACT_BEGIN/END nest via push/pop. */
#ifndef XV_FULL_CHECKS
#pragma CPROVER check push
#pragma CPROVER check disable "pointer"
#pragma CPROVER check disable "pointer-primitive"
#pragma CPROVER check disable "pointer-overflow"
#pragma CPROVER check disable "bounds"
#pragma CPROVER check disable "signed-overflow"
#pragma CPROVER check disable "conversion"
#pragma CPROVER check disable "undefined-shift"
#endif
