/* contracts/ux.h -- libxcm/tp/ux/xcm_tp_ux.c: UX and UXF transports over AF_UNIX SOCK_SEQPACKET.
 * C01/C03/C17 (ux_send, ux_receive: one send(2)/recv(2) per call, honest counters), C08 (descriptor, xpoll registration
 * and socket-file lifecycle of create_socket/ux_connect/ux_server/ux_accept/ux_close/ux_cleanup/deinit), C05 (descriptors
 * are non-blocking; xv_blocked is in no assigns clause).
 * The kernel is env/fd.h (TRUSTED).  xpoll_*, xcm_addr_parse_ux/uxf are other modules: contracts, ASSUMED here.
 * Attached to the REAL static functions by redeclaration after the TU has been #included.
 */
#ifndef XV_UX_H
#define XV_UX_H
#include "contracts/begin.h"

#define XU(s) ((struct ux_socket *)((uint8_t *)(s) + sizeof(struct xcm_socket)))
#define UX_SIZE (sizeof(struct xcm_socket) + sizeof(struct ux_socket))
#define UCN(s, c) (XU(s)->cnts[xcm_tp_cnt_##c])
#define UX_U8(p) ((const uint8_t *)(p))

/* the largest UX message: what the property quantifies over (1..65535) and what ux_max_msg() reports (job ux.max_msg) */
#define UX_MSG_MAX 65535
/* receive buffers above this capacity are not explored (is_fresh needs a bound; solver time grows with it: 2^17 6 s, 2^24 216 s).
 * 2^17 > 2 * UX_MSG_MAX covers capacity below, at and above every legal message size, and above the maximum itself */
#define UX_CAP_MAX (1UL << 17)

/* ---- representation invariants ------------------------------------------------------------------------------- */
/* a live socket: its descriptor is one the library has open, O_NONBLOCK, SOCK_SEQPACKET (C05, C08) */
#define UX_FD_OK(s) (XU(s)->fd >= 0 && XU(s)->fd < XV_NFD && xv_fdt.e[XU(s)->fd].open && xv_fdt.e[XU(s)->fd].nonblock && \
                     xv_fdt.e[XU(s)->fd].seqpacket && xv_open_cnt >= 1)
/* counters: < 2^61 on entry of a public op (see contracts/framing.h) */
#define UX_C1(s, c, lim) (UCN(s, c) >= 0 && UCN(s, c) < (lim))
#define UX_CNT_LIM(s, lim) (UX_C1(s, to_app_bytes, lim) && UX_C1(s, from_app_bytes, lim) && UX_C1(s, to_lower_bytes, lim) && UX_C1(s, from_lower_bytes, lim) && \
                            UX_C1(s, to_app_msgs, lim) && UX_C1(s, from_app_msgs, lim) && UX_C1(s, to_lower_msgs, lim) && UX_C1(s, from_lower_msgs, lim))
#define UX_CNT_RANGE(s) UX_CNT_LIM(s, 1L << 61)
#define UX_CNT_RANGE_OUT(s) UX_CNT_LIM(s, (1L << 61) + (1L << 32))
/* C17: from_app >= to_lower and from_lower >= to_app at all times.  UX buffers nothing, so what was accepted has been
 * handed down (equalities), and every message taken from the kernel was delivered (possibly truncated) */
#define UX_CNT_INV(s) (UCN(s, from_app_msgs) == UCN(s, to_lower_msgs) && UCN(s, from_app_bytes) == UCN(s, to_lower_bytes) && \
                       UCN(s, from_lower_msgs) == UCN(s, to_app_msgs) && UCN(s, from_lower_bytes) >= UCN(s, to_app_bytes))
#define UX_SAME(s, c) (UCN(s, c) == __CPROVER_old(UCN(s, c)))
#define UX_GE(s, c) (UCN(s, c) >= __CPROVER_old(UCN(s, c)))
#define UX_CNT_SAME(s) (UX_SAME(s, to_app_bytes) && UX_SAME(s, from_app_bytes) && UX_SAME(s, to_lower_bytes) && UX_SAME(s, from_lower_bytes) && \
                        UX_SAME(s, to_app_msgs) && UX_SAME(s, from_app_msgs) && UX_SAME(s, to_lower_msgs) && UX_SAME(s, from_lower_msgs))
#define UX_CNT_MONOTONE(s) (UX_GE(s, to_app_bytes) && UX_GE(s, from_app_bytes) && UX_GE(s, to_lower_bytes) && UX_GE(s, from_lower_bytes) && \
                            UX_GE(s, to_app_msgs) && UX_GE(s, from_app_msgs) && UX_GE(s, to_lower_msgs) && UX_GE(s, from_lower_msgs))

/* ---- ux_send --------------------------------------------------------------------------------------------------- */
#define UX_LEN_OK(len) ((len) >= 1 && (len) <= UX_MSG_MAX)
#define UX_BUFSZ(len) (UX_LEN_OK(len) ? (len) : 1)
static int ux_send(struct xcm_socket *__restrict s, const void *__restrict buf, size_t len)
__CPROVER_requires(__CPROVER_is_fresh(s, UX_SIZE))
__CPROVER_requires(UX_CNT_RANGE(s) && UX_CNT_INV(s) && UX_FD_OK(s) && XV_FD_GHOST_RANGE)
__CPROVER_requires(__CPROVER_is_fresh(buf, UX_BUFSZ(len)))
/* the frame: only errno, the record of send(2) and the two send-side counter pairs; NOT to_app/from_lower, the socket's
 * descriptor, the descriptor table, xv_blocked (C05), the message buffer */
__CPROVER_assigns(xv_errno, XV_SEND_ASSIGNS, UCN(s, from_app_bytes), UCN(s, from_app_msgs), UCN(s, to_lower_bytes), UCN(s, to_lower_msgs))
__CPROVER_ensures(__CPROVER_return_value == 0 || (__CPROVER_return_value == -1 && xv_errno > 0))
__CPROVER_ensures(UX_CNT_RANGE_OUT(s) && UX_CNT_INV(s))
/* PO[C03] ux_send.size_checked_first: 0 -> EINVAL, more than the maximum -> EMSGSIZE, before anything else happens (no send(2)) */
__CPROVER_ensures(len == 0 ==> (__CPROVER_return_value == -1 && xv_errno == EINVAL && xv_send_calls == __CPROVER_old(xv_send_calls)))
/* PO[C03] ux_send.oversized_refused */
__CPROVER_ensures(len > UX_MSG_MAX ==> (__CPROVER_return_value == -1 && xv_errno == EMSGSIZE && xv_send_calls == __CPROVER_old(xv_send_calls)))
/* PO[C01,C03] ux_send.one_send: a legal message goes down in exactly ONE send(2) of exactly (buf, len), as one record (MSG_EOR), on the socket's descriptor */
__CPROVER_ensures(UX_LEN_OK(len) ==> (xv_send_calls == __CPROVER_old(xv_send_calls) + 1 && xv_send_fd == XU(s)->fd && xv_send_buf == buf && \
                                      xv_send_len == len && xv_send_flags == (MSG_EOR | MSG_NOSIGNAL)))
/* PO[C01] ux_send.bytes: what the kernel saw at offset xv_j is the application's byte */
__CPROVER_ensures((UX_LEN_OK(len) && xv_j >= 0 && (size_t)xv_j < len) ==> xv_send_c == UX_U8(buf)[xv_j])
/* PO[C01,C03] ux_send.rv: success <=> the kernel took the message (all of it); failure <=> the kernel refused it, with the kernel's errno */
__CPROVER_ensures(UX_LEN_OK(len) ==> ((__CPROVER_return_value == 0 && xv_send_ret == (long)len) || \
                                      (__CPROVER_return_value == -1 && xv_send_ret == -1 && xv_errno == xv_send_errno)))
/* PO[C03,C17] ux_send.fail_no_trace: -1 (EINVAL, EMSGSIZE, EAGAIN, anything) leaves all 8 counters as they were */
__CPROVER_ensures(__CPROVER_return_value == -1 ==> UX_CNT_SAME(s))
/* PO[C17] ux_send.cnt: success counts the message once, with its length, as accepted and as handed down; nothing else */
__CPROVER_ensures(__CPROVER_return_value == 0 ==> ( \
        UCN(s, from_app_msgs) == __CPROVER_old(UCN(s, from_app_msgs)) + 1 && UCN(s, from_app_bytes) == __CPROVER_old(UCN(s, from_app_bytes)) + (int64_t)len && \
        UCN(s, to_lower_msgs) == __CPROVER_old(UCN(s, to_lower_msgs)) + 1 && UCN(s, to_lower_bytes) == __CPROVER_old(UCN(s, to_lower_bytes)) + (int64_t)len && \
        UX_SAME(s, to_app_msgs) && UX_SAME(s, to_app_bytes) && UX_SAME(s, from_lower_msgs) && UX_SAME(s, from_lower_bytes)))
/* PO[C17] ux_send.monotone */
__CPROVER_ensures(UX_CNT_MONOTONE(s))
;

/* ---- ux_receive ------------------------------------------------------------------------------------------------ */
#define UX_MIN(a, b) ((a) < (b) ? (a) : (b))
#define UX_RCV_LEN ((size_t)xv_recv_ret)      /* length of the record the kernel dequeued (recv(MSG_TRUNC) > 0) */
static int ux_receive(struct xcm_socket *__restrict s, void *__restrict buf, size_t capacity)
__CPROVER_requires(__CPROVER_is_fresh(s, UX_SIZE))
__CPROVER_requires(UX_CNT_RANGE(s) && UX_CNT_INV(s) && UX_FD_OK(s) && XV_FD_GHOST_RANGE)
__CPROVER_requires(capacity <= UX_CAP_MAX && __CPROVER_is_fresh(buf, capacity == 0 ? 1 : capacity))
__CPROVER_assigns(xv_errno, XV_RECV_ASSIGNS, UCN(s, from_lower_bytes), UCN(s, from_lower_msgs), UCN(s, to_app_bytes), UCN(s, to_app_msgs))
__CPROVER_assigns(capacity > 0: __CPROVER_object_upto(buf, capacity))
__CPROVER_ensures(__CPROVER_return_value >= -1 && (__CPROVER_return_value == -1 ==> xv_errno > 0))
__CPROVER_ensures(UX_CNT_RANGE_OUT(s))
/* PO[C01] ux_receive.one_recv: exactly ONE recv(2) on the socket's descriptor into exactly (buf, capacity), asking for the real record length (MSG_TRUNC) */
__CPROVER_ensures(xv_recv_calls == __CPROVER_old(xv_recv_calls) + 1 && xv_recv_fd == XU(s)->fd && xv_recv_buf == buf && xv_recv_len == capacity && \
                  xv_recv_flags == MSG_TRUNC)
/* PO[C01] ux_receive.rv: a record of length L is reported as min(L, capacity); EOF as 0; a failure as -1 with the kernel's errno */
__CPROVER_ensures((xv_recv_ret > 0 ==> (size_t)__CPROVER_return_value == UX_MIN(UX_RCV_LEN, capacity)) && \
                  (xv_recv_ret == 0 ==> __CPROVER_return_value == 0) && \
                  (xv_recv_ret < 0 ==> (__CPROVER_return_value == -1 && xv_errno == xv_recv_errno)))
/* PO[C01] ux_receive.never_more_than_capacity */
__CPROVER_ensures(__CPROVER_return_value > 0 ==> ((size_t)__CPROVER_return_value <= capacity && (size_t)__CPROVER_return_value == xv_recv_copied))
/* 0 is reported only when recv(2) returned 0 -- or when the caller offered no room at all (capacity 0: "the leading 0 bytes"
 * of the record; the API cannot express this case differently, see the report) */
/* PO[C01] ux_receive.eof_honest */
__CPROVER_ensures(__CPROVER_return_value == 0 ==> (xv_recv_ret == 0 || capacity == 0))
/* PO[C01] ux_receive.bytes: the bytes delivered are the bytes the kernel stored; ux_receive touches nothing else of the buffer */
__CPROVER_ensures((__CPROVER_return_value > 0 && xv_j >= 0 && xv_j < (long)__CPROVER_return_value) ==> UX_U8(buf)[xv_j] == xv_recv_c)
/* PO[C17] ux_receive.cnt_from_lower: a dequeued record counts once, with its FULL length, as taken from the lower layer */
__CPROVER_ensures(xv_recv_ret > 0 \
        ? (UCN(s, from_lower_msgs) == __CPROVER_old(UCN(s, from_lower_msgs)) + 1 && UCN(s, from_lower_bytes) == __CPROVER_old(UCN(s, from_lower_bytes)) + xv_recv_ret) \
        : (UX_SAME(s, from_lower_msgs) && UX_SAME(s, from_lower_bytes)))
/* PO[C17] ux_receive.cnt_to_app: a delivery counts once, with the bytes REALLY delivered (the returned value) */
__CPROVER_ensures(xv_recv_ret > 0 \
        ? (UCN(s, to_app_msgs) == __CPROVER_old(UCN(s, to_app_msgs)) + 1 && UCN(s, to_app_bytes) == __CPROVER_old(UCN(s, to_app_bytes)) + (int64_t)__CPROVER_return_value) \
        : (UX_SAME(s, to_app_msgs) && UX_SAME(s, to_app_bytes)))
/* PO[C17] ux_receive.nothing_counted_on_failure: EOF and failures (EAGAIN ...) count nothing */
__CPROVER_ensures(xv_recv_ret <= 0 ==> UX_CNT_SAME(s))
/* PO[C17] ux_receive.monotone: no counter decreases, the send-side counters are untouched, from_lower >= to_app stays */
__CPROVER_ensures(UX_CNT_MONOTONE(s) && UX_SAME(s, from_app_msgs) && UX_SAME(s, from_app_bytes) && UX_SAME(s, to_lower_msgs) && UX_SAME(s, to_lower_bytes) && \
                  UX_CNT_INV(s))
;

/* ================================================================================================================ */
/* C08: lifecycle                                                                                                   */
/* ================================================================================================================ */

/* ---- other modules, ASSUMED here (to be enforced in their own units) --------------------------------------------- */
int xv_regs;                 /* ghost: number of live xpoll descriptor registrations */
#define XV_REGS_OK (xv_regs >= 0 && xv_regs < XV_CALLS_MAX)
/* xpoll.c: registers an open descriptor, always succeeds (aborts otherwise), returns an id >= 0; errno untouched */
int xpoll_fd_reg_add(struct xpoll *xpoll, int fd, int event)
__CPROVER_requires(XV_FD_OURS(fd) && XV_REGS_OK)
__CPROVER_assigns(xv_regs)
__CPROVER_ensures(__CPROVER_return_value >= 0 && xv_regs == __CPROVER_old(xv_regs) + 1)
;
/* xpoll.c: removes registration reg_id if reg_id >= 0 (the descriptor may be closed already: EBADF is tolerated); errno preserved */
void xpoll_fd_reg_del_if_valid(struct xpoll *xpoll, int reg_id)
__CPROVER_requires(reg_id < 0 || xv_regs > 0)
__CPROVER_assigns(xv_regs)
__CPROVER_ensures(xv_regs == __CPROVER_old(xv_regs) - (reg_id >= 0 ? 1 : 0))
;
/* xcm_addr.c: on success the name is a non-empty C string of at most UX_NAME_MAX characters (over-approximation: bytes
 * between the first and the reported terminator are arbitrary, possibly NUL) */
size_t xv_ux_name_len;
#define UX_PARSE_CONTRACT(name) \
__CPROVER_requires(capacity == UX_NAME_MAX + 1 && __CPROVER_w_ok(name, capacity)) \
__CPROVER_assigns(xv_errno, xv_ux_name_len, __CPROVER_object_upto(name, capacity)) \
__CPROVER_ensures(__CPROVER_return_value == 0 || (__CPROVER_return_value == -1 && (xv_errno == EINVAL || xv_errno == ENAMETOOLONG))) \
__CPROVER_ensures(__CPROVER_return_value == 0 ==> (xv_ux_name_len >= 1 && xv_ux_name_len <= UX_NAME_MAX && name[xv_ux_name_len] == 0 && name[0] != 0))
int xcm_addr_parse_ux(const char *ux_addr_s, char *ux_name, size_t capacity)
UX_PARSE_CONTRACT(ux_name)
;
int xcm_addr_parse_uxf(const char *uxf_addr_s, char *uxf_name, size_t capacity)
UX_PARSE_CONTRACT(uxf_name)
;

/* every ux harness calls this after xv_ghost_havoc(); xv_fd_havoc(); */
static inline void xv_ux_havoc(void) { xv_regs = nondet_int(); xv_ux_name_len = nondet_size_t(); }

/* ---- socket states ----------------------------------------------------------------------------------------------- */
/* s->proto is a registered protocol whose ops table is the UX or the UXF one.  (The proto object is made by is_fresh: a
 * pointer read from a fresh object and merely ASSUMED equal to the address of a global is not dereferenceable for CBMC.) */
#define UX_IS_UX(s) ((s)->proto->ops == &ux_ops)
#define UX_IS_UXF(s) ((s)->proto->ops == &uxf_ops)
#define UX_PROTO_FRESH(s) __CPROVER_is_fresh((s)->proto, sizeof(struct xcm_tp_proto))
#define UX_PROTO(s) (UX_IS_UX(s) || UX_IS_UXF(s))
/* after xcm_tp_socket_create (calloc) + ux_init */
#define UX_INIT(s) (XU(s)->fd == -1 && XU(s)->fd_reg_id == -1 && XU(s)->path[0] == 0)
#define XV_FK_OK (xv_fk >= 0 && xv_fk < XV_NFD)
#define UX_GHOSTS_OK (XV_FD_GHOST_RANGE && XV_REGS_OK && XV_FK_OK && xv_j >= -1 && xv_j <= UX_NAME_MAX + 1)
/* us->path names the socket file the last successful bind() created: same length, same bytes (for the arbitrary index xv_j) */
#define UX_PATH_IS_BOUND(s) (xv_bound_len >= 1 && xv_bound_len <= UX_NAME_MAX && XU(s)->path[xv_bound_len] == 0 && XU(s)->path[0] != 0 && \
                             ((xv_j >= 0 && (size_t)xv_j <= xv_bound_len) ==> XU(s)->path[xv_j] == xv_bound_c))
/* what was unlinked is that file: pointer, and -- up to and including its terminator -- every byte */
#define UX_UNLINKED_BOUND(s) (xv_unlink_arg == XU(s)->path && xv_unlink_len >= 1 && xv_unlink_len <= xv_bound_len && \
                              ((xv_j >= 0 && (size_t)xv_j <= xv_unlink_len) ==> xv_unlink_c == xv_bound_c))
/* any state in which close/cleanup may be called: never connected, or live; a UXF server additionally owns a socket file */
#define UX_CLOSABLE(s) ((XU(s)->fd == -1 || UX_FD_OK(s)) && (XU(s)->fd_reg_id < 0 || xv_regs > 0) && \
                        (XU(s)->path[0] == 0 || UX_PATH_IS_BOUND(s)))
/* no descriptor other than ... changed state ("the library never closes or alters a descriptor it did not create") */
#define XV_FK_SAME (xv_fdt.e[xv_fk].open == __CPROVER_old(xv_fdt.e[xv_fk].open) && \
                    (xv_fdt.e[xv_fk].open ==> (xv_fdt.e[xv_fk].nonblock == __CPROVER_old(xv_fdt.e[xv_fk].nonblock) && \
                                               xv_fdt.e[xv_fk].seqpacket == __CPROVER_old(xv_fdt.e[xv_fk].seqpacket))))
#define XV_TABLE_SAME (XV_FK_OK ==> XV_FK_SAME)
#define XV_TABLE_SAME_EXCEPT(fd) ((XV_FK_OK && xv_fk != (fd)) ==> XV_FK_SAME)

/* ---- ux_init ----------------------------------------------------------------------------------------------------- */
static int ux_init(struct xcm_socket *s, struct xcm_socket *parent)
__CPROVER_requires(__CPROVER_is_fresh(s, UX_SIZE))
__CPROVER_assigns(XU(s)->fd, XU(s)->fd_reg_id)
/* PO[C08] ux_init.no_resources: initialisation acquires nothing and marks descriptor and registration as absent */
__CPROVER_ensures(__CPROVER_return_value == 0 && XU(s)->fd == -1 && XU(s)->fd_reg_id == -1)
;

/* ---- deinit / ux_close / ux_cleanup -------------------------------------------------------------------------------- */
#define UX_DEINIT_REQUIRES(s) (UX_GHOSTS_OK && UX_CLOSABLE(s))
#define UX_DEINIT_ASSIGNS_LOCAL xv_errno, XV_CLOSE_ASSIGNS
#define UX_DEINIT_ASSIGNS_OWNER xv_regs, XV_UNLINK_ASSIGNS
/* the descriptor (if any) is closed, once, and nothing else in the table changes; errno survives */
#define UX_DEINIT_FD(s) ((XU(s)->fd >= 0 \
        ? (xv_open_cnt == __CPROVER_old(xv_open_cnt) - 1 && !xv_fdt.e[XU(s)->fd].open && xv_close_calls == __CPROVER_old(xv_close_calls) + 1 && xv_close_fd == XU(s)->fd) \
        : (xv_open_cnt == __CPROVER_old(xv_open_cnt) && xv_close_calls == __CPROVER_old(xv_close_calls))) && \
        XV_TABLE_SAME_EXCEPT(XU(s)->fd) && xv_errno == __CPROVER_old(xv_errno))
#define UX_DEINIT_OWNER(s, owner) ( \
        xv_regs == __CPROVER_old(xv_regs) - (((owner) && XU(s)->fd_reg_id >= 0) ? 1 : 0) && \
        xv_unlink_calls == __CPROVER_old(xv_unlink_calls) + (((owner) && XU(s)->path[0] != 0) ? 1 : 0) && \
        (((owner) && XU(s)->path[0] != 0) ==> UX_UNLINKED_BOUND(s)))

static void deinit(struct xcm_socket *s, bool owner)
__CPROVER_requires(__CPROVER_is_fresh(s, UX_SIZE))
__CPROVER_requires(UX_DEINIT_REQUIRES(s))
__CPROVER_assigns(UX_DEINIT_ASSIGNS_LOCAL, UX_DEINIT_ASSIGNS_OWNER)
/* PO[C08] deinit.closes_own_fd_only */
__CPROVER_ensures(UX_DEINIT_FD(s))
/* PO[C08] deinit.owner_releases_registration_and_file: the owner drops the xpoll registration and unlinks exactly the file it bound */
__CPROVER_ensures(UX_DEINIT_OWNER(s, owner))
/* PO[C08] deinit.cleanup_is_process_local: owner == false: no xpoll change, no unlink */
__CPROVER_ensures(!owner ==> (xv_regs == __CPROVER_old(xv_regs) && xv_unlink_calls == __CPROVER_old(xv_unlink_calls)))
;

static void ux_close(struct xcm_socket *s)
__CPROVER_requires(s != NULL ==> __CPROVER_is_fresh(s, UX_SIZE))
__CPROVER_requires(UX_GHOSTS_OK && (s != NULL ==> UX_CLOSABLE(s)))
__CPROVER_assigns(UX_DEINIT_ASSIGNS_LOCAL, UX_DEINIT_ASSIGNS_OWNER)
/* PO[C08] ux_close.releases_fd: back to the descriptor count before connect/server/accept; only the socket's own descriptor is closed */
__CPROVER_ensures(s != NULL ==> UX_DEINIT_FD(s))
/* PO[C08] ux_close.releases_registration_and_file */
__CPROVER_ensures(s != NULL ==> UX_DEINIT_OWNER(s, 1))
/* PO[C08] ux_close.null_is_noop */
__CPROVER_ensures(s == NULL ==> (xv_open_cnt == __CPROVER_old(xv_open_cnt) && xv_regs == __CPROVER_old(xv_regs) && xv_close_calls == __CPROVER_old(xv_close_calls) && \
                                 xv_unlink_calls == __CPROVER_old(xv_unlink_calls) && XV_TABLE_SAME))
;

/* xcm_cleanup in a forked child: the frame has NO xpoll registration counter, NO unlink record, no send record */
static void ux_cleanup(struct xcm_socket *s)
__CPROVER_requires(s != NULL ==> __CPROVER_is_fresh(s, UX_SIZE))
__CPROVER_requires(UX_GHOSTS_OK && (s != NULL ==> UX_CLOSABLE(s)))
__CPROVER_assigns(UX_DEINIT_ASSIGNS_LOCAL)
/* PO[C08] ux_cleanup.releases_fd: the child's copy of the descriptor is closed, nothing else */
__CPROVER_ensures(s != NULL ==> UX_DEINIT_FD(s))
/* PO[C08] ux_cleanup.process_local_only: the owner's registration and socket file are left alone */
__CPROVER_ensures(xv_regs == __CPROVER_old(xv_regs) && xv_unlink_calls == __CPROVER_old(xv_unlink_calls))
__CPROVER_ensures(s == NULL ==> (xv_open_cnt == __CPROVER_old(xv_open_cnt) && xv_close_calls == __CPROVER_old(xv_close_calls) && XV_TABLE_SAME))
;

/* ---- create_socket ------------------------------------------------------------------------------------------------ */
#define UX_NEW_FD_ASSIGNS(s) xv_errno, XV_SOCKET_ASSIGNS, XV_SOCKOPT_ASSIGNS, xv_regs, XU(s)->fd, XU(s)->fd_reg_id
/* exactly one more descriptor and one more registration, both recorded in the socket; non-blocking SEQPACKET */
#define UX_ONE_MORE(s) (xv_open_cnt == __CPROVER_old(xv_open_cnt) + 1 && xv_regs == __CPROVER_old(xv_regs) + 1 && UX_FD_OK(s) && XU(s)->fd_reg_id >= 0 && \
                        (xv_fk == XU(s)->fd ==> !__CPROVER_old(xv_fdt.e[xv_fk].open)) && XV_TABLE_SAME_EXCEPT(XU(s)->fd))
/* nothing more than before: same number of descriptors, same table, same number of registrations */
#define UX_NOTHING_MORE (xv_open_cnt == __CPROVER_old(xv_open_cnt) && xv_regs == __CPROVER_old(xv_regs) && XV_TABLE_SAME)
static int create_socket(struct xcm_socket *s)
__CPROVER_requires(__CPROVER_is_fresh(s, UX_SIZE))
__CPROVER_requires(UX_GHOSTS_OK && UX_INIT(s))
__CPROVER_assigns(UX_NEW_FD_ASSIGNS(s), XV_CLOSE_ASSIGNS)
__CPROVER_ensures(__CPROVER_return_value == 0 || (__CPROVER_return_value == -1 && xv_errno > 0))
__CPROVER_ensures(xv_close_calls >= __CPROVER_old(xv_close_calls) && xv_close_calls <= __CPROVER_old(xv_close_calls) + 1 && \
                  (__CPROVER_return_value == 0 ==> xv_close_calls == __CPROVER_old(xv_close_calls)))
/* PO[C08] create_socket.fail_no_leak: whichever step fails (socket, SO_PASSCRED), no descriptor and no registration is left behind */
__CPROVER_ensures(__CPROVER_return_value == -1 ==> (UX_NOTHING_MORE && XU(s)->fd == -1 && XU(s)->fd_reg_id == -1))
/* PO[C08] create_socket.success_one_fd */
__CPROVER_ensures(__CPROVER_return_value == 0 ==> (UX_ONE_MORE(s) && xv_sockopt_fd == XU(s)->fd && xv_sockopt_level == SOL_SOCKET && xv_sockopt_name == SO_PASSCRED))
;

/* ---- ux_connect ---------------------------------------------------------------------------------------------------- */
static int ux_connect(struct xcm_socket *s, const char *remote_addr)
__CPROVER_requires(__CPROVER_is_fresh(s, UX_SIZE) && __CPROVER_is_fresh(remote_addr, 1))
__CPROVER_requires(UX_PROTO_FRESH(s))
__CPROVER_requires(UX_GHOSTS_OK && UX_INIT(s) && UX_PROTO(s))
__CPROVER_assigns(UX_NEW_FD_ASSIGNS(s), XV_CLOSE_ASSIGNS, XV_UNLINK_ASSIGNS, XV_CONNECT_ASSIGNS, xv_ux_name_len)
__CPROVER_ensures(__CPROVER_return_value == 0 || (__CPROVER_return_value == -1 && xv_errno > 0))
/* PO[C08] ux_connect.fail_no_leak: a failed connect (bad address, socket, SO_PASSCRED, connect refused ...) leaves descriptors and registrations as they were */
__CPROVER_ensures(__CPROVER_return_value == -1 ==> UX_NOTHING_MORE)
/* PO[C08] ux_connect.success_one_fd: success holds exactly one more of each, and it is the descriptor connect(2) succeeded on */
__CPROVER_ensures(__CPROVER_return_value == 0 ==> (UX_ONE_MORE(s) && xv_connect_ok_calls == __CPROVER_old(xv_connect_ok_calls) + 1 && xv_connect_fd == XU(s)->fd))
/* PO[C08] ux_connect.never_unlinks: a client owns no socket file */
__CPROVER_ensures(xv_unlink_calls == __CPROVER_old(xv_unlink_calls) && XU(s)->path[0] == 0)
/* a missing server is reported as ECONNREFUSED */
__CPROVER_ensures((__CPROVER_return_value == -1 && xv_connect_calls != __CPROVER_old(xv_connect_calls)) ==> xv_errno != ENOENT)
;

/* ---- ux_server ----------------------------------------------------------------------------------------------------- */
#define UX_BOUND_HERE (xv_bind_ok_calls != __CPROVER_old(xv_bind_ok_calls))
static int ux_server(struct xcm_socket *s, const char *local_addr)
__CPROVER_requires(__CPROVER_is_fresh(s, UX_SIZE) && __CPROVER_is_fresh(local_addr, 1))
__CPROVER_requires(UX_PROTO_FRESH(s))
__CPROVER_requires(UX_GHOSTS_OK && UX_INIT(s) && UX_PROTO(s))
__CPROVER_assigns(UX_NEW_FD_ASSIGNS(s), XV_CLOSE_ASSIGNS, XV_UNLINK_ASSIGNS, XV_BIND_ASSIGNS, XV_LISTEN_ASSIGNS, xv_ux_name_len)
__CPROVER_assigns(__CPROVER_object_upto(XU(s)->path, UX_NAME_MAX + 1))
__CPROVER_ensures(__CPROVER_return_value == 0 || (__CPROVER_return_value == -1 && xv_errno > 0))
/* PO[C08] ux_server.fail_no_leak: a failed server (socket, SO_PASSCRED, bad address, bind, listen) leaves descriptors and registrations as they were */
__CPROVER_ensures(__CPROVER_return_value == -1 ==> UX_NOTHING_MORE)
/* PO[C08] ux_server.fail_unlink_iff_bound: the socket file is removed iff this call created it (UXF, bind succeeded) -- never somebody else's file */
__CPROVER_ensures(__CPROVER_return_value == -1 ==> ( \
        xv_unlink_calls == __CPROVER_old(xv_unlink_calls) + ((UX_IS_UXF(s) && UX_BOUND_HERE) ? 1 : 0) && \
        ((UX_IS_UXF(s) && UX_BOUND_HERE) ==> UX_UNLINKED_BOUND(s))))
/* PO[C08] ux_server.success_one_fd: success holds exactly one more descriptor/registration: the one bound and listening */
__CPROVER_ensures(__CPROVER_return_value == 0 ==> (UX_ONE_MORE(s) && xv_bind_ok_calls == __CPROVER_old(xv_bind_ok_calls) + 1 && xv_bind_fd == XU(s)->fd && \
                                                    xv_listen_ok_calls == __CPROVER_old(xv_listen_ok_calls) + 1 && xv_listen_fd == XU(s)->fd))
/* PO[C08] ux_server.success_file_stays */
__CPROVER_ensures(__CPROVER_return_value == 0 ==> xv_unlink_calls == __CPROVER_old(xv_unlink_calls))
/* PO[C08] ux_server.success_path_recorded: UXF: the name stored for close is the name of the file bind(2) created */
__CPROVER_ensures((__CPROVER_return_value == 0 && UX_IS_UXF(s)) ==> UX_PATH_IS_BOUND(s))
/* PO[C08] ux_server.success_abstract_no_file: UX: no file was created, none will be unlinked */
__CPROVER_ensures((__CPROVER_return_value == 0 && UX_IS_UX(s)) ==> (XU(s)->path[0] == 0 && xv_bound_len == 0))
;

/* ---- ux_accept ----------------------------------------------------------------------------------------------------- */
static int ux_accept(struct xcm_socket *conn_s, struct xcm_socket *server_s)
__CPROVER_requires(__CPROVER_is_fresh(conn_s, UX_SIZE) && __CPROVER_is_fresh(server_s, UX_SIZE))
__CPROVER_requires(UX_GHOSTS_OK && UX_INIT(conn_s) && UX_FD_OK(server_s))
__CPROVER_assigns(xv_errno, XV_ACCEPT_ASSIGNS, xv_regs, XU(conn_s)->fd, XU(conn_s)->fd_reg_id)
__CPROVER_ensures(__CPROVER_return_value == 0 || (__CPROVER_return_value == -1 && xv_errno > 0))
/* PO[C08] ux_accept.fail_no_leak: a failed accept (EAGAIN, EMFILE ...) changes nothing */
__CPROVER_ensures(__CPROVER_return_value == -1 ==> (UX_NOTHING_MORE && XU(conn_s)->fd == -1 && XU(conn_s)->fd_reg_id == -1))
/* PO[C08] ux_accept.success_one_fd: one more descriptor, accepted from the server's descriptor, non-blocking, registered; the server keeps its own */
__CPROVER_ensures(__CPROVER_return_value == 0 ==> (UX_ONE_MORE(conn_s) && xv_accept_fd == XU(server_s)->fd && XU(conn_s)->fd != XU(server_s)->fd && UX_FD_OK(server_s)))
;

/* ---- small ops ----------------------------------------------------------------------------------------------------- */
static size_t ux_max_msg(struct xcm_socket *conn_s)
__CPROVER_requires(1)
__CPROVER_assigns()
/* PO[C03] ux_max_msg.is_the_send_limit: the advertised maximum is the limit ux_send enforces */
__CPROVER_ensures(__CPROVER_return_value == UX_MSG_MAX)
;
static int64_t ux_get_cnt(struct xcm_socket *conn_s, enum xcm_tp_cnt cnt)
__CPROVER_requires(__CPROVER_is_fresh(conn_s, UX_SIZE) && (unsigned)cnt < XCM_TP_NUM_MESSAGING_CNTS)
__CPROVER_assigns()
/* PO[C17] ux_get_cnt.stored_value */
__CPROVER_ensures(__CPROVER_return_value == XU(conn_s)->cnts[cnt])
;
static int ux_finish(struct xcm_socket *s)
__CPROVER_requires(1)
__CPROVER_assigns()
/* PO[C03] ux_finish.nothing_pending: UX never holds an accepted message back, finish has nothing to do */
__CPROVER_ensures(__CPROVER_return_value == 0)
;

#include "contracts/end.h"
#endif
