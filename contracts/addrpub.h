/* contracts/addrpub.h -- unit addrpub (C12): what units addr and addrconv left out of the address code.
 *   XV_AP_ADDR    libxcm/core/xcm_addr.c: has_space, proto_addr_parse, xcm_addr_parse_proto, host_parse, host_port_make,
 *                 the sixteen public xcm_addr_parse_X / xcm_addr_make_X wrappers
 *   XV_AP_DNS     libxcm/tp/dns/xcm_dns.c: xcm_dns_is_valid_name (length gate; the regex verdict is libc's)
 *   XV_AP_COMPAT  libxcm/core/xcm_addr_compat.c: the old API (delegate_parse, delegate_make, parse6_call, public functions)
 *   XV_AP_TP      libxcm/tp/common/common_tp.c: tp_ip_to_sockaddr, sockaddr_to_ip, sockaddr_to_host, tp_sockaddr_to_X_addr
 * Contracts are attached by redeclaration after the real TU has been #included.
 *
 * ONE GHOST VOCABULARY runs through all levels, so that every function has ONE contract text, the same when it is
 * enforced on its real body and when a caller assumes it:
 *   xv_pf_*  what the innermost parser (host_port_parse / addr_parse_ux_uxf: enforced in unit addr, ASSUMED here with a
 *            record of its arguments and results) was given and delivered.  xcm_addr_parse_X, delegate_parse,
 *            xcm_addr_X6_parse, parse6_call, xcm_addr_X_parse state their result in terms of it.
 *   xv_mk_*  what the innermost maker (name_port_make / ip_port_make / addr_make_ux_uxf: enforced in unit addr, ASSUMED
 *            here with a record) was given and returned.  host_port_make, xcm_addr_make_X, delegate_make,
 *            xcm_addr_X6_make, xcm_addr_X_make, tp_sockaddr_to_X_addr state theirs in terms of it.
 * Protocol names are recorded as a packed integer (XV_PK); pointers as "equals the tracked pointer" bits (the tracked
 * pointers xv_t_* are never assigned: arbitrary).
 */
#ifndef XV_ADDRPUB_H
#define XV_ADDRPUB_H
#include "contracts/begin.h"
#include "xcm_addr_limits.h"
#include <linux/un.h>

#define XV_CAP_MAX 2048   /* output capacities above this are not explored (is_fresh needs a bound) */
#define XV_OUT(p, cap) __CPROVER_is_fresh((p), (cap) == 0 ? 1 : (cap))
#define XV_NAME_ROOM (sizeof(((struct xcm_addr_host *)0)->name))      /* 254 */

/* ---- ghosts shared by all sections ---------------------------------------------------------------------------- */
typedef unsigned short unsigned_short;   /* (a job header cannot pass a type name with a blank) */
/* arbitrary index into a 16-byte IPv6 address: derived from xv_mc, the offset whose byte env/base.h's memcpy model copies
 * (never assigned), so that what is known about a memcpy'd address is known at the index the records speak about */
#define xv_i16 ((long)(xv_mc & 15))
long xv_nj;                     /* arbitrary index into host->name (never assigned) */
long xv_hb;                     /* arbitrary byte offset into an output object (never assigned) */
uint8_t xv_g_b0, xv_g_b1;       /* ghost constants bound to entry values by requires clauses (never assigned) */
#define XV_I16_OK 1
#define XV_NJ_OK (xv_nj >= 0 && xv_nj < (long)XV_NAME_ROOM)
/* protocol name as an integer: up to five characters, little end first; 0xff in byte 5 = longer than that */
#define XV_PB(p, i) ((uint64_t)(uint8_t)(p)[i] << (8 * (i)))
#define XV_PK(p) ((p)[0] == 0 ? (uint64_t)0 : (p)[1] == 0 ? XV_PB(p, 0) : (p)[2] == 0 ? (XV_PB(p, 0) | XV_PB(p, 1)) : \
                  (p)[3] == 0 ? (XV_PB(p, 0) | XV_PB(p, 1) | XV_PB(p, 2)) : (p)[4] == 0 ? (XV_PB(p, 0) | XV_PB(p, 1) | XV_PB(p, 2) | XV_PB(p, 3)) : \
                  (p)[5] == 0 ? (XV_PB(p, 0) | XV_PB(p, 1) | XV_PB(p, 2) | XV_PB(p, 3) | XV_PB(p, 4)) : ((uint64_t)0xff << 40))
#define XV_PC(c, i) ((uint64_t)(uint8_t)(c) << (8 * (i)))
#define XV_P_UX   (XV_PC('u', 0) | XV_PC('x', 1))
#define XV_P_UXF  (XV_PC('u', 0) | XV_PC('x', 1) | XV_PC('f', 2))
#define XV_P_TCP  (XV_PC('t', 0) | XV_PC('c', 1) | XV_PC('p', 2))
#define XV_P_TLS  (XV_PC('t', 0) | XV_PC('l', 1) | XV_PC('s', 2))
#define XV_P_UTLS (XV_PC('u', 0) | XV_PC('t', 1) | XV_PC('l', 2) | XV_PC('s', 3))
#define XV_P_SCTP (XV_PC('s', 0) | XV_PC('c', 1) | XV_PC('t', 2) | XV_PC('p', 3))
#define XV_P_BTCP (XV_PC('b', 0) | XV_PC('t', 1) | XV_PC('c', 2) | XV_PC('p', 3))
#define XV_P_BTLS (XV_PC('b', 0) | XV_PC('t', 1) | XV_PC('l', 2) | XV_PC('s', 3))
#define XV_BEQ(a, b) (!(a) == !(b))

/* ================================================================================================================ */
#if defined(XV_AP_ADDR) || defined(XV_AP_DNS)
/* the input string (env/addrpub_env.h): an object of exactly xv_in_len + 1 bytes, NUL at xv_in_len, no NUL at the
 * arbitrary position xv_j before it, nor at the first three positions (code compares the first characters with literals) */
#define XV_IN_MAXLEN 4096      /* input strings longer than this are not explored (is_fresh needs a bound); > 7 * XCM_ADDR_MAX */
#define XV_IN_OBJSZ (xv_in_len + 1)
#define XV_INSTR(s) (xv_in_len <= XV_IN_MAXLEN && xv_in_len < XV_IN_OBJSZ && __CPROVER_is_fresh((s), XV_IN_OBJSZ) && (s)[xv_in_len] == 0 && \
                     (XV_J_IN(0, xv_in_len) ==> (s)[xv_j] != 0) && (0 < xv_in_len ==> (s)[0] != 0) && (1 < xv_in_len ==> (s)[1] != 0) && (2 < xv_in_len ==> (s)[2] != 0))

/* ---- xcm_dns_is_valid_name: the length gate is real code, the verdict on the syntax is regexec's (TRUSTED) */
bool xcm_dns_is_valid_name(const char *name)
__CPROVER_requires(XV_INSTR(name) && xv_regexec_calls >= 0 && xv_regexec_calls < 100)
__CPROVER_assigns(xv_regexec_calls, xv_regexec_ret, xv_regexec_on_input)
/* PO[C12] xcm_dns_is_valid_name.length_gate: a valid name has at most 253 characters - with its NUL it fits struct xcm_addr_host.name - and longer input is refused without asking the regex */
__CPROVER_ensures(__CPROVER_return_value ==> xv_in_len + 1 <= XV_NAME_ROOM)
/* PO[C12] xcm_dns_is_valid_name.too_long_refused */
__CPROVER_ensures(xv_in_len + 1 > XV_NAME_ROOM ==> (!__CPROVER_return_value && xv_regexec_calls == __CPROVER_old(xv_regexec_calls)))
/* PO[C12] xcm_dns_is_valid_name.verdict: otherwise the name itself is matched exactly once and the match decides */
__CPROVER_ensures(xv_in_len + 1 <= XV_NAME_ROOM ==> (xv_regexec_calls == __CPROVER_old(xv_regexec_calls) + 1 && xv_regexec_on_input && \
                                                      XV_BEQ(__CPROVER_return_value, xv_regexec_ret == 0)))
;
#endif

/* ================================================================================================================ */
/* ---- the makers' vocabulary (xv_mk_*) --------------------------------------------------------------------------- */
int xv_mk_calls, xv_mk_rv, xv_mk_errno, xv_mk_type, xv_mk_family; uint64_t xv_mk_proto; uint16_t xv_mk_port; size_t xv_mk_cap;
_Bool xv_mk_out, xv_mk_namep; uint32_t xv_mk_ip4; uint8_t xv_mk_ipb; char xv_mk_namec;
char *xv_t_out; const char *xv_t_name, *xv_t_addr;   /* tracked pointers: never assigned, arbitrary */
size_t xv_proto_sz;                                   /* size of the protocol-name object given to host_port_make (never assigned) */
#define XV_T_UX (-7)                                  /* xv_mk_type of a UX/UXF address (no host) */
#define XV_MK_GHOSTS xv_mk_calls, xv_mk_rv, xv_mk_errno, xv_mk_type, xv_mk_family, xv_mk_proto, xv_mk_port, xv_mk_cap, xv_mk_out, xv_mk_namep, xv_mk_ip4, xv_mk_ipb, xv_mk_namec
#define XV_MK_ASSIGNS xv_errno, xv_snprintf_ret, xv_snprintf_cap, xv_snprintf_calls, XV_MK_GHOSTS
#define XV_MK_PRE (xv_mk_calls >= 0 && xv_mk_calls < 100 && xv_snprintf_calls >= 0 && xv_snprintf_calls < 100 && XV_I16_OK && XV_NJ_OK)
#define XV_FAM_OK(f) ((f) == AF_INET || (f) == AF_INET6)
#define XV_HOST_OK(h) ((h)->type == xcm_addr_type_name || (h)->type == xcm_addr_type_ip)
/* (text of contracts/addr.h) one snprintf was made with the caller's buffer/capacity and success is reported only if everything fitted */
#define MAKE_HONEST(rv, capacity) \
    ((rv) == 0 ==> (xv_snprintf_calls == __CPROVER_old(xv_snprintf_calls) + 1 && xv_snprintf_cap == (capacity) && \
                    xv_snprintf_ret >= 0 && (size_t)xv_snprintf_ret < (capacity)))
#define MAKE_FAIL(rv) ((rv) == 0 || ((rv) == -1 && (xv_errno == ENAMETOOLONG || xv_errno == EINVAL || xv_errno == EAFNOSUPPORT)))
/* the record of ONE innermost maker call: protocol name, port, capacity, buffer, and the host it was given */
#define XV_MK_CALL(pk, port, out, cap) (xv_mk_calls == __CPROVER_old(xv_mk_calls) + 1 && xv_mk_proto == (pk) && xv_mk_port == (port) && xv_mk_cap == (cap) && \
                                        XV_BEQ(xv_mk_out, (out) == xv_t_out) && __CPROVER_return_value == xv_mk_rv && xv_errno == xv_mk_errno)
#define XV_MK_IPREC(ip_) (xv_mk_type == (int)xcm_addr_type_ip && xv_mk_family == (int)(ip_)->family && xv_mk_ip4 == (ip_)->addr.ip4 && xv_mk_ipb == (ip_)->addr.ip6[xv_i16])
#define XV_MK_HOSTREC(h) ((h)->type == xcm_addr_type_ip ? XV_MK_IPREC(&(h)->ip) : (xv_mk_type == (int)xcm_addr_type_name && xv_mk_namec == (h)->name[xv_nj]))
/* ASSUMED (libc: inet_ntop never fails for a valid family and a 46-byte buffer; "<proto>:[<ip6>]:<port>" has at most
 * 5+1+1+45+1+1+5 = 59 characters): an IP host with a valid family and room for 64 bytes is always formatted.  This is the
 * premise under which tp_sockaddr_to_X_addr() may ut_assert(rc == 0). */
#define XV_IP_ADDR_ROOM 64
#define XV_MK_IP_OK(type_, fam_, cap) (((type_) == xcm_addr_type_ip && XV_FAM_OK(fam_) && (cap) >= XV_IP_ADDR_ROOM) ==> __CPROVER_return_value == 0)

/* ---- the parsers' vocabulary (xv_pf_*) -------------------------------------------------------------------------- */
int xv_pf_calls, xv_pf_rv, xv_pf_errno, xv_pf_type, xv_pf_family; uint64_t xv_pf_proto; uint16_t xv_pf_port; size_t xv_pf_cap;
_Bool xv_pf_addr, xv_pf_namep; uint32_t xv_pf_ip4; uint8_t xv_pf_ipb; char xv_pf_namec;
#define XV_PF_GHOSTS xv_pf_calls, xv_pf_rv, xv_pf_errno, xv_pf_type, xv_pf_family, xv_pf_proto, xv_pf_port, xv_pf_cap, xv_pf_addr, xv_pf_namep, xv_pf_ip4, xv_pf_ipb, xv_pf_namec
#define XV_PF_PRE (xv_pf_calls >= 0 && xv_pf_calls < 100 && XV_I16_OK && XV_NJ_OK)
/* the record of ONE innermost parser call: protocol name, the address string, result, errno */
#define XV_PF_CALL(pk, addr_s) (xv_pf_calls == __CPROVER_old(xv_pf_calls) + 1 && xv_pf_proto == (pk) && XV_BEQ(xv_pf_addr, (addr_s) == xv_t_addr) && \
                                (xv_pf_rv == 0 || xv_pf_rv == -1) && (xv_pf_rv == -1 ==> (xv_pf_errno == EINVAL || xv_pf_errno == ENAMETOOLONG)))
/* ... and of the host and port it delivered (valid on success; a host is a DNS name or an IPv4/IPv6 address) */
#define XV_PF_DELIVERED(h, port) (xv_pf_type == (int)(h)->type && XV_HOST_OK(h) && xv_pf_port == *(port) && \
        ((h)->type == xcm_addr_type_ip ? (XV_FAM_OK((h)->ip.family) && xv_pf_family == (int)(h)->ip.family && xv_pf_ip4 == (h)->ip.addr.ip4 && xv_pf_ipb == (h)->ip.addr.ip6[xv_i16]) \
                                       : xv_pf_namec == (h)->name[xv_nj]))
/* contract text of a <proto>:<host>:<port> parser (host_port_parse with its protocol name, or a public xcm_addr_parse_X) */
#define XV_PF_POST(pk, addr_s, h, port) (XV_PF_CALL(pk, addr_s) && __CPROVER_return_value == xv_pf_rv && xv_errno == xv_pf_errno && \
                                         (__CPROVER_return_value == 0 ==> XV_PF_DELIVERED(h, port)) && (__CPROVER_return_value == -1 ==> *(port) == __CPROVER_old(*(port))))
#define XV_PF_CONTRACT(fn, pk) \
    int fn(const char *addr_s, struct xcm_addr_host *host, uint16_t *port) \
    __CPROVER_requires(__CPROVER_is_fresh(addr_s, 8) && __CPROVER_is_fresh(host, sizeof(*host)) && __CPROVER_is_fresh(port, sizeof(*port)) && XV_PF_PRE) \
    __CPROVER_assigns(xv_errno, XV_PF_GHOSTS, __CPROVER_object_whole(host), *port) \
    __CPROVER_ensures(XV_PF_POST(pk, addr_s, host, port))
/* UX / UXF: name buffer and capacity instead of host and port */
#define XV_UXP_POST(pk, addr_s, name, cap) (XV_PF_CALL(pk, addr_s) && XV_BEQ(xv_pf_namep, (name) == xv_t_out) && xv_pf_cap == (cap) && \
                                            __CPROVER_return_value == xv_pf_rv && xv_errno == xv_pf_errno)
#define XV_UXP_CONTRACT(fn, pk) \
    int fn(const char *addr_s, char *name, size_t capacity) \
    __CPROVER_requires(__CPROVER_is_fresh(addr_s, 8) && capacity <= XV_CAP_MAX && XV_OUT(name, capacity) && XV_PF_PRE) \
    __CPROVER_assigns(xv_errno, XV_PF_GHOSTS) \
    __CPROVER_assigns(capacity > 0: __CPROVER_object_upto(name, capacity)) \
    __CPROVER_ensures(XV_UXP_POST(pk, addr_s, name, capacity))
/* contract text of a public maker */
/* (psz: size of the wrapper's protocol-name literal.  Where the wrapper is ENFORCED it binds the ghost size the contract of
 * host_port_make is stated for; callers that assume the wrapper - other translation units - never see that ghost) */
#ifdef XV_AP_ADDR
#define XV_MK_PSZ(psz) (xv_proto_sz == (psz))
#else
#define XV_MK_PSZ(psz) 1
#endif
#define XV_MK_CONTRACT(fn, pk, PT, psz) \
    int fn(const struct xcm_addr_host *host, PT port, char *out, size_t capacity) \
    __CPROVER_requires(XV_MK_PSZ(psz) && __CPROVER_is_fresh(host, sizeof(*host)) && XV_HOST_OK(host) && capacity <= XV_CAP_MAX && XV_OUT(out, capacity) && XV_MK_PRE) \
    __CPROVER_assigns(XV_MK_ASSIGNS) \
    __CPROVER_assigns(capacity > 0: __CPROVER_object_upto(out, capacity)) \
    __CPROVER_ensures(XV_MK_CALL(pk, port, out, capacity) && XV_MK_HOSTREC(host)) \
    __CPROVER_ensures(MAKE_HONEST(__CPROVER_return_value, capacity) && MAKE_FAIL(__CPROVER_return_value) && XV_MK_IP_OK(host->type, host->ip.family, capacity))
#define XV_UXM_CONTRACT(fn, pk) \
    int fn(const char *name, char *out, size_t capacity) \
    __CPROVER_requires(__CPROVER_is_fresh(name, 8) && name[7] == 0 && capacity <= XV_CAP_MAX && XV_OUT(out, capacity) && XV_MK_PRE) \
    __CPROVER_assigns(XV_MK_ASSIGNS) \
    __CPROVER_assigns(capacity > 0: __CPROVER_object_upto(out, capacity)) \
    __CPROVER_ensures(XV_MK_CALL(pk, 0, out, capacity) && xv_mk_type == XV_T_UX && XV_BEQ(xv_mk_namep, name == xv_t_name)) \
    __CPROVER_ensures(MAKE_HONEST(__CPROVER_return_value, capacity) && MAKE_FAIL(__CPROVER_return_value))

/* ================================================================================================================ */
#ifdef XV_AP_ADDR
/* ---- has_space -------------------------------------------------------------------------------------------------- */
/* its only caller reaches it with at most XCM_ADDR_MAX characters (short-circuit ||): checked as a precondition there.
 * In every job but its own the contract additionally RECORDS the verdict (xv_hs_calls, xv_hs_rv), so that the caller's
 * contract can say "refused because has_space said so"; has_space.c (bounded) shows that the verdict is exact. */
int xv_hs_calls; _Bool xv_hs_rv;
static bool has_space(const char *s)
__CPROVER_requires(XV_INSTR(s) && xv_in_len <= XCM_ADDR_MAX)
#ifdef XV_AP_HS_ENFORCED
__CPROVER_assigns()
#else
__CPROVER_requires(xv_hs_calls >= 0 && xv_hs_calls < 100)
__CPROVER_assigns(xv_hs_calls, xv_hs_rv)
__CPROVER_ensures(xv_hs_calls == __CPROVER_old(xv_hs_calls) + 1 && XV_BEQ(xv_hs_rv, __CPROVER_return_value))
#endif
/* PO[C12] has_space.none_missed: false only if no character of the string is white space (stated for the arbitrary position xv_j) */
__CPROVER_ensures((!__CPROVER_return_value && XV_J_IN(0, xv_in_len)) ==> !XV_ISSPACE(s[xv_j]))
;

/* ---- proto_addr_parse ------------------------------------------------------------------------------------------- */
/* ghosts of the string models: xv_chr_found / xv_chr_pos = what strchr(addr_s, ':') answered (position of the FIRST ':'),
 * xv_ncpy_len / xv_cpy_len = lengths of the two strings produced (the xv_pp_len / xv_pa_len of contracts/addr.h) */
#define xv_pp_len xv_ncpy_len
#define xv_pa_len xv_cpy_len
#define PAP_REST (xv_in_len - xv_chr_pos - 1)         /* length of the text after the first ':' */
#define PAP_WELLFORMED(s) (xv_in_len <= XCM_ADDR_MAX && xv_chr_found && xv_chr_pos < xv_in_len && (s)[xv_chr_pos] == ':' && xv_chr_pos <= XCM_ADDR_MAX_PROTO_LEN && \
                           xv_hs_calls == __CPROVER_old(xv_hs_calls) + 1 && !xv_hs_rv && \
                           (XV_J_IN(0, xv_in_len) ==> !XV_ISSPACE((s)[xv_j])) && (XV_J_IN(0, xv_chr_pos) ==> (s)[xv_j] != ':'))
static int proto_addr_parse(const char *addr_s, char *proto, size_t proto_capacity, char *proto_addr, size_t proto_addr_capacity)
__CPROVER_requires(XV_INSTR(addr_s))
__CPROVER_requires(proto_capacity <= XV_CAP_MAX && XV_OUT(proto, proto_capacity) && proto_addr_capacity <= XV_CAP_MAX && XV_OUT(proto_addr, proto_addr_capacity))
__CPROVER_requires(xv_hb >= 0 && xv_hb < XV_CAP_MAX && (xv_hb < (long)proto_capacity ==> (uint8_t)proto[xv_hb] == xv_g_b0))
__CPROVER_requires(xv_chr_calls >= 0 && xv_chr_calls < 100 && xv_hs_calls >= 0 && xv_hs_calls < 100)
/* the frame: errno, the records of the string models, and the two buffers WITHIN their capacities - nothing else */
__CPROVER_assigns(xv_errno, xv_chr_calls, xv_chr_found, xv_chr_pos, xv_ncpy_len, xv_cpy_len, xv_hs_calls, xv_hs_rv)
__CPROVER_assigns(proto_capacity > 0: __CPROVER_object_upto(proto, proto_capacity))
__CPROVER_assigns(proto_addr_capacity > 0: __CPROVER_object_upto(proto_addr, proto_addr_capacity))
/* (text of contracts/addr.h, both instantiations; "no NUL inside the second string" is stated for the arbitrary position xv_j
 * of the INPUT, i.e. for the output index xv_j - xv_chr_pos - 1, which ranges over the same set as addr.h's index) */
__CPROVER_ensures(__CPROVER_return_value == 0 || (__CPROVER_return_value == -1 && (xv_errno == EINVAL || xv_errno == ENAMETOOLONG)))
__CPROVER_ensures(__CPROVER_return_value == 0 ==> (xv_pa_len < proto_addr_capacity && xv_pa_len <= XCM_ADDR_MAX && proto_addr[xv_pa_len] == 0))
__CPROVER_ensures(__CPROVER_return_value == 0 ==> (xv_pa_len <= XCM_ADDR_MAX && proto_addr[xv_pa_len] == 0 && (XV_J_IN(xv_chr_pos + 1, xv_in_len) ==> proto_addr[(size_t)xv_j - xv_chr_pos - 1] != 0)))
__CPROVER_ensures(__CPROVER_return_value == 0 ==> (xv_pp_len <= XCM_ADDR_MAX_PROTO_LEN && proto[xv_pp_len] == 0 && ((xv_j >= 0 && (size_t)xv_j < xv_pp_len) ==> proto[xv_j] != 0)))
/* PO[C12] proto_addr_parse.accepts_only_wellformed: success only for at most XCM_ADDR_MAX characters, none of them white space, with a ':' whose first occurrence leaves a protocol part of at most XCM_ADDR_MAX_PROTO_LEN characters */
__CPROVER_ensures(__CPROVER_return_value == 0 ==> PAP_WELLFORMED(addr_s))
/* PO[C12] proto_addr_parse.fits: success only if both parts fit their buffers together with their NUL (capacity 0 never succeeds) */
__CPROVER_ensures(__CPROVER_return_value == 0 ==> (xv_chr_pos < proto_capacity && PAP_REST < proto_addr_capacity))
/* PO[C12] proto_addr_parse.proto_exact: the protocol output is NUL-terminated and is exactly the text before the first ':' */
__CPROVER_ensures(__CPROVER_return_value == 0 ==> (xv_pp_len == xv_chr_pos && proto[xv_chr_pos] == 0 && (XV_J_IN(0, xv_chr_pos) ==> proto[xv_j] == addr_s[xv_j])))
/* PO[C12] proto_addr_parse.rest_exact: the second output is NUL-terminated and is exactly the text after the first ':' */
__CPROVER_ensures(__CPROVER_return_value == 0 ==> (xv_pa_len == PAP_REST && proto_addr[PAP_REST] == 0 && (XV_J_IN(xv_chr_pos + 1, xv_in_len) ==> proto_addr[(size_t)xv_j - xv_chr_pos - 1] == addr_s[xv_j])))
/* PO[C12] proto_addr_parse.einval_for_a_reason: EINVAL only for an over-long string, white space (has_space said so), no ':' at all, or an over-long protocol part */
__CPROVER_ensures((__CPROVER_return_value == -1 && xv_errno == EINVAL) ==> ( \
        xv_in_len > XCM_ADDR_MAX || (xv_hs_calls == __CPROVER_old(xv_hs_calls) + 1 && xv_hs_rv) || \
        (!xv_chr_found && (XV_J_IN(0, xv_in_len) ==> addr_s[xv_j] != ':')) || \
        (xv_chr_found && xv_chr_pos < xv_in_len && addr_s[xv_chr_pos] == ':' && (XV_J_IN(0, xv_chr_pos) ==> addr_s[xv_j] != ':') && xv_chr_pos > XCM_ADDR_MAX_PROTO_LEN)))
/* PO[C12] proto_addr_parse.toolong_for_a_reason: ENAMETOOLONG only for a well-formed string one of whose parts does not fit its buffer */
__CPROVER_ensures((__CPROVER_return_value == -1 && xv_errno == ENAMETOOLONG) ==> (PAP_WELLFORMED(addr_s) && (xv_chr_pos >= proto_capacity || PAP_REST >= proto_addr_capacity)))
/* failure writes nothing into the protocol buffer (byte at the arbitrary offset xv_hb; the same holds for the second
 * buffer, but that is a scratch local of every caller, whose entry value no caller can name) */
__CPROVER_ensures(__CPROVER_return_value == -1 ==> (xv_hb < (long)proto_capacity ==> (uint8_t)proto[xv_hb] == xv_g_b0))
;

/* ---- xcm_addr_parse_proto: proto_addr_parse with the caller's buffer and capacity and a scratch buffer that takes any
 * remainder (XCM_ADDR_MAX + 1 bytes), so the only ENAMETOOLONG left is the protocol buffer's */
int xcm_addr_parse_proto(const char *addr_s, char *proto, size_t capacity)
__CPROVER_requires(XV_INSTR(addr_s) && capacity <= XV_CAP_MAX && XV_OUT(proto, capacity))
__CPROVER_requires(xv_hb >= 0 && xv_hb < XV_CAP_MAX && (xv_hb < (long)capacity ==> (uint8_t)proto[xv_hb] == xv_g_b0))
__CPROVER_requires(xv_chr_calls >= 0 && xv_chr_calls < 100 && xv_hs_calls >= 0 && xv_hs_calls < 100)
__CPROVER_assigns(xv_errno, xv_chr_calls, xv_chr_found, xv_chr_pos, xv_ncpy_len, xv_cpy_len, xv_hs_calls, xv_hs_rv)
__CPROVER_assigns(capacity > 0: __CPROVER_object_upto(proto, capacity))
__CPROVER_ensures(__CPROVER_return_value == 0 || (__CPROVER_return_value == -1 && (xv_errno == EINVAL || xv_errno == ENAMETOOLONG)))
/* PO[C12] xcm_addr_parse_proto.accepts_only_wellformed */
__CPROVER_ensures(__CPROVER_return_value == 0 ==> (PAP_WELLFORMED(addr_s) && xv_chr_pos < capacity))
/* PO[C12] xcm_addr_parse_proto.proto_exact: the caller's buffer holds exactly the text before the first ':' and its NUL */
__CPROVER_ensures(__CPROVER_return_value == 0 ==> (proto[xv_chr_pos] == 0 && (XV_J_IN(0, xv_chr_pos) ==> proto[xv_j] == addr_s[xv_j])))
/* PO[C12] xcm_addr_parse_proto.toolong_means_capacity: ENAMETOOLONG exactly when a well-formed address has a protocol part that does not fit the caller's capacity */
__CPROVER_ensures((__CPROVER_return_value == -1 && xv_errno == ENAMETOOLONG) ==> (PAP_WELLFORMED(addr_s) && xv_chr_pos >= capacity))
__CPROVER_ensures((__CPROVER_return_value == -1 && xv_errno == EINVAL) ==> ( \
        xv_in_len > XCM_ADDR_MAX || (xv_hs_calls == __CPROVER_old(xv_hs_calls) + 1 && xv_hs_rv) || !xv_chr_found || xv_chr_pos > XCM_ADDR_MAX_PROTO_LEN))
__CPROVER_ensures(__CPROVER_return_value == -1 ==> (xv_hb < (long)capacity ==> (uint8_t)proto[xv_hb] == xv_g_b0))
;

/* ---- host_parse --------------------------------------------------------------------------------------------------- */
/* the text is the input string, at most XCM_ADDR_MAX_HOST_LEN characters (host_port_parse checks that before the call; a
 * longer text would also make the variable-length array ip6_s arbitrarily large) */
#define HP_LEN xv_in_len
#define HP_V6(s) (HP_LEN >= 1 && (s)[0] == '[')
#define HP_V6_SHAPE(s) (HP_LEN >= 2 && (s)[HP_LEN - 1] == ']')
#define HP_V6_WILD(s) (HP_LEN == 3 && (s)[1] == '*')
#define HP_V4_WILD(s) (HP_LEN == 1 && (s)[0] == '*')
#define HP_PTON_ONCE(af) (xv_pton_calls == __CPROVER_old(xv_pton_calls) + 1 && xv_pton_af == (af))
#define HP_NO_PTON (xv_pton_calls == __CPROVER_old(xv_pton_calls))
#define HP_NO_DNS (xv_regexec_calls == __CPROVER_old(xv_regexec_calls))
#define HP_IP4_IS(h, b0, b1, b2, b3) ((h)->ip.addr.ip6[0] == (b0) && (h)->ip.addr.ip6[1] == (b1) && (h)->ip.addr.ip6[2] == (b2) && (h)->ip.addr.ip6[3] == (b3))
static int host_parse(const char *host_s, struct xcm_addr_host *host)
__CPROVER_requires(XV_INSTR(host_s) && xv_in_len <= XCM_ADDR_MAX_HOST_LEN && __CPROVER_is_fresh(host, sizeof(*host)))
__CPROVER_requires(xv_pton_calls >= 0 && xv_pton_calls < 100 && xv_regexec_calls >= 0 && xv_regexec_calls < 100)
__CPROVER_requires(xv_hb >= 0 && xv_hb < (long)sizeof(*host) && ((const uint8_t *)host)[xv_hb] == xv_g_b0)
__CPROVER_assigns(xv_errno, __CPROVER_object_upto(host, sizeof(*host)))
__CPROVER_assigns(xv_pton_calls, xv_pton_af, xv_pton_ret, xv_pton_c, xv_pton_c1, __CPROVER_object_whole(xv_pton_out), xv_regexec_calls, xv_regexec_ret, xv_regexec_on_input, xv_ncpy_len, xv_cpy_len)
/* (text of contracts/addr.h) */
__CPROVER_ensures(__CPROVER_return_value == 0 || (__CPROVER_return_value == -1 && xv_errno == EINVAL))
/* PO[C12] host_parse.consistent: an accepted host is an IPv4 or IPv6 address, or a NUL-terminated name of 1..253 characters */
__CPROVER_ensures(__CPROVER_return_value == 0 ==> (host->type == xcm_addr_type_ip ? XV_FAM_OK(host->ip.family) : \
                  (host->type == xcm_addr_type_name && HP_LEN >= 1 && HP_LEN + 1 <= XV_NAME_ROOM && host->name[HP_LEN] == 0)))
/* PO[C12] host_parse.empty_refused */
__CPROVER_ensures(HP_LEN == 0 ==> (__CPROVER_return_value == -1 && HP_NO_PTON && HP_NO_DNS))
/* PO[C12] host_parse.v6_brackets: text starting with '[' is an IPv6 host or nothing; it needs the closing ']' as its last character */
__CPROVER_ensures((HP_V6(host_s) && !HP_V6_SHAPE(host_s)) ==> (__CPROVER_return_value == -1 && HP_NO_PTON && HP_NO_DNS))
/* PO[C12] host_parse.v6_only: ... and is never taken for an IPv4 address or a name */
__CPROVER_ensures((HP_V6(host_s) && __CPROVER_return_value == 0) ==> (host->type == xcm_addr_type_ip && host->ip.family == AF_INET6 && HP_NO_DNS))
/* PO[C12] host_parse.v6_wildcard: [*] is the IPv6 wildcard address (all zero), decided without inet_pton */
__CPROVER_ensures((HP_V6(host_s) && HP_V6_SHAPE(host_s) && HP_V6_WILD(host_s)) ==> (__CPROVER_return_value == 0 && HP_NO_PTON && (xv_mc < 16 ==> host->ip.addr.ip6[xv_mc] == 0)))
/* PO[C12] host_parse.v6_literal: otherwise inet_pton(AF_INET6) is asked once about exactly the text between the brackets, its verdict decides, and its 16 bytes are the address */
__CPROVER_ensures((HP_V6(host_s) && HP_V6_SHAPE(host_s) && !HP_V6_WILD(host_s)) ==> (HP_PTON_ONCE(AF_INET6) && (__CPROVER_return_value == 0) == (xv_pton_ret == 1) && \
                  (XV_J_IN(1, HP_LEN - 1) ==> xv_pton_c1 == host_s[xv_j]) && ((xv_j >= 0 && (size_t)xv_j == HP_LEN - 1) ==> xv_pton_c1 == 0) && \
                  ((__CPROVER_return_value == 0 && xv_mc < 16) ==> host->ip.addr.ip6[xv_mc] == xv_pton_out[xv_mc])))
/* PO[C12] host_parse.v4_wildcard: * is INADDR_ANY, decided without inet_pton */
__CPROVER_ensures((!HP_V6(host_s) && HP_V4_WILD(host_s)) ==> (__CPROVER_return_value == 0 && HP_NO_PTON && HP_NO_DNS && host->type == xcm_addr_type_ip && host->ip.family == AF_INET && host->ip.addr.ip4 == 0))
/* PO[C12] host_parse.v4_literal: any other non-empty text goes to inet_pton(AF_INET) once, as it is; if that accepts it, its 4 bytes (network order) are the address */
__CPROVER_ensures((HP_LEN >= 1 && !HP_V6(host_s) && !HP_V4_WILD(host_s)) ==> (HP_PTON_ONCE(AF_INET) && (XV_J_IN(0, HP_LEN + 1) ==> xv_pton_c == host_s[xv_j])))
/* PO[C12] host_parse.v4_address */
__CPROVER_ensures((HP_LEN >= 1 && !HP_V6(host_s) && !HP_V4_WILD(host_s) && xv_pton_ret == 1) ==> (__CPROVER_return_value == 0 && HP_NO_DNS && host->type == xcm_addr_type_ip && host->ip.family == AF_INET && \
                  HP_IP4_IS(host, xv_pton_out[0], xv_pton_out[1], xv_pton_out[2], xv_pton_out[3])))
/* PO[C12] host_parse.name: what inet_pton refuses is a DNS name if and only if xcm_dns_is_valid_name says so (length gate 253, then the regex); the name is copied byte for byte with its NUL */
__CPROVER_ensures((HP_LEN >= 1 && !HP_V6(host_s) && !HP_V4_WILD(host_s) && xv_pton_ret != 1) ==> ( \
                  (__CPROVER_return_value == 0) == (HP_LEN + 1 <= XV_NAME_ROOM && xv_regexec_calls == __CPROVER_old(xv_regexec_calls) + 1 && xv_regexec_on_input && xv_regexec_ret == 0) && \
                  (__CPROVER_return_value == 0 ==> (host->type == xcm_addr_type_name && host->name[HP_LEN] == 0 && (XV_J_IN(0, HP_LEN) ==> host->name[xv_j] == host_s[xv_j])))))
/* failure leaves *host as it was (byte at the arbitrary offset xv_hb) */
__CPROVER_ensures(__CPROVER_return_value == -1 ==> ((const uint8_t *)host)[xv_hb] == xv_g_b0)
;

/* ---- the innermost makers and parsers: ENFORCED in unit addr (contracts/addr.h: no_truncated_success, port_range,
 * name_limits ...), ASSUMED here with the result clauses of that text plus the record of their arguments */
static int name_port_make(const char *proto, const char *domain_name, uint16_t port, char *addr_s, size_t capacity)
__CPROVER_requires(__CPROVER_r_ok(proto, 1) && __CPROVER_r_ok(domain_name, XV_NAME_ROOM) && (capacity == 0 || __CPROVER_w_ok(addr_s, capacity)) && XV_MK_PRE)
__CPROVER_assigns(XV_MK_ASSIGNS)
__CPROVER_assigns(capacity > 0: __CPROVER_object_upto(addr_s, capacity))
__CPROVER_ensures(MAKE_HONEST(__CPROVER_return_value, capacity))
__CPROVER_ensures(MAKE_FAIL(__CPROVER_return_value))
__CPROVER_ensures(XV_MK_CALL(XV_PK(proto), port, addr_s, capacity) && xv_mk_type == (int)xcm_addr_type_name && xv_mk_namec == domain_name[xv_nj])
;
static int ip_port_make(const char *proto, const struct xcm_addr_ip *ip, uint16_t port, char *addr_s, size_t capacity)
__CPROVER_requires(__CPROVER_r_ok(proto, 1) && __CPROVER_r_ok(ip, sizeof(*ip)) && (capacity == 0 || __CPROVER_w_ok(addr_s, capacity)) && XV_MK_PRE)
__CPROVER_assigns(XV_MK_ASSIGNS)
__CPROVER_assigns(capacity > 0: __CPROVER_object_upto(addr_s, capacity))
__CPROVER_ensures(MAKE_HONEST(__CPROVER_return_value, capacity))
__CPROVER_ensures(MAKE_FAIL(__CPROVER_return_value))
__CPROVER_ensures(XV_MK_CALL(XV_PK(proto), port, addr_s, capacity) && XV_MK_IPREC(ip))
__CPROVER_ensures(XV_MK_IP_OK(xcm_addr_type_ip, ip->family, capacity))
;
static int addr_make_ux_uxf(const char *ux_proto, const char *ux_name, char *ux_addr_s, size_t capacity)
__CPROVER_requires(__CPROVER_r_ok(ux_proto, 1) && (capacity == 0 || __CPROVER_w_ok(ux_addr_s, capacity)) && XV_MK_PRE)
__CPROVER_assigns(XV_MK_ASSIGNS)
__CPROVER_assigns(capacity > 0: __CPROVER_object_upto(ux_addr_s, capacity))
__CPROVER_ensures(MAKE_HONEST(__CPROVER_return_value, capacity))
__CPROVER_ensures(MAKE_FAIL(__CPROVER_return_value))
__CPROVER_ensures(XV_MK_CALL(XV_PK(ux_proto), 0, ux_addr_s, capacity) && xv_mk_type == XV_T_UX && XV_BEQ(xv_mk_namep, ux_name == xv_t_name))
;
static int host_port_parse(const char *proto, const char *addr_s, struct xcm_addr_host *host, uint16_t *port)
__CPROVER_requires(__CPROVER_r_ok(proto, 1) && __CPROVER_w_ok(host, sizeof(*host)) && __CPROVER_w_ok(port, sizeof(*port)) && XV_PF_PRE)
__CPROVER_assigns(xv_errno, XV_PF_GHOSTS, __CPROVER_object_upto(host, sizeof(*host)), *port)
__CPROVER_ensures(XV_PF_POST(XV_PK(proto), addr_s, host, port))
;
static int addr_parse_ux_uxf(const char *ux_proto, const char *ux_addr_s, char *ux_name, size_t capacity)
__CPROVER_requires(__CPROVER_r_ok(ux_proto, 1) && (capacity == 0 || __CPROVER_w_ok(ux_name, capacity)) && XV_PF_PRE)
__CPROVER_assigns(xv_errno, XV_PF_GHOSTS)
__CPROVER_assigns(capacity > 0: __CPROVER_object_upto(ux_name, capacity))
__CPROVER_ensures(XV_UXP_POST(XV_PK(ux_proto), ux_addr_s, ux_name, capacity))
;

/* ---- host_port_make: a name goes to name_port_make, an IP address to ip_port_make, with everything else passed on --- */
#define XV_PROTO_STR(p) (xv_proto_sz >= 1 && xv_proto_sz <= 6 && __CPROVER_is_fresh((p), xv_proto_sz) && (p)[xv_proto_sz - 1] == 0)
static int host_port_make(const char *proto, const struct xcm_addr_host *host, uint16_t port, char *addr_s, size_t capacity)
__CPROVER_requires(XV_PROTO_STR(proto) && __CPROVER_is_fresh(host, sizeof(*host)) && XV_HOST_OK(host) && capacity <= XV_CAP_MAX && XV_OUT(addr_s, capacity) && XV_MK_PRE)
__CPROVER_assigns(XV_MK_ASSIGNS)
__CPROVER_assigns(capacity > 0: __CPROVER_object_upto(addr_s, capacity))
/* PO[C12] host_port_make.dispatch: exactly one innermost maker, the one for the host's type, with the caller's protocol name, host, port, buffer and capacity; its result and errno are the result */
__CPROVER_ensures(XV_MK_CALL(XV_PK(proto), port, addr_s, capacity) && XV_MK_HOSTREC(host))
/* PO[C12] host_port_make.no_truncated_success */
__CPROVER_ensures(MAKE_HONEST(__CPROVER_return_value, capacity) && MAKE_FAIL(__CPROVER_return_value) && XV_MK_IP_OK(host->type, host->ip.family, capacity))
;

/* ---- the sixteen public wrappers: each passes exactly its own protocol name and its arguments on -------------------- */
#ifdef XV_AP_WRAP_PF
/* PO[C12] xcm_addr_parse_X.own_protocol_and_arguments */
XV_PF_CONTRACT(XV_AP_WRAP_PF, XV_AP_WRAP_PK);
#endif
#ifdef XV_AP_WRAP_UXP
/* PO[C12] xcm_addr_parse_UX.own_protocol_and_arguments */
XV_UXP_CONTRACT(XV_AP_WRAP_UXP, XV_AP_WRAP_PK);
#endif
#ifdef XV_AP_WRAP_MK
/* PO[C12] xcm_addr_make_X.own_protocol_and_arguments */
XV_MK_CONTRACT(XV_AP_WRAP_MK, XV_AP_WRAP_PK, XV_AP_WRAP_PT, XV_AP_WRAP_PSZ);
#endif
#ifdef XV_AP_WRAP_UXM
/* PO[C12] xcm_addr_make_UX.own_protocol_and_arguments */
XV_UXM_CONTRACT(XV_AP_WRAP_UXM, XV_AP_WRAP_PK);
#endif
#endif /* XV_AP_ADDR */

/* ================================================================================================================ */
#ifdef XV_AP_COMPAT
/* ---- libxcm/core/xcm_addr_compat.c: the old API.  The new-API functions it wraps (xcm_addr_parse_X / xcm_addr_make_X,
 * xcm_addr_parse_ux / xcm_addr_make_ux) are ASSUMED with the very contract text that is ENFORCED on them in the
 * XV_AP_ADDR jobs; everything below is stated in the vocabulary of that text: "what the new-API function returned, set
 * errno to and delivered" is xv_pf_rv / xv_pf_errno / xv_pf_type, _family, _ip4, _ipb, _port (makers: xv_mk_*). */
XV_PF_CONTRACT(xcm_addr_parse_utls, XV_P_UTLS); XV_PF_CONTRACT(xcm_addr_parse_tls, XV_P_TLS); XV_PF_CONTRACT(xcm_addr_parse_tcp, XV_P_TCP); XV_PF_CONTRACT(xcm_addr_parse_sctp, XV_P_SCTP);
XV_UXP_CONTRACT(xcm_addr_parse_ux, XV_P_UX);
XV_MK_CONTRACT(xcm_addr_make_utls, XV_P_UTLS, uint16_t, 5); XV_MK_CONTRACT(xcm_addr_make_tls, XV_P_TLS, uint16_t, 4); XV_MK_CONTRACT(xcm_addr_make_tcp, XV_P_TCP, uint16_t, 4); XV_MK_CONTRACT(xcm_addr_make_sctp, XV_P_SCTP, uint16_t, 5);
XV_UXM_CONTRACT(xcm_addr_make_ux, XV_P_UX);

/* which new-API function a function pointer stands for, as its protocol name */
#define XV_PFUN_OK(f) ((f) == xcm_addr_parse_utls || (f) == xcm_addr_parse_tls || (f) == xcm_addr_parse_tcp || (f) == xcm_addr_parse_sctp)
#define XV_PFUN_PK(f) ((f) == xcm_addr_parse_utls ? XV_P_UTLS : (f) == xcm_addr_parse_tls ? XV_P_TLS : (f) == xcm_addr_parse_tcp ? XV_P_TCP : XV_P_SCTP)
#define XV_MFUN_OK(f) ((f) == xcm_addr_make_utls || (f) == xcm_addr_make_tls || (f) == xcm_addr_make_tcp || (f) == xcm_addr_make_sctp)
#define XV_MFUN_PK(f) ((f) == xcm_addr_make_utls ? XV_P_UTLS : (f) == xcm_addr_make_tls ? XV_P_TLS : (f) == xcm_addr_make_tcp ? XV_P_TCP : XV_P_SCTP)
#define XV_P6FUN_OK(f) ((f) == xcm_addr_utls6_parse || (f) == xcm_addr_tls6_parse || (f) == xcm_addr_tcp6_parse)
#define XV_P6FUN_PK(f) ((f) == xcm_addr_utls6_parse ? XV_P_UTLS : (f) == xcm_addr_tls6_parse ? XV_P_TLS : XV_P_TCP)

/* --- IP-only parsers (delegate_parse and the four xcm_addr_X6_parse) */
#define XV_IPB(ip_, off) (((const uint8_t *)(ip_))[off])
#define XV_HB_IP_OK (xv_hb >= 0 && xv_hb < (long)sizeof(struct xcm_addr_ip))
#define XV_DP_PRE(addr_s, ip_, port) (__CPROVER_is_fresh(addr_s, 8) && __CPROVER_is_fresh(ip_, sizeof(struct xcm_addr_ip)) && __CPROVER_is_fresh(port, sizeof(uint16_t)) && XV_PF_PRE && \
                                      XV_HB_IP_OK)
/* the wrapped parser is called exactly once, with the caller's string */
#define XV_DP_WRAPS(pk, addr_s) XV_PF_CALL(pk, addr_s)
/* result: that of the wrapped parser, except that a DNS-name result is refused with -1/EINVAL; errno as the wrapped parser left it otherwise */
#define XV_DP_RESULT (__CPROVER_return_value == ((xv_pf_rv == 0 && xv_pf_type == (int)xcm_addr_type_ip) ? 0 : -1) && \
                      (xv_pf_rv == -1 ==> xv_errno == xv_pf_errno) && ((xv_pf_rv == 0 && xv_pf_type != (int)xcm_addr_type_ip) ==> xv_errno == EINVAL) && \
                      (__CPROVER_return_value == 0 ==> xv_errno == xv_pf_errno))
/* outputs: the address and port the wrapped parser delivered (family, IPv4 word, every IPv6 byte; network byte order untouched); nothing on failure */
#define XV_DP_OUTPUTS(ip_, port) ((__CPROVER_return_value == 0 ==> (XV_FAM_OK((ip_)->family) && (int)(ip_)->family == xv_pf_family && (ip_)->addr.ip4 == xv_pf_ip4 && (ip_)->addr.ip6[xv_i16] == xv_pf_ipb && *(port) == xv_pf_port)) && \
                                  (__CPROVER_return_value == -1 ==> (XV_IPB(ip_, xv_hb) == __CPROVER_old(XV_IPB(ip_, xv_hb)) && *(port) == __CPROVER_old(*(port)))))
#define XV_DP_ASSIGNS(ip_, port) xv_errno, XV_PF_GHOSTS, __CPROVER_object_whole(ip_), *(port)

static int delegate_parse(int (parse_fun)(const char *, struct xcm_addr_host *, uint16_t *port), const char *addr_s, struct xcm_addr_ip *ip, uint16_t *port)
__CPROVER_requires(XV_PFUN_OK(parse_fun) && XV_DP_PRE(addr_s, ip, port))
__CPROVER_assigns(XV_DP_ASSIGNS(ip, port))
/* PO[C12] delegate_parse.wraps: the parser given is called exactly once, with the caller's string */
__CPROVER_ensures(XV_DP_WRAPS(XV_PFUN_PK(parse_fun), addr_s))
/* PO[C12] delegate_parse.result: result and errno are the wrapped parser's, except that a DNS-name host is refused with -1/EINVAL */
__CPROVER_ensures(XV_DP_RESULT)
/* PO[C12] delegate_parse.outputs: on success the wrapped parser's address and port, unchanged; on failure nothing */
__CPROVER_ensures(XV_DP_OUTPUTS(ip, port))
;
#define XV_PSIX_CONTRACT(fn, pk) \
    int fn(const char *addr_s, struct xcm_addr_ip *ip, uint16_t *port) \
    __CPROVER_requires(XV_DP_PRE(addr_s, ip, port)) \
    __CPROVER_assigns(XV_DP_ASSIGNS(ip, port)) \
    __CPROVER_ensures(XV_DP_WRAPS(pk, addr_s) && XV_DP_RESULT && XV_DP_OUTPUTS(ip, port))
/* PO[C12] xcm_addr_utls6_parse.as_new_api_ip_only */
XV_PSIX_CONTRACT(xcm_addr_utls6_parse, XV_P_UTLS);
/* PO[C12] xcm_addr_tls6_parse.as_new_api_ip_only */
XV_PSIX_CONTRACT(xcm_addr_tls6_parse, XV_P_TLS);
/* PO[C12] xcm_addr_tcp6_parse.as_new_api_ip_only */
XV_PSIX_CONTRACT(xcm_addr_tcp6_parse, XV_P_TCP);
/* PO[C12] xcm_addr_sctp6_parse.as_new_api_ip_only */
XV_PSIX_CONTRACT(xcm_addr_sctp6_parse, XV_P_SCTP);

/* --- IPv4-only parsers (parse6_call and the three xcm_addr_X_parse) */
#define XV_P4_PRE(addr_s, ip_, port) (__CPROVER_is_fresh(addr_s, 8) && __CPROVER_is_fresh(ip_, sizeof(in_addr_t)) && __CPROVER_is_fresh(port, sizeof(uint16_t)) && XV_PF_PRE && XV_HB_IP_OK)
#define XV_P4_OK (xv_pf_rv == 0 && xv_pf_type == (int)xcm_addr_type_ip && xv_pf_family == AF_INET)
/* result: the new-API parser's, restricted to IPv4 addresses: a DNS name or an IPv6 address is refused with -1/EINVAL */
#define XV_P4_RESULT (__CPROVER_return_value == (XV_P4_OK ? 0 : -1) && (xv_pf_rv == -1 ==> xv_errno == xv_pf_errno) && \
                      ((xv_pf_rv == 0 && !XV_P4_OK) ==> xv_errno == EINVAL) && (__CPROVER_return_value == 0 ==> xv_errno == xv_pf_errno))
/* outputs: the IPv4 word (network byte order, as delivered) and the port; nothing on failure */
#define XV_P4_OUTPUTS(ip_, port) ((__CPROVER_return_value == 0 ==> (*(ip_) == xv_pf_ip4 && *(port) == xv_pf_port)) && \
                                  (__CPROVER_return_value == -1 ==> (*(ip_) == __CPROVER_old(*(ip_)) && *(port) == __CPROVER_old(*(port)))))
static int parse6_call(int (*parse6_fun)(const char *tls_addr_s, struct xcm_addr_ip *ip, uint16_t *port), const char *addr_s, in_addr_t *ip, uint16_t *port)
__CPROVER_requires(XV_P6FUN_OK(parse6_fun) && XV_P4_PRE(addr_s, ip, port))
__CPROVER_assigns(xv_errno, XV_PF_GHOSTS, *ip, *port)
/* PO[C12] parse6_call.wraps */
__CPROVER_ensures(XV_DP_WRAPS(XV_P6FUN_PK(parse6_fun), addr_s))
/* PO[C12] parse6_call.result: IPv6 results and DNS names are refused with -1/EINVAL, everything else is the wrapped function's */
__CPROVER_ensures(XV_P4_RESULT)
/* PO[C12] parse6_call.outputs: the IPv4 address in network byte order and the port, as delivered; nothing on failure */
__CPROVER_ensures(XV_P4_OUTPUTS(ip, port))
;
#define XV_PFOUR_CONTRACT(fn, pk) \
    int fn(const char *addr_s, in_addr_t *ip, uint16_t *port) \
    __CPROVER_requires(XV_P4_PRE(addr_s, ip, port)) \
    __CPROVER_assigns(xv_errno, XV_PF_GHOSTS, *ip, *port) \
    __CPROVER_ensures(XV_DP_WRAPS(pk, addr_s) && XV_P4_RESULT && XV_P4_OUTPUTS(ip, port))
/* PO[C12] xcm_addr_utls_parse.as_new_api_ipv4_only */
XV_PFOUR_CONTRACT(xcm_addr_utls_parse, XV_P_UTLS);
/* PO[C12] xcm_addr_tls_parse.as_new_api_ipv4_only */
XV_PFOUR_CONTRACT(xcm_addr_tls_parse, XV_P_TLS);
/* PO[C12] xcm_addr_tcp_parse.as_new_api_ipv4_only */
XV_PFOUR_CONTRACT(xcm_addr_tcp_parse, XV_P_TCP);

/* PO[C12] xcm_addr_ux_parse.as_new_api */
XV_UXP_CONTRACT(xcm_addr_ux_parse, XV_P_UX);

/* --- makers: an IP host built from the caller's address goes to the new-API maker with port, buffer and capacity */
#define XV_DM_PRE(ip_, out, cap) (__CPROVER_is_fresh(ip_, sizeof(struct xcm_addr_ip)) && (cap) <= XV_CAP_MAX && XV_OUT(out, cap) && XV_MK_PRE)
#define XV_DM_POST(pk, ip_, port, out, cap) (XV_MK_CALL(pk, port, out, cap) && XV_MK_IPREC(ip_) && MAKE_HONEST(__CPROVER_return_value, cap) && MAKE_FAIL(__CPROVER_return_value) && \
                                             XV_MK_IP_OK(xcm_addr_type_ip, (ip_)->family, cap))
static int delegate_make(int (make_fun)(const struct xcm_addr_host *, uint16_t port, char *, size_t), const struct xcm_addr_ip *ip, uint16_t port, char *addr_s, size_t capacity)
__CPROVER_requires(XV_MFUN_OK(make_fun) && XV_DM_PRE(ip, addr_s, capacity))
__CPROVER_assigns(XV_MK_ASSIGNS)
__CPROVER_assigns(capacity > 0: __CPROVER_object_upto(addr_s, capacity))
/* PO[C12] delegate_make.wraps: the maker given is called exactly once with an IP host holding the caller's family and address bytes, the caller's port, buffer and capacity; result and errno are its */
__CPROVER_ensures(XV_DM_POST(XV_MFUN_PK(make_fun), ip, port, addr_s, capacity))
;
#define XV_MSIX_CONTRACT(fn, pk) \
    int fn(const struct xcm_addr_ip *ip, uint16_t port, char *out, size_t capacity) \
    __CPROVER_requires(XV_DM_PRE(ip, out, capacity)) \
    __CPROVER_assigns(XV_MK_ASSIGNS) \
    __CPROVER_assigns(capacity > 0: __CPROVER_object_upto(out, capacity)) \
    __CPROVER_ensures(XV_DM_POST(pk, ip, port, out, capacity))
/* PO[C12] xcm_addr_utls6_make.as_new_api */
XV_MSIX_CONTRACT(xcm_addr_utls6_make, XV_P_UTLS);
/* PO[C12] xcm_addr_tls6_make.as_new_api */
XV_MSIX_CONTRACT(xcm_addr_tls6_make, XV_P_TLS);
/* PO[C12] xcm_addr_tcp6_make.as_new_api */
XV_MSIX_CONTRACT(xcm_addr_tcp6_make, XV_P_TCP);
/* PO[C12] xcm_addr_sctp6_make.as_new_api */
XV_MSIX_CONTRACT(xcm_addr_sctp6_make, XV_P_SCTP);
/* IPv4 word in, AF_INET host out: same bits (network byte order is not touched) */
#define XV_MFOUR_CONTRACT(fn, pk) \
    int fn(in_addr_t ip4, unsigned short port, char *out, size_t capacity) \
    __CPROVER_requires(capacity <= XV_CAP_MAX && XV_OUT(out, capacity) && XV_MK_PRE) \
    __CPROVER_assigns(XV_MK_ASSIGNS) \
    __CPROVER_assigns(capacity > 0: __CPROVER_object_upto(out, capacity)) \
    __CPROVER_ensures(XV_MK_CALL(pk, port, out, capacity) && xv_mk_type == (int)xcm_addr_type_ip && xv_mk_family == AF_INET && xv_mk_ip4 == ip4 && \
                      MAKE_HONEST(__CPROVER_return_value, capacity) && MAKE_FAIL(__CPROVER_return_value) && (capacity >= XV_IP_ADDR_ROOM ==> __CPROVER_return_value == 0))
/* PO[C12] xcm_addr_utls_make.as_new_api_ipv4 */
XV_MFOUR_CONTRACT(xcm_addr_utls_make, XV_P_UTLS);
/* PO[C12] xcm_addr_tls_make.as_new_api_ipv4 */
XV_MFOUR_CONTRACT(xcm_addr_tls_make, XV_P_TLS);
/* PO[C12] xcm_addr_tcp_make.as_new_api_ipv4 */
XV_MFOUR_CONTRACT(xcm_addr_tcp_make, XV_P_TCP);
/* PO[C12] xcm_addr_ux_make.as_new_api */
XV_UXM_CONTRACT(xcm_addr_ux_make, XV_P_UX);
#endif /* XV_AP_COMPAT */

/* ================================================================================================================ */
#ifdef XV_AP_TP
/* ---- libxcm/tp/common/common_tp.c: struct xcm_addr_ip <-> struct sockaddr_in / sockaddr_in6 ---------------------------- */
#define XV_SS_SIZE sizeof(struct sockaddr_storage)
#define XV_SIN(p) ((struct sockaddr_in *)(p))
#define XV_SIN6(p) ((struct sockaddr_in6 *)(p))
/* tp_ip_to_sockaddr.  Preconditions: the family is AF_INET or AF_INET6 (anything else is ut_assert'ed), and for IPv6 the
 * scope fits sin6_scope_id (uint32_t) - tcp's ipv6.scope setter enforces 0..UINT32_MAX and btcp_server's conf_scope() /
 * tconnect's track_get_current_scope() turn the "unset" value -1 into 0 first (see the report: one caller does not). */
void tp_ip_to_sockaddr(const struct xcm_addr_ip *xcm_ip, uint16_t port, int64_t scope, struct sockaddr *sockaddr)
__CPROVER_requires(__CPROVER_is_fresh(xcm_ip, sizeof(*xcm_ip)) && XV_FAM_OK(xcm_ip->family) && __CPROVER_is_fresh(sockaddr, XV_SS_SIZE))
__CPROVER_requires(xcm_ip->family == AF_INET6 ==> (scope >= 0 && scope <= UINT32_MAX))
__CPROVER_requires(xv_hb >= 0 && xv_hb < (long)XV_SS_SIZE)
__CPROVER_assigns(__CPROVER_object_upto(sockaddr, XV_SS_SIZE))
/* PO[C12] tp_ip_to_sockaddr.inet: an AF_INET address becomes a sockaddr_in with the same address word and port (both already in network byte order: copied, not converted); every other byte of the sockaddr_storage is zero */
__CPROVER_ensures(xcm_ip->family == AF_INET ==> (XV_SIN(sockaddr)->sin_family == AF_INET && XV_SIN(sockaddr)->sin_addr.s_addr == xcm_ip->addr.ip4 && XV_SIN(sockaddr)->sin_port == port && \
                  (xv_hb >= 8 ==> ((const uint8_t *)sockaddr)[xv_hb] == 0)))
/* PO[C12] tp_ip_to_sockaddr.inet6: an AF_INET6 address becomes a sockaddr_in6 with the same 16 address bytes, port and scope id, flow info 0; every other byte of the sockaddr_storage is zero */
__CPROVER_ensures(xcm_ip->family == AF_INET6 ==> (XV_SIN6(sockaddr)->sin6_family == AF_INET6 && XV_SIN6(sockaddr)->sin6_port == port && XV_SIN6(sockaddr)->sin6_flowinfo == 0 && \
                  (int64_t)XV_SIN6(sockaddr)->sin6_scope_id == scope && (xv_mc < 16 ==> XV_SIN6(sockaddr)->sin6_addr.s6_addr[xv_mc] == xcm_ip->addr.ip6[xv_mc]) && \
                  (xv_hb >= 28 ==> ((const uint8_t *)sockaddr)[xv_hb] == 0)))
;
static void sockaddr_to_ip(struct sockaddr_storage *sock_addr, struct xcm_addr_ip *xcm_ip, uint16_t *port)
__CPROVER_requires(__CPROVER_is_fresh(sock_addr, XV_SS_SIZE) && XV_FAM_OK(sock_addr->ss_family) && __CPROVER_is_fresh(xcm_ip, sizeof(*xcm_ip)) && __CPROVER_is_fresh(port, sizeof(*port)))
__CPROVER_assigns(__CPROVER_object_upto(xcm_ip, sizeof(*xcm_ip)), *port)
/* PO[C12] sockaddr_to_ip.inet: family, address word and port of a sockaddr_in, as they are (network byte order) */
__CPROVER_ensures(sock_addr->ss_family == AF_INET ==> (xcm_ip->family == AF_INET && xcm_ip->addr.ip4 == XV_SIN(sock_addr)->sin_addr.s_addr && *port == XV_SIN(sock_addr)->sin_port))
/* PO[C12] sockaddr_to_ip.inet6: family, the 16 address bytes and port of a sockaddr_in6, as they are */
__CPROVER_ensures(sock_addr->ss_family == AF_INET6 ==> (xcm_ip->family == AF_INET6 && *port == XV_SIN6(sock_addr)->sin6_port && \
                  (xv_mc < 16 ==> xcm_ip->addr.ip6[xv_mc] == XV_SIN6(sock_addr)->sin6_addr.s6_addr[xv_mc])))
;
static void sockaddr_to_host(struct sockaddr_storage *sock_addr, struct xcm_addr_host *xcm_host, uint16_t *port)
__CPROVER_requires(__CPROVER_is_fresh(sock_addr, XV_SS_SIZE) && XV_FAM_OK(sock_addr->ss_family) && __CPROVER_is_fresh(xcm_host, sizeof(*xcm_host)) && __CPROVER_is_fresh(port, sizeof(*port)))
__CPROVER_assigns(__CPROVER_object_upto(xcm_host, sizeof(*xcm_host)), *port)
/* PO[C12] sockaddr_to_host.ip_host: an IP-typed host holding what sockaddr_to_ip delivers */
__CPROVER_ensures(xcm_host->type == xcm_addr_type_ip && xcm_host->ip.family == sock_addr->ss_family)
__CPROVER_ensures(sock_addr->ss_family == AF_INET ==> (xcm_host->ip.addr.ip4 == XV_SIN(sock_addr)->sin_addr.s_addr && *port == XV_SIN(sock_addr)->sin_port))
__CPROVER_ensures(sock_addr->ss_family == AF_INET6 ==> (*port == XV_SIN6(sock_addr)->sin6_port && (xv_mc < 16 ==> xcm_host->ip.addr.ip6[xv_mc] == XV_SIN6(sock_addr)->sin6_addr.s6_addr[xv_mc])))
;
/* the makers: ASSUMED with the text ENFORCED on them in the XV_AP_ADDR jobs (addrpub.make_wrap@sctp/btcp/btls) */
XV_MK_CONTRACT(xcm_addr_make_sctp, XV_P_SCTP, uint16_t, 5); XV_MK_CONTRACT(xcm_addr_make_btcp, XV_P_BTCP, unsigned short, 5); XV_MK_CONTRACT(xcm_addr_make_btls, XV_P_BTLS, unsigned short, 5);
/* tp_sockaddr_to_X_addr: the address of a socket (getsockname/getpeername/accept: AF_INET or AF_INET6) as an XCM address
 * string.  It ut_assert()s that the maker succeeded: with an IP host, a valid family and a buffer of at least
 * XV_IP_ADDR_ROOM bytes (every caller passes XCM_ADDR_MAX + 1 = 579) that is XV_MK_IP_OK, so the abort is unreachable. */
#define XV_STOA_CONTRACT(fn, pk) \
    void fn(struct sockaddr_storage *sock_addr, char *xcm_addr, size_t capacity) \
    __CPROVER_requires(__CPROVER_is_fresh(sock_addr, XV_SS_SIZE) && XV_FAM_OK(sock_addr->ss_family) && capacity >= XV_IP_ADDR_ROOM && capacity <= XV_CAP_MAX && XV_OUT(xcm_addr, capacity) && XV_MK_PRE) \
    __CPROVER_assigns(XV_MK_ASSIGNS) \
    __CPROVER_assigns(capacity > 0: __CPROVER_object_upto(xcm_addr, capacity)) \
    __CPROVER_ensures(xv_mk_calls == __CPROVER_old(xv_mk_calls) + 1 && xv_mk_proto == (pk) && xv_mk_cap == capacity && XV_BEQ(xv_mk_out, xcm_addr == xv_t_out) && xv_mk_rv == 0 && \
                      xv_mk_type == (int)xcm_addr_type_ip && xv_mk_family == (int)sock_addr->ss_family && \
                      (sock_addr->ss_family == AF_INET ? (xv_mk_ip4 == XV_SIN(sock_addr)->sin_addr.s_addr && xv_mk_port == XV_SIN(sock_addr)->sin_port) \
                                                       : ((xv_mc < 16 ==> xv_mk_ipb == XV_SIN6(sock_addr)->sin6_addr.s6_addr[xv_mc]) && xv_mk_port == XV_SIN6(sock_addr)->sin6_port)) && \
                      MAKE_HONEST(0, capacity))
/* PO[C12] tp_sockaddr_to_sctp_addr.made_from_the_sockaddr */
XV_STOA_CONTRACT(tp_sockaddr_to_sctp_addr, XV_P_SCTP);
/* PO[C12] tp_sockaddr_to_btcp_addr.made_from_the_sockaddr */
XV_STOA_CONTRACT(tp_sockaddr_to_btcp_addr, XV_P_BTCP);
/* PO[C12] tp_sockaddr_to_btls_addr.made_from_the_sockaddr */
XV_STOA_CONTRACT(tp_sockaddr_to_btls_addr, XV_P_BTLS);
#endif /* XV_AP_TP */

#include "contracts/end.h"
#endif
