/* contracts/addrpub.h -- unit addrpub (C12): what units addr and addrconv left out of the address code.
 *   XV_AP_ADDR    libxcm/core/xcm_addr.c: has_space, proto_addr_parse, xcm_addr_parse_proto, host_parse, host_port_make,
 *                 the sixteen public xcm_addr_parse_X / xcm_addr_make_X wrappers
 *   XV_AP_DNS     libxcm/tp/dns/xcm_dns.c: xcm_dns_is_valid_name (length gate; the regex verdict is libc's)
 *   XV_AP_COMPAT  libxcm/core/xcm_addr_compat.c: the old API (delegate_parse, delegate_make, parse6_call, public functions)
 *   XV_AP_TP      libxcm/tp/common/common_tp.c: tp_ip_to_sockaddr, sockaddr_to_ip, sockaddr_to_host, tp_sockaddr_to_X_addr
 * Contracts are attached by redeclaration after the real TU has been #included.
 *
 * ONE GHOST VOCABULARY runs through all levels, so that every function has ONE contract text, the same when it is
 * enforced on its real body and when a caller assumes it:
 *   xv_pf_*  what the innermost parser (host_port_parse / addr_parse_ux_uxf: enforced in unit addr, ASSUMED here with a
 *            record of its arguments and results) was given and delivered.  xcm_addr_parse_X, delegate_parse,
 *            xcm_addr_X6_parse, parse6_call, xcm_addr_X_parse state their result in terms of it.
 *   xv_mk_*  what the innermost maker (name_port_make / ip_port_make / addr_make_ux_uxf: enforced in unit addr, ASSUMED
 *            here with a record) was given and returned.  host_port_make, xcm_addr_make_X, delegate_make,
 *            xcm_addr_X6_make, xcm_addr_X_make, tp_sockaddr_to_X_addr state theirs in terms of it.
 * Protocol names are recorded as a packed integer (XV_PK); pointers as "equals the tracked pointer" bits (the tracked
 * pointers xv_t_* are never assigned: arbitrary).
 */
#ifndef XV_ADDRPUB_H
#define XV_ADDRPUB_H
#include "contracts/begin.h"
#include "xcm_addr_limits.h"
#include <linux/un.h>

#define XV_CAP_MAX 2048   /* output capacities above this are not explored (is_fresh needs a bound) */
#define XV_OUT(p, cap) __CPROVER_is_fresh((p), (cap) == 0 ? 1 : (cap))
#define XV_NAME_ROOM (sizeof(((struct xcm_addr_host *)0)->name))      /* 254 */

/* ---- ghosts shared by all sections ---------------------------------------------------------------------------- */
long xv_i16;                    /* arbitrary index into a 16-byte IPv6 address (never assigned) */
long xv_nj;                     /* arbitrary index into host->name (never assigned) */
long xv_hb;                     /* arbitrary byte offset into an output object (never assigned) */
uint8_t xv_g_b0, xv_g_b1;       /* ghost constants bound to entry values by requires clauses (never assigned) */
#define XV_I16_OK (xv_i16 >= 0 && xv_i16 < 16)
#define XV_NJ_OK (xv_nj >= 0 && xv_nj < (long)XV_NAME_ROOM)
/* protocol name as an integer: up to five characters, little end first; 0xff in byte 5 = longer than that */
#define XV_PB(p, i) ((uint64_t)(uint8_t)(p)[i] << (8 * (i)))
#define XV_PK(p) ((p)[0] == 0 ? (uint64_t)0 : (p)[1] == 0 ? XV_PB(p, 0) : (p)[2] == 0 ? (XV_PB(p, 0) | XV_PB(p, 1)) : \
                  (p)[3] == 0 ? (XV_PB(p, 0) | XV_PB(p, 1) | XV_PB(p, 2)) : (p)[4] == 0 ? (XV_PB(p, 0) | XV_PB(p, 1) | XV_PB(p, 2) | XV_PB(p, 3)) : \
                  (p)[5] == 0 ? (XV_PB(p, 0) | XV_PB(p, 1) | XV_PB(p, 2) | XV_PB(p, 3) | XV_PB(p, 4)) : ((uint64_t)0xff << 40))
#define XV_PC(c, i) ((uint64_t)(uint8_t)(c) << (8 * (i)))
#define XV_P_UX   (XV_PC('u', 0) | XV_PC('x', 1))
#define XV_P_UXF  (XV_PC('u', 0) | XV_PC('x', 1) | XV_PC('f', 2))
#define XV_P_TCP  (XV_PC('t', 0) | XV_PC('c', 1) | XV_PC('p', 2))
#define XV_P_TLS  (XV_PC('t', 0) | XV_PC('l', 1) | XV_PC('s', 2))
#define XV_P_UTLS (XV_PC('u', 0) | XV_PC('t', 1) | XV_PC('l', 2) | XV_PC('s', 3))
#define XV_P_SCTP (XV_PC('s', 0) | XV_PC('c', 1) | XV_PC('t', 2) | XV_PC('p', 3))
#define XV_P_BTCP (XV_PC('b', 0) | XV_PC('t', 1) | XV_PC('c', 2) | XV_PC('p', 3))
#define XV_P_BTLS (XV_PC('b', 0) | XV_PC('t', 1) | XV_PC('l', 2) | XV_PC('s', 3))
#define XV_BEQ(a, b) (!(a) == !(b))
#define XV_ISSPACE2(c) ((c) == 32)

/* ================================================================================================================ */
#if defined(XV_AP_ADDR) || defined(XV_AP_DNS)
/* the input string (env/addrpub_env.h): an object of exactly xv_in_len + 1 bytes, NUL at xv_in_len, no NUL at the
 * arbitrary position xv_j before it */
#define XV_IN_MAXLEN 4096      /* input strings longer than this are not explored (is_fresh needs a bound); > 7 * XCM_ADDR_MAX */
#define XV_INSTR(s) (xv_in_len <= XV_IN_MAXLEN && __CPROVER_is_fresh((s), xv_in_len + 1) && (s)[xv_in_len] == 0 && \
                     (XV_J_IN(0, xv_in_len) ==> (s)[xv_j] != 0))

/* ---- xcm_dns_is_valid_name: the length gate is real code, the verdict on the syntax is regexec's (TRUSTED) */
bool xcm_dns_is_valid_name(const char *name)
__CPROVER_requires(XV_INSTR(name) && xv_regexec_calls >= 0 && xv_regexec_calls < 100)
__CPROVER_assigns(xv_regexec_calls, xv_regexec_ret, xv_regexec_on_input)
/* PO[C12] xcm_dns_is_valid_name.length_gate: a valid name has at most 253 characters - with its NUL it fits struct xcm_addr_host.name - and longer input is refused without asking the regex */
__CPROVER_ensures(__CPROVER_return_value ==> xv_in_len + 1 <= XV_NAME_ROOM)
__CPROVER_ensures(xv_in_len + 1 > XV_NAME_ROOM ==> (!__CPROVER_return_value && xv_regexec_calls == __CPROVER_old(xv_regexec_calls)))
/* PO[C12] xcm_dns_is_valid_name.verdict: otherwise the name itself is matched exactly once and the match decides */
__CPROVER_ensures(xv_in_len + 1 <= XV_NAME_ROOM ==> (xv_regexec_calls == __CPROVER_old(xv_regexec_calls) + 1 && xv_regexec_on_input && \
                                                      XV_BEQ(__CPROVER_return_value, xv_regexec_ret == 0)))
;
#endif

/* ================================================================================================================ */
#ifdef XV_AP_ADDR
/* ---- has_space -------------------------------------------------------------------------------------------------- */
/* its only caller reaches it with at most XCM_ADDR_MAX characters (short-circuit ||): checked as a precondition there */
static bool has_space(const char *s)
__CPROVER_requires(XV_INSTR(s) && xv_in_len <= XCM_ADDR_MAX)
__CPROVER_assigns()
/* PO[C12] has_space.none_missed: false only if no character of the string is white space (stated for the arbitrary position xv_j) */
__CPROVER_ensures((!__CPROVER_return_value && XV_J_IN(0, xv_in_len)) ==> !XV_ISSPACE(s[xv_j]))
/* PO[C12] has_space.no_false_alarm: true only if some character of the string is white space */
//XX__CPROVER_ensures(__CPROVER_return_value ==> __CPROVER_exists { size_t k_; (k_ <= XCM_ADDR_MAX) && (k_ < xv_in_len && XV_ISSPACE2(s[k_])) })
;

/* ---- proto_addr_parse ------------------------------------------------------------------------------------------- */
/* ghosts of the string models: xv_chr_found / xv_chr_pos = what strchr(addr_s, ':') answered (position of the FIRST ':'),
 * xv_ncpy_len / xv_cpy_len = lengths of the two strings produced (the xv_pp_len / xv_pa_len of contracts/addr.h) */
#define xv_pp_len xv_ncpy_len
#define xv_pa_len xv_cpy_len
#define PAP_REST (xv_in_len - xv_chr_pos - 1)         /* length of the text after the first ':' */
#define PAP_WELLFORMED(s) (xv_in_len <= XCM_ADDR_MAX && xv_chr_found && xv_chr_pos < xv_in_len && (s)[xv_chr_pos] == ':' && xv_chr_pos <= XCM_ADDR_MAX_PROTO_LEN && \
                           (XV_J_IN(0, xv_in_len) ==> !XV_ISSPACE((s)[xv_j])) && (XV_J_IN(0, xv_chr_pos) ==> (s)[xv_j] != ':'))
static int proto_addr_parse(const char *addr_s, char *proto, size_t proto_capacity, char *proto_addr, size_t proto_addr_capacity)
__CPROVER_requires(XV_INSTR(addr_s))
__CPROVER_requires(proto_capacity <= XV_CAP_MAX && XV_OUT(proto, proto_capacity) && proto_addr_capacity <= XV_CAP_MAX && XV_OUT(proto_addr, proto_addr_capacity))
__CPROVER_requires(xv_hb >= 0 && xv_hb < XV_CAP_MAX && (xv_hb < (long)proto_capacity ==> (uint8_t)proto[xv_hb] == xv_g_b0) && (xv_hb < (long)proto_addr_capacity ==> (uint8_t)proto_addr[xv_hb] == xv_g_b1))
__CPROVER_requires(xv_chr_calls >= 0 && xv_chr_calls < 100)
/* the frame: errno, the records of the string models, and the two buffers WITHIN their capacities - nothing else */
__CPROVER_assigns(xv_errno, xv_chr_calls, xv_chr_found, xv_chr_pos, xv_ncpy_len, xv_cpy_len)
__CPROVER_assigns(proto_capacity > 0: __CPROVER_object_upto(proto, proto_capacity))
__CPROVER_assigns(proto_addr_capacity > 0: __CPROVER_object_upto(proto_addr, proto_addr_capacity))
/* (text of contracts/addr.h, both instantiations) */
__CPROVER_ensures(__CPROVER_return_value == 0 || (__CPROVER_return_value == -1 && (xv_errno == EINVAL || xv_errno == ENAMETOOLONG)))
__CPROVER_ensures(__CPROVER_return_value == 0 ==> (xv_pa_len < proto_addr_capacity && xv_pa_len <= XCM_ADDR_MAX && proto_addr[xv_pa_len] == 0))
__CPROVER_ensures(__CPROVER_return_value == 0 ==> (xv_pa_len <= XCM_ADDR_MAX && proto_addr[xv_pa_len] == 0 && ((xv_j >= 0 && (size_t)xv_j < xv_pa_len) ==> proto_addr[xv_j] != 0)))
__CPROVER_ensures(__CPROVER_return_value == 0 ==> (xv_pp_len <= XCM_ADDR_MAX_PROTO_LEN && proto[xv_pp_len] == 0 && ((xv_j >= 0 && (size_t)xv_j < xv_pp_len) ==> proto[xv_j] != 0)))
/* PO[C12] proto_addr_parse.accepts_only_wellformed: success only for at most XCM_ADDR_MAX characters, none of them white space, with a ':' whose first occurrence leaves a protocol part of at most XCM_ADDR_MAX_PROTO_LEN characters */
__CPROVER_ensures(__CPROVER_return_value == 0 ==> PAP_WELLFORMED(addr_s))
/* PO[C12] proto_addr_parse.fits: success only if both parts fit their buffers together with their NUL (capacity 0 never succeeds) */
__CPROVER_ensures(__CPROVER_return_value == 0 ==> (xv_chr_pos < proto_capacity && PAP_REST < proto_addr_capacity))
/* PO[C12] proto_addr_parse.outputs_exact: the outputs are NUL-terminated and are exactly the text before / after the first ':' */
__CPROVER_ensures(__CPROVER_return_value == 0 ==> (xv_pp_len == xv_chr_pos && proto[xv_chr_pos] == 0 && (XV_J_IN(0, xv_chr_pos) ==> proto[xv_j] == addr_s[xv_j])))
__CPROVER_ensures(__CPROVER_return_value == 0 ==> (xv_pa_len == PAP_REST && proto_addr[PAP_REST] == 0 && (XV_J_IN(0, PAP_REST) ==> proto_addr[xv_j] == addr_s[xv_chr_pos + 1 + (size_t)xv_j])))
/* PO[C12] proto_addr_parse.refuses_for_a_reason: EINVAL only for an over-long string, white space, no ':' or an over-long protocol part; ENAMETOOLONG only for a well-formed string one of whose parts does not fit */
__CPROVER_ensures((__CPROVER_return_value == -1 && xv_errno == EINVAL) ==> ( \
        xv_in_len > XCM_ADDR_MAX || \
        __CPROVER_exists { size_t k_; (k_ <= XCM_ADDR_MAX) && (k_ < xv_in_len && XV_ISSPACE(addr_s[k_])) } || \
        (!xv_chr_found && (XV_J_IN(0, xv_in_len) ==> addr_s[xv_j] != ':')) || \
        (xv_chr_found && xv_chr_pos < xv_in_len && addr_s[xv_chr_pos] == ':' && xv_chr_pos > XCM_ADDR_MAX_PROTO_LEN)))
__CPROVER_ensures((__CPROVER_return_value == -1 && xv_errno == ENAMETOOLONG) ==> (PAP_WELLFORMED(addr_s) && (xv_chr_pos >= proto_capacity || PAP_REST >= proto_addr_capacity)))
/* failure writes nothing into either buffer (byte at the arbitrary offset xv_hb) */
__CPROVER_ensures(__CPROVER_return_value == -1 ==> ((xv_hb < (long)proto_capacity ==> (uint8_t)proto[xv_hb] == xv_g_b0) && (xv_hb < (long)proto_addr_capacity ==> (uint8_t)proto_addr[xv_hb] == xv_g_b1)))
;
#endif /* XV_AP_ADDR */

#include "contracts/end.h"
#endif
