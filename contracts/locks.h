/* contracts/locks.h -- unit `locks`: lock discipline for process-wide state (C15), the SSL_CTX cache (C18, C08)
 *   part TP (XV_LOCKS_TP): get_next_sock_id            of libxcm/tp/common/xcm_tp.c
 *   part CS (XV_LOCKS_CS): cache_*, ctx_store_*, ...   of libxcm/tp/tls/ctx_store.c (+ item.c)
 * The lock model (acquire/release obligations, "other threads ran" havoc, ghost snapshots) is env/locks_env.h.
 */
#ifndef XV_LOCKS_H
#define XV_LOCKS_H
#include "contracts/begin.h"

#ifdef XV_LOCKS_TP
/* get_next_sock_id: C15 "socket ids ... accessed without data races".
 * Schedule-independent argument: next_id is touched only between acquire and release of next_id_lock; the value returned
 * is the value THIS critical section found (xv_id_seen, chosen arbitrarily by the model at acquire = whatever the other
 * threads left), and the critical section publishes exactly that value + 1.  Since critical sections of one mutex are
 * totally ordered and get_next_sock_id is the only function that names next_id (file-scope static, xcm_tp.c:31,36-38),
 * every critical section finds what its predecessor published: ids are handed out once each.
 *   - "taken exactly once, released before return": acq/rel counters + !held
 *   - "no access outside the critical section": a read made after the release sees an arbitrary value (the release stub
 *     havocs next_id), so it could not satisfy `return == seen`; a write made before the acquire or after the release
 *     makes next_id differ from the shadow copy the model keeps (checked at acquire and in the postcondition). */
static int64_t get_next_sock_id(void)
__CPROVER_requires(!xv_lk_held && XV_LK_CNT_OK && next_id == xv_id_shadow)
__CPROVER_assigns(XV_LK_ASSIGNS, XV_ID_ASSIGNS)
/* PO[C15] get_next_sock_id.lock_taken_once_and_released */
__CPROVER_ensures(!xv_lk_held && xv_lk_acq == __CPROVER_old(xv_lk_acq) + 1 && xv_lk_rel == __CPROVER_old(xv_lk_rel) + 1)
/* PO[C15] get_next_sock_id.id_is_the_value_seen_inside_the_critical_section */
__CPROVER_ensures(__CPROVER_return_value == xv_id_seen)
/* PO[C15] get_next_sock_id.publishes_id_plus_one */
__CPROVER_ensures(xv_id_pub == __CPROVER_return_value + 1)
/* PO[C15] get_next_sock_id.next_id_not_written_after_release */
__CPROVER_ensures(next_id == xv_id_shadow)
;
#endif /* XV_LOCKS_TP */


#ifdef XV_LOCKS_CS
/* ================================================================================================================
 * ctx_store.c.  The cache is a heap list; every job of this part explores lists of at most XV_CS_MAX (2) entries at
 * acquire (3 at release) and is therefore marked `bounded:`.  use_cnt arithmetic is unbounded (1..INT_MAX-1).
 * Ghost constants (never assigned; bound by requires clauses): xv_g_n list length, xv_g_c0/xv_g_c1 use counts.
 * NOTE entries are always dereferenced through the list (L0/L1 or __CPROVER_old of them), never through a ghost pointer:
 * CBMC cannot dereference a pointer that is merely constrained to be equal to another one. */
unsigned xv_g_n; int xv_g_c0, xv_g_c1;
static inline void xv_cs_ghost_havoc(void) { xv_g_n = nondet_uint(); xv_g_c0 = nondet_int(); xv_g_c1 = nondet_int(); }

#define CE_SZ sizeof(struct cache_entry)
#define L0(C) ((C)->entries.lh_first)
#define L1(C) (L0(C)->elem.le_next)
#define L2(C) (L1(C)->elem.le_next)
#define O0(C) __CPROVER_old(L0(C))      /* first / second entry of the list as the function found it */
#define O1(C) __CPROVER_old(L1(C))
#define CE_OK(e) ((e)->use_cnt >= 1 && (e)->use_cnt < INT_MAX && __CPROVER_is_fresh((e)->ssl_ctx, 1))
/* the helpers' view of the invariant (I1, I2, distinct contexts by is_fresh) for a list of xv_g_n = 0..2 entries with use
 * counts xv_g_c0, xv_g_c1 */
#define CS_LIST(C) ((C) == xv_cachep && xv_g_n <= 2 && \
    (xv_g_n >= 1 ==> __CPROVER_is_fresh(L0(C), CE_SZ)) && (xv_g_n == 0 ==> L0(C) == NULL) && \
    (xv_g_n >= 1 ==> (L0(C)->elem.le_prev == &L0(C) && CE_OK(L0(C)) && L0(C)->use_cnt == xv_g_c0)) && \
    (xv_g_n >= 2 ==> __CPROVER_is_fresh(L1(C), CE_SZ)) && (xv_g_n == 1 ==> L1(C) == NULL) && \
    (xv_g_n >= 2 ==> (L1(C)->elem.le_prev == &L1(C) && CE_OK(L1(C)) && L1(C)->use_cnt == xv_g_c1 && L2(C) == NULL)))
/* 32-byte hash equality spelled out (quantifiers in clauses over heap objects did not evaluate correctly under DFCC) */
#define XV_H4(a, b, i) ((a)[(i)] == (b)[(i)] && (a)[(i) + 1] == (b)[(i) + 1] && (a)[(i) + 2] == (b)[(i) + 2] && (a)[(i) + 3] == (b)[(i) + 3])
#define HASH_SAME(a, b) (XV_H4(a, b, 0) && XV_H4(a, b, 4) && XV_H4(a, b, 8) && XV_H4(a, b, 12) && XV_H4(a, b, 16) && XV_H4(a, b, 20) && XV_H4(a, b, 24) && XV_H4(a, b, 28))
#define HASH_DIFFERS(a, b) (!HASH_SAME(a, b))

/* cache_get: C15 helper requires the lock; C18/C08: the FIRST entry whose 32 hash bytes all equal `hash` gets exactly one
 * more user, nothing else changes (assigns: the two use counts only); NULL iff no listed entry has that hash */
static struct cache_entry *cache_get(struct cache *cache, const uint8_t *hash)
/* PO[C15] cache_get.called_with_lock_held */
__CPROVER_requires(xv_lk_held)
__CPROVER_requires(CS_LIST(cache) && __CPROVER_is_fresh(hash, 32))
__CPROVER_assigns(xv_g_n >= 1: L0(cache)->use_cnt; xv_g_n >= 2: L1(cache)->use_cnt)
__CPROVER_ensures(__CPROVER_return_value == NULL || (xv_g_n >= 1 && __CPROVER_return_value == L0(cache)) || (xv_g_n >= 2 && __CPROVER_return_value == L1(cache)))
/* PO[C18] cache_get.first_entry_hit_iff_hash_equal */
__CPROVER_ensures(xv_g_n >= 1 ==> ((__CPROVER_return_value == L0(cache)) == HASH_SAME(L0(cache)->hash, hash)))
/* PO[C18] cache_get.second_entry_hit_iff_hash_equal_and_first_differs */
__CPROVER_ensures(xv_g_n >= 2 ==> ((__CPROVER_return_value == L1(cache)) == (HASH_DIFFERS(L0(cache)->hash, hash) && HASH_SAME(L1(cache)->hash, hash))))
/* PO[C08,C18] cache_get.one_more_user_on_the_hit_entry_only */
__CPROVER_ensures(xv_g_n >= 1 ==> L0(cache)->use_cnt == xv_g_c0 + (__CPROVER_return_value == L0(cache) ? 1 : 0))
__CPROVER_ensures(xv_g_n >= 2 ==> L1(cache)->use_cnt == xv_g_c1 + (__CPROVER_return_value == L1(cache) ? 1 : 0))
;

/* cache_find_entry: pure look-up by context */
static struct cache_entry *cache_find_entry(struct cache *cache, SSL_CTX *ssl_ctx)
/* PO[C15] cache_find_entry.called_with_lock_held */
__CPROVER_requires(xv_lk_held)
__CPROVER_requires(CS_LIST(cache))
__CPROVER_assigns()
__CPROVER_ensures((xv_g_n >= 1 && L0(cache)->ssl_ctx == ssl_ctx) ==> __CPROVER_return_value == L0(cache))
__CPROVER_ensures((xv_g_n >= 2 && L0(cache)->ssl_ctx != ssl_ctx && L1(cache)->ssl_ctx == ssl_ctx) ==> __CPROVER_return_value == L1(cache))
__CPROVER_ensures(((xv_g_n < 1 || L0(cache)->ssl_ctx != ssl_ctx) && (xv_g_n < 2 || L1(cache)->ssl_ctx != ssl_ctx)) ==> __CPROVER_return_value == NULL)
;

/* cache_install: a NEW entry with exactly one user at the head; listed entries keep hash, context and use count
 * (assigns: list head, the old first entry's back link) */
static struct cache_entry *cache_install(struct cache *cache, const uint8_t *hash, SSL_CTX *ssl_ctx)
/* PO[C15] cache_install.called_with_lock_held */
__CPROVER_requires(xv_lk_held)
__CPROVER_requires(CS_LIST(cache) && __CPROVER_is_fresh(hash, 32) && ssl_ctx != NULL && XV_LIVE_OK(xv_heap_live))
__CPROVER_assigns(L0(cache), xv_heap_live; xv_g_n >= 1: L0(cache)->elem.le_prev)
/* PO[C08,C18] cache_install.new_entry_one_user_this_hash_this_context */
__CPROVER_ensures(__CPROVER_is_fresh(__CPROVER_return_value, CE_SZ) && __CPROVER_return_value->use_cnt == 1 && __CPROVER_return_value->ssl_ctx == ssl_ctx)
__CPROVER_ensures(HASH_SAME(__CPROVER_return_value->hash, hash))
/* PO[C15] cache_install.list_stays_well_formed */
__CPROVER_ensures(L0(cache) == __CPROVER_return_value && __CPROVER_return_value->elem.le_prev == &L0(cache) && __CPROVER_return_value->elem.le_next == O0(cache) && \
                  (xv_g_n >= 1 ==> O0(cache)->elem.le_prev == &__CPROVER_return_value->elem.le_next))
__CPROVER_ensures(xv_heap_live == __CPROVER_old(xv_heap_live) + 1)
;

/* cache_put: the caller holds a reference on ssl_ctx (C08 typestate: btls deinit puts each context it got exactly once).
 * The entry of that context loses one user; at 0 it is unlinked, its SSL_CTX freed exactly once and the entry freed;
 * the other entry keeps its use count, hash and context and stays listed */
#define PUT_FIRST(C, x) (__CPROVER_old(L0(C)->ssl_ctx) == (x))
static void cache_put(struct cache *cache, SSL_CTX *ssl_ctx)
/* PO[C15] cache_put.called_with_lock_held */
__CPROVER_requires(xv_lk_held)
__CPROVER_requires(CS_LIST(cache) && xv_g_n >= 1 && (L0(cache)->ssl_ctx == ssl_ctx || (xv_g_n >= 2 && L1(cache)->ssl_ctx == ssl_ctx)))
__CPROVER_requires(XV_LIVE_OK(xv_heap_live) && XV_LIVE_OK(xv_ctx_live) && XV_LIVE_OK(xv_ctxfree_calls) && xv_ctx_dead == NULL)
__CPROVER_assigns(L0(cache), xv_heap_live, xv_ctx_live, xv_ctxfree_calls, xv_ctxfree_last, xv_ctx_dead, __CPROVER_object_whole(L0(cache)); xv_g_n >= 2: __CPROVER_object_whole(L1(cache)))
__CPROVER_frees(L0(cache), L1(cache))
/* PO[C08,C18] cache_put.first_entry_put_not_last_user */
__CPROVER_ensures((PUT_FIRST(cache, ssl_ctx) && xv_g_c0 > 1) ==> (L0(cache) == O0(cache) && O0(cache)->use_cnt == xv_g_c0 - 1 && O0(cache)->ssl_ctx == ssl_ctx && O0(cache)->elem.le_next == O1(cache) && \
                  xv_ctxfree_calls == __CPROVER_old(xv_ctxfree_calls) && xv_heap_live == __CPROVER_old(xv_heap_live) && (xv_g_n >= 2 ==> O1(cache)->use_cnt == xv_g_c1)))
/* PO[C08,C18] cache_put.first_entry_put_last_user_released_once */
__CPROVER_ensures((PUT_FIRST(cache, ssl_ctx) && xv_g_c0 == 1) ==> (L0(cache) == O1(cache) && __CPROVER_was_freed(O0(cache)) && \
                  xv_ctxfree_calls == __CPROVER_old(xv_ctxfree_calls) + 1 && xv_ctxfree_last == ssl_ctx && xv_heap_live == __CPROVER_old(xv_heap_live) - 1 && \
                  (xv_g_n >= 2 ==> (O1(cache)->use_cnt == xv_g_c1 && O1(cache)->elem.le_prev == &L0(cache) && O1(cache)->elem.le_next == NULL))))
/* PO[C08,C18] cache_put.second_entry_put_not_last_user */
__CPROVER_ensures((!PUT_FIRST(cache, ssl_ctx) && xv_g_c1 > 1) ==> (L0(cache) == O0(cache) && O0(cache)->use_cnt == xv_g_c0 && O0(cache)->elem.le_next == O1(cache) && O1(cache)->use_cnt == xv_g_c1 - 1 && \
                  xv_ctxfree_calls == __CPROVER_old(xv_ctxfree_calls) && xv_heap_live == __CPROVER_old(xv_heap_live)))
/* PO[C08,C18] cache_put.second_entry_put_last_user_released_once */
__CPROVER_ensures((!PUT_FIRST(cache, ssl_ctx) && xv_g_c1 == 1) ==> (L0(cache) == O0(cache) && O0(cache)->use_cnt == xv_g_c0 && O0(cache)->elem.le_next == NULL && __CPROVER_was_freed(O1(cache)) && \
                  xv_ctxfree_calls == __CPROVER_old(xv_ctxfree_calls) + 1 && xv_ctxfree_last == ssl_ctx && xv_heap_live == __CPROVER_old(xv_heap_live) - 1))
/* PO[C18] cache_put.hashes_and_contexts_of_remaining_entries_unchanged */
__CPROVER_ensures((!(PUT_FIRST(cache, ssl_ctx) && xv_g_c0 == 1)) ==> (O0(cache)->hash[xv_hj] == __CPROVER_old(L0(cache)->hash[xv_hj]) && O0(cache)->ssl_ctx == __CPROVER_old(L0(cache)->ssl_ctx)))
__CPROVER_ensures((xv_g_n >= 2 && !(!PUT_FIRST(cache, ssl_ctx) && xv_g_c1 == 1)) ==> (O1(cache)->hash[xv_hj] == __CPROVER_old(L1(cache)->hash[xv_hj]) && O1(cache)->ssl_ctx == __CPROVER_old(L1(cache)->ssl_ctx)))
;
#endif /* XV_LOCKS_CS */

#include "contracts/end.h"
#endif
