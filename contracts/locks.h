/* contracts/locks.h -- unit `locks`: lock discipline for process-wide state (C15), the SSL_CTX cache (C18, C08)
 *   part TP (XV_LOCKS_TP): get_next_sock_id            of libxcm/tp/common/xcm_tp.c
 *   part CS (XV_LOCKS_CS): cache_*, ctx_store_*, ...   of libxcm/tp/tls/ctx_store.c (+ item.c)
 * The lock model (acquire/release obligations, "other threads ran" havoc, ghost snapshots) is env/locks_env.h.
 */
#ifndef XV_LOCKS_H
#define XV_LOCKS_H
#include "contracts/begin.h"

#ifdef XV_LOCKS_TP
/* get_next_sock_id: C15 "socket ids ... accessed without data races".
 * Schedule-independent argument: next_id is touched only between acquire and release of next_id_lock; the value returned
 * is the value THIS critical section found (xv_id_seen, chosen arbitrarily by the model at acquire = whatever the other
 * threads left), and the critical section publishes exactly that value + 1.  Since critical sections of one mutex are
 * totally ordered and get_next_sock_id is the only function that names next_id (file-scope static, xcm_tp.c:31,36-38),
 * every critical section finds what its predecessor published: ids are handed out once each.
 *   - "taken exactly once, released before return": acq/rel counters + !held
 *   - "no access outside the critical section": a read made after the release sees an arbitrary value (the release stub
 *     havocs next_id), so it could not satisfy `return == seen`; a write made before the acquire or after the release
 *     makes next_id differ from the shadow copy the model keeps (checked at acquire and in the postcondition). */
static int64_t get_next_sock_id(void)
__CPROVER_requires(!xv_lk_held && XV_LK_CNT_OK && next_id == xv_id_shadow)
__CPROVER_assigns(XV_LK_ASSIGNS, XV_ID_ASSIGNS)
/* PO[C15] get_next_sock_id.lock_taken_once_and_released */
__CPROVER_ensures(!xv_lk_held && xv_lk_acq == __CPROVER_old(xv_lk_acq) + 1 && xv_lk_rel == __CPROVER_old(xv_lk_rel) + 1)
/* PO[C15] get_next_sock_id.id_is_the_value_seen_inside_the_critical_section */
__CPROVER_ensures(__CPROVER_return_value == xv_id_seen)
/* PO[C15] get_next_sock_id.publishes_id_plus_one */
__CPROVER_ensures(xv_id_pub == __CPROVER_return_value + 1)
/* PO[C15] get_next_sock_id.next_id_not_written_after_release */
__CPROVER_ensures(next_id == xv_id_shadow)
;
#endif /* XV_LOCKS_TP */


#ifdef XV_LOCKS_CS
/* ================================================================================================================
 * ctx_store.c.  The cache is a heap list; every job of this part explores lists of at most XV_CS_MAX (2) entries at
 * acquire (3 at release) and is therefore marked `bounded:`.  use_cnt arithmetic is unbounded (1..INT_MAX-1).
 *
 * The helper contracts below (cache_get, cache_find_entry, cache_install, cache_put) are ENFORCED in their own jobs; each
 * REQUIRES the lock (xv_lk_held) and the invariant of the list.  The harness lets the lock model build the list by
 * assignments: CBMC cannot follow a pointer that a requires clause merely constrains to equal another one, as le_prev
 * would be.  For the same reason these contracts cannot REPLACE the helpers inside ctx_store_get_ctx / ctx_store_put (the
 * entry pointer they return is dereferenced by the caller): there the real helper bodies are inlined, and "the lock is
 * held at every helper entry" follows from what those two jobs prove -- the lock is acquired exactly once and released
 * exactly once (xv_lk_acq/xv_lk_rel +1, not held at exit on every path), every helper call lies between the two (the
 * release stub makes the list unusable afterwards: head, links and use counts become arbitrary pointers/values, so any
 * helper run after the release would fail the pointer checks or the snapshot postconditions). */
#define CE_SZ sizeof(struct cache_entry)
#define L0(C) ((C)->entries.lh_first)
#define L1(C) (L0(C)->elem.le_next)
#define L2(C) (L1(C)->elem.le_next)
#define O0(C) __CPROVER_old(L0(C))      /* first / second entry of the list as the function found it (second: garbage if no first) */
#define O1(C) __CPROVER_old(L1(C))
#define HAD1(C) (O0(C) != NULL)
#define HAD2(C) (O0(C) != NULL && O1(C) != NULL)
#define CE_OK(e) (__CPROVER_rw_ok((e), CE_SZ) && (e)->use_cnt >= 1 && (e)->use_cnt < INT_MAX && (e)->ssl_ctx != NULL)
/* the helpers' view of the invariant for a list of 0..2 entries: I1 links, I2 use counts, I3 distinct contexts */
#define CS_LIST(C) ((C) == xv_cachep && \
    (L0(C) == NULL || (CE_OK(L0(C)) && L0(C)->elem.le_prev == &L0(C) && \
        (L1(C) == NULL || (CE_OK(L1(C)) && L1(C)->elem.le_prev == &L1(C) && L1(C)->ssl_ctx != L0(C)->ssl_ctx && L2(C) == NULL)))))
#define HAS1(C) (L0(C) != NULL)
#define HAS2(C) (L0(C) != NULL && L1(C) != NULL)
/* 32-byte hash equality spelled out (quantifiers in clauses over heap objects did not evaluate correctly under DFCC) */
#define XV_H4(a, b, i) ((a)[(i)] == (b)[(i)] && (a)[(i) + 1] == (b)[(i) + 1] && (a)[(i) + 2] == (b)[(i) + 2] && (a)[(i) + 3] == (b)[(i) + 3])
#define HASH_SAME(a, b) (XV_H4(a, b, 0) && XV_H4(a, b, 4) && XV_H4(a, b, 8) && XV_H4(a, b, 12) && XV_H4(a, b, 16) && XV_H4(a, b, 20) && XV_H4(a, b, 24) && XV_H4(a, b, 28))
#define HASH_DIFFERS(a, b) (!HASH_SAME(a, b))

/* cache_get: C15 helper requires the lock; C18/C08: the FIRST entry whose 32 hash bytes all equal `hash` gets exactly one
 * more user, nothing else changes (assigns: the two use counts only); NULL iff no listed entry has that hash */
static struct cache_entry *cache_get(struct cache *cache, const uint8_t *hash)
/* PO[C15] cache_get.called_with_lock_held */
__CPROVER_requires(xv_lk_held)
__CPROVER_requires(CS_LIST(cache) && __CPROVER_r_ok(hash, 32))
__CPROVER_assigns(HAS1(cache): L0(cache)->use_cnt; HAS2(cache): L1(cache)->use_cnt)
__CPROVER_ensures(__CPROVER_return_value == NULL || (HAS1(cache) && __CPROVER_return_value == L0(cache)) || (HAS2(cache) && __CPROVER_return_value == L1(cache)))
/* PO[C18] cache_get.first_entry_hit_iff_hash_equal */
__CPROVER_ensures(HAS1(cache) ==> ((__CPROVER_return_value == L0(cache)) == HASH_SAME(L0(cache)->hash, hash)))
/* PO[C18] cache_get.second_entry_hit_iff_hash_equal_and_first_differs */
__CPROVER_ensures(HAS2(cache) ==> ((__CPROVER_return_value == L1(cache)) == (HASH_DIFFERS(L0(cache)->hash, hash) && HASH_SAME(L1(cache)->hash, hash))))
/* PO[C08,C18] cache_get.one_more_user_on_the_hit_entry_only */
__CPROVER_ensures(HAS1(cache) ==> L0(cache)->use_cnt == __CPROVER_old(L0(cache)->use_cnt) + (__CPROVER_return_value == L0(cache) ? 1 : 0))
__CPROVER_ensures(HAS2(cache) ==> L1(cache)->use_cnt == __CPROVER_old(L1(cache)->use_cnt) + (__CPROVER_return_value == L1(cache) ? 1 : 0))
;

/* cache_find_entry: pure look-up by context */
static struct cache_entry *cache_find_entry(struct cache *cache, SSL_CTX *ssl_ctx)
/* PO[C15] cache_find_entry.called_with_lock_held */
__CPROVER_requires(xv_lk_held)
__CPROVER_requires(CS_LIST(cache))
__CPROVER_assigns()
__CPROVER_ensures((HAS1(cache) && L0(cache)->ssl_ctx == ssl_ctx) ==> __CPROVER_return_value == L0(cache))
__CPROVER_ensures((HAS2(cache) && L0(cache)->ssl_ctx != ssl_ctx && L1(cache)->ssl_ctx == ssl_ctx) ==> __CPROVER_return_value == L1(cache))
__CPROVER_ensures(((!HAS1(cache) || L0(cache)->ssl_ctx != ssl_ctx) && (!HAS2(cache) || L1(cache)->ssl_ctx != ssl_ctx)) ==> __CPROVER_return_value == NULL)
;

/* cache_install: a NEW entry with exactly one user at the head; listed entries keep hash, context and use count
 * (assigns: list head, the old first entry's back link) */
static struct cache_entry *cache_install(struct cache *cache, const uint8_t *hash, SSL_CTX *ssl_ctx)
/* PO[C15] cache_install.called_with_lock_held */
__CPROVER_requires(xv_lk_held)
__CPROVER_requires(CS_LIST(cache) && __CPROVER_r_ok(hash, 32) && ssl_ctx != NULL && XV_LIVE_OK(xv_heap_live))
__CPROVER_assigns(L0(cache), xv_heap_live; HAS1(cache): L0(cache)->elem.le_prev)
/* PO[C08,C18] cache_install.new_entry_one_user_this_hash_this_context */
__CPROVER_ensures(__CPROVER_is_fresh(__CPROVER_return_value, CE_SZ) && __CPROVER_return_value->use_cnt == 1 && __CPROVER_return_value->ssl_ctx == ssl_ctx)
__CPROVER_ensures(HASH_SAME(__CPROVER_return_value->hash, hash))
/* PO[C15] cache_install.list_stays_well_formed */
__CPROVER_ensures(L0(cache) == __CPROVER_return_value && __CPROVER_return_value->elem.le_prev == &L0(cache) && __CPROVER_return_value->elem.le_next == O0(cache) && \
                  (HAD1(cache) ==> O0(cache)->elem.le_prev == &__CPROVER_return_value->elem.le_next))
__CPROVER_ensures(xv_heap_live == __CPROVER_old(xv_heap_live) + 1)
;

/* cache_put: the caller holds a reference on ssl_ctx (C08 typestate: btls deinit puts each context it got exactly once).
 * The entry of that context loses one user; at 0 it is unlinked, its SSL_CTX freed exactly once and the entry freed;
 * the other entry keeps its use count, hash and context and stays listed */
#define PUT_FIRST(C, x) (__CPROVER_old(L0(C)->ssl_ctx) == (x))
#define OC0(C) __CPROVER_old(L0(C)->use_cnt)
#define OC1(C) __CPROVER_old(L1(C)->use_cnt)
#define PUT_F_KEEP(C, x) (PUT_FIRST(C, x) && OC0(C) > 1)
#define PUT_F_LAST(C, x) (PUT_FIRST(C, x) && OC0(C) == 1)
#define PUT_S_KEEP(C, x) (!PUT_FIRST(C, x) && OC1(C) > 1)
#define PUT_S_LAST(C, x) (!PUT_FIRST(C, x) && OC1(C) == 1)
static void cache_put(struct cache *cache, SSL_CTX *ssl_ctx)
/* PO[C15] cache_put.called_with_lock_held */
__CPROVER_requires(xv_lk_held)
__CPROVER_requires(CS_LIST(cache) && HAS1(cache) && (L0(cache)->ssl_ctx == ssl_ctx || (HAS2(cache) && L1(cache)->ssl_ctx == ssl_ctx)))
__CPROVER_requires(XV_LIVE_OK(xv_heap_live) && XV_LIVE_OK(xv_ctx_live) && XV_LIVE_OK(xv_ctxfree_calls) && xv_ctx_dead == NULL && xv_hj < 32)
__CPROVER_assigns(L0(cache), xv_heap_live, XV_CX_ASSIGNS, __CPROVER_object_whole(L0(cache)); HAS2(cache): __CPROVER_object_whole(L1(cache)))
__CPROVER_frees(L0(cache), L1(cache))
/* PO[C08,C18] cache_put.not_last_user_decrements_that_entry_only */
__CPROVER_ensures(PUT_F_KEEP(cache, ssl_ctx) ==> (L0(cache) == O0(cache) && O0(cache)->use_cnt == OC0(cache) - 1 && O0(cache)->elem.le_next == O1(cache) && (HAD2(cache) ==> O1(cache)->use_cnt == OC1(cache))))
__CPROVER_ensures(PUT_S_KEEP(cache, ssl_ctx) ==> (L0(cache) == O0(cache) && O0(cache)->use_cnt == OC0(cache) && O0(cache)->elem.le_next == O1(cache) && O1(cache)->use_cnt == OC1(cache) - 1))
/* PO[C08,C18] cache_put.not_last_user_frees_nothing */
__CPROVER_ensures((PUT_F_KEEP(cache, ssl_ctx) || PUT_S_KEEP(cache, ssl_ctx)) ==> (xv_ctxfree_calls == __CPROVER_old(xv_ctxfree_calls) && xv_heap_live == __CPROVER_old(xv_heap_live)))
/* PO[C08,C18] cache_put.last_user_frees_context_and_entry_exactly_once */
__CPROVER_ensures((PUT_F_LAST(cache, ssl_ctx) || PUT_S_LAST(cache, ssl_ctx)) ==> (xv_ctxfree_calls == __CPROVER_old(xv_ctxfree_calls) + 1 && xv_ctxfree_last == ssl_ctx && xv_heap_live == __CPROVER_old(xv_heap_live) - 1))
__CPROVER_ensures(PUT_F_LAST(cache, ssl_ctx) ==> __CPROVER_was_freed(O0(cache)))
__CPROVER_ensures(PUT_S_LAST(cache, ssl_ctx) ==> __CPROVER_was_freed(O1(cache)))
/* PO[C15,C18] cache_put.last_user_unlinks_that_entry_only */
__CPROVER_ensures(PUT_F_LAST(cache, ssl_ctx) ==> (L0(cache) == O1(cache) && (HAD2(cache) ==> (O1(cache)->use_cnt == OC1(cache) && O1(cache)->elem.le_prev == &L0(cache) && O1(cache)->elem.le_next == NULL))))
__CPROVER_ensures(PUT_S_LAST(cache, ssl_ctx) ==> (L0(cache) == O0(cache) && O0(cache)->use_cnt == OC0(cache) && O0(cache)->elem.le_next == NULL && O0(cache)->elem.le_prev == &L0(cache)))
/* PO[C18] cache_put.hashes_and_contexts_of_remaining_entries_unchanged */
__CPROVER_ensures(!PUT_F_LAST(cache, ssl_ctx) ==> (O0(cache)->hash[xv_hj] == __CPROVER_old(L0(cache)->hash[xv_hj]) && O0(cache)->ssl_ctx == __CPROVER_old(L0(cache)->ssl_ctx)))
__CPROVER_ensures((HAD2(cache) && !PUT_S_LAST(cache, ssl_ctx)) ==> (O1(cache)->hash[xv_hj] == __CPROVER_old(L1(cache)->hash[xv_hj]) && O1(cache)->ssl_ctx == __CPROVER_old(L1(cache)->ssl_ctx)))
;

/* ---- the API of the store ------------------------------------------------------------------------------------------
 * Postconditions are stated over the two ghost snapshots the lock model takes: xv_acq (the list THIS critical section
 * found: any list satisfying the invariant) and xv_pub (the list it published at the release).  Nothing is claimed
 * about the cache after the release -- other threads own it again. */
#define XV_SNAP_SAME_ENTRY(i, k) (xv_pub.e[i] == xv_acq.e[k] && xv_pub.ctx[i] == xv_acq.ctx[k] && xv_pub.hj[i] == xv_acq.hj[k])
#define XV_LOCK_ONCE (!xv_lk_held && xv_lk_acq == __CPROVER_old(xv_lk_acq) + 1 && xv_lk_rel == __CPROVER_old(xv_lk_rel) + 1)

/* ctx_store_put: C15 lock taken once and released; C18/C08 "cached TLS contexts are released when the last socket using
 * them is closed": the entry of THIS context loses one user, at 0 it leaves the cache and its SSL_CTX is freed exactly
 * once; every other entry keeps place, use count, hash and context.
 * requires: the caller holds a reference on ssl_ctx (xv_my_ctx/xv_my_refs, invariant I4) -- without one the real code
 * runs into ut_assert(entry != NULL) or takes away somebody else's reference. */
void ctx_store_put(SSL_CTX *ssl_ctx)
__CPROVER_requires(!xv_lk_held && XV_LK_CNT_OK && cache.entries.lh_first == xv_cs_shadow && xv_cachep == &cache)
__CPROVER_requires(ssl_ctx != NULL && ssl_ctx == xv_my_ctx && xv_my_refs >= 1 && xv_my_refs_after == xv_my_refs - 1)
__CPROVER_requires(XV_LIVE_OK(xv_heap_live) && XV_LIVE_OK(xv_ctx_live) && XV_LIVE_OK(xv_ctxfree_calls) && xv_ctx_dead == NULL && xv_hj < 32)
__CPROVER_assigns(XV_LK_ASSIGNS, XV_CS_ASSIGNS, xv_heap_live, XV_CX_ASSIGNS)
/* PO[C15] ctx_store_put.lock_taken_once_and_released */
__CPROVER_ensures(XV_LOCK_ONCE)
/* PO[C15] ctx_store_put.list_head_not_written_after_release */
__CPROVER_ensures(cache.entries.lh_first == xv_cs_shadow)
/* PO[C08,C18] ctx_store_put.first_entry_other_users_remain */
__CPROVER_ensures((xv_acq.ctx[0] == ssl_ctx && xv_acq.cnt[0] > 1) ==> (xv_pub.n == xv_acq.n && XV_SNAP_SAME_ENTRY(0, 0) && xv_pub.cnt[0] == xv_acq.cnt[0] - 1 && \
                  (xv_acq.n == 2 ==> (XV_SNAP_SAME_ENTRY(1, 1) && xv_pub.cnt[1] == xv_acq.cnt[1]))))
/* PO[C08,C18] ctx_store_put.second_entry_other_users_remain */
__CPROVER_ensures((xv_acq.ctx[0] != ssl_ctx && xv_acq.cnt[1] > 1) ==> (xv_pub.n == 2 && XV_SNAP_SAME_ENTRY(0, 0) && xv_pub.cnt[0] == xv_acq.cnt[0] && XV_SNAP_SAME_ENTRY(1, 1) && xv_pub.cnt[1] == xv_acq.cnt[1] - 1))
/* PO[C08,C18] ctx_store_put.other_users_remain_nothing_freed */
__CPROVER_ensures(((xv_acq.ctx[0] == ssl_ctx && xv_acq.cnt[0] > 1) || (xv_acq.ctx[0] != ssl_ctx && xv_acq.cnt[1] > 1)) ==> \
                  (xv_ctxfree_calls == __CPROVER_old(xv_ctxfree_calls) && xv_heap_live == __CPROVER_old(xv_heap_live)))
/* PO[C08,C18] ctx_store_put.first_entry_last_user_entry_leaves_the_cache */
__CPROVER_ensures((xv_acq.ctx[0] == ssl_ctx && xv_acq.cnt[0] == 1) ==> (xv_pub.n == xv_acq.n - 1 && (xv_acq.n == 2 ==> (XV_SNAP_SAME_ENTRY(0, 1) && xv_pub.cnt[0] == xv_acq.cnt[1]))))
/* PO[C08,C18] ctx_store_put.second_entry_last_user_entry_leaves_the_cache */
__CPROVER_ensures((xv_acq.ctx[0] != ssl_ctx && xv_acq.cnt[1] == 1) ==> (xv_pub.n == 1 && XV_SNAP_SAME_ENTRY(0, 0) && xv_pub.cnt[0] == xv_acq.cnt[0]))
/* PO[C08,C18] ctx_store_put.last_user_context_freed_exactly_once */
__CPROVER_ensures(((xv_acq.ctx[0] == ssl_ctx && xv_acq.cnt[0] == 1) || (xv_acq.ctx[0] != ssl_ctx && xv_acq.cnt[1] == 1)) ==> \
                  (xv_ctxfree_calls == __CPROVER_old(xv_ctxfree_calls) + 1 && xv_ctxfree_last == ssl_ctx && xv_ctx_live == __CPROVER_old(xv_ctx_live) - 1 && xv_heap_live == __CPROVER_old(xv_heap_live) - 1))
;


/* load_ssl_ctx is a CUT POINT in job ctx_store_get_ctx (XV_LSC_RECORD): its contract then also records the arguments and
 * the moment of the call in ghost variables that nothing else reads (observation only, no constraint on real state), and
 * the string shape of the data, which the job of load_ssl_ctx itself assumes (strings of < XV_LSC_STR bytes), is not
 * asserted (the data come out of ut_strdup / ut_load_text_file, NUL-terminated by construction) */
#ifdef XV_LSC_RECORD
#define XV_LSC_STRINGS 1
#define XV_LSC_GHOST_OK (XV_LIVE_OK(xv_lsc_calls))
#define XV_LSC_ASSIGNS xv_LSC
#define XV_LSC_ENSURES __CPROVER_ensures(xv_lsc_calls == __CPROVER_old(xv_lsc_calls) + 1 && xv_lsc_cert == cert_data && xv_lsc_key == key_data && xv_lsc_tc == tc_data && xv_lsc_crl == crl_data && xv_lsc_at_md == xv_md_calls)
#else
#define XV_LSC_STR 6
#define XV_LSC_S(p) (__CPROVER_is_fresh((p), XV_LSC_STR) && (p)[XV_LSC_STR - 1] == 0)
#define XV_LSC_STRINGS (XV_LSC_S(cert_data) && XV_LSC_S(key_data) && (tc_data == NULL || XV_LSC_S(tc_data)) && (crl_data == NULL || XV_LSC_S(crl_data)))
#define XV_LSC_GHOST_OK (XV_LIVE_OK(xv_x509_live) && XV_LIVE_OK(xv_crl_live) && XV_LIVE_OK(xv_pkey_live) && XV_LIVE_OK(xv_bio_live))
#define XV_LSC_ASSIGNS xv_OS, xv_SNP
/* C08: whatever the outcome, every X509, X509_CRL, EVP_PKEY and BIO obtained on the way has been given back;
 * C18/C09: a context is returned only with a certificate and a key installed and the key checked against the certificate,
 * with at least one trusted certificate / CRL added when such data was given */
#define XV_LSC_ENSURES \
    __CPROVER_ensures(xv_x509_live == __CPROVER_old(xv_x509_live) && xv_crl_live == __CPROVER_old(xv_crl_live) && xv_pkey_live == __CPROVER_old(xv_pkey_live) && xv_bio_live == __CPROVER_old(xv_bio_live)) \
    __CPROVER_ensures(__CPROVER_return_value != NULL ==> (xv_ssl_used_cert && xv_ssl_used_key && xv_ssl_key_checked && (tc_data != NULL ==> xv_tc_added >= 1) && (crl_data != NULL ==> xv_crl_added >= 1)))
#endif
/* ---- cut points of ctx_store_get_ctx */
#define XV_VAL 4      /* designated file names / values are NUL-terminated strings of 0..3 bytes in the jobs of this unit */
#define ITEM_TYPE_OK(i) ((i)->type == item_type_none || (i)->type == item_type_file || (i)->type == item_type_value)
#define XV_DG_ASSIGNS xv_DG


/* do_hash_file: the designation of a FILE fed to the digest is path + (dev, ino, size, mtime sec, mtime nsec) of lstat(),
 * and, if that is a symbolic link, the same again for stat() (one level followed): 6 or 12 digest updates; the errno of a
 * failed (l)stat is not left behind (saved and restored) */
static int do_hash_file(const char *file, EVP_MD_CTX *ctx, bool follow, void *log_ref)
__CPROVER_requires(__CPROVER_r_ok(file, 1) && __CPROVER_r_ok(ctx, 1) && xv_dg_len <= XV_DG_MAX)
__CPROVER_assigns(XV_DG_ASSIGNS, xv_errno)
__CPROVER_ensures(__CPROVER_return_value == 0 || __CPROVER_return_value == -1)
/* PO[C18] do_hash_file.errno_of_stat_not_left_behind */
__CPROVER_ensures(xv_errno == __CPROVER_old(xv_errno))
/* PO[C18] do_hash_file.one_symlink_level_followed */
__CPROVER_ensures(follow ==> (xv_stat_calls == __CPROVER_old(xv_stat_calls) + 1 && xv_lstat_calls == __CPROVER_old(xv_lstat_calls)))
__CPROVER_ensures(!follow ==> (xv_lstat_calls == __CPROVER_old(xv_lstat_calls) + 1 && (xv_stat_calls == __CPROVER_old(xv_stat_calls) || xv_stat_calls == __CPROVER_old(xv_stat_calls) + 1)))
/* PO[C18] do_hash_file.path_and_five_metadata_fields_per_stat */
__CPROVER_ensures((__CPROVER_return_value == 0 && follow) ==> xv_dg_updates == __CPROVER_old(xv_dg_updates) + 6)
__CPROVER_ensures((__CPROVER_return_value == 0 && !follow) ==> xv_dg_updates == __CPROVER_old(xv_dg_updates) + 6 * (1 + (xv_stat_calls - __CPROVER_old(xv_stat_calls))))
__CPROVER_ensures(xv_dg_len <= XV_DG_MAX)
;

/* hash_item: feeds the designation of ONE item to the digest; does not touch errno (stat's errno is restored); fails only
 * for a file that cannot be stat()ed.  WHAT is fed (injectivity in the four items) is decided by locks.hash_input_injective */
static int hash_item(const struct item *item, EVP_MD_CTX *ctx, void *log_ref)
__CPROVER_requires(__CPROVER_r_ok(item, sizeof(struct item)) && ITEM_TYPE_OK(item) && (item->type != item_type_none ==> __CPROVER_r_ok(item->data, 1)))
__CPROVER_requires(__CPROVER_r_ok(ctx, 1) && xv_dg_len <= XV_DG_MAX)
__CPROVER_assigns(XV_DG_ASSIGNS, xv_errno)
__CPROVER_ensures(__CPROVER_return_value == 0 || (__CPROVER_return_value == -1 && item->type == item_type_file))
/* PO[C18] hash_item.errno_untouched */
__CPROVER_ensures(xv_errno == __CPROVER_old(xv_errno))
/* PO[C18] hash_item.value_or_unset_item_cannot_fail */
__CPROVER_ensures(item->type != item_type_file ==> __CPROVER_return_value == 0)
__CPROVER_ensures(xv_dg_len <= XV_DG_MAX)
;


/* get_credentials_hash: the digest of the CURRENT designation of the four items (cut point of ctx_store_get_ctx; enforced
 * in job locks.get_credentials_hash over the EVP stubs, whose ghost record it restates): on success hash[0..31] is the new
 * digest xv_md_last, the previous one moved to xv_md_prev; from call number xv_md_settle on the digest repeats its
 * predecessor (bound of the retry loop); the record of loads made since the previous digest is closed (xv_ldb_*).
 * No EVP_MD_CTX is leaked on either path; errno is not touched. */
#define XV_GCH_ITEM(i) (__CPROVER_r_ok((i), sizeof(struct item)) && ITEM_TYPE_OK(i) && ((i)->type != item_type_none ==> __CPROVER_r_ok((i)->data, 1)))
#define XV_O4(a, b, i) ((a)[(i)] == __CPROVER_old((b)[(i)]) && (a)[(i) + 1] == __CPROVER_old((b)[(i) + 1]) && (a)[(i) + 2] == __CPROVER_old((b)[(i) + 2]) && (a)[(i) + 3] == __CPROVER_old((b)[(i) + 3]))
#define HASH_IS_OLD(a, b) (XV_O4(a, b, 0) && XV_O4(a, b, 4) && XV_O4(a, b, 8) && XV_O4(a, b, 12) && XV_O4(a, b, 16) && XV_O4(a, b, 20) && XV_O4(a, b, 24) && XV_O4(a, b, 28))
#define XV_MD_ASSIGNS xv_MD
static int get_credentials_hash(const struct item *cert, const struct item *key, const struct item *tc, const struct item *crl, uint8_t *hash, void *log_ref)
__CPROVER_requires(XV_GCH_ITEM(cert) && XV_GCH_ITEM(key) && XV_GCH_ITEM(tc) && XV_GCH_ITEM(crl) && __CPROVER_w_ok(hash, 32))
__CPROVER_requires(XV_LIVE_OK2(xv_mdctx_live) && XV_LIVE_OK2(xv_md_calls))
__CPROVER_assigns(__CPROVER_object_upto(hash, 32), XV_MD_ASSIGNS, XV_DG_ASSIGNS, xv_mdctx_live, xv_errno)
/* PO[C18] get_credentials_hash.errno_untouched */
__CPROVER_ensures(xv_errno == __CPROVER_old(xv_errno))
__CPROVER_ensures(__CPROVER_return_value == 0 || __CPROVER_return_value == -1)
/* PO[C08] get_credentials_hash.no_digest_context_leaked */
__CPROVER_ensures(xv_mdctx_live == __CPROVER_old(xv_mdctx_live))
__CPROVER_ensures(__CPROVER_return_value == 0 ==> (xv_md_calls == __CPROVER_old(xv_md_calls) + 1 && HASH_SAME(hash, xv_md_last) && HASH_IS_OLD(xv_md_prev, xv_md_last)))
__CPROVER_ensures((__CPROVER_return_value == 0 && __CPROVER_old(xv_md_calls) >= xv_md_settle) ==> HASH_SAME(xv_md_last, xv_md_prev))
__CPROVER_ensures(__CPROVER_return_value == 0 ==> (xv_ld_since_md == 0 && xv_ld_between == __CPROVER_old(xv_ld_since_md) && \
                  xv_ldb_res[0] == __CPROVER_old(xv_ld_res[0]) && xv_ldb_res[1] == __CPROVER_old(xv_ld_res[1]) && xv_ldb_res[2] == __CPROVER_old(xv_ld_res[2]) && xv_ldb_res[3] == __CPROVER_old(xv_ld_res[3])))
__CPROVER_ensures(__CPROVER_return_value == -1 ==> (xv_md_calls == __CPROVER_old(xv_md_calls) && xv_ld_since_md == __CPROVER_old(xv_ld_since_md)))
/* PO[C18] get_credentials_hash.fails_only_if_a_designated_file_cannot_be_examined */
__CPROVER_ensures(__CPROVER_return_value == -1 ==> (cert->type == item_type_file || key->type == item_type_file || tc->type == item_type_file || crl->type == item_type_file))
;

/* load_ssl_ctx: C18 "unreadable, malformed or mismatching material fails with EPROTO"; C08 no SSL_CTX is leaked on the
 * error ladder.  requires: certificate and key data are present (install_cert/install_key take strlen() of them). */
static SSL_CTX *load_ssl_ctx(const char *cert_data, const char *key_data, const char *tc_data, const char *crl_data, uint8_t *hash, void *log_ref)
/* PO[C18] load_ssl_ctx.called_with_certificate_and_key_data */
__CPROVER_requires(cert_data != NULL && key_data != NULL)
__CPROVER_requires(XV_LSC_STRINGS)
__CPROVER_requires(XV_LIVE_OK(xv_ctx_live) && XV_LIVE_OK(xv_ctxfree_calls) && XV_LSC_GHOST_OK)
__CPROVER_assigns(xv_errno, XV_CX_ASSIGNS, XV_LSC_ASSIGNS)
/* PO[C18] load_ssl_ctx.null_means_eproto */
__CPROVER_ensures(__CPROVER_return_value == NULL ==> xv_errno == EPROTO)
/* PO[C18] load_ssl_ctx.malformed_material_is_refused: a PEM object (leaf or chain certificate, key, trusted CA, CRL) that is present but does not parse
 * never yields a context (with null_means_eproto: EPROTO), whatever older entries its decoder left in the error queue */
__CPROVER_ensures((xv_pem_malformed && !__CPROVER_old(xv_pem_malformed)) ==> __CPROVER_return_value == NULL)
/* PO[C08] load_ssl_ctx.failure_leaks_no_context */
__CPROVER_ensures(__CPROVER_return_value == NULL ==> (xv_ctx_live == __CPROVER_old(xv_ctx_live) && (xv_ctx_dead == __CPROVER_old(xv_ctx_dead) || __CPROVER_is_fresh(xv_ctx_dead, 1))))
__CPROVER_ensures(__CPROVER_return_value != NULL ==> (__CPROVER_is_fresh(__CPROVER_return_value, 1) && xv_ctx_live == __CPROVER_old(xv_ctx_live) + 1 && \
                  xv_ctxfree_calls == __CPROVER_old(xv_ctxfree_calls) && xv_ctx_dead == __CPROVER_old(xv_ctx_dead)))
__CPROVER_ensures(xv_ctxfree_calls >= __CPROVER_old(xv_ctxfree_calls) && xv_ctxfree_calls <= __CPROVER_old(xv_ctxfree_calls) + 1)
XV_LSC_ENSURES
;

/* ctx_store_get_ctx.
 * C15: lock taken once, released on EVERY exit path (the goto out / out_free ladders included).
 * C18: NULL => errno == EPROTO; a context is returned either from an entry found under the digest of the CURRENT
 *      designation, or loaded from data that was read between two EQUAL digests of the designation and installed under
 *      that digest; entries of other designations keep place, use count, hash and context.
 * C08: exactly one more user on a hit / exactly one new entry with one user on a miss; on failure the cache is as found
 *      and no heap block, SSL_CTX or EVP_MD_CTX of this call survives.
 * requires: certificate and key are designated (btls finalize_tls_conf always sets them). */
#ifndef XV_MD_FRESH
#define XV_MD_FRESH 3   /* digests of one call that may differ from their predecessor: bounds the retry loop (job parameter) */
#endif
#ifdef XV_GET_SMALL   /* job parameter: smaller configuration space for the two-pass variant */
#define XV_GET_EXTRA (tc->type == item_type_none && crl->type == item_type_none)
#else
#define XV_GET_EXTRA 1
#endif
#define XV_ITEM_FRESH(i) (__CPROVER_is_fresh((i), sizeof(struct item)))
#define XV_ITEM_DATA(i) (ITEM_TYPE_OK(i) && ((i)->type != item_type_none ==> __CPROVER_is_fresh((i)->data, XV_VAL)) && ((i)->type != item_type_none ==> (i)->data[XV_VAL - 1] == 0))
#define XV_ISSET(i) ((i)->type != item_type_none ? 1 : 0)
#define XV_GET_HIT0(r) (xv_acq.n >= 1 && (r) == xv_acq.ctx[0])
#define XV_GET_HIT1(r) (xv_acq.n >= 2 && (r) == xv_acq.ctx[1])
#define XV_GET_NEW(r) ((r) != NULL && !XV_GET_HIT0(r) && !XV_GET_HIT1(r))
SSL_CTX *ctx_store_get_ctx(const struct item *cert, const struct item *key, const struct item *tc, const struct item *crl, void *log_ref)
__CPROVER_requires(XV_ITEM_FRESH(cert) && XV_ITEM_FRESH(key) && XV_ITEM_FRESH(tc) && XV_ITEM_FRESH(crl))
__CPROVER_requires(XV_ITEM_DATA(cert) && XV_ITEM_DATA(key) && XV_ITEM_DATA(tc) && XV_ITEM_DATA(crl) && cert->type != item_type_none && key->type != item_type_none && XV_GET_EXTRA)
__CPROVER_requires(!xv_lk_held && XV_LK_CNT_OK && cache.entries.lh_first == xv_cs_shadow && xv_cachep == &cache && xv_hj < 32)
__CPROVER_requires(XV_LIVE_OK(xv_heap_live) && XV_LIVE_OK(xv_ctx_live) && XV_LIVE_OK(xv_ctxfree_calls) && xv_ctx_dead == NULL && XV_LIVE_OK(xv_mdctx_live) && XV_LIVE_OK(xv_md_calls) && \
                   XV_LIVE_OK(xv_ld_calls) && XV_LSC_GHOST_OK && \
                   xv_ld_since_md >= 0 && xv_ld_since_md < 1000 && xv_md_settle == xv_md_calls + XV_MD_FRESH && xv_snprintf_calls >= 0 && xv_snprintf_calls < 1000000)
__CPROVER_assigns(XV_LK_ASSIGNS, XV_CS_ASSIGNS, xv_errno, xv_heap_live, XV_CX_ASSIGNS, XV_LSC_ASSIGNS, XV_DG_ASSIGNS, \
                  xv_mdctx_live, XV_MD_ASSIGNS, xv_LD, xv_SNP)
/* PO[C15] ctx_store_get_ctx.lock_taken_once_and_released_on_every_exit_path */
__CPROVER_ensures(XV_LOCK_ONCE)
/* PO[C15] ctx_store_get_ctx.list_head_not_written_after_release */
__CPROVER_ensures(cache.entries.lh_first == xv_cs_shadow)
/* PO[C18] ctx_store_get_ctx.null_means_eproto */
__CPROVER_ensures(__CPROVER_return_value == NULL ==> xv_errno == EPROTO)
/* PO[C08,C18] ctx_store_get_ctx.failure_leaves_the_cache_as_found */
__CPROVER_ensures(__CPROVER_return_value == NULL ==> (xv_pub.n == xv_acq.n && (xv_acq.n >= 1 ==> (XV_SNAP_SAME_ENTRY(0, 0) && xv_pub.cnt[0] == xv_acq.cnt[0])) && \
                  (xv_acq.n >= 2 ==> (XV_SNAP_SAME_ENTRY(1, 1) && xv_pub.cnt[1] == xv_acq.cnt[1]))))
/* PO[C08] ctx_store_get_ctx.no_heap_block_context_or_digest_context_leaked */
__CPROVER_ensures(xv_heap_live == __CPROVER_old(xv_heap_live) + (XV_GET_NEW(__CPROVER_return_value) ? 1 : 0) && \
                  xv_ctx_live == __CPROVER_old(xv_ctx_live) + (XV_GET_NEW(__CPROVER_return_value) ? 1 : 0) && xv_mdctx_live == __CPROVER_old(xv_mdctx_live))
/* PO[C08,C18] ctx_store_get_ctx.hit_first_entry_one_more_user_nothing_else */
__CPROVER_ensures(XV_GET_HIT0(__CPROVER_return_value) ==> (xv_pub.n == xv_acq.n && XV_SNAP_SAME_ENTRY(0, 0) && xv_pub.cnt[0] == xv_acq.cnt[0] + 1 && \
                  (xv_acq.n >= 2 ==> (XV_SNAP_SAME_ENTRY(1, 1) && xv_pub.cnt[1] == xv_acq.cnt[1]))))
/* PO[C08,C18] ctx_store_get_ctx.hit_second_entry_one_more_user_nothing_else */
__CPROVER_ensures((!XV_GET_HIT0(__CPROVER_return_value) && XV_GET_HIT1(__CPROVER_return_value)) ==> (xv_pub.n == 2 && XV_SNAP_SAME_ENTRY(0, 0) && xv_pub.cnt[0] == xv_acq.cnt[0] && \
                  XV_SNAP_SAME_ENTRY(1, 1) && xv_pub.cnt[1] == xv_acq.cnt[1] + 1))
/* PO[C18] ctx_store_get_ctx.hit_entry_is_keyed_by_the_digest_of_the_current_designation */
__CPROVER_ensures((XV_GET_HIT0(__CPROVER_return_value) || XV_GET_HIT1(__CPROVER_return_value)) ==> (xv_md_calls > __CPROVER_old(xv_md_calls) && xv_lsc_calls == __CPROVER_old(xv_lsc_calls) && \
                  (XV_GET_HIT0(__CPROVER_return_value) ? xv_acq.hj[0] : xv_acq.hj[1]) == xv_md_last[xv_hj]))
/* PO[C08,C18] ctx_store_get_ctx.miss_installs_one_entry_with_one_user_others_untouched */
__CPROVER_ensures(XV_GET_NEW(__CPROVER_return_value) ==> (xv_pub.n == xv_acq.n + 1 && xv_pub.cnt[0] == 1 && xv_pub.ctx[0] == __CPROVER_return_value && \
                  (xv_acq.n >= 1 ==> (XV_SNAP_SAME_ENTRY(1, 0) && xv_pub.cnt[1] == xv_acq.cnt[0])) && (xv_acq.n >= 2 ==> (XV_SNAP_SAME_ENTRY(2, 1) && xv_pub.cnt[2] == xv_acq.cnt[1]))))
/* PO[C18] ctx_store_get_ctx.new_context_loaded_from_data_read_between_two_equal_digests */
__CPROVER_ensures(XV_GET_NEW(__CPROVER_return_value) ==> (xv_lsc_calls == __CPROVER_old(xv_lsc_calls) + 1 && xv_lsc_at_md == xv_md_calls && xv_md_calls >= __CPROVER_old(xv_md_calls) + 2 && \
                  xv_md_prev[xv_hj] == xv_md_last[xv_hj] && xv_pub.hj[0] == xv_md_last[xv_hj] && xv_ld_since_md == 0 && \
                  xv_ld_between == XV_ISSET(cert) + XV_ISSET(key) + XV_ISSET(tc) + XV_ISSET(crl)))
/* PO[C18] ctx_store_get_ctx.new_context_loaded_from_the_data_of_the_four_designated_items_in_order */
__CPROVER_ensures(XV_GET_NEW(__CPROVER_return_value) ==> (xv_lsc_cert == xv_ldb_res[0] && xv_lsc_key == xv_ldb_res[1] && \
                  xv_lsc_tc == (tc->type != item_type_none ? xv_ldb_res[2] : NULL) && xv_lsc_crl == (crl->type != item_type_none ? xv_ldb_res[2 + XV_ISSET(tc)] : NULL)))
;

/* ---- item.c: how a credential is designated on a socket (C18 "by-file and by-value forms override each other", "exactly
 * the material designated"; C08 the previous designation's memory is released).  Items are built by the harness
 * (assignments); names/values are strings of 0..XV_VAL-1 bytes. */
#define XV_ITEM_OK(i) (__CPROVER_rw_ok((i), sizeof(struct item)) && ITEM_TYPE_OK(i) && ((i)->type == item_type_none || __CPROVER_r_ok((i)->data, 1)))
#define XV_STR_SAME(a, b) ((a)[0] == (b)[0] && ((a)[0] == 0 || ((a)[1] == (b)[1] && ((a)[1] == 0 || ((a)[2] == (b)[2] && ((a)[2] == 0 || (a)[3] == (b)[3]))))))

int item_load(const struct item *item, char **data)
__CPROVER_requires(XV_ITEM_OK(item) && __CPROVER_w_ok(data, sizeof(char *)) && XV_LIVE_OK(xv_heap_live) && XV_LIVE_OK(xv_ld_calls) && xv_ld_since_md >= 0 && xv_ld_since_md < 1000)
__CPROVER_assigns(*data, xv_errno, xv_heap_live, xv_LD, xv_MD)
/* PO[C18] item_load.unset_item_gives_no_data */
__CPROVER_ensures(item->type == item_type_none ==> (__CPROVER_return_value == 0 && *data == NULL && xv_heap_live == __CPROVER_old(xv_heap_live)))
/* PO[C18] item_load.value_item_gives_a_copy_of_the_value */
__CPROVER_ensures(item->type == item_type_value ==> (__CPROVER_return_value == 0 && *data != NULL && *data != item->data && XV_STR_SAME(*data, item->data) && xv_heap_live == __CPROVER_old(xv_heap_live) + 1))
/* PO[C18] item_load.file_item_gives_the_content_read_now_or_fails */
__CPROVER_ensures(item->type == item_type_file ==> (xv_ld_calls == __CPROVER_old(xv_ld_calls) + 1 && \
                  ((__CPROVER_return_value < 0 && xv_heap_live == __CPROVER_old(xv_heap_live) && (*data == NULL || *data == __CPROVER_old(*data))) || \
                   (__CPROVER_return_value > 0 && xv_heap_live == __CPROVER_old(xv_heap_live) + 1 && *data != NULL))))
;

void item_deinit(struct item *item)
__CPROVER_requires(item == NULL || (XV_ITEM_OK(item) && XV_LIVE_OK(xv_heap_live)))
__CPROVER_assigns(xv_heap_live; item != NULL: *item)
__CPROVER_frees(item->data)
/* PO[C08,C18] item_deinit.item_unset_and_its_data_released */
__CPROVER_ensures(item != NULL ==> (item->type == item_type_none && item->data == NULL && \
                  xv_heap_live == __CPROVER_old(xv_heap_live) - (__CPROVER_old(item->type) != item_type_none && __CPROVER_old(item->data) != NULL ? 1 : 0)))
;

void item_set_value_n(struct item *item, const char *value, size_t len, bool sensitive)
__CPROVER_requires(XV_ITEM_OK(item) && XV_LIVE_OK(xv_heap_live) && len < XV_VAL && __CPROVER_r_ok(value, len))
__CPROVER_assigns(xv_heap_live, *item)
__CPROVER_frees(item->data)
/* PO[C18] item_set_value_n.by_value_replaces_whatever_was_designated */
__CPROVER_ensures(item->type == item_type_value && item->sensitive == sensitive && item->data != NULL && item->data != value)
/* PO[C18] item_set_value_n.value_is_the_first_len_bytes_up_to_a_nul */
__CPROVER_ensures((len >= 1 && value[0] != 0) ? item->data[0] == value[0] : item->data[0] == 0)
__CPROVER_ensures((len >= 2 && value[0] != 0 && value[1] != 0) ? item->data[1] == value[1] : (item->data[0] == 0 || item->data[1] == 0))
/* PO[C08] item_set_value_n.previous_data_released */
__CPROVER_ensures(xv_heap_live == __CPROVER_old(xv_heap_live) + 1 - (__CPROVER_old(item->type) != item_type_none && __CPROVER_old(item->data) != NULL ? 1 : 0))
;

void item_set_file(struct item *item, const char *filename, bool sensitive)
__CPROVER_requires(XV_ITEM_OK(item) && XV_LIVE_OK(xv_heap_live) && __CPROVER_r_ok(filename, 1) && xv_ld_since_md >= 0 && xv_ld_since_md < 1000)
__CPROVER_assigns(xv_heap_live, *item, xv_LD, xv_MD)
__CPROVER_frees(item->data)
/* PO[C18] item_set_file.by_file_replaces_whatever_was_designated */
__CPROVER_ensures(item->type == item_type_file && item->sensitive == sensitive && item->data != NULL && item->data != filename && XV_STR_SAME(item->data, filename))
/* PO[C08] item_set_file.previous_data_released */
__CPROVER_ensures(xv_heap_live == __CPROVER_old(xv_heap_live) + 1 - (__CPROVER_old(item->type) != item_type_none && __CPROVER_old(item->data) != NULL ? 1 : 0))
;

void item_copy(const struct item *src_item, struct item *dst_item)
__CPROVER_requires(XV_ITEM_OK(src_item) && XV_ITEM_OK(dst_item) && src_item != dst_item && XV_LIVE_OK(xv_heap_live) && xv_ld_since_md >= 0 && xv_ld_since_md < 1000)
__CPROVER_assigns(xv_heap_live, *dst_item, xv_LD, xv_MD)
__CPROVER_frees(dst_item->data)
/* PO[C18] item_copy.destination_designates_what_the_source_designates */
__CPROVER_ensures(dst_item->type == src_item->type && (src_item->type == item_type_none ? dst_item->data == NULL : (dst_item->data != NULL && dst_item->data != src_item->data && XV_STR_SAME(dst_item->data, src_item->data))))
/* PO[C08] item_copy.previous_data_released */
__CPROVER_ensures(xv_heap_live == __CPROVER_old(xv_heap_live) + (src_item->type != item_type_none ? 1 : 0) - (__CPROVER_old(dst_item->type) != item_type_none && __CPROVER_old(dst_item->data) != NULL ? 1 : 0))
;
#endif /* XV_LOCKS_CS */

#include "contracts/end.h"
#endif
