/* contracts/attrtree.h -- libxcm/core/attr_tree.c + libxcm/core/attr_node.c (C10)
 *
 * The per-call attribute tree behind xcm_attr_set / xcm_attr_get / xcm_attr_get_all.  Layering of the proofs:
 *
 *   attr_tree_set_value / attr_tree_get_value   UNBOUNDED in name (every string of 0..299 characters, the layout of unit
 *       attrpath), type, value, len, capacity.  attr_path_parse / attr_path_destroy are REPLACED by the contracts of unit
 *       attrpath (contracts/attrpath.h, proved there); node_lookup is REPLACED by its contract below: "the node the
 *       path resolves to" is described by the ghosts xv_atr_h_* (never assigned: none / ANY live node: value, dictionary
 *       or list, any registered type, with or without setter/getter).  The registered setter/getter are
 *       body-less, contract-carrying stubs (xv_atr_setter / xv_atr_getter) that record how they were called.
 *   node_lookup, attr_tree_get_all (visit_node/_dict/_list, attr_node_dict_foreach/_list_foreach, attr_node_dict_get_key,
 *       attr_node_list_len/_get_index): the tree is a heap structure (TAILQ of named / indexed children); CBMC has no
 *       inductive heap predicates, so these are BOUNDED stand-ins (plain CBMC on the real text over one five-node tree):
 *       harness/attrtree/tree_lookup.c, tree_get_all.c, fixture _tree.h.
 *   visit_value (one value node of attr_tree_get_all): unbounded in everything but the number of times the getter may
 *       answer EOVERFLOW (ATR_NEED_MAX): labelled bounded.
 *
 * Ghost names are prefixed xv_atr_ (unit xcmcore uses xv_at_ for its own model of this module). */
#ifndef XV_ATTRTREE_H
#define XV_ATTRTREE_H
#include "contracts/begin.h"

#define ATR_RV __CPROVER_return_value
#define ATR_OLD(e) __CPROVER_old(e)
#define ATR_CALLS_MAX (1L << 40)
#define ATR_CNT_OK(c) ((c) >= 0 && (c) < ATR_CALLS_MAX)
#define ATR_CNT_OK_STUB(c) ((c) >= 0 && (c) < ATR_CALLS_MAX + 64)   /* the stubs accept a few calls more */
/* objects need a size bound for is_fresh: a caller buffer of more than ATR_CAP_MAX bytes is represented by an object of
 * ATR_CAP_MAX bytes (the getter stub writes at most that much); a value
 * to be set whose content the code under proof has no business with (every type but str) is a bare pointer.  The
 * pass-through obligations hold for EVERY len / capacity (0 .. SIZE_MAX). */
#define ATR_CAP_MAX 65536
/* a string value (the only type whose CONTENT attr_tree_set_value has to look at) lives in an object of <= this size */
#define ATR_STR_MAX 64
/* BOUND OF EXPLORATION (not a fact about XCM): the size of an attribute value as far as EOVERFLOW is concerned
 * (xv_atr_need) is at most this: visit_value doubles its 256-byte buffer at most twice.  get_value/set_value do not depend on it. */
#ifndef ATR_NEED_MAX
#define ATR_NEED_MAX 1024
#endif

/* ---- ghost state (havocked by ATR_GHOST_HAVOC in harness/attrtree/_unit.h) */
/* NEVER ASSIGNED: the node the path under lookup resolves to, described by scalars (a ghost POINTER equated with the
 * result of the replaced node_lookup makes every dereference of the result fan out over all objects: 2.6M variables) */
int xv_atr_h_kind;                /* -1: the path does not resolve; else enum attr_node_type (value / dict / list) */
int xv_atr_h_type;                /* value node: the registered enum xcm_attr_type */
_Bool xv_atr_h_set, xv_atr_h_get; /* value node: a setter / a getter is registered */
long xv_atr_lookup_calls;         /* node_lookup ran (the name passed the syntax check) */
/* NEVER ASSIGNED ghost constants, bound to entry values by requires clauses */
struct xcm_socket *xv_atr_g_sock; void *xv_atr_g_ctx;      /* socket/context registered with the node */
const void *xv_atr_g_value; size_t xv_atr_g_len;           /* the caller's value / len (set) */
void *xv_atr_g_buf; size_t xv_atr_g_cap;                   /* the caller's buffer / capacity (get) */
uint8_t xv_atr_g_byte; int xv_atr_g_type;                  /* byte xv_j of the caller's buffer, *type, on entry */
size_t xv_atr_need;               /* NEVER ASSIGNED: size of the attribute's value, as far as EOVERFLOW is concerned */
/* records of the stubs: number of calls, number of calls with EXACTLY the expected arguments, last result */
long xv_atr_set_calls, xv_atr_set_good; int xv_atr_set_rv, xv_atr_set_errno;
long xv_atr_get_calls, xv_atr_get_good; int xv_atr_get_rv, xv_atr_get_errno; size_t xv_atr_get_cap;
long xv_atr_cb_calls, xv_atr_cb_good;
const char *xv_atr_g_name; void *xv_atr_g_cbdata;          /* NEVER ASSIGNED: the name / cb_data the callback is expected to get */
uint8_t xv_atr_mark;              /* NEVER ASSIGNED: the first byte of the value a successful getter delivers */

/* ---- the registered callbacks (TRUSTED stand-ins for the ~55 real setters/getters, which have their own contracts in
 * units tcpattr, btcp, btls, tpcore, xcmcore).  They return ANY int and ANY errno. */
int xv_atr_setter(struct xcm_socket *s, void *context, const void *value, size_t len)
__CPROVER_requires(ATR_CNT_OK_STUB(xv_atr_set_calls) && ATR_CNT_OK_STUB(xv_atr_set_good))
__CPROVER_assigns(xv_errno, xv_atr_set_calls, xv_atr_set_good, xv_atr_set_rv, xv_atr_set_errno)
__CPROVER_ensures(xv_atr_set_calls == ATR_OLD(xv_atr_set_calls) + 1)
__CPROVER_ensures(xv_atr_set_good == ATR_OLD(xv_atr_set_good) + \
                  ((s == xv_atr_g_sock && context == xv_atr_g_ctx && value == xv_atr_g_value && len == xv_atr_g_len) ? 1 : 0))
__CPROVER_ensures(xv_atr_set_rv == ATR_RV && xv_atr_set_errno == xv_errno)
;
/* the getter's precondition is the C10 obligation on its caller: the buffer handed down is writable for `capacity` bytes
 * (checked at the call site; a buffer of more than ATR_CAP_MAX bytes is represented by its first ATR_CAP_MAX bytes).
 * What is assumed of a getter is what C10 demands of every getter and what their own units prove: it writes inside the
 * buffer, a success returns the number of bytes written (<= capacity; == sizeof(T) for bool/int64/double; a str is
 * NUL-terminated at rv-1), EOVERFLOW is only reported for a capacity below the size of the value (xv_atr_need, any value
 * up to ATR_NEED_MAX, see there). */
#define ATR_BUF_SIZE(cap) ((cap) <= ATR_CAP_MAX ? (cap) : (size_t)ATR_CAP_MAX)
int xv_atr_getter(struct xcm_socket *s, void *context, void *value, size_t capacity)
__CPROVER_requires(ATR_CNT_OK_STUB(xv_atr_get_calls) && ATR_CNT_OK_STUB(xv_atr_get_good) && xv_atr_need <= ATR_NEED_MAX)
__CPROVER_requires(capacity == 0 || __CPROVER_w_ok(value, ATR_BUF_SIZE(capacity)))
__CPROVER_assigns(xv_errno, xv_atr_get_calls, xv_atr_get_good, xv_atr_get_rv, xv_atr_get_errno, xv_atr_get_cap)
__CPROVER_assigns(capacity > 0 && capacity <= ATR_CAP_MAX: __CPROVER_object_upto(value, capacity))
__CPROVER_assigns(capacity > ATR_CAP_MAX: __CPROVER_object_upto(value, ATR_CAP_MAX))
__CPROVER_ensures(xv_atr_get_calls == ATR_OLD(xv_atr_get_calls) + 1 && xv_atr_get_cap == capacity)
__CPROVER_ensures(xv_atr_get_good == ATR_OLD(xv_atr_get_good) + \
                  ((s == xv_atr_g_sock && context == xv_atr_g_ctx && value == xv_atr_g_buf && capacity == xv_atr_g_cap) ? 1 : 0))
__CPROVER_ensures(xv_atr_get_rv == ATR_RV && xv_atr_get_errno == xv_errno)
__CPROVER_ensures((ATR_RV < 0 && xv_errno == EOVERFLOW) ==> capacity < xv_atr_need)
__CPROVER_ensures(ATR_RV >= 0 ==> ((size_t)ATR_RV <= capacity && (size_t)ATR_RV <= xv_atr_need))
__CPROVER_ensures((ATR_RV >= 0 && xv_atr_h_type == xcm_attr_type_bool) ==> ATR_RV == sizeof(bool))
__CPROVER_ensures((ATR_RV >= 0 && (xv_atr_h_type == xcm_attr_type_int64 || xv_atr_h_type == xcm_attr_type_double)) ==> ATR_RV == 8)
__CPROVER_ensures((ATR_RV >= 0 && xv_atr_h_type == xcm_attr_type_str) ==> (ATR_RV >= 1 && ((const char *)value)[ATR_RV - 1] == 0))
/* (names the first byte of the value read: the callback of attr_tree_get_all must see it.  Position 0, not an arbitrary
 * one: a read at a symbolic offset of each of the buffers of visit_value costs 0.4M variables) */
__CPROVER_ensures((ATR_RV >= 1 && !(xv_atr_h_type == xcm_attr_type_str && ATR_RV == 1)) ==> ((const uint8_t *)value)[0] == xv_atr_mark)
;
/* ---- libxcm/core/log_attr_tree.c: attr_tree_get_value formats every value it has read for the log, whether or not
 * logging is enabled (LOG_ATTR_TREE_GET_RESULT).  Its precondition -- what it reads of `value` for each type -- is an
 * obligation at the call site: the bytes formatted lie inside what the getter reported as written. */
void log_attr_str_value(enum xcm_attr_type type, const void *value, size_t len, char *buf, size_t capacity)
__CPROVER_requires(capacity >= 64 && __CPROVER_w_ok(buf, capacity))
__CPROVER_requires(type == xcm_attr_type_bool ==> __CPROVER_r_ok(value, sizeof(bool)))
__CPROVER_requires((type == xcm_attr_type_int64 || type == xcm_attr_type_double) ==> __CPROVER_r_ok(value, 8))
__CPROVER_requires(type == xcm_attr_type_str ==> (len >= 1 && __CPROVER_r_ok(value, len) && ((const char *)value)[len - 1] == 0))
__CPROVER_requires(type == xcm_attr_type_bin ==> (len == 0 || __CPROVER_r_ok(value, len)))
__CPROVER_assigns(__CPROVER_object_upto(buf, capacity))
__CPROVER_ensures(1)
;

/* ---- node shapes */
#define ATR_TYPE_VALID(t) ((t) == xcm_attr_type_bool || (t) == xcm_attr_type_int64 || (t) == xcm_attr_type_str || \
                           (t) == xcm_attr_type_bin || (t) == xcm_attr_type_double)
#define ATR_KIND_OK(n) ((n)->type == attr_node_type_value || (n)->type == attr_node_type_dict || (n)->type == attr_node_type_list)
/* a value node as attr_tree_add_value_node makes it: one of the five types, socket/context as registered, setter and
 * getter each absent (NULL) or the stub */
#define ATR_VALUE_FIELDS_OK(n) (ATR_TYPE_VALID((n)->value.type) && (int)(n)->value.type == xv_atr_h_type && (n)->value.s == xv_atr_g_sock && (n)->value.context == xv_atr_g_ctx && \
        ((n)->value.set == NULL || (n)->value.set == xv_atr_setter) && ((n)->value.get == NULL || (n)->value.get == xv_atr_getter))
/* The two outcomes of the lookup are two VARIANTS of each job (-DXV_ATR_HIT=1: resolves to some node, =0: does not
 * resolve): a replaced contract that yields "NULL or a fresh node" costs 3.5M variables (0.3M each way). */
#ifndef XV_ATR_HIT
#define XV_ATR_HIT 1
#endif
#if XV_ATR_HIT
#define ATR_HIT_REQ (xv_atr_h_kind >= 0 && xv_atr_h_kind <= 2 && ATR_TYPE_VALID(xv_atr_h_type))
#define ATR_HIT_IS(n) (__CPROVER_is_fresh((n), sizeof(struct attr_node)) && (int)(n)->type == xv_atr_h_kind && \
        (xv_atr_h_kind == attr_node_type_value ==> ((int)(n)->value.type == xv_atr_h_type && (n)->value.s == xv_atr_g_sock && (n)->value.context == xv_atr_g_ctx && \
            (n)->value.set == (xv_atr_h_set ? xv_atr_setter : NULL) && (n)->value.get == (xv_atr_h_get ? xv_atr_getter : NULL))))
#else
#define ATR_HIT_REQ (xv_atr_h_kind == -1)
#define ATR_HIT_IS(n) ((n) == NULL)
#endif
#define ATR_UNKNOWN (xv_atr_h_kind < 0)
#define ATR_CONTAINER (xv_atr_h_kind == attr_node_type_dict || xv_atr_h_kind == attr_node_type_list)
#define ATR_ISVAL (xv_atr_h_kind == attr_node_type_value)
#define ATR_WRITABLE (ATR_ISVAL && xv_atr_h_set)
#define ATR_READABLE (ATR_ISVAL && xv_atr_h_get)
#define ATR_REG_TYPE xv_atr_h_type
/* the name passed attr_path_parse: observable as "node_lookup ran" */
#define ATR_LOOKED_UP (xv_atr_lookup_calls == ATR_OLD(xv_atr_lookup_calls) + 1)
#define ATR_NOT_LOOKED_UP (xv_atr_lookup_calls == ATR_OLD(xv_atr_lookup_calls))

/* the name: a string in the layout of unit attrpath (the three requires clauses of attr_path_parse) */
#define ATR_NAME_REQ(p) (__CPROVER_pointer_in_range_dfcc(xv_ap_base, (p), xv_ap_base + AP_END) && AP_OFF(p) == AP_END - xv_ap_len)

/* ---- node_lookup.  Where it REPLACES the call (attr_tree_set_value / attr_tree_get_value) the result is NULL or a
 * live node as the ghosts xv_atr_h_* (never assigned, arbitrary) describe it.  That node_lookup really returns NULL or a
 * node of the tree -- and which one -- is what the bounded jobs tree_* check on the real text. */
static struct attr_node *node_lookup(struct attr_node *root, const struct attr_path *path)
__CPROVER_requires(__CPROVER_r_ok(path, sizeof(struct attr_path)) && ATR_CNT_OK(xv_atr_lookup_calls))
__CPROVER_assigns(xv_atr_lookup_calls)
__CPROVER_ensures(ATR_LOOKED_UP)
__CPROVER_ensures(ATR_HIT_IS(ATR_RV))
;

/* ---- attr_tree_set_value */
/* what the documentation of enum xcm_attr_type says about lengths: bool sizeof(bool), int64 8, double 8, str "the actual
 * string length (including NUL)", bin any */
#define ATR_LEN_OK(t, l) ((t) == xcm_attr_type_bool ? (l) == sizeof(bool) : (t) == xcm_attr_type_int64 ? (l) == sizeof(int64_t) : \
                          (t) == xcm_attr_type_double ? (l) == sizeof(double) : (t) == xcm_attr_type_str ? (l) >= 1 : 1)
/* a str value that is not a C string of exactly len-1 characters: not terminated at len-1, or (arbitrary position xv_j)
 * a NUL before that */
#define ATR_STR_UNTERMINATED(v, l) ((l) >= 1 && (l) <= ATR_STR_MAX && ((const char *)(v))[(l) - 1] != 0)
#define ATR_STR_SHORTER(v, l) ((l) >= 2 && (l) <= ATR_STR_MAX && xv_j >= 0 && (size_t)xv_j < (l) - 1 && ((const char *)(v))[xv_j] == 0)
#define ATR_VALUE_BAD(t, v, l) (!ATR_LEN_OK(t, l) || ((t) == xcm_attr_type_str && (ATR_STR_UNTERMINATED(v, l) || ATR_STR_SHORTER(v, l))))
#define ATR_NO_SETTER (xv_atr_set_calls == ATR_OLD(xv_atr_set_calls) && xv_atr_set_good == ATR_OLD(xv_atr_set_good))
#define ATR_REJECTED(e) (ATR_RV == -1 && xv_errno == (e) && ATR_NO_SETTER)
#define ATR_SET_ERRNO_IN3 (xv_errno == ENOENT || xv_errno == EACCES || xv_errno == EINVAL)

int attr_tree_set_value(struct attr_tree *tree, const char *path_str, enum xcm_attr_type type, const void *value, size_t len, void *log_ref)
__CPROVER_requires(__CPROVER_is_fresh(tree, sizeof(struct attr_tree)))
__CPROVER_requires(AP_BASE_FRESH)
__CPROVER_requires(AP_BASE_STR)
__CPROVER_requires(ATR_NAME_REQ(path_str))
__CPROVER_requires(ATR_HIT_REQ)
__CPROVER_requires(ATR_CNT_OK(xv_atr_lookup_calls) && ATR_CNT_OK(xv_atr_set_calls) && ATR_CNT_OK(xv_atr_set_good))
#ifndef XV_ATR_ANY_TYPE
/* (the caller's type is one of the five enumerators; job set_value@anytype drops this) */
__CPROVER_requires(ATR_TYPE_VALID(type))
#endif
__CPROVER_requires(type == xcm_attr_type_str ==> len <= ATR_STR_MAX)
__CPROVER_requires((len >= 1 && len <= ATR_STR_MAX) ==> __CPROVER_is_fresh(value, len))
__CPROVER_requires(value == xv_atr_g_value && len == xv_atr_g_len)
__CPROVER_assigns(xv_errno, xv_atr_lookup_calls, xv_atr_set_calls, xv_atr_set_good, xv_atr_set_rv, xv_atr_set_errno, xv_ap_strtol_val, xv_ap_strtol_used)
__CPROVER_ensures(ATR_RV >= -1)
/* PO[C10] attr_tree_set_value.overlong_name_einval */
__CPROVER_ensures(xv_ap_len > ATTR_PATH_NAME_MAX ==> ATR_REJECTED(EINVAL))
/* PO[C10] attr_tree_set_value.unknown_name_rejected_before_setter */
__CPROVER_ensures(ATR_UNKNOWN ==> (ATR_RV == -1 && ATR_NO_SETTER && (xv_errno == ENOENT || xv_errno == EINVAL)))
/* PO[C10] attr_tree_set_value.unknown_name_enoent: a well-formed name that does not resolve, with a well-formed value */
__CPROVER_ensures((ATR_UNKNOWN && ATR_LOOKED_UP) ==> ATR_REJECTED(ENOENT))
__CPROVER_ensures((ATR_UNKNOWN && ATR_TYPE_VALID(type) && !ATR_VALUE_BAD(type, value, len) && xv_errno == EINVAL) ==> ATR_NOT_LOOKED_UP)
/* PO[C10] attr_tree_set_value.container_name_rejected_before_setter: the name of a dictionary or list is not an attribute */
__CPROVER_ensures(ATR_CONTAINER ==> (ATR_RV == -1 && ATR_NO_SETTER && ATR_SET_ERRNO_IN3))
__CPROVER_ensures((ATR_CONTAINER && ATR_LOOKED_UP) ==> (xv_errno == ENOENT || xv_errno == EACCES))
#ifdef XV_ATR_STRICT
/* PO[C10] attr_tree_set_value.container_name_enoent */
__CPROVER_ensures((ATR_CONTAINER && ATR_LOOKED_UP) ==> xv_errno == ENOENT)
#endif
/* PO[C10] attr_tree_set_value.read_only_rejected_before_setter */
__CPROVER_ensures((ATR_ISVAL && !ATR_WRITABLE) ==> (ATR_RV == -1 && ATR_NO_SETTER && (xv_errno == EACCES || xv_errno == EINVAL)))
/* PO[C10] attr_tree_set_value.read_only_eacces: whatever type the caller names */
__CPROVER_ensures((ATR_ISVAL && !ATR_WRITABLE && ATR_LOOKED_UP) ==> ATR_REJECTED(EACCES))
/* PO[C10] attr_tree_set_value.wrong_type_einval_before_setter: a type other than the registered one (any int) */
__CPROVER_ensures((ATR_WRITABLE && (int)type != ATR_REG_TYPE) ==> ATR_REJECTED(EINVAL))
/* PO[C10] attr_tree_set_value.wrong_length_rejected_before_setter */
__CPROVER_ensures(!ATR_LEN_OK(type, len) ==> (ATR_RV == -1 && ATR_NO_SETTER && ATR_SET_ERRNO_IN3))
/* PO[C10] attr_tree_set_value.wrong_length_einval */
__CPROVER_ensures((ATR_WRITABLE && !ATR_LEN_OK(type, len)) ==> ATR_REJECTED(EINVAL))
/* PO[C10] attr_tree_set_value.unterminated_str_rejected_before_setter: the setters use a str value as a C string */
__CPROVER_ensures((type == xcm_attr_type_str && ATR_STR_UNTERMINATED(value, len)) ==> (ATR_RV == -1 && ATR_NO_SETTER && ATR_SET_ERRNO_IN3))
/* PO[C10] attr_tree_set_value.unterminated_str_einval */
__CPROVER_ensures((ATR_WRITABLE && type == xcm_attr_type_str && ATR_STR_UNTERMINATED(value, len)) ==> ATR_REJECTED(EINVAL))
#ifdef XV_ATR_STRICT
/* PO[C10] attr_tree_set_value.str_length_is_strlen_plus_one */
__CPROVER_ensures((type == xcm_attr_type_str && ATR_STR_SHORTER(value, len)) ==> (ATR_RV == -1 && ATR_NO_SETTER && ATR_SET_ERRNO_IN3))
#endif
/* PO[C10] attr_tree_set_value.errno_is_truthful: ENOENT only for a name that does not resolve, EACCES only for an existing node that cannot be written, EINVAL only for a malformed name/value or a type other than the registered one */
__CPROVER_ensures((ATR_RV == -1 && ATR_NO_SETTER) ==> (ATR_SET_ERRNO_IN3 && (xv_errno == ENOENT ==> ATR_UNKNOWN) && (xv_errno == EACCES ==> (!ATR_UNKNOWN && !ATR_WRITABLE)) && \
                  (xv_errno == EINVAL ==> (ATR_NOT_LOOKED_UP || (ATR_WRITABLE && (int)type != ATR_REG_TYPE)))))
__CPROVER_ensures((ATR_RV == -1 && xv_errno == EINVAL && ATR_NOT_LOOKED_UP && xv_ap_len == 0) ==> \
                  (!ATR_TYPE_VALID(type) || !ATR_LEN_OK(type, len) || (type == xcm_attr_type_str && ATR_STR_UNTERMINATED(value, len))))
/* PO[C10] attr_tree_set_value.setter_runs_at_most_once_with_the_callers_value_only_if_everything_fits */
__CPROVER_ensures(ATR_NO_SETTER || (xv_atr_set_calls == ATR_OLD(xv_atr_set_calls) + 1 && xv_atr_set_good == ATR_OLD(xv_atr_set_good) + 1 && ATR_LOOKED_UP && \
                  ATR_WRITABLE && (int)type == ATR_REG_TYPE && ATR_LEN_OK(type, len)))
/* PO[C10] attr_tree_set_value.accepted_value_reaches_setter_once */
__CPROVER_ensures((ATR_WRITABLE && (int)type == ATR_REG_TYPE && ATR_LEN_OK(type, len) && ATR_LOOKED_UP) ==> \
                  (xv_atr_set_calls == ATR_OLD(xv_atr_set_calls) + 1 && xv_atr_set_good == ATR_OLD(xv_atr_set_good) + 1))
/* PO[C10] attr_tree_set_value.setter_result_passed_through */
__CPROVER_ensures(!ATR_NO_SETTER ==> (ATR_RV == (xv_atr_set_rv < 0 ? -1 : xv_atr_set_rv) && xv_errno == xv_atr_set_errno))
;

/* ---- attr_tree_get_value */
#define ATR_NO_GETTER (xv_atr_get_calls == ATR_OLD(xv_atr_get_calls) && xv_atr_get_good == ATR_OLD(xv_atr_get_good))
/* the caller's buffer (arbitrary byte xv_j) and *type are as on entry */
#define ATR_BUF_J_VALID(cap) (xv_j >= 0 && (size_t)xv_j < ATR_BUF_SIZE(cap))
#define ATR_UNTOUCHED(tp, v, cap) ((ATR_BUF_J_VALID(cap) ==> ((const uint8_t *)(v))[xv_j] == xv_atr_g_byte) && ((tp) != NULL ==> (int)*(tp) == xv_atr_g_type))
#define ATR_GET_REJECTED(e, tp, v, cap) (ATR_RV == -1 && xv_errno == (e) && ATR_NO_GETTER && ATR_UNTOUCHED(tp, v, cap))

int attr_tree_get_value(struct attr_tree *tree, const char *path_str, enum xcm_attr_type *type, void *value, size_t capacity, void *log_ref)
__CPROVER_requires(__CPROVER_is_fresh(tree, sizeof(struct attr_tree)))
__CPROVER_requires(AP_BASE_FRESH)
__CPROVER_requires(AP_BASE_STR)
__CPROVER_requires(ATR_NAME_REQ(path_str))
__CPROVER_requires(ATR_HIT_REQ)
__CPROVER_requires(ATR_CNT_OK(xv_atr_lookup_calls) && ATR_CNT_OK(xv_atr_get_calls) && ATR_CNT_OK(xv_atr_get_good) && xv_atr_need <= ATR_NEED_MAX)
__CPROVER_requires(type == NULL || __CPROVER_is_fresh(type, sizeof(*type)))
__CPROVER_requires(capacity >= 1 ==> __CPROVER_is_fresh(value, ATR_BUF_SIZE(capacity)))
__CPROVER_requires(value == xv_atr_g_buf && capacity == xv_atr_g_cap)
__CPROVER_requires(ATR_BUF_J_VALID(capacity) ==> ((const uint8_t *)value)[xv_j] == xv_atr_g_byte)
__CPROVER_requires(type != NULL ==> (int)*type == xv_atr_g_type)
__CPROVER_assigns(xv_errno, xv_atr_lookup_calls, xv_atr_get_calls, xv_atr_get_good, xv_atr_get_rv, xv_atr_get_errno, xv_atr_get_cap, xv_ap_strtol_val, xv_ap_strtol_used)
__CPROVER_assigns(type != NULL: *type)
__CPROVER_assigns(capacity > 0 && capacity <= ATR_CAP_MAX: __CPROVER_object_upto(value, capacity))
__CPROVER_assigns(capacity > ATR_CAP_MAX: __CPROVER_object_upto(value, ATR_CAP_MAX))
__CPROVER_ensures(ATR_RV >= -1)
/* PO[C10] attr_tree_get_value.overlong_name_einval_nothing_written */
__CPROVER_ensures(xv_ap_len > ATTR_PATH_NAME_MAX ==> ATR_GET_REJECTED(EINVAL, type, value, capacity))
/* PO[C10] attr_tree_get_value.unknown_name_enoent_nothing_written */
__CPROVER_ensures(ATR_UNKNOWN ==> (ATR_RV == -1 && ATR_NO_GETTER && ATR_UNTOUCHED(type, value, capacity) && (xv_errno == ENOENT || xv_errno == EINVAL) && \
                  ((xv_errno == ENOENT) == ATR_LOOKED_UP)))
/* PO[C10] attr_tree_get_value.container_name_rejected_nothing_written */
__CPROVER_ensures(ATR_CONTAINER ==> (ATR_RV == -1 && ATR_NO_GETTER && ATR_UNTOUCHED(type, value, capacity) && (xv_errno == ENOENT || xv_errno == EACCES || xv_errno == EINVAL) && \
                  ((xv_errno == EINVAL) == ATR_NOT_LOOKED_UP)))
#ifdef XV_ATR_STRICT
/* PO[C10] attr_tree_get_value.container_name_enoent */
__CPROVER_ensures((ATR_CONTAINER && ATR_LOOKED_UP) ==> xv_errno == ENOENT)
#endif
/* PO[C10] attr_tree_get_value.write_only_eacces_nothing_written */
__CPROVER_ensures((ATR_ISVAL && !ATR_READABLE) ==> (ATR_RV == -1 && ATR_NO_GETTER && ATR_UNTOUCHED(type, value, capacity) && (xv_errno == EACCES || xv_errno == EINVAL) && \
                  ((xv_errno == EACCES) == ATR_LOOKED_UP)))
/* PO[C10] attr_tree_get_value.getter_called_once_with_the_callers_buffer_and_capacity */
__CPROVER_ensures((ATR_READABLE && ATR_LOOKED_UP) ==> (xv_atr_get_calls == ATR_OLD(xv_atr_get_calls) + 1 && xv_atr_get_good == ATR_OLD(xv_atr_get_good) + 1 && xv_atr_get_cap == capacity))
__CPROVER_ensures(ATR_NO_GETTER || (xv_atr_get_calls == ATR_OLD(xv_atr_get_calls) + 1 && xv_atr_get_good == ATR_OLD(xv_atr_get_good) + 1 && ATR_READABLE && ATR_LOOKED_UP))
/* PO[C10] attr_tree_get_value.getter_result_returned_unchanged */
__CPROVER_ensures(!ATR_NO_GETTER ==> (ATR_RV == (xv_atr_get_rv < 0 ? -1 : xv_atr_get_rv) && xv_errno == xv_atr_get_errno))
/* PO[C10] attr_tree_get_value.type_reported_is_the_registered_type */
__CPROVER_ensures((!ATR_NO_GETTER && type != NULL) ==> (int)*type == ATR_REG_TYPE)
/* PO[C10] attr_tree_get_value.no_getter_nothing_written */
__CPROVER_ensures(ATR_NO_GETTER ==> (ATR_RV == -1 && ATR_UNTOUCHED(type, value, capacity) && (xv_errno == ENOENT || xv_errno == EACCES || xv_errno == EINVAL)))
/* PO[C10] attr_tree_get_value.errno_is_truthful */
__CPROVER_ensures(ATR_NO_GETTER ==> ((xv_errno == ENOENT ==> ATR_UNKNOWN) && (xv_errno == EACCES ==> (!ATR_UNKNOWN && !ATR_READABLE)) && (xv_errno == EINVAL ==> ATR_NOT_LOOKED_UP)))
;

/* ---- attr_node_value_set / attr_node_value_get: dispatch to the registered function with the registered socket and
 * context and EXACTLY the caller's value/len (buffer/capacity); result and errno are the callee's */
#define ATR_VNODE_REQ(n) (__CPROVER_is_fresh((n), sizeof(struct attr_node)) && (n)->type == attr_node_type_value && ATR_VALUE_FIELDS_OK(n))
int attr_node_value_set(const struct attr_node *value_node, const void *value, size_t len)
__CPROVER_requires(ATR_VNODE_REQ(value_node) && value_node->value.set != NULL)
__CPROVER_requires(ATR_CNT_OK(xv_atr_set_calls) && ATR_CNT_OK(xv_atr_set_good) && value == xv_atr_g_value && len == xv_atr_g_len)
__CPROVER_assigns(xv_errno, xv_atr_set_calls, xv_atr_set_good, xv_atr_set_rv, xv_atr_set_errno)
/* PO[C10] attr_node_value_set.dispatches_once_with_the_callers_value */
__CPROVER_ensures(xv_atr_set_calls == ATR_OLD(xv_atr_set_calls) + 1 && xv_atr_set_good == ATR_OLD(xv_atr_set_good) + 1)
/* PO[C10] attr_node_value_set.result_unchanged */
__CPROVER_ensures(ATR_RV == xv_atr_set_rv && xv_errno == xv_atr_set_errno)
;
int attr_node_value_get(const struct attr_node *value_node, void *value, size_t capacity)
__CPROVER_requires(ATR_VNODE_REQ(value_node) && value_node->value.get != NULL)
__CPROVER_requires(capacity >= 1 ==> __CPROVER_is_fresh(value, ATR_BUF_SIZE(capacity)))
__CPROVER_requires(ATR_CNT_OK(xv_atr_get_calls) && ATR_CNT_OK(xv_atr_get_good) && xv_atr_need <= ATR_NEED_MAX && value == xv_atr_g_buf && capacity == xv_atr_g_cap)
__CPROVER_assigns(xv_errno, xv_atr_get_calls, xv_atr_get_good, xv_atr_get_rv, xv_atr_get_errno, xv_atr_get_cap)
__CPROVER_assigns(capacity > 0 && capacity <= ATR_CAP_MAX: __CPROVER_object_upto(value, capacity))
__CPROVER_assigns(capacity > ATR_CAP_MAX: __CPROVER_object_upto(value, ATR_CAP_MAX))
/* PO[C10] attr_node_value_get.dispatches_once_with_the_callers_buffer_and_capacity */
__CPROVER_ensures(xv_atr_get_calls == ATR_OLD(xv_atr_get_calls) + 1 && xv_atr_get_good == ATR_OLD(xv_atr_get_good) + 1 && xv_atr_get_cap == capacity)
/* PO[C10] attr_node_value_get.result_unchanged */
__CPROVER_ensures(ATR_RV == xv_atr_get_rv && xv_errno == xv_atr_get_errno)
;

/* ---- constructors: what ATTR_TREE_ADD_RW / ATTR_TREE_ADD_RO (attr_tree_add_value_node) register is what the checks of
 * attr_tree_set_value / attr_tree_get_value later read: type, socket, context, setter (NULL for _RO) and getter, unchanged */
struct attr_node *attr_node_value(struct xcm_socket *s, void *context, enum xcm_attr_type type, attr_set set, attr_get get)
__CPROVER_requires(1)
__CPROVER_assigns()
/* PO[C10] attr_node_value.registers_exactly_what_it_was_given */
__CPROVER_ensures(__CPROVER_is_fresh(ATR_RV, sizeof(struct attr_node)) && ATR_RV->type == attr_node_type_value && ATR_RV->value.type == type && \
                  ATR_RV->value.s == s && ATR_RV->value.context == context && ATR_RV->value.set == set && ATR_RV->value.get == get)
;
struct attr_tree *attr_tree_create(void)
__CPROVER_requires(1)
__CPROVER_assigns()
/* PO[C10] attr_tree_create.empty_root_dictionary */
__CPROVER_ensures(__CPROVER_is_fresh(ATR_RV, sizeof(struct attr_tree)) && __CPROVER_is_fresh(ATR_RV->root, sizeof(struct attr_node)) && \
                  ATR_RV->root->type == attr_node_type_dict && ATR_RV->root->dict.tqh_first == NULL && ATR_RV->root->dict.tqh_last == &ATR_RV->root->dict.tqh_first)
;

/* (attr_node_dict_add_key / attr_node_list_append / attr_node_destroy -- TAILQ_INSERT_TAIL / TAILQ_REMOVE -- have no job:
 * CBMC 6.11 loses a store made through a pointer to a member of struct attr_node's anonymous union, see
 * harness/attrtree/_tree.h; even the first insertion into an empty list fails its (true) postcondition for that reason) */

/* ---- attr_tree_get_all: one value node.  The application's callback is a body-less stub that records its calls; its
 * precondition (checked at the call site) is that the value it is shown is readable for value_len bytes. */
void xv_atr_cb(const char *attr_name, enum xcm_attr_type type, void *value, size_t value_len, void *cb_data)
__CPROVER_requires(ATR_CNT_OK_STUB(xv_atr_cb_calls) && ATR_CNT_OK_STUB(xv_atr_cb_good))
__CPROVER_requires(value_len == 0 || __CPROVER_r_ok(value, value_len))
__CPROVER_assigns(xv_atr_cb_calls, xv_atr_cb_good)
__CPROVER_ensures(xv_atr_cb_calls == ATR_OLD(xv_atr_cb_calls) + 1)
__CPROVER_ensures(xv_atr_cb_good == ATR_OLD(xv_atr_cb_good) + \
                  ((attr_name == xv_atr_g_name && (int)type == xv_atr_h_type && cb_data == xv_atr_g_cbdata && xv_atr_get_rv >= 0 && value_len == (size_t)xv_atr_get_rv && \
                    ((value_len >= 1 && !(xv_atr_h_type == xcm_attr_type_str && value_len == 1)) ==> ((const uint8_t *)value)[0] == xv_atr_mark)) ? 1 : 0))
;
/* 256 << (ATR_NEED_TRIES - 1) == ATR_NEED_MAX */
#define ATR_NEED_TRIES 3
_Static_assert((256 << (ATR_NEED_TRIES - 1)) == ATR_NEED_MAX, "ATR_NEED_TRIES");
#define ATR_NO_CB (xv_atr_cb_calls == ATR_OLD(xv_atr_cb_calls) && xv_atr_cb_good == ATR_OLD(xv_atr_cb_good))
#define ATR_ONE_GOOD_CB (xv_atr_cb_calls == ATR_OLD(xv_atr_cb_calls) + 1 && xv_atr_cb_good == ATR_OLD(xv_atr_cb_good) + 1)
static void visit_value(const char *path, const struct attr_node *value_node, xcm_attr_cb cb, void *cb_data)
__CPROVER_requires(ATR_VNODE_REQ(value_node) && cb == xv_atr_cb && path == xv_atr_g_name && cb_data == xv_atr_g_cbdata)
__CPROVER_requires(ATR_CNT_OK(xv_atr_get_calls) && ATR_CNT_OK(xv_atr_get_good) && ATR_CNT_OK(xv_atr_cb_calls) && ATR_CNT_OK(xv_atr_cb_good) && xv_atr_need <= ATR_NEED_MAX)
__CPROVER_assigns(xv_errno, xv_atr_get_calls, xv_atr_get_good, xv_atr_get_rv, xv_atr_get_errno, xv_atr_get_cap, xv_atr_cb_calls, xv_atr_cb_good)
/* PO[C10] visit_value.write_only_attribute_skipped */
__CPROVER_ensures(value_node->value.get == NULL ==> (ATR_NO_GETTER && ATR_NO_CB))
/* PO[C10] visit_value.read_through_the_registered_getter_with_a_buffer_of_at_least_256_bytes */
__CPROVER_ensures(value_node->value.get != NULL ==> (xv_atr_get_calls >= ATR_OLD(xv_atr_get_calls) + 1 && xv_atr_get_calls <= ATR_OLD(xv_atr_get_calls) + ATR_NEED_TRIES && xv_atr_get_cap >= 256))
/* PO[C10] visit_value.retried_with_a_larger_buffer_only_on_eoverflow: the last attempt is the only one that may have any other outcome */
__CPROVER_ensures(value_node->value.get != NULL ==> !(xv_atr_get_rv < 0 && xv_atr_get_errno == EOVERFLOW))
__CPROVER_ensures((value_node->value.get != NULL && xv_atr_get_calls > ATR_OLD(xv_atr_get_calls) + 1) ==> xv_atr_get_cap >= 512)
/* PO[C10] visit_value.value_reported_once_with_registered_type_and_exact_length */
__CPROVER_ensures((value_node->value.get != NULL && xv_atr_get_rv >= 0) ==> ATR_ONE_GOOD_CB)
/* PO[C10] visit_value.failing_getter_skipped */
__CPROVER_ensures((value_node->value.get != NULL && xv_atr_get_rv < 0) ==> ATR_NO_CB)
;

#include "contracts/end.h"
#endif
