/* contracts/timerdns.h -- timers (libxcm/core/timer_mgr.c) and the resolver query (libxcm/tp/dns/xcm_dns_cares.c)
 *
 *   part TM  (XV_TD_TM) : timer_mgr.c            C04 (timerfd armed at the earliest expiry and registered), C13 (expiry observed), C08
 *   part DNS (XV_TD_DNS): xcm_dns_cares.c        xcm_dns_resolve, xcm_dns_query_process, process_in_progress, query_cb, get_ips,
 *                                                xcm_dns_query_result, xcm_dns_query_completed, xcm_dns_query_destroy, update_xpoll
 *
 * These are the contracts that the units dnstc (contracts/dnstc.h) and btcp (contracts/btcp.h) ASSUME of these functions; here
 * they are ENFORCED on the real bodies.  Where dnstc.h speaks of the ghost counter xv_timers ("live timers of the manager"),
 * part TM speaks of the length of the manager's list, TM_LEN(mgr): that is the abstraction function.  The clause text shared
 * by both readings is written once (TMC_* macros) and instantiated with either.
 */
#ifndef XV_TIMERDNS_H
#define XV_TIMERDNS_H
#include "contracts/begin.h"

#include "harness/timerdns/_ghost.h"

#define XV_ERRNO_OK(e) ((e) >= 1 && (e) <= 133)

/* ---- clause text shared by the concrete (part TM) and the abstract (part DNS, = contracts/dnstc.h) contracts of timer_mgr.c ---- */
/* schedule: a valid id, one more timer */
#define TMC_SCHEDULED(rv, timers_now, timers_old) ((rv) >= 0 && (timers_now) == (timers_old) + 1)
/* cancel: the id is invalidated; one timer less iff it named a live timer */
#define TMC_CANCELLED(idp, was_live, timers_now, timers_old) (*(idp) == -1 && (timers_now) == (timers_old) - ((was_live) ? 1 : 0))

/* ==================================================================================================================== */
#ifdef XV_TD_TM
/* ==================================================================================================================== */
/* ---- the timer list: a <sys/queue.h> LIST of heap elements.  BOUNDED: the contracts describe lists of at most 3 elements
 * on entry (the library never has more than 3 timers per manager: tconnect 2 tracks + 1, resolver 2); element k is reached
 * by k-1 le_next steps from the head. */
#define TM_H(m) ((m)->mtimers.lh_first)
#define TM_NX(p) ((p)->entry.le_next)
#define TM_N1(m) TM_H(m)
#define TM_N2(m) TM_NX(TM_N1(m))
#define TM_N3(m) TM_NX(TM_N2(m))
#define TM_N4(m) TM_NX(TM_N3(m))
#define TM_N5(m) TM_NX(TM_N4(m))
#define TM_HAS1(m) (TM_N1(m) != NULL)
#define TM_HAS2(m) (TM_HAS1(m) && TM_N2(m) != NULL)
#define TM_HAS3(m) (TM_HAS2(m) && TM_N3(m) != NULL)
#define TM_HAS4(m) (TM_HAS3(m) && TM_N4(m) != NULL)
#define TM_HAS5(m) (TM_HAS4(m) && TM_N5(m) != NULL)
/* number of timers (exact up to 4; 5 = "more") */
#define TM_LEN(m) (!TM_HAS1(m) ? 0 : !TM_HAS2(m) ? 1 : !TM_HAS3(m) ? 2 : !TM_HAS4(m) ? 3 : !TM_HAS5(m) ? 4 : 5)
/* back links of the first four elements: le_prev of element k is the address of the pointer that points at it (the head's
 * lh_first / its predecessor's le_next).  Written through a dereference: CBMC 6.11 crashes (simplify_inequality) on the
 * address-of form `le_prev == &pred->entry.le_next` inside a clause.  On entry the harness has built the list with the real
 * LIST_INSERT_HEAD, so the address-of form holds by construction; on exit the harnesses assert it in code (xv_tm_links_ok). */
#define TM_LINKS(m) ((TM_HAS1(m) ==> *(TM_N1(m)->entry.le_prev) == TM_N1(m)) && (TM_HAS2(m) ==> *(TM_N2(m)->entry.le_prev) == TM_N2(m)) && \
                     (TM_HAS3(m) ==> *(TM_N3(m)->entry.le_prev) == TM_N3(m)) && (TM_HAS4(m) ==> *(TM_N4(m)->entry.le_prev) == TM_N4(m)))
/* list element k (1-based, constant) is the element the snapshot has at index i (0-based): same object, same id, same expiry */
#define TM_IS_OLD(N, i) ((const void *)(N) == xv_gt.node[i] && (N)->id == xv_gt.id[i] && (N)->expiry_time == xv_gt.exp[i])
#define XV_ID_MAX 0x7ffffffeL     /* schedule_abs() narrows the id to int: see the job timer_mgr_schedule@ids for ids beyond */
#define GT_ID_OK(i) (xv_gt.id[i] >= 0 && xv_gt.id[i] < xv_gt.next)
#define GT_EXP_OK(i) (xv_gt.exp[i] == xv_gt.exp[i] /* not NaN */)
/* representation invariant on entry + binding of the snapshot constants */
#define TM_ENTRY(m) (xv_gt.n >= 0 && xv_gt.n <= 3 && TM_LEN(m) == xv_gt.n && TM_LINKS(m) && \
        (xv_gt.n >= 1 ==> (TM_IS_OLD(TM_N1(m), 0) && GT_ID_OK(0) && GT_EXP_OK(0))) && \
        (xv_gt.n >= 2 ==> (TM_IS_OLD(TM_N2(m), 1) && GT_ID_OK(1) && GT_EXP_OK(1) && xv_gt.id[1] != xv_gt.id[0])) && \
        (xv_gt.n >= 3 ==> (TM_IS_OLD(TM_N3(m), 2) && GT_ID_OK(2) && GT_EXP_OK(2) && xv_gt.id[2] != xv_gt.id[0] && xv_gt.id[2] != xv_gt.id[1])) && \
        (m)->next_timer_id == xv_gt.next && xv_gt.next >= 0 && xv_gt.next <= XV_ID_MAX && (const void *)(m) == xv_gt.mgr && \
        (m)->timer_fd == xv_gt.fd && XV_FD_OURS(xv_gt.fd) && (m)->timer_fd_reg_id == xv_gt.reg_id && xv_gt.reg_id >= 0 && \
        XR_IS(xv_gt.reg_id, xv_gt.fd, EPOLLIN) && xv_xr.regs > 0 && (m)->xpoll != NULL)
#define TM_GHOST_RANGES (XV_FD_GHOST_RANGE && XR_RANGE(2) && TT_RANGE && xv_fk >= 0 && xv_fk < XV_NFD)
/* position (1..3) of the timer with this id in the snapshot, 0: no such timer */
#define GT_POS(tid) ((xv_gt.n >= 1 && xv_gt.id[0] == (tid)) ? 1 : (xv_gt.n >= 2 && xv_gt.id[1] == (tid)) ? 2 : (xv_gt.n >= 3 && xv_gt.id[2] == (tid)) ? 3 : 0)

/* the earliest expiry */
#define XV_MIN2(a, b) ((b) < (a) ? (b) : (a))
#define GT_MIN1 (xv_gt.exp[0])
#define GT_MIN2 XV_MIN2(xv_gt.exp[0], xv_gt.exp[1])
#define GT_MIN3 XV_MIN2(GT_MIN2, xv_gt.exp[2])
#define GT_MIN ((xv_gt.n == 1) ? GT_MIN1 : (xv_gt.n == 2) ? GT_MIN2 : GT_MIN3)
/* ... of the snapshot without its p-th element (n - 1 >= 1 elements are left) */
#define GT_MIN_WITHOUT(p) (xv_gt.n == 2 ? ((p) == 1 ? xv_gt.exp[1] : xv_gt.exp[0]) : \
                           ((p) == 1 ? XV_MIN2(xv_gt.exp[1], xv_gt.exp[2]) : (p) == 2 ? XV_MIN2(xv_gt.exp[0], xv_gt.exp[2]) : XV_MIN2(xv_gt.exp[0], xv_gt.exp[1])))

/* C04: the LAST timerfd_settime (the `sets`-th of this call) armed descriptor fd for the ABSOLUTE time T: it_value is what
 * ut_f_to_timespec made of T (of exactly T: ghost f2ts_in), a time that is not after "now" or converts to 0/0 is armed as
 * 0 s 1 ns (expires at once; 0/0 would DISARM), no interval, TFD_TIMER_ABSTIME */
#define TT_ARMED_AT(fd, T, sets) (xv_tt.set_n == __CPROVER_old(xv_tt.set_n) + (sets) && xv_tt.set_fd == (fd) && xv_tt.set_flags == TFD_TIMER_ABSTIME && \
        xv_tt.set_old_null && xv_tt.set_isec == 0 && xv_tt.set_insec == 0 && xv_tt.armed && \
        ((T) > 0 ? (xv_tt.f2ts_n != __CPROVER_old(xv_tt.f2ts_n) && xv_tt.f2ts_in == (T) && \
                    ((xv_tt.f2ts_sec == 0 && xv_tt.f2ts_nsec == 0) ? (xv_tt.set_sec == 0 && xv_tt.set_nsec == 1) \
                                                                   : (xv_tt.set_sec == xv_tt.f2ts_sec && xv_tt.set_nsec == xv_tt.f2ts_nsec))) \
                 : (xv_tt.set_sec == 0 && xv_tt.set_nsec == 1)))
#define TT_DISARMED(fd, sets) (xv_tt.set_n == __CPROVER_old(xv_tt.set_n) + (sets) && xv_tt.set_fd == (fd) && xv_tt.set_old_null && \
        xv_tt.set_sec == 0 && xv_tt.set_nsec == 0 && xv_tt.set_isec == 0 && xv_tt.set_insec == 0 && !xv_tt.armed)
/* no descriptor opened, closed or altered */
#define XV_FK_SAME_TM (!xv_fdt.e[xv_fk].open == !__CPROVER_old(xv_fdt.e[xv_fk].open) && !xv_fdt.e[xv_fk].nonblock == !__CPROVER_old(xv_fdt.e[xv_fk].nonblock))
#define TM_FDT_SAME (XV_FK_SAME_TM && XV_SAME(xv_open_cnt) && XV_SAME(xv_close_calls) && XV_SAME(xv_socket_calls))
#define TM_LIST_ASSIGNS(m) TM_H(m); TM_HAS1(m): __CPROVER_object_whole(TM_N1(m)); TM_HAS2(m): __CPROVER_object_whole(TM_N2(m)); TM_HAS3(m): __CPROVER_object_whole(TM_N3(m))

/* ---- timer_mgr_create ------------------------------------------------------------------------------------------------ */
struct timer_mgr *timer_mgr_create(struct xpoll *xpoll, void *log_ref)
__CPROVER_requires(xpoll != NULL && TM_GHOST_RANGES)
__CPROVER_assigns(xv_errno, XV_FDT_ASSIGNS, xv_xr, xv_tt)
__CPROVER_ensures(__CPROVER_return_value == NULL || __CPROVER_is_fresh(__CPROVER_return_value, sizeof(struct timer_mgr)))
__CPROVER_ensures(xv_tt.creates == __CPROVER_old(xv_tt.creates) + 1 && TT_SET_SAME && XV_SAME(xv_close_calls) && XV_SAME(xv_socket_calls))
/* PO[C08] timer_mgr_create.failure_leaves_nothing_behind: timerfd_create fails (EMFILE, ENFILE, ENOMEM ...): NULL, its errno, no descriptor, no registration */
__CPROVER_ensures(__CPROVER_return_value == NULL ==> (XV_ERRNO_OK(xv_errno) && XV_SAME(xv_open_cnt) && XV_FK_SAME_TM && XR_UNTOUCHED))
/* PO[C08,C05] timer_mgr_create.owns_one_nonblocking_monotonic_timerfd */
__CPROVER_ensures(__CPROVER_return_value != NULL ==> (XV_FD_OURS(__CPROVER_return_value->timer_fd) && xv_fdt.e[__CPROVER_return_value->timer_fd].nonblock && \
                  xv_open_cnt == __CPROVER_old(xv_open_cnt) + 1 && (xv_fk != __CPROVER_return_value->timer_fd ==> XV_FK_SAME_TM) && \
                  xv_tt.c_clock == CLOCK_MONOTONIC && xv_tt.c_flags == TFD_NONBLOCK && XV_SAME(xv_errno)))
/* PO[C04] timer_mgr_create.timerfd_registered_for_input: the timerfd is in the socket's epoll set for EPOLLIN from the start */
__CPROVER_ensures(__CPROVER_return_value != NULL ==> (__CPROVER_return_value->timer_fd_reg_id >= 0 && __CPROVER_return_value->timer_fd_reg_id == xv_xr.add_id && \
                  xv_xr.add_fd == __CPROVER_return_value->timer_fd && xv_xr.add_event == EPOLLIN && xv_xr.adds == __CPROVER_old(xv_xr.adds) + 1 && \
                  XV_SAME(xv_xr.dels) && xv_xr.regs == __CPROVER_old(xv_xr.regs) + 1 && \
                  XR_IS(__CPROVER_return_value->timer_fd_reg_id, __CPROVER_return_value->timer_fd, EPOLLIN)))
/* an empty manager: no timer, ids start at 0, nothing armed */
__CPROVER_ensures(__CPROVER_return_value != NULL ==> (TM_LEN(__CPROVER_return_value) == 0 && __CPROVER_return_value->next_timer_id == 0 && \
                  __CPROVER_return_value->xpoll == xpoll && __CPROVER_return_value->log_ref == log_ref && !xv_tt.armed))
;

/* ---- timer_mgr_destroy ----------------------------------------------------------------------------------------------- */
void timer_mgr_destroy(struct timer_mgr *timer, bool owner)
__CPROVER_requires(timer == NULL || TM_ENTRY(timer))
__CPROVER_requires(TM_GHOST_RANGES)
__CPROVER_assigns(xv_errno, XV_CLOSE_ASSIGNS, xv_xr)
__CPROVER_frees(timer; (timer != NULL && TM_HAS1(timer)): TM_N1(timer); (timer != NULL && TM_HAS2(timer)): TM_N2(timer); (timer != NULL && TM_HAS3(timer)): TM_N3(timer))
/* PO[C08] timer_mgr_destroy.closes_its_timerfd_once: that descriptor and no other; errno survives */
__CPROVER_ensures(timer != NULL ==> (!xv_fdt.e[xv_gt.fd].open && xv_close_calls == __CPROVER_old(xv_close_calls) + 1 && xv_close_fd == xv_gt.fd && \
                  xv_open_cnt == __CPROVER_old(xv_open_cnt) - 1 && (xv_fk != xv_gt.fd ==> XV_FK_SAME_TM) && XV_SAME(xv_errno)))
/* PO[C08] timer_mgr_destroy.owner_deregisters_the_timerfd_once */
__CPROVER_ensures((timer != NULL && owner) ==> (xv_xr.dels == __CPROVER_old(xv_xr.dels) + 1 && xv_xr.del_id == xv_gt.reg_id && XV_SAME(xv_xr.adds) && \
                  xv_xr.regs == __CPROVER_old(xv_xr.regs) - 1 && (xv_rk == xv_gt.reg_id ? !xv_xr.rk_live : !xv_xr.rk_live == !__CPROVER_old(xv_xr.rk_live)) && \
                  (xv_rf == xv_gt.fd ? !xv_xr.rf_live : !xv_xr.rf_live == !__CPROVER_old(xv_xr.rf_live))))
/* PO[C08] timer_mgr_destroy.cleanup_is_process_local: owner == false (xcm_cleanup in a forked child): the epoll instance shared with the owner is not touched */
__CPROVER_ensures((timer == NULL || !owner) ==> XR_UNTOUCHED)
/* PO[C08] timer_mgr_destroy.frees_every_timer_and_itself */
__CPROVER_ensures(timer != NULL ==> (__CPROVER_was_freed(xv_gt.mgr) && (xv_gt.n >= 1 ==> __CPROVER_was_freed(xv_gt.node[0])) && \
                  (xv_gt.n >= 2 ==> __CPROVER_was_freed(xv_gt.node[1])) && (xv_gt.n >= 3 ==> __CPROVER_was_freed(xv_gt.node[2]))))
/* PO[C08] timer_mgr_destroy.null_is_noop */
__CPROVER_ensures(timer == NULL ==> (TM_FDT_SAME && XV_SAME(xv_errno)))
;

/* ---- timer_mgr_schedule ---------------------------------------------------------------------------------------------- */
#ifndef XV_REL_MAX
#define XV_REL_MAX 1e15      /* relative timeouts explored by the main job (seconds); job timer_mgr_schedule@huge lifts the bound */
#endif
#define TMS_REL(r) ((r) < 0 ? 0 : (r))
int64_t timer_mgr_schedule(struct timer_mgr *timer, double relative_mtimer)
__CPROVER_requires(timer != NULL && TM_ENTRY(timer))
__CPROVER_requires(TM_GHOST_RANGES)
/* caller obligation: not NaN (the attribute setters of tcp.connect_timeout / dns.timeout reject NaN; dnstc.h: TRK_REQUIRES_SHAPE) */
__CPROVER_requires(relative_mtimer == relative_mtimer && relative_mtimer <= XV_REL_MAX)
__CPROVER_assigns(xv_errno, xv_tt, timer->next_timer_id, TM_H(timer); TM_HAS1(timer): TM_N1(timer)->entry.le_prev)
/* the reading contracts/dnstc.h assumes: a valid id, one more live timer */
__CPROVER_ensures(TMC_SCHEDULED(__CPROVER_return_value, TM_LEN(timer), xv_gt.n))
/* PO[C13] timer_mgr_schedule.fresh_id: the id names no other pending timer, and ids are never reused */
__CPROVER_ensures(__CPROVER_return_value == xv_gt.next && timer->next_timer_id == xv_gt.next + 1 && GT_POS(__CPROVER_return_value) == 0)
/* PO[C13] timer_mgr_schedule.expires_after_the_timeout: the new timer's expiry is the time of the call plus the (non-negative) timeout */
__CPROVER_ensures(TM_HAS1(timer) && TM_N1(timer)->id == __CPROVER_return_value && TM_N1(timer)->expiry_time == xv_tt.now + TMS_REL(relative_mtimer) && \
                  xv_tt.now_n == __CPROVER_old(xv_tt.now_n) + 1)
/* PO[C13] timer_mgr_schedule.other_timers_untouched */
__CPROVER_ensures(TM_LINKS(timer) && (xv_gt.n >= 1 ==> TM_IS_OLD(TM_N2(timer), 0)) && (xv_gt.n >= 2 ==> TM_IS_OLD(TM_N3(timer), 1)) && (xv_gt.n >= 3 ==> TM_IS_OLD(TM_N4(timer), 2)))
/* PO[C04] timer_mgr_schedule.timerfd_armed_at_earliest_expiry: ... of ALL pending timers, the new one included */
__CPROVER_ensures(TT_ARMED_AT(xv_gt.fd, (xv_gt.n == 0 ? TM_N1(timer)->expiry_time : XV_MIN2(GT_MIN, TM_N1(timer)->expiry_time)), 1))
__CPROVER_ensures(XV_SAME(xv_errno))
;

/* ---- timer_mgr_cancel / timer_mgr_ack ---------------------------------------------------------------------------------- */
/* the list is the snapshot without its p-th element, in the same order; p == 0: the snapshot itself */
#define TM_LIST_WITHOUT(m, p) ((p) == 0 ? (TM_LEN(m) == xv_gt.n && (xv_gt.n >= 1 ==> TM_IS_OLD(TM_N1(m), 0)) && (xv_gt.n >= 2 ==> TM_IS_OLD(TM_N2(m), 1)) && (xv_gt.n >= 3 ==> TM_IS_OLD(TM_N3(m), 2))) \
        : (TM_LEN(m) == xv_gt.n - 1 && (xv_gt.n >= 2 ==> TM_IS_OLD(TM_N1(m), ((p) == 1 ? 1 : 0))) && (xv_gt.n >= 3 ==> TM_IS_OLD(TM_N2(m), ((p) <= 2 ? 2 : 1)))))
#define TM_CANCEL_ENSURES(m, p) (TM_LIST_WITHOUT(m, p) && TM_LINKS(m) && XV_SAME((m)->next_timer_id) && \
        ((p) != 0 ==> __CPROVER_was_freed(xv_gt.node[(p) == 0 ? 0 : (p) - 1])))
/* C04: the timerfd follows the list: one timer left or more: armed at the earliest remaining expiry; none: disarmed; unknown id: not touched */
#define TM_CANCEL_WAKEUP(p) ((p) == 0 ? TT_SET_SAME : xv_gt.n == 1 ? TT_DISARMED(xv_gt.fd, 1) : TT_ARMED_AT(xv_gt.fd, GT_MIN_WITHOUT(p), 1))
void timer_mgr_cancel(struct timer_mgr *timer, int64_t *timer_id)
__CPROVER_requires(timer != NULL && TM_ENTRY(timer) && __CPROVER_rw_ok(timer_id, sizeof(*timer_id)) && *timer_id == xv_gt.arg_id)
__CPROVER_requires(TM_GHOST_RANGES)
__CPROVER_assigns(xv_errno, xv_tt, *timer_id, TM_LIST_ASSIGNS(timer))
__CPROVER_frees(TM_HAS1(timer): TM_N1(timer); TM_HAS2(timer): TM_N2(timer); TM_HAS3(timer): TM_N3(timer))
/* the reading contracts/dnstc.h assumes */
__CPROVER_ensures(TMC_CANCELLED(timer_id, GT_POS(xv_gt.arg_id) != 0, TM_LEN(timer), xv_gt.n))
/* PO[C13] timer_mgr_cancel.removes_exactly_that_timer: the others keep id, expiry and order; an id that names no timer (-1, stale) changes nothing */
__CPROVER_ensures(TM_CANCEL_ENSURES(timer, GT_POS(xv_gt.arg_id)))
/* PO[C04] timer_mgr_cancel.timerfd_rearmed_for_the_rest */
__CPROVER_ensures(TM_CANCEL_WAKEUP(GT_POS(xv_gt.arg_id)))
__CPROVER_ensures(XV_SAME(xv_errno) && XV_SAME(xv_tt.now_n))
;
void timer_mgr_ack(struct timer_mgr *timer, int64_t *timer_id)
__CPROVER_requires(timer != NULL && TM_ENTRY(timer) && __CPROVER_rw_ok(timer_id, sizeof(*timer_id)) && *timer_id == xv_gt.arg_id)
/* caller obligation (asserted by the code; dnstc.h: "*timer_id >= 0 && xv_timers > 0"): the timer exists */
__CPROVER_requires(GT_POS(xv_gt.arg_id) != 0)
__CPROVER_requires(TM_GHOST_RANGES)
__CPROVER_assigns(xv_errno, xv_tt, *timer_id, TM_LIST_ASSIGNS(timer))
__CPROVER_frees(TM_HAS1(timer): TM_N1(timer); TM_HAS2(timer): TM_N2(timer); TM_HAS3(timer): TM_N3(timer))
__CPROVER_ensures(TMC_CANCELLED(timer_id, 1, TM_LEN(timer), xv_gt.n))
/* PO[C13] timer_mgr_ack.removes_exactly_that_timer */
__CPROVER_ensures(TM_CANCEL_ENSURES(timer, GT_POS(xv_gt.arg_id)))
/* PO[C04] timer_mgr_ack.timerfd_rearmed_for_the_rest */
__CPROVER_ensures(TM_CANCEL_WAKEUP(GT_POS(xv_gt.arg_id)))
__CPROVER_ensures(XV_SAME(xv_errno) && XV_SAME(xv_tt.now_n))
;

/* ---- timer_mgr_has_expired ------------------------------------------------------------------------------------------------ */
bool timer_mgr_has_expired(struct timer_mgr *timer, int64_t timer_id)
__CPROVER_requires(timer != NULL && TM_ENTRY(timer))
/* caller obligation (the code dereferences the timer; dnstc.h: "timer_id >= 0 && xv_timers > 0"): the timer exists */
__CPROVER_requires(GT_POS(timer_id) != 0)
__CPROVER_requires(TM_GHOST_RANGES)
__CPROVER_assigns(xv_tt)
/* PO[C13] timer_mgr_has_expired.true_iff_the_clock_is_past_the_expiry: of THAT timer; nothing is changed (list and timerfd are not assignable) */
__CPROVER_ensures(!__CPROVER_return_value == !(xv_tt.now > xv_gt.exp[GT_POS(timer_id) - 1]) && xv_tt.now_n == __CPROVER_old(xv_tt.now_n) + 1 && TT_SET_SAME)
;

/* ---- timer_mgr_reschedule --------------------------------------------------------------------------------------------------- */
/* (cancel + schedule inlined: their contracts are stated against ONE snapshot) */
#define TMR_P GT_POS(xv_gt.arg_id)
/* the expiries left after the cancel, and their minimum joined with the new timer's */
#define TMR_LEFT (xv_gt.n - ((xv_gt.arg_id >= 0 && TMR_P != 0) ? 1 : 0))
#define TMR_MIN_LEFT ((xv_gt.arg_id >= 0 && TMR_P != 0) ? GT_MIN_WITHOUT(TMR_P) : GT_MIN)
void timer_mgr_reschedule(struct timer_mgr *timer, double relative_mtimer, int64_t *timer_id)
__CPROVER_requires(timer != NULL && TM_ENTRY(timer) && __CPROVER_rw_ok(timer_id, sizeof(*timer_id)) && *timer_id == xv_gt.arg_id)
__CPROVER_requires(TM_GHOST_RANGES)
__CPROVER_requires(relative_mtimer == relative_mtimer && relative_mtimer <= XV_REL_MAX)
__CPROVER_assigns(xv_errno, xv_tt, *timer_id, timer->next_timer_id, TM_LIST_ASSIGNS(timer))
__CPROVER_frees(TM_HAS1(timer): TM_N1(timer); TM_HAS2(timer): TM_N2(timer); TM_HAS3(timer): TM_N3(timer))
/* PO[C13] timer_mgr_reschedule.replaces_the_timer: the old timer (if the id named one) is gone, a new one with a fresh id expires timeout seconds from now */
__CPROVER_ensures(*timer_id == xv_gt.next && timer->next_timer_id == xv_gt.next + 1 && TM_LEN(timer) == TMR_LEFT + 1 && TM_HAS1(timer) && \
                  TM_N1(timer)->id == xv_gt.next && TM_N1(timer)->expiry_time == xv_tt.now + TMS_REL(relative_mtimer))
/* PO[C04] timer_mgr_reschedule.timerfd_armed_at_earliest_expiry */
__CPROVER_ensures(xv_tt.set_n - __CPROVER_old(xv_tt.set_n) <= 2u && \
                  TT_ARMED_AT(xv_gt.fd, (TMR_LEFT == 0 ? TM_N1(timer)->expiry_time : XV_MIN2(TMR_MIN_LEFT, TM_N1(timer)->expiry_time)), xv_tt.set_n - __CPROVER_old(xv_tt.set_n)))
__CPROVER_ensures(XV_SAME(xv_errno))
;

#endif /* XV_TD_TM */

#include "contracts/end.h"
#endif
