/* contracts/timerdns.h -- timers (libxcm/core/timer_mgr.c) and the resolver query (libxcm/tp/dns/xcm_dns_cares.c)
 *
 *   part TM  (XV_TD_TM) : timer_mgr.c            C04 (timerfd armed at the earliest expiry and registered), C13 (expiry observed), C08
 *   part DNS (XV_TD_DNS): xcm_dns_cares.c        xcm_dns_resolve, xcm_dns_query_process, process_in_progress, query_cb, get_ips,
 *                                                xcm_dns_query_result, xcm_dns_query_completed, xcm_dns_query_destroy, update_xpoll
 *
 * These are the contracts that the units dnstc (contracts/dnstc.h) and btcp (contracts/btcp.h) ASSUME of these functions; here
 * they are ENFORCED on the real bodies.  Where dnstc.h speaks of the ghost counter xv_timers ("live timers of the manager"),
 * part TM speaks of the length of the manager's list, TM_LEN(mgr): that is the abstraction function.  The clause text shared
 * by both readings is written once (TMC_* macros) and instantiated with either.
 */
#ifndef XV_TIMERDNS_H
#define XV_TIMERDNS_H
#include "contracts/begin.h"

#include "harness/timerdns/_ghost.h"

#define XV_ERRNO_OK(e) ((e) >= 1 && (e) <= 133)

/* ---- clause text shared by the concrete (part TM) and the abstract (part DNS, = contracts/dnstc.h) contracts of timer_mgr.c ---- */
/* schedule: a valid id, one more timer */
#define TMC_SCHEDULED(rv, timers_now, timers_old) ((rv) >= 0 && (timers_now) == (timers_old) + 1)
/* cancel: the id is invalidated; one timer less iff it named a live timer */
#define TMC_CANCELLED(idp, was_live, timers_now, timers_old) (*(idp) == -1 && (timers_now) == (timers_old) - ((was_live) ? 1 : 0))

/* ==================================================================================================================== */
#ifdef XV_TD_TM
/* ==================================================================================================================== */
/* ---- the timer list: a <sys/queue.h> LIST of heap elements.  BOUNDED: the contracts describe lists of at most 3 elements
 * on entry (the library never has more than 3 timers per manager: tconnect 2 tracks + 1, resolver 2); element k is reached
 * by k-1 le_next steps from the head. */
#define TM_H(m) ((m)->mtimers.lh_first)
#define TM_NX(p) ((p)->entry.le_next)
#define TM_N1(m) TM_H(m)
#define TM_N2(m) TM_NX(TM_N1(m))
#define TM_N3(m) TM_NX(TM_N2(m))
#define TM_N4(m) TM_NX(TM_N3(m))
#define TM_N5(m) TM_NX(TM_N4(m))
#define TM_HAS1(m) (TM_N1(m) != NULL)
#define TM_HAS2(m) (TM_HAS1(m) && TM_N2(m) != NULL)
#define TM_HAS3(m) (TM_HAS2(m) && TM_N3(m) != NULL)
#define TM_HAS4(m) (TM_HAS3(m) && TM_N4(m) != NULL)
#define TM_HAS5(m) (TM_HAS4(m) && TM_N5(m) != NULL)
/* number of timers (exact up to 4; 5 = "more") */
#define TM_LEN(m) (!TM_HAS1(m) ? 0 : !TM_HAS2(m) ? 1 : !TM_HAS3(m) ? 2 : !TM_HAS4(m) ? 3 : !TM_HAS5(m) ? 4 : 5)
/* back links of the first four elements: le_prev of element k is the address of the pointer that points at it (the head's
 * lh_first / its predecessor's le_next).  Written through a dereference: CBMC 6.11 crashes (simplify_inequality) on the
 * address-of form `le_prev == &pred->entry.le_next` inside a clause.  On entry the harness has built the list with the real
 * LIST_INSERT_HEAD, so the address-of form holds by construction; on exit the harnesses assert it in code (xv_tm_links_ok). */
#define TM_LINKS(m) ((TM_HAS1(m) ==> *(TM_N1(m)->entry.le_prev) == TM_N1(m)) && (TM_HAS2(m) ==> *(TM_N2(m)->entry.le_prev) == TM_N2(m)) && \
                     (TM_HAS3(m) ==> *(TM_N3(m)->entry.le_prev) == TM_N3(m)) && (TM_HAS4(m) ==> *(TM_N4(m)->entry.le_prev) == TM_N4(m)))
/* list element k (1-based, constant) is the element the snapshot has at index i (0-based): same object, same id, same expiry */
#define TM_IS_OLD(N, i) ((const void *)(N) == xv_gt.node[i] && (N)->id == xv_gt.id[i] && (N)->expiry_time == xv_gt.exp[i])
#ifndef XV_REL_MAX
#define XV_REL_MAX 1e15      /* relative timeouts explored by the main jobs (seconds); job timer_mgr_schedule@huge lifts the bound */
#endif
#ifndef XV_ID_MAX
#define XV_ID_MAX 0x7ffffffeL     /* schedule_abs() narrows the id to int: see the job timer_mgr_schedule@ids for ids beyond */
#endif
#define GT_ID_OK(i) (xv_gt.id[i] >= 0 && xv_gt.id[i] < xv_gt.next)
/* an expiry time is the clock value at the time of the call plus a non-negative timeout (timer_mgr_schedule.expires_after_the_timeout) */
#define XV_EXP_MAX (XV_NOW_MAX + XV_REL_MAX)
#define GT_EXP_OK(i) (xv_gt.exp[i] >= 0 && xv_gt.exp[i] <= XV_EXP_MAX)
/* representation invariant on entry + binding of the snapshot constants */
#define TM_ENTRY(m) (xv_gt.n >= 0 && xv_gt.n <= 3 && TM_LEN(m) == xv_gt.n && TM_LINKS(m) && \
        (xv_gt.n >= 1 ==> (TM_IS_OLD(TM_N1(m), 0) && GT_ID_OK(0) && GT_EXP_OK(0))) && \
        (xv_gt.n >= 2 ==> (TM_IS_OLD(TM_N2(m), 1) && GT_ID_OK(1) && GT_EXP_OK(1) && xv_gt.id[1] != xv_gt.id[0])) && \
        (xv_gt.n >= 3 ==> (TM_IS_OLD(TM_N3(m), 2) && GT_ID_OK(2) && GT_EXP_OK(2) && xv_gt.id[2] != xv_gt.id[0] && xv_gt.id[2] != xv_gt.id[1])) && \
        (m)->next_timer_id == xv_gt.next && xv_gt.next >= 0 && xv_gt.next <= XV_ID_MAX && (const void *)(m) == xv_gt.mgr && \
        (m)->timer_fd == xv_gt.fd && XV_FD_OURS(xv_gt.fd) && (m)->timer_fd_reg_id == xv_gt.reg_id && xv_gt.reg_id >= 0 && \
        XR_IS(xv_gt.reg_id, xv_gt.fd, EPOLLIN) && xv_xr.regs > 0 && (m)->xpoll != NULL)
/* (a registered descriptor is an open one: the users of xpoll deregister before they close) */
#define TM_GHOST_RANGES (XV_FD_GHOST_RANGE && XR_RANGE(2) && TT_RANGE && xv_fk >= 0 && xv_fk < XV_NFD && \
                         (xv_xr.rf_live ==> XV_FD_OURS(xv_rf)) && (xv_xr.rk_live ==> XV_FD_OURS(xv_xr.rk_fd)))
/* position (1..3) of the timer with this id in the snapshot, 0: no such timer */
#define GT_POS(tid) ((xv_gt.n >= 1 && xv_gt.id[0] == (tid)) ? 1 : (xv_gt.n >= 2 && xv_gt.id[1] == (tid)) ? 2 : (xv_gt.n >= 3 && xv_gt.id[2] == (tid)) ? 3 : 0)

/* the earliest expiry */
#define XV_MIN2(a, b) ((b) < (a) ? (b) : (a))
#define GT_MIN1 (xv_gt.exp[0])
#define GT_MIN2 XV_MIN2(xv_gt.exp[0], xv_gt.exp[1])
#define GT_MIN3 XV_MIN2(GT_MIN2, xv_gt.exp[2])
#define GT_MIN ((xv_gt.n == 1) ? GT_MIN1 : (xv_gt.n == 2) ? GT_MIN2 : GT_MIN3)
/* ... of the snapshot without its p-th element (n - 1 >= 1 elements are left) */
#define GT_MIN_WITHOUT(p) (xv_gt.n == 2 ? ((p) == 1 ? xv_gt.exp[1] : xv_gt.exp[0]) : \
                           ((p) == 1 ? XV_MIN2(xv_gt.exp[1], xv_gt.exp[2]) : (p) == 2 ? XV_MIN2(xv_gt.exp[0], xv_gt.exp[2]) : XV_MIN2(xv_gt.exp[0], xv_gt.exp[1])))

/* C04: the LAST timerfd_settime (the `sets`-th of this call) armed descriptor fd for the ABSOLUTE time T: it_value is what
 * ut_f_to_timespec made of T (of exactly T: ghost f2ts_in), a time that is not after "now" or converts to 0/0 is armed as
 * 0 s 1 ns (expires at once; 0/0 would DISARM), no interval, TFD_TIMER_ABSTIME */
#define TT_ARMED_AT(fd, T, sets) (xv_tt.set_n == __CPROVER_old(xv_tt.set_n) + (sets) && xv_tt.set_fd == (fd) && xv_tt.set_flags == TFD_TIMER_ABSTIME && \
        xv_tt.set_old_null && xv_tt.set_isec == 0 && xv_tt.set_insec == 0 && xv_tt.armed && \
        ((T) > 0 ? (xv_tt.f2ts_n != __CPROVER_old(xv_tt.f2ts_n) && xv_tt.f2ts_in == (T) && \
                    ((xv_tt.f2ts_sec == 0 && xv_tt.f2ts_nsec == 0) ? (xv_tt.set_sec == 0 && xv_tt.set_nsec == 1) \
                                                                   : (xv_tt.set_sec == xv_tt.f2ts_sec && xv_tt.set_nsec == xv_tt.f2ts_nsec))) \
                 : (xv_tt.set_sec == 0 && xv_tt.set_nsec == 1)))
#define TT_DISARMED(fd, sets) (xv_tt.set_n == __CPROVER_old(xv_tt.set_n) + (sets) && xv_tt.set_fd == (fd) && xv_tt.set_old_null && \
        xv_tt.set_sec == 0 && xv_tt.set_nsec == 0 && xv_tt.set_isec == 0 && xv_tt.set_insec == 0 && !xv_tt.armed)
/* no descriptor opened, closed or altered */
#define XV_FK_SAME_TM (!xv_fdt.e[xv_fk].open == !__CPROVER_old(xv_fdt.e[xv_fk].open) && !xv_fdt.e[xv_fk].nonblock == !__CPROVER_old(xv_fdt.e[xv_fk].nonblock))
#define TM_FDT_SAME (XV_FK_SAME_TM && XV_SAME(xv_open_cnt) && XV_SAME(xv_close_calls) && XV_SAME(xv_socket_calls))
#define TM_LIST_ASSIGNS(m) TM_H(m); TM_HAS1(m): __CPROVER_object_whole(TM_N1(m)); TM_HAS2(m): __CPROVER_object_whole(TM_N2(m)); TM_HAS3(m): __CPROVER_object_whole(TM_N3(m))

/* ---- timer_mgr_create ------------------------------------------------------------------------------------------------ */
struct timer_mgr *timer_mgr_create(struct xpoll *xpoll, void *log_ref)
__CPROVER_requires(xpoll != NULL && TM_GHOST_RANGES)
__CPROVER_assigns(xv_errno, XV_FDT_ASSIGNS, xv_xr, xv_tt)
__CPROVER_ensures(__CPROVER_return_value == NULL || __CPROVER_is_fresh(__CPROVER_return_value, sizeof(struct timer_mgr)))
__CPROVER_ensures(xv_tt.creates == __CPROVER_old(xv_tt.creates) + 1 && XV_SAME(xv_tt.set_n) && XV_SAME(xv_tt.f2ts_n) && XV_SAME(xv_tt.now_n) && XV_SAME(xv_close_calls) && XV_SAME(xv_socket_calls))
/* PO[C08] timer_mgr_create.failure_leaves_nothing_behind: timerfd_create fails (EMFILE, ENFILE, ENOMEM ...): NULL, its errno, no descriptor, no registration */
__CPROVER_ensures(__CPROVER_return_value == NULL ==> (XV_ERRNO_OK(xv_errno) && XV_SAME(xv_open_cnt) && XV_FK_SAME_TM && XR_UNTOUCHED))
/* PO[C08,C05] timer_mgr_create.owns_one_nonblocking_monotonic_timerfd */
__CPROVER_ensures(__CPROVER_return_value != NULL ==> (XV_FD_OURS(__CPROVER_return_value->timer_fd) && xv_fdt.e[__CPROVER_return_value->timer_fd].nonblock && \
                  xv_open_cnt == __CPROVER_old(xv_open_cnt) + 1 && (xv_fk != __CPROVER_return_value->timer_fd ==> XV_FK_SAME_TM) && \
                  xv_tt.c_clock == CLOCK_MONOTONIC && xv_tt.c_flags == TFD_NONBLOCK && XV_SAME(xv_errno)))
/* PO[C04] timer_mgr_create.timerfd_registered_for_input: the timerfd is in the socket's epoll set for EPOLLIN from the start */
__CPROVER_ensures(__CPROVER_return_value != NULL ==> (__CPROVER_return_value->timer_fd_reg_id >= 0 && __CPROVER_return_value->timer_fd_reg_id == xv_xr.add_id && \
                  xv_xr.add_fd == __CPROVER_return_value->timer_fd && xv_xr.add_event == EPOLLIN && xv_xr.adds == __CPROVER_old(xv_xr.adds) + 1 && \
                  XV_SAME(xv_xr.dels) && xv_xr.regs == __CPROVER_old(xv_xr.regs) + 1 && \
                  XR_IS(__CPROVER_return_value->timer_fd_reg_id, __CPROVER_return_value->timer_fd, EPOLLIN)))
/* an empty manager: no timer, ids start at 0, nothing armed */
__CPROVER_ensures(__CPROVER_return_value != NULL ==> (TM_LEN(__CPROVER_return_value) == 0 && __CPROVER_return_value->next_timer_id == 0 && \
                  __CPROVER_return_value->xpoll == xpoll && __CPROVER_return_value->log_ref == log_ref && !xv_tt.armed))
;

/* ---- timer_mgr_destroy ----------------------------------------------------------------------------------------------- */
void timer_mgr_destroy(struct timer_mgr *timer, bool owner)
__CPROVER_requires(timer == NULL || TM_ENTRY(timer))
__CPROVER_requires(TM_GHOST_RANGES)
__CPROVER_assigns(xv_errno, XV_CLOSE_ASSIGNS, xv_xr)
__CPROVER_assigns(timer != NULL: TM_H(timer); (timer != NULL && TM_HAS1(timer)): __CPROVER_object_whole(TM_N1(timer)); \
                  (timer != NULL && TM_HAS2(timer)): __CPROVER_object_whole(TM_N2(timer)); (timer != NULL && TM_HAS3(timer)): __CPROVER_object_whole(TM_N3(timer)))
__CPROVER_frees(timer; (timer != NULL && TM_HAS1(timer)): TM_N1(timer); (timer != NULL && TM_HAS2(timer)): TM_N2(timer); (timer != NULL && TM_HAS3(timer)): TM_N3(timer))
/* PO[C08] timer_mgr_destroy.closes_its_timerfd_once: that descriptor and no other; errno survives */
__CPROVER_ensures(timer != NULL ==> (!xv_fdt.e[xv_gt.fd].open && xv_close_calls == __CPROVER_old(xv_close_calls) + 1 && xv_close_fd == xv_gt.fd && \
                  xv_open_cnt == __CPROVER_old(xv_open_cnt) - 1 && (xv_fk != xv_gt.fd ==> XV_FK_SAME_TM) && XV_SAME(xv_errno)))
/* PO[C08] timer_mgr_destroy.owner_deregisters_the_timerfd_once */
__CPROVER_ensures((timer != NULL && owner) ==> (xv_xr.dels == __CPROVER_old(xv_xr.dels) + 1 && xv_xr.del_id == xv_gt.reg_id && XV_SAME(xv_xr.adds) && \
                  xv_xr.regs == __CPROVER_old(xv_xr.regs) - 1 && (xv_rk == xv_gt.reg_id ? !xv_xr.rk_live : !xv_xr.rk_live == !__CPROVER_old(xv_xr.rk_live)) && \
                  (xv_rf == xv_gt.fd ? !xv_xr.rf_live : !xv_xr.rf_live == !__CPROVER_old(xv_xr.rf_live))))
/* PO[C08] timer_mgr_destroy.cleanup_is_process_local: owner == false (xcm_cleanup in a forked child): the epoll instance shared with the owner is not touched */
__CPROVER_ensures((timer == NULL || !owner) ==> XR_UNTOUCHED)
/* PO[C08] timer_mgr_destroy.frees_every_timer_and_itself */
__CPROVER_ensures(timer != NULL ==> (__CPROVER_was_freed(xv_gt.mgr) && (xv_gt.n >= 1 ==> __CPROVER_was_freed(xv_gt.node[0])) && \
                  (xv_gt.n >= 2 ==> __CPROVER_was_freed(xv_gt.node[1])) && (xv_gt.n >= 3 ==> __CPROVER_was_freed(xv_gt.node[2]))))
/* PO[C08] timer_mgr_destroy.null_is_noop */
__CPROVER_ensures(timer == NULL ==> (TM_FDT_SAME && XV_SAME(xv_errno)))
;

/* ---- timer_mgr_schedule ---------------------------------------------------------------------------------------------- */
/* (timeouts beyond MAX_RELATIVE_MTIMER = 1e12 s are cut there: the expiry must fit a struct timespec; fix a5845f2) */
#define TMS_REL(r) ((r) < 0 ? 0 : (r) > 1e12 ? 1e12 : (r))
int64_t timer_mgr_schedule(struct timer_mgr *timer, double relative_mtimer)
__CPROVER_requires(timer != NULL && TM_ENTRY(timer))
__CPROVER_requires(TM_GHOST_RANGES)
/* caller obligation: not NaN (the attribute setters of tcp.connect_timeout / dns.timeout reject NaN; dnstc.h: TRK_REQUIRES_SHAPE) */
__CPROVER_requires(relative_mtimer == relative_mtimer && relative_mtimer <= XV_REL_MAX)
__CPROVER_assigns(xv_errno, xv_tt, timer->next_timer_id, TM_H(timer); TM_HAS1(timer): TM_N1(timer)->entry.le_prev)
/* the reading contracts/dnstc.h assumes: a valid id, one more live timer */
__CPROVER_ensures(TMC_SCHEDULED(__CPROVER_return_value, TM_LEN(timer), xv_gt.n))
/* PO[C13] timer_mgr_schedule.fresh_id: the id names no other pending timer, and ids are never reused */
__CPROVER_ensures(__CPROVER_return_value == xv_gt.next && timer->next_timer_id == xv_gt.next + 1 && GT_POS(__CPROVER_return_value) == 0)
/* PO[C13] timer_mgr_schedule.expires_after_the_timeout: the new timer's expiry is the time of the call plus the (non-negative) timeout */
__CPROVER_ensures(TM_HAS1(timer) && TM_N1(timer)->id == __CPROVER_return_value && TM_N1(timer)->expiry_time == xv_tt.now + TMS_REL(relative_mtimer) && \
                  xv_tt.now_n == __CPROVER_old(xv_tt.now_n) + 1)
/* PO[C13] timer_mgr_schedule.other_timers_untouched */
__CPROVER_ensures(TM_LINKS(timer) && (xv_gt.n >= 1 ==> TM_IS_OLD(TM_N2(timer), 0)) && (xv_gt.n >= 2 ==> TM_IS_OLD(TM_N3(timer), 1)) && (xv_gt.n >= 3 ==> TM_IS_OLD(TM_N4(timer), 2)))
/* PO[C04] timer_mgr_schedule.timerfd_armed_at_earliest_expiry: ... of ALL pending timers, the new one included */
__CPROVER_ensures(TT_ARMED_AT(xv_gt.fd, (xv_gt.n == 0 ? TM_N1(timer)->expiry_time : XV_MIN2(GT_MIN, TM_N1(timer)->expiry_time)), 1))
__CPROVER_ensures(XV_SAME(xv_errno))
;

/* ---- timer_mgr_cancel / timer_mgr_ack ---------------------------------------------------------------------------------- */
/* the list is the snapshot without its p-th element, in the same order; p == 0: the snapshot itself */
#define TM_LIST_WITHOUT(m, p) ((p) == 0 ? (TM_LEN(m) == xv_gt.n && (xv_gt.n >= 1 ==> TM_IS_OLD(TM_N1(m), 0)) && (xv_gt.n >= 2 ==> TM_IS_OLD(TM_N2(m), 1)) && (xv_gt.n >= 3 ==> TM_IS_OLD(TM_N3(m), 2))) \
        : (TM_LEN(m) == xv_gt.n - 1 && (xv_gt.n >= 2 ==> TM_IS_OLD(TM_N1(m), ((p) == 1 ? 1 : 0))) && (xv_gt.n >= 3 ==> TM_IS_OLD(TM_N2(m), ((p) <= 2 ? 2 : 1)))))
#define TM_CANCEL_ENSURES(m, p) (TM_LIST_WITHOUT(m, p) && TM_LINKS(m) && XV_SAME((m)->next_timer_id) && \
        ((p) != 0 ==> __CPROVER_was_freed(xv_gt.node[(p) == 0 ? 0 : (p) - 1])))
/* C04: the timerfd follows the list: one timer left or more: armed at the earliest remaining expiry; none: disarmed; unknown id: not touched */
#define TM_CANCEL_WAKEUP(p) ((p) == 0 ? TT_SET_SAME : xv_gt.n == 1 ? TT_DISARMED(xv_gt.fd, 1) : TT_ARMED_AT(xv_gt.fd, GT_MIN_WITHOUT(p), 1))
void timer_mgr_cancel(struct timer_mgr *timer, int64_t *timer_id)
__CPROVER_requires(timer != NULL && TM_ENTRY(timer) && __CPROVER_rw_ok(timer_id, sizeof(*timer_id)) && *timer_id == xv_gt.arg_id)
__CPROVER_requires(TM_GHOST_RANGES)
__CPROVER_assigns(xv_errno, xv_tt, *timer_id, TM_LIST_ASSIGNS(timer))
__CPROVER_frees(TM_HAS1(timer): TM_N1(timer); TM_HAS2(timer): TM_N2(timer); TM_HAS3(timer): TM_N3(timer))
/* the reading contracts/dnstc.h assumes */
__CPROVER_ensures(TMC_CANCELLED(timer_id, GT_POS(xv_gt.arg_id) != 0, TM_LEN(timer), xv_gt.n))
/* PO[C13] timer_mgr_cancel.removes_exactly_that_timer: the others keep id, expiry and order; an id that names no timer (-1, stale) changes nothing */
__CPROVER_ensures(TM_CANCEL_ENSURES(timer, GT_POS(xv_gt.arg_id)))
/* PO[C04] timer_mgr_cancel.timerfd_rearmed_for_the_rest */
__CPROVER_ensures(TM_CANCEL_WAKEUP(GT_POS(xv_gt.arg_id)))
__CPROVER_ensures(XV_SAME(xv_errno) && XV_SAME(xv_tt.now_n))
;
void timer_mgr_ack(struct timer_mgr *timer, int64_t *timer_id)
__CPROVER_requires(timer != NULL && TM_ENTRY(timer) && __CPROVER_rw_ok(timer_id, sizeof(*timer_id)) && *timer_id == xv_gt.arg_id)
/* caller obligation (asserted by the code; dnstc.h: "*timer_id >= 0 && xv_timers > 0"): the timer exists */
__CPROVER_requires(GT_POS(xv_gt.arg_id) != 0)
__CPROVER_requires(TM_GHOST_RANGES)
__CPROVER_assigns(xv_errno, xv_tt, *timer_id, TM_LIST_ASSIGNS(timer))
__CPROVER_frees(TM_HAS1(timer): TM_N1(timer); TM_HAS2(timer): TM_N2(timer); TM_HAS3(timer): TM_N3(timer))
__CPROVER_ensures(TMC_CANCELLED(timer_id, 1, TM_LEN(timer), xv_gt.n))
/* PO[C13] timer_mgr_ack.removes_exactly_that_timer */
__CPROVER_ensures(TM_CANCEL_ENSURES(timer, GT_POS(xv_gt.arg_id)))
/* PO[C04] timer_mgr_ack.timerfd_rearmed_for_the_rest */
__CPROVER_ensures(TM_CANCEL_WAKEUP(GT_POS(xv_gt.arg_id)))
__CPROVER_ensures(XV_SAME(xv_errno) && XV_SAME(xv_tt.now_n))
;

/* ---- timer_mgr_has_expired ------------------------------------------------------------------------------------------------ */
bool timer_mgr_has_expired(struct timer_mgr *timer, int64_t timer_id)
__CPROVER_requires(timer != NULL && TM_ENTRY(timer))
/* caller obligation (the code dereferences the timer; dnstc.h: "timer_id >= 0 && xv_timers > 0"): the timer exists */
__CPROVER_requires(GT_POS(timer_id) != 0)
__CPROVER_requires(TM_GHOST_RANGES)
__CPROVER_assigns(xv_tt)
/* PO[C13] timer_mgr_has_expired.true_iff_the_clock_is_past_the_expiry: of THAT timer; nothing is changed (list and timerfd are not assignable) */
__CPROVER_ensures(!__CPROVER_return_value == !(xv_tt.now > xv_gt.exp[GT_POS(timer_id) - 1]) && xv_tt.now_n == __CPROVER_old(xv_tt.now_n) + 1 && TT_SET_SAME)
;

/* ---- timer_mgr_reschedule --------------------------------------------------------------------------------------------------- */
/* (cancel + schedule inlined: their contracts are stated against ONE snapshot) */
#define TMR_P GT_POS(xv_gt.arg_id)
/* the expiries left after the cancel, and their minimum joined with the new timer's */
#define TMR_LEFT (xv_gt.n - ((xv_gt.arg_id >= 0 && TMR_P != 0) ? 1 : 0))
#define TMR_MIN_LEFT ((xv_gt.arg_id >= 0 && TMR_P != 0) ? GT_MIN_WITHOUT(TMR_P) : GT_MIN)
void timer_mgr_reschedule(struct timer_mgr *timer, double relative_mtimer, int64_t *timer_id)
__CPROVER_requires(timer != NULL && TM_ENTRY(timer) && __CPROVER_rw_ok(timer_id, sizeof(*timer_id)) && *timer_id == xv_gt.arg_id)
__CPROVER_requires(TM_GHOST_RANGES)
__CPROVER_requires(relative_mtimer == relative_mtimer && relative_mtimer <= XV_REL_MAX)
__CPROVER_assigns(xv_errno, xv_tt, *timer_id, timer->next_timer_id, TM_LIST_ASSIGNS(timer))
__CPROVER_frees(TM_HAS1(timer): TM_N1(timer); TM_HAS2(timer): TM_N2(timer); TM_HAS3(timer): TM_N3(timer))
/* PO[C13] timer_mgr_reschedule.replaces_the_timer: the old timer (if the id named one) is gone, a new one with a fresh id expires timeout seconds from now */
__CPROVER_ensures(*timer_id == xv_gt.next && timer->next_timer_id == xv_gt.next + 1 && TM_LEN(timer) == TMR_LEFT + 1 && TM_HAS1(timer) && \
                  TM_N1(timer)->id == xv_gt.next && TM_N1(timer)->expiry_time == xv_tt.now + TMS_REL(relative_mtimer))
/* PO[C04] timer_mgr_reschedule.timerfd_armed_at_earliest_expiry */
__CPROVER_ensures(xv_tt.set_n - __CPROVER_old(xv_tt.set_n) <= 2u && \
                  TT_ARMED_AT(xv_gt.fd, (TMR_LEFT == 0 ? TM_N1(timer)->expiry_time : XV_MIN2(TMR_MIN_LEFT, TM_N1(timer)->expiry_time)), xv_tt.set_n - __CPROVER_old(xv_tt.set_n)))
__CPROVER_ensures(XV_SAME(xv_errno))
;

#endif /* XV_TD_TM */

/* ==================================================================================================================== */
#ifdef XV_TD_DNS
/* ==================================================================================================================== */
/* ---- timer_mgr.c as its users see it (ASSUMED here; the concrete contracts of part TM are what is ENFORCED: xv_timers there is
 * TM_LEN(mgr), "timer xv_tk is live" is "an element of the list has id xv_tk").  A timer id >= 0 held by the caller names a LIVE
 * timer (typestate kept by XQ_TIMERS_OK below) -- timer_mgr_has_expired dereferences the timer. */
#define TMG_TK_SAME (!xv_tmg.tk_live == !__CPROVER_old(xv_tmg.tk_live) && XV_SAME(xv_tmg.tk_timeout))
#define TMG_ID_LIVE(id) ((id) >= 0 && xv_timers > 0 && ((id) == xv_tk ==> xv_tmg.tk_live))
struct timer_mgr *timer_mgr_create(struct xpoll *xpoll, void *log_ref)
__CPROVER_requires(xpoll != NULL && XV_TD_CNT_OK(xv_tmgrs) && XR_RANGE(1) && XV_TD_UCNT_OK(xv_tmg.creates))
__CPROVER_assigns(xv_errno, xv_tmg.tmgrs, xv_tmg.timers, xv_tmg.tk_live, xv_tmg.creates, xv_tmg.mgr_fd, xv_tmg.mgr_reg_id, xv_tmg.last_id, xv_xr)
__CPROVER_ensures(__CPROVER_return_value == NULL || __CPROVER_is_fresh(__CPROVER_return_value, 1))
__CPROVER_ensures(xv_tmg.creates == __CPROVER_old(xv_tmg.creates) + 1)
__CPROVER_ensures(__CPROVER_return_value == NULL ==> (XV_ERRNO_OK(xv_errno) && XV_SAME(xv_tmgrs) && XV_SAME(xv_timers) && !xv_tmg.tk_live == !__CPROVER_old(xv_tmg.tk_live) && \
                  XV_SAME(xv_tmg.mgr_fd) && XV_SAME(xv_tmg.mgr_reg_id) && XR_UNTOUCHED))
__CPROVER_ensures(__CPROVER_return_value != NULL ==> (XV_SAME(xv_errno) && xv_tmgrs == __CPROVER_old(xv_tmgrs) + 1 && xv_timers == 0 && !xv_tmg.tk_live && xv_tmg.last_id == -1 && \
                  XR_ADDED(xv_tmg.mgr_reg_id, xv_tmg.mgr_fd, EPOLLIN)))
;
/* errno preserved; owner == false: the xpoll instance is not touched; every timer the manager still has dies with it */
void timer_mgr_destroy(struct timer_mgr *mgr, bool owner)
__CPROVER_requires(mgr == NULL || (xv_tmgrs > 0 && XV_TD_UCNT_OK(xv_tmg.destroys) && (!owner || (xv_xr.regs > 0 && XV_TD_UCNT_OK(xv_xr.dels) && (xv_tmg.mgr_reg_id == xv_rk ==> xv_xr.rk_live)))))
__CPROVER_assigns(xv_tmg.tmgrs, xv_tmg.timers, xv_tmg.tk_live, xv_tmg.destroys, xv_tmg.destroy_owner, xv_xr)
__CPROVER_ensures(mgr == NULL ==> (XV_SAME(xv_tmgrs) && XV_SAME(xv_timers) && !xv_tmg.tk_live == !__CPROVER_old(xv_tmg.tk_live) && XV_SAME(xv_tmg.destroys) && XR_UNTOUCHED))
__CPROVER_ensures(mgr != NULL ==> (xv_tmgrs == __CPROVER_old(xv_tmgrs) - 1 && xv_timers == 0 && !xv_tmg.tk_live && xv_tmg.destroys == __CPROVER_old(xv_tmg.destroys) + 1 && \
                  !xv_tmg.destroy_owner == !owner))
__CPROVER_ensures((mgr != NULL && owner) ==> XR_DELETED(xv_tmg.mgr_reg_id))
__CPROVER_ensures((mgr != NULL && !owner) ==> XR_UNTOUCHED)
;
#define TMG_SCHED_ASSIGNS xv_tmg.timers, xv_tmg.tk_live, xv_tmg.tk_timeout, xv_tmg.scheds, xv_tmg.sched_id, xv_tmg.sched_timeout, xv_tmg.sched_mgr, xv_tmg.last_id
#define TMG_LAST_OK (xv_tmg.last_id >= -1 && xv_tmg.last_id < (1L << 62))
int64_t timer_mgr_schedule(struct timer_mgr *mgr, double relative_timeout)
__CPROVER_requires(mgr != NULL && XV_TD_CNT_OK(xv_timers) && XV_TD_UCNT_OK(xv_tmg.scheds) && TMG_LAST_OK)
__CPROVER_assigns(TMG_SCHED_ASSIGNS)
/* (ids are handed out in sequence: part TM, timer_mgr_schedule.fresh_id) */
__CPROVER_ensures(TMC_SCHEDULED(__CPROVER_return_value, xv_timers, __CPROVER_old(xv_timers)) && __CPROVER_return_value == __CPROVER_old(xv_tmg.last_id) + 1 && xv_tmg.last_id == __CPROVER_return_value)
__CPROVER_ensures(xv_tmg.sched_id == __CPROVER_return_value && xv_tmg.sched_timeout == relative_timeout && xv_tmg.sched_mgr == (const void *)mgr && \
                  xv_tmg.scheds == __CPROVER_old(xv_tmg.scheds) + 1)
/* a fresh id: it names no timer that is pending */
__CPROVER_ensures(__CPROVER_return_value == xv_tk ? (!__CPROVER_old(xv_tmg.tk_live) && xv_tmg.tk_live && xv_tmg.tk_timeout == relative_timeout) : TMG_TK_SAME)
;
void timer_mgr_cancel(struct timer_mgr *mgr, int64_t *timer_id)
__CPROVER_requires(mgr != NULL && __CPROVER_rw_ok(timer_id, sizeof(*timer_id)) && (*timer_id < 0 || TMG_ID_LIVE(*timer_id)) && XV_TD_UCNT_OK(xv_tmg.cancels))
__CPROVER_assigns(*timer_id, xv_tmg.timers, xv_tmg.tk_live, xv_tmg.cancels)
__CPROVER_ensures(TMC_CANCELLED(timer_id, __CPROVER_old(*timer_id) >= 0, xv_timers, __CPROVER_old(xv_timers)) && xv_tmg.cancels == __CPROVER_old(xv_tmg.cancels) + 1)
__CPROVER_ensures((__CPROVER_old(*timer_id) >= 0 && __CPROVER_old(*timer_id) == xv_tk) ? !xv_tmg.tk_live : !xv_tmg.tk_live == !__CPROVER_old(xv_tmg.tk_live))
;
/* cancel (if the id is valid) + schedule: ids are never reused */
void timer_mgr_reschedule(struct timer_mgr *mgr, double relative_timeout, int64_t *timer_id)
__CPROVER_requires(mgr != NULL && __CPROVER_rw_ok(timer_id, sizeof(*timer_id)) && (*timer_id < 0 || TMG_ID_LIVE(*timer_id)) && XV_TD_CNT_OK(xv_timers) && \
                   XV_TD_UCNT_OK(xv_tmg.scheds) && XV_TD_UCNT_OK(xv_tmg.cancels) && TMG_LAST_OK)
__CPROVER_assigns(*timer_id, TMG_SCHED_ASSIGNS, xv_tmg.cancels)
__CPROVER_ensures(*timer_id >= 0 && *timer_id == __CPROVER_old(xv_tmg.last_id) + 1 && xv_tmg.last_id == *timer_id && xv_timers == __CPROVER_old(xv_timers) + 1 - (__CPROVER_old(*timer_id) >= 0 ? 1 : 0))
__CPROVER_ensures(xv_tmg.sched_id == *timer_id && xv_tmg.sched_timeout == relative_timeout && xv_tmg.sched_mgr == (const void *)mgr && \
                  xv_tmg.scheds == __CPROVER_old(xv_tmg.scheds) + 1 && xv_tmg.cancels == __CPROVER_old(xv_tmg.cancels) + (__CPROVER_old(*timer_id) >= 0 ? 1 : 0))
__CPROVER_ensures(*timer_id == xv_tk ? (xv_tmg.tk_live && xv_tmg.tk_timeout == relative_timeout && !__CPROVER_old(xv_tmg.tk_live)) : \
                  ((__CPROVER_old(*timer_id) >= 0 && __CPROVER_old(*timer_id) == xv_tk) ? !xv_tmg.tk_live : TMG_TK_SAME))
;
bool timer_mgr_has_expired(struct timer_mgr *mgr, int64_t timer_id)
__CPROVER_requires(mgr != NULL && TMG_ID_LIVE(timer_id) && XV_TD_UCNT_OK(xv_tmg.expireds))
__CPROVER_assigns(xv_tmg.expired_ret, xv_tmg.expired_id, xv_tmg.expireds)
__CPROVER_ensures(!__CPROVER_return_value == !xv_tmg.expired_ret && xv_tmg.expired_id == timer_id && xv_tmg.expireds == __CPROVER_old(xv_tmg.expireds) + 1)
;

/* ---- struct xcm_dns_query: representation ------------------------------------------------------------------------------------ */
#define Q_STATE_OK(q) ((q)->state == query_state_in_progress || (q)->state == query_state_failed || (q)->state == query_state_successful)
#define Q_TERMINAL(st) ((st) == query_state_failed || (st) == query_state_successful)
/* (same text as harness/dnstc/_ghost.h) */
#define Q_OK(q) (Q_STATE_OK(q) && ((q)->state == query_state_successful ==> ((q)->ips_len >= 1 && (q)->ips_len <= XCM_DNS_MAX_RESULT_SIZE)))
#define XQ_SUM(q, F) (F(q, 0) + F(q, 1) + F(q, 2) + F(q, 3) + F(q, 4) + F(q, 5) + F(q, 6) + F(q, 7) + F(q, 8) + F(q, 9) + F(q, 10) + F(q, 11) + F(q, 12) + F(q, 13) + F(q, 14) + F(q, 15))
#define XQ_ALL(q, F) (F(q, 0) && F(q, 1) && F(q, 2) && F(q, 3) && F(q, 4) && F(q, 5) && F(q, 6) && F(q, 7) && F(q, 8) && F(q, 9) && F(q, 10) && F(q, 11) && F(q, 12) && F(q, 13) && F(q, 14) && F(q, 15))
#define XQ_ID(q, i) ((q)->channel_fd_reg_ids[i])
#define XQF_HELD(q, i) (XQ_ID(q, i) >= 0 ? 1 : 0)
#define XQF_IS_RK(q, i) ((XQ_ID(q, i) >= 0 && XQ_ID(q, i) == xv_rk) ? 1 : 0)
#define XQF_IS_RF(q, i) ((XQ_ID(q, i) >= 0 && XQ_ID(q, i) == xv_xr.rf_id) ? 1 : 0)
#define XQF_ID_RANGE(q, i) (XQ_ID(q, i) >= -1)
#define XQF_NONE(q, i) (XQ_ID(q, i) == -1)
/* registrations the query holds for c-ares descriptors */
#define XQ_NREGS(q) XQ_SUM(q, XQF_HELD)
/* every slot holds -1 or a LIVE registration id, no id twice (stated for the arbitrary id xv_rk) */
#define XQ_REGS_OK(q) (XQ_ALL(q, XQF_ID_RANGE) && XQ_SUM(q, XQF_IS_RK) <= 1 && (XQ_SUM(q, XQF_IS_RK) == 1 ==> xv_xr.rk_live) && \
                       xv_xr.regs >= XQ_NREGS(q) + 1 && \
                       xv_tmg.mgr_reg_id >= 0 && (xv_tmg.mgr_reg_id == xv_rk ==> (xv_xr.rk_live && XQ_SUM(q, XQF_IS_RK) == 0)))
#define XQF_NOT_MGR(q, i) (XQ_ID(q, i) != xv_tmg.mgr_reg_id)
#define XQ_HELD_T(id) ((id) >= 0 ? 1 : 0)
#define XQ_TIMERS_OK(q) ((q)->ares_timer_id >= -1 && (q)->overall_timer_id >= -1 && ((q)->ares_timer_id < 0 || (q)->ares_timer_id != (q)->overall_timer_id) && \
        TMG_LAST_OK && (q)->ares_timer_id <= xv_tmg.last_id && (q)->overall_timer_id <= xv_tmg.last_id && \
        (((q)->ares_timer_id >= 0 && (q)->ares_timer_id == xv_tk) ==> xv_tmg.tk_live) && (((q)->overall_timer_id >= 0 && (q)->overall_timer_id == xv_tk) ==> xv_tmg.tk_live) && \
        (xv_tmg.tk_live ==> (xv_tk >= 0 && (xv_tk == (q)->ares_timer_id || xv_tk == (q)->overall_timer_id))) && \
        xv_timers == XQ_HELD_T((q)->ares_timer_id) + XQ_HELD_T((q)->overall_timer_id))
/* ranges of the ghost counters (no overflow in the models' own arithmetic); s: room the function needs, callees need less */
#define XQ_U(c, s) ((c) < (unsigned)(XV_TD_CNT_MAX - (s)))
#define XQ_GHOST_RANGES_S(s) (XR_RANGE(40 + (s)) && XQ_U(xv_tmg.scheds, s) && XQ_U(xv_tmg.cancels, s) && XQ_U(xv_tmg.expireds, s) && XQ_U(xv_tmg.destroys, s) && \
        XQ_U(xv_tmg.creates, s) && xv_timers >= 0 && xv_timers < XV_TD_CNT_MAX - (s) && XV_TD_CNT_OK(xv_tmgrs) && xv_tmgrs > 0 && \
        XQ_U(xv_ar.process_fd_n, s) && XQ_U(xv_ar.process_n, s) && XQ_U(xv_ar.getsock_n, s) && XQ_U(xv_ar.timeout_n, s) && XQ_U(xv_ar.destroys, s) && \
        XQ_U(xv_ar.inits, s) && XQ_U(xv_ar.gai_n, s) && XQ_U(xv_ar.free_n, s) && XQ_U(xv_ar.cb_n, s) && XQ_U(xv_ar.tv2f_n, s) && XQ_U(xv_ar.pfd_j, s) && \
        XV_TD_CNT_OK(xv_ar.channels) && xv_ar.channels > 0 && xv_ar.results >= 0 && xv_ar.results < XV_TD_CNT_MAX - (s) && xv_tmg.mgr_fd >= 0 && \
        xv_tmg.last_id < (1L << 62) - 64 - (s) && xv_tmg.tk_timeout == xv_tmg.tk_timeout /* not NaN: it is compared */)
#define XQ_GHOST_RANGES XQ_GHOST_RANGES_S(100)
/* The query object, its channel and its name are BUILT BY THE HARNESS (malloc, arbitrary content: xv_q_any() in harness/timerdns/
 * _unit_dns.h), not by __CPROVER_is_fresh: the c-ares model keeps the callback argument (xv_ar.arg = the query) and calls
 * query_cb through it, and a ghost pointer that is merely ASSUMED equal to an is_fresh object cannot be dereferenced (HOWTO trap). */
#define XQ_FRESH(q) ((q) != NULL && __CPROVER_rw_ok(q, sizeof(struct xcm_dns_query)))
#define XQ_CHANNEL_FRESH(q) ((q)->channel != NULL && __CPROVER_rw_ok((q)->channel, sizeof(struct ares_channeldata)))
/* the invariant of a query between two calls of the interface */
#define XQ_OK(q) (Q_OK(q) && (q)->channel->xv_live == 1 && (q)->xpoll != NULL && (q)->timer_mgr != NULL && XQ_REGS_OK(q) && XQ_TIMERS_OK(q) && \
                  (xv_ar.pending ==> xv_ar.arg == (void *)(q)) && ((q)->state == query_state_in_progress ==> (q)->overall_timer_id >= 0))
#define XQ_ASSIGNS(q) __CPROVER_object_whole(q), xv_errno, xv_xr, xv_tmg, xv_ar

#define XQ_FAM_OK(f) ((f) == AF_INET || (f) == AF_INET6)
/* ---- get_ips ---------------------------------------------------------------------------------------------------------------------- */
#ifndef XV_IPS_CAP_MAX
#define XV_IPS_CAP_MAX XCM_DNS_MAX_RESULT_SIZE
#endif
#ifndef XV_IPS_CAP_MIN
#define XV_IPS_CAP_MIN 0
#endif
/* ---- get_ip: one node of the answer list -> one struct xcm_addr_ip (ENFORCED by job get_ip; job get_ips@cap32 REPLACES it: 33 inlined
 * copies through the memcpy model took more than 10 minutes) */
#define XQ_SA_OFF(fam) ((fam) == AF_INET ? offsetof(struct sockaddr_in, sin_addr) : offsetof(struct sockaddr_in6, sin6_addr))
#define XQ_SA_LEN(fam) ((fam) == AF_INET ? 4u : 16u)
static void get_ip(const char *domain_name, struct ares_addrinfo_node *node, struct xcm_addr_ip *ip, void *log_ref)
#ifdef XV_TD_GETIP_JOB
__CPROVER_requires(__CPROVER_is_fresh(node, sizeof(*node)) && __CPROVER_is_fresh(ip, sizeof(*ip)))
__CPROVER_requires(__CPROVER_is_fresh(node->ai_addr, sizeof(struct sockaddr_in6)))
#else
__CPROVER_requires(__CPROVER_r_ok(node, sizeof(*node)) && __CPROVER_w_ok(ip, sizeof(*ip)) && __CPROVER_r_ok(node->ai_addr, sizeof(struct sockaddr_in6)))
#endif
/* TRUSTED(c-ares): ares_getaddrinfo answers with IPv4/IPv6 nodes only (the code asserts it) */
__CPROVER_requires(XQ_FAM_OK(node->ai_family))
__CPROVER_assigns(__CPROVER_object_upto(ip, sizeof(*ip)))
/* PO[C13] get_ip.family_and_address_copied */
__CPROVER_ensures(ip->family == node->ai_family && (xv_mc < XQ_SA_LEN(node->ai_family) ==> \
                  ((const uint8_t *)&ip->addr)[xv_mc] == ((const uint8_t *)node->ai_addr)[XQ_SA_OFF(node->ai_family) + xv_mc]))
;
static int get_ips(const char *domain_name, struct ares_addrinfo *result, struct xcm_addr_ip *ips, int capacity, void *log_ref)
/* (the node list is built by the harness: xv_ar.cb_nodes nodes, node number xv_j has family xv_ar.node_fam and address byte xv_ar.node_b at offset xv_mc) */
/* (the buffer is an array of XV_IPS_CAP_MAX entries whatever `capacity` says -- an object of symbolic size costs a factor 10 --;
 * that nothing beyond `capacity` entries is written is what the assigns clause demands) */
#ifdef XV_TD_CB_JOB
/* (job query_cb, where get_ips is REPLACED: the buffer is the array inside the query object) */
__CPROVER_requires(capacity == XV_IPS_CAP_MAX && __CPROVER_w_ok(ips, sizeof(struct xcm_addr_ip) * XV_IPS_CAP_MAX))
#else
__CPROVER_requires(capacity >= XV_IPS_CAP_MIN && capacity <= XV_IPS_CAP_MAX && __CPROVER_is_fresh(ips, sizeof(struct xcm_addr_ip) * XV_IPS_CAP_MAX))
#endif
__CPROVER_requires(result != NULL && xv_ar.cb_nodes >= 0 && xv_ar.cb_nodes <= XV_NODES_MAX)
__CPROVER_assigns(capacity > 0: __CPROVER_object_upto(ips, sizeof(struct xcm_addr_ip) * capacity))
/* PO[C13] get_ips.at_most_capacity_addresses: min(nodes, capacity) entries, never more than the caller's capacity (0 included: nothing is written -- assigns clause) */
__CPROVER_ensures(__CPROVER_return_value == (xv_ar.cb_nodes < capacity ? xv_ar.cb_nodes : capacity) && __CPROVER_return_value >= 0 && __CPROVER_return_value <= XCM_DNS_MAX_RESULT_SIZE)
/* PO[C13] get_ips.copies_in_list_order: entry j is node j of the resolver's list: its family (IPv4/IPv6) and its address bytes */
__CPROVER_ensures((xv_j >= 0 && xv_j < __CPROVER_return_value) ==> (ips[xv_j].family == xv_ar.node_fam && XQ_FAM_OK(ips[xv_j].family) && \
                  (xv_mc < (xv_ar.node_fam == AF_INET ? 4u : 16u) ==> ((const uint8_t *)&ips[xv_j].addr)[xv_mc] == xv_ar.node_b)))
;

/* ---- query_cb ------------------------------------------------------------------------------------------------------------------------ */
#define XQC(a) ((struct xcm_dns_query *)(a))
#define XQ_CB_IGNORED(st) ((st) == ARES_ECANCELLED || (st) == ARES_EDESTRUCTION)
static void query_cb(void *arg, int status, int timeouts, struct ares_addrinfo *result)
#ifdef XV_TD_CB_JOB
__CPROVER_requires(__CPROVER_is_fresh(arg, sizeof(struct xcm_dns_query)))
#else
__CPROVER_requires(__CPROVER_rw_ok(XQC(arg), sizeof(struct xcm_dns_query)))
#endif
/* TRUSTED(c-ares) A1: no ARES_ENOMEM; A2: exactly one callback, so a status other than "cancelled/destroyed" finds the query in progress */
__CPROVER_requires(status != ARES_ENOTIMP /* env A5 */ && (status == ARES_SUCCESS ==> xv_ar.cb_nodes >= 1) /* env A6 */ && Q_OK(XQC(arg)) /* representation invariant on entry */)
__CPROVER_requires(status != ARES_ENOMEM && Q_STATE_OK(XQC(arg)) && (!XQ_CB_IGNORED(status) ==> XQC(arg)->state == query_state_in_progress))
__CPROVER_requires(status == ARES_SUCCESS ==> (result != NULL && xv_ar.cb_nodes >= 0 && xv_ar.cb_nodes <= XV_NODES_MAX && xv_ar.results > 0 && xv_ar.results <= XV_TD_CNT_MAX && XV_TD_UCNT_OK(xv_ar.free_n)))
__CPROVER_assigns(XQC(arg)->state, XQC(arg)->ips_len, __CPROVER_object_upto(XQC(arg)->ips, sizeof(XQC(arg)->ips)), xv_ar.free_n, xv_ar.results)
__CPROVER_frees(status == ARES_SUCCESS: result)
/* PO[C13] query_cb.success_with_an_address_is_successful: the first min(nodes, 32) addresses are stored */
__CPROVER_ensures((status == ARES_SUCCESS && xv_ar.cb_nodes >= 1) ==> (XQC(arg)->state == query_state_successful && \
                  XQC(arg)->ips_len == (xv_ar.cb_nodes < XCM_DNS_MAX_RESULT_SIZE ? xv_ar.cb_nodes : XCM_DNS_MAX_RESULT_SIZE)))
/* PO[C13] query_cb.no_address_is_a_failure: any error status -- and a "successful" answer without a single address -- fails the query (ENOENT later) */
__CPROVER_ensures(((status != ARES_SUCCESS && !XQ_CB_IGNORED(status)) || (status == ARES_SUCCESS && xv_ar.cb_nodes == 0)) ==> XQC(arg)->state == query_state_failed)
/* a lookup cancelled or destroyed by the library itself changes nothing */
__CPROVER_ensures(XQ_CB_IGNORED(status) ==> (XV_SAME(XQC(arg)->state) && XV_SAME(XQC(arg)->ips_len) && XV_SAME(xv_ar.free_n) && XV_SAME(xv_ar.results)))
/* PO[C08] query_cb.result_list_given_back_once */
__CPROVER_ensures(status == ARES_SUCCESS ? (xv_ar.free_n == __CPROVER_old(xv_ar.free_n) + 1 && xv_ar.results == __CPROVER_old(xv_ar.results) - 1) \
                                         : (XV_SAME(xv_ar.free_n) && XV_SAME(xv_ar.results)))
/* PO[C13] query_cb.successful_means_1_to_32_addresses: the representation invariant xcm_dns_query_result (and contracts/dnstc.h: Q_OK) relies on */
__CPROVER_ensures(Q_OK(XQC(arg)))
;

/* ---- update_xpoll (C04) ----------------------------------------------------------------------------------------------------------------- */
/* the events c-ares asked for on slot i of its last ares_getsock() answer */
#define XQ_WANT(mask, i) ((XV_GS_R(mask, i) ? EPOLLIN : 0) | (XV_GS_W(mask, i) ? EPOLLOUT : 0))
#define XQ_J_IN (xv_j >= 0 && xv_j < ARES_GETSOCK_MAXNUM)
/* in progress: slot xv_j (any slot): c-ares wants events on its descriptor => that descriptor is registered, for exactly those events, under the id the slot holds; otherwise the slot is empty */
#define XQ_CARES_FDS_REGISTERED(q) (XQ_J_IN ==> (XQ_WANT(xv_ar.gs_mask, xv_j) != 0 \
        ? ((q)->channel_fds[xv_j] == xv_ar.gs_fd && XQ_ID(q, xv_j) >= 0 && (q)->channel_fd_mask == xv_ar.gs_mask && \
           (XQ_ID(q, xv_j) == xv_rk ==> (xv_xr.rk_live && xv_xr.rk_fd == xv_ar.gs_fd && xv_xr.rk_event == XQ_WANT(xv_ar.gs_mask, xv_j))) && \
           (xv_ar.gs_fd == xv_rf ==> (xv_xr.rf_live && xv_xr.rf_id == XQ_ID(q, xv_j) && xv_xr.rf_event == XQ_WANT(xv_ar.gs_mask, xv_j)))) \
        : XQ_ID(q, xv_j) == -1))
/* in progress: the timeout c-ares asked for (ares_timeout) is what the ares timer is (re)armed with; no timeout asked for: the timer is left alone */
/* (s: schedules made by the function before it updates the wake-ups; a0: the ares timer id it had then) */
#define XQ_CARES_TIMER_ARMED(q, s, a0) (xv_ar.timeout_n == __CPROVER_old(xv_ar.timeout_n) + 1 && (xv_ar.to_null \
        ? ((q)->ares_timer_id == (a0) && xv_tmg.scheds == __CPROVER_old(xv_tmg.scheds) + (s)) \
        : ((q)->ares_timer_id >= 0 && (q)->ares_timer_id == xv_tmg.sched_id && xv_tmg.sched_mgr == (const void *)(q)->timer_mgr && xv_tmg.scheds == __CPROVER_old(xv_tmg.scheds) + (s) + 1 && \
           xv_ar.tv2f_n == __CPROVER_old(xv_ar.tv2f_n) + 1 && xv_ar.tv2f_sec == xv_ar.to_sec && xv_ar.tv2f_usec == xv_ar.to_usec && xv_tmg.sched_timeout == xv_ar.tv2f_ret)))
/* finished: no c-ares descriptor stays registered and a timer with timeout 0 is armed: the timerfd becomes readable at once, so the
 * socket's descriptor is readable and the application calls xcm_finish ("resolution finished without a descriptor event") */
#define XQ_FINISHED_WAKES(q, s) (XQ_ALL(q, XQF_NONE) && (q)->ares_timer_id >= 0 && (q)->ares_timer_id == xv_tmg.sched_id && xv_tmg.sched_timeout == 0 && \
        xv_tmg.sched_mgr == (const void *)(q)->timer_mgr && xv_tmg.scheds == __CPROVER_old(xv_tmg.scheds) + (s) + 1 && XV_SAME(xv_ar.getsock_n) && XV_SAME(xv_ar.timeout_n))
#define XQ_WAKEUP(q, s, a0) ((q)->state == query_state_in_progress ? (XQ_CARES_FDS_REGISTERED(q) && XQ_CARES_TIMER_ARMED(q, s, a0) && xv_ar.getsock_n == __CPROVER_old(xv_ar.getsock_n) + 1) : XQ_FINISHED_WAKES(q, s))
/* C08: what is registered / scheduled and not named by the query object does not change (r0/t0: registrations/timers the query held before) */
#define XQ_CONSERVED(q, r0, t0) (xv_xr.regs - XQ_NREGS(q) == __CPROVER_old(xv_xr.regs) - (r0) && xv_timers == XQ_HELD_T((q)->ares_timer_id) + XQ_HELD_T((q)->overall_timer_id))
static void update_xpoll(struct xcm_dns_query *query)
__CPROVER_requires(XQ_FRESH(query))
__CPROVER_requires(XQ_CHANNEL_FRESH(query))
__CPROVER_requires(XQ_OK(query) && XQ_GHOST_RANGES_S(0) && XQ_NREGS(query) == xv_g_nregs)
/* (field by field: where this contract REPLACES the function, everything not named here keeps its value) */
__CPROVER_assigns(__CPROVER_object_upto(query->channel_fd_reg_ids, sizeof(query->channel_fd_reg_ids)), __CPROVER_object_upto(query->channel_fds, sizeof(query->channel_fds)), \
                  query->channel_fd_mask, query->ares_timer_id, xv_xr, TMG_SCHED_ASSIGNS, xv_tmg.cancels, \
                  xv_ar.getsock_n, xv_ar.gs_mask, xv_ar.gs_fd, xv_ar.timeout_n, xv_ar.to_null, xv_ar.to_sec, xv_ar.to_usec, xv_ar.to_ptr, \
                  xv_ar.tv2f_ret, xv_ar.tv2f_n, xv_ar.tv2f_sec, xv_ar.tv2f_usec)
/* PO[C04] update_xpoll.in_progress_registers_every_cares_descriptor_and_arms_the_cares_timer */
__CPROVER_ensures(query->state == query_state_in_progress ==> (XQ_CARES_FDS_REGISTERED(query) && XQ_CARES_TIMER_ARMED(query, 0, __CPROVER_old(query->ares_timer_id)) && xv_ar.getsock_n == __CPROVER_old(xv_ar.getsock_n) + 1))
/* PO[C04] update_xpoll.finished_query_wakes_the_socket */
__CPROVER_ensures(query->state != query_state_in_progress ==> XQ_FINISHED_WAKES(query, 0))
/* PO[C08] update_xpoll.registrations_and_timers_accounted: every old registration released exactly once (obligations of xpoll_fd_reg_del), the new ones are all named by the query */
__CPROVER_ensures(XQ_CONSERVED(query, xv_g_nregs, 0))
__CPROVER_ensures(Q_OK(query) && query->channel->xv_live == 1 && query->xpoll != NULL && query->timer_mgr != NULL)
__CPROVER_ensures(XQ_REGS_OK(query))
__CPROVER_ensures(XQ_TIMERS_OK(query))
/* only the ares timer is touched: any other timer (xv_tk: the overall timer, for one) keeps its state */
__CPROVER_ensures((xv_tk != query->ares_timer_id && xv_tk != __CPROVER_old(query->ares_timer_id)) ==> TMG_TK_SAME)
__CPROVER_ensures((xv_ar.pending ==> xv_ar.arg == (void *)query) && (query->state == query_state_in_progress ==> query->overall_timer_id >= 0))
;

/* ---- process_in_progress / xcm_dns_query_process -------------------------------------------------------------------------------------------- */
/* what the call did to the query, told from the ghost records: c-ares made its callback (cb_n moved) with status cb_status */
#define XQ_CB_MADE (xv_ar.cb_n != __CPROVER_old(xv_ar.cb_n))
#define XQ_PIP_ENSURES(q) ( \
    /* c-ares is driven: every descriptor it had asked events for is handed to ares_process_fd, then ares_process for its timeouts */ \
    xv_ar.process_n == __CPROVER_old(xv_ar.process_n) + 1 && \
    /* success wins, also over an expired deadline: the deadline is not even looked at */ \
    ((q)->state == query_state_successful ==> (XQ_CB_MADE && xv_ar.cb_status == ARES_SUCCESS && XV_SAME(xv_tmg.expireds) && XV_SAME((q)->overall_timer_id))) && \
    /* otherwise the overall timer is asked */ \
    ((q)->state != query_state_successful ==> (xv_tmg.expireds == __CPROVER_old(xv_tmg.expireds) + 1 && xv_tmg.expired_id == __CPROVER_old((q)->overall_timer_id))))
/* C13: the deadline (dns.timeout) has passed and no address has arrived: the query fails (xcm_dns_query_result: ENOENT), the timer is released */
#define XQ_PIP_TIMEOUT(q) (((q)->state != query_state_successful && xv_tmg.expired_ret) ==> ((q)->state == query_state_failed && (q)->overall_timer_id == -1))
#define XQ_PIP_NO_TIMEOUT(q) (((q)->state != query_state_successful && !xv_tmg.expired_ret) ==> (XV_SAME((q)->overall_timer_id) && \
        (q)->state == (XQ_CB_MADE ? query_state_failed : query_state_in_progress)))
static void process_in_progress(struct xcm_dns_query *query)
__CPROVER_requires(XQ_FRESH(query))
__CPROVER_requires(XQ_CHANNEL_FRESH(query))
__CPROVER_requires(XQ_OK(query) && XQ_GHOST_RANGES && XQ_NREGS(query) == xv_g_nregs && query->state == query_state_in_progress)
__CPROVER_assigns(XQ_ASSIGNS(query))
__CPROVER_ensures(XQ_PIP_ENSURES(query))
/* PO[C13] process_in_progress.overall_timeout_fails_the_query */
__CPROVER_ensures(XQ_PIP_TIMEOUT(query))
/* PO[C13] process_in_progress.otherwise_the_resolver_decides: failure callback: failed; success callback: successful; none: still in progress */
__CPROVER_ensures(XQ_PIP_NO_TIMEOUT(query))
/* PO[C04] process_in_progress.wakeups_rearmed */
__CPROVER_ensures(XQ_WAKEUP(query, 0, -1))
/* PO[C08] process_in_progress.registrations_and_timers_accounted */
__CPROVER_ensures(XQ_CONSERVED(query, xv_g_nregs, 0) && XQ_OK(query))
;
void xcm_dns_query_process(struct xcm_dns_query *query)
__CPROVER_requires(XQ_FRESH(query))
__CPROVER_requires(XQ_CHANNEL_FRESH(query))
__CPROVER_requires(XQ_OK(query) && XQ_GHOST_RANGES && XQ_NREGS(query) == xv_g_nregs)
__CPROVER_assigns(XQ_ASSIGNS(query))
/* PO[C13] xcm_dns_query_process.finished_query_stays_finished: nothing at all happens (same text as dnstc.h: Q_PROCESS_ENSURES) */
__CPROVER_ensures(Q_OK(query) && (Q_TERMINAL(__CPROVER_old(query->state)) ==> (query->state == __CPROVER_old(query->state) && XV_SAME(query->ips_len) && XV_SAME(query->ares_timer_id) && \
                  XV_SAME(query->overall_timer_id) && XR_UNTOUCHED && XV_SAME(xv_timers) && XV_SAME(xv_tmg.scheds) && XV_SAME(xv_tmg.cancels) && XV_SAME(xv_ar.process_n) && XV_SAME(xv_ar.process_fd_n) && XV_SAME(xv_errno))))
/* PO[C13] xcm_dns_query_process.in_progress_is_driven: ... the contract of process_in_progress */
__CPROVER_ensures(__CPROVER_old(query->state) == query_state_in_progress ==> (XQ_PIP_ENSURES(query) && XQ_PIP_TIMEOUT(query) && XQ_PIP_NO_TIMEOUT(query)))
/* PO[C04] xcm_dns_query_process.wakeups_rearmed */
__CPROVER_ensures(__CPROVER_old(query->state) == query_state_in_progress ==> XQ_WAKEUP(query, 0, -1))
/* PO[C08] xcm_dns_query_process.registrations_and_timers_accounted */
__CPROVER_ensures(XQ_CONSERVED(query, xv_g_nregs, 0) && XQ_OK(query))
;

/* ---- xcm_dns_query_completed / xcm_dns_query_result -------------------------------------------------------------------------------------------- */
bool xcm_dns_query_completed(struct xcm_dns_query *query)
__CPROVER_requires(XQ_FRESH(query) && Q_STATE_OK(query))
__CPROVER_assigns()
/* PO[C13,C04] xcm_dns_query_completed.iff_not_in_progress */
__CPROVER_ensures(!__CPROVER_return_value == !(query->state != query_state_in_progress))
;
#define XV_QR_CAP_MAX 40       /* capacities explored (is_fresh needs a bound): beyond XCM_DNS_MAX_RESULT_SIZE, so that capacity > stored addresses is covered */
int xcm_dns_query_result(struct xcm_dns_query *query, struct xcm_addr_ip *ips, int capacity)
__CPROVER_requires(XQ_FRESH(query))
__CPROVER_requires(XQ_CHANNEL_FRESH(query))
/* caller obligation (asserted by the code): room for at least one address */
__CPROVER_requires(capacity >= 1 && capacity <= XV_QR_CAP_MAX && __CPROVER_is_fresh(ips, sizeof(struct xcm_addr_ip) * capacity))
__CPROVER_requires(XQ_OK(query) && XQ_GHOST_RANGES && XQ_NREGS(query) == xv_g_nregs && xv_mc < sizeof(query->ips) && ((const uint8_t *)query->ips)[xv_mc] == xv_g_sb_j)
__CPROVER_assigns(xv_errno, xv_xr, __CPROVER_object_upto(query->channel_fd_reg_ids, sizeof(query->channel_fd_reg_ids)), __CPROVER_object_upto(ips, sizeof(struct xcm_addr_ip) * capacity))
/* PO[C13] xcm_dns_query_result.in_progress_is_EAGAIN: and nothing is touched */
__CPROVER_ensures(query->state == query_state_in_progress ==> (__CPROVER_return_value == -1 && xv_errno == EAGAIN && XR_UNTOUCHED && XQ_NREGS(query) == xv_g_nregs))
/* PO[C13] xcm_dns_query_result.failed_is_ENOENT: resolver failure and dns.timeout expiry alike */
__CPROVER_ensures(query->state == query_state_failed ==> (__CPROVER_return_value == -1 && xv_errno == ENOENT && XR_UNTOUCHED && XQ_NREGS(query) == xv_g_nregs))
/* PO[C13] xcm_dns_query_result.successful_is_the_addresses: min(capacity, stored) of them, at least one, never more than the caller's room, byte for byte (xv_mc: any offset) in resolver order */
__CPROVER_ensures(query->state == query_state_successful ==> (__CPROVER_return_value == (capacity < query->ips_len ? capacity : query->ips_len) && __CPROVER_return_value >= 1 && \
                  __CPROVER_return_value <= capacity && __CPROVER_return_value <= XCM_DNS_MAX_RESULT_SIZE && XV_SAME(xv_errno) && \
                  (xv_mc < sizeof(struct xcm_addr_ip) * (size_t)__CPROVER_return_value ==> ((const uint8_t *)ips)[xv_mc] == xv_g_sb_j)))
/* PO[C08] xcm_dns_query_result.success_releases_the_cares_registrations: each exactly once (obligations of xpoll_fd_reg_del), none left */
__CPROVER_ensures(query->state == query_state_successful ==> (XQ_ALL(query, XQF_NONE) && xv_xr.regs == __CPROVER_old(xv_xr.regs) - xv_g_nregs && \
                  xv_xr.dels == __CPROVER_old(xv_xr.dels) + (unsigned)xv_g_nregs && XV_SAME(xv_xr.adds)))
;

/* ---- xcm_dns_query_destroy (C08) -------------------------------------------------------------------------------------------------------------- */
void xcm_dns_query_destroy(struct xcm_dns_query *query, bool owner)
__CPROVER_requires(query == NULL || XQ_FRESH(query))
__CPROVER_requires(query == NULL || XQ_CHANNEL_FRESH(query))
__CPROVER_requires(query == NULL || (XQ_OK(query) && XQ_NREGS(query) == xv_g_nregs && xv_g_ptr == (const void *)query->domain_name && xv_g_ptr2 == (const void *)query->channel))
__CPROVER_requires(XQ_GHOST_RANGES)
__CPROVER_assigns(xv_errno, xv_xr, xv_tmg, xv_ar)
__CPROVER_assigns(query != NULL: __CPROVER_object_whole(query); query != NULL: __CPROVER_object_whole(query->channel))
__CPROVER_frees(query; query != NULL: query->domain_name; query != NULL: query->channel)
/* PO[C08] xcm_dns_query_destroy.channel_timer_manager_and_memory_released_exactly_once */
__CPROVER_ensures(query != NULL ==> (xv_ar.destroys == __CPROVER_old(xv_ar.destroys) + 1 && xv_ar.channels == __CPROVER_old(xv_ar.channels) - 1 && __CPROVER_was_freed(xv_g_ptr2) && \
                  xv_tmg.destroys == __CPROVER_old(xv_tmg.destroys) + 1 && xv_tmgrs == __CPROVER_old(xv_tmgrs) - 1 && xv_timers == 0 && !xv_tmg.destroy_owner == !owner && \
                  __CPROVER_was_freed(query) && __CPROVER_was_freed(xv_g_ptr) && !xv_ar.pending))
/* PO[C08] xcm_dns_query_destroy.owner_releases_every_registration_exactly_once: the query's (c-ares descriptors) and the timer manager's */
__CPROVER_ensures((query != NULL && owner) ==> (xv_xr.regs == __CPROVER_old(xv_xr.regs) - xv_g_nregs - 1 && xv_xr.dels == __CPROVER_old(xv_xr.dels) + (unsigned)xv_g_nregs + 1 && XV_SAME(xv_xr.adds) && \
                  (xv_tmg.mgr_reg_id == xv_rk ==> !xv_xr.rk_live)))
/* PO[C08] xcm_dns_query_destroy.cleanup_is_process_local: owner == false (xcm_cleanup in a forked child): no epoll change */
__CPROVER_ensures((query == NULL || !owner) ==> XR_UNTOUCHED)
/* PO[C08] xcm_dns_query_destroy.null_is_noop */
__CPROVER_ensures(query == NULL ==> (XV_SAME(xv_ar.destroys) && XV_SAME(xv_tmg.destroys) && XV_SAME(xv_tmgrs) && XV_SAME(xv_ar.channels)))
/* errno survives (contracts/btcp.h relies on it on error paths) -- under TRUSTED assumption A4 of the c-ares model */
__CPROVER_ensures(XV_SAME(xv_errno))
;

/* ---- xcm_dns_resolve ------------------------------------------------------------------------------------------------------------------------------ */
#ifndef XV_DNS_TIMEOUT_MAX
#define XV_DNS_TIMEOUT_MAX 2147483646.0     /* `opts.tries = timeout / 1 + 1` is an int: see job xcm_dns_resolve@huge for timeouts beyond */
#endif
#define XQ_EFF_TIMEOUT(t) ((t) <= 0 ? (double)10 : (t))       /* DEFAULT_OVERALL_TIMEOUT */
struct xcm_dns_query *xcm_dns_resolve(const char *domain_name, struct xpoll *xpoll, double timeout, void *log_ref)
__CPROVER_requires(xpoll != NULL && __CPROVER_is_fresh(domain_name, 4))
/* caller obligation: not NaN (dns_opts_set_timeout rejects it) */
__CPROVER_requires(timeout == timeout && timeout <= XV_DNS_TIMEOUT_MAX)
__CPROVER_requires(XR_RANGE(200) && !xv_xr.rf_live && XQ_U(xv_tmg.scheds, 100) && XQ_U(xv_tmg.cancels, 100) && XQ_U(xv_tmg.expireds, 100) && XQ_U(xv_tmg.destroys, 100) && \
                   XQ_U(xv_tmg.creates, 100) && xv_tmgrs >= 0 && xv_tmgrs < XV_TD_CNT_MAX - 100 && xv_timers == 0 && !xv_tmg.tk_live && \
                   XQ_U(xv_ar.process_fd_n, 100) && XQ_U(xv_ar.process_n, 100) && XQ_U(xv_ar.getsock_n, 100) && XQ_U(xv_ar.timeout_n, 100) && XQ_U(xv_ar.destroys, 100) && \
                   XQ_U(xv_ar.inits, 100) && XQ_U(xv_ar.gai_n, 100) && XQ_U(xv_ar.free_n, 100) && XQ_U(xv_ar.cb_n, 100) && XQ_U(xv_ar.tv2f_n, 100) && XQ_U(xv_ar.pfd_j, 100) && \
                   xv_ar.channels >= 0 && xv_ar.channels < XV_TD_CNT_MAX - 100 && xv_ar.results == 0 && !xv_ar.pending && xv_g_nregs == 0 && xv_tmg.tk_timeout == xv_tmg.tk_timeout)
__CPROVER_assigns(xv_errno, xv_xr, xv_tmg, xv_ar)
__CPROVER_ensures(__CPROVER_return_value == NULL || __CPROVER_is_fresh(__CPROVER_return_value, sizeof(struct xcm_dns_query)))
/* PO[C08] xcm_dns_resolve.failure_leaves_nothing_behind: no timerfd (EMFILE ...) or no resolver configuration (ENOENT): NULL, errno, no timer manager, no registration, no channel */
__CPROVER_ensures(__CPROVER_return_value == NULL ==> (XV_ERRNO_OK(xv_errno) && XV_SAME(xv_tmgrs) && XV_SAME(xv_xr.regs) && XV_SAME(xv_ar.channels) && xv_timers == 0 && \
                  !xv_xr.rk_live == !__CPROVER_old(xv_xr.rk_live) && !xv_xr.rf_live && XV_SAME(xv_ar.gai_n)))
__CPROVER_ensures((__CPROVER_return_value == NULL && xv_ar.inits != __CPROVER_old(xv_ar.inits)) ==> xv_errno == ENOENT)
/* PO[C13] xcm_dns_resolve.overall_timer_has_the_configured_timeout: dns.timeout (10 s when not configured) bounds the whole resolution; c-ares is given 1 s per try and timeout + 1 tries */
__CPROVER_ensures(__CPROVER_return_value != NULL ==> ((__CPROVER_return_value->overall_timer_id == xv_tk ==> (xv_tmg.tk_live && xv_tmg.tk_timeout == XQ_EFF_TIMEOUT(timeout))) && \
                  __CPROVER_return_value->overall_timer_id >= 0))
__CPROVER_ensures(__CPROVER_return_value != NULL ==> (xv_ar.inits == __CPROVER_old(xv_ar.inits) + 1 && xv_ar.optmask == (ARES_OPT_TIMEOUTMS | ARES_OPT_TRIES) && xv_ar.timeout_ms == 1000))
/* (one try per second of the overall timeout, plus one: the sum is rounded to double BEFORE it is truncated) */
__CPROVER_ensures(__CPROVER_return_value != NULL ==> xv_ar.tries == ((XQ_EFF_TIMEOUT(timeout) / 1 + 1) < INT_MAX ? (int)(XQ_EFF_TIMEOUT(timeout) / 1 + 1) : INT_MAX))
/* PO[C13] xcm_dns_resolve.lookup_started_once: one ares_getaddrinfo whose callback argument is the query; the query is in progress, or c-ares has answered at once */
__CPROVER_ensures(__CPROVER_return_value != NULL ==> (xv_ar.gai_n == __CPROVER_old(xv_ar.gai_n) + 1 && xv_ar.arg == (void *)__CPROVER_return_value && \
                  (!xv_ar.pending == (xv_ar.cb_n != __CPROVER_old(xv_ar.cb_n))) && (xv_ar.pending ==> __CPROVER_return_value->state == query_state_in_progress) && \
                  (__CPROVER_return_value->state == query_state_successful ==> (xv_ar.cb_n != __CPROVER_old(xv_ar.cb_n) && xv_ar.cb_status == ARES_SUCCESS))))
/* PO[C04] xcm_dns_resolve.wakeups_armed */
__CPROVER_ensures(__CPROVER_return_value != NULL ==> XQ_WAKEUP(__CPROVER_return_value, 1, -1))
/* PO[C08] xcm_dns_resolve.success_owns_manager_channel_and_named_registrations */
__CPROVER_ensures(__CPROVER_return_value != NULL ==> (xv_tmgrs == __CPROVER_old(xv_tmgrs) + 1 && xv_ar.channels == __CPROVER_old(xv_ar.channels) + 1 && \
                  xv_xr.regs == __CPROVER_old(xv_xr.regs) + 1 + XQ_NREGS(__CPROVER_return_value) && XQ_OK(__CPROVER_return_value) && __CPROVER_return_value->xpoll == xpoll && \
                  __CPROVER_return_value->log_ref == log_ref && xv_ar.results == 0))
;

#endif /* XV_TD_DNS */

#include "contracts/end.h"
#endif
