/* contracts/xcmcore.h -- libxcm/core/xcm.c: the public API layer over the transport operations.
 *
 * Serves C05 (a non-blocking socket never sleeps: xv_blocked is in no assigns clause reachable with !s->is_blocking),
 * C03/C01 (xcm_send/msg_bsend accept a message exactly once iff they report success; xcm_receive hands out the result of
 * exactly one successful transport receive), C02 (bytestream_bsend: exactly the reported prefix is accepted),
 * C11 (set_attrs: defaults, then the map, creation aborted on the first failure), C10 (attr_get_with_type).
 *
 * The layer below (libxcm/tp/common/xcm_tp.c dispatching into a transport through a table of function pointers),
 * xpoll.c, attr_tree.c and xcm_attr_map.c are OTHER MODULES: cut by the contracts of part 1, ASSUMED here.  The transport
 * contracts are the API-level view of what units framing / ux / btcp enforce on tcp_send, ux_send, btcp_send ...
 * The kernel is poll(2) only (env/xcmcore_env.h, TRUSTED).
 *
 * Modes (a -D of the job): XC_NB  the socket is non-blocking (C05 jobs: XC_MAY_BLOCK expands to NOTHING, so xv_blocked
 *                                 is assignable nowhere);
 *                          XC_BL  the socket is blocking;
 *                          none   both.
 * Attached to the REAL functions by redeclaration after the TU has been #included.
 * Included TWICE by harness/xcmcore/_unit.h: before the TU (ghost globals only -- the loop contracts spliced into the TU
 * name them) and, with XC_CONTRACTS defined, after it (the contracts).
 */
#ifndef XV_XCMCORE_GHOST_H
#define XV_XCMCORE_GHOST_H
struct xcm_socket; struct xpoll;
/* ================================================================================================================ */
/* ghost state of the unit (havocked by xv_xcmcore_havoc() at the start of every harness)                            */
/* ================================================================================================================ */
struct xcm_socket *xv_sock;     /* never assigned: the socket the API call under proof operates on                   */
_Bool xv_bytestream;            /* never assigned: that socket's transport is a byte stream (btcp, btls)             */
/* messaging, send side: what the transport has ACCEPTED (its send returned 0) */
long xv_accepted;               /* number of messages accepted so far                                                */
const void *xv_acc_buf;         /* (buf, len) of the message accepted last                                           */
size_t xv_acc_len;
/* byte streams, send side: prelude's xv_tx_off / xv_tx_k / xv_tx_k_set (bytes accepted so far, byte at offset xv_k) */
/* receive side: successful (rv >= 0) transport receives */
long xv_delivered;              /* number of them so far                                                             */
int xv_rcv_rv;                  /* result, buffer and capacity of the last one                                       */
void *xv_rcv_buf;
size_t xv_rcv_cap;
/* the connection is dead: the transport will neither accept nor deliver anything any more (set by the transport only,
 * absorbing; proved absorbing for the real transports under C06) */
_Bool xv_conn_dead;
/* last xcm_tp_socket_finish / xcm_tp_socket_update */
struct xcm_socket *xv_fin_sock; int xv_fin_rv; int xv_fin_errno;
_Bool xv_updated; int xv_upd_cond; struct xcm_socket *xv_upd_sock;
/* lifecycle: sockets handed to close/cleanup/destroy, xpoll instances destroyed */
struct xcm_socket *xv_closed_sock, *xv_cleaned_sock, *xv_destroyed_sock; struct xpoll *xv_destroyed_xpoll;
int xv_fd_ret;                  /* what xpoll_get_fd returned last */

_Bool xv_poll_failed;           /* a poll() call has failed (set by the poll stub of env/xcmcore_env.h, never cleared) */
#endif

#if defined(XC_CONTRACTS) && !defined(XV_XCMCORE_H)
#define XV_XCMCORE_H
#include "contracts/begin.h"

#define XC_U8(p) ((const uint8_t *)(p))
#define XC_CNT_MAX (1L << 60)
/* buffers above these sizes are not explored (is_fresh needs a bound): default 2^31-1 = everything an int can report */
#ifndef XC_LEN_MAX
#define XC_LEN_MAX 0x7fffffffUL
#endif
#ifndef XC_LEN_MIN
#define XC_LEN_MIN 0UL
#endif
#define XC_SLACK (1L << 41)
#define XC_BUF(p, n) __CPROVER_is_fresh((p), (n) == 0 ? 1 : (n))

/* ranges of the ghost counters: on entry of an API call / of a helper or the transport in mid-call / on any exit */
#define XC_GHOST_LIM(lim) (xv_accepted >= 0 && xv_accepted < XC_CNT_MAX + (lim) && xv_delivered >= 0 && xv_delivered < XC_CNT_MAX + (lim) && \
                           xv_tx_off >= 0 && xv_tx_off < XV_OFF_MAX + (lim) && xv_k >= 0 && xv_k < 2 * XV_OFF_MAX)
#define XC_GHOST_RANGE XC_GHOST_LIM(0)
#define XC_GHOST_RANGE_IN XC_GHOST_LIM(XC_SLACK)

#define XC_ACC_SAME (xv_accepted == __CPROVER_old(xv_accepted) && xv_acc_buf == __CPROVER_old(xv_acc_buf) && xv_acc_len == __CPROVER_old(xv_acc_len))
#define XC_TX_SAME (xv_tx_off == __CPROVER_old(xv_tx_off) && xv_tx_k == __CPROVER_old(xv_tx_k) && xv_tx_k_set == __CPROVER_old(xv_tx_k_set))
#define XC_RCV_SAME (xv_delivered == __CPROVER_old(xv_delivered) && xv_rcv_rv == __CPROVER_old(xv_rcv_rv) && xv_rcv_buf == __CPROVER_old(xv_rcv_buf) && \
                     xv_rcv_cap == __CPROVER_old(xv_rcv_cap))
#define XC_DEAD_MONO (__CPROVER_old(xv_conn_dead) ==> xv_conn_dead)
/* the stream grew by exactly buf[0..n): the byte at the ghost offset xv_k is the right one (any xv_k: all of them) */
#define XC_TX_GREW(buf, n) (xv_tx_off == __CPROVER_old(xv_tx_off) + (n) && \
    ((xv_k >= __CPROVER_old(xv_tx_off) && xv_k < __CPROVER_old(xv_tx_off) + (n)) \
        ? (xv_tx_k_set && xv_tx_k == XC_U8(buf)[xv_k - __CPROVER_old(xv_tx_off)]) \
        : (xv_tx_k == __CPROVER_old(xv_tx_k) && xv_tx_k_set == __CPROVER_old(xv_tx_k_set))))
#define XC_RETRY(e) ((e) == EAGAIN || (e) == EINPROGRESS)

#if defined(XC_NB)
#define XC_MODE(s) (!(s)->is_blocking)
#define XC_MAY_BLOCK(cond)                      /* C05: xv_blocked is assignable NOWHERE in a non-blocking job */
#elif defined(XC_BL)
#define XC_MODE(s) ((s)->is_blocking)
#define XC_MAY_BLOCK(cond) __CPROVER_assigns((cond): xv_blocked)
#else
#define XC_MODE(s) 1
#define XC_MAY_BLOCK(cond) __CPROVER_assigns((cond): xv_blocked)
#endif
/* what a blocking wait writes besides xv_blocked (harmless, also written by xcm_await on non-blocking sockets) */
#define XC_WAIT_FRAME(s) (s)->condition, xv_poll_failed, xv_updated, xv_upd_cond, xv_upd_sock
#define XC_SEND_FRAME xv_errno, xv_accepted, xv_acc_buf, xv_acc_len, xv_conn_dead, xv_tx_off, xv_tx_k, xv_tx_k_set
#define XC_RCV_FRAME xv_errno, xv_delivered, xv_rcv_rv, xv_rcv_buf, xv_rcv_cap, xv_conn_dead
#define XC_FIN_FRAME xv_errno, xv_conn_dead, xv_fin_sock, xv_fin_rv, xv_fin_errno

/* ================================================================================================================ */
/* part 1: OTHER MODULES, ASSUMED                                                                                   */
/* ================================================================================================================ */

/* ---- xcm_tp.c -> transport send.  Messaging: 0 = the message (buf, len) was accepted, whole, once; -1 = nothing was.
 * Byte stream: rv in 0..len (>= 1 for len > 0) = exactly buf[0..rv) was accepted; -1 = nothing was.  A dead connection
 * accepts nothing.  The caller must offer readable memory. */
int xcm_tp_socket_send(struct xcm_socket *__restrict s, const void *__restrict buf, size_t len)
__CPROVER_requires(s == xv_sock && XC_GHOST_RANGE_IN)
/* PO[C02] xcm_tp_socket_send.offers_own_buffer_only (precondition, checked at every call site) */
__CPROVER_requires(len == 0 || __CPROVER_r_ok(buf, len))
__CPROVER_assigns(XC_SEND_FRAME)
__CPROVER_ensures(XC_DEAD_MONO)
__CPROVER_ensures((__CPROVER_return_value == -1 && xv_errno > 0 && XC_ACC_SAME && XC_TX_SAME) || \
                  (!xv_bytestream && __CPROVER_return_value == 0 && !__CPROVER_old(xv_conn_dead) && XC_TX_SAME && \
                       xv_accepted == __CPROVER_old(xv_accepted) + 1 && xv_acc_buf == buf && xv_acc_len == len) || \
                  (xv_bytestream && __CPROVER_return_value >= 0 && (size_t)__CPROVER_return_value <= len && (len > 0 ==> __CPROVER_return_value >= 1) && \
                       !__CPROVER_old(xv_conn_dead) && XC_ACC_SAME && XC_TX_GREW(buf, __CPROVER_return_value)))
;

/* ---- transport receive: rv >= 0 = one delivery (a message or its leading `capacity` bytes / the next rv bytes of the
 * stream / 0 = end of stream) into (buf, capacity); -1 = nothing was consumed */
int xcm_tp_socket_receive(struct xcm_socket *__restrict s, void *__restrict buf, size_t capacity)
__CPROVER_requires(s == xv_sock && XC_GHOST_RANGE_IN)
__CPROVER_requires(capacity == 0 || __CPROVER_w_ok(buf, capacity))
__CPROVER_assigns(XC_RCV_FRAME)
__CPROVER_assigns(capacity > 0: __CPROVER_object_upto(buf, capacity))
__CPROVER_ensures(XC_DEAD_MONO)
__CPROVER_ensures((__CPROVER_return_value == -1 && xv_errno > 0 && XC_RCV_SAME) || \
                  (__CPROVER_return_value >= 0 && (size_t)__CPROVER_return_value <= capacity && xv_delivered == __CPROVER_old(xv_delivered) + 1 && \
                       xv_rcv_rv == __CPROVER_return_value && xv_rcv_buf == buf && xv_rcv_cap == capacity))
;

/* ---- transport finish: never accepts or delivers a message; a failure other than "try again" means the connection died */
int xcm_tp_socket_finish(struct xcm_socket *s)
__CPROVER_requires(1)
__CPROVER_assigns(XC_FIN_FRAME)
__CPROVER_ensures(XC_DEAD_MONO && xv_fin_sock == s && xv_fin_rv == __CPROVER_return_value && (__CPROVER_return_value == -1 ==> xv_fin_errno == xv_errno))
__CPROVER_ensures(__CPROVER_return_value == 0 || (__CPROVER_return_value == -1 && xv_errno > 0 && (!XC_RETRY(xv_errno) ==> xv_conn_dead)))
;

/* ---- transport update: records the socket and the condition it saw */
void xcm_tp_socket_update(struct xcm_socket *s)
__CPROVER_requires(__CPROVER_r_ok(s, sizeof(struct xcm_socket)))
__CPROVER_assigns(xv_updated, xv_upd_cond, xv_upd_sock)
__CPROVER_ensures(xv_updated && xv_upd_cond == s->condition && xv_upd_sock == s)
;

bool xcm_tp_socket_is_bytestream(struct xcm_socket *s)
__CPROVER_requires(1)
__CPROVER_assigns()
__CPROVER_ensures(s == xv_sock ==> __CPROVER_return_value == xv_bytestream)
;

/* ---- xpoll.c: the socket's one descriptor; errno untouched */
int xpoll_get_fd(struct xpoll *xpoll)
__CPROVER_requires(1)
__CPROVER_assigns(xv_fd_ret)
__CPROVER_ensures(__CPROVER_return_value >= 0 && xv_fd_ret == __CPROVER_return_value)
;

/* ================================================================================================================ */
/* part 2: libxcm/core/xcm.c                                                                                        */
/* ================================================================================================================ */
#define XC_SOCK(s) (__CPROVER_is_fresh((s), sizeof(struct xcm_socket)) && (s) == xv_sock)

/* ---- socket_wait: THE blocking primitive of the API layer: sets the condition, lets the transport see it, sleeps in
 * poll(-1) on the socket's descriptor.  0 = something happened; -1 = poll failed (EINTR ...), errno says why */
static int socket_wait(struct xcm_socket *conn_s, int condition)
__CPROVER_requires(__CPROVER_is_fresh(conn_s, sizeof(struct xcm_socket)))
__CPROVER_assigns(xv_errno, xv_blocked, xv_fd_ret, XC_WAIT_FRAME(conn_s))
__CPROVER_ensures(__CPROVER_return_value == 0 || __CPROVER_return_value == -1)
__CPROVER_ensures(xv_blocked && conn_s->condition == condition && xv_updated && xv_upd_cond == condition && xv_upd_sock == conn_s)
__CPROVER_ensures(__CPROVER_return_value == -1 ==> (xv_poll_failed && xv_errno > 0 && !XC_RETRY(xv_errno)))
__CPROVER_ensures(__CPROVER_return_value == 0 ==> (xv_poll_failed == __CPROVER_old(xv_poll_failed) && xv_errno == __CPROVER_old(xv_errno)))
;

/* ---- socket_finish: blocking flush: repeats the transport's finish while it says "try again", sleeping in between.
 * Accepts and delivers nothing.  -1 = the wait was interrupted or the connection died */
static int socket_finish(struct xcm_socket *s)
__CPROVER_requires(__CPROVER_is_fresh(s, sizeof(struct xcm_socket)) && !xv_poll_failed)
__CPROVER_assigns(XC_FIN_FRAME, xv_blocked, xv_fd_ret, XC_WAIT_FRAME(s))
__CPROVER_ensures(__CPROVER_return_value == 0 || __CPROVER_return_value == -1)
__CPROVER_ensures(XC_DEAD_MONO && xv_fin_sock == s)
__CPROVER_ensures(__CPROVER_return_value == 0 ==> (!xv_poll_failed && xv_fin_rv == 0))
__CPROVER_ensures(__CPROVER_return_value == -1 ==> (xv_errno > 0 && (xv_poll_failed || (xv_conn_dead && xv_fin_rv == -1 && !XC_RETRY(xv_errno)))))
;

/* ---- msg_bsend: blocking send of one message: repeats the transport's send while it says EAGAIN */
static int msg_bsend(struct xcm_socket *conn_s, const void *buf, size_t len)
__CPROVER_requires(XC_SOCK(conn_s) && !xv_bytestream && !xv_poll_failed && XC_GHOST_RANGE)
__CPROVER_requires(len <= XC_LEN_MAX && XC_BUF(buf, len))
__CPROVER_assigns(XC_SEND_FRAME, xv_blocked, xv_fd_ret, XC_WAIT_FRAME(conn_s))
__CPROVER_ensures(__CPROVER_return_value == 0 || __CPROVER_return_value == -1)
__CPROVER_ensures(XC_DEAD_MONO && XC_TX_SAME)
/* PO[C01,C03] msg_bsend.accepted_once_iff_success: for every EAGAIN/wait pattern */
__CPROVER_ensures(__CPROVER_return_value == 0 ? (xv_accepted == __CPROVER_old(xv_accepted) + 1 && xv_acc_buf == buf && xv_acc_len == len && !xv_poll_failed) : XC_ACC_SAME)
/* PO[C01] msg_bsend.retries_eagain: a blocking send never reports "try again" */
__CPROVER_ensures(__CPROVER_return_value == -1 ==> (xv_errno > 0 && xv_errno != EAGAIN))
;

/* ---- bytestream_bsend: blocking send on a byte stream: offers the rest of the buffer until everything is accepted */
static int bytestream_bsend(struct xcm_socket *conn_s, const void *buf, size_t len)
__CPROVER_requires(XC_SOCK(conn_s) && xv_bytestream && !xv_poll_failed && XC_GHOST_RANGE)
__CPROVER_requires(len >= XC_LEN_MIN && len <= XC_LEN_MAX && XC_BUF(buf, len))
__CPROVER_assigns(XC_SEND_FRAME, xv_blocked, xv_fd_ret, XC_WAIT_FRAME(conn_s))
__CPROVER_ensures(__CPROVER_return_value >= -1)
__CPROVER_ensures(XC_DEAD_MONO && XC_ACC_SAME)
/* PO[C02] bytestream_bsend.stream_grows_by_a_prefix: whatever is reported, what the transport accepted in this call is buf[0..n) for some n <= len, in order */
__CPROVER_ensures(xv_tx_off >= __CPROVER_old(xv_tx_off) && xv_tx_off - __CPROVER_old(xv_tx_off) <= (long)len && \
                  XC_TX_GREW(buf, xv_tx_off - __CPROVER_old(xv_tx_off)))
/* PO[C02] bytestream_bsend.reports_what_was_accepted: rv >= 0 => exactly buf[0..rv) was accepted -- and a blocking send takes everything */
__CPROVER_ensures(__CPROVER_return_value >= 0 ==> (xv_tx_off == __CPROVER_old(xv_tx_off) + __CPROVER_return_value && (size_t)__CPROVER_return_value == len && !xv_poll_failed))
/* PO[C02] bytestream_bsend.failure_accepted_nothing: rv == -1 => no byte of this call's buffer was accepted */
__CPROVER_ensures(__CPROVER_return_value == -1 ==> (xv_errno > 0 && XC_TX_SAME))
;

/* ---- xcm_send */
int xcm_send(struct xcm_socket *__restrict conn_s, const void *__restrict buf, size_t len)
__CPROVER_requires(XC_SOCK(conn_s) && XC_MODE(conn_s) && !xv_poll_failed && XC_GHOST_RANGE)
#ifdef XC_KIND
__CPROVER_requires(xv_bytestream == XC_KIND)
#endif
__CPROVER_requires(len <= XC_LEN_MAX && XC_BUF(buf, len))
__CPROVER_assigns(XC_SEND_FRAME, XC_FIN_FRAME, xv_fd_ret, XC_WAIT_FRAME(conn_s))
XC_MAY_BLOCK(conn_s->is_blocking)
__CPROVER_ensures(__CPROVER_return_value >= -1 && XC_DEAD_MONO)
__CPROVER_ensures(conn_s->type != xcm_socket_type_conn ==> (__CPROVER_return_value == -1 && xv_errno == EINVAL && XC_ACC_SAME && XC_TX_SAME))
__CPROVER_ensures(xv_bytestream ? XC_ACC_SAME : XC_TX_SAME)
/* PO[C01,C03] xcm_send.success_is_one_acceptance: messaging: rv 0 <=> the transport accepted (buf, len), once */
__CPROVER_ensures(!xv_bytestream ==> ((__CPROVER_return_value == 0 || __CPROVER_return_value == -1) && \
                  (__CPROVER_return_value == 0 ==> (xv_accepted == __CPROVER_old(xv_accepted) + 1 && xv_acc_buf == buf && xv_acc_len == len))))
/* PO[C03] xcm_send.never_twice: whatever is reported, the message was accepted at most once */
__CPROVER_ensures(!xv_bytestream ==> (XC_ACC_SAME || (xv_accepted == __CPROVER_old(xv_accepted) + 1 && xv_acc_buf == buf && xv_acc_len == len)))
/* PO[C03] xcm_send.failure_leaves_no_trace: messaging: rv -1 => the message was not accepted (or the connection is dead: it will never be delivered) */
__CPROVER_ensures((!xv_bytestream && __CPROVER_return_value == -1) ==> (xv_errno > 0 && (XC_ACC_SAME || xv_conn_dead)))
/* PO[C02] xcm_send.reports_what_was_accepted: byte stream: rv >= 0 => exactly buf[0..rv) was accepted; 1..len for len > 0 */
__CPROVER_ensures((xv_bytestream && __CPROVER_return_value >= 0) ==> ((size_t)__CPROVER_return_value <= len && (len > 0 ==> __CPROVER_return_value >= 1) && \
                  XC_TX_GREW(buf, __CPROVER_return_value)))
/* PO[C02] xcm_send.failure_accepted_nothing: byte stream: rv -1 => no byte of this call's buffer was accepted */
__CPROVER_ensures((xv_bytestream && __CPROVER_return_value == -1) ==> (xv_errno > 0 && XC_TX_SAME))
/* PO[C02] xcm_send.blocking_takes_everything */
__CPROVER_ensures((xv_bytestream && __CPROVER_old(conn_s->is_blocking) && __CPROVER_return_value >= 0) ==> (size_t)__CPROVER_return_value == len)
;

/* ---- xcm_receive */
int xcm_receive(struct xcm_socket *__restrict conn_s, void *__restrict buf, size_t capacity)
__CPROVER_requires(XC_SOCK(conn_s) && XC_MODE(conn_s) && !xv_poll_failed && XC_GHOST_RANGE)
__CPROVER_requires(capacity <= XC_LEN_MAX && XC_BUF(buf, capacity))
__CPROVER_assigns(XC_RCV_FRAME, xv_fd_ret, XC_WAIT_FRAME(conn_s))
__CPROVER_assigns(capacity > 0: __CPROVER_object_upto(buf, capacity))
XC_MAY_BLOCK(conn_s->is_blocking)
__CPROVER_ensures(__CPROVER_return_value >= -1 && XC_DEAD_MONO)
__CPROVER_ensures(conn_s->type != xcm_socket_type_conn ==> (__CPROVER_return_value == -1 && xv_errno == EINVAL && XC_RCV_SAME))
/* PO[C01,C02] xcm_receive.one_delivery: rv >= 0 is the result of exactly ONE successful transport receive into exactly (buf, capacity) */
__CPROVER_ensures(__CPROVER_return_value >= 0 ==> (xv_delivered == __CPROVER_old(xv_delivered) + 1 && xv_rcv_rv == __CPROVER_return_value && \
                  xv_rcv_buf == buf && xv_rcv_cap == capacity))
/* PO[C01,C02] xcm_receive.failure_consumed_nothing: rv -1 => nothing was taken from the transport (no message dropped) */
__CPROVER_ensures(__CPROVER_return_value == -1 ==> (xv_errno > 0 && XC_RCV_SAME))
/* PO[C02] xcm_receive.never_more_than_capacity */
__CPROVER_ensures(__CPROVER_return_value >= 0 ==> (size_t)__CPROVER_return_value <= capacity)
/* PO[C01] xcm_receive.blocking_retries_eagain: a blocking receive loops on EAGAIN and only on EAGAIN */
__CPROVER_ensures((__CPROVER_old(conn_s->is_blocking) && __CPROVER_return_value == -1) ==> xv_errno != EAGAIN)
;

#include "contracts/end.h"
#endif
