/* contracts/xcmcore.h -- libxcm/core/xcm.c: the public API layer over the transport operations.
 *
 * Serves C05 (a non-blocking socket never sleeps: xv_blocked is in no assigns clause reachable with !s->is_blocking),
 * C03/C01 (xcm_send/msg_bsend accept a message exactly once iff they report success; xcm_receive hands out the result of
 * exactly one successful transport receive), C02 (bytestream_bsend: exactly the reported prefix is accepted),
 * C11 (set_attrs: defaults, then the map, creation aborted on the first failure), C10 (attr_get_with_type).
 *
 * The layer below (libxcm/tp/common/xcm_tp.c dispatching into a transport through a table of function pointers),
 * xpoll.c, attr_tree.c and xcm_attr_map.c are OTHER MODULES: cut by the contracts of part 1, ASSUMED here.  The transport
 * contracts are the API-level view of what units framing / ux / btcp enforce on tcp_send, ux_send, btcp_send ...
 * The kernel is poll(2) only (env/xcmcore_env.h, TRUSTED).
 *
 * Modes (a -D of the job): XC_NB  the socket is non-blocking (C05 jobs: XC_MAY_BLOCK expands to NOTHING, so xv_blocked
 *                                 is assignable nowhere);
 *                          XC_BL  the socket is blocking;
 *                          none   both.
 * Attached to the REAL functions by redeclaration after the TU has been #included.
 * Included TWICE by harness/xcmcore/_unit.h: before the TU (ghost globals only -- the loop contracts spliced into the TU
 * name them) and, with XC_CONTRACTS defined, after it (the contracts).
 */
#ifndef XV_XCMCORE_GHOST_H
#define XV_XCMCORE_GHOST_H
struct xcm_socket; struct xpoll;
/* ================================================================================================================ */
/* ghost state of the unit (havocked by xv_xcmcore_havoc() at the start of every harness)                            */
/* ================================================================================================================ */
struct xcm_socket *xv_sock;     /* never assigned: the socket the API call under proof operates on                   */
_Bool xv_bytestream;            /* never assigned: that socket's transport is a byte stream (btcp, btls)             */
/* messaging, send side: what the transport has ACCEPTED (its send returned 0) */
long xv_accepted;               /* number of messages accepted so far                                                */
const void *xv_acc_buf;         /* (buf, len) of the message accepted last                                           */
size_t xv_acc_len;
/* byte streams, send side: prelude's xv_tx_off / xv_tx_k / xv_tx_k_set (bytes accepted so far, byte at offset xv_k) */
/* receive side: successful (rv >= 0) transport receives */
long xv_delivered;              /* number of them so far                                                             */
int xv_rcv_rv;                  /* result, buffer and capacity of the last one                                       */
void *xv_rcv_buf;
size_t xv_rcv_cap;
/* the connection is dead: the transport will neither accept nor deliver anything any more (set by the transport only,
 * absorbing; proved absorbing for the real transports under C06) */
_Bool xv_conn_dead;
/* last xcm_tp_socket_finish / xcm_tp_socket_update */
struct xcm_socket *xv_fin_sock; int xv_fin_rv; int xv_fin_errno;
_Bool xv_updated; int xv_upd_cond; struct xcm_socket *xv_upd_sock;
/* lifecycle: sockets handed to close/cleanup/destroy, xpoll instances destroyed */
struct xcm_socket *xv_closed_sock, *xv_cleaned_sock, *xv_destroyed_sock; struct xpoll *xv_destroyed_xpoll;
int xv_fd_ret;                  /* what xpoll_get_fd returned last */

/* attributes */
_Bool xv_attrs_req_block;       /* never assigned: the attribute write(s) of this call ask for BLOCKING mode (xcm.blocking = true);
                                   that is the caller's request to block (DESIGN C05, exception) */
_Bool xv_mode_after_attrs;      /* never assigned (prophecy): the mode set_attrs will leave the new socket in */
long xv_set_calls;              /* attribute writes handed to the attribute tree so far */
_Bool xv_set_failed;            /* ... one of them has failed (sticky) */
const char *xv_set_name; int xv_set_type; const void *xv_set_value; size_t xv_set_len; struct xcm_socket *xv_set_sock; int xv_set_rv;
const char *xv_set_first_name;  /* name of write number 0 */
long xv_get_calls; const char *xv_get_name; void *xv_get_value; size_t xv_get_cap; struct xcm_socket *xv_get_sock; int xv_get_rv; int xv_get_errno;
int xv_get_type;                /* type the attribute tree reported */
/* write number xv_j (prelude's ghost index, never assigned) of this call, as xcm_attr_set saw it */
const char *xv_at_name; int xv_at_type; const void *xv_at_value; size_t xv_at_len; struct xcm_socket *xv_at_sock;
/* the attribute map as xcm_attr_map_foreach presents it (stub in env/xcmcore_env.h): xv_map_n entries (never assigned, any number);
 * entry number xv_j - <writes made before the iteration started> is recorded when the iteration gets there */
long xv_map_n; const char *xv_map_name; int xv_map_type; const void *xv_map_value; size_t xv_map_len;
_Bool xv_map_has_service;       /* never assigned: the map has an entry "xcm.service" */
struct xcm_socket *xv_attrs_sock; int xv_attrs_rv;   /* last set_attrs: socket and result */
struct xcm_socket *xv_created_sock; struct xcm_socket *xv_inited_sock, *xv_connected_sock, *xv_accepted_sock;
_Bool xv_poll_failed;           /* a poll() call has failed (set by the poll stub of env/xcmcore_env.h, never cleared) */
#endif

#if defined(XC_CONTRACTS) && !defined(XV_XCMCORE_H)
#define XV_XCMCORE_H
#include "contracts/begin.h"

#define XC_U8(p) ((const uint8_t *)(p))
#define XC_CNT_MAX (1L << 60)
/* buffers above these sizes are not explored (is_fresh needs a bound): default 2^31-1 = everything an int can report */
#ifndef XC_LEN_MAX
#define XC_LEN_MAX 0x7fffffffUL
#endif
#ifndef XC_LEN_MIN
#define XC_LEN_MIN 0UL
#endif
#define XC_SLACK (1L << 41)
#define XC_BUF(p, n) __CPROVER_is_fresh((p), (n) == 0 ? 1 : (n))

/* ranges of the ghost counters: on entry of an API call / of a helper or the transport in mid-call / on any exit */
#define XC_GHOST_LIM(lim) (xv_accepted >= 0 && xv_accepted < XC_CNT_MAX + (lim) && xv_delivered >= 0 && xv_delivered < XC_CNT_MAX + (lim) && \
                           xv_tx_off >= 0 && xv_tx_off < XV_OFF_MAX + (lim) && xv_k >= 0 && xv_k < 2 * XV_OFF_MAX)
#define XC_GHOST_RANGE XC_GHOST_LIM(0)
#define XC_GHOST_RANGE_IN XC_GHOST_LIM(XC_SLACK)

#define XC_ACC_SAME (xv_accepted == __CPROVER_old(xv_accepted) && xv_acc_buf == __CPROVER_old(xv_acc_buf) && xv_acc_len == __CPROVER_old(xv_acc_len))
#define XC_TX_SAME (xv_tx_off == __CPROVER_old(xv_tx_off) && xv_tx_k == __CPROVER_old(xv_tx_k) && xv_tx_k_set == __CPROVER_old(xv_tx_k_set))
#define XC_RCV_SAME (xv_delivered == __CPROVER_old(xv_delivered) && xv_rcv_rv == __CPROVER_old(xv_rcv_rv) && xv_rcv_buf == __CPROVER_old(xv_rcv_buf) && \
                     xv_rcv_cap == __CPROVER_old(xv_rcv_cap))
#define XC_DEAD_MONO (__CPROVER_old(xv_conn_dead) ==> xv_conn_dead)
/* the stream grew by exactly buf[0..n): the byte at the ghost offset xv_k is the right one (any xv_k: all of them) */
#define XC_TX_GREW(buf, n) (xv_tx_off == __CPROVER_old(xv_tx_off) + (n) && \
    ((xv_k >= __CPROVER_old(xv_tx_off) && xv_k < __CPROVER_old(xv_tx_off) + (n)) \
        ? (xv_tx_k_set && xv_tx_k == XC_U8(buf)[xv_k - __CPROVER_old(xv_tx_off)]) \
        : (xv_tx_k == __CPROVER_old(xv_tx_k) && xv_tx_k_set == __CPROVER_old(xv_tx_k_set))))
#define XC_RETRY(e) ((e) == EAGAIN || (e) == EINPROGRESS)

#if defined(XC_NB)
#define XC_MODE(s) (!(s)->is_blocking)
#define XC_MAY_BLOCK(cond)                      /* C05: xv_blocked is assignable NOWHERE in a non-blocking job */
#elif defined(XC_BL)
#define XC_MODE(s) ((s)->is_blocking)
#define XC_MAY_BLOCK(cond) __CPROVER_assigns((cond): xv_blocked)
#else
#define XC_MODE(s) 1
#define XC_MAY_BLOCK(cond) __CPROVER_assigns((cond): xv_blocked)
#endif
/* what a blocking wait writes besides xv_blocked (harmless, also written by xcm_await on non-blocking sockets) */
#define XC_WAIT_FRAME(s) (s)->condition, xv_poll_failed, xv_updated, xv_upd_cond, xv_upd_sock
#define XC_SEND_FRAME xv_errno, xv_accepted, xv_acc_buf, xv_acc_len, xv_conn_dead, xv_tx_off, xv_tx_k, xv_tx_k_set
#define XC_RCV_FRAME xv_errno, xv_delivered, xv_rcv_rv, xv_rcv_buf, xv_rcv_cap, xv_conn_dead
#define XC_FIN_FRAME xv_errno, xv_conn_dead, xv_fin_sock, xv_fin_rv, xv_fin_errno

/* ================================================================================================================ */
/* part 1: OTHER MODULES, ASSUMED                                                                                   */
/* ================================================================================================================ */

/* ---- xcm_tp.c -> transport send.  Messaging: 0 = the message (buf, len) was accepted, whole, once; -1 = nothing was.
 * Byte stream: rv in 0..len (>= 1 for len > 0) = exactly buf[0..rv) was accepted; -1 = nothing was.  A dead connection
 * accepts nothing.  The caller must offer readable memory. */
int xcm_tp_socket_send(struct xcm_socket *__restrict s, const void *__restrict buf, size_t len)
__CPROVER_requires(s == xv_sock && XC_GHOST_RANGE_IN)
/* PO[C02] xcm_tp_socket_send.offers_own_buffer_only (precondition, checked at every call site) */
__CPROVER_requires(len == 0 || __CPROVER_r_ok(buf, len))
__CPROVER_assigns(XC_SEND_FRAME)
__CPROVER_ensures(XC_DEAD_MONO)
__CPROVER_ensures((__CPROVER_return_value == -1 && xv_errno > 0 && XC_ACC_SAME && XC_TX_SAME) || \
                  (!xv_bytestream && __CPROVER_return_value == 0 && !__CPROVER_old(xv_conn_dead) && XC_TX_SAME && \
                       xv_accepted == __CPROVER_old(xv_accepted) + 1 && xv_acc_buf == buf && xv_acc_len == len) || \
                  (xv_bytestream && __CPROVER_return_value >= 0 && (size_t)__CPROVER_return_value <= len && (len > 0 ==> __CPROVER_return_value >= 1) && \
                       !__CPROVER_old(xv_conn_dead) && XC_ACC_SAME && XC_TX_GREW(buf, __CPROVER_return_value)))
;

/* ---- transport receive: rv >= 0 = one delivery (a message or its leading `capacity` bytes / the next rv bytes of the
 * stream / 0 = end of stream) into (buf, capacity); -1 = nothing was consumed */
int xcm_tp_socket_receive(struct xcm_socket *__restrict s, void *__restrict buf, size_t capacity)
__CPROVER_requires(s == xv_sock && XC_GHOST_RANGE_IN)
__CPROVER_requires(capacity == 0 || __CPROVER_w_ok(buf, capacity))
__CPROVER_assigns(XC_RCV_FRAME)
__CPROVER_assigns(capacity > 0: __CPROVER_object_upto(buf, capacity))
__CPROVER_ensures(XC_DEAD_MONO)
__CPROVER_ensures((__CPROVER_return_value == -1 && xv_errno > 0 && XC_RCV_SAME) || \
                  (__CPROVER_return_value >= 0 && (size_t)__CPROVER_return_value <= capacity && xv_delivered == __CPROVER_old(xv_delivered) + 1 && \
                       xv_rcv_rv == __CPROVER_return_value && xv_rcv_buf == buf && xv_rcv_cap == capacity))
;

/* ---- transport finish: never accepts or delivers a message; a failure other than "try again" means the connection died */
int xcm_tp_socket_finish(struct xcm_socket *s)
__CPROVER_requires(1)
__CPROVER_assigns(XC_FIN_FRAME)
__CPROVER_ensures(XC_DEAD_MONO && xv_fin_sock == s && xv_fin_rv == __CPROVER_return_value && (__CPROVER_return_value == -1 ==> xv_fin_errno == xv_errno))
__CPROVER_ensures(__CPROVER_return_value == 0 || (__CPROVER_return_value == -1 && xv_errno > 0 && (!XC_RETRY(xv_errno) ==> xv_conn_dead)))
;

/* ---- transport update: records the socket and the condition it saw */
void xcm_tp_socket_update(struct xcm_socket *s)
__CPROVER_requires(__CPROVER_r_ok(s, sizeof(struct xcm_socket)))
__CPROVER_assigns(xv_updated, xv_upd_cond, xv_upd_sock)
__CPROVER_ensures(xv_updated && xv_upd_cond == s->condition && xv_upd_sock == s)
;

bool xcm_tp_socket_is_bytestream(struct xcm_socket *s)
__CPROVER_requires(1)
__CPROVER_assigns()
__CPROVER_ensures(s == xv_sock ==> __CPROVER_return_value == xv_bytestream)
;

/* ---- xpoll.c: the socket's one descriptor; errno untouched */
int xpoll_get_fd(struct xpoll *xpoll)
__CPROVER_requires(1)
__CPROVER_assigns(xv_fd_ret)
__CPROVER_ensures(__CPROVER_return_value >= 0 && xv_fd_ret == __CPROVER_return_value)
;

/* ---- xcm_tp.c: socket objects.  create never fails (allocation failure aborts); the new object is the caller's */
struct xcm_socket *xcm_tp_socket_create(const struct xcm_tp_proto *proto, enum xcm_socket_type type, struct xpoll *xpoll,
                                        bool enable_ctl, bool auto_update, bool is_blocking)
__CPROVER_requires(1)
__CPROVER_assigns(xv_created_sock)
__CPROVER_ensures(__CPROVER_is_fresh(__CPROVER_return_value, sizeof(struct xcm_socket)) && xv_created_sock == __CPROVER_return_value)
__CPROVER_ensures(__CPROVER_return_value->proto == proto && __CPROVER_return_value->type == type && __CPROVER_return_value->xpoll == xpoll && \
                  __CPROVER_return_value->is_blocking == is_blocking && __CPROVER_return_value->condition == 0)
;
void xcm_tp_socket_destroy(struct xcm_socket *s)
__CPROVER_requires(s != NULL)
__CPROVER_assigns(xv_destroyed_sock)
__CPROVER_frees(s)
__CPROVER_ensures(xv_destroyed_sock == s)
;
#define XC_RV_OR_ERRNO (__CPROVER_return_value == 0 || (__CPROVER_return_value == -1 && xv_errno > 0))
int xcm_tp_socket_init(struct xcm_socket *s, struct xcm_socket *parent)
__CPROVER_requires(__CPROVER_r_ok(s, sizeof(struct xcm_socket)))
__CPROVER_assigns(xv_errno, xv_inited_sock)
__CPROVER_ensures(XC_RV_OR_ERRNO && xv_inited_sock == s)
;
/* connect/server/accept of a transport never sleep whatever the mode (enforced in units ux, btcp ...: suspected F20) */
int xcm_tp_socket_connect(struct xcm_socket *s, const char *remote_addr)
__CPROVER_requires(__CPROVER_r_ok(s, sizeof(struct xcm_socket)))
/* PO[C11] xcm_tp_socket_connect.after_init_and_attributes (precondition: the attributes were applied, successfully, before connect proper) */
__CPROVER_requires(xv_inited_sock == s && xv_attrs_sock == s && xv_attrs_rv == 0)
__CPROVER_assigns(xv_errno, xv_connected_sock, xv_conn_dead, xv_updated, xv_upd_cond, xv_upd_sock)
__CPROVER_ensures(XC_RV_OR_ERRNO && xv_connected_sock == s)
;
int xcm_tp_socket_server(struct xcm_socket *s, const char *local_addr)
__CPROVER_requires(__CPROVER_r_ok(s, sizeof(struct xcm_socket)))
/* PO[C11] xcm_tp_socket_server.after_init_and_attributes */
__CPROVER_requires(xv_inited_sock == s && xv_attrs_sock == s && xv_attrs_rv == 0)
__CPROVER_assigns(xv_errno, xv_connected_sock, xv_updated, xv_upd_cond, xv_upd_sock)
__CPROVER_ensures(XC_RV_OR_ERRNO && xv_connected_sock == s)
;
int xcm_tp_socket_accept(struct xcm_socket *conn_s, struct xcm_socket *server_s)
__CPROVER_requires(__CPROVER_r_ok(conn_s, sizeof(struct xcm_socket)) && __CPROVER_r_ok(server_s, sizeof(struct xcm_socket)))
/* PO[C11] xcm_tp_socket_accept.after_init_and_attributes */
__CPROVER_requires(xv_inited_sock == conn_s && xv_attrs_sock == conn_s && xv_attrs_rv == 0)
__CPROVER_assigns(xv_errno, xv_accepted_sock, xv_updated, xv_upd_cond, xv_upd_sock)
__CPROVER_ensures(XC_RV_OR_ERRNO && xv_accepted_sock == conn_s)
;
void xcm_tp_socket_close(struct xcm_socket *s)
__CPROVER_requires(1)
__CPROVER_assigns(xv_closed_sock)
__CPROVER_ensures(xv_closed_sock == s)
;
void xcm_tp_socket_cleanup(struct xcm_socket *s)
__CPROVER_requires(1)
__CPROVER_assigns(xv_cleaned_sock)
__CPROVER_ensures(xv_cleaned_sock == s)
;
const char *xcm_tp_socket_get_remote_addr(struct xcm_socket *conn_s, bool suppress_tracing)
__CPROVER_requires(1)
__CPROVER_assigns(xv_errno)
__CPROVER_ensures(1)
;
const char *xcm_tp_socket_get_local_addr(struct xcm_socket *s, bool suppress_tracing)
__CPROVER_requires(1)
__CPROVER_assigns(xv_errno)
__CPROVER_ensures(1)
;
struct xcm_tp_proto *xcm_tp_proto_by_addr(const char *addr)
__CPROVER_requires(1)
__CPROVER_assigns(xv_errno)
__CPROVER_ensures(__CPROVER_return_value == NULL ==> xv_errno > 0)
;
void xcm_tp_common_attr_populate(struct xcm_socket *s, struct attr_tree *attr_tree)
__CPROVER_requires(1)
__CPROVER_assigns()
__CPROVER_ensures(1)
;
void xcm_tp_socket_attr_populate(struct xcm_socket *s, struct attr_tree *attr_tree)
__CPROVER_requires(1)
__CPROVER_assigns()
__CPROVER_ensures(1)
;

/* ---- xpoll.c */
struct xpoll *xpoll_create(void *log_ref)
__CPROVER_requires(1)
__CPROVER_assigns(xv_errno)
__CPROVER_ensures(__CPROVER_return_value == NULL ==> xv_errno > 0)
;
void xpoll_destroy(struct xpoll *xpoll)
__CPROVER_requires(1)
__CPROVER_assigns(xv_destroyed_xpoll)
__CPROVER_ensures(xv_destroyed_xpoll == xpoll)
;

/* ---- attr_tree.c: the per-call attribute tree is an opaque object here.  A write runs the attribute's setter on the
 * socket (log_ref): it may change the socket's mode (xcm.blocking, set_blocking_attr == xcm_set_blocking) and sleeps
 * only if that is what the caller asks for (xv_attrs_req_block).  A read hands (value, capacity) to the getter, which
 * stays inside it (enforced in units tcpattr ...) */
struct attr_tree *attr_tree_create(void)
__CPROVER_requires(1)
__CPROVER_assigns()
__CPROVER_ensures(__CPROVER_return_value != NULL)
;
void attr_tree_destroy(struct attr_tree *tree)
__CPROVER_requires(tree != NULL)
__CPROVER_assigns()
__CPROVER_ensures(1)
;
#define XC_CNT_OK(c) ((c) >= 0 && (c) < XC_CNT_MAX + XC_SLACK)
/* write number xv_j (ghost index) is remembered */
#define XC_AT_RECORD(name, type, value, len, s) (__CPROVER_old(xv_set_calls) == xv_j \
        ? (xv_at_name == (name) && xv_at_type == (int)(type) && xv_at_value == (value) && xv_at_len == (len) && xv_at_sock == (s)) \
        : (xv_at_name == __CPROVER_old(xv_at_name) && xv_at_type == __CPROVER_old(xv_at_type) && xv_at_value == __CPROVER_old(xv_at_value) && \
           xv_at_len == __CPROVER_old(xv_at_len) && xv_at_sock == __CPROVER_old(xv_at_sock)))
int attr_tree_set_value(struct attr_tree *tree, const char *path, enum xcm_attr_type type, const void *value, size_t len, void *log_ref)
__CPROVER_requires(tree != NULL && XC_CNT_OK(xv_set_calls) && __CPROVER_rw_ok((struct xcm_socket *)log_ref, sizeof(struct xcm_socket)))
__CPROVER_assigns(xv_errno, xv_set_calls, xv_set_failed, xv_set_name, xv_set_type, xv_set_value, xv_set_len, xv_set_sock, xv_set_rv, xv_set_first_name)
__CPROVER_assigns(xv_at_name, xv_at_type, xv_at_value, xv_at_len, xv_at_sock)
__CPROVER_assigns(((struct xcm_socket *)log_ref)->is_blocking, ((struct xcm_socket *)log_ref)->condition, xv_conn_dead, xv_updated, xv_upd_cond, xv_upd_sock)
XC_MAY_BLOCK(xv_attrs_req_block)
__CPROVER_ensures(XC_RV_OR_ERRNO && XC_DEAD_MONO)
__CPROVER_ensures(xv_set_calls == __CPROVER_old(xv_set_calls) + 1 && xv_set_name == path && xv_set_type == (int)type && xv_set_value == value && xv_set_len == len && \
                  xv_set_sock == (struct xcm_socket *)log_ref && xv_set_rv == __CPROVER_return_value)
__CPROVER_ensures(xv_set_failed == (__CPROVER_old(xv_set_failed) || __CPROVER_return_value == -1))
__CPROVER_ensures(xv_set_first_name == (__CPROVER_old(xv_set_calls) == 0 ? path : __CPROVER_old(xv_set_first_name)))
__CPROVER_ensures(XC_AT_RECORD(path, type, value, len, (struct xcm_socket *)log_ref))
;
int attr_tree_get_value(struct attr_tree *tree, const char *path, enum xcm_attr_type *type, void *value, size_t capacity, void *log_ref)
__CPROVER_requires(tree != NULL && XC_CNT_OK(xv_get_calls) && __CPROVER_w_ok(type, sizeof(*type)))
/* PO[C10] attr_tree_get_value.buffer_is_the_callers (precondition, checked at every call site) */
__CPROVER_requires(capacity == 0 || __CPROVER_w_ok(value, capacity))
__CPROVER_assigns(xv_errno, xv_get_calls, xv_get_name, xv_get_value, xv_get_cap, xv_get_sock, xv_get_rv, xv_get_errno, xv_get_type, *type)
__CPROVER_assigns(capacity > 0: __CPROVER_object_upto(value, capacity))
__CPROVER_ensures(xv_get_calls == __CPROVER_old(xv_get_calls) + 1 && xv_get_name == path && xv_get_value == value && xv_get_cap == capacity && \
                  xv_get_sock == (struct xcm_socket *)log_ref && xv_get_rv == __CPROVER_return_value)
__CPROVER_ensures((__CPROVER_return_value == -1 && xv_errno > 0 && xv_get_errno == xv_errno) || \
                  (__CPROVER_return_value >= 0 && (size_t)__CPROVER_return_value <= capacity && xv_get_type == (int)*type))
;
int attr_tree_get_list_len(struct attr_tree *tree, const char *path, void *log_ref)
__CPROVER_requires(tree != NULL)
__CPROVER_assigns(xv_errno)
__CPROVER_ensures(__CPROVER_return_value >= 0 || (__CPROVER_return_value == -1 && xv_errno > 0))
;
/* the callback is the application's: what it does is not XCM's doing */
void attr_tree_get_all(struct attr_tree *tree, xcm_attr_cb cb, void *cb_data)
__CPROVER_requires(tree != NULL)
__CPROVER_assigns()
__CPROVER_ensures(1)
;

/* ---- util.c: formats the attribute name into a new heap string (aborts on failure) */
#define XC_NAME_MAX 8
char *ut_vasprintf(const char *fmt, va_list ap)
__CPROVER_requires(1)
__CPROVER_assigns()
__CPROVER_ensures(__CPROVER_is_fresh(__CPROVER_return_value, XC_NAME_MAX) && __CPROVER_return_value[XC_NAME_MAX - 1] == 0)
;

/* ---- xcm_attr_map.c (opaque) */
struct xcm_attr_map *xcm_attr_map_create(void)
__CPROVER_requires(1)
__CPROVER_assigns()
__CPROVER_ensures(__CPROVER_return_value != NULL)
;
void xcm_attr_map_add_bool(struct xcm_attr_map *attr_map, const char *attr_name, bool attr_value)
__CPROVER_requires(attr_map != NULL)
__CPROVER_assigns()
__CPROVER_ensures(1)
;
void xcm_attr_map_destroy(struct xcm_attr_map *attr_map)
__CPROVER_requires(1)
__CPROVER_assigns()
__CPROVER_ensures(1)
;
#define XC_IS_SERVICE(n) ((n)[0] == 'x' && (n)[1] == 'c' && (n)[2] == 'm' && (n)[3] == '.' && (n)[4] == 's' && (n)[5] == 'e' && (n)[6] == 'r' && (n)[7] == 'v' && \
                          (n)[8] == 'i' && (n)[9] == 'c' && (n)[10] == 'e' && (n)[11] == 0)
bool xcm_attr_map_exists(const struct xcm_attr_map *attr_map, const char *attr_name)
__CPROVER_requires(attr_map != NULL)
__CPROVER_assigns()
__CPROVER_ensures(XC_IS_SERVICE(attr_name) ==> __CPROVER_return_value == xv_map_has_service)
;

/* ================================================================================================================ */
/* part 2: libxcm/core/xcm.c                                                                                        */
/* ================================================================================================================ */
#define XC_SOCK(s) (__CPROVER_is_fresh((s), sizeof(struct xcm_socket)) && (s) == xv_sock)

/* ---- socket_wait: THE blocking primitive of the API layer: sets the condition, lets the transport see it, sleeps in
 * poll(-1) on the socket's descriptor.  0 = something happened; -1 = poll failed (EINTR ...), errno says why */
static int socket_wait(struct xcm_socket *conn_s, int condition)
__CPROVER_requires(__CPROVER_is_fresh(conn_s, sizeof(struct xcm_socket)))
__CPROVER_assigns(xv_errno, xv_blocked, xv_fd_ret, XC_WAIT_FRAME(conn_s))
__CPROVER_ensures(__CPROVER_return_value == 0 || __CPROVER_return_value == -1)
__CPROVER_ensures(xv_blocked && conn_s->condition == condition && xv_updated && xv_upd_cond == condition && xv_upd_sock == conn_s)
__CPROVER_ensures(__CPROVER_return_value == -1 ==> (xv_poll_failed && xv_errno > 0 && !XC_RETRY(xv_errno)))
__CPROVER_ensures(__CPROVER_return_value == 0 ==> (xv_poll_failed == __CPROVER_old(xv_poll_failed) && xv_errno == __CPROVER_old(xv_errno)))
;

/* ---- socket_finish: blocking flush: repeats the transport's finish while it says "try again", sleeping in between.
 * Accepts and delivers nothing.  -1 = the wait was interrupted or the connection died */
static int socket_finish(struct xcm_socket *s)
__CPROVER_requires(__CPROVER_is_fresh(s, sizeof(struct xcm_socket)) && !xv_poll_failed)
__CPROVER_assigns(XC_FIN_FRAME, xv_blocked, xv_fd_ret, XC_WAIT_FRAME(s))
__CPROVER_ensures(__CPROVER_return_value == 0 || __CPROVER_return_value == -1)
__CPROVER_ensures(XC_DEAD_MONO && xv_fin_sock == s)
__CPROVER_ensures(__CPROVER_return_value == 0 ==> (!xv_poll_failed && xv_fin_rv == 0))
__CPROVER_ensures(__CPROVER_return_value == -1 ==> (xv_errno > 0 && (xv_poll_failed || (xv_conn_dead && xv_fin_rv == -1 && !XC_RETRY(xv_errno)))))
;

/* ---- msg_bsend: blocking send of one message: repeats the transport's send while it says EAGAIN */
static int msg_bsend(struct xcm_socket *conn_s, const void *buf, size_t len)
__CPROVER_requires(XC_SOCK(conn_s) && !xv_bytestream && !xv_poll_failed && XC_GHOST_RANGE)
__CPROVER_requires(len <= XC_LEN_MAX && XC_BUF(buf, len))
__CPROVER_assigns(XC_SEND_FRAME, xv_blocked, xv_fd_ret, XC_WAIT_FRAME(conn_s))
__CPROVER_ensures(__CPROVER_return_value == 0 || __CPROVER_return_value == -1)
__CPROVER_ensures(XC_DEAD_MONO && XC_TX_SAME)
/* PO[C01,C03] msg_bsend.accepted_once_iff_success: for every EAGAIN/wait pattern */
__CPROVER_ensures(__CPROVER_return_value == 0 ? (xv_accepted == __CPROVER_old(xv_accepted) + 1 && xv_acc_buf == buf && xv_acc_len == len && !xv_poll_failed) : XC_ACC_SAME)
/* PO[C01] msg_bsend.retries_eagain: a blocking send never reports "try again" */
__CPROVER_ensures(__CPROVER_return_value == -1 ==> (xv_errno > 0 && xv_errno != EAGAIN))
;

/* ---- bytestream_bsend: blocking send on a byte stream: offers the rest of the buffer until everything is accepted */
static int bytestream_bsend(struct xcm_socket *conn_s, const void *buf, size_t len)
__CPROVER_requires(XC_SOCK(conn_s) && xv_bytestream && !xv_poll_failed && XC_GHOST_RANGE)
__CPROVER_requires(len >= XC_LEN_MIN && len <= XC_LEN_MAX && XC_BUF(buf, len))
__CPROVER_assigns(XC_SEND_FRAME, xv_blocked, xv_fd_ret, XC_WAIT_FRAME(conn_s))
__CPROVER_ensures(__CPROVER_return_value >= -1)
__CPROVER_ensures(XC_DEAD_MONO && XC_ACC_SAME)
/* PO[C02] bytestream_bsend.stream_grows_by_a_prefix: whatever is reported, what the transport accepted in this call is buf[0..n) for some n <= len, in order */
__CPROVER_ensures(xv_tx_off >= __CPROVER_old(xv_tx_off) && xv_tx_off - __CPROVER_old(xv_tx_off) <= (long)len && \
                  XC_TX_GREW(buf, xv_tx_off - __CPROVER_old(xv_tx_off)))
/* PO[C02] bytestream_bsend.reports_what_was_accepted: rv >= 0 => exactly buf[0..rv) was accepted -- and a blocking send takes everything (at most INT_MAX bytes per call) */
__CPROVER_ensures(__CPROVER_return_value >= 0 ==> (xv_tx_off == __CPROVER_old(xv_tx_off) + __CPROVER_return_value && (size_t)__CPROVER_return_value == (len > 2147483647UL ? 2147483647UL : len) && !xv_poll_failed))
/* PO[C02] bytestream_bsend.failure_accepted_nothing: rv == -1 => no byte of this call's buffer was accepted */
__CPROVER_ensures(__CPROVER_return_value == -1 ==> (xv_errno > 0 && XC_TX_SAME))
;

/* ---- xcm_send */
int xcm_send(struct xcm_socket *__restrict conn_s, const void *__restrict buf, size_t len)
__CPROVER_requires(XC_SOCK(conn_s) && XC_MODE(conn_s) && !xv_poll_failed && XC_GHOST_RANGE)
#ifdef XC_KIND
__CPROVER_requires(xv_bytestream == XC_KIND)
#endif
__CPROVER_requires(len <= XC_LEN_MAX && XC_BUF(buf, len))
__CPROVER_assigns(XC_SEND_FRAME, XC_FIN_FRAME, xv_fd_ret, XC_WAIT_FRAME(conn_s))
XC_MAY_BLOCK(conn_s->is_blocking)
__CPROVER_ensures(__CPROVER_return_value >= -1 && XC_DEAD_MONO)
__CPROVER_ensures(conn_s->type != xcm_socket_type_conn ==> (__CPROVER_return_value == -1 && xv_errno == EINVAL && XC_ACC_SAME && XC_TX_SAME))
__CPROVER_ensures(xv_bytestream ? XC_ACC_SAME : XC_TX_SAME)
/* PO[C01,C03] xcm_send.success_is_one_acceptance: messaging: rv 0 <=> the transport accepted (buf, len), once */
__CPROVER_ensures(!xv_bytestream ==> ((__CPROVER_return_value == 0 || __CPROVER_return_value == -1) && \
                  (__CPROVER_return_value == 0 ==> (xv_accepted == __CPROVER_old(xv_accepted) + 1 && xv_acc_buf == buf && xv_acc_len == len))))
/* PO[C03] xcm_send.never_twice: whatever is reported, the message was accepted at most once */
__CPROVER_ensures(!xv_bytestream ==> (XC_ACC_SAME || (xv_accepted == __CPROVER_old(xv_accepted) + 1 && xv_acc_buf == buf && xv_acc_len == len)))
/* PO[C03] xcm_send.failure_leaves_no_trace: messaging: rv -1 => the message was not accepted (or the connection is dead: it will never be delivered) */
__CPROVER_ensures((!xv_bytestream && __CPROVER_return_value == -1) ==> (xv_errno > 0 && (XC_ACC_SAME || xv_conn_dead)))
/* PO[C02] xcm_send.reports_what_was_accepted: byte stream: rv >= 0 => exactly buf[0..rv) was accepted; 1..len for len > 0 */
__CPROVER_ensures((xv_bytestream && __CPROVER_return_value >= 0) ==> ((size_t)__CPROVER_return_value <= len && (len > 0 ==> __CPROVER_return_value >= 1) && \
                  XC_TX_GREW(buf, __CPROVER_return_value)))
/* PO[C02] xcm_send.failure_accepted_nothing: byte stream: rv -1 => no byte of this call's buffer was accepted */
__CPROVER_ensures((xv_bytestream && __CPROVER_return_value == -1) ==> (xv_errno > 0 && XC_TX_SAME))
/* PO[C03] xcm_send.blocking_success_is_flushed: a blocking send reports success only after the transport's finish said nothing is outstanding */
__CPROVER_ensures((__CPROVER_old(conn_s->is_blocking) && __CPROVER_return_value >= 0) ==> (xv_fin_sock == conn_s && xv_fin_rv == 0))
/* PO[C02] xcm_send.blocking_takes_everything */
__CPROVER_ensures((xv_bytestream && __CPROVER_old(conn_s->is_blocking) && __CPROVER_return_value >= 0) ==> (size_t)__CPROVER_return_value == len)
;

/* ---- xcm_receive */
int xcm_receive(struct xcm_socket *__restrict conn_s, void *__restrict buf, size_t capacity)
__CPROVER_requires(XC_SOCK(conn_s) && XC_MODE(conn_s) && !xv_poll_failed && XC_GHOST_RANGE)
__CPROVER_requires(capacity <= XC_LEN_MAX && XC_BUF(buf, capacity))
__CPROVER_assigns(XC_RCV_FRAME, xv_fd_ret, XC_WAIT_FRAME(conn_s))
__CPROVER_assigns(capacity > 0: __CPROVER_object_upto(buf, capacity))
XC_MAY_BLOCK(conn_s->is_blocking)
__CPROVER_ensures(__CPROVER_return_value >= -1 && XC_DEAD_MONO)
__CPROVER_ensures(conn_s->type != xcm_socket_type_conn ==> (__CPROVER_return_value == -1 && xv_errno == EINVAL && XC_RCV_SAME))
/* PO[C01,C02] xcm_receive.one_delivery: rv >= 0 is the result of exactly ONE successful transport receive into exactly (buf, capacity) */
__CPROVER_ensures(__CPROVER_return_value >= 0 ==> (xv_delivered == __CPROVER_old(xv_delivered) + 1 && xv_rcv_rv == __CPROVER_return_value && \
                  xv_rcv_buf == buf && xv_rcv_cap == capacity))
/* PO[C01,C02] xcm_receive.failure_consumed_nothing: rv -1 => nothing was taken from the transport (no message dropped) */
__CPROVER_ensures(__CPROVER_return_value == -1 ==> (xv_errno > 0 && XC_RCV_SAME))
/* PO[C02] xcm_receive.never_more_than_capacity */
__CPROVER_ensures(__CPROVER_return_value >= 0 ==> (size_t)__CPROVER_return_value <= capacity)
/* PO[C01] xcm_receive.blocking_retries_eagain: a blocking receive loops on EAGAIN and only on EAGAIN */
__CPROVER_ensures((__CPROVER_old(conn_s->is_blocking) && __CPROVER_return_value == -1) ==> xv_errno != EAGAIN)
;

/* ================================================================================================================ */
/* part 2b: the rest of the API.  C05: none of these contracts makes xv_blocked assignable for a non-blocking socket */
/* ================================================================================================================ */
#define XC_UPD_SAME (xv_updated == __CPROVER_old(xv_updated) && xv_upd_cond == __CPROVER_old(xv_upd_cond) && xv_upd_sock == __CPROVER_old(xv_upd_sock))
#define XC_FIN_SAME (xv_fin_sock == __CPROVER_old(xv_fin_sock) && xv_fin_rv == __CPROVER_old(xv_fin_rv))

/* ---- xcm_await: non-blocking sockets only; never sleeps in ANY mode (a blocking socket is refused) */
int xcm_await(struct xcm_socket *s, int condition)
__CPROVER_requires(XC_SOCK(s) && XC_MODE(s))
__CPROVER_assigns(xv_errno, s->condition, xv_updated, xv_upd_cond, xv_upd_sock)
__CPROVER_ensures(__CPROVER_return_value == ((!s->is_blocking && TP_IS_VALID_COND(s->type, condition)) ? 0 : -1))
__CPROVER_ensures(__CPROVER_return_value == 0 ==> (s->condition == condition && xv_updated && xv_upd_cond == condition && xv_upd_sock == s))
__CPROVER_ensures(__CPROVER_return_value == -1 ==> (xv_errno == EINVAL && s->condition == __CPROVER_old(s->condition) && XC_UPD_SAME))
;
/* ---- xcm_fd */
int xcm_fd(struct xcm_socket *s)
__CPROVER_requires(XC_SOCK(s) && XC_MODE(s))
__CPROVER_assigns(xv_errno, xv_fd_ret)
__CPROVER_ensures(s->is_blocking ? (__CPROVER_return_value == -1 && xv_errno == EINVAL) : (__CPROVER_return_value >= 0 && __CPROVER_return_value == xv_fd_ret))
;
/* ---- xcm_finish: exactly the transport's finish, once; a blocking socket is refused */
int xcm_finish(struct xcm_socket *s)
__CPROVER_requires(XC_SOCK(s) && XC_MODE(s))
__CPROVER_assigns(XC_FIN_FRAME)
__CPROVER_ensures(XC_DEAD_MONO)
__CPROVER_ensures(s->is_blocking ? (__CPROVER_return_value == -1 && xv_errno == EINVAL && XC_FIN_SAME) \
                                 : (xv_fin_sock == s && __CPROVER_return_value == xv_fin_rv && (__CPROVER_return_value == 0 || (__CPROVER_return_value == -1 && xv_errno == xv_fin_errno))))
;
/* ---- xcm_set_blocking: sleeps only when asked to turn a non-blocking socket into a blocking one (outstanding work is finished first) */
int xcm_set_blocking(struct xcm_socket *s, bool should_block)
__CPROVER_requires(XC_SOCK(s) && !xv_poll_failed)
#if defined(XC_NB)
__CPROVER_requires(!s->is_blocking && !should_block)
#endif
__CPROVER_assigns(s->is_blocking, XC_FIN_FRAME, xv_fd_ret, XC_WAIT_FRAME(s))
XC_MAY_BLOCK(should_block && !s->is_blocking)
__CPROVER_ensures(__CPROVER_return_value == 0 || __CPROVER_return_value == -1)
__CPROVER_ensures(__CPROVER_return_value == 0 ==> s->is_blocking == should_block)
__CPROVER_ensures(__CPROVER_return_value == -1 ==> (xv_errno > 0 && should_block && !s->is_blocking && !__CPROVER_old(s->is_blocking)))
__CPROVER_ensures((__CPROVER_old(s->is_blocking) || !should_block) ==> (__CPROVER_return_value == 0 && XC_FIN_SAME && XC_UPD_SAME && s->condition == __CPROVER_old(s->condition)))
;
bool xcm_is_blocking(struct xcm_socket *s)
__CPROVER_requires(XC_SOCK(s) && XC_MODE(s))
__CPROVER_assigns()
__CPROVER_ensures(__CPROVER_return_value == s->is_blocking)
;
/* ---- xcm_close / xcm_cleanup: transport close (cleanup), then the socket object and its xpoll instance go; no waiting in any mode */
int xcm_close(struct xcm_socket *s)
__CPROVER_requires(s != NULL ==> (XC_SOCK(s) && XC_MODE(s)))
__CPROVER_assigns(xv_closed_sock, xv_destroyed_sock, xv_destroyed_xpoll)
__CPROVER_frees(s)
__CPROVER_ensures(__CPROVER_return_value == 0)
__CPROVER_ensures(s != NULL ? (xv_closed_sock == s && xv_destroyed_sock == s && xv_destroyed_xpoll == __CPROVER_old(s->xpoll) ) \
                            : (xv_closed_sock == __CPROVER_old(xv_closed_sock) && xv_destroyed_sock == __CPROVER_old(xv_destroyed_sock)))
;
void xcm_cleanup(struct xcm_socket *s)
__CPROVER_requires(s != NULL ==> (XC_SOCK(s) && XC_MODE(s)))
__CPROVER_assigns(xv_cleaned_sock, xv_destroyed_sock, xv_destroyed_xpoll)
__CPROVER_frees(s)
__CPROVER_ensures(s != NULL ? (xv_cleaned_sock == s && xv_destroyed_sock == s && xv_destroyed_xpoll == __CPROVER_old(s->xpoll) ) \
                            : (xv_cleaned_sock == __CPROVER_old(xv_cleaned_sock) && xv_destroyed_sock == __CPROVER_old(xv_destroyed_sock)))
;
const char *xcm_remote_addr(struct xcm_socket *conn_s)
__CPROVER_requires(XC_SOCK(conn_s) && XC_MODE(conn_s))
__CPROVER_assigns(xv_errno)
__CPROVER_ensures(conn_s->type != xcm_socket_type_conn ==> (__CPROVER_return_value == NULL && xv_errno == EINVAL))
;
const char *xcm_local_addr(struct xcm_socket *s)
__CPROVER_requires(XC_SOCK(s) && XC_MODE(s))
__CPROVER_assigns(xv_errno)
__CPROVER_ensures(1)
;

/* ---- set_attrs.  ENFORCED (job xcmcore.set_attrs, -DXC_ENFORCE_SET_ATTRS): the C11 obligations below, over the contract of
 * xcm_attr_set and the abstract-map stub of xcm_attr_map_foreach.  REPLACED (socket creation jobs): frame and result only, plus
 * (a) the call record xv_attrs_sock/xv_attrs_rv, which only a contract can write, and (b) the mode the socket is left in, tied to
 * the prophecy constant xv_mode_after_attrs: whatever set_attrs does, some value of the constant matches it, and the creation
 * jobs are proved for every value -- so that clause assumes nothing.  What IS assumed of set_attrs in those jobs: it sleeps only
 * if an attribute asks for blocking mode (xv_attrs_req_block; xcm.blocking -> set_blocking_attr -> xcm_set_blocking lives in
 * xcm_tp.c and attr_tree.c, outside this unit). */
#define XC_SET_FRAME xv_errno, xv_set_calls, xv_set_failed, xv_set_name, xv_set_type, xv_set_value, xv_set_len, xv_set_sock, xv_set_rv, xv_set_first_name, \
                     xv_at_name, xv_at_type, xv_at_value, xv_at_len, xv_at_sock, xv_conn_dead, xv_updated, xv_upd_cond, xv_upd_sock
#define XC_MAP_FRAME xv_map_name, xv_map_type, xv_map_value, xv_map_len     /* written by the xcm_attr_map_foreach stub only */
#define XC_NDEF ((attrs == NULL || !xv_map_has_service) ? 1 : 0)        /* number of default writes: xcm.service unless the map has it */
#define XC_PARENT_BS (parent_s != NULL && xv_bytestream)
static int set_attrs(struct xcm_socket *s, struct xcm_socket *parent_s, const struct xcm_attr_map *attrs)
__CPROVER_requires(__CPROVER_is_fresh(s, sizeof(struct xcm_socket)) && XC_CNT_OK(xv_set_calls))
#ifdef XC_ENFORCE_SET_ATTRS
__CPROVER_requires(xv_set_calls == 0 && !xv_set_failed && xv_map_n >= 0 && xv_map_n < XC_CNT_MAX && (parent_s == NULL || parent_s == xv_sock))
#endif
__CPROVER_assigns(XC_SET_FRAME, XC_MAP_FRAME, xv_attrs_sock, xv_attrs_rv, s->is_blocking, s->condition)
XC_MAY_BLOCK(xv_attrs_req_block)
__CPROVER_ensures(XC_RV_OR_ERRNO && XC_DEAD_MONO)
#ifdef XC_ENFORCE_SET_ATTRS
/* PO[C11] set_attrs.fails_iff_an_attribute_was_refused: (that no attribute is written AFTER a refusal is precondition xcm_attr_set.not_after_a_failure) */
__CPROVER_ensures(__CPROVER_return_value == -1 ? xv_set_failed : !xv_set_failed)
/* PO[C11] set_attrs.default_then_every_map_entry: success => one write for the default (if due) and one per map entry, no more */
__CPROVER_ensures(__CPROVER_return_value == 0 ==> xv_set_calls == XC_NDEF + (attrs == NULL ? 0 : xv_map_n))
/* PO[C11] set_attrs.default_service_first: write number 0 is xcm.service = the parent's service (messaging without parent), as a string, on this socket */
__CPROVER_ensures((XC_NDEF == 1 && xv_j == 0) ==> (XC_IS_SERVICE(xv_at_name) && xv_at_type == (int)xcm_attr_type_str && xv_at_sock == s && \
                  xv_at_len == (XC_PARENT_BS ? 11 : 10) && XC_U8(xv_at_value)[0] == (XC_PARENT_BS ? 'b' : 'm') && XC_U8(xv_at_value)[xv_at_len - 1] == 0))
/* PO[C11] set_attrs.map_in_order: write number NDEF + i is entry i of the map, verbatim, on this socket (any i: ghost index xv_j) */
__CPROVER_ensures((__CPROVER_return_value == 0 && attrs != NULL && xv_j >= XC_NDEF && xv_j < XC_NDEF + xv_map_n) ==> \
                  (xv_at_name == xv_map_name && xv_at_type == xv_map_type && xv_at_value == xv_map_value && xv_at_len == xv_map_len && xv_at_sock == s))
#endif
#ifndef XC_ENFORCE_SET_ATTRS
__CPROVER_ensures(xv_attrs_sock == s && xv_attrs_rv == __CPROVER_return_value)
__CPROVER_ensures(__CPROVER_return_value == 0 ==> s->is_blocking == xv_mode_after_attrs)
#endif
;

/* ---- socket creation.  A connect is "non-blocking" when its attributes leave the new socket non-blocking
 * (xcm.blocking = false, or the XCM_NONBLOCK flag of xcm_connect, which is that attribute) */
#define XC_LIFE_FRAME XC_MAP_FRAME, xv_attrs_sock, xv_attrs_rv, xv_created_sock, xv_inited_sock, xv_connected_sock, xv_accepted_sock, xv_closed_sock, xv_destroyed_sock, xv_destroyed_xpoll, version_logged
#if defined(XC_NB)
#define XC_CONNECT_MODE (!xv_mode_after_attrs && !xv_attrs_req_block)
#elif defined(XC_BL)
#define XC_CONNECT_MODE (xv_mode_after_attrs)
#else
#define XC_CONNECT_MODE 1
#endif
#define XC_CONNECT_POST(rv) (((rv) != NULL ==> (__CPROVER_is_fresh((rv), sizeof(struct xcm_socket)) && (rv)->type == xcm_socket_type_conn && \
                             (rv)->is_blocking == xv_mode_after_attrs && (rv) == xv_created_sock && (rv) == xv_inited_sock && (rv) == xv_connected_sock && \
                             (rv) == xv_attrs_sock && xv_attrs_rv == 0)) && \
                            (((rv) != NULL && xv_mode_after_attrs) ==> (xv_fin_sock == (rv) && xv_fin_rv == 0)))
/* a refused attribute aborts the creation: no connect/server/accept proper, the socket is closed and destroyed, NULL is returned */
#define XC_LIFE_CLEAN (xv_attrs_sock == NULL && xv_created_sock == NULL && xv_connected_sock == NULL && xv_accepted_sock == NULL)  /* call records empty on entry */
#define XC_ABORTED(rv, proper) ((xv_attrs_sock != NULL && xv_attrs_rv == -1) ==> \
                            ((rv) == NULL && xv_attrs_sock == xv_created_sock && (proper) == NULL && xv_closed_sock == xv_created_sock && xv_destroyed_sock == xv_created_sock))
struct xcm_socket *xcm_connect_a(const char *remote_addr, const struct xcm_attr_map *attrs)
__CPROVER_requires(XC_CONNECT_MODE && !xv_poll_failed && XC_CNT_OK(xv_set_calls) && XC_LIFE_CLEAN)
__CPROVER_assigns(XC_LIFE_FRAME, XC_SET_FRAME, XC_FIN_FRAME, xv_fd_ret, xv_poll_failed)
XC_MAY_BLOCK(xv_mode_after_attrs || xv_attrs_req_block)
__CPROVER_ensures(XC_CONNECT_POST(__CPROVER_return_value))
__CPROVER_ensures(__CPROVER_return_value == NULL ==> (xv_created_sock == __CPROVER_old(xv_created_sock) || xv_destroyed_sock == xv_created_sock))
/* PO[C11] xcm_connect_a.creation_aborted_on_attribute_failure */
__CPROVER_ensures(XC_ABORTED(__CPROVER_return_value, xv_connected_sock))
;
struct xcm_socket *xcm_connect(const char *remote_addr, int flags)
__CPROVER_requires(XC_CONNECT_MODE && !xv_poll_failed && XC_CNT_OK(xv_set_calls) && XC_LIFE_CLEAN)
#if defined(XC_NB)
__CPROVER_requires((flags & XCM_NONBLOCK) != 0)
#endif
__CPROVER_assigns(XC_LIFE_FRAME, XC_SET_FRAME, XC_FIN_FRAME, xv_fd_ret, xv_poll_failed)
XC_MAY_BLOCK(xv_mode_after_attrs || xv_attrs_req_block)
__CPROVER_ensures(XC_CONNECT_POST(__CPROVER_return_value))
;
/* ---- server sockets: no mode yet (created blocking); nothing waits at this layer unless an attribute asks for blocking mode on a non-blocking socket */
#define XC_SERVER_POST(rv) ((rv) != NULL ==> (__CPROVER_is_fresh((rv), sizeof(struct xcm_socket)) && (rv)->type == xcm_socket_type_server && \
                            (rv) == xv_created_sock && (rv) == xv_inited_sock && (rv) == xv_connected_sock && (rv) == xv_attrs_sock && xv_attrs_rv == 0))
struct xcm_socket *xcm_server_a(const char *local_addr, const struct xcm_attr_map *attrs)
__CPROVER_requires(XC_CONNECT_MODE && XC_CNT_OK(xv_set_calls) && XC_LIFE_CLEAN)
__CPROVER_assigns(XC_LIFE_FRAME, XC_SET_FRAME)
XC_MAY_BLOCK(xv_attrs_req_block)
__CPROVER_ensures(XC_SERVER_POST(__CPROVER_return_value))
/* PO[C11] xcm_server_a.creation_aborted_on_attribute_failure */
__CPROVER_ensures(XC_ABORTED(__CPROVER_return_value, xv_connected_sock))
;
struct xcm_socket *xcm_server(const char *local_addr)
__CPROVER_requires(XC_CONNECT_MODE && XC_CNT_OK(xv_set_calls) && XC_LIFE_CLEAN)
__CPROVER_assigns(XC_LIFE_FRAME, XC_SET_FRAME)
XC_MAY_BLOCK(xv_attrs_req_block)
__CPROVER_ensures(XC_SERVER_POST(__CPROVER_return_value))
;

/* ---- accept: the SERVER socket's mode governs the waits */
#define XC_ACCEPT_POST(rv) (((rv) != NULL ==> (__CPROVER_is_fresh((rv), sizeof(struct xcm_socket)) && (rv)->type == xcm_socket_type_conn && \
                             (rv) == xv_created_sock && (rv) == xv_inited_sock && (rv) == xv_accepted_sock)) && \
                            (server_s->type != xcm_socket_type_server ==> ((rv) == NULL && xv_errno == EINVAL)))
struct xcm_socket *xcm_accept_a(struct xcm_socket *server_s, const struct xcm_attr_map *attrs)
__CPROVER_requires(XC_SOCK(server_s) && XC_MODE(server_s) && !xv_poll_failed && XC_CNT_OK(xv_set_calls) && XC_LIFE_CLEAN)
#if defined(XC_NB)
__CPROVER_requires(!xv_attrs_req_block)
#endif
__CPROVER_assigns(XC_LIFE_FRAME, XC_SET_FRAME, XC_FIN_FRAME, xv_fd_ret, XC_WAIT_FRAME(server_s))
XC_MAY_BLOCK(server_s->is_blocking || xv_attrs_req_block)
__CPROVER_ensures(XC_ACCEPT_POST(__CPROVER_return_value))
/* PO[C11] xcm_accept_a.creation_aborted_on_attribute_failure */
__CPROVER_ensures(XC_ABORTED(__CPROVER_return_value, xv_accepted_sock))
;
struct xcm_socket *xcm_accept(struct xcm_socket *server_s)
__CPROVER_requires(XC_SOCK(server_s) && XC_MODE(server_s) && !xv_poll_failed && XC_CNT_OK(xv_set_calls) && XC_LIFE_CLEAN)
#if defined(XC_NB)
__CPROVER_requires(!xv_attrs_req_block)
#endif
__CPROVER_assigns(XC_LIFE_FRAME, XC_SET_FRAME, XC_FIN_FRAME, xv_fd_ret, XC_WAIT_FRAME(server_s))
XC_MAY_BLOCK(server_s->is_blocking || xv_attrs_req_block)
__CPROVER_ensures(XC_ACCEPT_POST(__CPROVER_return_value))
;

/* ---- attribute writes: one attribute-tree write of exactly (name, type, value, len) on this socket, result passed through */
#if defined(XC_NB)
#define XC_ATTR_SET_MODE(s) (!(s)->is_blocking && !xv_attrs_req_block)
#else
#define XC_ATTR_SET_MODE(s) XC_MODE(s)
#endif
#define XC_ATTR_SET_FRAME(s) XC_SET_FRAME, (s)->is_blocking, (s)->condition
#define XC_ATTR_SET_POST(s, name, type) (XC_RV_OR_ERRNO && xv_set_calls == __CPROVER_old(xv_set_calls) + 1 && xv_set_name == (name) && xv_set_type == (int)(type) && \
                                         xv_set_sock == (s) && xv_set_rv == __CPROVER_return_value)
int xcm_attr_set(struct xcm_socket *s, const char *name, enum xcm_attr_type type, const void *value, size_t len)
__CPROVER_requires(__CPROVER_is_fresh(s, sizeof(struct xcm_socket)) && XC_ATTR_SET_MODE(s) && XC_CNT_OK(xv_set_calls))
/* PO[C11] xcm_attr_set.not_after_a_failure (precondition: checked where set_attr_cb / set_default_attrs call it) */
__CPROVER_requires(!xv_set_failed)
__CPROVER_assigns(XC_ATTR_SET_FRAME(s))
XC_MAY_BLOCK(xv_attrs_req_block)
__CPROVER_ensures(XC_ATTR_SET_POST(s, name, type) && xv_set_value == value && xv_set_len == len && XC_DEAD_MONO)
__CPROVER_ensures(xv_set_failed == (__CPROVER_return_value == -1))
__CPROVER_ensures(XC_AT_RECORD(name, type, value, len, s))
__CPROVER_ensures(xv_set_first_name == (__CPROVER_old(xv_set_calls) == 0 ? name : __CPROVER_old(xv_set_first_name)))
;
int xcm_attr_set_bool(struct xcm_socket *s, const char *name, bool value)
__CPROVER_requires(__CPROVER_is_fresh(s, sizeof(struct xcm_socket)) && XC_ATTR_SET_MODE(s) && XC_CNT_OK(xv_set_calls) && !xv_set_failed)
__CPROVER_assigns(XC_ATTR_SET_FRAME(s))
XC_MAY_BLOCK(xv_attrs_req_block)
__CPROVER_ensures(XC_ATTR_SET_POST(s, name, xcm_attr_type_bool) && xv_set_len == sizeof(bool))
;
int xcm_attr_set_int64(struct xcm_socket *s, const char *name, int64_t value)
__CPROVER_requires(__CPROVER_is_fresh(s, sizeof(struct xcm_socket)) && XC_ATTR_SET_MODE(s) && XC_CNT_OK(xv_set_calls) && !xv_set_failed)
__CPROVER_assigns(XC_ATTR_SET_FRAME(s))
XC_MAY_BLOCK(xv_attrs_req_block)
__CPROVER_ensures(XC_ATTR_SET_POST(s, name, xcm_attr_type_int64) && xv_set_len == sizeof(int64_t))
;
int xcm_attr_set_double(struct xcm_socket *s, const char *name, double value)
__CPROVER_requires(__CPROVER_is_fresh(s, sizeof(struct xcm_socket)) && XC_ATTR_SET_MODE(s) && XC_CNT_OK(xv_set_calls) && !xv_set_failed)
__CPROVER_assigns(XC_ATTR_SET_FRAME(s))
XC_MAY_BLOCK(xv_attrs_req_block)
__CPROVER_ensures(XC_ATTR_SET_POST(s, name, xcm_attr_type_double) && xv_set_len == sizeof(double))
;
#define XC_STR_MAX 12   /* strings handed to xcm_attr_set_str: up to 11 characters explored (strlen is closed by unwinding) */
int xcm_attr_set_str(struct xcm_socket *s, const char *name, const char *value)
__CPROVER_requires(__CPROVER_is_fresh(s, sizeof(struct xcm_socket)) && XC_ATTR_SET_MODE(s) && XC_CNT_OK(xv_set_calls) && !xv_set_failed)
__CPROVER_requires(__CPROVER_is_fresh(value, XC_STR_MAX) && value[XC_STR_MAX - 1] == 0)
__CPROVER_assigns(XC_ATTR_SET_FRAME(s))
XC_MAY_BLOCK(xv_attrs_req_block)
__CPROVER_ensures(XC_ATTR_SET_POST(s, name, xcm_attr_type_str) && xv_set_value == value && xv_set_len >= 1 && xv_set_len <= XC_STR_MAX && value[xv_set_len - 1] == 0)
;

/* ---- attribute reads (C10): the getter is handed exactly the caller's buffer and capacity -- never more */
#define XC_CAP_MAX 4096UL
#define XC_ATTR_GET_FRAME xv_errno, xv_get_calls, xv_get_name, xv_get_value, xv_get_cap, xv_get_sock, xv_get_rv, xv_get_errno, xv_get_type
#define XC_ONE_GET(s, name, value, capacity) (xv_get_calls == __CPROVER_old(xv_get_calls) + 1 && xv_get_sock == (s) && xv_get_name == (name) && \
                                              xv_get_value == (void *)(value) && xv_get_cap == (capacity))
int xcm_attr_get(struct xcm_socket *s, const char *name, enum xcm_attr_type *type, void *value, size_t capacity)
__CPROVER_requires(XC_SOCK(s) && XC_MODE(s) && XC_CNT_OK(xv_get_calls))
__CPROVER_requires(__CPROVER_is_fresh(type, sizeof(*type)) && capacity <= XC_CAP_MAX && XC_BUF(value, capacity))
__CPROVER_assigns(XC_ATTR_GET_FRAME, *type)
__CPROVER_assigns(capacity > 0: __CPROVER_object_upto(value, capacity))
/* PO[C10] xcm_attr_get.one_read_with_the_callers_capacity */
__CPROVER_ensures(XC_ONE_GET(s, name, value, capacity) && __CPROVER_return_value == xv_get_rv)
/* PO[C10] xcm_attr_get.length_within_capacity */
__CPROVER_ensures((__CPROVER_return_value == -1 && xv_errno == xv_get_errno && xv_errno > 0) || \
                  (__CPROVER_return_value >= 0 && (size_t)__CPROVER_return_value <= capacity && xv_get_type == (int)*type))
;
#define XC_TYPED_POST(required_type) ( \
    (xv_get_rv == -1 ==> (__CPROVER_return_value == -1 && xv_errno == ((xv_get_errno == EOVERFLOW && (int)(required_type) != xcm_attr_type_str && (int)(required_type) != xcm_attr_type_bin) ? ENOENT : xv_get_errno))) && \
    ((xv_get_rv >= 0 && xv_get_type != (int)(required_type)) ==> (__CPROVER_return_value == -1 && xv_errno == ENOENT)) && \
    ((xv_get_rv >= 0 && xv_get_type == (int)(required_type)) ==> __CPROVER_return_value == xv_get_rv))
static int attr_get_with_type(struct xcm_socket *s, const char *name, enum xcm_attr_type required_type, void *value, size_t capacity)
__CPROVER_requires(XC_SOCK(s) && XC_MODE(s) && XC_CNT_OK(xv_get_calls))
__CPROVER_requires(capacity <= XC_CAP_MAX && XC_BUF(value, capacity))
__CPROVER_assigns(XC_ATTR_GET_FRAME)
__CPROVER_assigns(capacity > 0: __CPROVER_object_upto(value, capacity))
/* PO[C10] attr_get_with_type.capacity_passed_down: the getter never sees a capacity larger than the caller's (it sees exactly it) */
__CPROVER_ensures(XC_ONE_GET(s, name, value, capacity))
/* PO[C10] attr_get_with_type.type_mismatch_is_enoent: a value of another type, or one that does not fit the typed buffer, is ENOENT; otherwise the tree's answer */
__CPROVER_ensures(XC_TYPED_POST(required_type))
__CPROVER_ensures(__CPROVER_return_value >= -1 && (__CPROVER_return_value >= 0 ==> (size_t)__CPROVER_return_value <= capacity))
;
/* typed getters: the caller's object is EXACTLY sizeof(T) bytes (is_fresh): a getter writing more is a frame violation */
int xcm_attr_get_bool(struct xcm_socket *s, const char *name, bool *value)
__CPROVER_requires(XC_SOCK(s) && XC_MODE(s) && XC_CNT_OK(xv_get_calls) && __CPROVER_is_fresh(value, sizeof(bool)))
__CPROVER_assigns(XC_ATTR_GET_FRAME, *value)
/* PO[C10] xcm_attr_get_bool.buffer_is_sizeof_bool */
__CPROVER_ensures(XC_ONE_GET(s, name, value, sizeof(bool)) && XC_TYPED_POST(xcm_attr_type_bool))
;
int xcm_attr_get_int64(struct xcm_socket *s, const char *name, int64_t *value)
__CPROVER_requires(XC_SOCK(s) && XC_MODE(s) && XC_CNT_OK(xv_get_calls) && __CPROVER_is_fresh(value, sizeof(int64_t)))
__CPROVER_assigns(XC_ATTR_GET_FRAME, *value)
/* PO[C10] xcm_attr_get_int64.buffer_is_sizeof_int64 */
__CPROVER_ensures(XC_ONE_GET(s, name, value, sizeof(int64_t)) && XC_TYPED_POST(xcm_attr_type_int64))
;
int xcm_attr_get_double(struct xcm_socket *s, const char *name, double *value)
__CPROVER_requires(XC_SOCK(s) && XC_MODE(s) && XC_CNT_OK(xv_get_calls) && __CPROVER_is_fresh(value, sizeof(double)))
__CPROVER_assigns(XC_ATTR_GET_FRAME, *value)
/* PO[C10] xcm_attr_get_double.buffer_is_sizeof_double */
__CPROVER_ensures(XC_ONE_GET(s, name, value, sizeof(double)) && XC_TYPED_POST(xcm_attr_type_double))
;
/* str/bin: a value that does not fit stays EOVERFLOW; another type is ENOENT */
#define XC_STRBIN_POST(required_type) ( \
    (xv_get_rv == -1 ==> (__CPROVER_return_value == -1 && xv_errno == xv_get_errno)) && \
    ((xv_get_rv >= 0 && xv_get_type != (int)(required_type)) ==> (__CPROVER_return_value == -1 && xv_errno == ENOENT)) && \
    ((xv_get_rv >= 0 && xv_get_type == (int)(required_type)) ==> (__CPROVER_return_value == xv_get_rv && (size_t)__CPROVER_return_value <= capacity)))
int xcm_attr_get_str(struct xcm_socket *s, const char *name, char *value, size_t capacity)
__CPROVER_requires(XC_SOCK(s) && XC_MODE(s) && XC_CNT_OK(xv_get_calls) && capacity <= XC_CAP_MAX && XC_BUF(value, capacity))
__CPROVER_assigns(XC_ATTR_GET_FRAME)
__CPROVER_assigns(capacity > 0: __CPROVER_object_upto(value, capacity))
/* PO[C10] xcm_attr_get_str.capacity_passed_down */
__CPROVER_ensures(XC_ONE_GET(s, name, value, capacity) && XC_STRBIN_POST(xcm_attr_type_str))
;
int xcm_attr_get_bin(struct xcm_socket *s, const char *name, void *value, size_t capacity)
__CPROVER_requires(XC_SOCK(s) && XC_MODE(s) && XC_CNT_OK(xv_get_calls) && capacity <= XC_CAP_MAX && XC_BUF(value, capacity))
__CPROVER_assigns(XC_ATTR_GET_FRAME)
__CPROVER_assigns(capacity > 0: __CPROVER_object_upto(value, capacity))
/* PO[C10] xcm_attr_get_bin.capacity_passed_down */
__CPROVER_ensures(XC_ONE_GET(s, name, value, capacity) && XC_STRBIN_POST(xcm_attr_type_bin))
;
int xcm_attr_get_list_len(struct xcm_socket *s, const char *name)
__CPROVER_requires(XC_SOCK(s) && XC_MODE(s))
__CPROVER_assigns(xv_errno)
__CPROVER_ensures(__CPROVER_return_value >= 0 || (__CPROVER_return_value == -1 && xv_errno > 0))
;
void xcm_attr_get_all(struct xcm_socket *s, xcm_attr_cb cb, void *cb_data)
__CPROVER_requires(XC_SOCK(s) && XC_MODE(s))
__CPROVER_assigns()
__CPROVER_ensures(1)
;

/* ---- formatted-name variants: the name is formatted into a heap string, the read is the plain one, the string is freed.
 * attr_vgetf_with_type carries the typed ones (the public wrappers around it only do va_start/va_end) */
static int attr_vgetf_with_type(struct xcm_socket *s, enum xcm_attr_type required_type, void *value, size_t capacity, const char *name_fmt, va_list ap)
__CPROVER_requires(XC_SOCK(s) && XC_MODE(s) && XC_CNT_OK(xv_get_calls))
__CPROVER_requires(capacity <= XC_CAP_MAX && XC_BUF(value, capacity))
__CPROVER_assigns(XC_ATTR_GET_FRAME)
__CPROVER_assigns(capacity > 0: __CPROVER_object_upto(value, capacity))
/* PO[C10] attr_vgetf_with_type.capacity_passed_down */
__CPROVER_ensures(xv_get_calls == __CPROVER_old(xv_get_calls) + 1 && xv_get_sock == s && xv_get_value == value && xv_get_cap == capacity)
/* PO[C10] attr_vgetf_with_type.type_mismatch_is_enoent */
__CPROVER_ensures(XC_TYPED_POST(required_type))
;
int xcm_attr_getf(struct xcm_socket *s, enum xcm_attr_type *type, void *value, size_t capacity, const char *name_fmt, ...)
__CPROVER_requires(XC_SOCK(s) && XC_MODE(s) && XC_CNT_OK(xv_get_calls))
__CPROVER_requires(__CPROVER_is_fresh(type, sizeof(*type)) && capacity <= XC_CAP_MAX && XC_BUF(value, capacity))
__CPROVER_assigns(XC_ATTR_GET_FRAME, *type)
__CPROVER_assigns(capacity > 0: __CPROVER_object_upto(value, capacity))
/* PO[C10] xcm_attr_getf.one_read_with_the_callers_capacity */
__CPROVER_ensures(xv_get_calls == __CPROVER_old(xv_get_calls) + 1 && xv_get_sock == s && xv_get_value == value && xv_get_cap == capacity && __CPROVER_return_value == xv_get_rv)
__CPROVER_ensures((__CPROVER_return_value == -1 && xv_errno == xv_get_errno) || (__CPROVER_return_value >= 0 && (size_t)__CPROVER_return_value <= capacity))
;
int xcm_attr_getf_bool(struct xcm_socket *s, bool *value, const char *name_fmt, ...)
__CPROVER_requires(XC_SOCK(s) && XC_MODE(s) && XC_CNT_OK(xv_get_calls) && __CPROVER_is_fresh(value, sizeof(bool)))
__CPROVER_assigns(XC_ATTR_GET_FRAME, *value)
/* PO[C10] xcm_attr_getf_bool.buffer_is_sizeof_type */
__CPROVER_ensures(xv_get_calls == __CPROVER_old(xv_get_calls) + 1 && xv_get_sock == s && xv_get_value == (void *)value && xv_get_cap == sizeof(bool) && XC_TYPED_POST(xcm_attr_type_bool))
;
int xcm_attr_getf_int64(struct xcm_socket *s, int64_t *value, const char *name_fmt, ...)
__CPROVER_requires(XC_SOCK(s) && XC_MODE(s) && XC_CNT_OK(xv_get_calls) && __CPROVER_is_fresh(value, sizeof(int64_t)))
__CPROVER_assigns(XC_ATTR_GET_FRAME, *value)
/* PO[C10] xcm_attr_getf_int64.buffer_is_sizeof_type */
__CPROVER_ensures(xv_get_calls == __CPROVER_old(xv_get_calls) + 1 && xv_get_sock == s && xv_get_value == (void *)value && xv_get_cap == sizeof(int64_t) && XC_TYPED_POST(xcm_attr_type_int64))
;
int xcm_attr_getf_double(struct xcm_socket *s, double *value, const char *name_fmt, ...)
__CPROVER_requires(XC_SOCK(s) && XC_MODE(s) && XC_CNT_OK(xv_get_calls) && __CPROVER_is_fresh(value, sizeof(double)))
__CPROVER_assigns(XC_ATTR_GET_FRAME, *value)
/* PO[C10] xcm_attr_getf_double.buffer_is_sizeof_type */
__CPROVER_ensures(xv_get_calls == __CPROVER_old(xv_get_calls) + 1 && xv_get_sock == s && xv_get_value == (void *)value && xv_get_cap == sizeof(double) && XC_TYPED_POST(xcm_attr_type_double))
;
int xcm_attr_getf_str(struct xcm_socket *s, char *value, size_t capacity, const char *name_fmt, ...)
__CPROVER_requires(XC_SOCK(s) && XC_MODE(s) && XC_CNT_OK(xv_get_calls) && capacity <= XC_CAP_MAX && XC_BUF(value, capacity))
__CPROVER_assigns(XC_ATTR_GET_FRAME)
__CPROVER_assigns(capacity > 0: __CPROVER_object_upto(value, capacity))
/* PO[C10] xcm_attr_getf_str.capacity_passed_down */
__CPROVER_ensures(xv_get_calls == __CPROVER_old(xv_get_calls) + 1 && xv_get_sock == s && xv_get_value == (void *)value && xv_get_cap == capacity)
#ifndef XC_NB   /* decided in the C10 jobs (harness/xcmcore/attr_get.c), not once more in every C05 job */
/* PO[C10] xcm_attr_getf_str.too_small_is_eoverflow_other_type_is_enoent: as for xcm_attr_get_str/_bin ("see xcm_attr_get() for other errno values") */
__CPROVER_ensures(XC_STRBIN_POST(xcm_attr_type_str))
#endif
__CPROVER_ensures(__CPROVER_return_value >= 0 ==> (size_t)__CPROVER_return_value <= capacity)
;
int xcm_attr_getf_bin(struct xcm_socket *s, void *value, size_t capacity, const char *name_fmt, ...)
__CPROVER_requires(XC_SOCK(s) && XC_MODE(s) && XC_CNT_OK(xv_get_calls) && capacity <= XC_CAP_MAX && XC_BUF(value, capacity))
__CPROVER_assigns(XC_ATTR_GET_FRAME)
__CPROVER_assigns(capacity > 0: __CPROVER_object_upto(value, capacity))
/* PO[C10] xcm_attr_getf_bin.capacity_passed_down */
__CPROVER_ensures(xv_get_calls == __CPROVER_old(xv_get_calls) + 1 && xv_get_sock == s && xv_get_value == (void *)value && xv_get_cap == capacity)
#ifndef XC_NB   /* decided in the C10 jobs (harness/xcmcore/attr_get.c), not once more in every C05 job */
/* PO[C10] xcm_attr_getf_bin.too_small_is_eoverflow_other_type_is_enoent: as for xcm_attr_get_str/_bin ("see xcm_attr_get() for other errno values") */
__CPROVER_ensures(XC_STRBIN_POST(xcm_attr_type_bin))
#endif
__CPROVER_ensures(__CPROVER_return_value >= 0 ==> (size_t)__CPROVER_return_value <= capacity)
;

#include "contracts/end.h"
#endif
