/* contracts/xcmcore.h -- libxcm/core/xcm.c: the public API layer over the transport operations.
 *
 * Serves C05 (a non-blocking socket never sleeps: xv_blocked is in no assigns clause reachable with !s->is_blocking),
 * C03/C01 (xcm_send/msg_bsend accept a message exactly once iff they report success; xcm_receive hands out the result of
 * exactly one successful transport receive), C02 (bytestream_bsend: exactly the reported prefix is accepted),
 * C11 (set_attrs: defaults, then the map, creation aborted on the first failure), C10 (attr_get_with_type).
 *
 * The layer below (libxcm/tp/common/xcm_tp.c dispatching into a transport through a table of function pointers),
 * xpoll.c, attr_tree.c and xcm_attr_map.c are OTHER MODULES: cut by the contracts of part 1, ASSUMED here.  The transport
 * contracts are the API-level view of what units framing / ux / btcp enforce on tcp_send, ux_send, btcp_send ...
 * The kernel is poll(2) only (env/xcmcore_env.h, TRUSTED).
 *
 * Modes (a -D of the job): XC_NB  the socket is non-blocking (C05 jobs: XC_MAY_BLOCK expands to NOTHING, so xv_blocked
 *                                 is assignable nowhere);
 *                          XC_BL  the socket is blocking;
 *                          none   both.
 * Attached to the REAL functions by redeclaration after the TU has been #included.
 */
#ifndef XV_XCMCORE_H
#define XV_XCMCORE_H
#include "contracts/begin.h"

/* ================================================================================================================ */
/* ghost state of the unit (havocked by xv_xcmcore_havoc() at the start of every harness)                            */
/* ================================================================================================================ */
struct xcm_socket *xv_sock;     /* never assigned: the socket the API call under proof operates on                   */
_Bool xv_bytestream;            /* never assigned: that socket's transport is a byte stream (btcp, btls)             */
/* messaging, send side: what the transport has ACCEPTED (its send returned 0) */
long xv_accepted;               /* number of messages accepted so far                                                */
const void *xv_acc_buf;         /* (buf, len) of the message accepted last                                           */
size_t xv_acc_len;
/* byte streams, send side: prelude's xv_tx_off / xv_tx_k / xv_tx_k_set (bytes accepted so far, byte at offset xv_k) */
/* receive side: successful (rv >= 0) transport receives */
long xv_delivered;              /* number of them so far                                                             */
int xv_rcv_rv;                  /* result, buffer and capacity of the last one                                       */
void *xv_rcv_buf;
size_t xv_rcv_cap;
/* the connection is dead: the transport will neither accept nor deliver anything any more (set by the transport only,
 * absorbing; proved absorbing for the real transports under C06) */
_Bool xv_conn_dead;
/* last xcm_tp_socket_finish / xcm_tp_socket_update */
struct xcm_socket *xv_fin_sock; int xv_fin_rv; int xv_fin_errno;
_Bool xv_updated; int xv_upd_cond; struct xcm_socket *xv_upd_sock;
/* lifecycle: sockets handed to close/cleanup/destroy, xpoll instances destroyed */
struct xcm_socket *xv_closed_sock, *xv_cleaned_sock, *xv_destroyed_sock; struct xpoll *xv_destroyed_xpoll;
int xv_fd_ret;                  /* what xpoll_get_fd returned last */

#define XC_U8(p) ((const uint8_t *)(p))
#define XC_CNT_MAX (1L << 60)
/* buffers above these sizes are not explored (is_fresh needs a bound): default 2^31-1 = everything an int can report */
#ifndef XC_LEN_MAX
#define XC_LEN_MAX 0x7fffffffUL
#endif
#ifndef XC_LEN_MIN
#define XC_LEN_MIN 0UL
#endif
#define XC_SLACK (1L << 41)
#define XC_BUF(p, n) __CPROVER_is_fresh((p), (n) == 0 ? 1 : (n))

/* ranges of the ghost counters: on entry of an API call / of a helper or the transport in mid-call / on any exit */
#define XC_GHOST_LIM(lim) (xv_accepted >= 0 && xv_accepted < XC_CNT_MAX + (lim) && xv_delivered >= 0 && xv_delivered < XC_CNT_MAX + (lim) && \
                           xv_tx_off >= 0 && xv_tx_off < XV_OFF_MAX + (lim) && xv_k >= 0 && xv_k < 2 * XV_OFF_MAX)
#define XC_GHOST_RANGE XC_GHOST_LIM(0)
#define XC_GHOST_RANGE_IN XC_GHOST_LIM(XC_SLACK)

#define XC_ACC_SAME (xv_accepted == __CPROVER_old(xv_accepted) && xv_acc_buf == __CPROVER_old(xv_acc_buf) && xv_acc_len == __CPROVER_old(xv_acc_len))
#define XC_TX_SAME (xv_tx_off == __CPROVER_old(xv_tx_off) && xv_tx_k == __CPROVER_old(xv_tx_k) && xv_tx_k_set == __CPROVER_old(xv_tx_k_set))
#define XC_RCV_SAME (xv_delivered == __CPROVER_old(xv_delivered) && xv_rcv_rv == __CPROVER_old(xv_rcv_rv) && xv_rcv_buf == __CPROVER_old(xv_rcv_buf) && \
                     xv_rcv_cap == __CPROVER_old(xv_rcv_cap))
#define XC_DEAD_MONO (__CPROVER_old(xv_conn_dead) ==> xv_conn_dead)
/* the stream grew by exactly buf[0..n): the byte at the ghost offset xv_k is the right one (any xv_k: all of them) */
#define XC_TX_GREW(buf, n) (xv_tx_off == __CPROVER_old(xv_tx_off) + (n) && \
    ((xv_k >= __CPROVER_old(xv_tx_off) && xv_k < __CPROVER_old(xv_tx_off) + (n)) \
        ? (xv_tx_k_set && xv_tx_k == XC_U8(buf)[xv_k - __CPROVER_old(xv_tx_off)]) \
        : (xv_tx_k == __CPROVER_old(xv_tx_k) && xv_tx_k_set == __CPROVER_old(xv_tx_k_set))))
#define XC_RETRY(e) ((e) == EAGAIN || (e) == EINPROGRESS)

#if defined(XC_NB)
#define XC_MODE(s) (!(s)->is_blocking)
#define XC_MAY_BLOCK(cond)                      /* C05: xv_blocked is assignable NOWHERE in a non-blocking job */
#elif defined(XC_BL)
#define XC_MODE(s) ((s)->is_blocking)
#define XC_MAY_BLOCK(cond) __CPROVER_assigns((cond): xv_blocked)
#else
#define XC_MODE(s) 1
#define XC_MAY_BLOCK(cond) __CPROVER_assigns((cond): xv_blocked)
#endif
/* what a blocking wait writes besides xv_blocked (harmless, also written by xcm_await on non-blocking sockets) */
#define XC_WAIT_FRAME(s) (s)->condition, xv_poll_failed, xv_updated, xv_upd_cond, xv_upd_sock
#define XC_SEND_FRAME xv_errno, xv_accepted, xv_acc_buf, xv_acc_len, xv_conn_dead, xv_tx_off, xv_tx_k, xv_tx_k_set
#define XC_RCV_FRAME xv_errno, xv_delivered, xv_rcv_rv, xv_rcv_buf, xv_rcv_cap, xv_conn_dead
#define XC_FIN_FRAME xv_errno, xv_conn_dead, xv_fin_sock, xv_fin_rv, xv_fin_errno

/* ================================================================================================================ */
/* part 1: OTHER MODULES, ASSUMED                                                                                   */
/* ================================================================================================================ */

/* ---- xcm_tp.c -> transport send.  Messaging: 0 = the message (buf, len) was accepted, whole, once; -1 = nothing was.
 * Byte stream: rv in 0..len (>= 1 for len > 0) = exactly buf[0..rv) was accepted; -1 = nothing was.  A dead connection
 * accepts nothing.  The caller must offer readable memory. */
int xcm_tp_socket_send(struct xcm_socket *__restrict s, const void *__restrict buf, size_t len)
__CPROVER_requires(s == xv_sock && XC_GHOST_RANGE_IN)
/* PO[C02] xcm_tp_socket_send.offers_own_buffer_only (precondition, checked at every call site) */
__CPROVER_requires(len == 0 || __CPROVER_r_ok(buf, len))
__CPROVER_assigns(XC_SEND_FRAME)
__CPROVER_ensures(XC_DEAD_MONO)
__CPROVER_ensures((__CPROVER_return_value == -1 && xv_errno > 0 && XC_ACC_SAME && XC_TX_SAME) || \
                  (!xv_bytestream && __CPROVER_return_value == 0 && !__CPROVER_old(xv_conn_dead) && XC_TX_SAME && \
                       xv_accepted == __CPROVER_old(xv_accepted) + 1 && xv_acc_buf == buf && xv_acc_len == len) || \
                  (xv_bytestream && __CPROVER_return_value >= 0 && (size_t)__CPROVER_return_value <= len && (len > 0 ==> __CPROVER_return_value >= 1) && \
                       !__CPROVER_old(xv_conn_dead) && XC_ACC_SAME && XC_TX_GREW(buf, __CPROVER_return_value)))
;

/* ---- transport receive: rv >= 0 = one delivery (a message or its leading `capacity` bytes / the next rv bytes of the
 * stream / 0 = end of stream) into (buf, capacity); -1 = nothing was consumed */
int xcm_tp_socket_receive(struct xcm_socket *__restrict s, void *__restrict buf, size_t capacity)
__CPROVER_requires(s == xv_sock && XC_GHOST_RANGE_IN)
__CPROVER_requires(capacity == 0 || __CPROVER_w_ok(buf, capacity))
__CPROVER_assigns(XC_RCV_FRAME)
__CPROVER_assigns(capacity > 0: __CPROVER_object_upto(buf, capacity))
__CPROVER_ensures(XC_DEAD_MONO)
__CPROVER_ensures((__CPROVER_return_value == -1 && xv_errno > 0 && XC_RCV_SAME) || \
                  (__CPROVER_return_value >= 0 && (size_t)__CPROVER_return_value <= capacity && xv_delivered == __CPROVER_old(xv_delivered) + 1 && \
                       xv_rcv_rv == __CPROVER_return_value && xv_rcv_buf == buf && xv_rcv_cap == capacity))
;

/* ---- transport finish: never accepts or delivers a message; a failure other than "try again" means the connection died */
int xcm_tp_socket_finish(struct xcm_socket *s)
__CPROVER_requires(1)
__CPROVER_assigns(XC_FIN_FRAME)
__CPROVER_ensures(XC_DEAD_MONO && xv_fin_sock == s && xv_fin_rv == __CPROVER_return_value && (__CPROVER_return_value == -1 ==> xv_fin_errno == xv_errno))
__CPROVER_ensures(__CPROVER_return_value == 0 || (__CPROVER_return_value == -1 && xv_errno > 0 && (!XC_RETRY(xv_errno) ==> xv_conn_dead)))
;

/* ---- transport update: records the socket and the condition it saw */
void xcm_tp_socket_update(struct xcm_socket *s)
__CPROVER_requires(__CPROVER_r_ok(s, sizeof(struct xcm_socket)))
__CPROVER_assigns(xv_updated, xv_upd_cond, xv_upd_sock)
__CPROVER_ensures(xv_updated && xv_upd_cond == s->condition && xv_upd_sock == s)
;

bool xcm_tp_socket_is_bytestream(struct xcm_socket *s)
__CPROVER_requires(1)
__CPROVER_assigns()
__CPROVER_ensures(__CPROVER_return_value == (s == xv_sock ? xv_bytestream : __CPROVER_return_value))
;

/* ---- xpoll.c: the socket's one descriptor; errno untouched */
int xpoll_get_fd(struct xpoll *xpoll)
__CPROVER_requires(1)
__CPROVER_assigns(xv_fd_ret)
__CPROVER_ensures(__CPROVER_return_value >= 0 && xv_fd_ret == __CPROVER_return_value)
;

#include "contracts/end.h"
#endif
