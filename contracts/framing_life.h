/* contracts/framing_life.h -- lifecycle ladders of the framing transports (tcp/tls): init, connect, server, accept, close,
 * cleanup, deinit (C08).  The sub-socket (btcp/btls) is reached through xcm_tp_socket_*, ASSUMED here with a ghost
 * TYPESTATE for ONE tracked sub-socket xv_sub (never assigned: arbitrary, so every statement holds for every sub-socket):
 *   0 unknown/none  1 created  2 initialised  3 live (connected/bound/accepted: owes a close)
 *   4 failed (a connect/server/accept on it failed: the transport has cleaned up, close must NOT be called, xcm_tp.h)
 *   5 closed (or cleaned up)  6 destroyed
 * The stubs' preconditions make an illegal call an obligation; destroying a live sub-socket is counted as a leak. */
#ifndef XV_FRAMING_LIFE_H
#define XV_FRAMING_LIFE_H
#include "contracts/begin.h"
struct xcm_socket *xv_sub;          /* tracked sub-socket (never assigned) */
int xv_sub_state, xv_sub_leaked, xv_sub_closes, xv_sub_cleanups, xv_sub_destroys, xv_sub_creates;
#define XL_CNT_OK (xv_sub_leaked >= 0 && xv_sub_leaked < 1000 && xv_sub_closes >= 0 && xv_sub_closes < 1000 && xv_sub_cleanups >= 0 && xv_sub_cleanups < 1000 && \
                   xv_sub_destroys >= 0 && xv_sub_destroys < 1000 && xv_sub_creates >= 0 && xv_sub_creates < 1000 && xv_sub_state >= 0 && xv_sub_state <= 6)
#define XL_ASSIGNS xv_errno, xv_sub_state, xv_sub_leaked, xv_sub_closes, xv_sub_cleanups, xv_sub_destroys, xv_sub_creates
#define XL_TRK(s) ((s) == xv_sub)
#define XL_SAME (xv_sub_state == __CPROVER_old(xv_sub_state) && xv_sub_leaked == __CPROVER_old(xv_sub_leaked) && xv_sub_closes == __CPROVER_old(xv_sub_closes) && \
                 xv_sub_cleanups == __CPROVER_old(xv_sub_cleanups) && xv_sub_destroys == __CPROVER_old(xv_sub_destroys))

struct xcm_tp_proto *xcm_tp_proto_by_name(const char *proto_name)
__CPROVER_requires(1) __CPROVER_assigns() __CPROVER_ensures(__CPROVER_return_value != NULL);

struct xcm_socket *xcm_tp_socket_create(const struct xcm_tp_proto *proto, enum xcm_socket_type type, struct xpoll *xpoll, bool auto_enable_ctl, bool auto_update, bool is_blocking)
__CPROVER_requires(proto != NULL && !auto_enable_ctl && !auto_update && !is_blocking)
__CPROVER_assigns(XL_ASSIGNS)
__CPROVER_ensures(__CPROVER_return_value == NULL ? XL_SAME && xv_sub_creates == __CPROVER_old(xv_sub_creates) \
                  : (xv_sub_creates == __CPROVER_old(xv_sub_creates) + 1 && (XL_TRK(__CPROVER_return_value) ? xv_sub_state == 1 : xv_sub_state == __CPROVER_old(xv_sub_state)) && \
                     xv_sub_leaked == __CPROVER_old(xv_sub_leaked) && xv_sub_closes == __CPROVER_old(xv_sub_closes) && xv_sub_cleanups == __CPROVER_old(xv_sub_cleanups) && xv_sub_destroys == __CPROVER_old(xv_sub_destroys)));

int xcm_tp_socket_init(struct xcm_socket *s, struct xcm_socket *parent)
__CPROVER_requires(s != NULL && (XL_TRK(s) ==> xv_sub_state == 1))
__CPROVER_assigns(XL_ASSIGNS)
__CPROVER_ensures((__CPROVER_return_value == 0 || (__CPROVER_return_value == -1 && xv_errno > 0)) && xv_sub_creates == __CPROVER_old(xv_sub_creates) && \
                  xv_sub_leaked == __CPROVER_old(xv_sub_leaked) && xv_sub_closes == __CPROVER_old(xv_sub_closes) && xv_sub_cleanups == __CPROVER_old(xv_sub_cleanups) && xv_sub_destroys == __CPROVER_old(xv_sub_destroys) && \
                  xv_sub_state == ((XL_TRK(s) && __CPROVER_return_value == 0) ? 2 : __CPROVER_old(xv_sub_state)));

#define XL_OP_CONTRACT(sock) \
__CPROVER_requires((sock) != NULL && (XL_TRK(sock) ==> xv_sub_state == 2)) \
__CPROVER_assigns(XL_ASSIGNS) \
__CPROVER_ensures((__CPROVER_return_value == 0 || (__CPROVER_return_value == -1 && xv_errno > 0)) && xv_sub_creates == __CPROVER_old(xv_sub_creates) && \
                  xv_sub_leaked == __CPROVER_old(xv_sub_leaked) && xv_sub_closes == __CPROVER_old(xv_sub_closes) && xv_sub_cleanups == __CPROVER_old(xv_sub_cleanups) && xv_sub_destroys == __CPROVER_old(xv_sub_destroys) && \
                  xv_sub_state == (XL_TRK(sock) ? (__CPROVER_return_value == 0 ? 3 : 4) : __CPROVER_old(xv_sub_state)))
int xcm_tp_socket_connect(struct xcm_socket *s, const char *remote_addr) XL_OP_CONTRACT(s);
int xcm_tp_socket_server(struct xcm_socket *s, const char *local_addr) XL_OP_CONTRACT(s);
int xcm_tp_socket_accept(struct xcm_socket *conn_s, struct xcm_socket *server_s) XL_OP_CONTRACT(conn_s);

/* close / cleanup: legal on an initialised or live sub-socket only (never after a failed connect/server/accept, never twice) */
void xcm_tp_socket_close(struct xcm_socket *s)
__CPROVER_requires(s == NULL || !XL_TRK(s) || xv_sub_state == 2 || xv_sub_state == 3)
__CPROVER_assigns(xv_sub_state, xv_sub_closes)
__CPROVER_ensures((s != NULL && XL_TRK(s)) ? (xv_sub_state == 5 && xv_sub_closes == __CPROVER_old(xv_sub_closes) + 1) : (xv_sub_state == __CPROVER_old(xv_sub_state) && xv_sub_closes == __CPROVER_old(xv_sub_closes)));
void xcm_tp_socket_cleanup(struct xcm_socket *s)
__CPROVER_requires(s == NULL || !XL_TRK(s) || xv_sub_state == 2 || xv_sub_state == 3)
__CPROVER_assigns(xv_sub_state, xv_sub_cleanups)
__CPROVER_ensures((s != NULL && XL_TRK(s)) ? (xv_sub_state == 5 && xv_sub_cleanups == __CPROVER_old(xv_sub_cleanups) + 1) : (xv_sub_state == __CPROVER_old(xv_sub_state) && xv_sub_cleanups == __CPROVER_old(xv_sub_cleanups)));
/* destroy: once; a sub-socket that still owes a close (initialised or live: its init took registrations) is LEAKED by it */
void xcm_tp_socket_destroy(struct xcm_socket *s)
__CPROVER_requires(s == NULL || !XL_TRK(s) || xv_sub_state != 6)
__CPROVER_assigns(xv_sub_state, xv_sub_destroys, xv_sub_leaked)
__CPROVER_ensures(xv_sub_destroys == __CPROVER_old(xv_sub_destroys) + (s != NULL ? 1 : 0))     /* every destroy is counted, tracked or not */
__CPROVER_ensures((s != NULL && XL_TRK(s)) ? (xv_sub_state == 6 && xv_sub_leaked == __CPROVER_old(xv_sub_leaked) + ((__CPROVER_old(xv_sub_state) == 3 || __CPROVER_old(xv_sub_state) == 2) ? 1 : 0)) \
                  : (xv_sub_state == __CPROVER_old(xv_sub_state) && xv_sub_leaked == __CPROVER_old(xv_sub_leaked)));

#define XL_ADDR_CONV(fn) int fn(const char *a, char *b, size_t cap) __CPROVER_requires(cap >= 1 && __CPROVER_w_ok(b, cap)) \
    __CPROVER_assigns(xv_errno, __CPROVER_object_upto(b, cap)) __CPROVER_ensures(__CPROVER_return_value == 0 || (__CPROVER_return_value == -1 && xv_errno > 0))
XL_ADDR_CONV(tcp_to_btcp); XL_ADDR_CONV(tls_to_btls);

/* ---- the transport's own ladders */
#define XL_SOCK(s) (__CPROVER_is_fresh(s, XF_SIZE) && ((s)->type == xcm_socket_type_conn || (s)->type == xcm_socket_type_server))
#define XL_MBUFS_INIT(s) ((s)->type == xcm_socket_type_conn ==> (MBUF_SHAPE(SB(s)) && MBUF_MEM(SB(s)) && MBUF_SHAPE(RB(s)) && MBUF_MEM(RB(s))))
#define XL_MBUF_ASSIGNS(s) __CPROVER_assigns(XF_LOWER(s)) __CPROVER_frees(SB(s).wire_data, RB(s).wire_data)
#define XL_NO_LEAK (xv_sub_leaked == __CPROVER_old(xv_sub_leaked))

static int XFN(init)(struct xcm_socket *s, struct xcm_socket *parent)
__CPROVER_requires(XL_SOCK(s) && XL_CNT_OK && (parent != NULL ==> __CPROVER_is_fresh(parent, XF_SIZE)))
__CPROVER_assigns(XL_ASSIGNS, XF_LOWER(s), SB(s).wire_data, SB(s).wire_capacity, SB(s).wire_len, RB(s).wire_data, RB(s).wire_capacity, RB(s).wire_len)
/* PO[C08] init.failure_leaves_nothing: a failed init has destroyed whatever sub-socket it created */
__CPROVER_ensures(__CPROVER_return_value == -1 ==> (xv_sub_creates - __CPROVER_old(xv_sub_creates) == xv_sub_destroys - __CPROVER_old(xv_sub_destroys) && XL_NO_LEAK && xv_sub_closes == __CPROVER_old(xv_sub_closes)))
/* PO[C08] init.success_one_sub_socket: success holds exactly one new, initialised sub-socket and empty frame buffers */
__CPROVER_ensures(__CPROVER_return_value == 0 ==> (xv_sub_creates == __CPROVER_old(xv_sub_creates) + 1 && xv_sub_destroys == __CPROVER_old(xv_sub_destroys) && XF_LOWER(s) != NULL && \
                  (XL_TRK(XF_LOWER(s)) ==> xv_sub_state == 2) && (s->type == xcm_socket_type_conn ==> (SB(s).wire_len == 0 && SB(s).wire_data == NULL && RB(s).wire_len == 0 && RB(s).wire_data == NULL))))
;
#define XL_LADDER_REQ(s) (XL_SOCK(s) && XL_CNT_OK && XF_LOWER(s) != NULL && XF_LOWER(s) == xv_sub && XL_MBUFS_INIT(s))
static int XFN(connect)(struct xcm_socket *s, const char *remote_addr)
__CPROVER_requires(XL_LADDER_REQ(s) && s->type == xcm_socket_type_conn && xv_sub_state == 2 && __CPROVER_is_fresh(remote_addr, 8))
__CPROVER_assigns(XL_ASSIGNS) XL_MBUF_ASSIGNS(s)
/* PO[C08] connect.failure_cleans_up: after a failed connect the sub-socket is gone (closed first if the failure came before the sub-socket was asked to connect), never leaked, never closed after its own failure */
__CPROVER_ensures(__CPROVER_return_value == -1 ==> (xv_sub_state == 6 && XL_NO_LEAK && xv_sub_destroys == __CPROVER_old(xv_sub_destroys) + 1 && XF_LOWER(s) == NULL))
/* PO[C08] connect.success_keeps_live */
__CPROVER_ensures(__CPROVER_return_value == 0 ==> (xv_sub_state == 3 && xv_sub_destroys == __CPROVER_old(xv_sub_destroys) && xv_sub_closes == __CPROVER_old(xv_sub_closes) && XF_LOWER(s) == xv_sub))
;
static int XFN(server)(struct xcm_socket *s, const char *local_addr)
__CPROVER_requires(XL_LADDER_REQ(s) && s->type == xcm_socket_type_server && xv_sub_state == 2 && __CPROVER_is_fresh(local_addr, 8))
__CPROVER_assigns(XL_ASSIGNS) XL_MBUF_ASSIGNS(s)
/* PO[C08] server.failure_cleans_up */
__CPROVER_ensures(__CPROVER_return_value == -1 ==> (xv_sub_state == 6 && XL_NO_LEAK && xv_sub_destroys == __CPROVER_old(xv_sub_destroys) + 1 && XF_LOWER(s) == NULL))
/* PO[C08] server.success_keeps_live */
__CPROVER_ensures(__CPROVER_return_value == 0 ==> (xv_sub_state == 3 && xv_sub_destroys == __CPROVER_old(xv_sub_destroys) && xv_sub_closes == __CPROVER_old(xv_sub_closes)))
;
static int XFN(accept)(struct xcm_socket *conn_s, struct xcm_socket *server_s)
__CPROVER_requires(XL_LADDER_REQ(conn_s) && conn_s->type == xcm_socket_type_conn && xv_sub_state == 2 && __CPROVER_is_fresh(server_s, XF_SIZE) && XF_LOWER(server_s) != NULL && XF_LOWER(server_s) != xv_sub)
__CPROVER_assigns(XL_ASSIGNS) XL_MBUF_ASSIGNS(conn_s)
/* PO[C08] accept.failure_cleans_up */
__CPROVER_ensures(__CPROVER_return_value == -1 ==> (xv_sub_state == 6 && XL_NO_LEAK && xv_sub_destroys == __CPROVER_old(xv_sub_destroys) + 1 && xv_sub_closes == __CPROVER_old(xv_sub_closes)))
/* PO[C08] accept.success_keeps_live */
__CPROVER_ensures(__CPROVER_return_value == 0 ==> (xv_sub_state == 3 && xv_sub_destroys == __CPROVER_old(xv_sub_destroys)))
;
static void XFN(close)(struct xcm_socket *s)
__CPROVER_requires(s == NULL || (XL_LADDER_REQ(s) && (xv_sub_state == 2 || xv_sub_state == 3)))
__CPROVER_assigns(XL_ASSIGNS)
__CPROVER_assigns(s != NULL: XF_LOWER(s))
__CPROVER_frees(s != NULL: SB(s).wire_data, RB(s).wire_data)
/* PO[C08] close.closes_then_destroys_once: the sub-socket is closed exactly once, then destroyed exactly once: nothing leaked */
__CPROVER_ensures(s != NULL ==> (xv_sub_state == 6 && xv_sub_closes == __CPROVER_old(xv_sub_closes) + 1 && xv_sub_destroys == __CPROVER_old(xv_sub_destroys) + 1 && XL_NO_LEAK && xv_sub_cleanups == __CPROVER_old(xv_sub_cleanups)))
__CPROVER_ensures(s == NULL ==> XL_SAME)
;
static void XFN(cleanup)(struct xcm_socket *s)
__CPROVER_requires(s == NULL || (XL_LADDER_REQ(s) && (xv_sub_state == 2 || xv_sub_state == 3)))
__CPROVER_assigns(XL_ASSIGNS)
__CPROVER_assigns(s != NULL: XF_LOWER(s))
__CPROVER_frees(s != NULL: SB(s).wire_data, RB(s).wire_data)
/* PO[C08] cleanup.process_local: cleanup (forked child) cleans the sub-socket up - never closes it - then destroys it */
__CPROVER_ensures(s != NULL ==> (xv_sub_state == 6 && xv_sub_cleanups == __CPROVER_old(xv_sub_cleanups) + 1 && xv_sub_destroys == __CPROVER_old(xv_sub_destroys) + 1 && XL_NO_LEAK && xv_sub_closes == __CPROVER_old(xv_sub_closes)))
;
#include "contracts/end.h"
#endif
