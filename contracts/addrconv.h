/* contracts/addrconv.h -- GEN_ADDR_CONV rewrites of libxcm/tp/common/common_tp.c (C12): X_to_Y parses with the parser of
 * transport X and makes with the maker of transport Y, same host and port, the caller's buffer and capacity; success iff
 * both succeed.  xcm_addr_parse_X / xcm_addr_make_Y (unit addr) are ASSUMED, with a ghost record of the calls. */
#ifndef XV_ADDRCONV_H
#define XV_ADDRCONV_H
#include "contracts/begin.h"
enum { XA_TCP, XA_BTCP, XA_TLS, XA_BTLS, XA_UTLS };
int xa_parse_calls, xa_parse_which, xa_parse_rv, xa_make_calls, xa_make_which, xa_make_rv; uint16_t xa_port; uint8_t xa_host_byte; char *xa_make_out; size_t xa_make_cap; const char *xa_parse_in;
uint16_t xa_make_port; uint8_t xa_make_host_byte; long xa_hb;   /* xa_hb: arbitrary byte offset into struct xcm_addr_host (never assigned) */
#define XA_ASSIGNS xv_errno, xa_parse_calls, xa_parse_which, xa_parse_rv, xa_make_calls, xa_make_which, xa_make_rv, xa_port, xa_host_byte, xa_make_out, xa_make_cap, xa_parse_in, xa_make_port, xa_make_host_byte
#define XA_HB_OK (xa_hb >= 0 && xa_hb < (long)sizeof(struct xcm_addr_host))
#define XA_PARSE(fn, which) int fn(const char *addr_s, struct xcm_addr_host *host, uint16_t *port) \
    __CPROVER_requires(__CPROVER_w_ok(host, sizeof(*host)) && __CPROVER_w_ok(port, sizeof(*port)) && XA_HB_OK) \
    __CPROVER_assigns(xv_errno, xa_parse_calls, xa_parse_which, xa_parse_rv, xa_port, xa_host_byte, xa_parse_in, __CPROVER_object_upto(host, sizeof(*host)), *port) \
    __CPROVER_ensures(xa_parse_calls == __CPROVER_old(xa_parse_calls) + 1 && xa_parse_which == (which) && xa_parse_rv == __CPROVER_return_value && xa_parse_in == addr_s && \
                      (__CPROVER_return_value == 0 || (__CPROVER_return_value == -1 && xv_errno > 0)) && \
                      (__CPROVER_return_value == 0 ==> (xa_port == *port && xa_host_byte == ((const uint8_t *)host)[xa_hb])))
#define XA_MAKE(fn, which, PT) int fn(const struct xcm_addr_host *host, PT port, char *out, size_t capacity) \
    __CPROVER_requires(__CPROVER_r_ok(host, sizeof(*host)) && XA_HB_OK) \
    __CPROVER_assigns(xv_errno, xa_make_calls, xa_make_which, xa_make_rv, xa_make_out, xa_make_cap, xa_make_port, xa_make_host_byte) \
    __CPROVER_ensures(xa_make_calls == __CPROVER_old(xa_make_calls) + 1 && xa_make_which == (which) && xa_make_rv == __CPROVER_return_value && xa_make_out == out && xa_make_cap == capacity && \
                      xa_make_port == port && xa_make_host_byte == ((const uint8_t *)host)[xa_hb] && (__CPROVER_return_value == 0 || (__CPROVER_return_value == -1 && xv_errno > 0)))
XA_PARSE(xcm_addr_parse_tcp, XA_TCP); XA_PARSE(xcm_addr_parse_btcp, XA_BTCP); XA_PARSE(xcm_addr_parse_tls, XA_TLS); XA_PARSE(xcm_addr_parse_btls, XA_BTLS); XA_PARSE(xcm_addr_parse_utls, XA_UTLS);
XA_MAKE(xcm_addr_make_tcp, XA_TCP, uint16_t); XA_MAKE(xcm_addr_make_btcp, XA_BTCP, unsigned short); XA_MAKE(xcm_addr_make_tls, XA_TLS, uint16_t); XA_MAKE(xcm_addr_make_btls, XA_BTLS, unsigned short); XA_MAKE(xcm_addr_make_utls, XA_UTLS, uint16_t);

#define XA_CONV_CONTRACT(fn, from, to) int fn(const char *in, char *out, size_t capacity) \
    __CPROVER_requires(__CPROVER_is_fresh(in, 8) && capacity <= 1024 && __CPROVER_is_fresh(out, capacity == 0 ? 1 : capacity) && XA_HB_OK && xa_parse_calls >= 0 && xa_parse_calls < 1000 && xa_make_calls >= 0 && xa_make_calls < 1000) \
    __CPROVER_assigns(XA_ASSIGNS) \
    __CPROVER_ensures(xa_parse_calls == __CPROVER_old(xa_parse_calls) + 1 && xa_parse_which == (from) && xa_parse_in == in) \
    __CPROVER_ensures(xa_parse_rv == 0 ? (xa_make_calls == __CPROVER_old(xa_make_calls) + 1 && xa_make_which == (to) && xa_make_out == out && xa_make_cap == capacity && \
                                          xa_make_port == xa_port && xa_make_host_byte == xa_host_byte && __CPROVER_return_value == (xa_make_rv == 0 ? 0 : -1)) \
                                       : (xa_make_calls == __CPROVER_old(xa_make_calls) && __CPROVER_return_value == -1))
/* PO[C12] btcp_to_tcp.parse_then_make_same_components */
XA_CONV_CONTRACT(btcp_to_tcp, XA_BTCP, XA_TCP);
/* PO[C12] tcp_to_btcp.parse_then_make_same_components */
XA_CONV_CONTRACT(tcp_to_btcp, XA_TCP, XA_BTCP);
/* PO[C12] btcp_to_btls.parse_then_make_same_components */
XA_CONV_CONTRACT(btcp_to_btls, XA_BTCP, XA_BTLS);
/* PO[C12] btls_to_btcp.parse_then_make_same_components */
XA_CONV_CONTRACT(btls_to_btcp, XA_BTLS, XA_BTCP);
/* PO[C12] btls_to_tls.parse_then_make_same_components */
XA_CONV_CONTRACT(btls_to_tls, XA_BTLS, XA_TLS);
/* PO[C12] tls_to_btls.parse_then_make_same_components */
XA_CONV_CONTRACT(tls_to_btls, XA_TLS, XA_BTLS);
/* PO[C12] utls_to_tls.parse_then_make_same_components */
XA_CONV_CONTRACT(utls_to_tls, XA_UTLS, XA_TLS);
/* PO[C12] tls_to_utls.parse_then_make_same_components */
XA_CONV_CONTRACT(tls_to_utls, XA_TLS, XA_UTLS);
#include "contracts/end.h"
#endif
