/* contracts/cert.h -- unit `cert`: libxcm/tp/tls/item.c (C18, C14, C08), common/slist.c (C10, C08), libxcm/tp/tls/cert.c (C09, C10,
 * C14, C08).  Attached to the REAL functions by redeclaration after the TUs have been #included.
 * Environment and vocabulary: env/cert_env.h, harness/cert/_ghost.h.  Strings are GHOST-LENGTH strings (objects of exactly
 * L+1 bytes, NUL at L, L arbitrary); what is said about "every byte" is said about the byte at the arbitrary offset xv_mc
 * (prelude.h; never assigned), i.e. proved for every offset.  Bounded stand-ins (-DXV_STR_EXACT) are plain harnesses. */
#ifndef XV_CERT_H
#define XV_CERT_H
#include "contracts/begin.h"

/* a string of exactly L characters */
#define XC_STR(p, L) ((L) <= XC_STR_MAX && __CPROVER_is_fresh((p), (L) + 1) && (p)[L] == 0 && (xv_mc < (L) ==> (p)[xv_mc] != 0))
/* `dst` is a block nobody else refers to that holds a copy of the L-character string `src` */
#define XC_COPY_OF(dst, src, L) (__CPROVER_is_fresh((dst), (L) + 1) && (dst)[L] == 0 && (xv_mc < (L) ==> (dst)[xv_mc] == (src)[xv_mc]))
#define XC_DUP_ASSIGNS xv_dup_calls, xv_dup_ret, xv_dup_len, xv_dup_byte
#define XC_LD_ASSIGNS xv_ld_calls, xv_ld_name, xv_ld_out, xv_ld_ret, xv_ld_data

/* ================================================================================================================ */
/* item.c: how a credential is designated on a socket                                                                */
/* ================================================================================================================ */
#define XC_ITYPE_OK(i) ((i)->type == item_type_none || (i)->type == item_type_file || (i)->type == item_type_value)
/* representation invariant: unset <=> no data; set => data is an owned string (file name or value) */
#define XC_ITEM(i, L) (__CPROVER_is_fresh((i), sizeof(struct item)) && XC_ITYPE_OK(i) && \
                       ((i)->type != item_type_none ==> XC_STR((i)->data, L)) && ((i)->type == item_type_none ==> (i)->data == NULL))
#define XC_WAS_SET(i) (__CPROVER_old((i)->type) != item_type_none ? 1 : 0)

void item_init(struct item *item)
__CPROVER_requires(__CPROVER_is_fresh(item, sizeof(struct item)))
__CPROVER_assigns(*item)
/* PO[C18] item_init.nothing_designated */
__CPROVER_ensures(item->type == item_type_none && item->data == NULL && !item->sensitive)
;

bool item_is_set(const struct item *item)
__CPROVER_requires(__CPROVER_is_fresh(item, sizeof(struct item)))
__CPROVER_assigns()
/* PO[C18] item_is_set.iff_something_is_designated */
__CPROVER_ensures((__CPROVER_return_value ? 1 : 0) == (item->type != item_type_none ? 1 : 0))
;

void item_deinit(struct item *item)
__CPROVER_requires(item == NULL || XC_ITEM(item, xv_l1))
__CPROVER_requires(XV_LIVE_OK(xv_heap_live))
__CPROVER_assigns(xv_heap_live; item != NULL: *item)
__CPROVER_frees(item != NULL && item->type != item_type_none: item->data)
/* PO[C08,C18] item_deinit.unset_and_its_data_released_exactly_once */
__CPROVER_ensures(item != NULL ==> (item->type == item_type_none && item->data == NULL && xv_heap_live == __CPROVER_old(xv_heap_live) - XC_WAS_SET(item)))
__CPROVER_ensures(item == NULL ==> xv_heap_live == __CPROVER_old(xv_heap_live))
;

void item_set_file(struct item *item, const char *filename, bool sensitive)
__CPROVER_requires(XC_ITEM(item, xv_l1) && XC_STR(filename, xv_l2) && XV_LIVE_OK(xv_heap_live) && XV_LIVE_OK(xv_dup_calls))
__CPROVER_assigns(*item, xv_heap_live, XC_DUP_ASSIGNS)
__CPROVER_frees(item->type != item_type_none: item->data)
/* PO[C18] item_set_file.by_file_replaces_whatever_was_designated */
__CPROVER_ensures(item->type == item_type_file && !item->sensitive == !sensitive)
/* PO[C18] item_set_file.owned_copy_of_exactly_the_name */
__CPROVER_ensures(XC_COPY_OF(item->data, filename, xv_l2))
/* PO[C08] item_set_file.previous_designation_released */
__CPROVER_ensures(xv_heap_live == __CPROVER_old(xv_heap_live) + 1 - XC_WAS_SET(item))
;

void item_set_value(struct item *item, const char *value, bool sensitive)
__CPROVER_requires(XC_ITEM(item, xv_l1) && XC_STR(value, xv_l2) && XV_LIVE_OK(xv_heap_live) && XV_LIVE_OK(xv_dup_calls) && xv_nd_str)
__CPROVER_assigns(*item, xv_heap_live, XC_DUP_ASSIGNS)
__CPROVER_frees(item->type != item_type_none: item->data)
/* PO[C18] item_set_value.by_value_replaces_whatever_was_designated */
__CPROVER_ensures(item->type == item_type_value && !item->sensitive == !sensitive)
/* PO[C18] item_set_value.owned_copy_of_exactly_the_value */
__CPROVER_ensures(__CPROVER_is_fresh(item->data, xv_dup_len + 1) && xv_dup_len == xv_l2 && item->data[xv_l2] == 0 && (xv_mc < xv_l2 ==> item->data[xv_mc] == value[xv_mc]))
/* PO[C08] item_set_value.previous_designation_released */
__CPROVER_ensures(xv_heap_live == __CPROVER_old(xv_heap_live) + 1 - XC_WAS_SET(item))
;

/* value: EXACTLY len bytes (what xcm_attr_set hands down for a binary attribute; not terminated); len == 0: any pointer.
 * The copy made is the first xv_dup_len bytes, where xv_dup_len == len, or the value has a NUL there (strndup semantics;
 * set_value_attr() refuses values with a NUL before it gets here) */
void item_set_value_n(struct item *item, const char *value, size_t len, bool sensitive)
__CPROVER_requires(XC_ITEM(item, xv_l1) && len <= XC_STR_MAX && (len > 0 ==> __CPROVER_is_fresh(value, len)) && XV_LIVE_OK(xv_heap_live) && XV_LIVE_OK(xv_dup_calls) && !xv_nd_str)
__CPROVER_assigns(*item, xv_heap_live, XC_DUP_ASSIGNS)
__CPROVER_frees(item->type != item_type_none: item->data)
/* PO[C18] item_set_value_n.by_value_replaces_whatever_was_designated */
__CPROVER_ensures(item->type == item_type_value && !item->sensitive == !sensitive)
/* PO[C18] item_set_value_n.owned_copy_of_exactly_the_designated_bytes_up_to_a_nul */
__CPROVER_ensures(xv_dup_len <= len && __CPROVER_is_fresh(item->data, xv_dup_len + 1) && item->data[xv_dup_len] == 0 && \
                  (xv_mc < xv_dup_len ==> (item->data[xv_mc] == value[xv_mc] && value[xv_mc] != 0)) && (xv_dup_len < len ==> value[xv_dup_len] == 0))
/* PO[C08] item_set_value_n.previous_designation_released */
__CPROVER_ensures(xv_heap_live == __CPROVER_old(xv_heap_live) + 1 - XC_WAS_SET(item))
;

const char *item_unsensitive_data(const struct item *item)
__CPROVER_requires(XC_ITEM(item, xv_l1))
__CPROVER_assigns()
/* PO[C14] item_unsensitive_data.data_of_a_sensitive_item_is_never_returned */
__CPROVER_ensures((item->sensitive && item->type != item_type_none) ==> !__CPROVER_same_object(__CPROVER_return_value, item->data))
__CPROVER_ensures(item->sensitive ==> (__CPROVER_return_value != NULL && __CPROVER_return_value[0] == '<'))
__CPROVER_ensures(!item->sensitive ==> __CPROVER_return_value == item->data)
;

int item_load(const struct item *item, char **data)
__CPROVER_requires(XC_ITEM(item, xv_l1) && __CPROVER_is_fresh(data, sizeof(char *)) && XV_LIVE_OK(xv_heap_live) && XV_LIVE_OK(xv_dup_calls) && XV_LIVE_OK(xv_ld_calls))
__CPROVER_assigns(*data, xv_errno, xv_heap_live, XC_DUP_ASSIGNS, XC_LD_ASSIGNS)
/* PO[C18] item_load.unset_item_gives_no_data */
__CPROVER_ensures(item->type == item_type_none ==> (__CPROVER_return_value == 0 && *data == NULL && xv_heap_live == __CPROVER_old(xv_heap_live) && \
                  xv_ld_calls == __CPROVER_old(xv_ld_calls) && xv_errno == __CPROVER_old(xv_errno)))
/* PO[C18] item_load.value_item_gives_an_owned_copy_of_the_value */
__CPROVER_ensures(item->type == item_type_value ==> (__CPROVER_return_value == 0 && XC_COPY_OF(*data, item->data, xv_l1) && xv_heap_live == __CPROVER_old(xv_heap_live) + 1 && \
                  xv_ld_calls == __CPROVER_old(xv_ld_calls) && xv_errno == __CPROVER_old(xv_errno)))
/* PO[C18] item_load.file_item_gives_the_content_read_now_or_fails */
__CPROVER_ensures(item->type == item_type_file ==> (xv_ld_calls == __CPROVER_old(xv_ld_calls) + 1 && xv_ld_name == item->data && xv_ld_out == data && __CPROVER_return_value == xv_ld_ret))
__CPROVER_ensures((item->type == item_type_file && __CPROVER_return_value < 0) ==> (__CPROVER_return_value == -1 && xv_heap_live == __CPROVER_old(xv_heap_live) && \
                  (*data == NULL || *data == __CPROVER_old(*data))))
__CPROVER_ensures((item->type == item_type_file && __CPROVER_return_value >= 0) ==> (__CPROVER_return_value >= 1 && *data == xv_ld_data && \
                  __CPROVER_is_fresh(*data, (size_t)__CPROVER_return_value) && (*data)[__CPROVER_return_value - 1] == 0 && xv_heap_live == __CPROVER_old(xv_heap_live) + 1))
;

void item_copy(const struct item *src_item, struct item *dst_item)
__CPROVER_requires(XC_ITEM(src_item, xv_l1) && XC_ITEM(dst_item, xv_l2) && XV_LIVE_OK(xv_heap_live) && XV_LIVE_OK(xv_dup_calls))
__CPROVER_assigns(*dst_item, xv_heap_live, XC_DUP_ASSIGNS)
__CPROVER_frees(dst_item->type != item_type_none: dst_item->data)
/* PO[C18] item_copy.destination_designates_what_the_source_designates */
__CPROVER_ensures(dst_item->type == src_item->type)
/* PO[C18] item_copy.deep_copy_no_aliasing */
__CPROVER_ensures(src_item->type != item_type_none ==> XC_COPY_OF(dst_item->data, src_item->data, xv_l1))
__CPROVER_ensures(src_item->type == item_type_none ==> dst_item->data == NULL)
/* PO[C14,C18] item_copy.sensitivity_is_copied_too */
__CPROVER_ensures(src_item->type != item_type_none ==> !dst_item->sensitive == !src_item->sensitive)
/* PO[C08] item_copy.previous_designation_released */
__CPROVER_ensures(xv_heap_live == __CPROVER_old(xv_heap_live) + (src_item->type != item_type_none ? 1 : 0) - XC_WAS_SET(dst_item))
;

/* ================================================================================================================ */
/* slist.c: a list of strings as a finite sequence                                                                   */
/* ================================================================================================================ */
/* representation: len elements in a block of exactly len pointers (none for the empty list); lists of 0..XC_LIST_MAX
 * elements; what is said about "every element" is said about element xv_ce (never assigned): on entry it is the string
 * xv_g_elem of xv_l3 characters */
#define XC_PTRS(n) ((n) * sizeof(char *))
#define XC_SLIST_SHAPE(l) ((l)->len <= XC_LIST_MAX && ((l)->len > 0 ==> __CPROVER_is_fresh((l)->elems, XC_PTRS((l)->len))) && ((l)->len == 0 ==> (l)->elems == NULL))
#define XC_SLIST(l) (__CPROVER_is_fresh((l), sizeof(struct slist)) && XC_SLIST_SHAPE(l))
#define XC_ELEM(l) (xv_ce < (l)->len ==> (XC_STR((l)->elems[xv_ce], xv_l3) && xv_g_elem == (l)->elems[xv_ce]))

struct slist *slist_create(void)
__CPROVER_requires(XV_LIVE_OK(xv_heap_live))
__CPROVER_assigns(xv_heap_live)
/* PO[C10,C08] slist_create.empty_list_owned_by_the_caller */
__CPROVER_ensures(__CPROVER_is_fresh(__CPROVER_return_value, sizeof(struct slist)) && __CPROVER_return_value->len == 0 && __CPROVER_return_value->elems == NULL && \
                  xv_heap_live == __CPROVER_old(xv_heap_live) + 1)
;

size_t slist_len(const struct slist *slist)
__CPROVER_requires(__CPROVER_is_fresh(slist, sizeof(struct slist)))
__CPROVER_assigns()
/* PO[C10] slist_len.number_of_elements */
__CPROVER_ensures(__CPROVER_return_value == slist->len)
;

/* slist_get does not check the index: index < len is the CALLER's obligation (every caller loops below slist_len()) */
const char *slist_get(const struct slist *slist, size_t index)
__CPROVER_requires(XC_SLIST(slist) && XC_ELEM(slist) && index < slist->len)
__CPROVER_assigns()
/* PO[C10] slist_get.the_element_at_index */
__CPROVER_ensures(__CPROVER_return_value == slist->elems[index] && (index == xv_ce ==> __CPROVER_return_value == xv_g_elem))
;

/* append: str == NULL appends a NULL element; otherwise the new element is an owned string made of the first str_len bytes of str */
/* xv_trust_shape (ghost, never assigned): TRUE only in the job of slist_split, whose loop contract cannot carry the heap shape
 * of the list under construction (a loop invariant cannot re-validate the pointer slist->elems havocked at the loop head).
 * There the call of append() is replaced by this contract with the shape part of the precondition TRUSTED (and the
 * release of the old pointer block not modelled); what slist_split builds with the REAL append is checked in the bounded job
 * cert.slist_split_b.  In the job that proves append itself the flag is FALSE. */
static void append(struct slist *slist, const char *str, size_t str_len)
__CPROVER_requires(__CPROVER_is_fresh(slist, sizeof(struct slist)) && slist->len < XC_LIST_MAX && XV_LIVE_OK2(xv_heap_live))
__CPROVER_requires(!xv_trust_shape ==> (XC_SLIST_SHAPE(slist) && XC_ELEM(slist)))
__CPROVER_requires(!xv_trust_shape ==> (str == NULL || (str_len <= XC_STR_MAX && __CPROVER_is_fresh(str, str_len == 0 ? 1 : str_len))))
__CPROVER_requires(xv_trust_shape ==> (str == NULL || (str_len <= XC_STR_MAX && (str_len == 0 || __CPROVER_r_ok(str, str_len)))))
__CPROVER_assigns(*slist, xv_heap_live)
__CPROVER_frees(!xv_trust_shape: slist->elems)
/* PO[C10] append.one_element_longer_in_a_block_of_its_own */
__CPROVER_ensures(slist->len == __CPROVER_old(slist->len) + 1 && __CPROVER_is_fresh(slist->elems, XC_PTRS(slist->len)))
/* PO[C10] append.earlier_elements_kept */
__CPROVER_ensures(xv_ce < __CPROVER_old(slist->len) ==> slist->elems[xv_ce] == xv_g_elem)
/* PO[C10,C08] append.new_element_is_an_owned_copy_of_exactly_the_designated_bytes */
__CPROVER_ensures(str != NULL ==> (__CPROVER_is_fresh(slist->elems[slist->len - 1], str_len + 1) && slist->elems[slist->len - 1][str_len] == 0 && \
                                   ((xv_mc < str_len && !xv_trust_shape) ==> slist->elems[slist->len - 1][xv_mc] == str[xv_mc])))
__CPROVER_ensures(str == NULL ==> slist->elems[slist->len - 1] == NULL)
/* PO[C08] append.blocks_owned_by_the_list */
__CPROVER_ensures(xv_heap_live == __CPROVER_old(xv_heap_live) + (__CPROVER_old(slist->len) == 0 ? 1 : 0) + (str != NULL ? 1 : 0))
;

void slist_append(struct slist *slist, const char *str)
__CPROVER_requires(XC_SLIST(slist) && slist->len < XC_LIST_MAX && XC_ELEM(slist) && XV_LIVE_OK(xv_heap_live))
__CPROVER_requires(str == NULL || XC_STR(str, xv_l1))
__CPROVER_assigns(*slist, xv_heap_live)
__CPROVER_frees(slist->elems)
/* PO[C10] slist_append.one_element_longer_in_a_block_of_its_own */
__CPROVER_ensures(slist->len == __CPROVER_old(slist->len) + 1 && __CPROVER_is_fresh(slist->elems, XC_PTRS(slist->len)))
/* PO[C10] slist_append.earlier_elements_kept */
__CPROVER_ensures(xv_ce < __CPROVER_old(slist->len) ==> slist->elems[xv_ce] == xv_g_elem)
/* PO[C10,C08] slist_append.new_element_is_an_owned_copy_of_the_string */
__CPROVER_ensures(str != NULL ==> XC_COPY_OF(slist->elems[slist->len - 1], str, xv_l1))
__CPROVER_ensures(str == NULL ==> slist->elems[slist->len - 1] == NULL)
/* PO[C08] slist_append.blocks_owned_by_the_list */
__CPROVER_ensures(xv_heap_live == __CPROVER_old(xv_heap_live) + (__CPROVER_old(slist->len) == 0 ? 1 : 0) + (str != NULL ? 1 : 0))
;

/* slist_split: str is ANY string of 0..2^16 characters (tls.peer_names values come from the application).  Proved for every such
 * string and every delimiter: memory safety (every piece handed to append() lies inside the string: append's precondition),
 * the result is a list the caller owns, empty for the empty string, of 1..length+1 elements otherwise.  WHICH pieces: job
 * cert.slist_split_b (bounded, exact). */
struct slist *slist_split(const char *str, char delim)
__CPROVER_requires(xv_l1 < XC_STR_MAX && XC_STR(xv_g_str, xv_l1) && str == xv_g_str && XV_LIVE_OK(xv_heap_live) && xv_heap_live == xv_heap0 && xv_trust_shape)
__CPROVER_assigns(xv_heap_live, xv_scn_len)
/* PO[C10,C08] slist_split.result_is_a_list_the_caller_owns */
__CPROVER_ensures(__CPROVER_is_fresh(__CPROVER_return_value, sizeof(struct slist)) && __CPROVER_return_value->len <= xv_l1 + 1)
/* PO[C10] slist_split.empty_string_gives_the_empty_list */
__CPROVER_ensures(xv_l1 == 0 ==> (__CPROVER_return_value->len == 0 && __CPROVER_return_value->elems == NULL))
__CPROVER_ensures(xv_l1 > 0 ==> __CPROVER_return_value->len >= 1)
/* PO[C08] slist_split.blocks_owned_by_the_list */
__CPROVER_ensures(xv_heap_live == __CPROVER_old(xv_heap_live) + 1 + (__CPROVER_return_value->len > 0 ? 1 : 0) + (long)__CPROVER_return_value->len)
;

/* ================================================================================================================ */
/* cert.c: what XCM reads out of the peer's certificate (OpenSSL model: env/cert_env.h)                              */
/* ================================================================================================================ */
_Static_assert(sizeof(struct get_san_param) == sizeof(struct xv_idx_param) && sizeof(struct get_dir_cn_param) == sizeof(struct xv_idx_param) &&
               __builtin_offsetof(struct get_san_param, current_index) == 0 && __builtin_offsetof(struct get_san_param, target_index) == sizeof(size_t) &&
               __builtin_offsetof(struct get_san_param, name) == 2 * sizeof(size_t) && __builtin_offsetof(struct get_dir_cn_param, current_index) == 0 &&
               __builtin_offsetof(struct get_dir_cn_param, target_index) == sizeof(size_t) && __builtin_offsetof(struct get_dir_cn_param, cn) == 2 * sizeof(size_t),
               "struct xv_idx_param (harness/cert/_ghost.h) mirrors get_san_param / get_dir_cn_param of cert.c");
#define XC_NM_ASSIGNS xv_nm_calls, xv_nm_name, xv_nm_fills, xv_nm_fill_name, xv_nm_buf, xv_nm_fill_len
/* the model's ghost constants are consistent: the first NUL of the value is at xv_cn_z (== length: none) */
#define XC_CN_OK (xv_cn_len >= 0 && xv_cn_len <= XV_ASN1_MAX && xv_cn_z >= 0 && xv_cn_z <= xv_cn_len && (xv_mc < (size_t)xv_cn_z ==> xv_cn_byte != 0) && \
                  ((xv_mc == (size_t)xv_cn_z && xv_cn_z < xv_cn_len) ==> xv_cn_byte == 0) && XV_LIVE_OK2(xv_heap_live) && XV_LIVE_OK(xv_nm_calls) && XV_LIVE_OK(xv_nm_fills))
/* the string returned for a name that has a commonName: a block of the caller's holding the xv_cn_len bytes of its value
 * and a terminator (what the bytes are: byte xv_mc is the value's byte xv_mc) */
#define XC_CN_STRING(r) (__CPROVER_is_fresh((r), (size_t)xv_cn_len + 1) && (r)[xv_cn_len] == 0 && (xv_mc < (size_t)xv_cn_len ==> (r)[xv_mc] == xv_cn_byte))

static char *get_cn(const X509_NAME *x509_name)
__CPROVER_requires(XC_CN_OK)
__CPROVER_assigns(xv_heap_live, XC_NM_ASSIGNS)
/* PO[C10,C14] get_cn.NULL_when_the_name_has_no_common_name */
__CPROVER_ensures((x509_name == NULL || !xv_cn_present) ==> (__CPROVER_return_value == NULL && xv_nm_fills == __CPROVER_old(xv_nm_fills) && xv_nm_calls == __CPROVER_old(xv_nm_calls) + 1))
/* PO[C10,C14] get_cn.common_name_without_embedded_nul_is_returned */
__CPROVER_ensures((x509_name != NULL && xv_cn_present && xv_cn_z == xv_cn_len) ==> __CPROVER_return_value != NULL)
/* PO[C10,C14,C08] get_cn.owned_terminated_copy_of_the_common_name_or_nothing */
__CPROVER_ensures(__CPROVER_return_value != NULL ==> (XC_CN_STRING(__CPROVER_return_value) && xv_heap_live == __CPROVER_old(xv_heap_live) + 1 && xv_nm_buf == __CPROVER_return_value))
__CPROVER_ensures(__CPROVER_return_value == NULL ==> xv_heap_live == __CPROVER_old(xv_heap_live))
/* PO[C10] get_cn.openssl_is_given_the_whole_block_and_this_name */
__CPROVER_ensures((x509_name != NULL && xv_cn_present) ==> (xv_nm_fills == __CPROVER_old(xv_nm_fills) + 1 && xv_nm_fill_name == x509_name && xv_nm_buf != NULL && \
                                                            xv_nm_fill_len == xv_cn_len + 1 && xv_nm_calls == __CPROVER_old(xv_nm_calls) + 2))
__CPROVER_ensures(xv_nm_name == x509_name)
#ifdef XC_JOB_GET_CN
/* (only where the contract is ENFORCED: it does not hold on the current tree, see the report; assuming it at a replaced
 * call would hide the certificates it is about)
 * a common name with an embedded NUL ("good.example\0.evil") must not be reported as the C string before the NUL */
/* PO[C09] get_cn.name_with_embedded_nul_is_not_reported_as_its_prefix */
__CPROVER_ensures(__CPROVER_return_value != NULL ==> (xv_cn_z == xv_cn_len && (xv_mc < (size_t)xv_cn_len ==> __CPROVER_return_value[xv_mc] != 0)))
#endif
;

char *cert_get_subject_field_cn(X509 *cert)
__CPROVER_requires(cert == XV_CERT && XC_CN_OK && XV_LIVE_OK(xv_subj_calls))
__CPROVER_assigns(xv_heap_live, XC_NM_ASSIGNS, xv_subj_calls)
/* PO[C10,C14] cert_get_subject_field_cn.NULL_when_the_subject_has_no_common_name */
__CPROVER_ensures((xv_subj_null || !xv_cn_present) ==> __CPROVER_return_value == NULL)
/* PO[C10,C14] cert_get_subject_field_cn.common_name_without_embedded_nul_is_returned */
__CPROVER_ensures((!xv_subj_null && xv_cn_present && xv_cn_z == xv_cn_len) ==> __CPROVER_return_value != NULL)
/* PO[C10,C14,C08] cert_get_subject_field_cn.owned_terminated_copy_of_the_subject_common_name_or_nothing */
__CPROVER_ensures(__CPROVER_return_value != NULL ==> (XC_CN_STRING(__CPROVER_return_value) && xv_heap_live == __CPROVER_old(xv_heap_live) + 1 && xv_nm_fill_name == XV_SUBJ))
__CPROVER_ensures(__CPROVER_return_value == NULL ==> xv_heap_live == __CPROVER_old(xv_heap_live))
__CPROVER_ensures(xv_subj_calls == __CPROVER_old(xv_subj_calls) + 1 && (xv_subj_null ? xv_nm_name == NULL : xv_nm_name == XV_SUBJ))
;

/* ---- subjectAltName traversal */
#define XC_WANT_OF(t) ((t) == cert_san_type_dns ? GEN_DNS : (t) == cert_san_type_email ? GEN_EMAIL : GEN_DIRNAME)
#define XC_TYPE_OK(t) ((t) == cert_san_type_dns || (t) == cert_san_type_email || (t) == cert_san_type_dir)
/* entry state of a traversal: no stack handed out, nothing counted yet; the stack has 0..INT_MAX-1 entries */
#define XC_GN_ENTRY (xv_gn_num >= 0 && xv_gn_num < 2147483647 && xv_asn1_cap >= 1 && xv_asn1_cap <= XV_ASN1_MAX + 1 && __CPROVER_rw_ok(xv_asn1_buf, (size_t)xv_asn1_cap) && xv_gn_live == 0 && xv_gn_next == 0 && xv_gn_match == 0 && XV_LIVE_OK(xv_d2i_calls) && \
                     XV_LIVE_OK(xv_gn_free_calls) && XV_LIVE_OK(xv_heap_live) && xv_heap_live == xv_heap0)
#define XC_GN_ASSIGNS xv_d2i_calls, xv_gn_live, xv_gn_free_calls, xv_gn_next, xv_gn_match, xv_gn_ent, xv_gn_cur_payload, xv_gn_k_payload, xv_gn_k_len, xv_gn_k_byte, \
                      xv_gn_cur_byte, xv_gn_cur_match, xv_asn1_str, xv_asn1_data, xv_asn1_len, xv_asn1_z, xv_id_base, __CPROVER_object_whole(xv_asn1_buf)
/* C08: the GENERAL_NAMES stack obtained from X509_get_ext_d2i() is released exactly once, with its entries, on every path */
#define XC_GN_RELEASED (xv_gn_live == 0 && xv_d2i_calls == __CPROVER_old(xv_d2i_calls) + 1 && xv_gn_free_calls == __CPROVER_old(xv_gn_free_calls) + 1)
/* every entry has been examined (in order, each once: the model's assertion) */
#define XC_GN_ALL_SEEN (xv_gn_absent || xv_gn_next == xv_gn_num)

/* the recording callback: its PRECONDITION is the property "foreach_san hands the callback exactly the entries of the
 * requested type, in order, each as the NUL-terminated string of exactly its ASN.1 length" */
void xv_san_cb(const void *data, void *cb_data)
__CPROVER_requires(xv_gn_cur_match && cb_data == (void *)xv_g_p1 && xv_cb_calls + 1 == xv_gn_match)
__CPROVER_requires(xv_gn_want == GEN_DIRNAME ? data == xv_gn_cur_payload : \
                   (__CPROVER_r_ok(data, (size_t)xv_asn1_len + 1) && ((const char *)data)[xv_asn1_len] == 0 && (xv_mc < (size_t)xv_asn1_len ==> ((const char *)data)[xv_mc] == xv_gn_cur_byte)))
__CPROVER_assigns(xv_cb_calls)
__CPROVER_ensures(xv_cb_calls == __CPROVER_old(xv_cb_calls) + 1)
;

static void foreach_san(X509 *cert, enum cert_san_type san_type, foreach_san_cb cb, void *cb_data)
__CPROVER_requires(cert == XV_CERT && XC_TYPE_OK(san_type) && xv_gn_want == XC_WANT_OF(san_type) && XC_GN_ENTRY && xv_cb_calls == 0)
__CPROVER_requires(cb == xv_san_cb && __CPROVER_is_fresh(cb_data, sizeof(struct xv_idx_param)) && (void *)xv_g_p1 == cb_data)
__CPROVER_assigns(XC_GN_ASSIGNS, xv_cb_calls)
/* PO[C09,C14] foreach_san.visits_exactly_the_entries_of_the_requested_type_without_embedded_nul */
__CPROVER_ensures(xv_cb_calls == xv_gn_match && XC_GN_ALL_SEEN)
/* PO[C08] foreach_san.general_names_released_exactly_once */
__CPROVER_ensures(XC_GN_RELEASED)
;

size_t cert_count_san(X509 *cert, enum cert_san_type san_type)
__CPROVER_requires(cert == XV_CERT && XC_TYPE_OK(san_type) && xv_gn_want == XC_WANT_OF(san_type) && XC_GN_ENTRY)
__CPROVER_assigns(XC_GN_ASSIGNS)
/* PO[C10,C14] cert_count_san.number_of_entries_a_traversal_visits */
__CPROVER_ensures(__CPROVER_return_value == xv_gn_match && XC_GN_ALL_SEEN)
/* PO[C08] cert_count_san.general_names_released_exactly_once */
__CPROVER_ensures(XC_GN_RELEASED && xv_heap_live == __CPROVER_old(xv_heap_live))
;

/* ut_strdup as a CONTRACT (TRUSTED, same semantics as the model body in env/cert_env.h restricted to the one use made of it
 * here): used (`replace:`) only in the job of cert_get_san, because DFCC does not admit an allocation made by a function BODY
 * inside a loop that carries a loop contract, while a replaced contract's ensures(is_fresh) is admitted.  There ut_strdup is
 * applied to the data of the entry handed out last: the copy has the length of the data up to its first NUL (xv_asn1_z) and
 * its byte xv_mc; if the data has no NUL and none follows it, strdup(3) reads past the ASN.1 value: precondition.
 * xv_dup_fix (never assigned): the block returned (ONE application per path, see HOWTO on pointer-typed ghosts). */
char *ut_strdup(const char *str)
__CPROVER_requires(str != NULL && str == (const char *)xv_asn1_data && (xv_asn1_nt || xv_asn1_z < xv_asn1_len) && XV_LIVE_OK2(xv_heap_live) && XV_LIVE_OK(xv_dup_calls))
__CPROVER_assigns(xv_heap_live, xv_dup_calls, xv_dup_len, xv_dup_byte)
__CPROVER_ensures(xv_dup_len == (size_t)xv_asn1_z && __CPROVER_is_fresh(__CPROVER_return_value, xv_dup_len + 1) && __CPROVER_return_value[xv_dup_len] == 0 && \
                  __CPROVER_return_value == xv_dup_fix && xv_dup_byte == (xv_mc < xv_dup_len ? xv_gn_cur_byte : 0) && \
                  xv_heap_live == __CPROVER_old(xv_heap_live) + 1 && xv_dup_calls == __CPROVER_old(xv_dup_calls) + 1)
;

/* cert_get_san: index == xv_want_ord (ghost constant): the model remembers match number xv_want_ord (its length xv_gn_k_len,
 * its byte xv_gn_k_byte at offset xv_mc); ut_strdup records what it was given (xv_dup_len, xv_dup_byte) and what it returned */
char *cert_get_san(X509 *cert, enum cert_san_type san_type, size_t index)
__CPROVER_requires(cert == XV_CERT && (san_type == cert_san_type_dns || san_type == cert_san_type_email) && xv_gn_want == XC_WANT_OF(san_type) && XC_GN_ENTRY)
__CPROVER_requires(index == xv_want_ord && xv_dup_calls == 0 && xv_dup_fix != NULL)
__CPROVER_assigns(XC_GN_ASSIGNS, xv_heap_live, xv_dup_calls, xv_dup_len, xv_dup_byte)
/* PO[C10,C14] cert_get_san.the_index_th_visited_entry_as_a_string_of_the_callers */
__CPROVER_ensures(index < xv_gn_match ==> (__CPROVER_return_value != NULL && __CPROVER_return_value == xv_dup_fix && xv_dup_calls == 1 && \
                  xv_dup_len == xv_gn_k_len && xv_dup_byte == xv_gn_k_byte && xv_heap_live == __CPROVER_old(xv_heap_live) + 1))
/* PO[C10,C14] cert_get_san.NULL_beyond_the_last_entry */
__CPROVER_ensures(index >= xv_gn_match ==> (__CPROVER_return_value == NULL && xv_dup_calls == 0 && xv_heap_live == __CPROVER_old(xv_heap_live)))
/* PO[C08] cert_get_san.general_names_released_exactly_once */
__CPROVER_ensures(XC_GN_RELEASED && XC_GN_ALL_SEEN)
;

char *cert_get_dir_cn(X509 *cert, size_t index)
__CPROVER_requires(cert == XV_CERT && xv_gn_want == GEN_DIRNAME && XC_GN_ENTRY && XC_CN_OK)
__CPROVER_requires(index == xv_want_ord && xv_nm_calls == 0 && xv_nm_fills == 0)
__CPROVER_assigns(XC_GN_ASSIGNS, xv_heap_live, XC_NM_ASSIGNS)
/* PO[C10,C14] cert_get_dir_cn.common_name_of_the_index_th_directory_name */
__CPROVER_ensures((index < xv_gn_match && xv_cn_present && xv_cn_z == xv_cn_len) ==> __CPROVER_return_value != NULL)
__CPROVER_ensures(__CPROVER_return_value != NULL ==> (index < xv_gn_match && xv_cn_present && __CPROVER_return_value == xv_nm_buf && xv_nm_fills == 1 && \
                  xv_nm_fill_name == xv_gn_k_payload && xv_nm_fill_len == xv_cn_len + 1 && xv_heap_live == __CPROVER_old(xv_heap_live) + 1))
/* PO[C10,C14] cert_get_dir_cn.NULL_beyond_the_last_entry_or_without_common_name */
__CPROVER_ensures((index >= xv_gn_match || !xv_cn_present) ==> (__CPROVER_return_value == NULL && xv_nm_fills == 0))
__CPROVER_ensures(__CPROVER_return_value == NULL ==> xv_heap_live == __CPROVER_old(xv_heap_live))
/* PO[C08] cert_get_dir_cn.general_names_released_exactly_once */
__CPROVER_ensures(XC_GN_RELEASED && XC_GN_ALL_SEEN)
;

/* ---- subject key identifier */
bool cert_has_ski(X509 *cert)
__CPROVER_requires(cert == XV_CERT && XV_LIVE_OK(xv_ski_calls))
__CPROVER_assigns(xv_ski_calls)
/* PO[C10] cert_has_ski.iff_the_certificate_has_one */
__CPROVER_ensures((__CPROVER_return_value ? 1 : 0) == (xv_ski_present ? 1 : 0))
;
/* cert_get_ski_len / cert_get_ski dereference the key identifier: the CALLER checks cert_has_ski() first (get_peer_subject_key_id_attr
 * does; unit btlsupd asserts it at its cert_get_ski_len/cert_get_ski stubs) */
size_t cert_get_ski_len(X509 *cert)
__CPROVER_requires(cert == XV_CERT && xv_ski_present && xv_ski_len >= 0 && xv_ski_len <= XV_ASN1_MAX && XV_LIVE_OK(xv_ski_calls))
__CPROVER_assigns(xv_ski_calls)
/* PO[C10] cert_get_ski_len.length_of_the_key_identifier */
__CPROVER_ensures(__CPROVER_return_value == (size_t)xv_ski_len)
;
/* the caller's buffer contract: EXACTLY cert_get_ski_len() bytes are enough, exactly those are written */
void cert_get_ski(X509 *cert, void *buf)
__CPROVER_requires(cert == XV_CERT && xv_ski_present && xv_ski_len >= 0 && xv_ski_len <= XV_ASN1_MAX && XV_LIVE_OK(xv_ski_calls) && XV_LIVE_OK(xv_ski_data_calls))
__CPROVER_requires(xv_ski_len > 0 ==> __CPROVER_is_fresh(buf, (size_t)xv_ski_len))
__CPROVER_assigns(xv_ski_calls, xv_ski_data_calls)
__CPROVER_assigns(xv_ski_len > 0: __CPROVER_object_upto(buf, (size_t)xv_ski_len))
/* PO[C10] cert_get_ski.copies_exactly_the_key_identifier */
__CPROVER_ensures(xv_mc < (size_t)xv_ski_len ==> ((const uint8_t *)buf)[xv_mc] == xv_ski_byte)
;

#include "contracts/end.h"
#endif
