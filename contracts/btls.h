/* contracts/btls.h -- libxcm/tp/tls/xcm_tp_btls.c: the byte-stream TLS transport over OpenSSL.
 * C09 (TLS never fails open: OpenSSL is configured with exactly the socket's policy, the verdict is consulted, application
 *      data moves only in state ready), C02/C06 (btls_send/btls_receive over SSL_write/SSL_read; terminal states stick),
 * C18 (finalize_tls_conf/get_file: per-socket designation first, otherwise the defaults as they stand at the call).
 * OpenSSL is env/ssl_env.h (TRUSTED).  slist_*, item_*, ut_*, getenv, ctx_store_*, xpoll_*, the btcp sub-socket are other
 * modules: ASSUMED here (stub bodies / contracts below).
 * Attached to the REAL static functions by redeclaration after the TU has been #included.
 */
#ifndef XV_BTLS_H
#define XV_BTLS_H
#include "contracts/begin.h"
#include "contracts/lower.h"

#define BT(s) ((struct btls_socket *)((uint8_t *)(s) + sizeof(struct xcm_socket)))
#define BT_SIZE (sizeof(struct xcm_socket) + sizeof(struct btls_socket))
#define BT_FRESH(s) __CPROVER_is_fresh((s), BT_SIZE)
/* s->proto is the registered BTLS protocol (the proto object is made by is_fresh: a pointer read from a fresh object and
 * merely ASSUMED equal to the address of a global is not dereferenceable for CBMC) */
#define BT_PROTO_FRESH(s) __CPROVER_is_fresh((s)->proto, sizeof(struct xcm_tp_proto))
#define BT_PROTO(s) ((s)->proto->ops == &btls_ops)
#define BT_STATE(s) (BT(s)->conn.state)
#define BT_STATE_OK(s) ((unsigned)BT_STATE(s) <= (unsigned)conn_state_closed)
#define BT_DEAD_STATE(s) (BT_STATE(s) == conn_state_closed || BT_STATE(s) == conn_state_bad)
#define BT_BOOLS_OK(s) 1
#define BCN(s, c) (BT(s)->conn.cnts[xcm_tp_cnt_##c])
#define BT_U8(p) ((const uint8_t *)(p))

/* the policy verdict of the SSL session (env/ssl_env.h) satisfies the socket's authentication policy */
#define BT_VERDICT_OK(s) (!BT(s)->tls_auth || (xv_ssl_peer_cert && xv_ssl_verify_result == X509_V_OK))
/* representation invariants of a connection socket
 *  - a bad socket has a real errno, never EAGAIN
 *  - READY: state ready is only ever entered (try_finish_tls_handshake) after a successful handshake whose verdict
 *    satisfies the policy; OpenSSL was configured (set_verify) before any handshake call */
#define BT_TERMINAL_INV(s) (BT_STATE(s) == conn_state_bad ==> (BT(s)->conn.badness_reason > 0 && BT(s)->conn.badness_reason != EAGAIN))
#define BT_READY_INV(s) (BT_STATE(s) == conn_state_ready ==> (xv_ssl_hs_done && BT_VERDICT_OK(s)))
#define BT_CONFIGURED(s) (xv_ssl_set_verify_calls >= 1 && xv_ssl_set_verify_ssl == BT(s)->conn.ssl)
#define BT_CONN_INV(s) (BT_STATE_OK(s) && BT_TERMINAL_INV(s) && BT_READY_INV(s) && \
                        ((BT_STATE(s) == conn_state_tls_handshaking || BT_STATE(s) == conn_state_ready) ==> BT_CONFIGURED(s)))

/* ================================================================================================================ */
/* other modules, ASSUMED                                                                                            */
/* ================================================================================================================ */
/* TRUSTED(xcm log_tls.c) log_tls_get_error_stack / log_tls_get_verification_failure_reason: called unconditionally by the LOG_TLS_*
 * macros (not behind log_is_enabled()): fill the caller's text buffer with some NUL-terminated text.  (The real
 * log_tls_get_error_stack also drains OpenSSL's error queue; nothing in the TU reads the queue after a call of it.) */
void log_tls_get_error_stack(char *buf, size_t capacity)
{
    __CPROVER_assert(capacity >= 1 && __CPROVER_w_ok(buf, capacity), "log_tls_get_error_stack: buffer writeable");
    __CPROVER_havoc_slice(buf, capacity);
    buf[capacity - 1] = '\0';
}
void log_tls_get_verification_failure_reason(X509_STORE_CTX *store_ctx, char *buf, size_t capacity)
{
    __CPROVER_assert(capacity >= 1 && __CPROVER_w_ok(buf, capacity), "log_tls_get_verification_failure_reason: buffer writeable");
    __CPROVER_havoc_slice(buf, capacity);
    buf[capacity - 1] = '\0';
}

/* TRUSTED(xcm slist.c) the list of expected peer names, seen through ONE arbitrary position: ONE list is modelled (the
 * socket's valid_peer_names); it has xv_slist_n elements, the element at position xv_hk (never assigned, env/ssl_env.h)
 * is xv_slist_name_k, every other element is some non-NULL string.  Facts proved about position xv_hk hold for all. */
size_t xv_slist_n; const char *xv_slist_name_k;
long xv_slist_destroy_calls; const struct slist *xv_slist_destroyed;
#define XV_SLIST_N_MAX (1UL << 40)
size_t slist_len(const struct slist *slist)
{
    __CPROVER_assert(slist != NULL, "slist_len: list given");
    return xv_slist_n;
}
const char *slist_get(const struct slist *slist, size_t index)
{
    __CPROVER_assert(slist != NULL && index < xv_slist_n, "slist_get: index inside the list");
    if (xv_hk >= 0 && index == (size_t)xv_hk)
        return xv_slist_name_k;
    const char *p = (const char *)nondet_size_t();
    __CPROVER_assume(p != NULL);
    return p;
}
void slist_destroy(struct slist *slist)
{
    if (slist != NULL) {
        xv_slist_destroy_calls++;
        xv_slist_destroyed = slist;
    }
}
static inline void xv_btls_havoc(void)
{
    xv_slist_n = nondet_size_t(); xv_slist_name_k = (const char *)nondet_size_t();
    xv_slist_destroy_calls = nondet_long(); xv_slist_destroyed = (const struct slist *)nondet_size_t();
}

/* ================================================================================================================ */
/* C09: configuration of OpenSSL                                                                                     */
/* ================================================================================================================ */
#define BT_MODE(tls_client, tls_auth) ((tls_auth) ? (SSL_VERIFY_PEER | ((tls_client) ? 0 : SSL_VERIFY_FAIL_IF_NO_PEER_CERT)) : SSL_VERIFY_NONE)
#define BT_XFLAGS(check_crl, check_time) (((check_crl) ? (unsigned long)(X509_V_FLAG_CRL_CHECK | X509_V_FLAG_CRL_CHECK_ALL) : 0UL) | \
                                          ((check_time) ? 0UL : (unsigned long)X509_V_FLAG_NO_CHECK_TIME))
static void set_verify(SSL *ssl, bool tls_client, bool tls_auth, bool check_crl, bool check_time)
__CPROVER_requires(XV_SSL_GHOST_RANGE)
__CPROVER_assigns(XV_SSL_CONF_ASSIGNS)
/* PO[C09] set_verify.mode: exactly one SSL_set_verify on this SSL; auth => VERIFY_PEER (| FAIL_IF_NO_PEER_CERT on the server side), no auth => VERIFY_NONE */
__CPROVER_ensures(xv_ssl_set_verify_calls == __CPROVER_old(xv_ssl_set_verify_calls) + 1 && xv_ssl_set_verify_ssl == ssl && \
                  xv_ssl_set_verify_mode == BT_MODE(tls_client, tls_auth))
/* PO[C09] set_verify.flags: the verification flags in force afterwards are the previous ones plus exactly CRL_CHECK|CRL_CHECK_ALL iff check_crl, NO_CHECK_TIME iff !check_time */
__CPROVER_ensures(xv_x509_flags == (__CPROVER_old(xv_x509_flags) | BT_XFLAGS(check_crl, check_time)))
/* PO[C09] set_verify.own_param: flags are changed only on the parameter object of this SSL */
__CPROVER_ensures(xv_x509_set_flags_calls != __CPROVER_old(xv_x509_set_flags_calls) ==> xv_get0_param_ssl == ssl)
/* PO[C09] set_verify.callback_passthrough: the verify callback cannot turn a failed check into a pass (it is verify_cb, which returns `ok` unchanged: job btls.verify_cb) */
__CPROVER_ensures(xv_ssl_set_verify_cb == verify_cb)
;
static int verify_cb(int ok, X509_STORE_CTX *ctx)
__CPROVER_requires(1)
__CPROVER_assigns()
/* PO[C09] verify_cb.passthrough */
__CPROVER_ensures(__CPROVER_return_value == ok)
;

/* ================================================================================================================ */
/* C09/C06: the handshake and its verdict                                                                            */
/* ================================================================================================================ */
/* ---- verify_peer_cert: called in state ready right after a successful handshake when tls.auth is on */
static void verify_peer_cert(struct xcm_socket *s)
__CPROVER_requires(BT_FRESH(s) && BT_STATE(s) == conn_state_ready && XV_SSL_GHOST_RANGE)
__CPROVER_assigns(BT_STATE(s), BT(s)->conn.badness_reason, XV_SSL_VERDICT_ASSIGNS)
/* PO[C09] verify_peer_cert.verdict_consulted: the socket stays ready ONLY IF the peer presented a certificate AND OpenSSL's verification verdict is X509_V_OK */
__CPROVER_ensures(BT_STATE(s) == conn_state_ready ==> (xv_ssl_peer_cert && xv_ssl_verify_result == X509_V_OK))
/* PO[C09] verify_peer_cert.else_eproto: otherwise (no certificate, or any verdict other than OK) the socket is bad with EPROTO */
__CPROVER_ensures(!(xv_ssl_peer_cert && xv_ssl_verify_result == X509_V_OK) ==> (BT_STATE(s) == conn_state_bad && BT(s)->conn.badness_reason == EPROTO))
__CPROVER_ensures(BT_STATE(s) == conn_state_ready || BT_STATE(s) == conn_state_bad)
__CPROVER_ensures(BT_STATE(s) == conn_state_ready ==> BT(s)->conn.badness_reason == __CPROVER_old(BT(s)->conn.badness_reason))
/* the certificate reference is given back */
__CPROVER_ensures(xv_x509_refs == __CPROVER_old(xv_x509_refs))
;

/* ---- process_ssl_event: classification of a failed SSL call (C06: "SSL_ERROR_ZERO_RETURN => closed, SSL_ERROR_SSL =>
 * bad(EPROTO), SYSCALL mapping as coded") */
#define BT_EV_WANT(s, condition, w) (BT_STATE(s) == __CPROVER_old(BT_STATE(s)) && BT(s)->conn.ssl_condition == (condition) && BT(s)->conn.ssl_wants == (w) && \
                                     BT(s)->conn.badness_reason == __CPROVER_old(BT(s)->conn.badness_reason))
#define BT_EV_CLOSED(s) (BT_STATE(s) == conn_state_closed && BT(s)->conn.badness_reason == __CPROVER_old(BT(s)->conn.badness_reason))
#define BT_EV_BAD(s, e) (BT_STATE(s) == conn_state_bad && BT(s)->conn.badness_reason == (e))
/* the mapping, as a predicate over the SSL model's classification (xv_ssl_err, xv_err_queue) and the errno of the call */
#define BT_EV_MAP(s, condition, en) ( \
    (xv_ssl_err == SSL_ERROR_WANT_READ ==> BT_EV_WANT(s, condition, XCM_SO_RECEIVABLE)) && \
    (xv_ssl_err == SSL_ERROR_WANT_WRITE ==> BT_EV_WANT(s, condition, XCM_SO_SENDABLE)) && \
    (xv_ssl_err == SSL_ERROR_ZERO_RETURN ==> BT_EV_CLOSED(s)) && \
    (xv_ssl_err == SSL_ERROR_SSL ==> BT_EV_BAD(s, EPROTO)) && \
    ((xv_ssl_err == SSL_ERROR_SYSCALL && xv_err_queue != 0) ==> BT_EV_BAD(s, EPROTO)) && \
    ((xv_ssl_err == SSL_ERROR_SYSCALL && xv_err_queue == 0 && (en) == EINPROGRESS) ==> \
        (BT_STATE(s) == __CPROVER_old(BT_STATE(s)) && BT(s)->conn.ssl_wants == XCM_SO_RECEIVABLE && BT(s)->conn.badness_reason == __CPROVER_old(BT(s)->conn.badness_reason))) && \
    ((xv_ssl_err == SSL_ERROR_SYSCALL && xv_err_queue == 0 && ((en) == EPIPE || (en) == 0)) ==> BT_EV_CLOSED(s)) && \
    ((xv_ssl_err == SSL_ERROR_SYSCALL && xv_err_queue == 0 && (en) != EPIPE && (en) != 0 && (en) != EINPROGRESS) ==> BT_EV_BAD(s, en)))
/* the same mapping for a data call: the state the failed call was made in is ready (possibly reached in the same API call) */
#define BT_EV_KEEP(s, condition, w) (BT_STATE(s) == conn_state_ready && BT(s)->conn.ssl_condition == (condition) && BT(s)->conn.ssl_wants == (w))
#define BT_EV_MAP_AFTER(s, condition, en) ( \
    (xv_ssl_err == SSL_ERROR_WANT_READ ==> BT_EV_KEEP(s, condition, XCM_SO_RECEIVABLE)) && \
    (xv_ssl_err == SSL_ERROR_WANT_WRITE ==> BT_EV_KEEP(s, condition, XCM_SO_SENDABLE)) && \
    (xv_ssl_err == SSL_ERROR_ZERO_RETURN ==> BT_STATE(s) == conn_state_closed) && \
    (xv_ssl_err == SSL_ERROR_SSL ==> BT_EV_BAD(s, EPROTO)) && \
    ((xv_ssl_err == SSL_ERROR_SYSCALL && xv_err_queue != 0) ==> BT_EV_BAD(s, EPROTO)) && \
    ((xv_ssl_err == SSL_ERROR_SYSCALL && xv_err_queue == 0 && (en) == EINPROGRESS) ==> (BT_STATE(s) == conn_state_ready && BT(s)->conn.ssl_wants == XCM_SO_RECEIVABLE)) && \
    ((xv_ssl_err == SSL_ERROR_SYSCALL && xv_err_queue == 0 && ((en) == EPIPE || (en) == 0)) ==> BT_STATE(s) == conn_state_closed) && \
    ((xv_ssl_err == SSL_ERROR_SYSCALL && xv_err_queue == 0 && (en) != EPIPE && (en) != 0 && (en) != EINPROGRESS) ==> BT_EV_BAD(s, en)))
#define BT_ERR_CLASS_OK (xv_ssl_err == SSL_ERROR_SSL || xv_ssl_err == SSL_ERROR_WANT_READ || xv_ssl_err == SSL_ERROR_WANT_WRITE || \
                         xv_ssl_err == SSL_ERROR_SYSCALL || xv_ssl_err == SSL_ERROR_ZERO_RETURN)
static void process_ssl_event(struct xcm_socket *s, int condition, int ssl_rc, int ssl_errno)
__CPROVER_requires(BT_FRESH(s) && BT_STATE_OK(s) && BT_ERR_CLASS_OK && ssl_rc == xv_ssl_last_ret && ssl_rc <= 0)
/* assumption A2 of env/ssl_env.h, as a precondition: a SYSCALL failure without queued error does not carry EAGAIN */
__CPROVER_requires((xv_ssl_err == SSL_ERROR_SYSCALL && xv_err_queue == 0) ==> (ssl_errno != EAGAIN && ssl_errno != EWOULDBLOCK))
__CPROVER_assigns(BT_STATE(s), BT(s)->conn.badness_reason, BT(s)->conn.ssl_condition, BT(s)->conn.ssl_wants)
/* PO[C06] process_ssl_event.mapping */
__CPROVER_ensures(BT_EV_MAP(s, condition, ssl_errno))
;

/* ---- try_finish_tls_handshake */
#define BT_HS_ENTERED (xv_hs_calls != __CPROVER_old(xv_hs_calls))
static void try_finish_tls_handshake(struct xcm_socket *s)
__CPROVER_requires(BT_FRESH(s) && XV_SSL_GHOST_RANGE && BT_CONN_INV(s))
__CPROVER_assigns(xv_errno, XV_SSL_HS_ASSIGNS, XV_SSL_VERDICT_ASSIGNS)
__CPROVER_assigns(BT_STATE(s), BT(s)->conn.badness_reason, BT(s)->conn.ssl_condition, BT(s)->conn.ssl_wants)
/* PO[C09] try_finish_tls_handshake.ready_only_if_verified: state ready is reached ONLY IF the handshake call returned success AND (tls.auth is off OR (a peer certificate is present AND the verdict is X509_V_OK)) */
__CPROVER_ensures((BT_STATE(s) == conn_state_ready && __CPROVER_old(BT_STATE(s)) != conn_state_ready) ==> \
                  (__CPROVER_old(BT_STATE(s)) == conn_state_tls_handshaking && xv_hs_ret >= 1 && xv_hs_ssl == BT(s)->conn.ssl && xv_ssl_hs_done && BT_VERDICT_OK(s)))
/* PO[C09] try_finish_tls_handshake.policy_violation_is_eproto: handshake done but the verdict does not satisfy the policy => bad, EPROTO */
__CPROVER_ensures((BT_HS_ENTERED && xv_hs_ret >= 1 && !BT_VERDICT_OK(s)) ==> (BT_STATE(s) == conn_state_bad && BT(s)->conn.badness_reason == EPROTO))
/* PO[C09] try_finish_tls_handshake.established: handshake done and policy satisfied => ready (no spurious refusal) */
__CPROVER_ensures((BT_HS_ENTERED && xv_hs_ret >= 1 && BT_VERDICT_OK(s)) ==> BT_STATE(s) == conn_state_ready)
/* PO[C09] try_finish_tls_handshake.one_step_own_role: only a handshaking socket enters OpenSSL: one SSL_connect (tls.client) or SSL_accept (server role) on the socket's own SSL; otherwise nothing at all happens */
__CPROVER_ensures(__CPROVER_old(BT_STATE(s)) == conn_state_tls_handshaking \
        ? (xv_hs_calls == __CPROVER_old(xv_hs_calls) + 1 && xv_hs_ssl == BT(s)->conn.ssl && xv_hs_connect == (BT(s)->tls_client != 0)) \
        : (xv_hs_calls == __CPROVER_old(xv_hs_calls) && BT_STATE(s) == __CPROVER_old(BT_STATE(s)) && BT(s)->conn.badness_reason == __CPROVER_old(BT(s)->conn.badness_reason) && \
           BT(s)->conn.ssl_condition == __CPROVER_old(BT(s)->conn.ssl_condition) && BT(s)->conn.ssl_wants == __CPROVER_old(BT(s)->conn.ssl_wants)))
/* PO[C06] try_finish_tls_handshake.failure_mapping: a failed step: WANT_* => still handshaking (ssl_condition 0, ssl_wants says what to wait for), close_notify/EOF/EPIPE => closed, protocol error => bad(EPROTO), transport errno e => bad(e)
 */
__CPROVER_ensures((BT_HS_ENTERED && xv_hs_ret < 1) ==> BT_EV_MAP(s, 0, xv_ssl_errno))
/* PO[C06] try_finish_tls_handshake.closed_only_if_close_seen: the socket becomes closed only when the peer's close was seen (close_notify, or EOF/EPIPE from the transport) */
__CPROVER_ensures((BT_STATE(s) == conn_state_closed && __CPROVER_old(BT_STATE(s)) != conn_state_closed) ==> xv_ssl_close_seen)
/* PO[C06] try_finish_tls_handshake.terminal_sticks: closed and bad are absorbing, the stored errno is immutable */
__CPROVER_ensures((__CPROVER_old(BT_STATE(s)) == conn_state_closed || __CPROVER_old(BT_STATE(s)) == conn_state_bad) ==> \
                  (BT_STATE(s) == __CPROVER_old(BT_STATE(s)) && BT(s)->conn.badness_reason == __CPROVER_old(BT(s)->conn.badness_reason)))
/* the caller's errno survives, the representation invariants hold again, the certificate reference is given back */
__CPROVER_ensures(xv_errno == __CPROVER_old(xv_errno))
__CPROVER_ensures(BT_CONN_INV(s))
__CPROVER_ensures(xv_x509_refs == __CPROVER_old(xv_x509_refs))
;

/* ---- enable_hostname_validation (tls.verify_peer_name) */
/* representation invariant: a name list, when present, is not empty (set_peer_names_attr keeps NULL for an empty value,
 * btls_connect appends the host name, inherit_tls_conf clones a non-empty list) */
#define BT_NAMES_INV(s) (BT(s)->valid_peer_names != NULL ==> (xv_slist_n >= 1 && xv_slist_n < XV_SLIST_N_MAX && xv_slist_name_k != NULL))
#define BT_HOSTVAL_UNTOUCHED (xv_x509_set_hostflags_calls == __CPROVER_old(xv_x509_set_hostflags_calls) && xv_x509_add_calls == __CPROVER_old(xv_x509_add_calls) && \
                              xv_x509_host_resets == __CPROVER_old(xv_x509_host_resets) && xv_x509_nhosts == __CPROVER_old(xv_x509_nhosts))
static int enable_hostname_validation(struct xcm_socket *s)
__CPROVER_requires(BT_FRESH(s) && XV_SSL_GHOST_RANGE && BT_NAMES_INV(s))
__CPROVER_assigns(xv_errno, XV_SSL_HOST_ASSIGNS)
__CPROVER_ensures(__CPROVER_return_value == 0 || (__CPROVER_return_value == -1 && xv_errno == EINVAL))
/* PO[C09] enable_hostname_validation.needs_auth_and_names: without tls.auth, or without any expected name, name verification cannot be enabled: EINVAL, OpenSSL untouched */
__CPROVER_ensures((!BT(s)->tls_auth || BT(s)->valid_peer_names == NULL) ==> (__CPROVER_return_value == -1 && xv_errno == EINVAL && BT_HOSTVAL_UNTOUCHED))
/* PO[C09] enable_hostname_validation.flags: on success the host flags of the socket's own SSL are exactly NO_WILDCARDS|ALWAYS_CHECK_SUBJECT */
__CPROVER_ensures(__CPROVER_return_value == 0 ==> (xv_x509_hostflags == (X509_CHECK_FLAG_NO_WILDCARDS | X509_CHECK_FLAG_ALWAYS_CHECK_SUBJECT) && \
                                                    xv_get0_param_ssl == BT(s)->conn.ssl && xv_x509_set_hostflags_calls == __CPROVER_old(xv_x509_set_hostflags_calls) + 1))
/* PO[C09] enable_hostname_validation.every_name: on success OpenSSL's list of expected names was emptied and then received EVERY name of the socket's list, in order, and nothing else: same length, and (for the arbitrary position xv_hk) the same name */
__CPROVER_ensures(__CPROVER_return_value == 0 ==> (xv_x509_nhosts == (long)xv_slist_n && xv_x509_nhosts >= 1 && \
                                                    xv_x509_host_resets == __CPROVER_old(xv_x509_host_resets) + 1 && \
                                                    xv_x509_add_calls == __CPROVER_old(xv_x509_add_calls) + (long)xv_slist_n && \
                                                    ((xv_hk >= 0 && xv_hk < (long)xv_slist_n) ==> xv_x509_host_k == xv_slist_name_k)))
/* PO[C09] enable_hostname_validation.no_partial_success: a name OpenSSL refuses makes the whole call fail */
__CPROVER_ensures((BT(s)->tls_auth && BT(s)->valid_peer_names != NULL && __CPROVER_return_value == -1) ==> xv_x509_nhosts < (long)xv_slist_n)
;

/* ================================================================================================================ */
/* C02/C06/C09: application data over SSL_write / SSL_read                                                           */
/* ================================================================================================================ */
/* The byte-stream interface of contracts/lower.h (what the framing transport tls ASSUMES of xcm_tp_socket_send/receive
 * on its btls sub-socket) is ENFORCED here on btls_send/btls_receive, with the two ghost flags of that interface read
 * through the abstraction function of the btls socket -- nothing in the real code could assign a ghost variable:
 *      "the lower connection is dead"  (xv_lower_dead)  :=  conn.state in {closed, bad}
 *      "end of stream was reported"    (xv_rx_eof)      :=  conn.state == closed
 * BT_LOWER_SEND_ENSURES/BT_LOWER_RECV_ENSURES are LOWER_SEND_ENSURES/LOWER_RECV_ENSURES of contracts/lower.h with exactly
 * that substitution (old values: __CPROVER_old of conn.state). */
#define BT_OLD_STATE(s) __CPROVER_old(BT_STATE(s))
#define BT_WAS_DEAD(s) (BT_OLD_STATE(s) == conn_state_closed || BT_OLD_STATE(s) == conn_state_bad)
#define BT_GHOST_RANGE (xv_tx_off >= 0 && xv_tx_off < XV_OFF_MAX && xv_rx_off >= 0 && xv_rx_off < XV_OFF_MAX && xv_k >= 0 && xv_k < 2 * XV_OFF_MAX)
#define BT_C1(s, c) (BCN(s, c) >= 0 && BCN(s, c) < (1L << 61))
#define BT_CNT_RANGE(s) (BT_C1(s, to_app_bytes) && BT_C1(s, from_app_bytes) && BT_C1(s, to_lower_bytes) && BT_C1(s, from_lower_bytes) && \
                         BT_C1(s, to_app_msgs) && BT_C1(s, from_app_msgs) && BT_C1(s, to_lower_msgs) && BT_C1(s, from_lower_msgs))
#define BT_SAME(s, c) (BCN(s, c) == __CPROVER_old(BCN(s, c)))
#define BT_CONN(s) (BT_FRESH(s) && BT_PROTO_FRESH(s))
#define BT_SSL_UNTOUCHED (xv_hs_calls == __CPROVER_old(xv_hs_calls) && xv_sw_calls == __CPROVER_old(xv_sw_calls) && xv_sr_calls == __CPROVER_old(xv_sr_calls))
/* the state in which application data was handed to OpenSSL: ready at entry, or made ready by this call's handshake step */
#define BT_WAS_READY_FOR_DATA(s) (BT_OLD_STATE(s) == conn_state_ready || (BT_OLD_STATE(s) == conn_state_tls_handshaking && BT_HS_ENTERED && xv_hs_ret >= 1))

#define BT_LOWER_SEND_ENSURES(s, rv, buf, len) ( \
    ((rv) == -1 && xv_errno > 0 && xv_tx_off == __CPROVER_old(xv_tx_off) && \
        xv_tx_k == __CPROVER_old(xv_tx_k) && xv_tx_k_set == __CPROVER_old(xv_tx_k_set) && \
        (xv_errno != EAGAIN ==> BT_DEAD_STATE(s)) && (BT_WAS_DEAD(s) ==> xv_errno != EAGAIN)) || \
    ((rv) >= 1 && (size_t)(rv) <= (len) && !BT_WAS_DEAD(s) && \
        xv_tx_off == __CPROVER_old(xv_tx_off) + (rv) && \
        (XV_IN_TX(__CPROVER_old(xv_tx_off), (rv)) \
            ? (xv_tx_k_set && xv_tx_k == XV_U8(buf)[xv_k - __CPROVER_old(xv_tx_off)]) \
            : (xv_tx_k == __CPROVER_old(xv_tx_k) && xv_tx_k_set == __CPROVER_old(xv_tx_k_set)))))
#define BT_LOWER_RECV_ENSURES(s, rv, buf, capacity) ( \
    ((rv) == -1 && xv_errno > 0 && xv_rx_off == __CPROVER_old(xv_rx_off) && ((BT_STATE(s) == conn_state_closed) == (BT_OLD_STATE(s) == conn_state_closed)) && \
        (xv_errno != EAGAIN ==> BT_DEAD_STATE(s)) && (BT_WAS_DEAD(s) ==> xv_errno != EAGAIN)) || \
    ((rv) == 0 && BT_STATE(s) == conn_state_closed && xv_rx_off == __CPROVER_old(xv_rx_off)) || \
    ((rv) >= 1 && (size_t)(rv) <= (capacity) && BT_OLD_STATE(s) != conn_state_closed && BT_STATE(s) != conn_state_closed && \
        xv_rx_off == __CPROVER_old(xv_rx_off) + (rv) && XV_RX_BYTES(buf, __CPROVER_old(xv_rx_off), (rv))))

/* which lengths/capacities are explored: default = the range the framing layer uses (LOWER_SEND_REQUIRES/LOWER_RECV_REQUIRES);
 * xcm_send()/xcm_receive() pass ANY size_t through for a byte-stream socket: variants zero and huge */
#if defined(BT_ZERO)
/* variant zero: the framing range plus the corner 0 (xcm_send(s, buf, 0), xcm_receive(s, buf, 0) on a byte-stream socket) */
#define BT_LEN_OK(len) ((len) <= 0x7ffff000UL)
#define BT_CAP_OK(c) ((c) <= BT_CAP_MAX)
#elif defined(BT_HUGE)
/* variant huge: lengths/capacities that do not fit the `int num` of SSL_write/SSL_read: 2^31 .. 2^33 for send; for receive
 * those whose low 32 bits, as an int, are negative or small (SSL_read's model stores up to `num` arbitrary bytes) */
#define BT_LEN_OK(len) ((len) > 0x7fffffffUL && (len) <= (1UL << 33))
#define BT_CAP_OK(c) (((c) >= (1UL << 31) && (c) < (1UL << 32)) || ((c) >= (1UL << 32) && (c) <= (1UL << 32) + BT_CAP_MAX))
#else
/* variant lower (default): the range the framing layer uses (LOWER_SEND_REQUIRES / LOWER_RECV_REQUIRES of contracts/lower.h);
 * receive buffers above BT_CAP_MAX are not explored: SSL_read's model stores up to `capacity` arbitrary bytes, which beyond
 * that exhausts the solver's memory (2^17 = 2 * the largest frame the tls framing layer ever asks for) */
#define BT_LEN_OK(len) ((len) >= 1 && (len) <= 0x7ffff000UL)
#define BT_CAP_OK(c) ((c) >= 1 && (c) <= BT_CAP_MAX)
#endif
#define BT_CAP_MAX (1UL << 17)
#define BT_BUFSZ(len) ((len) == 0 ? 1 : (len))

static int btls_send(struct xcm_socket *__restrict s, const void *__restrict buf, size_t len)
__CPROVER_requires(BT_CONN(s) && BT_LEN_OK(len))
__CPROVER_requires(BT_PROTO(s) && BT_CONN_INV(s) && BT_CNT_RANGE(s) && XV_SSL_GHOST_RANGE && BT_GHOST_RANGE)
__CPROVER_requires(__CPROVER_is_fresh(buf, BT_BUFSZ(len)))
/* the frame: errno, the plaintext stream, the OpenSSL record, the connection state machine, the two send-side byte counters;
 * NOT the message buffer, the receive-side stream and counters, the policy fields */
__CPROVER_assigns(xv_errno, xv_tx_off, xv_tx_k, xv_tx_k_set, XV_SSL_HS_ASSIGNS, XV_SSL_VERDICT_ASSIGNS, XV_SSL_WRITE_ASSIGNS)
__CPROVER_assigns(BT_STATE(s), BT(s)->conn.badness_reason, BT(s)->conn.ssl_condition, BT(s)->conn.ssl_wants, BCN(s, from_app_bytes), BCN(s, to_lower_bytes))
/* PO[C02] btls_send.rv: -1, or the number of leading bytes accepted: 1..len for len > 0 */
__CPROVER_ensures(__CPROVER_return_value == -1 || (__CPROVER_return_value >= 0 && (size_t)__CPROVER_return_value <= len && (len > 0 ==> __CPROVER_return_value >= 1)))
/* PO[C09,C02] btls_send.data_only_when_ready: SSL_write is entered at most once, ONLY in state ready (verdict satisfied the policy), on the socket's own SSL, with exactly (buf, len) */
__CPROVER_ensures(xv_sw_calls != __CPROVER_old(xv_sw_calls) ==> (xv_sw_calls == __CPROVER_old(xv_sw_calls) + 1 && BT_WAS_READY_FOR_DATA(s) && xv_ssl_hs_done && BT_VERDICT_OK(s) && \
                                                                 xv_sw_ssl == BT(s)->conn.ssl && xv_sw_buf == buf && xv_sw_num >= 0 && (size_t)xv_sw_num == len))
/* PO[C06] btls_send.bad_sticks: a bad socket reports its stored errno, stays bad, and OpenSSL is not entered */
__CPROVER_ensures(BT_OLD_STATE(s) == conn_state_bad ==> (__CPROVER_return_value == -1 && xv_errno == __CPROVER_old(BT(s)->conn.badness_reason) && BT_STATE(s) == conn_state_bad && \
                                                         BT(s)->conn.badness_reason == __CPROVER_old(BT(s)->conn.badness_reason) && BT_SSL_UNTOUCHED))
/* PO[C06] btls_send.closed_is_epipe: once the close has been seen send fails with EPIPE, stays closed, OpenSSL is not entered */
__CPROVER_ensures(BT_OLD_STATE(s) == conn_state_closed ==> (__CPROVER_return_value == -1 && xv_errno == EPIPE && BT_STATE(s) == conn_state_closed && BT_SSL_UNTOUCHED))
/* PO[C06] btls_send.discovering_call_reports: the call whose handshake step discovers the failure (protocol error, policy not met, reset, close) reports it: bad => the stored errno, closed => EPIPE -- not EAGAIN */
__CPROVER_ensures((BT_HS_ENTERED && BT_DEAD_STATE(s)) ==> (__CPROVER_return_value == -1 && xv_errno == (BT_STATE(s) == conn_state_bad ? BT(s)->conn.badness_reason : EPIPE)))
/* PO[C09] btls_send.not_ready_is_eagain: while the handshake is unfinished (or the socket never connected) nothing is accepted: EAGAIN, no SSL_write */
__CPROVER_ensures((BT_STATE(s) != conn_state_ready && !BT_DEAD_STATE(s)) ==> (__CPROVER_return_value == -1 && xv_errno == EAGAIN && xv_sw_calls == __CPROVER_old(xv_sw_calls)))
/* PO[C02,C06] btls_send.stream: the lower-layer send contract: rv >= 1: exactly buf[0..rv) was appended to the plaintext stream; -1: nothing was, errno > 0, anything but EAGAIN means the connection is terminal */
__CPROVER_ensures(len >= 1 ==> BT_LOWER_SEND_ENSURES(s, __CPROVER_return_value, buf, len))
/* PO[C02] btls_send.zero_length: nothing to send on a ready socket: 0, OpenSSL is not asked to write */
__CPROVER_ensures((len == 0 && __CPROVER_return_value != -1) ==> (__CPROVER_return_value == 0 && BT_STATE(s) == conn_state_ready && xv_sw_calls == __CPROVER_old(xv_sw_calls) && xv_tx_off == __CPROVER_old(xv_tx_off)))
/* PO[C02] btls_send.rv_is_openssl_count: the count reported is the count OpenSSL accepted */
__CPROVER_ensures(__CPROVER_return_value >= 1 ==> (xv_sw_calls == __CPROVER_old(xv_sw_calls) + 1 && __CPROVER_return_value == xv_sw_ret))
/* PO[C06] btls_send.failure_mapping: a refused SSL_write: WANT_READ/WANT_WRITE => EAGAIN (state unchanged, what to wait for recorded); 0 / close_notify / EOF / EPIPE => closed, EPIPE; protocol error => bad, EPROTO; transport errno e => bad, e */
__CPROVER_ensures((xv_sw_calls != __CPROVER_old(xv_sw_calls) && xv_sw_ret <= 0) ==> (__CPROVER_return_value == -1 && \
        (xv_sw_ret == 0 ? (BT_STATE(s) == conn_state_closed && xv_errno == EPIPE) : BT_EV_MAP_AFTER(s, XCM_SO_SENDABLE, xv_ssl_errno)) && \
        (BT_STATE(s) == conn_state_ready ==> xv_errno == EAGAIN) && (BT_STATE(s) == conn_state_closed ==> xv_errno == EPIPE) && \
        (BT_STATE(s) == conn_state_bad ==> xv_errno == BT(s)->conn.badness_reason)))
/* PO[C02] btls_send.counters: bytes are counted (accepted from the application, handed to the lower layer) exactly when and as accepted */
__CPROVER_ensures(__CPROVER_return_value >= 1 \
        ? (BCN(s, from_app_bytes) == __CPROVER_old(BCN(s, from_app_bytes)) + __CPROVER_return_value && BCN(s, to_lower_bytes) == __CPROVER_old(BCN(s, to_lower_bytes)) + __CPROVER_return_value) \
        : (BT_SAME(s, from_app_bytes) && BT_SAME(s, to_lower_bytes)))
__CPROVER_ensures(BT_CONN_INV(s))
;

static int btls_receive(struct xcm_socket *__restrict s, void *__restrict buf, size_t capacity)
__CPROVER_requires(BT_CONN(s) && BT_CAP_OK(capacity))
__CPROVER_requires(BT_PROTO(s) && BT_CONN_INV(s) && BT_CNT_RANGE(s) && XV_SSL_GHOST_RANGE && BT_GHOST_RANGE)
__CPROVER_requires(__CPROVER_is_fresh(buf, BT_BUFSZ(capacity)))
/* ghost constant: the byte the caller's buffer holds at the arbitrary offset xv_j */
__CPROVER_requires((xv_j >= 0 && (size_t)xv_j < capacity) ==> BT_U8(buf)[xv_j] == xv_g_rb_j)
__CPROVER_assigns(xv_errno, xv_rx_off, xv_rx_eof, XV_SSL_HS_ASSIGNS, XV_SSL_VERDICT_ASSIGNS, XV_SSL_READ_ASSIGNS)
__CPROVER_assigns(BT_STATE(s), BT(s)->conn.badness_reason, BT(s)->conn.ssl_condition, BT(s)->conn.ssl_wants)
__CPROVER_assigns(BCN(s, to_app_bytes), BCN(s, from_lower_bytes), BCN(s, to_app_msgs), BCN(s, from_lower_msgs))
__CPROVER_assigns(capacity > 0: __CPROVER_object_upto(buf, capacity))
/* PO[C02] btls_receive.never_more_than_capacity */
__CPROVER_ensures(__CPROVER_return_value >= -1 && (__CPROVER_return_value >= 0 ==> (size_t)__CPROVER_return_value <= capacity))
/* PO[C09,C02] btls_receive.data_only_when_ready: SSL_read is entered at most once, ONLY in state ready (verdict satisfied the policy), on the socket's own SSL, with exactly (buf, capacity) */
__CPROVER_ensures(xv_sr_calls != __CPROVER_old(xv_sr_calls) ==> (xv_sr_calls == __CPROVER_old(xv_sr_calls) + 1 && BT_WAS_READY_FOR_DATA(s) && xv_ssl_hs_done && BT_VERDICT_OK(s) && \
                                                                 xv_sr_ssl == BT(s)->conn.ssl && xv_sr_buf == buf && xv_sr_num >= 0 && (size_t)xv_sr_num == capacity))
/* PO[C09] btls_receive.no_data_unless_read: unless SSL_read was entered the caller's buffer is untouched */
__CPROVER_ensures((xv_sr_calls == __CPROVER_old(xv_sr_calls) && xv_j >= 0 && (size_t)xv_j < capacity) ==> BT_U8(buf)[xv_j] == xv_g_rb_j)
/* PO[C06] btls_receive.bad_sticks */
__CPROVER_ensures(BT_OLD_STATE(s) == conn_state_bad ==> (__CPROVER_return_value == -1 && xv_errno == __CPROVER_old(BT(s)->conn.badness_reason) && BT_STATE(s) == conn_state_bad && \
                                                         BT(s)->conn.badness_reason == __CPROVER_old(BT(s)->conn.badness_reason) && BT_SSL_UNTOUCHED))
/* PO[C06] btls_receive.closed_keeps_returning_zero */
__CPROVER_ensures(BT_OLD_STATE(s) == conn_state_closed ==> (__CPROVER_return_value == 0 && BT_STATE(s) == conn_state_closed && BT_SSL_UNTOUCHED))
/* PO[C06] btls_receive.discovering_call_reports: the call whose handshake step discovers the failure reports it: bad => the stored errno, closed => 0 */
__CPROVER_ensures((BT_HS_ENTERED && BT_DEAD_STATE(s)) ==> (BT_STATE(s) == conn_state_bad ? (__CPROVER_return_value == -1 && xv_errno == BT(s)->conn.badness_reason) : __CPROVER_return_value == 0))
/* PO[C09] btls_receive.not_ready_is_eagain */
__CPROVER_ensures((BT_STATE(s) != conn_state_ready && !BT_DEAD_STATE(s)) ==> (__CPROVER_return_value == -1 && xv_errno == EAGAIN && xv_sr_calls == __CPROVER_old(xv_sr_calls)))
/* PO[C02,C06] btls_receive.stream: the lower-layer receive contract: rv >= 1: buf[0..rv) are the next rv bytes of the plaintext stream; 0: the socket is closed; -1: nothing consumed, errno > 0, anything but EAGAIN means terminal */
__CPROVER_ensures(BT_LOWER_RECV_ENSURES(s, __CPROVER_return_value, buf, capacity))
/* PO[C06] btls_receive.eof_honest: 0 is reported only when the peer's close has been seen (close_notify, or EOF/EPIPE from the transport) -- in this call or earlier */
__CPROVER_ensures(__CPROVER_return_value == 0 ==> (BT_OLD_STATE(s) == conn_state_closed || xv_ssl_close_seen))
/* PO[C02] btls_receive.rv_is_openssl_count */
__CPROVER_ensures(__CPROVER_return_value >= 1 ==> (xv_sr_calls == __CPROVER_old(xv_sr_calls) + 1 && __CPROVER_return_value == xv_sr_ret))
/* PO[C06] btls_receive.failure_mapping: a refused SSL_read: WANT_* => EAGAIN; close_notify / EOF / EPIPE => closed, 0; protocol error => bad, EPROTO; transport errno e => bad, e */
__CPROVER_ensures((xv_sr_calls != __CPROVER_old(xv_sr_calls) && xv_sr_ret <= 0) ==> (BT_EV_MAP_AFTER(s, XCM_SO_RECEIVABLE, xv_ssl_errno) && \
        (BT_STATE(s) == conn_state_ready ==> (__CPROVER_return_value == -1 && xv_errno == EAGAIN)) && (BT_STATE(s) == conn_state_closed ==> __CPROVER_return_value == 0) && \
        (BT_STATE(s) == conn_state_bad ==> (__CPROVER_return_value == -1 && xv_errno == BT(s)->conn.badness_reason))))
/* PO[C02] btls_receive.counters: bytes are counted (taken from the lower layer, delivered to the application) exactly when and as delivered */
__CPROVER_ensures(__CPROVER_return_value >= 1 \
        ? (BCN(s, to_app_bytes) == __CPROVER_old(BCN(s, to_app_bytes)) + __CPROVER_return_value && BCN(s, from_lower_bytes) == __CPROVER_old(BCN(s, from_lower_bytes)) + __CPROVER_return_value) \
        : (BT_SAME(s, to_app_bytes) && BT_SAME(s, from_lower_bytes) && BT_SAME(s, to_app_msgs) && BT_SAME(s, from_lower_msgs)))
__CPROVER_ensures(BT_CONN_INV(s))
;

#include "contracts/end.h"
#endif
