/* contracts/btls.h -- libxcm/tp/tls/xcm_tp_btls.c: the byte-stream TLS transport over OpenSSL.
 * C09 (TLS never fails open: OpenSSL is configured with exactly the socket's policy, the verdict is consulted, application
 *      data moves only in state ready), C02/C06 (btls_send/btls_receive over SSL_write/SSL_read; terminal states stick),
 * C18 (finalize_tls_conf/get_file: per-socket designation first, otherwise the defaults as they stand at the call).
 * OpenSSL is env/ssl_env.h (TRUSTED).  slist_*, item_*, ut_*, getenv, ctx_store_*, xpoll_*, log_tls_*, xcm_addr_*, the btcp
 * sub-socket are other modules: ASSUMED here (stub bodies / contracts below).
 * Attached to the REAL static functions by redeclaration after the TU has been #included.
 *
 * The inductive argument for C09 (each step is one job):
 *   CONFIGURED  OpenSSL holds exactly the socket's policy        established by btls_connect / btls_accept (via set_verify,
 *               (mode, flags, host flags, every expected name)    enable_hostname_validation, finalize_tls_conf) BEFORE the
 *                                                                 state becomes handshaking; required by every handshake step
 *   READY       state ready  =>  handshake done AND verdict      established by try_finish_tls_handshake (+ verify_peer_cert),
 *               satisfies the policy                              the only place that writes `ready`
 *   policy fields do not change past `initialized`                set_*_attr refuse with EACCES
 *   SSL_write / SSL_read are entered only in state ready          btls_send / btls_receive (they REQUIRE the invariants and
 *                                                                 re-establish them)
 *
 * Obligations that FAIL on the unchanged tree (see the report of unit btls; native reproductions in the report):
 *   btls_send.discovering_call_reports       btls_send checks bad/closed BEFORE its handshake step: the call that discovers a
 *                                            failed handshake (certificate refused, reset, close) returns EAGAIN, the next one EPROTO
 *   btls_receive.closed_only_if_close_seen   (variant zero) xcm_receive(conn, buf, 0): SSL_read(.., 0) returns 0, classified as
 *                                            SYSCALL/errno 0 => a healthy connection is declared closed, pending data lost
 *   conversion checks at SSL_write/SSL_read  (variant huge) size_t len/capacity narrowed to int: 2 GiB => EPROTO and a dead
 *   + data_only_when_ready, closed_only_..   connection, 4 GiB => declared closed
 *   btls_accept.bio_attached                 btls_accept ignores the result of set_bio() (BIO_new failure)
 *   set_peer_names_attr.failed_set_has_no_effect   the old name list is destroyed before the new one is validated (DESIGN F14)
 */
#ifndef XV_BTLS_H
#define XV_BTLS_H
#include "contracts/begin.h"
#include "contracts/lower.h"

#define BT(s) ((struct btls_socket *)((uint8_t *)(s) + sizeof(struct xcm_socket)))
#define BT_SIZE (sizeof(struct xcm_socket) + sizeof(struct btls_socket))
#define BT_FRESH(s) __CPROVER_is_fresh((s), BT_SIZE)
/* s->proto is the registered BTLS protocol (the proto object is made by is_fresh: a pointer read from a fresh object and
 * merely ASSUMED equal to the address of a global is not dereferenceable for CBMC) */
#define BT_PROTO_FRESH(s) __CPROVER_is_fresh((s)->proto, sizeof(struct xcm_tp_proto))
#define BT_PROTO(s) ((s)->proto->ops == &btls_ops)
#define BT_STATE(s) (BT(s)->conn.state)
#define BT_STATE_OK(s) ((unsigned)BT_STATE(s) <= (unsigned)conn_state_closed)
#define BT_DEAD_STATE(s) (BT_STATE(s) == conn_state_closed || BT_STATE(s) == conn_state_bad)
#define BCN(s, c) (BT(s)->conn.cnts[xcm_tp_cnt_##c])
#define BT_U8(p) ((const uint8_t *)(p))
/* a call counter grew by at most n (what a replaced contract must say about every counter it may touch) */
#define XV_GROW(c, n) ((c) >= __CPROVER_old(c) && (c) <= __CPROVER_old(c) + (n))
#define BT_BOOL(b) ((b) == 0 || (b) == 1)
/* the boolean fields hold 0 or 1 (they are only ever written through `bool` lvalues) */
#define BT_BOOLS_OK(s) (BT_BOOL(BT(s)->tls_auth) && BT_BOOL(BT(s)->check_crl) && BT_BOOL(BT(s)->tls_client) && BT_BOOL(BT(s)->check_time) && BT_BOOL(BT(s)->verify_peer_name) && \
                        BT_BOOL(BT(s)->valid_peer_names_set) && BT_BOOL(BT(s)->tc_set) && BT_BOOL(BT(s)->crl_set))

/* the policy verdict of the SSL session (env/ssl_env.h) satisfies the socket's authentication policy */
#define BT_VERDICT_OK(s) (!BT(s)->tls_auth || (xv_ssl_peer_cert && xv_ssl_verify_result == X509_V_OK))
/* representation invariants of a connection socket
 *  - a bad socket has a real errno, never EAGAIN
 *  - READY: state ready is only ever entered (try_finish_tls_handshake) after a successful handshake whose verdict
 *    satisfies the policy; OpenSSL was configured (set_verify) before any handshake call */
#define BT_TERMINAL_INV(s) (BT_STATE(s) == conn_state_bad ==> (BT(s)->conn.badness_reason > 0 && BT(s)->conn.badness_reason != EAGAIN))
#define BT_READY_INV(s) (BT_STATE(s) == conn_state_ready ==> (xv_ssl_hs_done && BT_VERDICT_OK(s)))
/* CONFIGURED: OpenSSL holds exactly the socket's policy: verify mode from (tls.client, tls.auth), the CRL / no-time-check flags
 * from (tls.check_crl, tls.check_time), and with tls.verify_peer_name the host flags and a non-empty list of expected names */
#define BT_CONFIGURED(s) (xv_ssl_set_verify_calls >= 1 && xv_ssl_set_verify_ssl == BT(s)->conn.ssl && \
                          xv_ssl_set_verify_mode == BT_MODE(BT(s)->tls_client, BT(s)->tls_auth) && \
                          (xv_x509_flags & BT_XFLAGS(BT(s)->check_crl, BT(s)->check_time)) == BT_XFLAGS(BT(s)->check_crl, BT(s)->check_time) && \
                          (BT(s)->verify_peer_name ==> (xv_x509_hostflags == (X509_CHECK_FLAG_NO_WILDCARDS | X509_CHECK_FLAG_ALWAYS_CHECK_SUBJECT) && xv_x509_nhosts >= 1)))
#define BT_CONN_INV(s) (BT_STATE_OK(s) && BT_TERMINAL_INV(s) && BT_READY_INV(s) && \
                        ((BT_STATE(s) == conn_state_tls_handshaking || BT_STATE(s) == conn_state_ready) ==> BT_CONFIGURED(s)))

/* ================================================================================================================ */
/* other modules, ASSUMED                                                                                            */
/* ================================================================================================================ */
/* TRUSTED(xcm log_tls.c) log_tls_get_error_stack / log_tls_get_verification_failure_reason: called unconditionally by the LOG_TLS_*
 * macros (not behind log_is_enabled()): fill the caller's text buffer with some NUL-terminated text.  (The real
 * log_tls_get_error_stack also drains OpenSSL's error queue; nothing in the TU reads the queue after a call of it.) */
void log_tls_get_error_stack(char *buf, size_t capacity)
{
    __CPROVER_assert(capacity >= 1 && __CPROVER_w_ok(buf, capacity), "log_tls_get_error_stack: buffer writeable");
    xv_err_drained = 1;     /* the real one empties OpenSSL's per-thread error queue */
    __CPROVER_havoc_slice(buf, capacity);
    buf[capacity - 1] = '\0';
}
void log_tls_get_verification_failure_reason(X509_STORE_CTX *store_ctx, char *buf, size_t capacity)
{
    __CPROVER_assert(capacity >= 1 && __CPROVER_w_ok(buf, capacity), "log_tls_get_verification_failure_reason: buffer writeable");
    __CPROVER_havoc_slice(buf, capacity);
    buf[capacity - 1] = '\0';
}

/* TRUSTED(xcm slist.c) the list of expected peer names, seen through ONE arbitrary position: ONE list is modelled (the
 * socket's valid_peer_names); it has xv_slist_n elements, the element at position xv_hk (never assigned, env/ssl_env.h)
 * is xv_slist_name_k, every other element is some non-NULL string.  Facts proved about position xv_hk hold for all. */
size_t xv_slist_n; const char *xv_slist_name_k;
long xv_slist_split_calls; struct slist *xv_slist_split_ret; long xv_dns_valid_calls;
long xv_slist_destroy_calls; const struct slist *xv_slist_destroyed;
#define XV_SLIST_N_MAX (1UL << 40)
size_t slist_len(const struct slist *slist)
{
    __CPROVER_assert(slist != NULL, "slist_len: list given");
    return xv_slist_n;
}
const char *slist_get(const struct slist *slist, size_t index)
{
    __CPROVER_assert(slist != NULL && index < xv_slist_n, "slist_get: index inside the list");
    if (xv_hk >= 0 && index == (size_t)xv_hk)
        return xv_slist_name_k;
    const char *p = (const char *)nondet_size_t();
    __CPROVER_assume(p != NULL);
    return p;
}
void slist_destroy(struct slist *slist)
{
    if (slist != NULL) {
        xv_slist_destroy_calls++;
        xv_slist_destroyed = slist;
    }
}
/* TRUSTED(xcm slist.c) slist_clone: a new list with the same strings (ONE list content is modelled: xv_slist_n, xv_slist_name_k) */
long xv_slist_clone_calls; const struct slist *xv_slist_clone_src; struct slist *xv_slist_clone_ret;
struct slist *slist_clone(const struct slist *orig)
{
    __CPROVER_assert(orig != NULL, "slist_clone: list given");
    struct slist *c = malloc(1); __CPROVER_assume(c != NULL);
    xv_slist_clone_calls++; xv_slist_clone_src = orig; xv_slist_clone_ret = c;
    return c;
}
static inline void xv_btls_havoc(void)
{
    xv_slist_split_calls = nondet_long(); xv_slist_split_ret = (struct slist *)nondet_size_t(); xv_dns_valid_calls = nondet_long();
    xv_slist_clone_calls = nondet_long(); xv_slist_clone_src = (const struct slist *)nondet_size_t(); xv_slist_clone_ret = (struct slist *)nondet_size_t();
    xv_slist_n = nondet_size_t(); xv_slist_name_k = (const char *)nondet_size_t();
    xv_slist_destroy_calls = nondet_long(); xv_slist_destroyed = (const struct slist *)nondet_size_t();
}

/* TRUSTED(xcm item.c) item_init/item_is_set/item_deinit/item_set_file/item_copy: same text as libxcm/tp/tls/item.c except
 * that the `data` strings are opaque tokens (one fresh byte each; ut_strdup/ut_free are not modelled) and that what happens
 * to ONE arbitrary item, xv_it_watch (never assigned), is recorded:
 *   xv_it_w_deinits   how often its content was dropped
 *   xv_it_w_sets      how often a file name was put into it, and for the last time: the ut_asprintf call that produced
 *                     the name (xv_it_w_fmt/_a/_b/_nargs/_a_default, see xv_asprintf2/3 below; nargs -1: some other string)
 *   xv_it_w_copies    how often it was overwritten by item_copy, last source xv_it_w_src */
struct item *xv_it_watch;
long xv_it_w_deinits, xv_it_w_sets, xv_it_w_copies; const struct item *xv_it_w_src;
const char *xv_it_w_fmt, *xv_it_w_a, *xv_it_w_b; int xv_it_w_nargs; _Bool xv_it_w_a_default;
long xv_asp_calls; const char *xv_asp_fmt, *xv_asp_a, *xv_asp_b; int xv_asp_nargs; char *xv_asp_ret; _Bool xv_asp_a_default;
#define XV_ITEM_ASSIGNS xv_it_w_deinits, xv_it_w_sets, xv_it_w_copies, xv_it_w_src, xv_it_w_fmt, xv_it_w_a, xv_it_w_b, xv_it_w_nargs, xv_it_w_a_default
#define XV_ASP_ASSIGNS xv_asp_calls, xv_asp_fmt, xv_asp_a, xv_asp_b, xv_asp_nargs, xv_asp_ret, xv_asp_a_default
bool item_is_set(const struct item *item) { return item->type != item_type_none; }
void item_init(struct item *item) { item->type = item_type_none; item->sensitive = false; item->data = NULL; }
void item_deinit(struct item *item)
{
    if (item != NULL && item_is_set(item)) {
        if (item == xv_it_watch) xv_it_w_deinits++;
        item_init(item);
    }
}
void item_set_file(struct item *item, const char *filename, bool sensitive)
{
    __CPROVER_assert(filename != NULL && __CPROVER_r_ok(filename, 1), "item_set_file: file name given");
    item_deinit(item);
    char *d = malloc(1); __CPROVER_assume(d != NULL);
    item->type = item_type_file; item->sensitive = sensitive; item->data = d;
    if (item == xv_it_watch) {
        xv_it_w_sets++;
        if (filename == xv_asp_ret) {
            xv_it_w_fmt = xv_asp_fmt; xv_it_w_a = xv_asp_a; xv_it_w_b = xv_asp_b; xv_it_w_nargs = xv_asp_nargs; xv_it_w_a_default = xv_asp_a_default;
        } else
            xv_it_w_nargs = -1;
    }
}
long xv_it_w_valsets; size_t xv_it_w_vallen; _Bool xv_it_w_valsens;
/* TRUSTED(xcm item.c) item_set_value_n: same text as item.c with the string copy opaque; recorded for the watched item */
void item_set_value_n(struct item *item, const char *value, size_t len, bool sensitive)
{
    __CPROVER_assert(len == 0 || __CPROVER_r_ok(value, len), "item_set_value_n: value readable for len bytes");
    item_deinit(item);
    char *d = malloc(1); __CPROVER_assume(d != NULL);
    item->type = item_type_value; item->sensitive = sensitive; item->data = d;
    if (item == xv_it_watch) { xv_it_w_valsets++; xv_it_w_vallen = len; xv_it_w_valsens = sensitive; }
}
void item_copy(const struct item *src_item, struct item *dst_item)
{
    item_deinit(dst_item);
    dst_item->type = src_item->type;
    if (src_item->type != item_type_none) {
        char *d = malloc(1); __CPROVER_assume(d != NULL);
        dst_item->data = d;
    }
    if (dst_item == xv_it_watch) { xv_it_w_copies++; xv_it_w_src = src_item; }
}
/* TRUSTED(xcm util.c) ut_asprintf through the fixed-arity macro of harness/btls/_unit.h: a fresh NUL-terminated string of
 * ANY length 0..XV_PATH_MAX with arbitrary content; the arguments are recorded (xv_asp_a_default: the first %s argument
 * reads "/etc/xcm/tls", the DEFAULT_CERT_DIR of this build) */
#define XV_PATH_MAX 64
#define XV_IS_DEFAULT_DIR(a) ((a)[0] == '/' && (a)[1] == 'e' && (a)[2] == 't' && (a)[3] == 'c' && (a)[4] == '/' && (a)[5] == 'x' && (a)[6] == 'c' && (a)[7] == 'm' && \
                              (a)[8] == '/' && (a)[9] == 't' && (a)[10] == 'l' && (a)[11] == 's' && (a)[12] == 0)
static char *xv_asprintf_n(const char *fmt, const char *a, const char *b, int nargs)
{
    __CPROVER_assert(fmt != NULL && __CPROVER_r_ok(fmt, 1) && a != NULL && __CPROVER_r_ok(a, 1), "ut_asprintf: format and string argument readable");
    size_t n = nondet_size_t();
    __CPROVER_assume(n <= XV_PATH_MAX);
    char *p = malloc(n + 1);
    __CPROVER_assume(p != NULL);
    p[n] = '\0';
    xv_asp_calls++;
    xv_asp_fmt = fmt; xv_asp_a = a; xv_asp_b = b; xv_asp_nargs = nargs; xv_asp_ret = p;
    xv_asp_a_default = __CPROVER_r_ok(a, 13) && XV_IS_DEFAULT_DIR(a);
    return p;
}
char *xv_asprintf2(const char *fmt, const char *a) { return xv_asprintf_n(fmt, a, NULL, 1); }
char *xv_asprintf3(const char *fmt, const char *a, const char *b)
{
    __CPROVER_assert(b != NULL && __CPROVER_r_ok(b, 1), "ut_asprintf: second string argument readable");
    return xv_asprintf_n(fmt, a, b, 2);
}
/* TRUSTED(xcm util.c) ut_self_net_ns, as documented in util.h ("'name' buffer needs to be NAME_MAX in size"): fails (-1, some
 * errno, buffer content arbitrary) or stores the name of the calling thread's network namespace ("" = the default one) */
long xv_ns_calls; int xv_ns_rc; _Bool xv_ns_empty; const char *xv_ns_buf;
#define XV_NS_ASSIGNS xv_ns_calls, xv_ns_rc, xv_ns_empty, xv_ns_buf
int ut_self_net_ns(char *name)
{
    __CPROVER_assert(__CPROVER_w_ok(name, NAME_MAX), "ut_self_net_ns: NAME_MAX bytes writeable");
    xv_ns_calls++; xv_ns_buf = name;
    __CPROVER_havoc_slice(name, NAME_MAX);
    if (nondet_bool()) {
        int e = nondet_int(); __CPROVER_assume(e > 0); xv_errno = e;
        xv_ns_rc = -1;
        return -1;
    }
    size_t n = nondet_size_t();
    __CPROVER_assume(n < NAME_MAX);
    name[n] = '\0';
    __CPROVER_assume(n == 0 || name[0] != '\0');
    xv_ns_rc = 0; xv_ns_empty = (n == 0);
    return 0;
}
/* TRUSTED(libc) getenv: the variable is unset (NULL) or has the value xv_env_val (some string) -- as it stands at the call */
long xv_getenv_calls; _Bool xv_env_set; char xv_env_val[16];
char *getenv(const char *name)
{
    xv_getenv_calls++;
    return xv_env_set ? xv_env_val : NULL;
}
static inline void xv_conf_havoc(void)
{
    xv_it_watch = (struct item *)nondet_size_t();
    xv_it_w_valsets = nondet_long(); xv_it_w_vallen = nondet_size_t(); xv_it_w_valsens = nondet_bool();
    xv_it_w_deinits = nondet_long(); xv_it_w_sets = nondet_long(); xv_it_w_copies = nondet_long(); xv_it_w_src = (const struct item *)nondet_size_t();
    xv_it_w_fmt = xv_it_w_a = xv_it_w_b = (const char *)nondet_size_t(); xv_it_w_nargs = nondet_int(); xv_it_w_a_default = nondet_bool();
    xv_asp_calls = nondet_long(); xv_asp_fmt = xv_asp_a = xv_asp_b = (const char *)nondet_size_t(); xv_asp_nargs = nondet_int(); xv_asp_ret = (char *)nondet_size_t();
    xv_asp_a_default = nondet_bool();
    xv_ns_calls = nondet_long(); xv_ns_rc = nondet_int(); xv_ns_empty = nondet_bool(); xv_ns_buf = (const char *)nondet_size_t();
    xv_getenv_calls = nondet_long(); xv_env_set = nondet_bool();
    __CPROVER_havoc_slice(xv_env_val, sizeof(xv_env_val)); xv_env_val[sizeof(xv_env_val) - 1] = '\0';
}

/* TRUSTED(xcm xpoll.c, ctx_store.c, xcm_tp.c, common_tp.c, xcm_addr.c, slist.c) what btls_connect/btls_accept/deinit/conn_update
 * call in other modules: any result the real function may have, arguments recorded */
long xv_bell_adds, xv_bell_dels, xv_bell_mods; _Bool xv_bell_ringing;
int xpoll_bell_reg_add(struct xpoll *xpoll, bool ringing) { xv_bell_adds++; int id = nondet_int(); __CPROVER_assume(id >= 0); return id; }
void xpoll_bell_reg_mod(struct xpoll *xpoll, int reg_id, bool ringing) { xv_bell_mods++; xv_bell_ringing = ringing; }
void xpoll_bell_reg_del(struct xpoll *xpoll, int reg_id) { xv_bell_dels++; }
long xv_ctx_get_calls, xv_ctx_refs; const struct item *xv_ctx_cert, *xv_ctx_key, *xv_ctx_tc, *xv_ctx_crl;
/* what the four items designated when the context was fetched (types; the data are opaque) */
int xv_ctx_cert_type, xv_ctx_key_type, xv_ctx_tc_type, xv_ctx_crl_type;
SSL_CTX *ctx_store_get_ctx(const struct item *cert, const struct item *key, const struct item *tc, const struct item *crl, void *log_ref)
{
    xv_ctx_get_calls++;
    xv_ctx_cert = cert; xv_ctx_key = key; xv_ctx_tc = tc; xv_ctx_crl = crl;
    xv_ctx_cert_type = cert->type; xv_ctx_key_type = key->type; xv_ctx_tc_type = tc->type; xv_ctx_crl_type = crl->type;
    if (nondet_bool()) {
        int e = nondet_int(); __CPROVER_assume(e > 0); xv_errno = e;
        return NULL;
    }
    xv_ctx_refs++;
    return XV_CTX;
}
void ctx_store_put(SSL_CTX *ssl_ctx)
{
    __CPROVER_assert(ssl_ctx == XV_CTX && xv_ctx_refs > 0, "ctx_store_put: a context obtained from ctx_store_get_ctx");
    xv_ctx_refs--;
}
struct xcm_socket *xv_low_s;
int xv_low_accept_ret;
long xv_low_connects, xv_low_accepts, xv_low_closes, xv_low_destroys, xv_low_updates; int xv_low_update_cond;
int xcm_tp_socket_connect(struct xcm_socket *s, const char *remote_addr)
{
    xv_low_connects++; xv_low_s = s;
    if (nondet_bool()) { int e = nondet_int(); __CPROVER_assume(e > 0); xv_errno = e; return -1; }
    return 0;
}
int xcm_tp_socket_accept(struct xcm_socket *conn_s, struct xcm_socket *server_s)
{
    xv_low_accepts++; xv_low_s = conn_s;
    if (nondet_bool()) { int e = nondet_int(); __CPROVER_assume(e > 0); xv_errno = e; xv_low_accept_ret = -1; return -1; }
    xv_low_accept_ret = 0;
    return 0;
}
void xcm_tp_socket_close(struct xcm_socket *s) { xv_low_closes++; }
void xcm_tp_socket_cleanup(struct xcm_socket *s) { xv_low_closes++; }
void xcm_tp_socket_destroy(struct xcm_socket *s) { xv_low_destroys++; }
_Bool xv_addr_valid;
int btls_to_btcp(const char *btls_addr, char *btcp_addr, size_t capacity)
{
    __CPROVER_assert(capacity >= 1 && __CPROVER_w_ok(btcp_addr, capacity), "btls_to_btcp: output buffer writeable");
    if (nondet_bool()) { xv_addr_valid = 0; xv_errno = nondet_bool() ? EINVAL : ENAMETOOLONG; return -1; }
    __CPROVER_havoc_slice(btcp_addr, capacity);
    btcp_addr[capacity - 1] = '\0';
    xv_addr_valid = 1;
    return 0;
}
_Bool xv_addr_is_name;
int xcm_addr_parse_btls(const char *btls_addr_s, struct xcm_addr_host *host, uint16_t *port)
{
    /* an address btls_to_btcp() accepted parses (btls_to_btcp IS xcm_addr_parse_btls + xcm_addr_make_btcp, common_tp.c) */
    __CPROVER_assert(xv_addr_valid, "xcm_addr_parse_btls: called for an address that btls_to_btcp accepted");
    __CPROVER_havoc_slice(host, sizeof(*host));
    host->type = xv_addr_is_name ? xcm_addr_type_name : xcm_addr_type_ip;
    host->name[sizeof(host->name) - 1] = '\0';
    *port = (uint16_t)nondet_uint();
    return 0;
}
long xv_slist_create_calls; struct slist *xv_slist_created;
struct slist *slist_create(void)
{
    struct slist *l = malloc(1); __CPROVER_assume(l != NULL);
    xv_slist_create_calls++; xv_slist_created = l; xv_slist_n = 0;
    return l;
}
void slist_append(struct slist *slist, const char *str)
{
    __CPROVER_assert(slist != NULL, "slist_append: list given");
    if (xv_hk >= 0 && xv_slist_n == (size_t)xv_hk) xv_slist_name_k = str;
    xv_slist_n++;
}
#define XV_OTHER_ASSIGNS xv_bell_adds, xv_bell_dels, xv_bell_mods, xv_bell_ringing, xv_ctx_get_calls, xv_ctx_refs, xv_ctx_cert, xv_ctx_key, xv_ctx_tc, xv_ctx_crl, \
                         xv_ctx_cert_type, xv_ctx_key_type, xv_ctx_tc_type, xv_ctx_crl_type, \
                         xv_low_connects, xv_low_accepts, xv_low_accept_ret, xv_low_closes, xv_low_destroys, xv_low_s, xv_addr_valid, xv_slist_create_calls, xv_slist_created, \
                         xv_slist_n, xv_slist_name_k, xv_slist_destroy_calls, xv_slist_destroyed
#define XV_OTHER_LIM(lim) (XV_CNT_LIM(xv_bell_adds, lim) && XV_CNT_LIM(xv_bell_dels, lim) && XV_CNT_LIM(xv_bell_mods, lim) && XV_CNT_LIM(xv_ctx_get_calls, lim) && XV_CNT_LIM(xv_ctx_refs, lim) && \
                        XV_CNT_LIM(xv_low_connects, lim) && XV_CNT_LIM(xv_low_accepts, lim) && XV_CNT_LIM(xv_low_closes, lim) && XV_CNT_LIM(xv_low_destroys, lim) && \
                        XV_CNT_LIM(xv_slist_create_calls, lim) && XV_CNT_LIM(xv_slist_destroy_calls, lim) && XV_CNT_LIM(xv_ssl_new_calls, lim) && XV_CNT_LIM(xv_bio_new_calls, lim) && \
                        XV_CNT_LIM(xv_set_bio_calls, lim) && XV_CNT_LIM(xv_low_updates, lim))
#define XV_OTHER_RANGE XV_OTHER_LIM(XV_SSL_CALLS_MAX)
#define XV_OTHER_RANGE_IN XV_OTHER_LIM(4 * XV_SSL_CALLS_MAX)
static inline void xv_other_havoc(void)
{
    xv_bell_adds = nondet_long(); xv_bell_dels = nondet_long(); xv_bell_mods = nondet_long(); xv_bell_ringing = nondet_bool();
    xv_ctx_get_calls = nondet_long(); xv_ctx_refs = nondet_long(); xv_ctx_cert = xv_ctx_key = xv_ctx_tc = xv_ctx_crl = (const struct item *)nondet_size_t();
    xv_ctx_cert_type = nondet_int(); xv_ctx_key_type = nondet_int(); xv_ctx_tc_type = nondet_int(); xv_ctx_crl_type = nondet_int();
    xv_low_connects = nondet_long(); xv_low_accepts = nondet_long(); xv_low_closes = nondet_long(); xv_low_destroys = nondet_long(); xv_low_updates = nondet_long();
    xv_low_update_cond = nondet_int();
    xv_addr_valid = nondet_bool(); xv_addr_is_name = nondet_bool(); xv_slist_create_calls = nondet_long(); xv_slist_created = (struct slist *)nondet_size_t();
    xv_ssl_new_havoc();
}
/* TRUSTED(xcm xcm_tp.c) xcm_tp_set_bool_attr: same text (copies the one byte of a bool attribute value) */
void xcm_tp_set_bool_attr(const void *buf, size_t len, bool *value) { *(uint8_t *)value = *(const uint8_t *)buf; }
/* TRUSTED(xcm slist.c, xcm_dns.c) slist_split: a new list of ANY length (0 for an empty string); xcm_dns_is_valid_name: any verdict */
long xv_slist_split_calls; struct slist *xv_slist_split_ret; long xv_dns_valid_calls;
struct slist *slist_split(const char *str, char delim)
{
    __CPROVER_assert(str != NULL && __CPROVER_r_ok(str, 1), "slist_split: string given");
    struct slist *l = malloc(1); __CPROVER_assume(l != NULL);
    size_t n = nondet_size_t(); __CPROVER_assume(n < XV_SLIST_N_MAX);
    xv_slist_split_calls++; xv_slist_split_ret = l; xv_slist_n = n;
    const char *k = (const char *)nondet_size_t(); __CPROVER_assume(k != NULL); xv_slist_name_k = k;
    return l;
}
bool xcm_dns_is_valid_name(const char *name) { xv_dns_valid_calls++; return nondet_bool(); }

/* ================================================================================================================ */
/* C09: configuration of OpenSSL                                                                                     */
/* ================================================================================================================ */
#define BT_MODE(tls_client, tls_auth) ((tls_auth) ? (SSL_VERIFY_PEER | ((tls_client) ? 0 : SSL_VERIFY_FAIL_IF_NO_PEER_CERT)) : SSL_VERIFY_NONE)
#define BT_XFLAGS(check_crl, check_time) (((check_crl) ? (unsigned long)(X509_V_FLAG_CRL_CHECK | X509_V_FLAG_CRL_CHECK_ALL) : 0UL) | \
                                          ((check_time) ? 0UL : (unsigned long)X509_V_FLAG_NO_CHECK_TIME))
static void set_verify(SSL *ssl, bool tls_client, bool tls_auth, bool check_crl, bool check_time)
__CPROVER_requires(XV_SSL_GHOST_RANGE_IN)
__CPROVER_assigns(XV_SSL_CONF_ASSIGNS)
/* PO[C09] set_verify.mode: exactly one SSL_set_verify on this SSL; auth => VERIFY_PEER (| FAIL_IF_NO_PEER_CERT on the server side), no auth => VERIFY_NONE */
__CPROVER_ensures(xv_ssl_set_verify_calls == __CPROVER_old(xv_ssl_set_verify_calls) + 1 && xv_ssl_set_verify_ssl == ssl && \
                  xv_ssl_set_verify_mode == BT_MODE(tls_client, tls_auth))
/* PO[C09] set_verify.flags: the verification flags in force afterwards are the previous ones plus exactly CRL_CHECK|CRL_CHECK_ALL iff check_crl, NO_CHECK_TIME iff !check_time */
__CPROVER_ensures(xv_x509_flags == (__CPROVER_old(xv_x509_flags) | BT_XFLAGS(check_crl, check_time)))
/* PO[C09] set_verify.own_param: flags are changed only on the parameter object of this SSL */
__CPROVER_ensures(xv_x509_set_flags_calls != __CPROVER_old(xv_x509_set_flags_calls) ==> xv_get0_param_ssl == ssl)
__CPROVER_ensures(XV_GROW(xv_get0_param_calls, 1) && XV_GROW(xv_x509_set_flags_calls, 1))
/* PO[C09] set_verify.callback_passthrough: the verify callback cannot turn a failed check into a pass (it is verify_cb, which returns `ok` unchanged: job btls.verify_cb) */
__CPROVER_ensures(xv_ssl_set_verify_cb == verify_cb)
;
static int verify_cb(int ok, X509_STORE_CTX *ctx)
__CPROVER_requires(1)
__CPROVER_assigns()
/* PO[C09] verify_cb.passthrough */
__CPROVER_ensures(__CPROVER_return_value == ok)
;

/* ================================================================================================================ */
/* C09/C06: the handshake and its verdict                                                                            */
/* ================================================================================================================ */
/* ---- verify_peer_cert: called in state ready right after a successful handshake when tls.auth is on */
static void verify_peer_cert(struct xcm_socket *s)
__CPROVER_requires(BT_FRESH(s) && BT_STATE(s) == conn_state_ready && XV_SSL_GHOST_RANGE_IN)
__CPROVER_assigns(BT_STATE(s), BT(s)->conn.badness_reason, XV_SSL_VERDICT_ASSIGNS)
/* PO[C09] verify_peer_cert.verdict_consulted: the socket stays ready ONLY IF the peer presented a certificate AND OpenSSL's verification verdict is X509_V_OK */
__CPROVER_ensures(BT_STATE(s) == conn_state_ready ==> (xv_ssl_peer_cert && xv_ssl_verify_result == X509_V_OK))
/* PO[C09] verify_peer_cert.else_eproto: otherwise (no certificate, or any verdict other than OK) the socket is bad with EPROTO */
__CPROVER_ensures(!(xv_ssl_peer_cert && xv_ssl_verify_result == X509_V_OK) ==> (BT_STATE(s) == conn_state_bad && BT(s)->conn.badness_reason == EPROTO))
__CPROVER_ensures(BT_STATE(s) == conn_state_ready || BT_STATE(s) == conn_state_bad)
__CPROVER_ensures(BT_STATE(s) == conn_state_ready ==> BT(s)->conn.badness_reason == __CPROVER_old(BT(s)->conn.badness_reason))
/* the certificate reference is given back */
__CPROVER_ensures(xv_x509_refs == __CPROVER_old(xv_x509_refs))
;

/* ---- process_ssl_event: classification of a failed SSL call (C06: "SSL_ERROR_ZERO_RETURN => closed, SSL_ERROR_SSL =>
 * bad(EPROTO), SYSCALL mapping as coded") */
#define BT_EV_WANT(s, condition, w) (BT_STATE(s) == __CPROVER_old(BT_STATE(s)) && BT(s)->conn.ssl_condition == (condition) && BT(s)->conn.ssl_wants == (w) && \
                                     BT(s)->conn.badness_reason == __CPROVER_old(BT(s)->conn.badness_reason))
#define BT_EV_CLOSED(s) (BT_STATE(s) == conn_state_closed && BT(s)->conn.badness_reason == __CPROVER_old(BT(s)->conn.badness_reason))
#define BT_EV_BAD(s, e) (BT_STATE(s) == conn_state_bad && BT(s)->conn.badness_reason == (e))
/* the mapping, as a predicate over the SSL model's classification (xv_ssl_err, xv_err_queue) and the errno of the call */
#define BT_EV_MAP(s, condition, en) ( \
    (xv_ssl_err == SSL_ERROR_WANT_READ ==> BT_EV_WANT(s, condition, XCM_SO_RECEIVABLE)) && \
    (xv_ssl_err == SSL_ERROR_WANT_WRITE ==> BT_EV_WANT(s, condition, XCM_SO_SENDABLE)) && \
    (xv_ssl_err == SSL_ERROR_ZERO_RETURN ==> BT_EV_CLOSED(s)) && \
    (xv_ssl_err == SSL_ERROR_SSL ==> BT_EV_BAD(s, EPROTO)) && \
    ((xv_ssl_err == SSL_ERROR_SYSCALL && xv_err_queue != 0) ==> BT_EV_BAD(s, EPROTO)) && \
    ((xv_ssl_err == SSL_ERROR_SYSCALL && xv_err_queue == 0 && (en) == EINPROGRESS) ==> \
        (BT_STATE(s) == __CPROVER_old(BT_STATE(s)) && BT(s)->conn.ssl_wants == XCM_SO_RECEIVABLE && BT(s)->conn.badness_reason == __CPROVER_old(BT(s)->conn.badness_reason))) && \
    ((xv_ssl_err == SSL_ERROR_SYSCALL && xv_err_queue == 0 && ((en) == EPIPE || (en) == 0)) ==> BT_EV_CLOSED(s)) && \
    ((xv_ssl_err == SSL_ERROR_SYSCALL && xv_err_queue == 0 && (en) != EPIPE && (en) != 0 && (en) != EINPROGRESS) ==> BT_EV_BAD(s, en)))
/* the same mapping for a data call: the state the failed call was made in is ready (possibly reached in the same API call) */
#define BT_EV_KEEP(s, condition, w) (BT_STATE(s) == conn_state_ready && BT(s)->conn.ssl_condition == (condition) && BT(s)->conn.ssl_wants == (w))
#define BT_EV_MAP_AFTER(s, condition, en) ( \
    (xv_ssl_err == SSL_ERROR_WANT_READ ==> BT_EV_KEEP(s, condition, XCM_SO_RECEIVABLE)) && \
    (xv_ssl_err == SSL_ERROR_WANT_WRITE ==> BT_EV_KEEP(s, condition, XCM_SO_SENDABLE)) && \
    (xv_ssl_err == SSL_ERROR_ZERO_RETURN ==> BT_STATE(s) == conn_state_closed) && \
    (xv_ssl_err == SSL_ERROR_SSL ==> BT_EV_BAD(s, EPROTO)) && \
    ((xv_ssl_err == SSL_ERROR_SYSCALL && xv_err_queue != 0) ==> BT_EV_BAD(s, EPROTO)) && \
    ((xv_ssl_err == SSL_ERROR_SYSCALL && xv_err_queue == 0 && (en) == EINPROGRESS) ==> (BT_STATE(s) == conn_state_ready && BT(s)->conn.ssl_wants == XCM_SO_RECEIVABLE)) && \
    ((xv_ssl_err == SSL_ERROR_SYSCALL && xv_err_queue == 0 && ((en) == EPIPE || (en) == 0)) ==> BT_STATE(s) == conn_state_closed) && \
    ((xv_ssl_err == SSL_ERROR_SYSCALL && xv_err_queue == 0 && (en) != EPIPE && (en) != 0 && (en) != EINPROGRESS) ==> BT_EV_BAD(s, en)))
#define BT_ERR_CLASS_OK (xv_ssl_err == SSL_ERROR_SSL || xv_ssl_err == SSL_ERROR_WANT_READ || xv_ssl_err == SSL_ERROR_WANT_WRITE || \
                         xv_ssl_err == SSL_ERROR_SYSCALL || xv_ssl_err == SSL_ERROR_ZERO_RETURN)
static void process_ssl_event(struct xcm_socket *s, int condition, int ssl_rc, int ssl_errno)
__CPROVER_requires(BT_FRESH(s) && BT_STATE_OK(s) && BT_ERR_CLASS_OK && ssl_rc == xv_ssl_last_ret && ssl_rc <= 0)
/* assumption A2 of env/ssl_env.h, as a precondition: a SYSCALL failure without queued error does not carry EAGAIN */
__CPROVER_requires((xv_ssl_err == SSL_ERROR_SYSCALL && xv_err_queue == 0) ==> (ssl_errno != EAGAIN && ssl_errno != EWOULDBLOCK))
__CPROVER_assigns(BT_STATE(s), BT(s)->conn.badness_reason, BT(s)->conn.ssl_condition, BT(s)->conn.ssl_wants, xv_err_drained)
/* PO[C06] process_ssl_event.mapping */
__CPROVER_ensures(BT_EV_MAP(s, condition, ssl_errno))
/* PO[C07] process_ssl_event.error_queue_drained: a TLS protocol error leaves nothing in OpenSSL's per-thread error queue, where it would make the next harmless SSL_read/SSL_write result of ANOTHER connection of this thread look like a protocol error */
__CPROVER_ensures((xv_ssl_err == SSL_ERROR_SSL || (xv_ssl_err == SSL_ERROR_SYSCALL && xv_err_queue != 0)) ==> (xv_err_drained ? 1 : 0) == 1)
;

/* ---- try_finish_tls_handshake */
#define BT_HS_ENTERED (xv_hs_calls != __CPROVER_old(xv_hs_calls))
static void try_finish_tls_handshake(struct xcm_socket *s)
__CPROVER_requires(BT_FRESH(s))
__CPROVER_requires(XV_SSL_GHOST_RANGE_IN)
__CPROVER_requires(BT_STATE_OK(s) && BT_TERMINAL_INV(s) && BT_READY_INV(s))
__CPROVER_requires((BT_STATE(s) == conn_state_tls_handshaking || BT_STATE(s) == conn_state_ready) ==> BT_CONFIGURED(s))
__CPROVER_assigns(xv_errno, XV_SSL_HS_ASSIGNS, XV_SSL_VERDICT_ASSIGNS)
__CPROVER_assigns(BT_STATE(s), BT(s)->conn.badness_reason, BT(s)->conn.ssl_condition, BT(s)->conn.ssl_wants)
/* PO[C09] try_finish_tls_handshake.ready_only_if_verified: state ready is reached ONLY IF the handshake call returned success AND (tls.auth is off OR (a peer certificate is present AND the verdict is X509_V_OK)) */
__CPROVER_ensures((BT_STATE(s) == conn_state_ready && __CPROVER_old(BT_STATE(s)) != conn_state_ready) ==> \
                  (__CPROVER_old(BT_STATE(s)) == conn_state_tls_handshaking && xv_hs_ret >= 1 && xv_hs_ssl == BT(s)->conn.ssl && xv_ssl_hs_done && BT_VERDICT_OK(s)))
/* PO[C09] try_finish_tls_handshake.policy_violation_is_eproto: handshake done but the verdict does not satisfy the policy => bad, EPROTO */
__CPROVER_ensures((BT_HS_ENTERED && xv_hs_ret >= 1 && !BT_VERDICT_OK(s)) ==> (BT_STATE(s) == conn_state_bad && BT(s)->conn.badness_reason == EPROTO))
/* PO[C09] try_finish_tls_handshake.established: handshake done and policy satisfied => ready (no spurious refusal) */
__CPROVER_ensures((BT_HS_ENTERED && xv_hs_ret >= 1 && BT_VERDICT_OK(s)) ==> BT_STATE(s) == conn_state_ready)
/* PO[C09] try_finish_tls_handshake.configured_first: whenever the handshake is entered OpenSSL holds exactly the socket's policy (CONFIGURED above; established by btls_connect/btls_accept before the state becomes handshaking) */
__CPROVER_ensures(BT_HS_ENTERED ==> BT_CONFIGURED(s))
/* PO[C09,C16] try_finish_tls_handshake.one_step_own_role: only a handshaking socket enters OpenSSL: one SSL_connect (tls.client) or SSL_accept (server role) on the socket's own SSL; otherwise nothing at all happens */
__CPROVER_ensures(__CPROVER_old(BT_STATE(s)) == conn_state_tls_handshaking \
        ? (xv_hs_calls == __CPROVER_old(xv_hs_calls) + 1 && xv_hs_ssl == BT(s)->conn.ssl && xv_hs_connect == (BT(s)->tls_client != 0)) \
        : (xv_hs_calls == __CPROVER_old(xv_hs_calls) && BT_STATE(s) == __CPROVER_old(BT_STATE(s)) && BT(s)->conn.badness_reason == __CPROVER_old(BT(s)->conn.badness_reason) && \
           BT(s)->conn.ssl_condition == __CPROVER_old(BT(s)->conn.ssl_condition) && BT(s)->conn.ssl_wants == __CPROVER_old(BT(s)->conn.ssl_wants)))
/* PO[C06] try_finish_tls_handshake.failure_mapping: a failed step: WANT_* => still handshaking (ssl_condition 0, ssl_wants says what to wait for), close_notify/EOF/EPIPE => closed, protocol error => bad(EPROTO), transport errno e => bad(e)
 */
__CPROVER_ensures((BT_HS_ENTERED && xv_hs_ret < 1) ==> BT_EV_MAP(s, 0, xv_ssl_errno))
/* PO[C06] try_finish_tls_handshake.closed_only_if_close_seen: the socket becomes closed only when the peer's close was seen (close_notify, or EOF/EPIPE from the transport) */
__CPROVER_ensures((BT_STATE(s) == conn_state_closed && __CPROVER_old(BT_STATE(s)) != conn_state_closed) ==> xv_ssl_close_seen)
/* PO[C06] try_finish_tls_handshake.terminal_sticks: closed and bad are absorbing, the stored errno is immutable */
__CPROVER_ensures((__CPROVER_old(BT_STATE(s)) == conn_state_closed || __CPROVER_old(BT_STATE(s)) == conn_state_bad) ==> \
                  (BT_STATE(s) == __CPROVER_old(BT_STATE(s)) && BT(s)->conn.badness_reason == __CPROVER_old(BT(s)->conn.badness_reason)))
__CPROVER_ensures(XV_GROW(xv_hs_calls, 1) && XV_GROW(xv_peer_cert_calls, 1) && XV_GROW(xv_verify_result_calls, 1) && XV_GROW(xv_errstr_calls, 1))
/* the state machine only moves forward: handshaking -> {handshaking, ready, bad, closed} */
__CPROVER_ensures(__CPROVER_old(BT_STATE(s)) == conn_state_tls_handshaking ==> (BT_STATE(s) >= conn_state_tls_handshaking && ((BT_HS_ENTERED && xv_hs_ret < 1) ==> BT_ERR_CLASS_OK)))
/* the caller's errno survives, the representation invariants hold again, the certificate reference is given back */
__CPROVER_ensures(xv_errno == __CPROVER_old(xv_errno))
__CPROVER_ensures(BT_CONN_INV(s))
__CPROVER_ensures(xv_x509_refs == __CPROVER_old(xv_x509_refs))
;

/* ---- enable_hostname_validation (tls.verify_peer_name) */
/* representation invariant: a name list, when present, is not empty (set_peer_names_attr keeps NULL for an empty value,
 * btls_connect appends the host name, inherit_tls_conf clones a non-empty list) */
#define BT_NAMES_INV(s) (BT(s)->valid_peer_names != NULL ==> (xv_slist_n >= 1 && xv_slist_n < XV_SLIST_N_MAX && ((xv_hk >= 0 && xv_hk < (long)xv_slist_n) ==> xv_slist_name_k != NULL)))
#define BT_HOSTVAL_UNTOUCHED (xv_x509_set_hostflags_calls == __CPROVER_old(xv_x509_set_hostflags_calls) && xv_x509_add_calls == __CPROVER_old(xv_x509_add_calls) && \
                              xv_x509_host_resets == __CPROVER_old(xv_x509_host_resets) && xv_x509_nhosts == __CPROVER_old(xv_x509_nhosts))
static int enable_hostname_validation(struct xcm_socket *s)
__CPROVER_requires(BT_FRESH(s))
__CPROVER_requires(XV_SSL_GHOST_RANGE_IN)
__CPROVER_requires(BT_NAMES_INV(s))
__CPROVER_assigns(xv_errno, XV_SSL_HOST_ASSIGNS)
__CPROVER_ensures(__CPROVER_return_value == 0 || (__CPROVER_return_value == -1 && xv_errno == EINVAL))
/* PO[C09] enable_hostname_validation.needs_auth_and_names: without tls.auth, or without any expected name, name verification cannot be enabled: EINVAL, OpenSSL untouched */
__CPROVER_ensures((!BT(s)->tls_auth || BT(s)->valid_peer_names == NULL) ==> (__CPROVER_return_value == -1 && xv_errno == EINVAL && BT_HOSTVAL_UNTOUCHED))
/* PO[C09] enable_hostname_validation.flags: on success the host flags of the socket's own SSL are exactly NO_WILDCARDS|ALWAYS_CHECK_SUBJECT */
__CPROVER_ensures(__CPROVER_return_value == 0 ==> (xv_x509_hostflags == (X509_CHECK_FLAG_NO_WILDCARDS | X509_CHECK_FLAG_ALWAYS_CHECK_SUBJECT) && \
                                                    xv_get0_param_ssl == BT(s)->conn.ssl && xv_x509_set_hostflags_calls == __CPROVER_old(xv_x509_set_hostflags_calls) + 1))
/* PO[C09] enable_hostname_validation.every_name: on success OpenSSL's list of expected names was emptied and then received EVERY name of the socket's list, in order, and nothing else: same length, and (for the arbitrary position xv_hk) the same name */
__CPROVER_ensures(__CPROVER_return_value == 0 ==> (xv_x509_nhosts == (long)xv_slist_n && xv_x509_nhosts >= 1 && \
                                                    xv_x509_host_resets == __CPROVER_old(xv_x509_host_resets) + 1 && \
                                                    xv_x509_add_calls == __CPROVER_old(xv_x509_add_calls) + (long)xv_slist_n && \
                                                    ((xv_hk >= 0 && xv_hk < (long)xv_slist_n) ==> xv_x509_host_k == xv_slist_name_k)))
__CPROVER_ensures(XV_GROW(xv_get0_param_calls, 1) && XV_GROW(xv_x509_set_hostflags_calls, 1) && XV_GROW(xv_x509_host_resets, 1) && \
                  (BT(s)->valid_peer_names == NULL ? (xv_x509_add_calls == __CPROVER_old(xv_x509_add_calls) && xv_x509_nhosts == __CPROVER_old(xv_x509_nhosts)) \
                                                   : (XV_GROW(xv_x509_add_calls, (long)xv_slist_n) && xv_x509_nhosts >= 0 && xv_x509_nhosts <= (long)xv_slist_n + __CPROVER_old(xv_x509_nhosts))))
/* PO[C09] enable_hostname_validation.no_partial_success: a name OpenSSL refuses makes the whole call fail */
__CPROVER_ensures((BT(s)->tls_auth && BT(s)->valid_peer_names != NULL && __CPROVER_return_value == -1) ==> xv_x509_nhosts < (long)xv_slist_n)
;

/* ================================================================================================================ */
/* C02/C06/C09: application data over SSL_write / SSL_read                                                           */
/* ================================================================================================================ */
/* The byte-stream interface of contracts/lower.h (what the framing transport tls ASSUMES of xcm_tp_socket_send/receive
 * on its btls sub-socket) is ENFORCED here on btls_send/btls_receive, with the two ghost flags of that interface read
 * through the abstraction function of the btls socket -- nothing in the real code could assign a ghost variable:
 *      "the lower connection is dead"  (xv_lower_dead)  :=  conn.state in {closed, bad}
 *      "end of stream was reported"    (xv_rx_eof)      :=  conn.state == closed
 * BT_LOWER_SEND_ENSURES/BT_LOWER_RECV_ENSURES are LOWER_SEND_ENSURES/LOWER_RECV_ENSURES of contracts/lower.h with exactly
 * that substitution (old values: __CPROVER_old of conn.state). */
#define BT_OLD_STATE(s) __CPROVER_old(BT_STATE(s))
#define BT_WAS_DEAD(s) (BT_OLD_STATE(s) == conn_state_closed || BT_OLD_STATE(s) == conn_state_bad)
#define BT_GHOST_RANGE (xv_tx_off >= 0 && xv_tx_off < XV_OFF_MAX && xv_rx_off >= 0 && xv_rx_off < XV_OFF_MAX && xv_k >= 0 && xv_k < 2 * XV_OFF_MAX)
#define BT_C1(s, c) (BCN(s, c) >= 0 && BCN(s, c) < (1L << 61))
#define BT_CNT_RANGE(s) (BT_C1(s, to_app_bytes) && BT_C1(s, from_app_bytes) && BT_C1(s, to_lower_bytes) && BT_C1(s, from_lower_bytes) && \
                         BT_C1(s, to_app_msgs) && BT_C1(s, from_app_msgs) && BT_C1(s, to_lower_msgs) && BT_C1(s, from_lower_msgs))
#define BT_SAME(s, c) (BCN(s, c) == __CPROVER_old(BCN(s, c)))
#define BT_CONN(s) (BT_FRESH(s) && BT_PROTO_FRESH(s))
#define BT_SSL_UNTOUCHED (xv_hs_calls == __CPROVER_old(xv_hs_calls) && xv_sw_calls == __CPROVER_old(xv_sw_calls) && xv_sr_calls == __CPROVER_old(xv_sr_calls))
/* the state in which application data was handed to OpenSSL: ready at entry, or made ready by this call's handshake step */
#define BT_WAS_READY_FOR_DATA(s) (BT_OLD_STATE(s) == conn_state_ready || (BT_OLD_STATE(s) == conn_state_tls_handshaking && BT_HS_ENTERED && xv_hs_ret >= 1))

#define BT_LOWER_SEND_ENSURES(s, rv, buf, len) ( \
    ((rv) == -1 && xv_errno > 0 && xv_tx_off == __CPROVER_old(xv_tx_off) && \
        xv_tx_k == __CPROVER_old(xv_tx_k) && xv_tx_k_set == __CPROVER_old(xv_tx_k_set) && \
        (xv_errno != EAGAIN ==> BT_DEAD_STATE(s)) && (BT_WAS_DEAD(s) ==> xv_errno != EAGAIN)) || \
    ((rv) >= 1 && (size_t)(rv) <= (len) && !BT_WAS_DEAD(s) && \
        xv_tx_off == __CPROVER_old(xv_tx_off) + (rv) && \
        (XV_IN_TX(__CPROVER_old(xv_tx_off), (rv)) \
            ? (xv_tx_k_set && xv_tx_k == XV_U8(buf)[xv_k - __CPROVER_old(xv_tx_off)]) \
            : (xv_tx_k == __CPROVER_old(xv_tx_k) && xv_tx_k_set == __CPROVER_old(xv_tx_k_set)))))
#define BT_LOWER_RECV_ENSURES(s, rv, buf, capacity) ( \
    ((rv) == -1 && xv_errno > 0 && xv_rx_off == __CPROVER_old(xv_rx_off) && ((BT_STATE(s) == conn_state_closed) == (BT_OLD_STATE(s) == conn_state_closed)) && \
        (xv_errno != EAGAIN ==> BT_DEAD_STATE(s)) && (BT_WAS_DEAD(s) ==> xv_errno != EAGAIN)) || \
    ((rv) == 0 && ((capacity) == 0 ? (BT_STATE(s) == BT_OLD_STATE(s) || BT_HS_ENTERED) : BT_STATE(s) == conn_state_closed) && xv_rx_off == __CPROVER_old(xv_rx_off)) || \
    ((rv) >= 1 && (size_t)(rv) <= (capacity) && BT_OLD_STATE(s) != conn_state_closed && BT_STATE(s) != conn_state_closed && \
        xv_rx_off == __CPROVER_old(xv_rx_off) + (rv) && XV_RX_BYTES(buf, __CPROVER_old(xv_rx_off), (rv))))

/* which lengths/capacities are explored: default = the range the framing layer uses (LOWER_SEND_REQUIRES/LOWER_RECV_REQUIRES);
 * xcm_send()/xcm_receive() pass ANY size_t through for a byte-stream socket: variants zero and huge */
#if defined(BT_ZERO)
/* variant zero (receive only): the corner xcm_receive(s, buf, 0) on a byte-stream socket */
#define BT_LEN_OK(len) ((len) == 0)
#define BT_CAP_OK(c) ((c) == 0)
#elif defined(BT_HUGE)
/* variant huge: lengths/capacities that do not fit the `int num` of SSL_write/SSL_read: 2^31 .. 2^33 for send; for receive
 * those whose low 32 bits, as an int, are negative or small (SSL_read's model stores up to `num` arbitrary bytes) */
#define BT_LEN_OK(len) ((len) > 0x7fffffffUL && (len) <= (1UL << 33))
#define BT_CAP_OK(c) (((c) >= (1UL << 31) && (c) < (1UL << 32)) || ((c) >= (1UL << 32) && (c) <= (1UL << 32) + BT_CAP_MAX))
#else
/* variant lower (default): the range the framing layer uses (LOWER_SEND_REQUIRES / LOWER_RECV_REQUIRES of contracts/lower.h),
 * for send with the corner len == 0 added.  Receive buffers above BT_CAP_MAX are not explored: SSL_read's model stores up
 * to `capacity` arbitrary bytes, which beyond that exhausts the solver's memory (2^17 = 2 * the largest frame the tls
 * framing layer ever asks for) */
#define BT_LEN_OK(len) ((len) <= 0x7ffff000UL)
#define BT_CAP_OK(c) ((c) >= 1 && (c) <= BT_CAP_MAX)
#endif
#define BT_CAP_MAX (1UL << 17)
#define BT_BUFSZ(len) ((len) == 0 ? 1 : (len))

static int btls_send(struct xcm_socket *__restrict s, const void *__restrict buf, size_t len)
__CPROVER_requires(BT_CONN(s) && BT_LEN_OK(len))
__CPROVER_requires(BT_PROTO(s) && BT_CONN_INV(s) && BT_CNT_RANGE(s) && XV_SSL_GHOST_RANGE && BT_GHOST_RANGE)
__CPROVER_requires(__CPROVER_is_fresh(buf, BT_BUFSZ(len)))
/* the frame: errno, the plaintext stream, the OpenSSL record, the connection state machine, the two send-side byte counters;
 * NOT the message buffer, the receive-side stream and counters, the policy fields */
__CPROVER_assigns(xv_errno, xv_tx_off, xv_tx_k, xv_tx_k_set, XV_SSL_HS_ASSIGNS, XV_SSL_VERDICT_ASSIGNS, XV_SSL_WRITE_ASSIGNS)
__CPROVER_assigns(BT_STATE(s), BT(s)->conn.badness_reason, BT(s)->conn.ssl_condition, BT(s)->conn.ssl_wants, BCN(s, from_app_bytes), BCN(s, to_lower_bytes))
/* PO[C02] btls_send.rv: -1, or the number of leading bytes accepted: 1..len for len > 0 */
__CPROVER_ensures(__CPROVER_return_value == -1 || (__CPROVER_return_value >= 0 && (size_t)__CPROVER_return_value <= len && (len > 0 ==> __CPROVER_return_value >= 1)))
/* PO[C09,C02] btls_send.data_only_when_ready: SSL_write is entered at most once, ONLY in state ready (verdict satisfied the policy), on the socket's own SSL, with exactly (buf, len) */
__CPROVER_ensures(xv_sw_calls != __CPROVER_old(xv_sw_calls) ==> (xv_sw_calls == __CPROVER_old(xv_sw_calls) + 1 && BT_WAS_READY_FOR_DATA(s) && xv_ssl_hs_done && BT_VERDICT_OK(s) && \
                                                                 xv_sw_ssl == BT(s)->conn.ssl && xv_sw_buf == buf && xv_sw_num >= 0 && (size_t)xv_sw_num == (len > 2147483647UL ? 2147483647UL : len)))
/* PO[C06] btls_send.bad_sticks: a bad socket reports its stored errno, stays bad, and OpenSSL is not entered */
__CPROVER_ensures(BT_OLD_STATE(s) == conn_state_bad ==> (__CPROVER_return_value == -1 && xv_errno == __CPROVER_old(BT(s)->conn.badness_reason) && BT_STATE(s) == conn_state_bad && \
                                                         BT(s)->conn.badness_reason == __CPROVER_old(BT(s)->conn.badness_reason) && BT_SSL_UNTOUCHED))
/* PO[C06] btls_send.closed_is_epipe: once the close has been seen send fails with EPIPE, stays closed, OpenSSL is not entered */
__CPROVER_ensures(BT_OLD_STATE(s) == conn_state_closed ==> (__CPROVER_return_value == -1 && xv_errno == EPIPE && BT_STATE(s) == conn_state_closed && BT_SSL_UNTOUCHED))
/* PO[C06] btls_send.discovering_call_reports: the call whose handshake step discovers the failure (protocol error, policy not met, reset, close) reports it: bad => the stored errno, closed => EPIPE -- not EAGAIN */
__CPROVER_ensures((BT_HS_ENTERED && BT_DEAD_STATE(s)) ==> (__CPROVER_return_value == -1 && xv_errno == (BT_STATE(s) == conn_state_bad ? BT(s)->conn.badness_reason : EPIPE)))
/* PO[C09] btls_send.not_ready_is_eagain: while the handshake is unfinished (or the socket never connected) nothing is accepted: EAGAIN, no SSL_write */
__CPROVER_ensures((BT_STATE(s) != conn_state_ready && !BT_DEAD_STATE(s)) ==> (__CPROVER_return_value == -1 && xv_errno == EAGAIN && xv_sw_calls == __CPROVER_old(xv_sw_calls)))
/* PO[C02,C06] btls_send.stream: the lower-layer send contract: rv >= 1: exactly buf[0..rv) was appended to the plaintext stream; -1: nothing was, errno > 0, anything but EAGAIN means the connection is terminal */
__CPROVER_ensures(len >= 1 ==> BT_LOWER_SEND_ENSURES(s, __CPROVER_return_value, buf, len))
/* PO[C02,C03] btls_send.refused_send_leaves_nothing_pending: -1 means that NOTHING of buf will reach the stream: no record built from it stays behind in OpenSSL (decided for a call entered with nothing pending) */
__CPROVER_ensures((__CPROVER_old(xv_ssl_pending_rec) == 0 && __CPROVER_return_value == -1) ==> xv_ssl_pending_rec == 0)
/* PO[C02] btls_send.zero_length: nothing to send on a ready socket: 0, OpenSSL is not asked to write */
__CPROVER_ensures((len == 0 && __CPROVER_return_value != -1) ==> (__CPROVER_return_value == 0 && BT_STATE(s) == conn_state_ready && xv_sw_calls == __CPROVER_old(xv_sw_calls) && xv_tx_off == __CPROVER_old(xv_tx_off)))
/* PO[C02] btls_send.rv_is_openssl_count: the count reported is the count OpenSSL accepted */
__CPROVER_ensures(__CPROVER_return_value >= 1 ==> (xv_sw_calls == __CPROVER_old(xv_sw_calls) + 1 && __CPROVER_return_value == xv_sw_ret))
/* PO[C06] btls_send.failure_mapping: a refused SSL_write: WANT_READ/WANT_WRITE => EAGAIN (state unchanged, what to wait for recorded); 0 / close_notify / EOF / EPIPE => closed, EPIPE; protocol error => bad, EPROTO; transport errno e => bad, e */
__CPROVER_ensures((xv_sw_calls != __CPROVER_old(xv_sw_calls) && xv_sw_ret <= 0) ==> (__CPROVER_return_value == -1 && \
        (xv_sw_ret == 0 ? (BT_STATE(s) == conn_state_closed && xv_errno == EPIPE) : BT_EV_MAP_AFTER(s, XCM_SO_SENDABLE, xv_ssl_errno)) && \
        (BT_STATE(s) == conn_state_ready ==> xv_errno == EAGAIN) && (BT_STATE(s) == conn_state_closed ==> xv_errno == EPIPE) && \
        (BT_STATE(s) == conn_state_bad ==> xv_errno == BT(s)->conn.badness_reason)))
/* PO[C06] btls_send.closed_only_if_close_seen: a connection is declared closed only when the peer's close was seen (close_notify, EOF/EPIPE from the transport, or SSL_write's legacy 0 result for a non-empty write) */
__CPROVER_ensures((BT_STATE(s) == conn_state_closed && BT_OLD_STATE(s) != conn_state_closed) ==> (xv_ssl_close_seen || (xv_sw_calls != __CPROVER_old(xv_sw_calls) && xv_sw_ret == 0 && xv_sw_num > 0)))
/* PO[C02] btls_send.counters: bytes are counted (accepted from the application, handed to the lower layer) exactly when and as accepted */
__CPROVER_ensures(__CPROVER_return_value >= 1 \
        ? (BCN(s, from_app_bytes) == __CPROVER_old(BCN(s, from_app_bytes)) + __CPROVER_return_value && BCN(s, to_lower_bytes) == __CPROVER_old(BCN(s, to_lower_bytes)) + __CPROVER_return_value) \
        : (BT_SAME(s, from_app_bytes) && BT_SAME(s, to_lower_bytes)))
__CPROVER_ensures(BT_CONN_INV(s))
;

static int btls_receive(struct xcm_socket *__restrict s, void *__restrict buf, size_t capacity)
__CPROVER_requires(BT_CONN(s) && BT_CAP_OK(capacity))
__CPROVER_requires(BT_PROTO(s) && BT_CONN_INV(s) && BT_CNT_RANGE(s) && XV_SSL_GHOST_RANGE && BT_GHOST_RANGE)
__CPROVER_requires(__CPROVER_is_fresh(buf, BT_BUFSZ(capacity)))
/* ghost constant: the byte the caller's buffer holds at the arbitrary offset xv_j */
__CPROVER_requires((xv_j >= 0 && (size_t)xv_j < capacity) ==> BT_U8(buf)[xv_j] == xv_g_rb_j)
__CPROVER_assigns(xv_errno, xv_rx_off, xv_rx_eof, XV_SSL_HS_ASSIGNS, XV_SSL_VERDICT_ASSIGNS, XV_SSL_READ_ASSIGNS)
__CPROVER_assigns(BT_STATE(s), BT(s)->conn.badness_reason, BT(s)->conn.ssl_condition, BT(s)->conn.ssl_wants)
__CPROVER_assigns(BCN(s, to_app_bytes), BCN(s, from_lower_bytes), BCN(s, to_app_msgs), BCN(s, from_lower_msgs))
__CPROVER_assigns(capacity > 0: __CPROVER_object_upto(buf, capacity))
/* PO[C02] btls_receive.never_more_than_capacity */
__CPROVER_ensures(__CPROVER_return_value >= -1 && (__CPROVER_return_value >= 0 ==> (size_t)__CPROVER_return_value <= capacity))
/* PO[C09,C02] btls_receive.data_only_when_ready: SSL_read is entered at most once, ONLY in state ready (verdict satisfied the policy), on the socket's own SSL, with exactly (buf, capacity) */
__CPROVER_ensures(xv_sr_calls != __CPROVER_old(xv_sr_calls) ==> (xv_sr_calls == __CPROVER_old(xv_sr_calls) + 1 && BT_WAS_READY_FOR_DATA(s) && xv_ssl_hs_done && BT_VERDICT_OK(s) && \
                                                                 xv_sr_ssl == BT(s)->conn.ssl && xv_sr_buf == buf && xv_sr_num >= 1 && (size_t)xv_sr_num == (capacity > 2147483647UL ? 2147483647UL : capacity)))
/* PO[C09] btls_receive.no_data_unless_read: unless SSL_read was entered the caller's buffer is untouched */
__CPROVER_ensures((xv_sr_calls == __CPROVER_old(xv_sr_calls) && xv_j >= 0 && (size_t)xv_j < capacity) ==> BT_U8(buf)[xv_j] == xv_g_rb_j)
/* PO[C06] btls_receive.bad_sticks */
__CPROVER_ensures(BT_OLD_STATE(s) == conn_state_bad ==> (__CPROVER_return_value == -1 && xv_errno == __CPROVER_old(BT(s)->conn.badness_reason) && BT_STATE(s) == conn_state_bad && \
                                                         BT(s)->conn.badness_reason == __CPROVER_old(BT(s)->conn.badness_reason) && BT_SSL_UNTOUCHED))
/* PO[C06] btls_receive.closed_keeps_returning_zero */
__CPROVER_ensures(BT_OLD_STATE(s) == conn_state_closed ==> (__CPROVER_return_value == 0 && BT_STATE(s) == conn_state_closed && BT_SSL_UNTOUCHED))
/* PO[C06] btls_receive.discovering_call_reports: the call whose handshake step discovers the failure reports it: bad => the stored errno, closed => 0 */
__CPROVER_ensures((BT_HS_ENTERED && BT_DEAD_STATE(s)) ==> (BT_STATE(s) == conn_state_bad ? (__CPROVER_return_value == -1 && xv_errno == BT(s)->conn.badness_reason) : __CPROVER_return_value == 0))
/* PO[C09] btls_receive.not_ready_is_eagain */
__CPROVER_ensures((BT_STATE(s) != conn_state_ready && !BT_DEAD_STATE(s)) ==> (__CPROVER_return_value == -1 && xv_errno == EAGAIN && xv_sr_calls == __CPROVER_old(xv_sr_calls)))
/* PO[C02,C06] btls_receive.stream: the lower-layer receive contract: rv >= 1: buf[0..rv) are the next rv bytes of the plaintext stream; 0: the socket is closed; -1: nothing consumed, errno > 0, anything but EAGAIN means terminal */
__CPROVER_ensures(BT_LOWER_RECV_ENSURES(s, __CPROVER_return_value, buf, capacity))
/* PO[C06] btls_receive.eof_honest: 0 is reported only when the peer's close has been seen (close_notify, or EOF/EPIPE from the transport) -- in this call or earlier -- or when the caller offered no room at all (capacity 0: the API cannot express "the leading 0 bytes" differently, cf. ux_receive) */
__CPROVER_ensures(__CPROVER_return_value == 0 ==> (BT_OLD_STATE(s) == conn_state_closed || xv_ssl_close_seen || capacity == 0))
/* PO[C06] btls_receive.closed_only_if_close_seen: a connection is declared closed (receive 0 for ever, send EPIPE) only when the peer's close was seen */
__CPROVER_ensures((BT_STATE(s) == conn_state_closed && BT_OLD_STATE(s) != conn_state_closed) ==> xv_ssl_close_seen)
/* PO[C02] btls_receive.rv_is_openssl_count */
__CPROVER_ensures(__CPROVER_return_value >= 1 ==> (xv_sr_calls == __CPROVER_old(xv_sr_calls) + 1 && __CPROVER_return_value == xv_sr_ret))
/* PO[C06] btls_receive.failure_mapping: a refused SSL_read: WANT_* => EAGAIN; close_notify / EOF / EPIPE => closed, 0; protocol error => bad, EPROTO; transport errno e => bad, e */
__CPROVER_ensures((xv_sr_calls != __CPROVER_old(xv_sr_calls) && xv_sr_ret <= 0) ==> (BT_EV_MAP_AFTER(s, XCM_SO_RECEIVABLE, xv_ssl_errno) && \
        (BT_STATE(s) == conn_state_ready ==> (__CPROVER_return_value == -1 && xv_errno == EAGAIN)) && (BT_STATE(s) == conn_state_closed ==> __CPROVER_return_value == 0) && \
        (BT_STATE(s) == conn_state_bad ==> (__CPROVER_return_value == -1 && xv_errno == BT(s)->conn.badness_reason))))
/* PO[C02] btls_receive.counters: bytes are counted (taken from the lower layer, delivered to the application) exactly when and as delivered */
__CPROVER_ensures(__CPROVER_return_value >= 1 \
        ? (BCN(s, to_app_bytes) == __CPROVER_old(BCN(s, to_app_bytes)) + __CPROVER_return_value && BCN(s, from_lower_bytes) == __CPROVER_old(BCN(s, from_lower_bytes)) + __CPROVER_return_value) \
        : (BT_SAME(s, to_app_bytes) && BT_SAME(s, from_lower_bytes) && BT_SAME(s, to_app_msgs) && BT_SAME(s, from_lower_msgs)))
__CPROVER_ensures(BT_CONN_INV(s))
;

/* ================================================================================================================ */
/* C09/C18: policy consistency and credential designation at creation                                                */
/* ================================================================================================================ */
#define BT_IT_SET(it) ((it).type != item_type_none)
#define BT_IT_OK(it) ((unsigned)(it).type <= (unsigned)item_type_value)
#define BT_ITEMS_OK(s) (BT_IT_OK(BT(s)->cert) && BT_IT_OK(BT(s)->key) && BT_IT_OK(BT(s)->tc) && BT_IT_OK(BT(s)->crl))
/* ghost selector (never assigned): which of the four credential items is the watched one (xv_it_watch) */
int xv_sel;
#define BT_SEL_ITEM(s) (xv_sel == 0 ? &BT(s)->cert : xv_sel == 1 ? &BT(s)->key : xv_sel == 2 ? &BT(s)->tc : &BT(s)->crl)
#define BT_SEL_OK(s) (xv_sel >= 0 && xv_sel <= 3 && xv_it_watch == BT_SEL_ITEM(s))
/* fields of the watched item, read through the socket (a ghost pointer that is merely ASSUMED equal to an address inside a
 * fresh object is not dereferenceable for CBMC) */
#define BT_W(s, f) (xv_sel == 0 ? BT(s)->cert.f : xv_sel == 1 ? BT(s)->key.f : xv_sel == 2 ? BT(s)->tc.f : BT(s)->crl.f)
#define BT_W_OLD(s, f) (xv_sel == 0 ? __CPROVER_old(BT(s)->cert.f) : xv_sel == 1 ? __CPROVER_old(BT(s)->key.f) : xv_sel == 2 ? __CPROVER_old(BT(s)->tc.f) : __CPROVER_old(BT(s)->crl.f))
#define XV_C(f, lit, i) ((i) >= sizeof(lit) || (f)[i] == (lit)[i])
#define XV_STR_EQ(f, lit) (XV_C(f, lit, 0) && XV_C(f, lit, 1) && XV_C(f, lit, 2) && XV_C(f, lit, 3) && XV_C(f, lit, 4) && XV_C(f, lit, 5) && XV_C(f, lit, 6) && XV_C(f, lit, 7) && \
                           XV_C(f, lit, 8) && XV_C(f, lit, 9) && XV_C(f, lit, 10) && XV_C(f, lit, 11) && XV_C(f, lit, 12) && XV_C(f, lit, 13) && XV_C(f, lit, 14) && XV_C(f, lit, 15))
#define BT_TMPL_DEFAULT(f) (xv_sel == 0 ? XV_STR_EQ(f, "%s/cert.pem") : xv_sel == 1 ? XV_STR_EQ(f, "%s/key.pem") : xv_sel == 2 ? XV_STR_EQ(f, "%s/tc.pem") : XV_STR_EQ(f, "%s/crl.pem"))
#define BT_TMPL_NS(f) (xv_sel == 0 ? XV_STR_EQ(f, "%s/cert_%s.pem") : xv_sel == 1 ? XV_STR_EQ(f, "%s/key_%s.pem") : xv_sel == 2 ? XV_STR_EQ(f, "%s/tc_%s.pem") : XV_STR_EQ(f, "%s/crl_%s.pem"))
/* the four documented inconsistencies (xcm.h, "TLS Socket Attributes"), on the entry state */
#define BT_INC_TC(s) (!BT(s)->tls_auth && __CPROVER_old(BT(s)->tc.type) != item_type_none && BT(s)->tc_set)
#define BT_INC_CRL_CHECK(s) (!BT(s)->tls_auth && BT(s)->check_crl)
#define BT_INC_CRL(s) (!BT(s)->check_crl && __CPROVER_old(BT(s)->crl.type) != item_type_none && BT(s)->crl_set)
#define BT_INC_NAMES(s) (!BT(s)->verify_peer_name && __CPROVER_old(BT(s)->valid_peer_names) != NULL && BT(s)->valid_peer_names_set)
#define BT_INCONSISTENT(s) (BT_INC_TC(s) || BT_INC_CRL_CHECK(s) || BT_INC_CRL(s) || BT_INC_NAMES(s))
/* the watched item is needed by the policy / is an inherited leftover the policy has no use for */
#define BT_SEL_NEEDED(s) (xv_sel <= 1 || (xv_sel == 2 && BT(s)->tls_auth) || (xv_sel == 3 && BT(s)->check_crl))
#define BT_SEL_DROPPED(s) ((xv_sel == 2 && !BT(s)->tls_auth) || (xv_sel == 3 && !BT(s)->check_crl))
#define BT_ALL_DESIGNATED_OLD(s) (__CPROVER_old(BT(s)->cert.type) != item_type_none && __CPROVER_old(BT(s)->key.type) != item_type_none && \
                                  (!BT(s)->tls_auth || __CPROVER_old(BT(s)->tc.type) != item_type_none) && (!BT(s)->check_crl || __CPROVER_old(BT(s)->crl.type) != item_type_none))
#define BT_NO_LOOKUPS (xv_getenv_calls == __CPROVER_old(xv_getenv_calls) && xv_ns_calls == __CPROVER_old(xv_ns_calls) && xv_asp_calls == __CPROVER_old(xv_asp_calls))
#define BT_CONF_GHOST_LIM(lim) (XV_CNT_LIM(xv_it_w_deinits, lim) && XV_CNT_LIM(xv_it_w_sets, lim) && XV_CNT_LIM(xv_it_w_copies, lim) && XV_CNT_LIM(xv_asp_calls, lim) && \
                             XV_CNT_LIM(xv_ns_calls, lim) && XV_CNT_LIM(xv_getenv_calls, lim) && XV_CNT_LIM(xv_slist_destroy_calls, lim))
#define BT_CONF_GHOST_RANGE BT_CONF_GHOST_LIM(XV_SSL_CALLS_MAX)
#define BT_CONF_GHOST_RANGE_IN BT_CONF_GHOST_LIM(4 * XV_SSL_CALLS_MAX)

static int finalize_tls_conf(struct xcm_socket *s)
__CPROVER_requires(BT_FRESH(s) && BT_ITEMS_OK(s) && BT_BOOLS_OK(s) && BT_SEL_OK(s) && BT_CONF_GHOST_RANGE_IN)
__CPROVER_assigns(xv_errno, XV_ITEM_ASSIGNS, XV_ASP_ASSIGNS, XV_NS_ASSIGNS, xv_getenv_calls, xv_slist_destroy_calls, xv_slist_destroyed)
__CPROVER_assigns(BT(s)->cert, BT(s)->key, BT(s)->tc, BT(s)->crl, BT(s)->valid_peer_names)
__CPROVER_ensures(__CPROVER_return_value == 0 || __CPROVER_return_value == -1)
/* PO[C09] finalize_tls_conf.inconsistent_is_einval: trusted CAs set with authentication off, CRL checking with authentication off, a CRL set with CRL checking off, peer names set with name verification off: each is refused with EINVAL */
__CPROVER_ensures(BT_INCONSISTENT(s) ==> (__CPROVER_return_value == -1 && xv_errno == EINVAL))
/* PO[C09] finalize_tls_conf.no_spurious_refusal: nothing else is refused, and nothing was looked up for a refused configuration */
__CPROVER_ensures(__CPROVER_return_value == -1 ==> (BT_INCONSISTENT(s) && xv_errno == EINVAL && BT_NO_LOOKUPS))
/* PO[C09] finalize_tls_conf.consistent_on_success: afterwards trusted CAs are designated IFF authentication is on, a CRL IFF CRL checking is on, certificate and key always, and expected names only with name verification on */
__CPROVER_ensures(__CPROVER_return_value == 0 ==> (BT_IT_SET(BT(s)->cert) && BT_IT_SET(BT(s)->key) && (BT(s)->tls_auth != 0) == BT_IT_SET(BT(s)->tc) && \
                                                    (BT(s)->check_crl != 0) == BT_IT_SET(BT(s)->crl) && (!BT(s)->verify_peer_name ==> BT(s)->valid_peer_names == NULL) && \
                                                    (BT(s)->verify_peer_name ==> BT(s)->valid_peer_names == __CPROVER_old(BT(s)->valid_peer_names))))
/* PO[C09] finalize_tls_conf.inherited_names_dropped: names inherited from the server socket but not wanted are destroyed, once */
__CPROVER_ensures((__CPROVER_return_value == 0 && !BT(s)->verify_peer_name && __CPROVER_old(BT(s)->valid_peer_names) != NULL) \
                  ? (xv_slist_destroy_calls == __CPROVER_old(xv_slist_destroy_calls) + 1 && xv_slist_destroyed == __CPROVER_old(BT(s)->valid_peer_names)) \
                  : xv_slist_destroy_calls == __CPROVER_old(xv_slist_destroy_calls))
/* PO[C18] finalize_tls_conf.designated_kept: an item designated on the socket (by file or by value) and wanted by the policy is used as it is */
__CPROVER_ensures((__CPROVER_return_value == 0 && BT_W_OLD(s, type) != item_type_none && !BT_SEL_DROPPED(s)) ==> \
                  (BT_W(s, type) == BT_W_OLD(s, type) && BT_W(s, data) == BT_W_OLD(s, data) && \
                   xv_it_w_sets == __CPROVER_old(xv_it_w_sets) && xv_it_w_deinits == __CPROVER_old(xv_it_w_deinits)))
/* PO[C18] finalize_tls_conf.leftover_dropped: trusted CAs / a CRL the policy has no use for (inherited, not set on this socket) are dropped, never used */
__CPROVER_ensures((__CPROVER_return_value == 0 && BT_SEL_DROPPED(s)) ==> (BT_W(s, type) == item_type_none && xv_it_w_sets == __CPROVER_old(xv_it_w_sets)))
/* PO[C18] finalize_tls_conf.default_as_it_stands: an item that is wanted but not designated becomes the FILE named by formatting the item's template with the certificate directory -- XCM_TLS_CERT as read in THIS call, else the built-in default -- and, when the calling thread's network namespace (looked up in THIS call) has a name, that name with the per-namespace template */
__CPROVER_ensures((__CPROVER_return_value == 0 && BT_W_OLD(s, type) == item_type_none && BT_SEL_NEEDED(s)) ==> ( \
        BT_W(s, type) == item_type_file && !BT_W(s, sensitive) && xv_it_w_sets == __CPROVER_old(xv_it_w_sets) + 1 && \
        xv_getenv_calls == __CPROVER_old(xv_getenv_calls) + 1 && xv_ns_calls == __CPROVER_old(xv_ns_calls) + 1 && \
        (xv_env_set ? xv_it_w_a == xv_env_val : xv_it_w_a_default) && \
        ((xv_ns_rc < 0 || xv_ns_empty) ? (xv_it_w_nargs == 1 && BT_TMPL_DEFAULT(xv_it_w_fmt)) \
                                        : (xv_it_w_nargs == 2 && xv_it_w_b == xv_ns_buf && BT_TMPL_NS(xv_it_w_fmt)))))
__CPROVER_ensures(XV_GROW(xv_it_w_deinits, 1) && XV_GROW(xv_it_w_sets, 1) && xv_it_w_copies == __CPROVER_old(xv_it_w_copies) && XV_GROW(xv_asp_calls, 4) && XV_GROW(xv_ns_calls, 1) && \
                  XV_GROW(xv_getenv_calls, 1) && XV_GROW(xv_slist_destroy_calls, 1) && BT_ITEMS_OK(s))
/* PO[C18] finalize_tls_conf.no_lookup_when_designated: with everything designated on the socket neither the environment nor the namespace is consulted */
__CPROVER_ensures(BT_ALL_DESIGNATED_OLD(s) ==> BT_NO_LOOKUPS)
;

/* ---- inherit_tls_conf: an accepted connection starts from the server socket's policy and credentials */
#define BT_W2(s, f) (xv_sel == 0 ? &BT(s)->cert : xv_sel == 1 ? &BT(s)->key : xv_sel == 2 ? &BT(s)->tc : &BT(s)->crl)
static void inherit_tls_conf(struct xcm_socket *s, struct xcm_socket *parent_s)
__CPROVER_requires(BT_FRESH(s) && BT_FRESH(parent_s) && BT_ITEMS_OK(s) && BT_ITEMS_OK(parent_s) && BT_SEL_OK(s) && BT_CONF_GHOST_RANGE && XV_SSL_CNT_OK(xv_slist_clone_calls))
__CPROVER_assigns(XV_ITEM_ASSIGNS, xv_slist_clone_calls, xv_slist_clone_src, xv_slist_clone_ret)
__CPROVER_assigns(BT(s)->cert, BT(s)->key, BT(s)->tc, BT(s)->crl, BT(s)->valid_peer_names)
__CPROVER_assigns(BT(s)->tls_auth, BT(s)->check_crl, BT(s)->tls_client, BT(s)->check_time, BT(s)->verify_peer_name)
/* PO[C09] inherit_tls_conf.policy: the five policy fields of the accepted socket equal the server socket's */
__CPROVER_ensures(BT(s)->tls_auth == BT(parent_s)->tls_auth && BT(s)->check_crl == BT(parent_s)->check_crl && BT(s)->tls_client == BT(parent_s)->tls_client && \
                  BT(s)->check_time == BT(parent_s)->check_time && BT(s)->verify_peer_name == BT(parent_s)->verify_peer_name)
/* PO[C09,C18] inherit_tls_conf.credentials: each of the four credential items is a copy of the server socket's item of the same kind (designated the same way, or not at all) */
__CPROVER_ensures(BT_W(s, type) == BT_W(parent_s, type) && xv_it_w_copies == __CPROVER_old(xv_it_w_copies) + 1 && xv_it_w_src == BT_SEL_ITEM(parent_s) && \
                  xv_it_w_sets == __CPROVER_old(xv_it_w_sets))
/* PO[C09] inherit_tls_conf.names: the expected peer names are a clone of the server socket's list; none if it has none */
__CPROVER_ensures(BT(parent_s)->valid_peer_names != NULL \
        ? (xv_slist_clone_calls == __CPROVER_old(xv_slist_clone_calls) + 1 && xv_slist_clone_src == BT(parent_s)->valid_peer_names && \
           BT(s)->valid_peer_names == xv_slist_clone_ret && BT(s)->valid_peer_names != NULL) \
        : (xv_slist_clone_calls == __CPROVER_old(xv_slist_clone_calls) && BT(s)->valid_peer_names == __CPROVER_old(BT(s)->valid_peer_names)))
/* PO[C09] inherit_tls_conf.marks_not_inherited: "set on this socket" marks are the accepted socket's own; the server socket is not modified */
__CPROVER_ensures(BT(s)->valid_peer_names_set == __CPROVER_old(BT(s)->valid_peer_names_set) && BT(s)->tc_set == __CPROVER_old(BT(s)->tc_set) && \
                  BT(s)->crl_set == __CPROVER_old(BT(s)->crl_set))
;

/* ================================================================================================================ */
/* C02: the BIO between OpenSSL and the btcp sub-socket                                                              */
/* ================================================================================================================ */
/* ---- the btcp sub-socket, ASSUMED (contracts/lower.h; enforced in unit btcp), plus a record of the socket addressed */
struct xcm_socket *xv_low_s; long xv_low_send_calls, xv_low_recv_calls, xv_low_finish_calls;
int xcm_tp_socket_send(struct xcm_socket *__restrict s, const void *__restrict buf, size_t len)
__CPROVER_requires(LOWER_SEND_REQUIRES(buf, len))
__CPROVER_assigns(LOWER_SEND_ASSIGNS, xv_low_s, xv_low_send_calls)
__CPROVER_ensures(LOWER_SEND_ENSURES(__CPROVER_return_value, buf, len))
__CPROVER_ensures(LOWER_DEAD_MONOTONE && xv_low_s == s && xv_low_send_calls == __CPROVER_old(xv_low_send_calls) + 1)
;
int xcm_tp_socket_receive(struct xcm_socket *__restrict s, void *__restrict buf, size_t capacity)
__CPROVER_requires(LOWER_RECV_REQUIRES(buf, capacity))
__CPROVER_assigns(LOWER_RECV_ASSIGNS(buf, capacity), xv_low_s, xv_low_recv_calls)
__CPROVER_ensures(LOWER_RECV_ENSURES(__CPROVER_return_value, buf, capacity))
__CPROVER_ensures(LOWER_DEAD_MONOTONE && xv_low_s == s && xv_low_recv_calls == __CPROVER_old(xv_low_recv_calls) + 1)
;
int xcm_tp_socket_finish(struct xcm_socket *s)
__CPROVER_requires(1)
__CPROVER_assigns(xv_errno, xv_lower_dead, xv_low_s, xv_low_finish_calls)
__CPROVER_ensures((__CPROVER_return_value == 0 && !xv_lower_dead && !__CPROVER_old(xv_lower_dead) && xv_errno == __CPROVER_old(xv_errno)) || \
                  (__CPROVER_return_value == -1 && xv_errno > 0 && (xv_errno != EAGAIN ==> xv_lower_dead)))
__CPROVER_ensures(LOWER_DEAD_MONOTONE && xv_low_s == s && xv_low_finish_calls == __CPROVER_old(xv_low_finish_calls) + 1)
;
_Bool xv_bio_nullbuf;
static inline void xv_low_havoc(void)
{
    xv_bio_nullbuf = nondet_bool();
    xv_low_s = (struct xcm_socket *)nondet_size_t(); xv_low_send_calls = nondet_long(); xv_low_recv_calls = nondet_long(); xv_low_finish_calls = nondet_long();
}
#define BT_LOW_RANGE (XV_SSL_CNT_OK(xv_low_send_calls) && XV_SSL_CNT_OK(xv_low_recv_calls) && XV_SSL_CNT_OK(xv_low_finish_calls) && BT_GHOST_RANGE)
#define BT_RETRY_MASK (BIO_FLAGS_READ | BIO_FLAGS_WRITE | BIO_FLAGS_IO_SPECIAL | BIO_FLAGS_SHOULD_RETRY)

static int bio_btcp_write(BIO *b, const char *buf, int len)
__CPROVER_requires(len >= 1 && len <= 0x7ffff000 && __CPROVER_is_fresh(buf, (size_t)len) && BT_LOW_RANGE)
__CPROVER_assigns(LOWER_SEND_ASSIGNS, xv_low_s, xv_low_send_calls, xv_bio_flags)
/* PO[C02] bio_btcp_write.passthrough: exactly one send of exactly (buf, len) on the btcp sub-socket stored in the BIO; its result and the bytes it took are what OpenSSL is told */
__CPROVER_ensures(xv_low_send_calls == __CPROVER_old(xv_low_send_calls) + 1 && xv_low_s == (struct xcm_socket *)xv_bio_data && \
                  LOWER_SEND_ENSURES(__CPROVER_return_value, buf, (size_t)len))
/* PO[C02] bio_btcp_write.retry_iff_eagain: EAGAIN from the sub-socket is turned into "retry the write" (so OpenSSL reports WANT_WRITE, not a fatal SYSCALL error); nothing else is */
__CPROVER_ensures(((xv_bio_flags & BT_RETRY_MASK) == (BIO_FLAGS_WRITE | BIO_FLAGS_SHOULD_RETRY)) == (__CPROVER_return_value < 0 && xv_errno == EAGAIN))
__CPROVER_ensures(!(__CPROVER_return_value < 0 && xv_errno == EAGAIN) ==> (xv_bio_flags & BT_RETRY_MASK) == 0)
;
static int bio_btcp_read(BIO *b, char *buf, int capacity)
/* xv_bio_nullbuf (ghost, never assigned): the call is OpenSSL's probe with buf == NULL; otherwise a buffer of 1..BT_CAP_MAX bytes
 * (OpenSSL reads at most one TLS record, 16 KiB + overhead, at a time) */
__CPROVER_requires(capacity >= 1 && (size_t)capacity <= BT_CAP_MAX && (!xv_bio_nullbuf ==> __CPROVER_is_fresh(buf, (size_t)capacity)) && (xv_bio_nullbuf ==> buf == NULL))
__CPROVER_requires(BT_LOW_RANGE)
__CPROVER_assigns(xv_errno, xv_rx_off, xv_rx_eof, xv_lower_dead, xv_low_s, xv_low_recv_calls, xv_bio_flags)
__CPROVER_assigns(buf != NULL: __CPROVER_object_upto(buf, (size_t)capacity))
/* PO[C02] bio_btcp_read.passthrough: exactly one receive into exactly (buf, capacity) on the btcp sub-socket stored in the BIO; its result and bytes are what OpenSSL gets */
__CPROVER_ensures(buf != NULL ==> (xv_low_recv_calls == __CPROVER_old(xv_low_recv_calls) + 1 && xv_low_s == (struct xcm_socket *)xv_bio_data && \
                                   LOWER_RECV_ENSURES(__CPROVER_return_value, buf, (size_t)capacity)))
/* PO[C02] bio_btcp_read.retry_iff_eagain: EAGAIN is turned into "retry the read" (WANT_READ); end of stream is flagged as EOF; nothing else */
__CPROVER_ensures(buf != NULL ==> (((xv_bio_flags & BT_RETRY_MASK) == (BIO_FLAGS_READ | BIO_FLAGS_SHOULD_RETRY)) == (__CPROVER_return_value < 0 && xv_errno == EAGAIN) && \
                                   (!(__CPROVER_return_value < 0 && xv_errno == EAGAIN) ==> (xv_bio_flags & BT_RETRY_MASK) == 0) && \
                                   (__CPROVER_return_value == 0 ==> (xv_bio_flags & BIO_FLAGS_IN_EOF) != 0)))
__CPROVER_ensures(buf == NULL ==> (__CPROVER_return_value == 0 && xv_low_recv_calls == __CPROVER_old(xv_low_recv_calls) && xv_bio_flags == __CPROVER_old(xv_bio_flags)))
;

/* ---- btls_finish */
#define BT_IS_CONN(s) ((s)->type == xcm_socket_type_conn)
static int btls_finish(struct xcm_socket *s)
__CPROVER_requires(BT_FRESH(s) && XV_SSL_GHOST_RANGE && BT_LOW_RANGE && (s->type == xcm_socket_type_conn || s->type == xcm_socket_type_server))
__CPROVER_requires(BT_IS_CONN(s) ==> (BT_CONN_INV(s) && BT_STATE(s) >= conn_state_tls_handshaking))
__CPROVER_assigns(xv_errno, xv_lower_dead, xv_low_s, xv_low_finish_calls, XV_SSL_HS_ASSIGNS, XV_SSL_VERDICT_ASSIGNS)
__CPROVER_assigns(BT_STATE(s), BT(s)->conn.badness_reason, BT(s)->conn.ssl_condition, BT(s)->conn.ssl_wants)
__CPROVER_ensures(__CPROVER_return_value == 0 || __CPROVER_return_value == -1)
/* PO[C09] btls_finish.success_only_if_verified: finish succeeds on a connection ONLY IF the handshake is done and its verdict satisfies the socket's policy (state ready), and the btcp sub-socket has nothing pending either */
__CPROVER_ensures((BT_IS_CONN(s) && __CPROVER_return_value == 0) ==> (BT_STATE(s) == conn_state_ready && xv_ssl_hs_done && BT_VERDICT_OK(s) && \
                                                                       xv_low_finish_calls == __CPROVER_old(xv_low_finish_calls) + 1 && xv_low_s == BT(s)->btcp_socket))
/* PO[C06] btls_finish.terminal_reported: bad => the stored errno, closed => EPIPE (also when this very call discovers it), and both stick */
__CPROVER_ensures((BT_IS_CONN(s) && BT_STATE(s) == conn_state_bad) ==> (__CPROVER_return_value == -1 && xv_errno == BT(s)->conn.badness_reason))
__CPROVER_ensures((BT_IS_CONN(s) && BT_STATE(s) == conn_state_closed) ==> (__CPROVER_return_value == -1 && xv_errno == EPIPE))
__CPROVER_ensures((BT_IS_CONN(s) && BT_WAS_DEAD(s)) ==> (BT_STATE(s) == BT_OLD_STATE(s) && BT(s)->conn.badness_reason == __CPROVER_old(BT(s)->conn.badness_reason) && \
                                                         xv_hs_calls == __CPROVER_old(xv_hs_calls) && xv_low_finish_calls == __CPROVER_old(xv_low_finish_calls)))
/* PO[C09] btls_finish.busy_while_handshaking */
__CPROVER_ensures((BT_IS_CONN(s) && BT_STATE(s) == conn_state_tls_handshaking) ==> (__CPROVER_return_value == -1 && xv_errno == EAGAIN && xv_low_finish_calls == __CPROVER_old(xv_low_finish_calls)))
/* a server socket: whatever its btcp sub-socket says */
__CPROVER_ensures(!BT_IS_CONN(s) ==> (xv_low_finish_calls == __CPROVER_old(xv_low_finish_calls) + 1 && xv_low_s == BT(s)->btcp_socket && xv_hs_calls == __CPROVER_old(xv_hs_calls)))
__CPROVER_ensures(BT_IS_CONN(s) ==> BT_CONN_INV(s))
;

/* ================================================================================================================ */
/* C09/C18: connection set-up: policy check, credentials, configuration of OpenSSL -- all BEFORE the first handshake step */
/* ================================================================================================================ */
/* ---- deinit: releases what the socket holds (lifecycle, not a subject of C09; used as a contract by connect/accept) */
static void deinit(struct xcm_socket *s, bool owner)
__CPROVER_requires(BT_FRESH(s))
__CPROVER_requires(BT_ITEMS_OK(s))
__CPROVER_requires(XV_SSL_GHOST_RANGE_IN)
__CPROVER_requires(XV_OTHER_RANGE_IN)
__CPROVER_requires(BT_CONF_GHOST_RANGE_IN)
__CPROVER_requires((s->type == xcm_socket_type_conn || s->type == xcm_socket_type_server) && (BT(s)->ssl_ctx == NULL || (BT(s)->ssl_ctx == XV_CTX && xv_ctx_refs >= 1)))
__CPROVER_assigns(xv_ssl_free_calls, xv_ssl_free_ssl, xv_bell_dels, xv_slist_destroy_calls, xv_slist_destroyed, xv_ctx_refs, xv_low_destroys, XV_ITEM_ASSIGNS)
__CPROVER_assigns(BT(s)->cert, BT(s)->key, BT(s)->tc, BT(s)->crl, BT(s)->btcp_socket)
/* the context reference is given back exactly when one is held; the SSL of a connection is freed; the sub-socket is destroyed */
__CPROVER_ensures(xv_ctx_refs == __CPROVER_old(xv_ctx_refs) - (BT(s)->ssl_ctx != NULL ? 1 : 0))
__CPROVER_ensures(xv_low_destroys == __CPROVER_old(xv_low_destroys) + 1 && BT(s)->btcp_socket == NULL)
__CPROVER_ensures(BT_IS_CONN(s) ? (xv_ssl_free_calls == __CPROVER_old(xv_ssl_free_calls) + 1 && xv_ssl_free_ssl == BT(s)->conn.ssl) : xv_ssl_free_calls == __CPROVER_old(xv_ssl_free_calls))
__CPROVER_ensures(xv_errno == __CPROVER_old(xv_errno))
__CPROVER_ensures(XV_GROW(xv_bell_dels, 1) && XV_GROW(xv_slist_destroy_calls, 1) && XV_GROW(xv_it_w_deinits, 1) && xv_it_w_sets == __CPROVER_old(xv_it_w_sets) && xv_it_w_copies == __CPROVER_old(xv_it_w_copies))
;

/* entry state of btls_connect / btls_accept's connection socket: after xcm_tp_socket_create (calloc) + btls_init (+ attribute setters) */
#define BT_INITIALIZED(s) (BT_IS_CONN(s) && BT_BOOLS_OK(s) && BT_STATE(s) == conn_state_initialized && BT(s)->conn.ssl == NULL && BT(s)->ssl_ctx == NULL && BT_ITEMS_OK(s) && BT_NAMES_INV(s))
#define BT_SETUP_GHOSTS_OK (XV_SSL_GHOST_RANGE && XV_OTHER_RANGE && BT_CONF_GHOST_RANGE && XV_SSL_CNT_OK(xv_slist_clone_calls))
#define BT_SETUP_ASSIGNS xv_errno, XV_ITEM_ASSIGNS, XV_ASP_ASSIGNS, XV_NS_ASSIGNS, xv_getenv_calls, XV_OTHER_ASSIGNS, XV_SSL_NEW_ASSIGNS, XV_SSL_CONF_ASSIGNS, XV_SSL_HOST_ASSIGNS, \
                         XV_SSL_HS_ASSIGNS, XV_SSL_VERDICT_ASSIGNS, xv_ssl_free_calls, xv_ssl_free_ssl, xv_sw_calls, xv_sr_calls
#define BT_SETUP_SOCK_ASSIGNS(s) BT(s)->cert, BT(s)->key, BT(s)->tc, BT(s)->crl, BT(s)->valid_peer_names, BT(s)->btcp_socket, BT(s)->ssl_ctx, BT(s)->conn.ssl, \
                                 BT_STATE(s), BT(s)->conn.badness_reason, BT(s)->conn.ssl_condition, BT(s)->conn.ssl_wants
/* SSL_new hands out the SSL with its records reset (env/ssl_env.h): a handshake step made in this set-up call / none made */
#define BT_HS_IN_SETUP(s) (BT(s)->conn.ssl == XV_SSL && xv_hs_calls != 0)
#define BT_NO_HS_IN_SETUP(s) (BT(s)->conn.ssl == XV_SSL ? xv_hs_calls == 0 : xv_hs_calls == __CPROVER_old(xv_hs_calls))
/* policy combinations a connection may not be created with: the four of finalize_tls_conf, and name verification without authentication or without any name to expect */
#define BT_NAMES_NEEDED_MISSING(s, may_use_host) (BT(s)->verify_peer_name && __CPROVER_old(BT(s)->valid_peer_names) == NULL && !(may_use_host))
#define BT_INVALID_POLICY(s, may_use_host) (BT_INCONSISTENT(s) || (BT(s)->verify_peer_name && !BT(s)->tls_auth) || BT_NAMES_NEEDED_MISSING(s, may_use_host))
/* what a successful set-up leaves: handshaking, ready -- or closed, when the peer hung up during the first handshake step (reported as
 * EPIPE / 0 by the next operation) --, one SSL made from the context fetched for the socket's own four items */
#define BT_SETUP_OK(s) ((BT_STATE(s) == conn_state_tls_handshaking || BT_STATE(s) == conn_state_ready || BT_STATE(s) == conn_state_closed) && BT_CONN_INV(s) && BT(s)->conn.ssl == XV_SSL && BT(s)->ssl_ctx == XV_CTX && \
                        xv_ssl_new_ctx == XV_CTX && xv_ctx_get_calls == __CPROVER_old(xv_ctx_get_calls) + 1 && xv_ctx_refs == __CPROVER_old(xv_ctx_refs) + 1)
/* the new SSL reads and writes through one BIO whose data is the socket's btcp sub-socket */
#define BT_BIO_ATTACHED(s) (xv_set_bio_ssl == XV_SSL && xv_set_bio_r == XV_BIO && xv_set_bio_w == XV_BIO && xv_bio_data == (void *)BT(s)->btcp_socket)
/* exactly the socket's policy was given to OpenSSL, once, on the new SSL: mode, flags added to the context's, names */
#define BT_SETUP_EXACT(s) (xv_ssl_set_verify_calls == 1 && xv_ssl_set_verify_ssl == XV_SSL && xv_ssl_set_verify_mode == BT_MODE(BT(s)->tls_client, BT(s)->tls_auth) && \
                           xv_ssl_set_verify_cb == verify_cb && xv_x509_flags == (xv_x509_flags0 | BT_XFLAGS(BT(s)->check_crl, BT(s)->check_time)) && \
                           (BT(s)->verify_peer_name ? (xv_x509_hostflags == (X509_CHECK_FLAG_NO_WILDCARDS | X509_CHECK_FLAG_ALWAYS_CHECK_SUBJECT) && xv_x509_nhosts == (long)xv_slist_n && xv_x509_nhosts >= 1) \
                                                    : (xv_x509_set_hostflags_calls == 0 && xv_x509_nhosts == 0)) && \
                           (xv_ssl_mode & (SSL_MODE_ENABLE_PARTIAL_WRITE | SSL_MODE_ACCEPT_MOVING_WRITE_BUFFER)) == (SSL_MODE_ENABLE_PARTIAL_WRITE | SSL_MODE_ACCEPT_MOVING_WRITE_BUFFER))
/* the context was fetched for the socket's own four items as finalize_tls_conf left them: trusted CAs iff tls.auth, CRL iff tls.check_crl */
#define BT_CTX_FROM_OWN(s) (xv_ctx_cert == &BT(s)->cert && xv_ctx_key == &BT(s)->key && xv_ctx_tc == &BT(s)->tc && xv_ctx_crl == &BT(s)->crl && \
                            xv_ctx_cert_type != item_type_none && xv_ctx_key_type != item_type_none && \
                            (xv_ctx_tc_type != item_type_none) == (BT(s)->tls_auth != 0) && (xv_ctx_crl_type != item_type_none) == (BT(s)->check_crl != 0))

static int btls_connect(struct xcm_socket *s, const char *remote_addr)
__CPROVER_requires(BT_FRESH(s) && __CPROVER_is_fresh(remote_addr, 1) && BT_INITIALIZED(s) && BT_SEL_OK(s) && BT_SETUP_GHOSTS_OK)
__CPROVER_assigns(BT_SETUP_ASSIGNS)
__CPROVER_assigns(BT_SETUP_SOCK_ASSIGNS(s))
__CPROVER_ensures(__CPROVER_return_value == 0 || (__CPROVER_return_value == -1 && xv_errno > 0))
/* PO[C09] btls_connect.invalid_policy_refused: an invalid policy combination never gets as far as a TCP connect or a handshake: the call fails (EINVAL unless the address or the credentials are unusable as well) */
__CPROVER_ensures(BT_INVALID_POLICY(s, xv_addr_is_name) ==> (__CPROVER_return_value == -1 && BT_NO_HS_IN_SETUP(s) && xv_low_connects == __CPROVER_old(xv_low_connects) && \
                                                             ((xv_addr_valid && xv_ctx_get_calls != __CPROVER_old(xv_ctx_get_calls) && xv_ssl_new_calls != __CPROVER_old(xv_ssl_new_calls) && BT(s)->conn.ssl != NULL) ==> xv_errno == EINVAL) && \
                                                             (BT_INCONSISTENT(s) ==> xv_errno == EINVAL)))
/* PO[C09] btls_connect.configured_before_handshake: if a handshake step was made, OpenSSL had been given exactly the socket's policy -- verify mode, CRL/time flags, host flags and every expected name (the address's host name when none was given) -- on the SSL that did the step */
__CPROVER_ensures(BT_HS_IN_SETUP(s) ==> (xv_hs_calls == 1 && xv_hs_ssl == XV_SSL && BT_SETUP_EXACT(s) && xv_low_connects == __CPROVER_old(xv_low_connects) + 1))
/* PO[C09] btls_connect.success: success means: policy consistent, OpenSSL configured with it, handshaking or (verdict satisfying the policy) ready */
__CPROVER_ensures(__CPROVER_return_value == 0 ==> (BT_SETUP_OK(s) && xv_hs_calls == 1))
/* PO[C02] btls_connect.bio_attached */
__CPROVER_ensures(__CPROVER_return_value == 0 ==> BT_BIO_ATTACHED(s))
/* PO[C02] btls_connect.partial_write_mode: the SSL runs with ENABLE_PARTIAL_WRITE|ACCEPT_MOVING_WRITE_BUFFER, without which a refused SSL_write (EAGAIN reported) may already have put bytes of the call on the wire */
__CPROVER_ensures(BT_HS_IN_SETUP(s) ==> ((xv_ssl_mode & (SSL_MODE_ENABLE_PARTIAL_WRITE | SSL_MODE_ACCEPT_MOVING_WRITE_BUFFER)) == (SSL_MODE_ENABLE_PARTIAL_WRITE | SSL_MODE_ACCEPT_MOVING_WRITE_BUFFER) && xv_ssl_set_mode_calls >= 1))
/* PO[C09] btls_connect.success_exact_policy */
__CPROVER_ensures(__CPROVER_return_value == 0 ==> BT_SETUP_EXACT(s))
/* PO[C09] btls_connect.success_only_valid_policy */
__CPROVER_ensures(__CPROVER_return_value == 0 ==> !BT_INVALID_POLICY(s, xv_addr_is_name))
/* PO[C09] btls_connect.policy_not_met_is_eproto: the handshake completed at once but the verdict does not satisfy the policy: EPROTO */
__CPROVER_ensures((BT_HS_IN_SETUP(s) && xv_hs_ret >= 1 && !BT_VERDICT_OK(s)) ==> (__CPROVER_return_value == -1 && xv_errno == EPROTO))
/* PO[C18] btls_connect.own_credentials: the TLS context is fetched once, for the socket's own four items as they stand after finalize_tls_conf */
__CPROVER_ensures(xv_ctx_get_calls != __CPROVER_old(xv_ctx_get_calls) ==> (xv_ctx_get_calls == __CPROVER_old(xv_ctx_get_calls) + 1 && BT_CTX_FROM_OWN(s)))
/* PO[C18] btls_connect.failure_releases_ctx: a failed connect keeps no context reference */
__CPROVER_ensures(__CPROVER_return_value == -1 ==> xv_ctx_refs == __CPROVER_old(xv_ctx_refs))
;

static int btls_accept(struct xcm_socket *conn_s, struct xcm_socket *server_s)
__CPROVER_requires(BT_FRESH(conn_s) && BT_FRESH(server_s) && BT_PROTO_FRESH(server_s) && BT_INITIALIZED(conn_s) && BT_SEL_OK(conn_s) && BT_SETUP_GHOSTS_OK)
__CPROVER_requires(BT_PROTO(server_s))
__CPROVER_assigns(BT_SETUP_ASSIGNS)
__CPROVER_assigns(BT_SETUP_SOCK_ASSIGNS(conn_s))
__CPROVER_ensures(__CPROVER_return_value == 0 || (__CPROVER_return_value == -1 && xv_errno > 0))
/* PO[C09] btls_accept.invalid_policy_refused: an accepted connection whose (inherited and overridden) policy is invalid -- an accepted socket has no host name to fall back on -- never reaches a handshake; with a TCP connection accepted, the four inconsistencies are reported as EINVAL */
__CPROVER_ensures(BT_INVALID_POLICY(conn_s, 0) ==> (__CPROVER_return_value == -1 && BT_NO_HS_IN_SETUP(conn_s) && \
                                                    ((BT_INCONSISTENT(conn_s) && xv_low_accepts == __CPROVER_old(xv_low_accepts) + 1 && xv_low_accept_ret == 0) ==> xv_errno == EINVAL)))
/* PO[C09] btls_accept.configured_before_handshake */
__CPROVER_ensures(BT_HS_IN_SETUP(conn_s) ==> (xv_hs_calls == 1 && xv_hs_ssl == XV_SSL && BT_SETUP_EXACT(conn_s)))
/* PO[C09] btls_accept.success */
__CPROVER_ensures(__CPROVER_return_value == 0 ==> (BT_SETUP_OK(conn_s) && xv_hs_calls == 1))
/* PO[C02] btls_accept.bio_attached */
__CPROVER_ensures(__CPROVER_return_value == 0 ==> BT_BIO_ATTACHED(conn_s))
/* PO[C02] btls_accept.partial_write_mode */
__CPROVER_ensures(BT_HS_IN_SETUP(conn_s) ==> ((xv_ssl_mode & (SSL_MODE_ENABLE_PARTIAL_WRITE | SSL_MODE_ACCEPT_MOVING_WRITE_BUFFER)) == (SSL_MODE_ENABLE_PARTIAL_WRITE | SSL_MODE_ACCEPT_MOVING_WRITE_BUFFER) && xv_ssl_set_mode_calls >= 1))
/* PO[C09] btls_accept.success_exact_policy */
__CPROVER_ensures(__CPROVER_return_value == 0 ==> BT_SETUP_EXACT(conn_s))
/* PO[C09] btls_accept.success_only_valid_policy */
__CPROVER_ensures(__CPROVER_return_value == 0 ==> !BT_INVALID_POLICY(conn_s, 0))
/* PO[C09] btls_accept.policy_not_met_is_eproto */
__CPROVER_ensures((BT_HS_IN_SETUP(conn_s) && xv_hs_ret >= 1 && !BT_VERDICT_OK(conn_s)) ==> (__CPROVER_return_value == -1 && xv_errno == EPROTO))
/* PO[C18] btls_accept.own_credentials: the context is fetched for the ACCEPTED socket's items (inherited or overridden), never the server socket's */
__CPROVER_ensures(xv_ctx_get_calls != __CPROVER_old(xv_ctx_get_calls) ==> (xv_ctx_get_calls == __CPROVER_old(xv_ctx_get_calls) + 1 && BT_CTX_FROM_OWN(conn_s)))
/* PO[C18] btls_accept.failure_releases_ctx */
__CPROVER_ensures(__CPROVER_return_value == -1 ==> xv_ctx_refs == __CPROVER_old(xv_ctx_refs))
;

/* ================================================================================================================ */
/* C09 (C11): the policy is fixed once the connection leaves state initialized                                        */
/* ================================================================================================================ */
/* The invariants CONFIGURED and READY above speak about tls.auth, tls.client, tls.check_crl, tls.check_time and
 * tls.verify_peer_name as OpenSSL was given them; they stay true because the setters refuse (EACCES) on a connection that
 * is past `initialized`, leaving the field alone.  (Server sockets may be changed at any time: they never handshake.) */
#define BT_BOOL_SETTER_CONTRACT(field) \
__CPROVER_requires(BT_FRESH(s) && __CPROVER_is_fresh(value, sizeof(bool)) && BT_BOOL(*BT_U8(value)) && (s->type == xcm_socket_type_conn || s->type == xcm_socket_type_server)) \
__CPROVER_assigns(xv_errno, BT(s)->field) \
__CPROVER_ensures((BT_IS_CONN(s) && BT_STATE(s) != conn_state_initialized) \
        ? (__CPROVER_return_value == -1 && xv_errno == EACCES && BT(s)->field == __CPROVER_old(BT(s)->field)) \
        : (__CPROVER_return_value == 0 && BT(s)->field == *BT_U8(value) && xv_errno == __CPROVER_old(xv_errno)))
static int set_client_attr(struct xcm_socket *s, void *context, const void *value, size_t len)
/* PO[C09,C11] set_client_attr.only_at_creation */
BT_BOOL_SETTER_CONTRACT(tls_client)
;
static int set_auth_attr(struct xcm_socket *s, void *context, const void *value, size_t len)
/* PO[C09,C11] set_auth_attr.only_at_creation */
BT_BOOL_SETTER_CONTRACT(tls_auth)
;
static int set_check_crl_attr(struct xcm_socket *s, void *context, const void *value, size_t len)
/* PO[C09,C11] set_check_crl_attr.only_at_creation */
BT_BOOL_SETTER_CONTRACT(check_crl)
;
static int set_check_time_attr(struct xcm_socket *s, void *context, const void *value, size_t len)
/* PO[C09,C11] set_check_time_attr.only_at_creation */
BT_BOOL_SETTER_CONTRACT(check_time)
;
static int set_verify_peer_name_attr(struct xcm_socket *s, void *context, const void *value, size_t len)
/* PO[C09,C11] set_verify_peer_name_attr.only_at_creation */
BT_BOOL_SETTER_CONTRACT(verify_peer_name)
;

/* ---- set_peer_names_attr (tls.peer_names) */
static int set_peer_names_attr(struct xcm_socket *s, void *context, const void *value, size_t len)
__CPROVER_requires(BT_FRESH(s) && __CPROVER_is_fresh(value, 1) && (s->type == xcm_socket_type_conn || s->type == xcm_socket_type_server) && BT_NAMES_INV(s))
__CPROVER_requires(XV_SSL_CNT_OK(xv_slist_destroy_calls) && XV_SSL_CNT_OK(xv_slist_split_calls) && XV_SSL_CNT_OK(xv_dns_valid_calls))
__CPROVER_assigns(xv_errno, BT(s)->valid_peer_names, BT(s)->valid_peer_names_set, xv_slist_destroy_calls, xv_slist_destroyed, xv_slist_split_calls, xv_slist_split_ret, \
                  xv_slist_n, xv_slist_name_k, xv_dns_valid_calls)
__CPROVER_ensures(__CPROVER_return_value == 0 || (__CPROVER_return_value == -1 && (xv_errno == EACCES || xv_errno == EINVAL)))
/* PO[C09,C11] set_peer_names_attr.only_at_creation */
__CPROVER_ensures((BT_IS_CONN(s) && BT_STATE(s) != conn_state_initialized) ==> (__CPROVER_return_value == -1 && xv_errno == EACCES && \
                  BT(s)->valid_peer_names == __CPROVER_old(BT(s)->valid_peer_names) && xv_slist_destroy_calls == __CPROVER_old(xv_slist_destroy_calls)))
/* PO[C09] set_peer_names_attr.names_never_empty: a name list, when present, is not empty (what enable_hostname_validation relies on: an empty list would switch name checking off inside OpenSSL) */
__CPROVER_ensures(BT_NAMES_INV(s))
/* PO[C09] set_peer_names_attr.every_name_validated: on success every name of the new list went through xcm_dns_is_valid_name, the list is the socket's, and it is marked as set on this socket */
__CPROVER_ensures(__CPROVER_return_value == 0 ==> (BT(s)->valid_peer_names_set == 1 && xv_dns_valid_calls == __CPROVER_old(xv_dns_valid_calls) + (long)xv_slist_n && \
                                                    (xv_slist_n > 0 ? BT(s)->valid_peer_names == xv_slist_split_ret : BT(s)->valid_peer_names == NULL)))
/* PO[C10] set_peer_names_attr.failed_set_has_no_effect: a refused value (EINVAL) leaves the previous names in place */
__CPROVER_ensures(__CPROVER_return_value == -1 ==> BT(s)->valid_peer_names == __CPROVER_old(BT(s)->valid_peer_names))
;

/* ================================================================================================================ */
/* C18: designating credentials on a socket (tls.cert_file ... tls.crl, by file or by value)                         */
/* ================================================================================================================ */
#define XV_VALUE_MAX (1UL << 16)      /* credential values above 64 KiB are not explored */
static bool has_nul(const char *s, size_t len)
__CPROVER_requires(len <= XV_VALUE_MAX && __CPROVER_is_fresh(s, len == 0 ? 1 : len))
__CPROVER_assigns()
__CPROVER_ensures((!__CPROVER_return_value && xv_j >= 0 && (size_t)xv_j < len) ==> s[xv_j] != '\0')
;
#define BT_ITEM_UNCHANGED(s, f) (BT(s)->f.type == __CPROVER_old(BT(s)->f.type) && BT(s)->f.data == __CPROVER_old(BT(s)->f.data) && BT(s)->f.sensitive == __CPROVER_old(BT(s)->f.sensitive) && \
                                 xv_it_w_sets == __CPROVER_old(xv_it_w_sets) && xv_it_w_valsets == __CPROVER_old(xv_it_w_valsets) && xv_it_w_deinits == __CPROVER_old(xv_it_w_deinits))
#define BT_REFUSED_LATE(s) (BT_IS_CONN(s) && BT_STATE(s) != conn_state_initialized)
#define BT_SETTER_COMMON(s, f) (BT_FRESH(s) && (s->type == xcm_socket_type_conn || s->type == xcm_socket_type_server) && BT_ITEMS_OK(s) && xv_it_watch == &BT(s)->f && \
                                BT_CONF_GHOST_RANGE && XV_SSL_CNT_OK(xv_it_w_valsets))
/* by file: the item becomes FILE (not sensitive), whatever it designated before (file or value) is dropped, the mark (if the item has one) says "set on this socket" */
#define BT_FILE_SETTER_CONTRACT(f, MARK_ASSIGN, MARK_SET, MARK_SAME) \
__CPROVER_requires(BT_SETTER_COMMON(s, f) && __CPROVER_is_fresh(filename, 1)) \
__CPROVER_assigns(xv_errno, BT(s)->f, XV_ITEM_ASSIGNS MARK_ASSIGN) \
__CPROVER_ensures(BT_REFUSED_LATE(s) \
        ? (__CPROVER_return_value == -1 && xv_errno == EACCES && BT_ITEM_UNCHANGED(s, f) MARK_SAME) \
        : (__CPROVER_return_value == 0 && BT(s)->f.type == item_type_file && !BT(s)->f.sensitive && xv_it_w_sets == __CPROVER_old(xv_it_w_sets) + 1 && \
           xv_it_w_deinits == __CPROVER_old(xv_it_w_deinits) + (__CPROVER_old(BT(s)->f.type) != item_type_none ? 1 : 0) MARK_SET))
/* by value: NUL-free values only (EINVAL otherwise, nothing changed); the item becomes VALUE of exactly len bytes, sensitive iff it is the private key */
#define BT_VALUE_SETTER_CONTRACT(f, sens, MARK_ASSIGN, MARK_SET, MARK_SAME) \
__CPROVER_requires(BT_SETTER_COMMON(s, f) && len <= XV_VALUE_MAX && __CPROVER_is_fresh(value, len == 0 ? 1 : len)) \
__CPROVER_assigns(xv_errno, BT(s)->f, XV_ITEM_ASSIGNS, xv_it_w_valsets, xv_it_w_vallen, xv_it_w_valsens MARK_ASSIGN) \
__CPROVER_ensures(BT_REFUSED_LATE(s) ==> (__CPROVER_return_value == -1 && xv_errno == EACCES && BT_ITEM_UNCHANGED(s, f) MARK_SAME)) \
__CPROVER_ensures((!BT_REFUSED_LATE(s) && __CPROVER_return_value == -1) ==> (xv_errno == EINVAL && BT_ITEM_UNCHANGED(s, f) MARK_SAME)) \
__CPROVER_ensures((!BT_REFUSED_LATE(s) && xv_j >= 0 && (size_t)xv_j < len && BT_U8(value)[xv_j] == 0) ==> __CPROVER_return_value == -1) \
__CPROVER_ensures(__CPROVER_return_value == 0 ==> (BT(s)->f.type == item_type_value && BT(s)->f.sensitive == (sens) && xv_it_w_valsets == __CPROVER_old(xv_it_w_valsets) + 1 && \
           xv_it_w_vallen == len && xv_it_w_valsens == (sens) && \
           xv_it_w_deinits == __CPROVER_old(xv_it_w_deinits) + (__CPROVER_old(BT(s)->f.type) != item_type_none ? 1 : 0) MARK_SET)) \
__CPROVER_ensures(__CPROVER_return_value == 0 || __CPROVER_return_value == -1)
#define BT_COMMA_TC_SET , BT(s)->tc_set
#define BT_COMMA_CRL_SET , BT(s)->crl_set
static int set_cert_file_attr(struct xcm_socket *s, void *context, const void *filename, size_t len)
/* PO[C18] set_cert_file_attr.designates_file */
BT_FILE_SETTER_CONTRACT(cert, , , )
;
static int set_key_file_attr(struct xcm_socket *s, void *context, const void *filename, size_t len)
/* PO[C18] set_key_file_attr.designates_file */
BT_FILE_SETTER_CONTRACT(key, , , )
;
static int set_tc_file_attr(struct xcm_socket *s, void *context, const void *filename, size_t len)
/* PO[C18,C09] set_tc_file_attr.designates_file_and_marks */
BT_FILE_SETTER_CONTRACT(tc, BT_COMMA_TC_SET, && BT(s)->tc_set == 1, && BT(s)->tc_set == __CPROVER_old(BT(s)->tc_set))
;
static int set_crl_file_attr(struct xcm_socket *s, void *context, const void *filename, size_t len)
/* PO[C18,C09] set_crl_file_attr.designates_file_and_marks */
BT_FILE_SETTER_CONTRACT(crl, BT_COMMA_CRL_SET, && BT(s)->crl_set == 1, && BT(s)->crl_set == __CPROVER_old(BT(s)->crl_set))
;
static int set_cert_attr(struct xcm_socket *s, void *context, const void *value, size_t len)
/* PO[C18] set_cert_attr.designates_value */
BT_VALUE_SETTER_CONTRACT(cert, 0, , , )
;
static int set_key_attr(struct xcm_socket *s, void *context, const void *value, size_t len)
/* PO[C18] set_key_attr.designates_sensitive_value */
BT_VALUE_SETTER_CONTRACT(key, 1, , , )
;
static int set_tc_attr(struct xcm_socket *s, void *context, const void *value, size_t len)
/* PO[C18,C09] set_tc_attr.designates_value_and_marks */
BT_VALUE_SETTER_CONTRACT(tc, 0, BT_COMMA_TC_SET, && BT(s)->tc_set == 1, && BT(s)->tc_set == __CPROVER_old(BT(s)->tc_set))
;
static int set_crl_attr(struct xcm_socket *s, void *context, const void *value, size_t len)
/* PO[C18,C09] set_crl_attr.designates_value_and_marks */
BT_VALUE_SETTER_CONTRACT(crl, 0, BT_COMMA_CRL_SET, && BT(s)->crl_set == 1, && BT(s)->crl_set == __CPROVER_old(BT(s)->crl_set))
;

#include "contracts/end.h"
#endif
