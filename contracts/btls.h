/* contracts/btls.h -- libxcm/tp/tls/xcm_tp_btls.c: the byte-stream TLS transport over OpenSSL.
 * C09 (TLS never fails open: OpenSSL is configured with exactly the socket's policy, the verdict is consulted, application
 *      data moves only in state ready), C02/C06 (btls_send/btls_receive over SSL_write/SSL_read; terminal states stick),
 * C18 (finalize_tls_conf/get_file: per-socket designation first, otherwise the defaults as they stand at the call).
 * OpenSSL is env/ssl_env.h (TRUSTED).  slist_*, item_*, ut_*, getenv, ctx_store_*, xpoll_*, the btcp sub-socket are other
 * modules: ASSUMED here (stub bodies / contracts below).
 * Attached to the REAL static functions by redeclaration after the TU has been #included.
 */
#ifndef XV_BTLS_H
#define XV_BTLS_H
#include "contracts/begin.h"
#include "contracts/lower.h"

#define BT(s) ((struct btls_socket *)((uint8_t *)(s) + sizeof(struct xcm_socket)))
#define BT_SIZE (sizeof(struct xcm_socket) + sizeof(struct btls_socket))
#define BT_FRESH(s) __CPROVER_is_fresh((s), BT_SIZE)
/* s->proto is the registered BTLS protocol (the proto object is made by is_fresh: a pointer read from a fresh object and
 * merely ASSUMED equal to the address of a global is not dereferenceable for CBMC) */
#define BT_PROTO_FRESH(s) __CPROVER_is_fresh((s)->proto, sizeof(struct xcm_tp_proto))
#define BT_PROTO(s) ((s)->proto->ops == &btls_ops)
#define BT_STATE(s) (BT(s)->conn.state)
#define BT_STATE_OK(s) ((unsigned)BT_STATE(s) <= (unsigned)conn_state_closed)
#define BT_DEAD_STATE(s) (BT_STATE(s) == conn_state_closed || BT_STATE(s) == conn_state_bad)
#define BT_BOOLS_OK(s) 1
#define BCN(s, c) (BT(s)->conn.cnts[xcm_tp_cnt_##c])
#define BT_U8(p) ((const uint8_t *)(p))

/* the policy verdict of the SSL session (env/ssl_env.h) satisfies the socket's authentication policy */
#define BT_VERDICT_OK(s) (!BT(s)->tls_auth || (xv_ssl_peer_cert && xv_ssl_verify_result == X509_V_OK))
/* representation invariants of a connection socket
 *  - a bad socket has a real errno, never EAGAIN
 *  - READY: state ready is only ever entered (try_finish_tls_handshake) after a successful handshake whose verdict
 *    satisfies the policy; OpenSSL was configured (set_verify) before any handshake call */
#define BT_TERMINAL_INV(s) (BT_STATE(s) == conn_state_bad ==> (BT(s)->conn.badness_reason > 0 && BT(s)->conn.badness_reason != EAGAIN))
#define BT_READY_INV(s) (BT_STATE(s) == conn_state_ready ==> (xv_ssl_hs_done && BT_VERDICT_OK(s)))
#define BT_CONFIGURED(s) (xv_ssl_set_verify_calls >= 1 && xv_ssl_set_verify_ssl == BT(s)->conn.ssl)
#define BT_CONN_INV(s) (BT_STATE_OK(s) && BT_TERMINAL_INV(s) && BT_READY_INV(s) && \
                        ((BT_STATE(s) == conn_state_tls_handshaking || BT_STATE(s) == conn_state_ready) ==> BT_CONFIGURED(s)))

/* ================================================================================================================ */
/* other modules, ASSUMED                                                                                            */
/* ================================================================================================================ */
/* TRUSTED(xcm log_tls.c) log_tls_get_error_stack / log_tls_get_verification_failure_reason: called unconditionally by the LOG_TLS_*
 * macros (not behind log_is_enabled()): fill the caller's text buffer with some NUL-terminated text.  (The real
 * log_tls_get_error_stack also drains OpenSSL's error queue; nothing in the TU reads the queue after a call of it.) */
void log_tls_get_error_stack(char *buf, size_t capacity)
{
    __CPROVER_assert(capacity >= 1 && __CPROVER_w_ok(buf, capacity), "log_tls_get_error_stack: buffer writeable");
    __CPROVER_havoc_slice(buf, capacity);
    buf[capacity - 1] = '\0';
}
void log_tls_get_verification_failure_reason(X509_STORE_CTX *store_ctx, char *buf, size_t capacity)
{
    __CPROVER_assert(capacity >= 1 && __CPROVER_w_ok(buf, capacity), "log_tls_get_verification_failure_reason: buffer writeable");
    __CPROVER_havoc_slice(buf, capacity);
    buf[capacity - 1] = '\0';
}

/* ================================================================================================================ */
/* C09: configuration of OpenSSL                                                                                     */
/* ================================================================================================================ */
#define BT_MODE(tls_client, tls_auth) ((tls_auth) ? (SSL_VERIFY_PEER | ((tls_client) ? 0 : SSL_VERIFY_FAIL_IF_NO_PEER_CERT)) : SSL_VERIFY_NONE)
#define BT_XFLAGS(check_crl, check_time) (((check_crl) ? (unsigned long)(X509_V_FLAG_CRL_CHECK | X509_V_FLAG_CRL_CHECK_ALL) : 0UL) | \
                                          ((check_time) ? 0UL : (unsigned long)X509_V_FLAG_NO_CHECK_TIME))
static void set_verify(SSL *ssl, bool tls_client, bool tls_auth, bool check_crl, bool check_time)
__CPROVER_requires(XV_SSL_GHOST_RANGE)
__CPROVER_assigns(XV_SSL_CONF_ASSIGNS)
/* PO[C09] set_verify.mode: exactly one SSL_set_verify on this SSL; auth => VERIFY_PEER (| FAIL_IF_NO_PEER_CERT on the server side), no auth => VERIFY_NONE */
__CPROVER_ensures(xv_ssl_set_verify_calls == __CPROVER_old(xv_ssl_set_verify_calls) + 1 && xv_ssl_set_verify_ssl == ssl && \
                  xv_ssl_set_verify_mode == BT_MODE(tls_client, tls_auth))
/* PO[C09] set_verify.flags: the verification flags in force afterwards are the previous ones plus exactly CRL_CHECK|CRL_CHECK_ALL iff check_crl, NO_CHECK_TIME iff !check_time */
__CPROVER_ensures(xv_x509_flags == (__CPROVER_old(xv_x509_flags) | BT_XFLAGS(check_crl, check_time)))
/* PO[C09] set_verify.own_param: flags are changed only on the parameter object of this SSL */
__CPROVER_ensures(xv_x509_set_flags_calls != __CPROVER_old(xv_x509_set_flags_calls) ==> xv_get0_param_ssl == ssl)
/* PO[C09] set_verify.callback_passthrough: the verify callback cannot turn a failed check into a pass (it is verify_cb, which returns `ok` unchanged: job btls.verify_cb) */
__CPROVER_ensures(xv_ssl_set_verify_cb == verify_cb)
;
static int verify_cb(int ok, X509_STORE_CTX *ctx)
__CPROVER_requires(1)
__CPROVER_assigns()
/* PO[C09] verify_cb.passthrough */
__CPROVER_ensures(__CPROVER_return_value == ok)
;

/* ================================================================================================================ */
/* C09/C06: the handshake and its verdict                                                                            */
/* ================================================================================================================ */
/* ---- verify_peer_cert: called in state ready right after a successful handshake when tls.auth is on */
static void verify_peer_cert(struct xcm_socket *s)
__CPROVER_requires(BT_FRESH(s) && BT_STATE(s) == conn_state_ready && XV_SSL_GHOST_RANGE)
__CPROVER_assigns(BT_STATE(s), BT(s)->conn.badness_reason, XV_SSL_VERDICT_ASSIGNS)
/* PO[C09] verify_peer_cert.verdict_consulted: the socket stays ready ONLY IF the peer presented a certificate AND OpenSSL's verification verdict is X509_V_OK */
__CPROVER_ensures(BT_STATE(s) == conn_state_ready ==> (xv_ssl_peer_cert && xv_ssl_verify_result == X509_V_OK))
/* PO[C09] verify_peer_cert.else_eproto: otherwise (no certificate, or any verdict other than OK) the socket is bad with EPROTO */
__CPROVER_ensures(!(xv_ssl_peer_cert && xv_ssl_verify_result == X509_V_OK) ==> (BT_STATE(s) == conn_state_bad && BT(s)->conn.badness_reason == EPROTO))
__CPROVER_ensures(BT_STATE(s) == conn_state_ready || BT_STATE(s) == conn_state_bad)
__CPROVER_ensures(BT_STATE(s) == conn_state_ready ==> BT(s)->conn.badness_reason == __CPROVER_old(BT(s)->conn.badness_reason))
/* the certificate reference is given back */
__CPROVER_ensures(xv_x509_refs == __CPROVER_old(xv_x509_refs))
;

/* ---- process_ssl_event: classification of a failed SSL call (C06: "SSL_ERROR_ZERO_RETURN => closed, SSL_ERROR_SSL =>
 * bad(EPROTO), SYSCALL mapping as coded") */
#define BT_EV_WANT(s, condition, w) (BT_STATE(s) == __CPROVER_old(BT_STATE(s)) && BT(s)->conn.ssl_condition == (condition) && BT(s)->conn.ssl_wants == (w) && \
                                     BT(s)->conn.badness_reason == __CPROVER_old(BT(s)->conn.badness_reason))
#define BT_EV_CLOSED(s) (BT_STATE(s) == conn_state_closed && BT(s)->conn.badness_reason == __CPROVER_old(BT(s)->conn.badness_reason))
#define BT_EV_BAD(s, e) (BT_STATE(s) == conn_state_bad && BT(s)->conn.badness_reason == (e))
/* the mapping, as a predicate over the SSL model's classification (xv_ssl_err, xv_err_queue) and the errno of the call */
#define BT_EV_MAP(s, condition, en) ( \
    (xv_ssl_err == SSL_ERROR_WANT_READ ==> BT_EV_WANT(s, condition, XCM_SO_RECEIVABLE)) && \
    (xv_ssl_err == SSL_ERROR_WANT_WRITE ==> BT_EV_WANT(s, condition, XCM_SO_SENDABLE)) && \
    (xv_ssl_err == SSL_ERROR_ZERO_RETURN ==> BT_EV_CLOSED(s)) && \
    (xv_ssl_err == SSL_ERROR_SSL ==> BT_EV_BAD(s, EPROTO)) && \
    ((xv_ssl_err == SSL_ERROR_SYSCALL && xv_err_queue != 0) ==> BT_EV_BAD(s, EPROTO)) && \
    ((xv_ssl_err == SSL_ERROR_SYSCALL && xv_err_queue == 0 && (en) == EINPROGRESS) ==> \
        (BT_STATE(s) == __CPROVER_old(BT_STATE(s)) && BT(s)->conn.ssl_wants == XCM_SO_RECEIVABLE && BT(s)->conn.badness_reason == __CPROVER_old(BT(s)->conn.badness_reason))) && \
    ((xv_ssl_err == SSL_ERROR_SYSCALL && xv_err_queue == 0 && ((en) == EPIPE || (en) == 0)) ==> BT_EV_CLOSED(s)) && \
    ((xv_ssl_err == SSL_ERROR_SYSCALL && xv_err_queue == 0 && (en) != EPIPE && (en) != 0 && (en) != EINPROGRESS) ==> BT_EV_BAD(s, en)))
#define BT_ERR_CLASS_OK (xv_ssl_err == SSL_ERROR_SSL || xv_ssl_err == SSL_ERROR_WANT_READ || xv_ssl_err == SSL_ERROR_WANT_WRITE || \
                         xv_ssl_err == SSL_ERROR_SYSCALL || xv_ssl_err == SSL_ERROR_ZERO_RETURN)
static void process_ssl_event(struct xcm_socket *s, int condition, int ssl_rc, int ssl_errno)
__CPROVER_requires(BT_FRESH(s) && BT_STATE_OK(s) && BT_ERR_CLASS_OK && ssl_rc == xv_ssl_last_ret && ssl_rc <= 0)
/* assumption A2 of env/ssl_env.h, as a precondition: a SYSCALL failure without queued error does not carry EAGAIN */
__CPROVER_requires((xv_ssl_err == SSL_ERROR_SYSCALL && xv_err_queue == 0) ==> (ssl_errno != EAGAIN && ssl_errno != EWOULDBLOCK))
__CPROVER_assigns(BT_STATE(s), BT(s)->conn.badness_reason, BT(s)->conn.ssl_condition, BT(s)->conn.ssl_wants)
/* PO[C06] process_ssl_event.mapping */
__CPROVER_ensures(BT_EV_MAP(s, condition, ssl_errno))
;

/* ---- try_finish_tls_handshake */
#define BT_HS_ENTERED (xv_hs_calls != __CPROVER_old(xv_hs_calls))
static void try_finish_tls_handshake(struct xcm_socket *s)
__CPROVER_requires(BT_FRESH(s) && XV_SSL_GHOST_RANGE && BT_CONN_INV(s))
__CPROVER_assigns(xv_errno, XV_SSL_HS_ASSIGNS, XV_SSL_VERDICT_ASSIGNS)
__CPROVER_assigns(BT_STATE(s), BT(s)->conn.badness_reason, BT(s)->conn.ssl_condition, BT(s)->conn.ssl_wants)
/* PO[C09] try_finish_tls_handshake.ready_only_if_verified: state ready is reached ONLY IF the handshake call returned success AND (tls.auth is off OR (a peer certificate is present AND the verdict is X509_V_OK)) */
__CPROVER_ensures((BT_STATE(s) == conn_state_ready && __CPROVER_old(BT_STATE(s)) != conn_state_ready) ==> \
                  (__CPROVER_old(BT_STATE(s)) == conn_state_tls_handshaking && xv_hs_ret >= 1 && xv_hs_ssl == BT(s)->conn.ssl && xv_ssl_hs_done && BT_VERDICT_OK(s)))
/* PO[C09] try_finish_tls_handshake.policy_violation_is_eproto: handshake done but the verdict does not satisfy the policy => bad, EPROTO */
__CPROVER_ensures((BT_HS_ENTERED && xv_hs_ret >= 1 && !BT_VERDICT_OK(s)) ==> (BT_STATE(s) == conn_state_bad && BT(s)->conn.badness_reason == EPROTO))
/* PO[C09] try_finish_tls_handshake.established: handshake done and policy satisfied => ready (no spurious refusal) */
__CPROVER_ensures((BT_HS_ENTERED && xv_hs_ret >= 1 && BT_VERDICT_OK(s)) ==> BT_STATE(s) == conn_state_ready)
/* PO[C09] try_finish_tls_handshake.one_step_own_role: only a handshaking socket enters OpenSSL: one SSL_connect (tls.client) or SSL_accept (server role) on the socket's own SSL; otherwise nothing at all happens */
__CPROVER_ensures(__CPROVER_old(BT_STATE(s)) == conn_state_tls_handshaking \
        ? (xv_hs_calls == __CPROVER_old(xv_hs_calls) + 1 && xv_hs_ssl == BT(s)->conn.ssl && xv_hs_connect == (BT(s)->tls_client != 0)) \
        : (xv_hs_calls == __CPROVER_old(xv_hs_calls) && BT_STATE(s) == __CPROVER_old(BT_STATE(s)) && BT(s)->conn.badness_reason == __CPROVER_old(BT(s)->conn.badness_reason) && \
           BT(s)->conn.ssl_condition == __CPROVER_old(BT(s)->conn.ssl_condition) && BT(s)->conn.ssl_wants == __CPROVER_old(BT(s)->conn.ssl_wants)))
/* PO[C06] try_finish_tls_handshake.failure_mapping: a failed step: WANT_* => still handshaking (ssl_condition 0, ssl_wants says what to wait for), close_notify/EOF/EPIPE => closed, protocol error => bad(EPROTO), transport errno e => bad(e)
 */
__CPROVER_ensures((BT_HS_ENTERED && xv_hs_ret < 1) ==> BT_EV_MAP(s, 0, xv_ssl_errno))
/* PO[C06] try_finish_tls_handshake.terminal_sticks: closed and bad are absorbing, the stored errno is immutable */
__CPROVER_ensures((__CPROVER_old(BT_STATE(s)) == conn_state_closed || __CPROVER_old(BT_STATE(s)) == conn_state_bad) ==> \
                  (BT_STATE(s) == __CPROVER_old(BT_STATE(s)) && BT(s)->conn.badness_reason == __CPROVER_old(BT(s)->conn.badness_reason)))
/* the caller's errno survives, the representation invariants hold again, the certificate reference is given back */
__CPROVER_ensures(xv_errno == __CPROVER_old(xv_errno))
__CPROVER_ensures(BT_CONN_INV(s))
__CPROVER_ensures(xv_x509_refs == __CPROVER_old(xv_x509_refs))
;

#include "contracts/end.h"
#endif
