/* contracts/xpoll.h -- two small units:
 *   XP_XPOLL  libxcm/core/xpoll.c             the per-socket epoll instance: descriptor registrations, bells (C04, C16, C08)
 *   XP_AFD    libxcm/tp/common/active_fd.c    the process-wide pool of always-readable eventfds (C08, C15, C04)
 * Attached to the REAL functions by redeclaration after the TU has been #included (harness/xpoll/_unit*.h).
 * Kernel model: env/epoll_env.h (ghost interest list xv_ep[], eventfd, lock stubs) on top of env/fd.h (descriptor table).
 *
 * Vocabulary.  xv_j / xv_w (fd_regs), xv_b / xv_bw (bell_regs), xv_fk (descriptor table) are ARBITRARY ghost indices that
 * nothing assigns: a clause stated for them is proved for every index.  xv_keep is the arbitrary BYTE offset whose content
 * the ut_realloc model of env/base.h preserves: "byte xv_keep of the array is what it was" is proved for every offset, i.e.
 * the whole old content survives.  xv_g_* are ghost constants that a requires clause binds to an entry value.
 *
 * Two things a ghost index cannot express, and how they are handled:
 *  - a fact needed at an index the CODE computes (the slot find_fd returns; "some bell rings"): a quantifier with constant
 *    bounds 0..XP_QCAP, which CBMC expands; contracts that need one explore tables up to XP_QCAP slots (the others up to
 *    XP_CAP_MAX);
 *  - the COUNTING part of the representation invariant (num_fd_regs / num_bell_regs = number of slots in use): it enters
 *    the contracts only through its consequences, as preconditions -- a free slot exists when the table is not full
 *    (existential: the witness xv_w / xv_bw), no bell is in use when num_bell_regs == 0.  That the counting invariant itself
 *    is established by xpoll_create and kept by every operation is checked by the bounded job xpoll.sequence.
 * Facts about one of the XV_NFD descriptor-table slots that a caller needs at a descriptor it computes are stated for all
 * 8 slots (XP_FOR8) instead of the ghost index xv_fk.
 */
#ifndef XV_XPOLL_H
#define XV_XPOLL_H
#include "contracts/begin.h"

/* capacities above this are not explored (is_fresh needs a bound) */
#ifndef XP_CAP_MAX
#define XP_CAP_MAX 1024
#endif
#define XP_NEXT_CAP(c) (((c) + 1) * 2)
#define XP_FK_OK (xv_fk >= 0 && xv_fk < XV_NFD)
/* ghost counters start below XV_CALLS_MAX at the entry of a public function; a callee's contract allows `slack` more, so
 * that the increments made on the way down never leave the range the callee requires (deeper = more slack) */
#define XP_C_OK(c, slack) ((c) >= 0 && (c) < XV_CALLS_MAX + (slack))
#define XP_RANGE(slack) (XP_C_OK(xv_open_cnt, slack) && XP_C_OK(xv_close_calls, slack) && XP_C_OK(xv_epcreate_calls, slack) && XP_C_OK(xv_epctl_calls, slack) && \
                         XP_C_OK(xv_eventfd_calls, slack) && XP_C_OK(xv_lock_acqs, slack) && XP_C_OK(xv_lock_rels, slack) && XP_FK_OK)
#define XP_SLACK_PUBLIC 0
#define XP_SLACK_UPD 8
#define XP_SLACK_AFD 16
#define XP_SLACK_REG 32
#define XP_SLACK_LEAF 64

/* every harness of the unit calls, in this order: xv_ghost_havoc(); xv_fd_havoc(); xv_epoll_havoc(); xv_xpoll_havoc(); */
int nondet_int(void); long nondet_long(void); _Bool nondet_bool(void); unsigned char nondet_uchar(void);
int xv_afd_refs;           /* ghost (xpoll.c side): references to pool descriptors handed out by active_fd_get and not yet put back */
static inline void xv_xpoll_havoc(void)
{
    xv_g_byte = nondet_uchar(); xv_w = nondet_long(); xv_b = nondet_long();
    xv_g_fd = nondet_int(); xv_g_ev = nondet_int(); xv_g_bfree = nondet_bool(); xv_g_bring = nondet_bool();
    xv_g_i0 = nondet_int(); xv_g_i1 = nondet_int(); xv_g_i2 = nondet_int();
    xv_afd_refs = nondet_int(); xv_bw = nondet_long(); xv_g_bbyte = nondet_uchar(); xv_g_i3 = nondet_int(); xv_g_refs = nondet_int(); xv_g_b0 = nondet_int(); xv_g_b1 = nondet_int();
}


/* ================================================================================================================ */
/* active_fd_get / active_fd_put: ONE contract text, used on both sides.                                              */
/*   XP_AFD   (active_fd.c): enforced on the real bodies; the number of references is the sum of the nodes' cnt.       */
/*   XP_XPOLL (xpoll.c):     the callees are replaced by it; the number of references is the ghost xv_afd_refs.        */
/* "Pool descriptor" = an open eventfd with a non-zero counter (xv_evfd_readable): active_fd.c is the only place in    */
/* the library that calls eventfd(2).                                                                                  */
/* ================================================================================================================ */
/* the rest of the grouped ghost object xv_epg (env/epoll_env.h), which an assigns clause can only name as a whole */
#define XP_EPG_REST_SAME (xv_epfd == __CPROVER_old(xv_epfd) && xv_epcreate_calls == __CPROVER_old(xv_epcreate_calls))
#define XP_EPCTL_RECORD_SAME (xv_epctl_calls == __CPROVER_old(xv_epctl_calls) && xv_epctl_op == __CPROVER_old(xv_epctl_op) && xv_epctl_fd == __CPROVER_old(xv_epctl_fd) && \
                              xv_epctl_ret == __CPROVER_old(xv_epctl_ret) && xv_epctl_errno == __CPROVER_old(xv_epctl_errno))
#define XP_FOR8(P) (P(0) && P(1) && P(2) && P(3) && P(4) && P(5) && P(6) && P(7))
#define XP_FOR8A(P, a) (P(0, a) && P(1, a) && P(2, a) && P(3, a) && P(4, a) && P(5, a) && P(6, a) && P(7, a))
#define XP_POOL_FD(d) (XV_FD_OURS(d) && xv_evfd_readable[d])
/* descriptor-table entry i (descriptor, interest-list entry, eventfd flag) is what it was.  Stated for each of the XV_NFD
 * slots (XP_FOR8), not for a ghost index: the callers need it at descriptors they compute (their epoll instance, ...) */
#define XP_SLOT_SAME(i) (!xv_fdt.e[i].open == !__CPROVER_old(xv_fdt.e[i].open) && !xv_fdt.e[i].nonblock == !__CPROVER_old(xv_fdt.e[i].nonblock) && \
                         !xv_fdt.e[i].seqpacket == !__CPROVER_old(xv_fdt.e[i].seqpacket) && !xv_ep[i].in == !__CPROVER_old(xv_ep[i].in) && \
                         xv_ep[i].mask == __CPROVER_old(xv_ep[i].mask) && !xv_evfd_readable[i] == !__CPROVER_old(xv_evfd_readable[i]))
#define XP_ALL_SLOTS_SAME XP_FOR8(XP_SLOT_SAME)
#define XP_LOCK_ONCE (!xv_lock_held && xv_lock_acqs == __CPROVER_old(xv_lock_acqs) + 1 && xv_lock_rels == __CPROVER_old(xv_lock_rels) + 1)

#define AFD_REQ (XP_RANGE(XP_SLACK_AFD) && !xv_lock_held && XA_REFS_NOW == xv_g_refs && xv_g_refs >= 0 && xv_g_refs < XV_CALLS_MAX)
#define AFD_ASSIGNS xv_errno, XV_EVENTFD_ASSIGNS, XV_CLOSE_ASSIGNS, XV_LOCK_ASSIGNS

/* slot i: if the returned descriptor is i, it either was a pool descriptor already (and nothing about it changed) or the
 * slot was free (a brand-new descriptor, in no interest list) */
#define AFD_GET_SLOT(i) (__CPROVER_return_value == (i) ==> \
        (__CPROVER_old(xv_fdt.e[i].open) ? (__CPROVER_old(xv_evfd_readable[i]) && !xv_ep[i].in == !__CPROVER_old(xv_ep[i].in) && xv_ep[i].mask == __CPROVER_old(xv_ep[i].mask) && \
                                            xv_eventfd_calls == __CPROVER_old(xv_eventfd_calls) && xv_open_cnt == __CPROVER_old(xv_open_cnt)) \
                                         : (!xv_ep[i].in && xv_eventfd_calls == __CPROVER_old(xv_eventfd_calls) + 1 && xv_open_cnt == __CPROVER_old(xv_open_cnt) + 1)))
/* a reference to an always-readable, non-blocking pool descriptor -- or -1 */
/* XP_ASSUME_EVENTFD_OK (job xpoll.update_active_fd_eventfd_ok only, a bounded stand-in): eventfd(2) is assumed not to fail */
#ifdef XP_ASSUME_EVENTFD_OK
#define AFD_GET_M1 0
#else
#define AFD_GET_M1 (__CPROVER_return_value == -1)
#endif
#define AFD_GET_RV (AFD_GET_M1 || (__CPROVER_return_value >= 0 && __CPROVER_return_value < XV_NFD && XP_POOL_FD(__CPROVER_return_value) && \
                    xv_fdt.e[__CPROVER_return_value].nonblock))
/* success: one more reference, errno untouched, at most one new descriptor (and then it is the one returned), nothing closed */
#define AFD_GET_OK (__CPROVER_return_value >= 0 ==> (XA_REFS_NOW == xv_g_refs + 1 && xv_errno == __CPROVER_old(xv_errno) && XP_FOR8(AFD_GET_SLOT) && \
                    xv_open_cnt >= __CPROVER_old(xv_open_cnt) && xv_open_cnt <= __CPROVER_old(xv_open_cnt) + 1 && xv_close_calls == __CPROVER_old(xv_close_calls)))
/* failure: only because eventfd(2) failed; reported as -1 with its errno; nothing acquired, nothing changed, nothing closed */
#define AFD_GET_FAIL (__CPROVER_return_value == -1 ==> (XA_REFS_NOW == xv_g_refs && xv_eventfd_calls == __CPROVER_old(xv_eventfd_calls) + 1 && xv_errno > 0 && \
                      xv_open_cnt == __CPROVER_old(xv_open_cnt) && xv_close_calls == __CPROVER_old(xv_close_calls) && XP_ALL_SLOTS_SAME))
#define AFD_GET_FRAME_SLOT(i) (__CPROVER_return_value != (i) ==> XP_SLOT_SAME(i))
#define AFD_GET_FRAME (XP_EPG_REST_SAME && XP_EPCTL_RECORD_SAME && XP_FOR8(AFD_GET_FRAME_SLOT) && xv_eventfd_calls >= __CPROVER_old(xv_eventfd_calls) && xv_eventfd_calls <= __CPROVER_old(xv_eventfd_calls) + 1)

/* put: the caller holds a reference to pool descriptor fd */
#define AFD_PUT_REQ(fd) (AFD_REQ && xv_g_refs >= 1 && (fd) >= 0 && (fd) < XV_NFD && XP_POOL_FD(fd))
#define AFD_PUT_KEPT (xv_close_calls == __CPROVER_old(xv_close_calls) && xv_open_cnt == __CPROVER_old(xv_open_cnt) && XP_ALL_SLOTS_SAME)
#define AFD_PUT_FRAME_SLOT(i, fd) ((fd) != (i) ==> XP_SLOT_SAME(i))
#define AFD_PUT_CLOSED(fd) (xv_close_calls == __CPROVER_old(xv_close_calls) + 1 && xv_close_fd == (fd) && xv_open_cnt == __CPROVER_old(xv_open_cnt) - 1 && \
                            !xv_fdt.e[fd].open && XP_FOR8A(AFD_PUT_FRAME_SLOT, fd))
/* one reference less; the descriptor is closed -- exactly it, exactly once -- or nothing is; errno survives */
#define AFD_PUT_POST(fd) (XA_REFS_NOW == xv_g_refs - 1 && (AFD_PUT_KEPT || AFD_PUT_CLOSED(fd)) && xv_errno == __CPROVER_old(xv_errno) && \
                          xv_eventfd_calls == __CPROVER_old(xv_eventfd_calls) && XP_EPG_REST_SAME && XP_EPCTL_RECORD_SAME)

/* ================================================================================================================ */
#ifdef XP_XPOLL

#define XP_FRESH(x) __CPROVER_is_fresh((x), sizeof(struct xpoll))
/* ---- representation invariant, fd_regs part --------------------------------------------------------------------- */
#define XP_REGS_RANGE(x) ((x)->fd_regs_capacity >= 0 && (x)->fd_regs_capacity <= XP_CAP_MAX && (x)->num_fd_regs >= 0 && \
                          (x)->num_fd_regs <= (x)->fd_regs_capacity)
#define XP_REGS_MEM(x) (((x)->fd_regs_capacity > 0 ==> __CPROVER_is_fresh((x)->fd_regs, sizeof(struct xpoll_fd_reg) * (size_t)(x)->fd_regs_capacity)) && \
                        ((x)->fd_regs_capacity == 0 ==> (x)->fd_regs == NULL))
#define XP_J_IN(x) (xv_j >= 0 && xv_j < (x)->fd_regs_capacity)
#define XP_W_IN(x) (xv_w >= 0 && xv_w < (x)->fd_regs_capacity)
/* byte xv_keep of fd_regs */
#define XP_RB(x) (((const uint8_t *)(x)->fd_regs)[xv_keep])
#define XP_RB_IN(x) (xv_keep < (size_t)(x)->fd_regs_capacity * sizeof(struct xpoll_fd_reg))
#define XP_RB_BOUND(x) (XP_RB_IN(x) ==> XP_RB(x) == xv_g_byte)
/* slot xv_j bound to the ghost constants */
#define XP_J_BOUND(x) (XP_J_IN(x) ==> ((x)->fd_regs[xv_j].fd == xv_g_fd && (x)->fd_regs[xv_j].event == xv_g_ev))
/* witness: when the table is not full, slot xv_w is free (num_fd_regs counts the used slots, so one exists) */
#define XP_FREE_WITNESS(x) ((x)->num_fd_regs < (x)->fd_regs_capacity ==> (XP_W_IN(x) && (x)->fd_regs[xv_w].fd == -1))
/* descriptor d is in no slot.  Needed at the slot find_fd WOULD return, so a ghost index does not do: a quantifier with
 * CONSTANT bounds, which CBMC expands.  The expansion costs array-theory constraints quadratic in the bound, so contracts
 * that need absence explore capacities up to XP_QCAP only (xpoll_fd_reg_add: 16: 27 s; 64: 51 s; 256: 400 s; 1024: out of memory;
 * update_active_fd: 16: 86 s; 32: 172 s) */
#ifndef XP_QCAP
#define XP_QCAP 16
#endif
#define XP_ABSENT(x, d) ((x)->fd_regs_capacity <= XP_QCAP && \
                         __CPROVER_forall { int q_; (0 <= q_ && q_ < XP_QCAP) ==> (q_ < (x)->fd_regs_capacity ==> (x)->fd_regs[q_].fd != (d)) })

/* ---- the socket's epoll instance and the ghost interest list ------------------------------------------------------ */
#define XP_EPFD_OK(x) ((x)->epoll_fd == xv_epfd && XV_FD_OURS(xv_epfd) && !xv_evfd_readable[xv_epfd])
/* registration (d, ev) agrees with the kernel: d is an open descriptor (not the epoll instance itself) that is in the
 * interest list iff ev != 0, with exactly the mask ev */
/* (_Bool ghosts are compared through `!`: a havocked _Bool may hold any non-zero representation of true) */
#define XP_LIVE(d, ev) (XV_FD_OURS(d) && (d) != xv_epfd && (ev) >= 0 && !xv_ep[d].in == ((ev) == 0) && ((ev) != 0 ==> xv_ep[d].mask == (uint32_t)(ev)))
/* ... or the descriptor was closed before its registration is removed (the kernel has dropped it from the list already;
 * the number may have been handed out again to a descriptor that is in no list): only removal is legal then */
#define XP_GONE(d) (!XV_FD_OURS(d) || ((d) != xv_epfd && !xv_ep[d].in))
/* the kernel holds d with exactly the mask ev; ev == 0: d is not in the interest list at all */
#define XP_KERNEL_HAS(d, ev) (((ev) != 0 ==> (XV_EP_IN(d) && xv_ep[d].mask == (uint32_t)(ev))) && ((ev) == 0 ==> !XV_EP_IN(d)))
/* no other descriptor's entry changed */
#define XP_EP_FK_SAME (!xv_ep[xv_fk].in == !__CPROVER_old(xv_ep[xv_fk].in) && xv_ep[xv_fk].mask == __CPROVER_old(xv_ep[xv_fk].mask))
#define XP_EP_SAME_EXCEPT(d) ((XP_FK_OK && xv_fk != (d)) ==> XP_EP_FK_SAME)
#define XP_EP_SAME (XP_FK_OK ==> XP_EP_FK_SAME)
#define XP_EPCTL_NONE (xv_epctl_calls == __CPROVER_old(xv_epctl_calls))
#define XP_EPCTL_AT_MOST_ONE (xv_epctl_calls >= __CPROVER_old(xv_epctl_calls) && xv_epctl_calls <= __CPROVER_old(xv_epctl_calls) + 1 && XP_EPG_REST_SAME)
#define XP_EPCTL_ONE(op, d) (xv_epctl_calls == __CPROVER_old(xv_epctl_calls) + 1 && xv_epctl_op == (op) && xv_epctl_fd == (d))

/* ---- xpoll_get_fd (C16) ------------------------------------------------------------------------------------------- */
int xpoll_get_fd(struct xpoll *xpoll)
__CPROVER_requires(XP_FRESH(xpoll))
__CPROVER_assigns()
/* PO[C16] xpoll_get_fd.is_the_epoll_instance: the descriptor handed to the application is the epoll instance created with the socket */
__CPROVER_ensures(__CPROVER_return_value == xpoll->epoll_fd)
;

/* ---- find_fd -------------------------------------------------------------------------------------------------------- */
static int find_fd(struct xpoll *xpoll, int fd)
__CPROVER_requires(XP_FRESH(xpoll) && XP_REGS_RANGE(xpoll))
__CPROVER_requires(XP_REGS_MEM(xpoll))
__CPROVER_assigns()
__CPROVER_ensures(__CPROVER_return_value >= -1 && __CPROVER_return_value < xpoll->fd_regs_capacity)
__CPROVER_ensures(__CPROVER_return_value >= 0 ==> xpoll->fd_regs[__CPROVER_return_value].fd == fd)
/* the FIRST such slot */
__CPROVER_ensures((__CPROVER_return_value >= 0 && xv_j >= 0 && xv_j < __CPROVER_return_value) ==> xpoll->fd_regs[xv_j].fd != fd)
/* -1 only if no slot holds fd (for the two arbitrary indices) */
__CPROVER_ensures((__CPROVER_return_value == -1 && XP_J_IN(xpoll)) ==> xpoll->fd_regs[xv_j].fd != fd)
__CPROVER_ensures((__CPROVER_return_value == -1 && XP_W_IN(xpoll)) ==> xpoll->fd_regs[xv_w].fd != fd)
;

/* ---- regs_extend_capacity ------------------------------------------------------------------------------------------- */
static void regs_extend_capacity(struct xpoll *xpoll, int new_capacity)
__CPROVER_requires(XP_FRESH(xpoll) && XP_REGS_RANGE(xpoll) && new_capacity > xpoll->fd_regs_capacity && new_capacity <= XP_NEXT_CAP(XP_CAP_MAX))
__CPROVER_requires(XP_REGS_MEM(xpoll))
__CPROVER_requires(XP_RB_BOUND(xpoll))
__CPROVER_assigns(xpoll->fd_regs, xpoll->fd_regs_capacity)
__CPROVER_assigns(xpoll->fd_regs_capacity > 0: __CPROVER_object_whole(xpoll->fd_regs))
__CPROVER_frees(xpoll->fd_regs)
__CPROVER_ensures(xpoll->fd_regs_capacity == new_capacity)
/* every old slot keeps its content (byte xv_keep, for every xv_keep) */
__CPROVER_ensures(xv_keep < (size_t)__CPROVER_old(xpoll->fd_regs_capacity) * sizeof(struct xpoll_fd_reg) ==> XP_RB(xpoll) == xv_g_byte)
/* every new slot is free (arbitrary index; and, by name, the first new one -- the slot allocate_fd_reg_idx hands out) */
__CPROVER_ensures((xv_j >= __CPROVER_old(xpoll->fd_regs_capacity) && xv_j < new_capacity) ==> xpoll->fd_regs[xv_j].fd == -1)
__CPROVER_ensures(xpoll->fd_regs[__CPROVER_old(xpoll->fd_regs_capacity)].fd == -1)
;

/* ---- allocate_fd_reg_idx -------------------------------------------------------------------------------------------- */
#define XP_GROWS(x) ((x)->num_fd_regs == (x)->fd_regs_capacity)
static int allocate_fd_reg_idx(struct xpoll *xpoll)
__CPROVER_requires(XP_FRESH(xpoll) && XP_REGS_RANGE(xpoll))
__CPROVER_requires(XP_REGS_MEM(xpoll))
__CPROVER_requires(XP_FREE_WITNESS(xpoll) && XP_RB_BOUND(xpoll))
__CPROVER_requires(xpoll->fd_regs_capacity == xv_g_i0 && xpoll->num_fd_regs == xv_g_i1)
/* the array pointer and the capacity change ONLY when the table is full (conditional targets: a pointer that a replaced
 * call havocs and the ensures clause merely equates with its old value is not dereferenceable for CBMC) */
__CPROVER_assigns(xpoll->num_fd_regs)
__CPROVER_assigns(xpoll->num_fd_regs == xpoll->fd_regs_capacity: xpoll->fd_regs, xpoll->fd_regs_capacity)
__CPROVER_frees(xpoll->num_fd_regs == xpoll->fd_regs_capacity: xpoll->fd_regs)
__CPROVER_ensures(xpoll->num_fd_regs == xv_g_i1 + 1 && xpoll->num_fd_regs <= xpoll->fd_regs_capacity)
/* the table grows only when it is full, and then to (capacity + 1) * 2: a fresh array; otherwise the array stays where it is */
__CPROVER_ensures(xpoll->fd_regs_capacity == (xv_g_i1 == xv_g_i0 ? XP_NEXT_CAP(xv_g_i0) : xv_g_i0))
__CPROVER_ensures((xv_g_i1 == xv_g_i0 ==> __CPROVER_is_fresh(xpoll->fd_regs, sizeof(struct xpoll_fd_reg) * (size_t)xpoll->fd_regs_capacity)) && \
                  (xv_g_i1 != xv_g_i0 ==> xpoll->fd_regs == __CPROVER_old(xpoll->fd_regs)))
/* the slot handed out is inside the table and free; when the table grew it is the first new slot */
__CPROVER_ensures(__CPROVER_return_value >= 0 && __CPROVER_return_value < xpoll->fd_regs_capacity && xpoll->fd_regs[__CPROVER_return_value].fd == -1)
__CPROVER_ensures(xv_g_i1 == xv_g_i0 ==> __CPROVER_return_value == xv_g_i0)
/* nothing of the old content is touched; the new slots are free */
__CPROVER_ensures(xv_keep < (size_t)xv_g_i0 * sizeof(struct xpoll_fd_reg) ==> XP_RB(xpoll) == xv_g_byte)
__CPROVER_ensures((xv_j >= xv_g_i0 && xv_j < xpoll->fd_regs_capacity) ==> xpoll->fd_regs[xv_j].fd == -1)
;

/* ---- reg_epoll_mod: bring the kernel's entry for reg->fd from mask reg->event to mask new_event ---------------------- */
static void reg_epoll_mod(struct xpoll *xpoll, struct xpoll_fd_reg *reg, int new_event)
__CPROVER_requires(XP_FRESH(xpoll) && __CPROVER_is_fresh(reg, sizeof(struct xpoll_fd_reg)))
__CPROVER_requires(XP_RANGE(XP_SLACK_LEAF) && XP_EPFD_OK(xpoll) && new_event >= 0 && reg->event >= 0 && reg->fd >= 0)
__CPROVER_requires(XP_LIVE(reg->fd, reg->event) || (new_event == 0 && XP_GONE(reg->fd)))
__CPROVER_assigns(reg->event, XV_EPCTL_ASSIGNS)
/* PO[C04,C16] reg_epoll_mod.kernel_mask_exact: afterwards the interest list holds the descriptor with EXACTLY the requested mask; mask 0 = not in the list */
__CPROVER_ensures(XP_KERNEL_HAS(reg->fd, new_event))
/* PO[C16] reg_epoll_mod.others_untouched: no other descriptor's entry changes */
__CPROVER_ensures(XP_EP_SAME_EXCEPT(reg->fd))
__CPROVER_ensures(reg->event == new_event)
/* one epoll_ctl with the right operation, none when the mask does not change */
__CPROVER_ensures(__CPROVER_old(reg->event) == new_event ==> XP_EPCTL_NONE)
__CPROVER_ensures((__CPROVER_old(reg->event) == 0 && new_event != 0) ==> XP_EPCTL_ONE(EPOLL_CTL_ADD, reg->fd))
__CPROVER_ensures((__CPROVER_old(reg->event) != 0 && new_event != 0 && __CPROVER_old(reg->event) != new_event) ==> XP_EPCTL_ONE(EPOLL_CTL_MOD, reg->fd))
__CPROVER_ensures((__CPROVER_old(reg->event) != 0 && new_event == 0) ==> XP_EPCTL_ONE(EPOLL_CTL_DEL, reg->fd))
/* errno survives (also the tolerated EBADF/ENOENT of a removal) */
__CPROVER_ensures(xv_errno == __CPROVER_old(xv_errno) && XP_EPCTL_AT_MOST_ONE)
;

/* ---- xpoll_fd_reg_add ------------------------------------------------------------------------------------------------ */
/* Caller obligations (the code asserts the first two): fd >= 0; fd is not registered yet; fd is an open descriptor that is
 * not yet in the interest list (kernel list is a subset of the registrations -- C16).                                      */
int xpoll_fd_reg_add(struct xpoll *xpoll, int fd, int event)
__CPROVER_requires(XP_FRESH(xpoll) && XP_REGS_RANGE(xpoll))
__CPROVER_requires(XP_REGS_MEM(xpoll))
/* caller obligation, checked by the code with ut_assert (abort): a valid descriptor */
__CPROVER_requires(fd >= 0)
__CPROVER_requires(XP_RANGE(XP_SLACK_REG) && XP_EPFD_OK(xpoll) && event >= 0 && XP_LIVE(fd, 0))
__CPROVER_requires(XP_ABSENT(xpoll, fd))
__CPROVER_requires(XP_FREE_WITNESS(xpoll) && XP_RB_BOUND(xpoll) && XP_J_BOUND(xpoll))
__CPROVER_requires(xpoll->fd_regs_capacity == xv_g_i0 && xpoll->num_fd_regs == xv_g_i1)
__CPROVER_assigns(xpoll->num_fd_regs, XV_EPCTL_ASSIGNS)
__CPROVER_assigns(xpoll->num_fd_regs == xpoll->fd_regs_capacity: xpoll->fd_regs, xpoll->fd_regs_capacity)
__CPROVER_assigns(xpoll->num_fd_regs < xpoll->fd_regs_capacity: __CPROVER_object_whole(xpoll->fd_regs))
__CPROVER_frees(xpoll->num_fd_regs == xpoll->fd_regs_capacity: xpoll->fd_regs)
/* growth only when the table is full: then a fresh array of (capacity + 1) * 2 slots, else the array stays where it is
 * (FIRST among the ensures clauses: a replaced call must have a valid array before the clauses below talk about its slots) */
__CPROVER_ensures(xpoll->fd_regs_capacity == (xv_g_i1 == xv_g_i0 ? XP_NEXT_CAP(xv_g_i0) : xv_g_i0))
__CPROVER_ensures((xv_g_i1 == xv_g_i0 ==> __CPROVER_is_fresh(xpoll->fd_regs, sizeof(struct xpoll_fd_reg) * (size_t)xpoll->fd_regs_capacity)) && \
                  (xv_g_i1 != xv_g_i0 ==> xpoll->fd_regs == __CPROVER_old(xpoll->fd_regs)))
/* the registration: id inside the table, slot holds (fd, event), one more registration */
__CPROVER_ensures(__CPROVER_return_value >= 0 && __CPROVER_return_value < xpoll->fd_regs_capacity)
__CPROVER_ensures(xpoll->fd_regs[__CPROVER_return_value].fd == fd && xpoll->fd_regs[__CPROVER_return_value].event == event)
__CPROVER_ensures(xpoll->num_fd_regs == xv_g_i1 + 1 && xpoll->num_fd_regs <= xpoll->fd_regs_capacity)
/* PO[C04,C16] xpoll_fd_reg_add.kernel_mask_exact: the kernel watches fd for exactly `event`; event 0: fd is not in the interest list */
__CPROVER_ensures(XP_KERNEL_HAS(fd, event))
/* PO[C16] xpoll_fd_reg_add.others_untouched: no other descriptor's kernel entry changes */
__CPROVER_ensures(XP_EP_SAME_EXCEPT(fd))
/* PO[C04] xpoll_fd_reg_add.other_slots_untouched: the slot used was free (or is new); every other old slot keeps its content, every other new slot is free */
__CPROVER_ensures((xv_j >= 0 && xv_j < xv_g_i0 && xv_j == __CPROVER_return_value) ==> xv_g_fd == -1)
__CPROVER_ensures((xv_keep < (size_t)xv_g_i0 * sizeof(struct xpoll_fd_reg) && !(xv_keep >= (size_t)__CPROVER_return_value * sizeof(struct xpoll_fd_reg) && xv_keep < ((size_t)__CPROVER_return_value + 1) * sizeof(struct xpoll_fd_reg))) ==> XP_RB(xpoll) == xv_g_byte)
__CPROVER_ensures((xv_j >= xv_g_i0 && xv_j < xpoll->fd_regs_capacity && xv_j != __CPROVER_return_value) ==> xpoll->fd_regs[xv_j].fd == -1)
/* PO[C16] xpoll_fd_reg_add.fd_stable: the socket's descriptor is not replaced */
__CPROVER_ensures(xpoll->epoll_fd == __CPROVER_old(xpoll->epoll_fd))
__CPROVER_ensures(xv_errno == __CPROVER_old(xv_errno) && XP_EPCTL_AT_MOST_ONE)
;

/* ---- xpoll_fd_reg_mod / del / del_if_valid --------------------------------------------------------------------------- */
/* Caller obligations (asserted by get_fd_reg): reg_idx names a slot in use. */
#define XP_IDX_USED(x, i) ((i) >= 0 && (i) < (x)->fd_regs_capacity && (x)->fd_regs[i].fd >= 0 && (x)->fd_regs[i].event >= 0)
#define XP_SLOT_J_UNCHANGED(x) (XP_J_IN(x) ==> ((x)->fd_regs[xv_j].fd == __CPROVER_old((x)->fd_regs[xv_j].fd) && (x)->fd_regs[xv_j].event == __CPROVER_old((x)->fd_regs[xv_j].event)))
void xpoll_fd_reg_mod(struct xpoll *xpoll, int reg_idx, int new_event)
__CPROVER_requires(XP_FRESH(xpoll) && XP_REGS_RANGE(xpoll))
__CPROVER_requires(XP_REGS_MEM(xpoll))
__CPROVER_requires(XP_RANGE(XP_SLACK_REG) && XP_EPFD_OK(xpoll) && new_event >= 0 && XP_IDX_USED(xpoll, reg_idx))
__CPROVER_requires(XP_LIVE(xpoll->fd_regs[reg_idx].fd, xpoll->fd_regs[reg_idx].event) || (new_event == 0 && XP_GONE(xpoll->fd_regs[reg_idx].fd)))
__CPROVER_assigns(xpoll->fd_regs[reg_idx].event, XV_EPCTL_ASSIGNS)
/* PO[C04,C16] xpoll_fd_reg_mod.kernel_mask_exact: the kernel watches the registered descriptor for exactly `new_event`; 0: not in the interest list */
__CPROVER_ensures(XP_KERNEL_HAS(xpoll->fd_regs[reg_idx].fd, new_event))
/* PO[C16] xpoll_fd_reg_mod.others_untouched */
__CPROVER_ensures(XP_EP_SAME_EXCEPT(xpoll->fd_regs[reg_idx].fd))
__CPROVER_ensures(xpoll->fd_regs[reg_idx].event == new_event && xpoll->fd_regs[reg_idx].fd == __CPROVER_old(xpoll->fd_regs[reg_idx].fd))
/* PO[C04] xpoll_fd_reg_mod.other_slots_untouched */
__CPROVER_ensures(xv_j != reg_idx ==> XP_SLOT_J_UNCHANGED(xpoll))
__CPROVER_ensures(__CPROVER_old(xpoll->fd_regs[reg_idx].event) == new_event ==> XP_EPCTL_NONE)
/* PO[C16] xpoll_fd_reg_mod.fd_stable */
__CPROVER_ensures(xpoll->epoll_fd == __CPROVER_old(xpoll->epoll_fd))
__CPROVER_ensures(xv_errno == __CPROVER_old(xv_errno) && XP_EPCTL_AT_MOST_ONE)
;

#define XP_DEL_REQUIRES(x, i) (XP_RANGE(XP_SLACK_REG) && XP_EPFD_OK(x) && XP_IDX_USED(x, i) && (x)->num_fd_regs >= 1 && (x)->fd_regs[i].fd == xv_g_i2 && \
                               (XP_LIVE((x)->fd_regs[i].fd, (x)->fd_regs[i].event) || XP_GONE((x)->fd_regs[i].fd)))
/* the slot is free again, one registration less, the descriptor (xv_g_i2) is in the interest list no more */
#define XP_DEL_DONE(x, i) ((x)->fd_regs[i].fd == -1 && (x)->num_fd_regs == __CPROVER_old((x)->num_fd_regs) - 1 && !XV_EP_IN(xv_g_i2))
void xpoll_fd_reg_del(struct xpoll *xpoll, int reg_idx)
__CPROVER_requires(XP_FRESH(xpoll) && XP_REGS_RANGE(xpoll))
__CPROVER_requires(XP_REGS_MEM(xpoll))
__CPROVER_requires(XP_DEL_REQUIRES(xpoll, reg_idx))
__CPROVER_assigns(xpoll->fd_regs[reg_idx].event, xpoll->fd_regs[reg_idx].fd, xpoll->num_fd_regs, XV_EPCTL_ASSIGNS)
/* PO[C08,C16] xpoll_fd_reg_del.removed: slot free, count down by one, descriptor gone from the interest list (also when it had been closed before: EBADF/ENOENT tolerated) */
__CPROVER_ensures(XP_DEL_DONE(xpoll, reg_idx))
/* PO[C16] xpoll_fd_reg_del.others_untouched */
__CPROVER_ensures(XP_EP_SAME_EXCEPT(xv_g_i2))
/* PO[C04] xpoll_fd_reg_del.other_slots_untouched */
__CPROVER_ensures(xv_j != reg_idx ==> XP_SLOT_J_UNCHANGED(xpoll))
/* PO[C16] xpoll_fd_reg_del.fd_stable */
__CPROVER_ensures(xpoll->epoll_fd == __CPROVER_old(xpoll->epoll_fd))
/* PO[C08] xpoll_fd_reg_del.errno_survives: used on error paths of the transports: the reported errno is not clobbered */
__CPROVER_ensures(xv_errno == __CPROVER_old(xv_errno) && XP_EPCTL_AT_MOST_ONE)
;

void xpoll_fd_reg_del_if_valid(struct xpoll *xpoll, int reg_id)
__CPROVER_requires(reg_id >= 0 ==> (XP_FRESH(xpoll) && XP_REGS_RANGE(xpoll)))
__CPROVER_requires(reg_id >= 0 ==> XP_REGS_MEM(xpoll))
__CPROVER_requires(XP_RANGE(XP_SLACK_REG) && (reg_id >= 0 ==> XP_DEL_REQUIRES(xpoll, reg_id)))
__CPROVER_assigns(reg_id >= 0: xpoll->fd_regs[reg_id].event, xpoll->fd_regs[reg_id].fd, xpoll->num_fd_regs, XV_EPCTL_ASSIGNS)
/* PO[C08,C16] xpoll_fd_reg_del_if_valid.removed */
__CPROVER_ensures(reg_id >= 0 ==> (XP_DEL_DONE(xpoll, reg_id) && XP_EP_SAME_EXCEPT(xv_g_i2)))
/* PO[C08] xpoll_fd_reg_del_if_valid.invalid_is_noop: a negative id touches nothing (no epoll_ctl, interest list as it was) */
__CPROVER_ensures(reg_id < 0 ==> (XP_EPCTL_NONE && XP_EP_SAME))
__CPROVER_ensures((reg_id >= 0 && xv_j != reg_id) ==> XP_SLOT_J_UNCHANGED(xpoll))
__CPROVER_ensures(xv_errno == __CPROVER_old(xv_errno) && XP_EPCTL_AT_MOST_ONE)
;


/* ================================================================================================================ */
/* bells                                                                                                              */
/* ================================================================================================================ */
#define XA_REFS_NOW xv_afd_refs
int active_fd_get(void)
__CPROVER_requires(AFD_REQ)
__CPROVER_assigns(AFD_ASSIGNS, xv_afd_refs)
__CPROVER_ensures(AFD_GET_RV)
__CPROVER_ensures(AFD_GET_OK)
__CPROVER_ensures(AFD_GET_FAIL)
__CPROVER_ensures(AFD_GET_FRAME)
__CPROVER_ensures(XP_LOCK_ONCE)
;
void active_fd_put(int fd)
__CPROVER_requires(AFD_PUT_REQ(fd))
__CPROVER_assigns(AFD_ASSIGNS, xv_afd_refs)
__CPROVER_ensures(AFD_PUT_POST(fd))
__CPROVER_ensures(XP_LOCK_ONCE)
;

#define XP_BELLS_RANGE(x) ((x)->bell_regs_capacity >= 0 && (x)->bell_regs_capacity <= XP_CAP_MAX && (x)->num_bell_regs >= 0 && \
                           (x)->num_bell_regs <= (x)->bell_regs_capacity)
#define XP_BELLS_MEM(x) (((x)->bell_regs_capacity > 0 ==> __CPROVER_is_fresh((x)->bell_regs, sizeof(struct xpoll_bell_reg) * (size_t)(x)->bell_regs_capacity)) && \
                         ((x)->bell_regs_capacity == 0 ==> (x)->bell_regs == NULL))
#define XP_B_IN(x) (xv_b >= 0 && xv_b < (x)->bell_regs_capacity)
#define XP_BW_IN(x) (xv_bw >= 0 && xv_bw < (x)->bell_regs_capacity)
#define XP_BB(x) (((const uint8_t *)(x)->bell_regs)[xv_keep])
#define XP_BB_IN(x) (xv_keep < (size_t)(x)->bell_regs_capacity * sizeof(struct xpoll_bell_reg))
/* (the two members are _Bool: a byte the code has written is 0 or 1; CBMC normalises any other representation on a
 * byte-wise copy, so the preserved byte is taken to be a proper _Bool) */
#define XP_BB_BOUND(x) (xv_g_bbyte <= 1 && (XP_BB_IN(x) ==> XP_BB(x) == xv_g_bbyte))
#define XP_B_BOUND(x) (XP_B_IN(x) ==> ((x)->bell_regs[xv_b].free == xv_g_bfree && (x)->bell_regs[xv_b].ringing == xv_g_bring))
#define XP_BELL_RINGS(x, i) (!(x)->bell_regs[i].free && (x)->bell_regs[i].ringing)
/* witness: when the table is not full, bell slot xv_bw is free */
#define XP_BFREE_WITNESS(x) ((x)->num_bell_regs < (x)->bell_regs_capacity ==> (XP_BW_IN(x) && (x)->bell_regs[xv_bw].free))
/* num_bell_regs counts the bells in use: none in use, every slot free (slot xv_b) */
#define XP_B_NONE_IF_ZERO(x) (((x)->num_bell_regs == 0 && XP_B_IN(x)) ==> (x)->bell_regs[xv_b].free)
/* "some bell rings": an existential, so again a constant-bound quantifier (bell tables up to XP_QCAP slots where it is used) */
#define XP_SOME_BELL_RINGS(x) __CPROVER_exists { int q_; (0 <= q_ && q_ < XP_QCAP) && (q_ < (x)->bell_regs_capacity && XP_BELL_RINGS(x, q_)) }

static void bell_regs_extend_capacity(struct xpoll *xpoll, int new_capacity)
__CPROVER_requires(XP_FRESH(xpoll) && XP_BELLS_RANGE(xpoll) && new_capacity > xpoll->bell_regs_capacity && new_capacity <= XP_NEXT_CAP(XP_CAP_MAX))
__CPROVER_requires(XP_BELLS_MEM(xpoll))
__CPROVER_requires(XP_BB_BOUND(xpoll))
__CPROVER_assigns(xpoll->bell_regs, xpoll->bell_regs_capacity)
__CPROVER_assigns(xpoll->bell_regs_capacity > 0: __CPROVER_object_whole(xpoll->bell_regs))
__CPROVER_frees(xpoll->bell_regs)
__CPROVER_ensures(xpoll->bell_regs_capacity == new_capacity)
__CPROVER_ensures(xv_keep < (size_t)__CPROVER_old(xpoll->bell_regs_capacity) * sizeof(struct xpoll_bell_reg) ==> XP_BB(xpoll) == xv_g_bbyte)
__CPROVER_ensures((xv_b >= __CPROVER_old(xpoll->bell_regs_capacity) && xv_b < new_capacity) ==> xpoll->bell_regs[xv_b].free)
__CPROVER_ensures(xpoll->bell_regs[__CPROVER_old(xpoll->bell_regs_capacity)].free)
;

static int find_free_bell_reg_idx(struct xpoll *xpoll)
__CPROVER_requires(XP_FRESH(xpoll) && XP_BELLS_RANGE(xpoll))
__CPROVER_requires(XP_BELLS_MEM(xpoll))
__CPROVER_assigns()
__CPROVER_ensures(__CPROVER_return_value >= -1 && __CPROVER_return_value < xpoll->bell_regs_capacity)
__CPROVER_ensures(__CPROVER_return_value >= 0 ==> xpoll->bell_regs[__CPROVER_return_value].free)
__CPROVER_ensures((__CPROVER_return_value >= 0 && xv_b >= 0 && xv_b < __CPROVER_return_value) ==> !xpoll->bell_regs[xv_b].free)
__CPROVER_ensures((__CPROVER_return_value == -1 && XP_B_IN(xpoll)) ==> !xpoll->bell_regs[xv_b].free)
__CPROVER_ensures((__CPROVER_return_value == -1 && XP_BW_IN(xpoll)) ==> !xpoll->bell_regs[xv_bw].free)
;

static bool has_ringing_bell(struct xpoll *xpoll)
__CPROVER_requires(XP_FRESH(xpoll) && XP_BELLS_RANGE(xpoll) && xpoll->bell_regs_capacity <= XP_QCAP)
__CPROVER_requires(XP_BELLS_MEM(xpoll))
__CPROVER_assigns()
/* PO[C04] has_ringing_bell.no_ringing_bell_missed: false only if no bell in use rings (arbitrary slot xv_b) */
__CPROVER_ensures((!__CPROVER_return_value && XP_B_IN(xpoll)) ==> !XP_BELL_RINGS(xpoll, xv_b))
/* PO[C16] has_ringing_bell.true_only_if_one_rings: true only if some bell in use rings */
__CPROVER_ensures(__CPROVER_return_value ==> XP_SOME_BELL_RINGS(xpoll))
;

#define XP_BGROWS(x) ((x)->num_bell_regs == (x)->bell_regs_capacity)
static int allocate_bell_reg_idx(struct xpoll *xpoll)
__CPROVER_requires(XP_FRESH(xpoll) && XP_BELLS_RANGE(xpoll))
__CPROVER_requires(XP_BELLS_MEM(xpoll))
__CPROVER_requires(XP_BFREE_WITNESS(xpoll) && XP_BB_BOUND(xpoll) && XP_B_BOUND(xpoll))
__CPROVER_requires(xpoll->bell_regs_capacity == xv_g_b0 && xpoll->num_bell_regs == xv_g_b1)
__CPROVER_assigns(xpoll->num_bell_regs)
__CPROVER_assigns(XP_BGROWS(xpoll): xpoll->bell_regs, xpoll->bell_regs_capacity)
__CPROVER_assigns(xpoll->num_bell_regs < xpoll->bell_regs_capacity: __CPROVER_object_whole(xpoll->bell_regs))
__CPROVER_frees(XP_BGROWS(xpoll): xpoll->bell_regs)
__CPROVER_ensures(xpoll->num_bell_regs == xv_g_b1 + 1 && xpoll->num_bell_regs <= xpoll->bell_regs_capacity)
__CPROVER_ensures(xpoll->bell_regs_capacity == (xv_g_b1 == xv_g_b0 ? XP_NEXT_CAP(xv_g_b0) : xv_g_b0))
__CPROVER_ensures((xv_g_b1 == xv_g_b0 ==> __CPROVER_is_fresh(xpoll->bell_regs, sizeof(struct xpoll_bell_reg) * (size_t)xpoll->bell_regs_capacity)) && \
                  (xv_g_b1 != xv_g_b0 ==> xpoll->bell_regs == __CPROVER_old(xpoll->bell_regs)))
/* the slot handed out is inside the table and marked in use; it was free (or is the first new one) */
__CPROVER_ensures(__CPROVER_return_value >= 0 && __CPROVER_return_value < xpoll->bell_regs_capacity && !xpoll->bell_regs[__CPROVER_return_value].free)
__CPROVER_ensures(xv_g_b1 == xv_g_b0 ==> __CPROVER_return_value == xv_g_b0)
__CPROVER_ensures((xv_b >= 0 && xv_b < xv_g_b0 && xv_b == __CPROVER_return_value) ==> xv_g_bfree)
/* every other old byte is what it was (the `free` flag of the slot is byte 0 of its 2 bytes); the other new slots are free */
__CPROVER_ensures((xv_keep < (size_t)xv_g_b0 * sizeof(struct xpoll_bell_reg) && xv_keep != (size_t)__CPROVER_return_value * sizeof(struct xpoll_bell_reg)) ==> XP_BB(xpoll) == xv_g_bbyte)
__CPROVER_ensures((xv_b >= xv_g_b0 && xv_b < xpoll->bell_regs_capacity && xv_b != __CPROVER_return_value) ==> xpoll->bell_regs[xv_b].free)
;


/* ---- update_active_fd (C04, C16, C08) --------------------------------------------------------------------------------- */
#define XP_AFD_ID_OK(x) (XP_IDX_USED(x, (x)->active_fd_reg_id) && (x)->fd_regs[(x)->active_fd_reg_id].fd == (x)->active_fd)
/* no reference: both fields -1 (xpoll_create).  Otherwise the xpoll holds one reference to pool descriptor active_fd, registered
 * in slot active_fd_reg_id, kernel entry in step */
#define XP_AFD_INV(x) (((x)->active_fd < 0 ==> ((x)->active_fd == -1 && (x)->active_fd_reg_id == -1)) && XP_AFD_HELD(x))
#define XP_AFD_HELD(x) ((x)->active_fd >= 0 ==> ((x)->active_fd < XV_NFD && XP_POOL_FD((x)->active_fd) && XP_AFD_ID_OK(x) && \
                       XP_LIVE((x)->active_fd, (x)->fd_regs[(x)->active_fd_reg_id].event) && (x)->num_fd_regs >= 1 && xv_afd_refs >= 1))
/* while it holds none: every registered descriptor is an open descriptor that is not an eventfd (so neither a pool
 * descriptor nor a number eventfd(2) could hand out), and no pool descriptor is in this instance's interest list */
#define XP_REGS_NOT_POOL(x) __CPROVER_forall { int q_; (0 <= q_ && q_ < XP_QCAP) ==> ((q_ < (x)->fd_regs_capacity && (x)->fd_regs[q_].fd >= 0) ==> \
                            ((x)->fd_regs[q_].fd < XV_NFD && xv_fdt.e[(x)->fd_regs[q_].fd].open && !xv_evfd_readable[(x)->fd_regs[q_].fd])) }
#define XP_POOL_NOT_WATCHED(i) (XP_POOL_FD(i) ==> !xv_ep[i].in)
#define XP_AFD_NONE(x) ((x)->active_fd < 0 ==> ((x)->fd_regs_capacity <= XP_QCAP && XP_REGS_NOT_POOL(x) && XP_FOR8(XP_POOL_NOT_WATCHED)))
/* a reference is held iff there are bells (holds between the public calls) */
#define XP_AFD_IFF_BELLS(x) (((x)->num_bell_regs == 0 ==> ((x)->active_fd == -1 && (x)->active_fd_reg_id == -1)) && ((x)->num_bell_regs > 0 ==> (x)->active_fd >= 0))
#define XP_ACQUIRES(x) ((x)->num_bell_regs > 0 && (x)->active_fd < 0)
#define XP_ACQUIRED(x) ((x)->num_bell_regs > 0 && xv_g_i2 < 0)
#define XP_RELEASED(x) ((x)->num_bell_regs == 0 && xv_g_i2 >= 0)
#define XP_UPD_SHAPE(x) (XP_FRESH(x) && XP_REGS_RANGE(x) && XP_BELLS_RANGE(x) && (x)->bell_regs_capacity <= XP_QCAP)
/* ghost constants: capacity, count, active fd and its slot at entry; references at entry; slot xv_j / byte xv_keep at entry */
#define XP_UPD_BINDINGS(x) ((x)->fd_regs_capacity == xv_g_i0 && (x)->num_fd_regs == xv_g_i1 && (x)->active_fd == xv_g_i2 && (x)->active_fd_reg_id == xv_g_i3 && \
                            XP_RB_BOUND(x) && XP_J_BOUND(x))
#define XP_UPD_REQUIRES(x) (XP_RANGE(XP_SLACK_UPD) && XP_EPFD_OK(x) && AFD_REQ && XP_AFD_INV(x) && XP_FREE_WITNESS(x) && XP_UPD_BINDINGS(x) && XP_B_NONE_IF_ZERO(x))
#define XP_UPD_ASSIGNS(x) (x)->active_fd, (x)->active_fd_reg_id, (x)->num_fd_regs, XV_EPCTL_ASSIGNS, AFD_ASSIGNS, xv_afd_refs
#define XP_UPD_GROWS(x) (XP_ACQUIRES(x) && XP_GROWS(x))
/* C04: a bell in use that rings (arbitrary slot xv_b) => the always-readable pool descriptor is watched for EPOLLIN */
#define XP_RINGING_WAKES(x) ((XP_B_IN(x) && XP_BELL_RINGS(x, xv_b)) ==> ((x)->active_fd >= 0 && XP_POOL_FD((x)->active_fd) && XP_KERNEL_HAS((x)->active_fd, EPOLLIN)))
/* C16: the pool descriptor is in the interest list only while some bell rings, and only for EPOLLIN */
#define XP_QUIET_UNLESS_RINGING(x) (((x)->active_fd >= 0 && XV_EP_IN((x)->active_fd)) ==> (XP_SOME_BELL_RINGS(x) && xv_ep[(x)->active_fd].mask == (uint32_t)EPOLLIN))
/* the registration table after an update: grown iff a reference was acquired while the table was full */
#define XP_UPD_REGS_MEM(x) ((x)->fd_regs_capacity == ((XP_ACQUIRED(x) && xv_g_i1 == xv_g_i0) ? XP_NEXT_CAP(xv_g_i0) : xv_g_i0) && \
        ((XP_ACQUIRED(x) && xv_g_i1 == xv_g_i0) ==> __CPROVER_is_fresh((x)->fd_regs, sizeof(struct xpoll_fd_reg) * (size_t)(x)->fd_regs_capacity)) && \
        (!(XP_ACQUIRED(x) && xv_g_i1 == xv_g_i0) ==> (x)->fd_regs == __CPROVER_old((x)->fd_regs)))
#define XP_IN_SLOT(off, i) ((off) >= (size_t)(i) * sizeof(struct xpoll_fd_reg) && (off) < ((size_t)(i) + 1) * sizeof(struct xpoll_fd_reg))
static void update_active_fd(struct xpoll *xpoll)
__CPROVER_requires(XP_UPD_SHAPE(xpoll))
__CPROVER_requires(XP_REGS_MEM(xpoll))
__CPROVER_requires(XP_BELLS_MEM(xpoll))
__CPROVER_requires(XP_UPD_REQUIRES(xpoll))
__CPROVER_requires(XP_AFD_NONE(xpoll))
__CPROVER_assigns(XP_UPD_ASSIGNS(xpoll))
__CPROVER_assigns(XP_UPD_GROWS(xpoll): xpoll->fd_regs, xpoll->fd_regs_capacity)
__CPROVER_assigns(xpoll->fd_regs_capacity > 0: __CPROVER_object_whole(xpoll->fd_regs))
__CPROVER_frees(XP_UPD_GROWS(xpoll): xpoll->fd_regs)
__CPROVER_ensures(XP_AFD_IFF_BELLS(xpoll))
__CPROVER_ensures(XP_UPD_REGS_MEM(xpoll))
__CPROVER_ensures(XP_AFD_INV(xpoll))
/* PO[C04] update_active_fd.ringing_bell_wakes: some bell rings => the always-readable descriptor is registered with EPOLLIN (the socket's descriptor is readable) */
__CPROVER_ensures(XP_RINGING_WAKES(xpoll))
/* PO[C16] update_active_fd.quiet_unless_ringing: it is in the interest list ONLY if some bell rings (no bell ringing => not registered at all) */
__CPROVER_ensures(XP_QUIET_UNLESS_RINGING(xpoll))
/* PO[C08,C16] update_active_fd.released_with_last_bell: no bells left => registration removed, kernel entry gone, reference put back */
__CPROVER_ensures(XP_RELEASED(xpoll) ==> (!XV_EP_IN(xv_g_i2) && xv_afd_refs == xv_g_refs - 1 && xpoll->num_fd_regs == xv_g_i1 - 1 && xpoll->fd_regs[xv_g_i3].fd == -1))
/* PO[C08] update_active_fd.one_reference: first bell => exactly one reference and one registration acquired; otherwise none acquired, none released, no descriptor made or closed */
__CPROVER_ensures(XP_ACQUIRED(xpoll) ==> (xv_afd_refs == xv_g_refs + 1 && xpoll->num_fd_regs == xv_g_i1 + 1))
__CPROVER_ensures((!XP_ACQUIRED(xpoll) && !XP_RELEASED(xpoll)) ==> (xv_afd_refs == xv_g_refs && xpoll->num_fd_regs == xv_g_i1 && xpoll->active_fd == xv_g_i2 && xpoll->active_fd_reg_id == xv_g_i3 && \
                  xv_eventfd_calls == __CPROVER_old(xv_eventfd_calls) && xv_close_calls == __CPROVER_old(xv_close_calls) && xv_lock_acqs == __CPROVER_old(xv_lock_acqs)))
/* PO[C16] update_active_fd.others_untouched: kernel entries of all other descriptors are what they were */
__CPROVER_ensures((XP_FK_OK && xv_fk != xv_g_i2 && xv_fk != xpoll->active_fd) ==> XP_EP_FK_SAME)
/* PO[C04] update_active_fd.other_slots_untouched: registrations other than the active fd's keep their content */
__CPROVER_ensures((xv_keep < (size_t)xv_g_i0 * sizeof(struct xpoll_fd_reg) && !(xv_g_i2 >= 0 && XP_IN_SLOT(xv_keep, xv_g_i3)) && \
                   !(xpoll->active_fd >= 0 && XP_IN_SLOT(xv_keep, xpoll->active_fd_reg_id))) ==> XP_RB(xpoll) == xv_g_byte)
/* PO[C16] update_active_fd.fd_stable */
__CPROVER_ensures(xpoll->epoll_fd == __CPROVER_old(xpoll->epoll_fd))
/* PO[C04] update_active_fd.errno_survives: called from every transport's update step, which must not disturb the result of the operation */
__CPROVER_ensures(xv_errno == __CPROVER_old(xv_errno))
__CPROVER_ensures(!xv_lock_held)
;


/* ---- the public bell operations (C04, C16, C08) ------------------------------------------------------------------------ */
/* state between public calls: everything update_active_fd needs, counters below XV_CALLS_MAX, and "reference held iff bells" */
#define XP_PUB_SHAPE(x) (XP_FRESH(x) && XP_REGS_RANGE(x) && XP_BELLS_RANGE(x) && (x)->bell_regs_capacity <= XP_QCAP)
#define XP_PUB_REQUIRES(x) (XP_RANGE(XP_SLACK_PUBLIC) && XP_EPFD_OK(x) && AFD_REQ && XP_AFD_INV(x) && XP_FREE_WITNESS(x) && XP_UPD_BINDINGS(x) && XP_AFD_IFF_BELLS(x) && \
                            (x)->bell_regs_capacity == xv_g_b0 && (x)->num_bell_regs == xv_g_b1 && XP_BB_BOUND(x) && XP_B_BOUND(x))
/* what every bell operation re-establishes and guarantees */
#define XP_PUB_ENSURES(x) (XP_AFD_IFF_BELLS(x) && XP_AFD_INV(x) && !xv_lock_held)
#define XP_BELL_IDX_USED(x, i) ((i) >= 0 && (i) < (x)->bell_regs_capacity && !(x)->bell_regs[i].free)
#define XP_NO_REF_CHANGE(x) (xv_afd_refs == xv_g_refs && (x)->num_fd_regs == xv_g_i1 && (x)->active_fd == xv_g_i2 && (x)->active_fd_reg_id == xv_g_i3 && \
                             xv_eventfd_calls == __CPROVER_old(xv_eventfd_calls) && xv_close_calls == __CPROVER_old(xv_close_calls))

int xpoll_bell_reg_add(struct xpoll *xpoll, bool ringing)
__CPROVER_requires(XP_PUB_SHAPE(xpoll) && (XP_BGROWS(xpoll) ==> XP_NEXT_CAP(xpoll->bell_regs_capacity) <= XP_QCAP))
__CPROVER_requires(XP_REGS_MEM(xpoll))
__CPROVER_requires(XP_BELLS_MEM(xpoll))
__CPROVER_requires(XP_PUB_REQUIRES(xpoll) && XP_BFREE_WITNESS(xpoll))
__CPROVER_requires(XP_AFD_NONE(xpoll))
__CPROVER_assigns(xpoll->num_bell_regs, XP_UPD_ASSIGNS(xpoll))
__CPROVER_assigns(XP_BGROWS(xpoll): xpoll->bell_regs, xpoll->bell_regs_capacity)
__CPROVER_assigns(xpoll->num_bell_regs < xpoll->bell_regs_capacity: __CPROVER_object_whole(xpoll->bell_regs))
__CPROVER_frees(XP_BGROWS(xpoll): xpoll->bell_regs)
__CPROVER_assigns((xpoll->active_fd < 0 && XP_GROWS(xpoll)): xpoll->fd_regs, xpoll->fd_regs_capacity)
__CPROVER_assigns(xpoll->fd_regs_capacity > 0: __CPROVER_object_whole(xpoll->fd_regs))
__CPROVER_frees((xpoll->active_fd < 0 && XP_GROWS(xpoll)): xpoll->fd_regs)
/* the two tables after the call (first: the clauses below talk about their slots) */
__CPROVER_ensures(xpoll->bell_regs_capacity == (xv_g_b1 == xv_g_b0 ? XP_NEXT_CAP(xv_g_b0) : xv_g_b0))
__CPROVER_ensures((xv_g_b1 == xv_g_b0 ==> __CPROVER_is_fresh(xpoll->bell_regs, sizeof(struct xpoll_bell_reg) * (size_t)xpoll->bell_regs_capacity)) && \
                  (xv_g_b1 != xv_g_b0 ==> xpoll->bell_regs == __CPROVER_old(xpoll->bell_regs)))
__CPROVER_ensures(XP_UPD_REGS_MEM(xpoll))
/* the new bell: a slot in use with the requested state; one more bell */
__CPROVER_ensures(XP_BELL_IDX_USED(xpoll, __CPROVER_return_value) && !xpoll->bell_regs[__CPROVER_return_value].ringing == !ringing && xpoll->num_bell_regs == xv_g_b1 + 1)
__CPROVER_ensures(XP_PUB_ENSURES(xpoll))
/* PO[C04] xpoll_bell_reg_add.ringing_bell_wakes: some bell rings (the new one included) => the always-readable descriptor is registered with EPOLLIN */
__CPROVER_ensures(XP_RINGING_WAKES(xpoll))
/* PO[C16] xpoll_bell_reg_add.quiet_unless_ringing */
__CPROVER_ensures(XP_QUIET_UNLESS_RINGING(xpoll))
/* PO[C04] xpoll_bell_reg_add.other_bells_untouched: the slot used was free (or is new); every other bell keeps its state */
__CPROVER_ensures((xv_b >= 0 && xv_b < xv_g_b0 && xv_b == __CPROVER_return_value) ==> xv_g_bfree)
__CPROVER_ensures((xv_keep < (size_t)xv_g_b0 * sizeof(struct xpoll_bell_reg) && !(xv_keep >= (size_t)__CPROVER_return_value * sizeof(struct xpoll_bell_reg) && \
                   xv_keep < ((size_t)__CPROVER_return_value + 1) * sizeof(struct xpoll_bell_reg))) ==> XP_BB(xpoll) == xv_g_bbyte)
/* PO[C08] xpoll_bell_reg_add.one_reference: the first bell acquires exactly one reference to a pool descriptor, later ones none */
__CPROVER_ensures(xv_g_i2 < 0 ? (xv_afd_refs == xv_g_refs + 1 && xpoll->num_fd_regs == xv_g_i1 + 1) : XP_NO_REF_CHANGE(xpoll))
/* PO[C16] xpoll_bell_reg_add.others_untouched */
__CPROVER_ensures((XP_FK_OK && xv_fk != xpoll->active_fd) ==> XP_EP_FK_SAME)
/* PO[C16] xpoll_bell_reg_add.fd_stable */
__CPROVER_ensures(xpoll->epoll_fd == __CPROVER_old(xpoll->epoll_fd))
/* PO[C04] xpoll_bell_reg_add.errno_survives */
__CPROVER_ensures(xv_errno == __CPROVER_old(xv_errno))
;

void xpoll_bell_reg_mod(struct xpoll *xpoll, int reg_idx, bool ringing)
__CPROVER_requires(XP_PUB_SHAPE(xpoll))
__CPROVER_requires(XP_REGS_MEM(xpoll))
__CPROVER_requires(XP_BELLS_MEM(xpoll))
/* caller obligation (asserted by get_bell_reg): reg_idx names a bell in use; hence there is at least one */
__CPROVER_requires(XP_PUB_REQUIRES(xpoll) && XP_BELL_IDX_USED(xpoll, reg_idx) && xpoll->num_bell_regs >= 1)
/* bells and interest list agree on entry (what every bell operation ensures): needed when the call changes nothing */
__CPROVER_requires(XP_RINGING_WAKES(xpoll) && XP_QUIET_UNLESS_RINGING(xpoll))
__CPROVER_assigns(xpoll->bell_regs[reg_idx].ringing, XP_UPD_ASSIGNS(xpoll))
__CPROVER_assigns(xpoll->fd_regs_capacity > 0: __CPROVER_object_whole(xpoll->fd_regs))
__CPROVER_ensures(!xpoll->bell_regs[reg_idx].ringing == !ringing && !xpoll->bell_regs[reg_idx].free)
__CPROVER_ensures(XP_PUB_ENSURES(xpoll))
/* PO[C04] xpoll_bell_reg_mod.ringing_bell_wakes */
__CPROVER_ensures(XP_RINGING_WAKES(xpoll))
/* PO[C16] xpoll_bell_reg_mod.quiet_unless_ringing */
__CPROVER_ensures(XP_QUIET_UNLESS_RINGING(xpoll))
/* PO[C04] xpoll_bell_reg_mod.other_bells_untouched */
__CPROVER_ensures((XP_B_IN(xpoll) && xv_b != reg_idx) ==> (!xpoll->bell_regs[xv_b].free == !xv_g_bfree && !xpoll->bell_regs[xv_b].ringing == !xv_g_bring))
/* PO[C08] xpoll_bell_reg_mod.no_reference_change: no reference acquired or released, no descriptor made or closed, tables as big as before */
__CPROVER_ensures(XP_NO_REF_CHANGE(xpoll) && xpoll->num_bell_regs == xv_g_b1 && xpoll->fd_regs_capacity == xv_g_i0 && xpoll->fd_regs == __CPROVER_old(xpoll->fd_regs))
/* PO[C16] xpoll_bell_reg_mod.others_untouched */
__CPROVER_ensures((XP_FK_OK && xv_fk != xpoll->active_fd) ==> XP_EP_FK_SAME)
/* PO[C16] xpoll_bell_reg_mod.fd_stable */
__CPROVER_ensures(xpoll->epoll_fd == __CPROVER_old(xpoll->epoll_fd))
/* PO[C04] xpoll_bell_reg_mod.errno_survives */
__CPROVER_ensures(xv_errno == __CPROVER_old(xv_errno))
;

/* if this is the last bell, every other slot is free (num_bell_regs counts the bells in use; slot xv_b) */
#define XP_LAST_BELL_ALONE(x, i) (((x)->num_bell_regs == 1 && XP_B_IN(x) && xv_b != (i)) ==> (x)->bell_regs[xv_b].free)
#define XP_BELL_DEL_REQUIRES(x, i) (XP_PUB_REQUIRES(x) && XP_BELL_IDX_USED(x, i) && (x)->num_bell_regs >= 1 && XP_LAST_BELL_ALONE(x, i))
/* the slot is free, one bell less; with the last bell the pool reference and its registration go */
#define XP_BELL_DEL_DONE(x, i) ((x)->bell_regs[i].free && (x)->num_bell_regs == xv_g_b1 - 1 && \
        (xv_g_b1 == 1 ? (!XV_EP_IN(xv_g_i2) && xv_afd_refs == xv_g_refs - 1 && (x)->num_fd_regs == xv_g_i1 - 1 && (x)->fd_regs[xv_g_i3].fd == -1) : XP_NO_REF_CHANGE(x)) && \
        (x)->fd_regs_capacity == xv_g_i0 && (x)->fd_regs == __CPROVER_old((x)->fd_regs))
void xpoll_bell_reg_del(struct xpoll *xpoll, int reg_idx)
__CPROVER_requires(XP_PUB_SHAPE(xpoll))
__CPROVER_requires(XP_REGS_MEM(xpoll))
__CPROVER_requires(XP_BELLS_MEM(xpoll))
__CPROVER_requires(XP_BELL_DEL_REQUIRES(xpoll, reg_idx))
__CPROVER_assigns(xpoll->bell_regs[reg_idx].free, xpoll->num_bell_regs, XP_UPD_ASSIGNS(xpoll))
__CPROVER_assigns(xpoll->fd_regs_capacity > 0: __CPROVER_object_whole(xpoll->fd_regs))
/* PO[C08] xpoll_bell_reg_del.released_with_last_bell: slot free, count down; the last bell takes the pool reference, its registration and its kernel entry with it */
__CPROVER_ensures(XP_BELL_DEL_DONE(xpoll, reg_idx))
__CPROVER_ensures(XP_PUB_ENSURES(xpoll))
/* PO[C04] xpoll_bell_reg_del.ringing_bell_wakes: the remaining ringing bells still wake */
__CPROVER_ensures(XP_RINGING_WAKES(xpoll))
/* PO[C16] xpoll_bell_reg_del.quiet_unless_ringing: the deleted bell no longer does */
__CPROVER_ensures(XP_QUIET_UNLESS_RINGING(xpoll))
/* PO[C04] xpoll_bell_reg_del.other_bells_untouched */
__CPROVER_ensures((XP_B_IN(xpoll) && xv_b != reg_idx) ==> (!xpoll->bell_regs[xv_b].free == !xv_g_bfree && !xpoll->bell_regs[xv_b].ringing == !xv_g_bring))
/* PO[C16] xpoll_bell_reg_del.others_untouched */
__CPROVER_ensures((XP_FK_OK && xv_fk != xv_g_i2) ==> XP_EP_FK_SAME)
/* PO[C16] xpoll_bell_reg_del.fd_stable */
__CPROVER_ensures(xpoll->epoll_fd == __CPROVER_old(xpoll->epoll_fd))
/* PO[C08] xpoll_bell_reg_del.errno_survives: used on the error paths of the transports */
__CPROVER_ensures(xv_errno == __CPROVER_old(xv_errno))
;

void xpoll_bell_reg_del_if_valid(struct xpoll *xpoll, int reg_id)
__CPROVER_requires(reg_id >= 0 ==> XP_PUB_SHAPE(xpoll))
__CPROVER_requires(reg_id >= 0 ==> XP_REGS_MEM(xpoll))
__CPROVER_requires(reg_id >= 0 ==> XP_BELLS_MEM(xpoll))
__CPROVER_requires(XP_RANGE(XP_SLACK_PUBLIC) && (reg_id >= 0 ==> XP_BELL_DEL_REQUIRES(xpoll, reg_id)))
__CPROVER_assigns(reg_id >= 0: xpoll->bell_regs[reg_id].free, xpoll->num_bell_regs, XP_UPD_ASSIGNS(xpoll))
__CPROVER_assigns((reg_id >= 0 && xpoll->fd_regs_capacity > 0): __CPROVER_object_whole(xpoll->fd_regs))
/* PO[C08] xpoll_bell_reg_del_if_valid.released_with_last_bell */
__CPROVER_ensures(reg_id >= 0 ==> (XP_BELL_DEL_DONE(xpoll, reg_id) && XP_PUB_ENSURES(xpoll)))
/* PO[C04,C16] xpoll_bell_reg_del_if_valid.bells_and_kernel_agree */
__CPROVER_ensures(reg_id >= 0 ==> (XP_RINGING_WAKES(xpoll) && XP_QUIET_UNLESS_RINGING(xpoll)))
/* PO[C08] xpoll_bell_reg_del_if_valid.invalid_is_noop: a negative id touches nothing */
__CPROVER_ensures(reg_id < 0 ==> (XP_EPCTL_NONE && XP_EP_SAME && xv_close_calls == __CPROVER_old(xv_close_calls) && xv_eventfd_calls == __CPROVER_old(xv_eventfd_calls)))
__CPROVER_ensures(xv_errno == __CPROVER_old(xv_errno))
;

/* ---- xpoll_create / xpoll_destroy (C08, C16) ---------------------------------------------------------------------------- */
#define XP_CREATE_SLOT(i) (xv_epfd == (i) ? (!__CPROVER_old(xv_fdt.e[i].open) && xv_fdt.e[i].open) : \
                           (!xv_fdt.e[i].open == !__CPROVER_old(xv_fdt.e[i].open) && !xv_fdt.e[i].nonblock == !__CPROVER_old(xv_fdt.e[i].nonblock) && \
                            !xv_fdt.e[i].seqpacket == !__CPROVER_old(xv_fdt.e[i].seqpacket) && !xv_evfd_readable[i] == !__CPROVER_old(xv_evfd_readable[i])))
#define XP_FDT_SLOT_SAME(i) (!xv_fdt.e[i].open == !__CPROVER_old(xv_fdt.e[i].open) && !xv_fdt.e[i].nonblock == !__CPROVER_old(xv_fdt.e[i].nonblock) && \
                             !xv_fdt.e[i].seqpacket == !__CPROVER_old(xv_fdt.e[i].seqpacket))
#define XP_EP_EMPTY_SLOT(i) (!xv_ep[i].in)
struct xpoll *xpoll_create(void *log_ref)
__CPROVER_requires(XP_RANGE(XP_SLACK_PUBLIC))
__CPROVER_assigns(XV_EPCREATE_ASSIGNS)
/* exactly one attempt to make an epoll instance */
__CPROVER_ensures(xv_epcreate_calls == __CPROVER_old(xv_epcreate_calls) + 1)
/* PO[C08] xpoll_create.failure_reported_nothing_leaked: epoll_create1 fails (EMFILE, ENFILE, ENOMEM ...) => NULL with its errno, no descriptor more than before, table untouched, no abort */
__CPROVER_ensures(__CPROVER_return_value == NULL ==> (xv_errno > 0 && xv_open_cnt == __CPROVER_old(xv_open_cnt) && XP_FOR8(XP_FDT_SLOT_SAME)))
/* PO[C08] xpoll_create.success_one_descriptor: exactly one new descriptor -- the epoll instance, recorded in the object; empty tables; no pool reference */
__CPROVER_ensures(__CPROVER_return_value != NULL ==> (__CPROVER_is_fresh(__CPROVER_return_value, sizeof(struct xpoll)) && \
        __CPROVER_return_value->epoll_fd == xv_epfd && XV_FD_OURS(xv_epfd) && !xv_evfd_readable[xv_epfd] && xv_open_cnt == __CPROVER_old(xv_open_cnt) + 1 && XP_FOR8(XP_CREATE_SLOT) && \
        __CPROVER_return_value->fd_regs == NULL && __CPROVER_return_value->fd_regs_capacity == 0 && __CPROVER_return_value->num_fd_regs == 0 && \
        __CPROVER_return_value->bell_regs == NULL && __CPROVER_return_value->bell_regs_capacity == 0 && __CPROVER_return_value->num_bell_regs == 0 && \
        __CPROVER_return_value->active_fd == -1 && __CPROVER_return_value->active_fd_reg_id == -1 && __CPROVER_return_value->log_ref == log_ref && \
        xv_errno == __CPROVER_old(xv_errno)))
/* PO[C16] xpoll_create.interest_list_empty: nothing makes the new descriptor readable yet */
__CPROVER_ensures(__CPROVER_return_value != NULL ==> XP_FOR8(XP_EP_EMPTY_SLOT))
;

#define XP_DESTROY_SLOT(i) (((i) != xv_g_i0 && (i) != xv_g_i2) ==> XP_SLOT_SAME(i))
void xpoll_destroy(struct xpoll *xpoll)
__CPROVER_requires(xpoll != NULL ==> (XP_FRESH(xpoll) && XP_REGS_RANGE(xpoll) && XP_BELLS_RANGE(xpoll)))
__CPROVER_requires(xpoll != NULL ==> XP_REGS_MEM(xpoll))
__CPROVER_requires(xpoll != NULL ==> XP_BELLS_MEM(xpoll))
__CPROVER_requires(XP_RANGE(XP_SLACK_PUBLIC) && AFD_REQ && (xpoll != NULL ==> (XP_EPFD_OK(xpoll) && XP_AFD_INV(xpoll) && xpoll->epoll_fd == xv_g_i0 && xpoll->active_fd == xv_g_i2 && \
                   xv_open_cnt >= (xpoll->active_fd >= 0 ? 2 : 1))))   /* xv_open_cnt counts the open descriptors: at least these */
__CPROVER_assigns(xpoll != NULL: AFD_ASSIGNS, xv_afd_refs)
__CPROVER_frees(xpoll != NULL: xpoll, xpoll->fd_regs, xpoll->bell_regs)
/* PO[C08] xpoll_destroy.closes_the_epoll_instance: the epoll descriptor is closed; apart from it only the pool descriptor may be (by active_fd_put, when this was its last user) */
__CPROVER_ensures(xpoll != NULL ==> (!xv_fdt.e[xv_g_i0].open && XP_FOR8(XP_DESTROY_SLOT) && \
        xv_close_calls >= __CPROVER_old(xv_close_calls) + 1 && xv_close_calls <= __CPROVER_old(xv_close_calls) + (xv_g_i2 >= 0 ? 2 : 1) && \
        xv_open_cnt == __CPROVER_old(xv_open_cnt) - (xv_close_calls - __CPROVER_old(xv_close_calls))))
/* PO[C08] xpoll_destroy.releases_the_pool_reference: exactly the one reference held, if any */
__CPROVER_ensures(xpoll != NULL ==> xv_afd_refs == xv_g_refs - (xv_g_i2 >= 0 ? 1 : 0))
/* PO[C08] xpoll_destroy.frees_everything: the object and both tables */
__CPROVER_ensures(xpoll != NULL ==> (__CPROVER_was_freed(xpoll) && (__CPROVER_old(xpoll->fd_regs) != NULL ==> __CPROVER_was_freed(__CPROVER_old(xpoll->fd_regs))) && \
        (__CPROVER_old(xpoll->bell_regs) != NULL ==> __CPROVER_was_freed(__CPROVER_old(xpoll->bell_regs)))))
/* PO[C08] xpoll_destroy.null_is_noop */
__CPROVER_ensures(xpoll == NULL ==> (xv_close_calls == __CPROVER_old(xv_close_calls) && xv_open_cnt == __CPROVER_old(xv_open_cnt) && xv_afd_refs == xv_g_refs && XP_ALL_SLOTS_SAME))
/* PO[C08] xpoll_destroy.errno_survives: called on the error paths of xcm_connect/xcm_server/xcm_accept */
__CPROVER_ensures(xv_errno == __CPROVER_old(xv_errno))
;

#endif /* XP_XPOLL */


/* ================================================================================================================ */
/* active_fd.c (C08, C15, C04).  bounded: the process-wide list holds at most 2 nodes on entry (ghost xv_g_n);        */
/* the user counts are arbitrary within their invariant 1..MAX_USERS_PER_FD.                                          */
/* ================================================================================================================ */
#ifdef XP_AFD
int xv_g_n;                      /* ghost constant: number of list nodes at entry (0..2) */
int xv_g_c0, xv_g_c1, xv_g_f0, xv_g_f1;   /* ghost constants: cnt / fd of the first and second node at entry */
struct xv_afd_snap nondet_xv_afd_snap(void);
static inline void xv_afd_havoc(void)
{
    xv_g_n = nondet_int(); xv_g_c0 = nondet_int(); xv_g_c1 = nondet_int(); xv_g_f0 = nondet_int(); xv_g_f1 = nondet_int();
    xv_sh_l = nondet_xv_afd_snap(); xv_sh_u = nondet_xv_afd_snap();
}
#define AH (active_fds.lh_first)
#define AN1 (active_fds.lh_first->elem.le_next)
#define AFD_NSZ sizeof(struct active_fd)
#define AFD_C(p) ((p) != NULL ? (p)->cnt : 0)
#define AFD_NX(p) ((p) != NULL ? (p)->elem.le_next : (struct active_fd *)NULL)
/* the references handed out = the sum of the user counts (up to 3 nodes: 2 on entry, one more after a creation) */
#define XA_REFS_NOW (AFD_C(AH) + AFD_C(AFD_NX(AH)) + AFD_C(AFD_NX(AFD_NX(AH))))
/* a well-formed BSD list of xv_g_n nodes.  The nodes are NOT made by __CPROVER_is_fresh: le_prev points into the list head /
 * into the previous node, and a pointer that is merely assumed equal to such an address is not dereferenceable for CBMC
 * (LIST_REMOVE writes through it).  The harness builds the list with malloc (xv_afd_make_list, harness/xpoll/_unit_afd.h);
 * this predicate states what it built. */
#define AFD_SHAPE ((xv_g_n >= 0 && xv_g_n <= 2) && (xv_g_n == 0 ==> AH == NULL) && \
        (xv_g_n >= 1 ==> (AH != NULL && AH->elem.le_prev == &active_fds.lh_first)) && \
        (xv_g_n == 1 ==> AH->elem.le_next == NULL) && \
        (xv_g_n == 2 ==> (AN1 != NULL && AN1 != AH && AN1->elem.le_prev == &AH->elem.le_next && AN1->elem.le_next == NULL)))
/* module invariant of a node: 1..MAX_USERS_PER_FD users; its descriptor is an open, non-blocking, readable eventfd */
#define AFD_NODE_OK(p) ((p)->cnt >= 1 && (p)->cnt <= MAX_USERS_PER_FD && (p)->fd >= 0 && (p)->fd < XV_NFD && XP_POOL_FD((p)->fd) && xv_fdt.e[(p)->fd].nonblock)
#define AFD_NODES_OK ((xv_g_n >= 1 ==> (AFD_NODE_OK(AH) && AH->cnt == xv_g_c0 && AH->fd == xv_g_f0)) && \
                      (xv_g_n == 2 ==> (AFD_NODE_OK(AN1) && AN1->cnt == xv_g_c1 && AN1->fd == xv_g_f1 && xv_g_f0 != xv_g_f1)))
/* the pool descriptors are exactly the descriptors of the nodes (active_fd.c is the only caller of eventfd(2)) */
#define AFD_REP_SLOT(i) (XP_POOL_FD(i) ==> ((xv_g_n >= 1 && xv_g_f0 == (i)) || (xv_g_n == 2 && xv_g_f1 == (i))))
#define AFD_INV_IN (AFD_NODES_OK && XP_FOR8(AFD_REP_SLOT))
/* C15 */
#define AFD_LOCK_DISCIPLINE (XP_LOCK_ONCE && xv_lock_obj == &active_fd_lock)
#define AFD_SNAP_IS(s, h, a, b) ((s).head == (h) && (s).c0 == (a) && (s).c1 == (b))
#define AFD_NO_WRITE_BEFORE_LOCK (xv_sh_l.head == __CPROVER_old(active_fds.lh_first) && (xv_g_n >= 1 ==> (xv_sh_l.c0 == xv_g_c0 && xv_sh_l.f0 == xv_g_f0)) && \
                                  (xv_g_n == 2 ==> (xv_sh_l.c1 == xv_g_c1 && xv_sh_l.f1 == xv_g_f1)))
#define AFD_NO_WRITE_AFTER_UNLOCK (xv_sh_u.head == AH && (AH != NULL ==> (xv_sh_u.c0 == AH->cnt && xv_sh_u.f0 == AH->fd)) && \
                                   ((AH != NULL && AH->elem.le_next != NULL) ==> (xv_sh_u.c1 == AH->elem.le_next->cnt && xv_sh_u.f1 == AH->elem.le_next->fd)))
#define AFD_SNAP_ASSIGNS __CPROVER_object_whole(&xv_sh_l), __CPROVER_object_whole(&xv_sh_u)

/* which case active_fd_get is in, from the entry state */
#define AFD_TAKES0 (xv_g_n >= 1 && xv_g_c0 < MAX_USERS_PER_FD)
#define AFD_TAKES1 (!AFD_TAKES0 && xv_g_n == 2 && xv_g_c1 < MAX_USERS_PER_FD)
#define AFD_CREATES (!AFD_TAKES0 && !AFD_TAKES1)
int active_fd_get(void)
__CPROVER_requires(AFD_SHAPE)
__CPROVER_requires(AFD_REQ && AFD_INV_IN)
__CPROVER_assigns(AFD_ASSIGNS, AFD_SNAP_ASSIGNS, active_fds.lh_first)
__CPROVER_assigns(xv_g_n >= 1: AH->cnt, AH->elem.le_prev)
__CPROVER_assigns(xv_g_n == 2: AN1->cnt)
/* ---- the contract xpoll.c relies on (same text as on the XP_XPOLL side) */
__CPROVER_ensures(AFD_GET_RV)
/* PO[C08] active_fd_get.success_one_reference: a reference to an always-readable pool descriptor; at most one new descriptor, and then it is the one returned */
__CPROVER_ensures(AFD_GET_OK)
/* PO[C08] active_fd_get.eventfd_failure_reported: eventfd(2) failing (EMFILE, ENFILE, ENOMEM ...) => -1 with its errno, no abort, nothing acquired, nothing leaked, nothing changed */
__CPROVER_ensures(AFD_GET_FAIL)
__CPROVER_ensures(AFD_GET_FRAME)
/* PO[C15] active_fd_get.lock_once: the lock is taken exactly once and released on every path */
__CPROVER_ensures(AFD_LOCK_DISCIPLINE)
/* ---- the list */
/* PO[C08] active_fd_get.shares_before_creating: a node with room (fewer than MAX_USERS_PER_FD users) is shared -- the first such; only if there is none a descriptor is created */
__CPROVER_ensures(AFD_TAKES0 ==> (__CPROVER_return_value == xv_g_f0 && AH == __CPROVER_old(active_fds.lh_first) && AH->cnt == xv_g_c0 + 1 && (xv_g_n == 2 ==> AN1->cnt == xv_g_c1) && \
                                  xv_eventfd_calls == __CPROVER_old(xv_eventfd_calls)))
__CPROVER_ensures(AFD_TAKES1 ==> (__CPROVER_return_value == xv_g_f1 && AH == __CPROVER_old(active_fds.lh_first) && AH->cnt == xv_g_c0 && AN1->cnt == xv_g_c1 + 1 && \
                                  xv_eventfd_calls == __CPROVER_old(xv_eventfd_calls)))
/* PO[C08,C04] active_fd_get.created_node: a new node at the head: 1 user, the new descriptor, made with a NON-ZERO counter (readable for ever: nothing reads it) and non-blocking; old nodes as they were, linked behind */
__CPROVER_ensures((AFD_CREATES && __CPROVER_return_value >= 0) ==> (__CPROVER_is_fresh(AH, AFD_NSZ) && AH->cnt == 1 && AH->fd == __CPROVER_return_value && \
        AH->elem.le_prev == &active_fds.lh_first && AH->elem.le_next == __CPROVER_old(active_fds.lh_first) && xv_eventfd_init == 1 && xv_eventfd_flags == EFD_NONBLOCK && \
        (xv_g_n >= 1 ==> (AN1->cnt == xv_g_c0 && AN1->fd == xv_g_f0 && AN1->elem.le_prev == &AH->elem.le_next)) && \
        (xv_g_n == 2 ==> (AN1->elem.le_next->cnt == xv_g_c1 && AN1->elem.le_next->fd == xv_g_f1))))
__CPROVER_ensures((AFD_CREATES && __CPROVER_return_value == -1) ==> (AH == __CPROVER_old(active_fds.lh_first) && (xv_g_n >= 1 ==> AH->cnt == xv_g_c0) && (xv_g_n == 2 ==> AN1->cnt == xv_g_c1)))
__CPROVER_ensures(AFD_CREATES ==> xv_eventfd_calls == __CPROVER_old(xv_eventfd_calls) + 1)
/* PO[C08] active_fd_get.cnt_invariant: every node still has 1..MAX_USERS_PER_FD users */
__CPROVER_ensures(AH != NULL ==> (AH->cnt >= 1 && AH->cnt <= MAX_USERS_PER_FD && (AH->elem.le_next != NULL ==> (AH->elem.le_next->cnt >= 1 && AH->elem.le_next->cnt <= MAX_USERS_PER_FD))))
/* PO[C15] active_fd_get.writes_only_under_lock: the shared list is as on entry when the lock is taken, and is not written after the lock is released */
__CPROVER_ensures(AFD_NO_WRITE_BEFORE_LOCK && AFD_NO_WRITE_AFTER_UNLOCK)
;

/* put: fd is the descriptor of one of the nodes (follows from AFD_PUT_REQ and the invariant) */
#define AFD_PUT0(fd) (xv_g_n >= 1 && xv_g_f0 == (fd))
#define AFD_PUT1(fd) (xv_g_n == 2 && xv_g_f1 == (fd))
void active_fd_put(int fd)
__CPROVER_requires(AFD_SHAPE)
__CPROVER_requires(AFD_PUT_REQ(fd) && AFD_INV_IN && xv_open_cnt >= 1)
__CPROVER_assigns(AFD_ASSIGNS, AFD_SNAP_ASSIGNS, active_fds.lh_first)
__CPROVER_assigns(xv_g_n >= 1: AH->cnt, AH->elem.le_next, AH->elem.le_prev)
__CPROVER_assigns(xv_g_n == 2: AN1->cnt, AN1->elem.le_prev)
__CPROVER_frees(xv_g_n >= 1: AH)
__CPROVER_frees(xv_g_n == 2: AN1)
/* ---- the contract xpoll.c relies on */
/* PO[C08] active_fd_put.one_reference_less: one reference less; the descriptor is closed (exactly it, exactly once) or nothing is; errno survives */
__CPROVER_ensures(AFD_PUT_POST(fd))
/* PO[C15] active_fd_put.lock_once */
__CPROVER_ensures(AFD_LOCK_DISCIPLINE)
/* ---- the list */
/* PO[C08] active_fd_put.last_user_closes: the node loses one user; with the last one it leaves the list, its descriptor is closed and the node freed; otherwise nothing is closed */
__CPROVER_ensures((AFD_PUT0(fd) && xv_g_c0 > 1) ==> (AFD_PUT_KEPT && AH == __CPROVER_old(active_fds.lh_first) && AH->cnt == xv_g_c0 - 1 && (xv_g_n == 2 ==> AN1->cnt == xv_g_c1)))
__CPROVER_ensures((AFD_PUT1(fd) && xv_g_c1 > 1) ==> (AFD_PUT_KEPT && AH == __CPROVER_old(active_fds.lh_first) && AH->cnt == xv_g_c0 && AN1->cnt == xv_g_c1 - 1))
__CPROVER_ensures((AFD_PUT0(fd) && xv_g_c0 == 1) ==> (AFD_PUT_CLOSED(fd) && __CPROVER_was_freed(__CPROVER_old(active_fds.lh_first)) && \
        (xv_g_n == 1 ? AH == NULL : (AH == __CPROVER_old(active_fds.lh_first->elem.le_next) && AH->elem.le_prev == &active_fds.lh_first && AH->elem.le_next == NULL && AH->cnt == xv_g_c1 && AH->fd == xv_g_f1))))
__CPROVER_ensures((AFD_PUT1(fd) && xv_g_c1 == 1) ==> (AFD_PUT_CLOSED(fd) && __CPROVER_was_freed(__CPROVER_old(active_fds.lh_first->elem.le_next)) && \
        AH == __CPROVER_old(active_fds.lh_first) && AH->elem.le_next == NULL && AH->cnt == xv_g_c0 && AH->fd == xv_g_f0))
/* PO[C15] active_fd_put.writes_only_under_lock */
__CPROVER_ensures(AFD_NO_WRITE_BEFORE_LOCK && AFD_NO_WRITE_AFTER_UNLOCK)
;

/* ---- the two helpers, proved on their own under "lock held" (they neither take nor release it).  They are INLINED in job
 * xpoll.afd_get: a replaced fd_create would hand back a node whose address the contract can only equate with the list
 * head, and such a pointer is not dereferenceable for CBMC. */
static struct active_fd *fd_retrieve(void)
__CPROVER_requires(AFD_SHAPE)
__CPROVER_requires(xv_lock_held && AFD_NODES_OK)
__CPROVER_assigns(xv_g_n >= 1: AH->cnt)
__CPROVER_assigns(xv_g_n == 2: AN1->cnt)
/* PO[C08] fd_retrieve.first_node_with_room: the first node with fewer than MAX_USERS_PER_FD users gets one more; NULL iff every node is full; nothing else changes */
__CPROVER_ensures(AFD_TAKES0 ==> (__CPROVER_return_value == AH && AH->cnt == xv_g_c0 + 1 && (xv_g_n == 2 ==> AN1->cnt == xv_g_c1)))
__CPROVER_ensures(AFD_TAKES1 ==> (__CPROVER_return_value == AN1 && AH->cnt == xv_g_c0 && AN1->cnt == xv_g_c1 + 1))
__CPROVER_ensures(AFD_CREATES ==> (__CPROVER_return_value == NULL && (xv_g_n >= 1 ==> AH->cnt == xv_g_c0) && (xv_g_n == 2 ==> AN1->cnt == xv_g_c1)))
/* PO[C15] fd_retrieve.lock_untouched */
__CPROVER_ensures(xv_lock_held)
;
static struct active_fd *fd_create(void)
__CPROVER_requires(AFD_SHAPE)
__CPROVER_requires(xv_lock_held && XP_RANGE(XP_SLACK_LEAF) && AFD_NODES_OK)
__CPROVER_assigns(XV_EVENTFD_ASSIGNS, active_fds.lh_first)
__CPROVER_assigns(xv_g_n >= 1: AH->elem.le_prev)
/* PO[C08] fd_create.eventfd_failure_reported: eventfd(2) fails => NULL with its errno; no node, no descriptor, list untouched, no abort */
__CPROVER_ensures(__CPROVER_return_value == NULL ==> (xv_errno > 0 && AH == __CPROVER_old(active_fds.lh_first) && xv_open_cnt == __CPROVER_old(xv_open_cnt) && XP_ALL_SLOTS_SAME))
/* PO[C08,C04] fd_create.new_head: one new non-blocking eventfd with a NON-ZERO counter (always readable), owned by a new head node with 1 user; old nodes linked behind, untouched */
__CPROVER_ensures(__CPROVER_return_value != NULL ==> (__CPROVER_is_fresh(__CPROVER_return_value, AFD_NSZ) && AH == __CPROVER_return_value && AH->cnt == 1 && \
        AH->fd >= 0 && AH->fd < XV_NFD && XP_POOL_FD(AH->fd) && xv_fdt.e[AH->fd].nonblock && !xv_ep[AH->fd].in && xv_eventfd_init == 1 && xv_eventfd_flags == EFD_NONBLOCK && \
        AH->elem.le_prev == &active_fds.lh_first && AH->elem.le_next == __CPROVER_old(active_fds.lh_first) && xv_open_cnt == __CPROVER_old(xv_open_cnt) + 1 && \
        xv_errno == __CPROVER_old(xv_errno)))
__CPROVER_ensures(xv_eventfd_calls == __CPROVER_old(xv_eventfd_calls) + 1 && XP_EPG_REST_SAME && XP_EPCTL_RECORD_SAME)
/* the descriptor is a previously unused slot; every other slot is what it was */
#define AFD_CREATE_SLOT(i) ((__CPROVER_return_value != NULL && __CPROVER_return_value->fd == (i)) ? !__CPROVER_old(xv_fdt.e[i].open) : XP_SLOT_SAME(i))
__CPROVER_ensures(XP_FOR8(AFD_CREATE_SLOT))
/* PO[C15] fd_create.lock_untouched */
__CPROVER_ensures(xv_lock_held)
;
#endif /* XP_AFD */

#include "contracts/end.h"
#endif
