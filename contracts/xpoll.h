/* contracts/xpoll.h -- two small units:
 *   XP_XPOLL  libxcm/core/xpoll.c             the per-socket epoll instance: descriptor registrations, bells (C04, C16, C08)
 *   XP_AFD    libxcm/tp/common/active_fd.c    the process-wide pool of always-readable eventfds (C08, C15, C04)
 * Attached to the REAL functions by redeclaration after the TU has been #included (harness/xpoll/_unit*.h).
 * Kernel model: env/epoll_env.h (ghost interest list xv_ep[], eventfd, lock stubs) on top of env/fd.h (descriptor table).
 *
 * Vocabulary.  xv_j / xv_w (fd_regs), xv_b (bell_regs), xv_fk (descriptor table) are ARBITRARY ghost indices that nothing
 * assigns: a clause stated for them is proved for every index.  xv_keep is the arbitrary BYTE offset whose content the
 * ut_realloc model of env/base.h preserves: "byte xv_keep of the array is what it was" is proved for every offset, i.e.
 * the whole old content survives.  xv_g_* are ghost constants that a requires clause binds to an entry value.
 * Where a fact is needed at an index the code computes (the slot find_fd returns), a ghost index is not enough and the
 * clause is a quantifier with CONSTANT bounds 0..XP_CAP_MAX (CBMC expands it).
 */
#ifndef XV_XPOLL_H
#define XV_XPOLL_H
#include "contracts/begin.h"

/* capacities above this are not explored (is_fresh needs a bound; the quantifiers are expanded up to it) */
#ifndef XP_CAP_MAX
#define XP_CAP_MAX 1024
#endif
#define XP_NEXT_CAP(c) (((c) + 1) * 2)
#define XP_FK_OK (xv_fk >= 0 && xv_fk < XV_NFD)

/* every harness of the unit calls, in this order: xv_ghost_havoc(); xv_fd_havoc(); xv_epoll_havoc(); xv_xpoll_havoc(); */
int nondet_int(void); long nondet_long(void); _Bool nondet_bool(void); unsigned char nondet_uchar(void);
int xv_afd_refs;           /* ghost (xpoll.c side): references to pool descriptors handed out by active_fd_get and not yet put back */
static inline void xv_xpoll_havoc(void)
{
    xv_g_byte = nondet_uchar(); xv_w = nondet_long(); xv_b = nondet_long();
    xv_g_fd = nondet_int(); xv_g_ev = nondet_int(); xv_g_bfree = nondet_bool(); xv_g_bring = nondet_bool();
    xv_g_i0 = nondet_int(); xv_g_i1 = nondet_int(); xv_g_i2 = nondet_int();
    xv_afd_refs = nondet_int();
}

/* ================================================================================================================ */
#ifdef XP_XPOLL

#define XP_FRESH(x) __CPROVER_is_fresh((x), sizeof(struct xpoll))
/* ---- representation invariant, fd_regs part --------------------------------------------------------------------- */
#define XP_REGS_RANGE(x) ((x)->fd_regs_capacity >= 0 && (x)->fd_regs_capacity <= XP_CAP_MAX && (x)->num_fd_regs >= 0 && \
                          (x)->num_fd_regs <= (x)->fd_regs_capacity)
#define XP_REGS_MEM(x) (((x)->fd_regs_capacity > 0 ==> __CPROVER_is_fresh((x)->fd_regs, sizeof(struct xpoll_fd_reg) * (size_t)(x)->fd_regs_capacity)) && \
                        ((x)->fd_regs_capacity == 0 ==> (x)->fd_regs == NULL))
#define XP_J_IN(x) (xv_j >= 0 && xv_j < (x)->fd_regs_capacity)
#define XP_W_IN(x) (xv_w >= 0 && xv_w < (x)->fd_regs_capacity)
/* byte xv_keep of fd_regs */
#define XP_RB(x) (((const uint8_t *)(x)->fd_regs)[xv_keep])
#define XP_RB_IN(x) (xv_keep < (size_t)(x)->fd_regs_capacity * sizeof(struct xpoll_fd_reg))
#define XP_RB_BOUND(x) (XP_RB_IN(x) ==> XP_RB(x) == xv_g_byte)
/* slot xv_j bound to the ghost constants */
#define XP_J_BOUND(x) (XP_J_IN(x) ==> ((x)->fd_regs[xv_j].fd == xv_g_fd && (x)->fd_regs[xv_j].event == xv_g_ev))
#define XP_J_SAME(x) (XP_J_IN(x) ==> ((x)->fd_regs[xv_j].fd == xv_g_fd && (x)->fd_regs[xv_j].event == xv_g_ev))
/* a used slot holds a descriptor >= 0, a free slot -1; no other negative value occurs (slot xv_j) */
#define XP_J_WELLFORMED(x) (XP_J_IN(x) ==> ((x)->fd_regs[xv_j].fd >= -1 && ((x)->fd_regs[xv_j].fd >= 0 ==> (x)->fd_regs[xv_j].event >= 0)))
/* witness: when the table is not full, slot xv_w is free (num_fd_regs counts the used slots, so one exists) */
#define XP_FREE_WITNESS(x) ((x)->num_fd_regs < (x)->fd_regs_capacity ==> (XP_W_IN(x) && (x)->fd_regs[xv_w].fd == -1))
/* descriptor fd is in no slot (needed at the slot find_fd WOULD return: constant-bound quantifier) */
#ifdef XP_NOQ
#define XP_ABSENT(x, d) 1
#else
#define XP_ABSENT(x, d) __CPROVER_forall { int q_; (0 <= q_ && q_ < XP_CAP_MAX) ==> (q_ < (x)->fd_regs_capacity ==> (x)->fd_regs[q_].fd != (d)) }
#endif

/* ---- the socket's epoll instance and the ghost interest list ------------------------------------------------------ */
#define XP_EPFD_OK(x) ((x)->epoll_fd == xv_epfd && XV_FD_OURS(xv_epfd) && !xv_evfd_readable[xv_epfd])
#define XP_GHOSTS_OK (XV_FD_GHOST_RANGE && XV_EP_GHOST_RANGE && XP_FK_OK)
/* registration (d, ev) agrees with the kernel: d is an open descriptor (not the epoll instance itself) that is in the
 * interest list iff ev != 0, with exactly the mask ev */
#define XP_LIVE(d, ev) (XV_FD_OURS(d) && (d) != xv_epfd && (ev) >= 0 && xv_ep[d].in == ((ev) != 0) && ((ev) != 0 ==> xv_ep[d].mask == (uint32_t)(ev)))
/* ... or the descriptor was closed before its registration is removed (the kernel has dropped it from the list already;
 * the number may have been handed out again to a descriptor that is in no list): only removal is legal then */
#define XP_GONE(d) (!XV_FD_OURS(d) || ((d) != xv_epfd && !xv_ep[d].in))
/* the kernel holds d with exactly the mask ev; ev == 0: d is not in the interest list at all */
#define XP_KERNEL_HAS(d, ev) (((ev) != 0 ==> (XV_EP_IN(d) && xv_ep[d].mask == (uint32_t)(ev))) && ((ev) == 0 ==> !XV_EP_IN(d)))
/* no other descriptor's entry changed */
#define XP_EP_FK_SAME (xv_ep[xv_fk].in == __CPROVER_old(xv_ep[xv_fk].in) && xv_ep[xv_fk].mask == __CPROVER_old(xv_ep[xv_fk].mask))
#define XP_EP_SAME_EXCEPT(d) ((XP_FK_OK && xv_fk != (d)) ==> XP_EP_FK_SAME)
#define XP_EP_SAME (XP_FK_OK ==> XP_EP_FK_SAME)
#define XP_EPCTL_NONE (xv_epctl_calls == __CPROVER_old(xv_epctl_calls))
#define XP_EPCTL_ONE(op, d) (xv_epctl_calls == __CPROVER_old(xv_epctl_calls) + 1 && xv_epctl_op == (op) && xv_epctl_fd == (d))

/* ---- xpoll_get_fd (C16) ------------------------------------------------------------------------------------------- */
int xpoll_get_fd(struct xpoll *xpoll)
__CPROVER_requires(XP_FRESH(xpoll))
__CPROVER_assigns()
/* PO[C16] xpoll_get_fd.is_the_epoll_instance: the descriptor handed to the application is the epoll instance created with the socket */
__CPROVER_ensures(__CPROVER_return_value == xpoll->epoll_fd)
;

/* ---- find_fd -------------------------------------------------------------------------------------------------------- */
static int find_fd(struct xpoll *xpoll, int fd)
__CPROVER_requires(XP_FRESH(xpoll) && XP_REGS_RANGE(xpoll))
__CPROVER_requires(XP_REGS_MEM(xpoll))
__CPROVER_assigns()
__CPROVER_ensures(__CPROVER_return_value >= -1 && __CPROVER_return_value < xpoll->fd_regs_capacity)
__CPROVER_ensures(__CPROVER_return_value >= 0 ==> xpoll->fd_regs[__CPROVER_return_value].fd == fd)
/* the FIRST such slot */
__CPROVER_ensures((__CPROVER_return_value >= 0 && xv_j >= 0 && xv_j < __CPROVER_return_value) ==> xpoll->fd_regs[xv_j].fd != fd)
/* -1 only if no slot holds fd (for the two arbitrary indices) */
__CPROVER_ensures((__CPROVER_return_value == -1 && XP_J_IN(xpoll)) ==> xpoll->fd_regs[xv_j].fd != fd)
__CPROVER_ensures((__CPROVER_return_value == -1 && XP_W_IN(xpoll)) ==> xpoll->fd_regs[xv_w].fd != fd)
;

/* ---- regs_extend_capacity ------------------------------------------------------------------------------------------- */
static void regs_extend_capacity(struct xpoll *xpoll, int new_capacity)
__CPROVER_requires(XP_FRESH(xpoll) && XP_REGS_RANGE(xpoll) && new_capacity > xpoll->fd_regs_capacity && new_capacity <= XP_NEXT_CAP(XP_CAP_MAX))
__CPROVER_requires(XP_REGS_MEM(xpoll))
__CPROVER_requires(XP_RB_BOUND(xpoll))
__CPROVER_assigns(xpoll->fd_regs, xpoll->fd_regs_capacity)
__CPROVER_assigns(xpoll->fd_regs_capacity > 0: __CPROVER_object_whole(xpoll->fd_regs))
__CPROVER_frees(xpoll->fd_regs)
__CPROVER_ensures(xpoll->fd_regs_capacity == new_capacity)
/* every old slot keeps its content (byte xv_keep, for every xv_keep) */
__CPROVER_ensures(xv_keep < (size_t)__CPROVER_old(xpoll->fd_regs_capacity) * sizeof(struct xpoll_fd_reg) ==> XP_RB(xpoll) == xv_g_byte)
/* every new slot is free (arbitrary index; and, by name, the first new one -- the slot allocate_fd_reg_idx hands out) */
__CPROVER_ensures((xv_j >= __CPROVER_old(xpoll->fd_regs_capacity) && xv_j < new_capacity) ==> xpoll->fd_regs[xv_j].fd == -1)
__CPROVER_ensures(xpoll->fd_regs[__CPROVER_old(xpoll->fd_regs_capacity)].fd == -1)
;

/* ---- allocate_fd_reg_idx -------------------------------------------------------------------------------------------- */
#define XP_GROWS(x) ((x)->num_fd_regs == (x)->fd_regs_capacity)
static int allocate_fd_reg_idx(struct xpoll *xpoll)
__CPROVER_requires(XP_FRESH(xpoll) && XP_REGS_RANGE(xpoll))
__CPROVER_requires(XP_REGS_MEM(xpoll))
__CPROVER_requires(XP_FREE_WITNESS(xpoll) && XP_RB_BOUND(xpoll))
__CPROVER_requires(xpoll->fd_regs_capacity == xv_g_i0 && xpoll->num_fd_regs == xv_g_i1)
__CPROVER_assigns(xpoll->fd_regs, xpoll->fd_regs_capacity, xpoll->num_fd_regs)
__CPROVER_assigns(xpoll->fd_regs_capacity > 0: __CPROVER_object_whole(xpoll->fd_regs))
__CPROVER_frees(xpoll->fd_regs)
__CPROVER_ensures(xpoll->num_fd_regs == xv_g_i1 + 1 && xpoll->num_fd_regs <= xpoll->fd_regs_capacity)
/* the table grows only when it is full, and then to (capacity + 1) * 2 */
__CPROVER_ensures(xpoll->fd_regs_capacity == (xv_g_i1 == xv_g_i0 ? XP_NEXT_CAP(xv_g_i0) : xv_g_i0))
/* the slot handed out is inside the table and free; when the table grew it is the first new slot */
__CPROVER_ensures(__CPROVER_return_value >= 0 && __CPROVER_return_value < xpoll->fd_regs_capacity && xpoll->fd_regs[__CPROVER_return_value].fd == -1)
__CPROVER_ensures(xv_g_i1 == xv_g_i0 ==> __CPROVER_return_value == xv_g_i0)
/* nothing of the old content is touched; the new slots are free */
__CPROVER_ensures(xv_keep < (size_t)xv_g_i0 * sizeof(struct xpoll_fd_reg) ==> XP_RB(xpoll) == xv_g_byte)
__CPROVER_ensures((xv_j >= xv_g_i0 && xv_j < xpoll->fd_regs_capacity) ==> xpoll->fd_regs[xv_j].fd == -1)
;

/* ---- reg_epoll_mod: bring the kernel's entry for reg->fd from mask reg->event to mask new_event ---------------------- */
static void reg_epoll_mod(struct xpoll *xpoll, struct xpoll_fd_reg *reg, int new_event)
__CPROVER_requires(XP_FRESH(xpoll) && __CPROVER_is_fresh(reg, sizeof(struct xpoll_fd_reg)))
__CPROVER_requires(XP_GHOSTS_OK && XP_EPFD_OK(xpoll) && new_event >= 0 && reg->event >= 0 && reg->fd >= 0)
__CPROVER_requires(XP_LIVE(reg->fd, reg->event) || (new_event == 0 && XP_GONE(reg->fd)))
__CPROVER_assigns(reg->event, XV_EPCTL_ASSIGNS)
/* PO[C04,C16] reg_epoll_mod.kernel_mask_exact: afterwards the interest list holds the descriptor with EXACTLY the requested mask; mask 0 = not in the list */
__CPROVER_ensures(XP_KERNEL_HAS(reg->fd, new_event))
/* PO[C16] reg_epoll_mod.others_untouched: no other descriptor's entry changes */
__CPROVER_ensures(XP_EP_SAME_EXCEPT(reg->fd))
__CPROVER_ensures(reg->event == new_event)
/* one epoll_ctl with the right operation, none when the mask does not change */
__CPROVER_ensures(__CPROVER_old(reg->event) == new_event ==> XP_EPCTL_NONE)
__CPROVER_ensures((__CPROVER_old(reg->event) == 0 && new_event != 0) ==> XP_EPCTL_ONE(EPOLL_CTL_ADD, reg->fd))
__CPROVER_ensures((__CPROVER_old(reg->event) != 0 && new_event != 0 && __CPROVER_old(reg->event) != new_event) ==> XP_EPCTL_ONE(EPOLL_CTL_MOD, reg->fd))
__CPROVER_ensures((__CPROVER_old(reg->event) != 0 && new_event == 0) ==> XP_EPCTL_ONE(EPOLL_CTL_DEL, reg->fd))
/* errno survives (also the tolerated EBADF/ENOENT of a removal) */
__CPROVER_ensures(xv_errno == __CPROVER_old(xv_errno))
;

/* ---- xpoll_fd_reg_add ------------------------------------------------------------------------------------------------ */
/* Caller obligations (the code asserts the first two): fd >= 0; fd is not registered yet; fd is an open descriptor that is
 * not yet in the interest list (kernel list is a subset of the registrations -- C16).                                      */
int xpoll_fd_reg_add(struct xpoll *xpoll, int fd, int event)
__CPROVER_requires(XP_FRESH(xpoll) && XP_REGS_RANGE(xpoll))
__CPROVER_requires(XP_REGS_MEM(xpoll))
__CPROVER_requires(XP_GHOSTS_OK && XP_EPFD_OK(xpoll) && event >= 0 && fd >= 0 && XP_LIVE(fd, 0))
__CPROVER_requires(XP_ABSENT(xpoll, fd))
__CPROVER_requires(XP_FREE_WITNESS(xpoll) && XP_RB_BOUND(xpoll) && XP_J_BOUND(xpoll))
__CPROVER_requires(xpoll->fd_regs_capacity == xv_g_i0 && xpoll->num_fd_regs == xv_g_i1)
__CPROVER_assigns(xpoll->fd_regs, xpoll->fd_regs_capacity, xpoll->num_fd_regs, XV_EPCTL_ASSIGNS)
__CPROVER_assigns(xpoll->fd_regs_capacity > 0: __CPROVER_object_whole(xpoll->fd_regs))
__CPROVER_frees(xpoll->fd_regs)
/* the registration: id inside the table, slot holds (fd, event), one more registration, growth only when full */
__CPROVER_ensures(__CPROVER_return_value >= 0 && __CPROVER_return_value < xpoll->fd_regs_capacity)
__CPROVER_ensures(xpoll->fd_regs[__CPROVER_return_value].fd == fd && xpoll->fd_regs[__CPROVER_return_value].event == event)
__CPROVER_ensures(xpoll->num_fd_regs == xv_g_i1 + 1 && xpoll->num_fd_regs <= xpoll->fd_regs_capacity)
__CPROVER_ensures(xpoll->fd_regs_capacity == (xv_g_i1 == xv_g_i0 ? XP_NEXT_CAP(xv_g_i0) : xv_g_i0))
/* PO[C04,C16] xpoll_fd_reg_add.kernel_mask_exact: the kernel watches fd for exactly `event`; event 0: fd is not in the interest list */
__CPROVER_ensures(XP_KERNEL_HAS(fd, event))
/* PO[C16] xpoll_fd_reg_add.others_untouched: no other descriptor's kernel entry changes */
__CPROVER_ensures(XP_EP_SAME_EXCEPT(fd))
/* PO[C04] xpoll_fd_reg_add.other_slots_untouched: the slot used was free (or is new); every other old slot keeps its content, every other new slot is free */
__CPROVER_ensures((xv_j >= 0 && xv_j < xv_g_i0 && xv_j == __CPROVER_return_value) ==> xv_g_fd == -1)
__CPROVER_ensures((xv_keep < (size_t)xv_g_i0 * sizeof(struct xpoll_fd_reg) && xv_keep / sizeof(struct xpoll_fd_reg) != (size_t)__CPROVER_return_value) ==> XP_RB(xpoll) == xv_g_byte)
__CPROVER_ensures((xv_j >= xv_g_i0 && xv_j < xpoll->fd_regs_capacity && xv_j != __CPROVER_return_value) ==> xpoll->fd_regs[xv_j].fd == -1)
/* PO[C16] xpoll_fd_reg_add.fd_stable: the socket's descriptor is not replaced */
__CPROVER_ensures(xpoll->epoll_fd == __CPROVER_old(xpoll->epoll_fd))
__CPROVER_ensures(xv_errno == __CPROVER_old(xv_errno))
;

/* ---- xpoll_fd_reg_mod / del / del_if_valid --------------------------------------------------------------------------- */
/* Caller obligations (asserted by get_fd_reg): reg_idx names a slot in use. */
#define XP_IDX_USED(x, i) ((i) >= 0 && (i) < (x)->fd_regs_capacity && (x)->fd_regs[i].fd >= 0 && (x)->fd_regs[i].event >= 0)
#define XP_SLOT_J_UNCHANGED(x) (XP_J_IN(x) ==> ((x)->fd_regs[xv_j].fd == __CPROVER_old((x)->fd_regs[xv_j].fd) && (x)->fd_regs[xv_j].event == __CPROVER_old((x)->fd_regs[xv_j].event)))
void xpoll_fd_reg_mod(struct xpoll *xpoll, int reg_idx, int new_event)
__CPROVER_requires(XP_FRESH(xpoll) && XP_REGS_RANGE(xpoll))
__CPROVER_requires(XP_REGS_MEM(xpoll))
__CPROVER_requires(XP_GHOSTS_OK && XP_EPFD_OK(xpoll) && new_event >= 0 && XP_IDX_USED(xpoll, reg_idx))
__CPROVER_requires(XP_LIVE(xpoll->fd_regs[reg_idx].fd, xpoll->fd_regs[reg_idx].event) || (new_event == 0 && XP_GONE(xpoll->fd_regs[reg_idx].fd)))
__CPROVER_assigns(xpoll->fd_regs[reg_idx].event, XV_EPCTL_ASSIGNS)
/* PO[C04,C16] xpoll_fd_reg_mod.kernel_mask_exact: the kernel watches the registered descriptor for exactly `new_event`; 0: not in the interest list */
__CPROVER_ensures(XP_KERNEL_HAS(xpoll->fd_regs[reg_idx].fd, new_event))
/* PO[C16] xpoll_fd_reg_mod.others_untouched */
__CPROVER_ensures(XP_EP_SAME_EXCEPT(xpoll->fd_regs[reg_idx].fd))
__CPROVER_ensures(xpoll->fd_regs[reg_idx].event == new_event && xpoll->fd_regs[reg_idx].fd == __CPROVER_old(xpoll->fd_regs[reg_idx].fd))
/* PO[C04] xpoll_fd_reg_mod.other_slots_untouched */
__CPROVER_ensures(xv_j != reg_idx ==> XP_SLOT_J_UNCHANGED(xpoll))
__CPROVER_ensures(__CPROVER_old(xpoll->fd_regs[reg_idx].event) == new_event ==> XP_EPCTL_NONE)
/* PO[C16] xpoll_fd_reg_mod.fd_stable */
__CPROVER_ensures(xpoll->epoll_fd == __CPROVER_old(xpoll->epoll_fd))
__CPROVER_ensures(xv_errno == __CPROVER_old(xv_errno))
;

#define XP_DEL_REQUIRES(x, i) (XP_GHOSTS_OK && XP_EPFD_OK(x) && XP_IDX_USED(x, i) && (x)->num_fd_regs >= 1 && (x)->fd_regs[i].fd == xv_g_i0 && \
                               (XP_LIVE((x)->fd_regs[i].fd, (x)->fd_regs[i].event) || XP_GONE((x)->fd_regs[i].fd)))
/* the slot is free again, one registration less, the descriptor (xv_g_i0) is in the interest list no more */
#define XP_DEL_DONE(x, i) ((x)->fd_regs[i].fd == -1 && (x)->num_fd_regs == __CPROVER_old((x)->num_fd_regs) - 1 && !XV_EP_IN(xv_g_i0))
void xpoll_fd_reg_del(struct xpoll *xpoll, int reg_idx)
__CPROVER_requires(XP_FRESH(xpoll) && XP_REGS_RANGE(xpoll))
__CPROVER_requires(XP_REGS_MEM(xpoll))
__CPROVER_requires(XP_DEL_REQUIRES(xpoll, reg_idx))
__CPROVER_assigns(xpoll->fd_regs[reg_idx].event, xpoll->fd_regs[reg_idx].fd, xpoll->num_fd_regs, XV_EPCTL_ASSIGNS)
/* PO[C08,C16] xpoll_fd_reg_del.removed: slot free, count down by one, descriptor gone from the interest list (also when it had been closed before: EBADF/ENOENT tolerated) */
__CPROVER_ensures(XP_DEL_DONE(xpoll, reg_idx))
/* PO[C16] xpoll_fd_reg_del.others_untouched */
__CPROVER_ensures(XP_EP_SAME_EXCEPT(xv_g_i0))
/* PO[C04] xpoll_fd_reg_del.other_slots_untouched */
__CPROVER_ensures(xv_j != reg_idx ==> XP_SLOT_J_UNCHANGED(xpoll))
/* PO[C16] xpoll_fd_reg_del.fd_stable */
__CPROVER_ensures(xpoll->epoll_fd == __CPROVER_old(xpoll->epoll_fd))
/* PO[C08] xpoll_fd_reg_del.errno_survives: used on error paths of the transports: the reported errno is not clobbered */
__CPROVER_ensures(xv_errno == __CPROVER_old(xv_errno))
;

void xpoll_fd_reg_del_if_valid(struct xpoll *xpoll, int reg_id)
__CPROVER_requires(reg_id >= 0 ==> (XP_FRESH(xpoll) && XP_REGS_RANGE(xpoll)))
__CPROVER_requires(reg_id >= 0 ==> XP_REGS_MEM(xpoll))
__CPROVER_requires(XP_GHOSTS_OK && (reg_id >= 0 ==> XP_DEL_REQUIRES(xpoll, reg_id)))
__CPROVER_assigns(reg_id >= 0: xpoll->fd_regs[reg_id].event, xpoll->fd_regs[reg_id].fd, xpoll->num_fd_regs, XV_EPCTL_ASSIGNS)
/* PO[C08,C16] xpoll_fd_reg_del_if_valid.removed */
__CPROVER_ensures(reg_id >= 0 ==> (XP_DEL_DONE(xpoll, reg_id) && XP_EP_SAME_EXCEPT(xv_g_i0)))
/* PO[C08] xpoll_fd_reg_del_if_valid.invalid_is_noop: a negative id touches nothing (no epoll_ctl, interest list as it was) */
__CPROVER_ensures(reg_id < 0 ==> (XP_EPCTL_NONE && XP_EP_SAME))
__CPROVER_ensures((reg_id >= 0 && xv_j != reg_id) ==> XP_SLOT_J_UNCHANGED(xpoll))
__CPROVER_ensures(xv_errno == __CPROVER_old(xv_errno))
;

#endif /* XP_XPOLL */

#include "contracts/end.h"
#endif
