/* contracts/utilctl.h -- unit utilctl: the I/O helpers of common/util.c, common/common_ctl.c and the client library of the
 * control interface libxcmctl/xcmc.c.  Properties: C05 (the poll/accept helpers never sleep), C08 (every path releases
 * what it took; nothing aborts), C14 (the control-interface client does not trust the wire), C18 (credential files are
 * read exactly).  Attached by redeclaration after the real TU was included; the kernel and libc are env/fd.h and
 * env/utilctl_env.h (TRUSTED).  Two sections: XVU_UTIL (harness/utilctl/_unit_util.h, _unit_stream.h) and XVU_XCMC
 * (harness/utilctl/_unit_xcmc.h).
 *
 * Ghost conventions: xv_j, xv_k, xv_fk (never assigned) are arbitrary indices -- a clause about "the byte at xv_j" is proved
 * for every offset.  xvu_g_* are ghost constants bound to entry values by a requires clause of the contract under proof.
 */
#ifndef XV_UTILCTL_H
#define XV_UTILCTL_H
#include "contracts/begin.h"

/* ghost constants xvu_g_len, xvu_g_off, xvu_g_int (never assigned by code or stub): env/utilctl_env.h */

#define XVU_CAP_MAX 4096   /* buffer capacities above this are not explored (is_fresh needs a bound) */
#define XVU_IN(lo, x, hi) ((x) >= (lo) && (x) < (hi))
/* p is a C string of exactly n characters: NUL at n, no NUL at the arbitrary position xv_j before it */
#define XVU_STR_IS(p, n) ((p)[n] == 0 && (XVU_IN(0, xv_j, (long)(n)) ==> (p)[xv_j] != 0))
#define XVU_B(x) ((x) ? 1 : 0)
/* p is a C string of fewer than 64 characters whose terminator lies inside p[0..63] (no quantifier: 64 disjuncts) */
#define XVU_Z1(p, k) ((p)[k] == 0)
#define XVU_Z4(p, k) (XVU_Z1(p, k) || XVU_Z1(p, (k) + 1) || XVU_Z1(p, (k) + 2) || XVU_Z1(p, (k) + 3))
#define XVU_Z16(p, k) (XVU_Z4(p, k) || XVU_Z4(p, (k) + 4) || XVU_Z4(p, (k) + 8) || XVU_Z4(p, (k) + 12))
#define XVU_CSTR64(p) (XVU_Z16(p, 0) || XVU_Z16(p, 16) || XVU_Z16(p, 32) || XVU_Z16(p, 48))

#ifdef XVU_UTIL
/* ================================================================================================== fcntl helpers */
#define XVU_FC_ASSIGNS xvu_fc.flags, xvu_fc.getfl_calls, xvu_fc.setfl_calls, xvu_fc.setfl_ok, xvu_fc.setfl_arg, xvu_fc.other_calls
int ut_set_blocking(int fd, bool should_block)
__CPROVER_requires(fd == xvu_fl_fd && XVU_FC_RANGE && xvu_fl == xvu_g_int)
__CPROVER_assigns(xv_errno, XVU_FC_ASSIGNS)
__CPROVER_ensures(__CPROVER_return_value == 0 || (__CPROVER_return_value == -1 && xv_errno > 0))
/* PO[C05] ut_set_blocking.exactly_o_nonblock: success sets / clears exactly O_NONBLOCK, every other status flag is kept */
__CPROVER_ensures(__CPROVER_return_value == 0 ==> (xvu_fl_valid && xvu_fl == (should_block ? (xvu_g_int & ~O_NONBLOCK) : (xvu_g_int | O_NONBLOCK))))
/* PO[C05] ut_set_blocking.failure_changes_nothing */
__CPROVER_ensures(__CPROVER_return_value == -1 ==> xvu_fl == xvu_g_int)
/* one F_GETFL, one F_SETFL, nothing else */
__CPROVER_ensures(xvu_fc.getfl_calls == __CPROVER_old(xvu_fc.getfl_calls) + 1 && xvu_fc.setfl_calls == __CPROVER_old(xvu_fc.setfl_calls) + 1 && \
                  xvu_fc.other_calls == __CPROVER_old(xvu_fc.other_calls))
;

bool ut_is_blocking(int fd)
__CPROVER_requires(fd == xvu_fl_fd && XVU_FC_RANGE)
__CPROVER_assigns(xv_errno, xvu_fc.getfl_calls)
/* PO[C05] ut_is_blocking.reads_o_nonblock: for a valid descriptor the answer is the O_NONBLOCK bit; nothing is changed (frame), errno kept */
__CPROVER_ensures(xvu_fl_valid ==> (XVU_B(__CPROVER_return_value) == XVU_B((xvu_fl & O_NONBLOCK) == 0) && xv_errno == __CPROVER_old(xv_errno)))
;

/* ================================================================================================== SO_ERROR / poll helpers (C05) */
#define XVU_FD_REQ(fd) (XV_FD_OURS(fd) && XV_FD_GHOST_RANGE && xv_open_cnt >= 1)
/* what SO_ERROR said: the pending error (0: none), or the errno of a failed getsockopt */
#define XVU_SO_OUTCOME (xvu_so.rc == 0 ? xvu_so.val : xvu_so.err)
static int socket_error(int fd)
__CPROVER_requires(XVU_FD_REQ(fd) && XVU_SO_RANGE)
__CPROVER_assigns(xv_errno, xvu_so)
__CPROVER_ensures(xvu_so.calls == __CPROVER_old(xvu_so.calls) + 1 && xvu_so.fd == fd && xvu_so.level == SOL_SOCKET && xvu_so.name == SO_ERROR)
/* PO[C05] socket_error.actual_outcome: 0 iff the kernel reports no pending error (errno kept); otherwise -1 and errno is the socket's error (or getsockopt's own) */
__CPROVER_ensures((__CPROVER_return_value == 0 && xvu_so.rc == 0 && xvu_so.val == 0 && xv_errno == __CPROVER_old(xv_errno)) || \
                  (__CPROVER_return_value == -1 && XVU_SO_OUTCOME != 0 && xv_errno == XVU_SO_OUTCOME))
;

#define XVU_WRITABLE ((xvu_pl.revents & (POLLOUT | POLLERR)) != 0)
int ut_established(int fd)
__CPROVER_requires(XVU_FD_REQ(fd) && XVU_SO_RANGE && XVU_POLL_RANGE)
/* the frame is the C05 claim: xv_blocked is not assignable (the poll model writes it for every timeout other than 0) */
__CPROVER_assigns(xv_errno, xvu_so, xvu_pl)
/* PO[C05] ut_established.poll_zero_timeout: exactly one poll, on this descriptor, for POLLOUT, timeout 0 */
__CPROVER_ensures(xvu_pl.calls == __CPROVER_old(xvu_pl.calls) + 1 && xvu_pl.fd == fd && xvu_pl.events == POLLOUT && xvu_pl.timeout == 0 && xvu_pl.nfds == 1)
/* PO[C05] ut_established.in_progress: not (yet) writable: -1/EINPROGRESS, SO_ERROR is not consumed */
__CPROVER_ensures(!XVU_WRITABLE ==> (__CPROVER_return_value == -1 && xv_errno == EINPROGRESS && xvu_so.calls == __CPROVER_old(xvu_so.calls)))
/* PO[C05] ut_established.actual_outcome: writable or in error: SO_ERROR is read once; 0 iff it is 0 (errno kept), else -1 with that error */
__CPROVER_ensures(XVU_WRITABLE ==> (xvu_so.calls == __CPROVER_old(xvu_so.calls) + 1 && xvu_so.fd == fd && \
                  ((__CPROVER_return_value == 0 && xvu_so.rc == 0 && xvu_so.val == 0 && xv_errno == __CPROVER_old(xv_errno)) || \
                   (__CPROVER_return_value == -1 && XVU_SO_OUTCOME != 0 && xv_errno == XVU_SO_OUTCOME))))
;

bool ut_is_readable(int fd)
__CPROVER_requires(XVU_POLL_RANGE)
__CPROVER_assigns(xv_errno, xvu_pl)
/* PO[C05] ut_is_readable.poll_zero_timeout */
__CPROVER_ensures(xvu_pl.calls == __CPROVER_old(xvu_pl.calls) + 1 && xvu_pl.fd == fd && xvu_pl.events == POLLIN && xvu_pl.timeout == 0 && xvu_pl.nfds == 1)
/* PO[C05] ut_is_readable.answer: readable iff poll reported POLLIN for the descriptor; errno is left as it was (also when poll fails) */
__CPROVER_ensures(XVU_B(__CPROVER_return_value) == XVU_B(xvu_pl.rc == 1 && (xvu_pl.revents & POLLIN) != 0) && xv_errno == __CPROVER_old(xv_errno))
;

/* ut_accept: the listening descriptor is the library's and O_NONBLOCK; the flags are handed to accept4 (whose model has the
 * obligation "SOCK_NONBLOCK asked for" and makes the new descriptor non-blocking iff it was) */
int ut_accept(int sockfd, struct sockaddr *addr, socklen_t *addrlen, unsigned int flags)
__CPROVER_requires(XVU_FD_REQ(sockfd) && xv_fdt.e[sockfd].nonblock && (flags & SOCK_NONBLOCK) != 0 && flags <= 0x7fffffffU && addr == NULL && addrlen == NULL)
__CPROVER_requires(xv_fk >= 0 && xv_fk < XV_NFD)
__CPROVER_assigns(xv_errno, XV_ACCEPT_ASSIGNS)
/* PO[C05] ut_accept.nonblocking_descriptor: a descriptor obtained is new, the library's, and O_NONBLOCK; every other slot of the table is untouched */
__CPROVER_ensures(__CPROVER_return_value >= 0 ==> (__CPROVER_return_value < XV_NFD && __CPROVER_return_value != sockfd && xv_fdt.e[__CPROVER_return_value].open && \
                  xv_fdt.e[__CPROVER_return_value].nonblock && xv_open_cnt == __CPROVER_old(xv_open_cnt) + 1))
__CPROVER_ensures(xv_fk != __CPROVER_return_value ==> (XVU_B(xv_fdt.e[xv_fk].open) == XVU_B(__CPROVER_old(xv_fdt.e[xv_fk].open)) && \
                  XVU_B(xv_fdt.e[xv_fk].nonblock) == XVU_B(__CPROVER_old(xv_fdt.e[xv_fk].nonblock))))
/* PO[C05] ut_accept.eagain: failure is -1 with the kernel's errno ("would block" is EAGAIN: on Linux EWOULDBLOCK is the same number); nothing was opened */
__CPROVER_ensures(__CPROVER_return_value < 0 ==> (__CPROVER_return_value == -1 && xv_errno > 0 && (EWOULDBLOCK == EAGAIN || xv_errno != EWOULDBLOCK) && xv_open_cnt == __CPROVER_old(xv_open_cnt)))
__CPROVER_ensures(xv_accept_calls == __CPROVER_old(xv_accept_calls) + 1 && xv_accept_fd == sockfd)
;

/* ut_close / ut_close_if_valid (env/fd.h carries TRUSTED copies of these two for the units that cannot include util.c: this is the real text) */
#define XVU_CLOSED(fd) (xv_close_calls == __CPROVER_old(xv_close_calls) + 1 && xv_close_fd == (fd) && !xv_fdt.e[fd].open && xv_open_cnt == __CPROVER_old(xv_open_cnt) - 1 && \
                        (xv_fk != (fd) ==> XVU_B(xv_fdt.e[xv_fk].open) == XVU_B(__CPROVER_old(xv_fdt.e[xv_fk].open))))
void ut_close(int fd)
__CPROVER_requires(XVU_FD_REQ(fd) && xv_fk >= 0 && xv_fk < XV_NFD)
__CPROVER_assigns(xv_errno, XV_CLOSE_ASSIGNS)
/* PO[C08] ut_close.closes_once_keeps_errno: exactly this descriptor is closed, once; errno is as before whatever close() reported */
__CPROVER_ensures(XVU_CLOSED(fd) && xv_errno == __CPROVER_old(xv_errno))
;
void ut_close_if_valid(int fd)
__CPROVER_requires((fd < 0 || XVU_FD_REQ(fd)) && XV_FD_GHOST_RANGE && xv_fk >= 0 && xv_fk < XV_NFD)
__CPROVER_assigns(xv_errno, XV_CLOSE_ASSIGNS)
/* PO[C08] ut_close_if_valid.negative_is_a_no_op: a negative descriptor is left alone, a valid one is closed once; errno is as before */
__CPROVER_ensures((fd < 0 ? (xv_close_calls == __CPROVER_old(xv_close_calls) && xv_open_cnt == __CPROVER_old(xv_open_cnt) && XVU_B(xv_fdt.e[xv_fk].open) == XVU_B(__CPROVER_old(xv_fdt.e[xv_fk].open))) \
                          : XVU_CLOSED(fd)) && xv_errno == __CPROVER_old(xv_errno))
;

/* ================================================================================================== ut_vaprintf / ut_aprintf
 * append formatted text to the C string in buf[0..capacity): never a byte outside the buffer, the result is NUL-terminated, the
 * old text is kept.  (vsnprintf model: any would-be length; see env/utilctl_env.h) */
#define XVU_LEFT(capacity) ((capacity) - xvu_g_len - 1)
#define XVU_APPENDED(capacity) (XVU_LEFT(capacity) == 0 ? 0 : ((size_t)xvu_vsn.ret < XVU_LEFT(capacity) ? (size_t)xvu_vsn.ret : XVU_LEFT(capacity) - 1))
void ut_vaprintf(char *buf, size_t capacity, const char *format, va_list ap)
__CPROVER_requires(capacity >= 1 && capacity <= XVU_CAP_MAX && __CPROVER_is_fresh(buf, capacity) && __CPROVER_is_fresh(format, 4))
__CPROVER_requires(xvu_g_len < capacity && XVU_STR_IS(buf, xvu_g_len) && xvu_str[0].base == buf && xvu_str[0].len == xvu_g_len && XVU_VSN_RANGE)
__CPROVER_assigns(xvu_vsn, __CPROVER_object_upto(buf, capacity))
/* PO[C08] ut_vaprintf.within_capacity: the text ends inside the buffer; nothing is written when there is no room */
__CPROVER_ensures(xvu_g_len + XVU_APPENDED(capacity) < capacity && buf[xvu_g_len + XVU_APPENDED(capacity)] == 0)
__CPROVER_ensures(XVU_LEFT(capacity) == 0 ? xvu_vsn.calls == __CPROVER_old(xvu_vsn.calls) \
                  : (xvu_vsn.calls == __CPROVER_old(xvu_vsn.calls) + 1 && xvu_vsn.dst == buf + xvu_g_len && xvu_vsn.cap == XVU_LEFT(capacity)))
/* PO[C08] ut_vaprintf.old_text_kept */
__CPROVER_ensures(XVU_IN(0, xv_j, (long)xvu_g_len) ==> buf[xv_j] == __CPROVER_old(buf[xv_j]))
;

/* the variadic front end: same contract (the harness passes no variable arguments; the vsnprintf model does not look at them) */
void ut_aprintf(char *buf, size_t capacity, const char *format, ...)
__CPROVER_requires(capacity >= 1 && capacity <= XVU_CAP_MAX && __CPROVER_is_fresh(buf, capacity) && __CPROVER_is_fresh(format, 4))
__CPROVER_requires(xvu_g_len < capacity && XVU_STR_IS(buf, xvu_g_len) && xvu_str[0].base == buf && xvu_str[0].len == xvu_g_len && XVU_VSN_RANGE)
__CPROVER_assigns(xvu_vsn, __CPROVER_object_upto(buf, capacity))
/* PO[C08] ut_aprintf.within_capacity */
__CPROVER_ensures(xvu_g_len + XVU_APPENDED(capacity) < capacity && buf[xvu_g_len + XVU_APPENDED(capacity)] == 0)
/* PO[C08] ut_aprintf.old_text_kept */
__CPROVER_ensures(XVU_IN(0, xv_j, (long)xvu_g_len) ==> buf[xv_j] == __CPROVER_old(buf[xv_j]))
;

/* ================================================================================================== double <-> timespec */
void ut_f_to_timespec(double t, struct timespec *ts)
__CPROVER_requires(t >= 0.0 && t <= 9.0e18 && __CPROVER_is_fresh(ts, sizeof(*ts)))
__CPROVER_assigns(ts->tv_sec, ts->tv_nsec)
/* PO[C08] ut_f_to_timespec.valid_timespec: whole seconds, 0 <= tv_nsec <= 999999999 (what timerfd_settime / ppoll accept) */
__CPROVER_ensures(ts->tv_sec >= 0 && (double)ts->tv_sec <= t && t - (double)ts->tv_sec < 1.0 && ts->tv_nsec >= 0 && ts->tv_nsec <= 999999999L)
;
double ut_timespec_to_f(const struct timespec *ts)
__CPROVER_requires(__CPROVER_is_fresh(ts, sizeof(*ts)) && ts->tv_sec >= 0 && ts->tv_sec <= (1L << 53) && ts->tv_nsec >= 0 && ts->tv_nsec <= 999999999L)
__CPROVER_assigns()
/* PO[C08] ut_timespec_to_f.in_range: the result lies between the whole seconds and the next second */
__CPROVER_ensures(__CPROVER_return_value >= (double)ts->tv_sec && __CPROVER_return_value <= (double)ts->tv_sec + 1.0)
;

/* ================================================================================================== load_file & co (C18, C08) */
#define XVU_LOAD_ASSIGNS xv_errno, *data, xvu_f, xv_rx_off, xv_rx_eof, xvu_heap, xvu_blk_size, __CPROVER_object_whole(xvu_blk)
#define XVU_LOAD_REQ(filename, data) (__CPROVER_is_fresh(filename, 8) && __CPROVER_is_fresh(data, sizeof(*data)) && XVU_FILE_RANGE && XVU_HEAP_RANGE && \
        xv_rx_off >= 0 && xv_rx_off <= XV_OFF_MAX && xv_rx_off == xvu_g_off && \
        xvu_blk_cap >= 1 && xvu_blk_cap <= XVU_BLK_MAX && __CPROVER_is_fresh(xvu_blk, xvu_blk_cap) && xvu_blk_size == 0)
/* every path closes the stream it opened, exactly once */
#define XVU_LOAD_CLOSED (xvu_f.open == __CPROVER_old(xvu_f.open) && xvu_f.fopen_calls == __CPROVER_old(xvu_f.fopen_calls) + 1 && \
        xvu_f.fclose_calls - __CPROVER_old(xvu_f.fclose_calls) == xvu_f.fopen_ok - __CPROVER_old(xvu_f.fopen_ok))
/* failure: no block is left allocated, and no pointer to one is handed out */
#define XVU_LOAD_FAIL_CLEAN(data) (xvu_heap == __CPROVER_old(xvu_heap) && xvu_blk_size == 0 && xv_errno > 0 && (xvu_f.fopen_ok != __CPROVER_old(xvu_f.fopen_ok) ==> *(data) == NULL))
/* success: the n bytes are ALL bytes the stream delivered up to its end (end of file seen, no read error), in order, in one
 * block owned by the caller, with `spare` more bytes of room behind them.
 * Two texts for "one block with room for n + spare bytes": where load_file is ENFORCED the block is the arena of the heap model
 * (env/utilctl_env.h) with a logical size of at least n + spare; where load_file is ASSUMED (XVU_LOAD_ASSUMED: jobs ut_load_file,
 * ut_load_text_file) the caller gets a fresh object of EXACTLY n + spare bytes, so that CBMC's own bounds checks decide
 * whether the caller (the terminator ut_load_text_file appends) stays inside what load_file promised. */
#ifdef XVU_LOAD_ASSUMED
#define XVU_LOAD_BLOCK(data, n, spare) (__CPROVER_is_fresh(*(data), (size_t)(n) + (spare) == 0 ? 1 : (size_t)(n) + (spare)) && xvu_blk_size == (size_t)(n) + (spare))
#else
#define XVU_LOAD_BLOCK(data, n, spare) (*(data) == (char *)xvu_blk && xvu_blk_size >= (size_t)(n) + (spare) && xvu_blk_size <= xvu_blk_cap)
#endif
#define XVU_LOAD_EXACT(data, n, spare) ((long)(n) == xv_rx_off - xvu_g_off && xv_rx_eof && !xvu_f.err && xvu_heap == __CPROVER_old(xvu_heap) + 1 && \
        XVU_LOAD_BLOCK(data, n, spare) && \
        (XVU_IN(xvu_g_off, xv_k, xvu_g_off + (long)(n)) ==> ((const uint8_t *)*(data))[xv_k - xvu_g_off] == xv_rx_k))
static ssize_t load_file(const char *filename, char **data, size_t spare_capacity)
__CPROVER_requires(XVU_LOAD_REQ(filename, data) && spare_capacity <= 1)
__CPROVER_assigns(XVU_LOAD_ASSIGNS)
__CPROVER_ensures(__CPROVER_return_value >= -1)
/* PO[C08,C18] load_file.stream_closed */
__CPROVER_ensures(XVU_LOAD_CLOSED)
/* PO[C08] load_file.failure_releases_everything */
__CPROVER_ensures(__CPROVER_return_value == -1 ==> XVU_LOAD_FAIL_CLEAN(data))
/* PO[C18] load_file.exactly_the_files_bytes */
__CPROVER_ensures(__CPROVER_return_value >= 0 ==> XVU_LOAD_EXACT(data, __CPROVER_return_value, spare_capacity))
;

ssize_t ut_load_file(const char *filename, char **data)
__CPROVER_requires(XVU_LOAD_REQ(filename, data))
__CPROVER_assigns(XVU_LOAD_ASSIGNS)
__CPROVER_ensures(__CPROVER_return_value >= -1)
/* PO[C08,C18] ut_load_file.stream_closed */
__CPROVER_ensures(XVU_LOAD_CLOSED)
/* PO[C08] ut_load_file.failure_releases_everything */
__CPROVER_ensures(__CPROVER_return_value == -1 ==> XVU_LOAD_FAIL_CLEAN(data))
/* PO[C18] ut_load_file.exactly_the_files_bytes */
__CPROVER_ensures(__CPROVER_return_value >= 0 ==> XVU_LOAD_EXACT(data, __CPROVER_return_value, 0))
;
/* the text variant: the bytes of the file followed by ONE NUL, inside the block; the count includes the NUL (so it is never 0) */
ssize_t ut_load_text_file(const char *filename, char **data)
__CPROVER_requires(XVU_LOAD_REQ(filename, data))
__CPROVER_assigns(XVU_LOAD_ASSIGNS)
__CPROVER_ensures(__CPROVER_return_value == -1 || __CPROVER_return_value >= 1)
/* PO[C08,C18] ut_load_text_file.stream_closed */
__CPROVER_ensures(XVU_LOAD_CLOSED)
/* PO[C08] ut_load_text_file.failure_releases_everything */
__CPROVER_ensures(__CPROVER_return_value == -1 ==> XVU_LOAD_FAIL_CLEAN(data))
/* PO[C18] ut_load_text_file.exactly_the_files_bytes */
__CPROVER_ensures(__CPROVER_return_value >= 1 ==> XVU_LOAD_EXACT(data, __CPROVER_return_value - 1, 1))
/* PO[C18] ut_load_text_file.nul_terminated */
__CPROVER_ensures(__CPROVER_return_value >= 1 ==> (*data)[__CPROVER_return_value - 1] == 0)
;

/* ================================================================================================== ut_self_net_ns (C18: namespace-specific credential file names)
 * "'name' buffer needs to be NAME_MAX in size" (util.h); the caller (finalize_tls_conf) passes char ns[NAME_MAX]. */
int ut_self_net_ns(char *name)
__CPROVER_requires(__CPROVER_is_fresh(name, XVU_NS_CAP) && XVU_DIR_RANGE && xvu_str[0].base == NULL && xvu_str[5].base == NULL)
__CPROVER_assigns(xv_errno, XVU_DIR_ASSIGNS, xvu_stat_calls, xvu_str[5], __CPROVER_object_upto(name, XVU_NS_CAP))
__CPROVER_ensures(__CPROVER_return_value == 0 || __CPROVER_return_value == -1)
/* PO[C08] ut_self_net_ns.dir_closed: the directory stream is closed on every path, once */
__CPROVER_ensures(xvu_dir_open == __CPROVER_old(xvu_dir_open) && xvu_closedir_calls - __CPROVER_old(xvu_closedir_calls) == xvu_opendir_ok - __CPROVER_old(xvu_opendir_ok))
/* PO[C18] ut_self_net_ns.name_is_a_string: success leaves a C string inside the buffer: empty (no named namespace) or the matching entry's name */
__CPROVER_ensures(__CPROVER_return_value == 0 ==> (name[0] == 0 || (xvu_ent_len < XVU_NS_CAP && name[xvu_ent_len] == 0)))
;
#endif /* XVU_UTIL */

#ifdef XVU_STREAM
/* ================================================================================================== ut_send_all
 * The outgoing ghost byte stream (prelude.h / contracts/lower.h idiom): the kernel has accepted xv_tx_off bytes; xv_tx_k is the
 * byte it was handed at the arbitrary stream offset xv_k.  Success: exactly count bytes went down, in order, each once.
 * Failure: -1 with the errno of the send that failed; what went down before is a prefix of the buffer (shorter than count). */
#define XVU_SENT_PREFIX(buf) (XVU_IN(xvu_g_off, xv_k, xv_tx_off) \
        ? (xv_tx_k_set && xv_tx_k == ((const uint8_t *)(buf))[xv_k - xvu_g_off]) \
        : (xv_tx_k == __CPROVER_old(xv_tx_k) && XVU_B(xv_tx_k_set) == XVU_B(__CPROVER_old(xv_tx_k_set))))
int ut_send_all(int fd, void *buf, size_t count, int flags)
__CPROVER_requires(count <= 0x7fffffffUL && __CPROVER_is_fresh(buf, count == 0 ? 1 : count))
__CPROVER_requires(xv_tx_off >= 0 && xv_tx_off <= XV_OFF_MAX && xv_tx_off == xvu_g_off && xvu_snd.fd == fd && xvu_snd.flags == flags && xvu_snd.same)
__CPROVER_assigns(xv_errno, xv_tx_off, xv_tx_k, xv_tx_k_set, xvu_snd.calls, xvu_snd.err, xvu_snd.same)
__CPROVER_ensures(__CPROVER_return_value == -1 || (__CPROVER_return_value >= 0 && (size_t)__CPROVER_return_value == count))
/* PO[C08] ut_send_all.all_bytes_in_order */
__CPROVER_ensures(__CPROVER_return_value >= 0 ==> xv_tx_off == xvu_g_off + (long)count)
/* PO[C08] ut_send_all.prefix_in_order */
__CPROVER_ensures(XVU_SENT_PREFIX(buf))
/* PO[C08] ut_send_all.errno_of_send */
__CPROVER_ensures(__CPROVER_return_value == -1 ==> (xv_errno == xvu_snd.err && xv_errno > 0 && xv_tx_off >= xvu_g_off && \
                  (count == 0 ? xv_tx_off == xvu_g_off : xv_tx_off - xvu_g_off < (long)count)))
/* every send(2) named this descriptor and these flags */
__CPROVER_ensures(xvu_snd.same)
;
#endif /* XVU_STREAM */

#ifdef XVU_XCMC
/* ================================================================================================== common/common_ctl.c
 * Strings are described by the ghost-length string model of env/utilctl_env.h: string 0 = the value of XCM_CTL (xvu_env),
 * string 1 = a directory entry name, string 2 = the control directory, string 3 = a derived path. */
#define XVU_DEFAULT_DIR_LEN (sizeof(CTL_PROTO_DEFAULT_DIR) - 1)
/* the environment: XCM_CTL unset, or set to ANY C string of up to XVU_ENV_MAX characters (longer than every capacity in use) */
#define XVU_ENV_MAX 5000
#define XVU_ENV_REQ ((xvu_env_set ==> (xvu_env_len <= XVU_ENV_MAX && __CPROVER_is_fresh(xvu_env, xvu_env_len + 1) && XVU_STR_IS(xvu_env, xvu_env_len) && \
                     xvu_str[0].base == xvu_env && xvu_str[0].len == xvu_env_len)) && (!xvu_env_set ==> xvu_str[0].base == NULL) && \
                     xvu_str[1].base == NULL && xvu_str[2].base == NULL)
#define XVU_ENV_USED(capacity) (xvu_env_set && xvu_env_len < (capacity))
#define XVU_DIR_LEN(capacity) (XVU_ENV_USED(capacity) ? xvu_env_len : XVU_DEFAULT_DIR_LEN)

/* ctl_get_dir: both callers pass a buffer that has room for the default directory (UNIX_PATH_MAX = 108, PATH_MAX = 4096) */
void ctl_get_dir(char *buf, size_t capacity)
__CPROVER_requires(capacity > XVU_DEFAULT_DIR_LEN && capacity <= XVU_CAP_MAX && __CPROVER_is_fresh(buf, capacity) && XVU_ENV_REQ)
__CPROVER_assigns(__CPROVER_object_upto(buf, capacity), xvu_str[2])
/* PO[C14,C08] ctl_get_dir.terminated_within_capacity: the result is the value of XCM_CTL if it fits WITH its NUL, otherwise the default; never truncated, always terminated inside the buffer */
__CPROVER_ensures(XVU_DIR_LEN(capacity) < capacity && XVU_STR_IS(buf, XVU_DIR_LEN(capacity)))
/* PO[C14] ctl_get_dir.value_of_env */
__CPROVER_ensures((XVU_ENV_USED(capacity) && XVU_IN(0, xv_j, (long)xvu_env_len)) ==> buf[xv_j] == xvu_env[xv_j])
__CPROVER_ensures((!XVU_ENV_USED(capacity) && XVU_IN(0, xv_j, (long)XVU_DEFAULT_DIR_LEN)) ==> buf[xv_j] == CTL_PROTO_DEFAULT_DIR[xv_j])
__CPROVER_ensures(xvu_str[2].base == buf && xvu_str[2].len == XVU_DIR_LEN(capacity))
;

/* ctl_derive_path.  Precondition = what BOTH call sites establish: ctl_dir is the string ctl_get_dir left in a buffer of the
 * SAME capacity as buf (create_ux of libxcm/ctl/ctl.c: UNIX_PATH_MAX / UNIX_PATH_MAX; xcmc_open: PATH_MAX / PATH_MAX), i.e. any
 * C string shorter than capacity.  The function returns nothing, so the only correct outcomes are: the complete path, NUL-
 * terminated, inside buf.  (A directory name that leaves no room for "/ctl-<pid>-<id>" is a legal value of XCM_CTL.) */
#ifndef XVU_DERIVE_ASSUMED
#define XVU_DERIVE_REQ(ctl_dir, buf, capacity) (capacity >= 1 && capacity <= XVU_CAP_MAX && xvu_g_len < capacity && __CPROVER_is_fresh(ctl_dir, capacity) && \
        XVU_STR_IS(ctl_dir, xvu_g_len) && __CPROVER_is_fresh(buf, capacity) && xvu_str[2].base == ctl_dir && xvu_str[2].len == xvu_g_len)
#else
/* (assumed of the call in xcmc_open: the directory is string 2, whatever its length -- nothing is bound to a ghost constant) */
#define XVU_DERIVE_REQ(ctl_dir, buf, capacity) (capacity >= 1 && capacity <= XVU_CAP_MAX && xvu_str[2].base == ctl_dir && xvu_str[2].len < capacity && \
        __CPROVER_r_ok(ctl_dir, xvu_str[2].len + 1) && ctl_dir[xvu_str[2].len] == 0 && __CPROVER_w_ok(buf, capacity))
#endif
#ifndef XVU_DERIVE_INT
void ctl_derive_path(const char *ctl_dir, pid_t creator_pid, int64_t sock_id, char *buf, size_t capacity)
__CPROVER_requires(XVU_DERIVE_REQ(ctl_dir, buf, capacity))
__CPROVER_assigns(__CPROVER_object_upto(buf, capacity), xvu_fmt, xvu_str[3], xvu_dp)
/* PO[C08,C14] ctl_derive_path.complete_path: the text was formatted once into (buf, capacity), fitted, and ends in a NUL inside buf: no truncated path is ever used (and the process is not aborted, obligation "abort reachable") */
__CPROVER_ensures(xvu_fmt.calls == __CPROVER_old(xvu_fmt.calls) + 1 && xvu_fmt.cap == capacity && xvu_fmt.ret >= 0 && (size_t)xvu_fmt.ret < capacity && buf[xvu_fmt.ret] == 0)
__CPROVER_ensures((size_t)xvu_fmt.ret < capacity ==> (xvu_str[3].base == buf && xvu_str[3].len == (size_t)xvu_fmt.ret && (XVU_IN(0, xv_j, (long)xvu_fmt.ret) ==> buf[xv_j] != 0)))
#ifdef XVU_DERIVE_ASSUMED
__CPROVER_ensures(xvu_dp.pid == creator_pid && xvu_dp.ref == sock_id && xvu_dp.calls == __CPROVER_old(xvu_dp.calls) + 1)
#endif
;
#else
/* -DXVU_DERIVE_INT: the contract for a ctl_derive_path that can say "does not fit" (int result: 0, or -1 with ENAMETOOLONG) -- the
 * shape of the repair proposed for the defect the void version has (abort / silently truncated path); switch the two jobs
 * ctl_derive_path and xcmc_open over with this define once /repo has it. */
int ctl_derive_path(const char *ctl_dir, pid_t creator_pid, int64_t sock_id, char *buf, size_t capacity)
__CPROVER_requires(XVU_DERIVE_REQ(ctl_dir, buf, capacity))
__CPROVER_assigns(xv_errno, __CPROVER_object_upto(buf, capacity), xvu_fmt, xvu_str[3], xvu_dp)
__CPROVER_ensures(xvu_fmt.calls == __CPROVER_old(xvu_fmt.calls) + 1 && xvu_fmt.cap == capacity && xvu_fmt.ret >= 0)
/* PO[C08,C14] ctl_derive_path.complete_path: success iff the text fitted; then it ends in a NUL inside buf; otherwise -1/ENAMETOOLONG -- never a truncated path, never an abort */
__CPROVER_ensures((size_t)xvu_fmt.ret < capacity ? (__CPROVER_return_value == 0 && buf[xvu_fmt.ret] == 0) : (__CPROVER_return_value == -1 && xv_errno == ENAMETOOLONG))
__CPROVER_ensures(__CPROVER_return_value == 0 ==> (xvu_str[3].base == buf && xvu_str[3].len == (size_t)xvu_fmt.ret && (XVU_IN(0, xv_j, (long)xvu_fmt.ret) ==> buf[xv_j] != 0)))
#ifdef XVU_DERIVE_ASSUMED
__CPROVER_ensures(xvu_dp.pid == creator_pid && xvu_dp.ref == sock_id && xvu_dp.calls == __CPROVER_old(xvu_dp.calls) + 1)
#endif
;
#endif

/* ctl_parse_info: a directory entry name -> (pid, socket reference).  strtol/strtoll are libc (model: any value, any number of
 * characters consumed inside the string).  XVU_PARSE_LEN: strlen(filename) -- a ghost constant where the contract is enforced,
 * the length readdir's model recorded where it is assumed (xcmc_list). */
#ifndef XVU_PARSE_ASSUMED
#define XVU_PARSE_LEN xvu_g_len
#define XVU_PARSE_REQ(filename) (xvu_g_len <= 255 && __CPROVER_is_fresh(filename, xvu_g_len + 1) && XVU_STR_IS(filename, xvu_g_len) && \
                                 xvu_str[1].base == filename && xvu_str[1].len == xvu_g_len && xvu_str[0].base == NULL && xvu_str[2].base == NULL)
#else
#define XVU_PARSE_LEN xvu_ent_len
#define XVU_PARSE_REQ(filename) (xvu_ent_len <= 255 && __CPROVER_r_ok(filename, xvu_ent_len + 1) && XVU_STR_IS(filename, xvu_ent_len))
#endif
#define XVU_IS_CTL_PREFIX(f) ((f)[0] == 'c' && (f)[1] == 't' && (f)[2] == 'l' && (f)[3] == '-')
bool ctl_parse_info(const char *filename, pid_t *creator_pid, int64_t *sock_ref)
__CPROVER_requires(XVU_PARSE_REQ(filename) && __CPROVER_w_ok(creator_pid, sizeof(*creator_pid)) && __CPROVER_w_ok(sock_ref, sizeof(*sock_ref)))
__CPROVER_assigns(*creator_pid, *sock_ref, xvu_strto)
/* PO[C14] ctl_parse_info.accepts_only_ctl_names: accepted names are "ctl-" <number> "-" <number> and nothing behind; the numbers are what libc read */
__CPROVER_ensures(__CPROVER_return_value ==> (XVU_PARSE_LEN > 4 && XVU_IS_CTL_PREFIX(filename) && xvu_strto.l_used >= 1 && xvu_strto.ll_used >= 1 && \
                  filename[4 + xvu_strto.l_used] == '-' && 4 + xvu_strto.l_used + 1 + xvu_strto.ll_used <= XVU_PARSE_LEN && filename[4 + xvu_strto.l_used + 1 + xvu_strto.ll_used] == 0 && \
                  *creator_pid == (pid_t)xvu_strto.l_val && (long long)*sock_ref == xvu_strto.ll_val))
/* PO[C14] ctl_parse_info.pid_not_wrapped: the process id reported is the number in the name, not that number modulo 2^32 */
__CPROVER_ensures(__CPROVER_return_value ==> (xvu_strto.l_val >= -2147483647L - 1 && xvu_strto.l_val <= 2147483647L))
/* PO[C14] ctl_parse_info.rejected_leaves_outputs */
__CPROVER_ensures(!__CPROVER_return_value ==> (*creator_pid == __CPROVER_old(*creator_pid) && *sock_ref == __CPROVER_old(*sock_ref)))
;

/* ================================================================================================== libxcmctl/xcmc.c
 * The session's descriptor is a (blocking) AF_UNIX SOCK_SEQPACKET socket of the ghost table of env/fd.h; the peer -- whatever
 * process created the socket file in the control directory -- is NOT trusted: recv delivers an arbitrary record of arbitrary
 * length (xvu_rx: the protocol fields of a full-size record, as the peer wrote them). */
#define XVU_MSG_SIZE sizeof(struct ctl_proto_msg)
#define XVU_SESS_OK(s) (XV_FD_OURS((s)->fd) && xv_fdt.e[(s)->fd].seqpacket && xv_open_cnt >= 1)
#define XVU_SESS_HEAP_RANGE (xvu_sess_heap >= 0 && xvu_sess_heap < 1000000)
#define XVU_SLOT_SAME(i) (XVU_B(xv_fdt.e[i].open) == XVU_B(__CPROVER_old(xv_fdt.e[i].open)))

/* ---- xcmc_open: the path comes from ctl_get_dir + ctl_derive_path (assumed here under its contract above: complete path,
 * shorter than PATH_MAX); socket, two timeouts, connect; failure leaves no descriptor and no session object. */
struct xcmc_session *xcmc_open(pid_t creator_pid, int64_t sock_ref)
__CPROVER_requires(XV_FD_GHOST_RANGE && XVU_SESS_HEAP_RANGE && xv_fk >= 0 && xv_fk < XV_NFD && XVU_ENV_REQ)
__CPROVER_assigns(xv_errno, xv_blocked, XV_SOCKET_ASSIGNS, XV_SOCKOPT_ASSIGNS, XV_CONNECT_ASSIGNS, XV_CLOSE_ASSIGNS, xvu_sess_heap, xvu_fmt, xvu_dp, xvu_str[2], xvu_str[3], xvu_str[5])
/* PO[C14] xcmc_open.path_of_this_socket: the path is derived once, from this pid and socket reference */
__CPROVER_ensures(xvu_dp.calls == __CPROVER_old(xvu_dp.calls) + 1 && xvu_dp.pid == creator_pid && xvu_dp.ref == sock_ref)
/* PO[C08] xcmc_open.owned_session: success hands out a new session object owning ONE new descriptor -- a SOCK_SEQPACKET socket, connected, both timeouts set */
__CPROVER_ensures(__CPROVER_return_value != NULL ==> (__CPROVER_is_fresh(__CPROVER_return_value, sizeof(struct xcmc_session)) && XVU_SESS_OK(__CPROVER_return_value) && \
                  xv_open_cnt == __CPROVER_old(xv_open_cnt) + 1 && xvu_sess_heap == __CPROVER_old(xvu_sess_heap) + 1 && xv_close_calls == __CPROVER_old(xv_close_calls) && \
                  xv_connect_ok_calls == __CPROVER_old(xv_connect_ok_calls) + 1 && xv_connect_fd == __CPROVER_return_value->fd && \
                  xv_sockopt_calls == __CPROVER_old(xv_sockopt_calls) + 2 && xv_sockopt_fd == __CPROVER_return_value->fd && \
                  (xv_fk != __CPROVER_return_value->fd ==> XVU_SLOT_SAME(xv_fk))))
/* PO[C08] xcmc_open.failure_leaves_nothing: NULL with errno set; no descriptor stays open (the table is as before), no session object is left */
__CPROVER_ensures(__CPROVER_return_value == NULL ==> (xv_errno > 0 && xv_open_cnt == __CPROVER_old(xv_open_cnt) && xvu_sess_heap == __CPROVER_old(xvu_sess_heap) && XVU_SLOT_SAME(xv_fk) && \
                  xv_close_calls - __CPROVER_old(xv_close_calls) <= 1))
;

/* ---- xcmc_close */
int xcmc_close(struct xcmc_session *session)
__CPROVER_requires(XV_FD_GHOST_RANGE && XVU_SESS_HEAP_RANGE && xv_fk >= 0 && xv_fk < XV_NFD)
__CPROVER_requires(session == NULL || (__CPROVER_is_fresh(session, sizeof(*session)) && XVU_SESS_OK(session) && xvu_sess_heap >= 1 && session->fd == xvu_g_int))
__CPROVER_assigns(xv_errno, XV_CLOSE_ASSIGNS, xvu_sess_heap)
__CPROVER_frees(session)
/* PO[C08] xcmc_close.closes_once_and_frees: the descriptor is closed exactly once, the session object freed; only that slot of the table changes */
__CPROVER_ensures(session != NULL ==> (xv_close_calls == __CPROVER_old(xv_close_calls) + 1 && xv_close_fd == xvu_g_int && !xv_fdt.e[xvu_g_int].open && \
                  xv_open_cnt == __CPROVER_old(xv_open_cnt) - 1 && xvu_sess_heap == __CPROVER_old(xvu_sess_heap) - 1 && __CPROVER_was_freed(session) && \
                  (xv_fk != xvu_g_int ==> XVU_SLOT_SAME(xv_fk)) && (__CPROVER_return_value == 0 || (__CPROVER_return_value == -1 && xv_errno > 0))))
/* PO[C08] xcmc_close.null_is_a_no_op */
__CPROVER_ensures(session == NULL ==> (__CPROVER_return_value == 0 && xv_close_calls == __CPROVER_old(xv_close_calls) && xv_open_cnt == __CPROVER_old(xv_open_cnt) && \
                  xvu_sess_heap == __CPROVER_old(xvu_sess_heap) && xv_errno == __CPROVER_old(xv_errno)))
;

/* ---- xcmc_attr_get */
#define XVU_VAL_CAP_MAX 65536      /* caller capacities above this are not explored (far above the 512-byte wire field and above sizeof(struct ctl_proto_msg)) */
#define XVU_NAME_OBJ_MAX 200       /* attribute names of 0..200 characters are explored (the wire field holds 63) */
#define XVU_OFF_NAME offsetof(struct ctl_proto_msg, get_attr_req.attr_name)
#define XVU_OFF_VAL (offsetof(struct ctl_proto_msg, get_attr_cfm.attr) + offsetof(struct ctl_proto_attr, any_value))
#define XVU_SENT_ONE(s) (xv_send_calls == __CPROVER_old(xv_send_calls) + 1 && xv_send_fd == (s)->fd && xv_send_len == XVU_MSG_SIZE && xv_send_flags == MSG_NOSIGNAL)
#define XVU_SEND_OK (xv_send_ret == (long)XVU_MSG_SIZE)
#define XVU_RECV_ONE(s) (xv_recv_calls == __CPROVER_old(xv_recv_calls) + 1 && xv_recv_fd == (s)->fd && xv_recv_len == XVU_MSG_SIZE && xv_recv_flags == 0)
/* the reply is a confirmation whose value the protocol can carry and the caller has room for */
#define XVU_CFM_OK(cap) (xvu_rx.full && xvu_rx.type == ctl_proto_type_get_attr_cfm && xvu_rx.value_len <= CTL_ATTR_VALUE_MAX && xvu_rx.value_len <= (cap))
int xcmc_attr_get(struct xcmc_session *session, const char *attr_name, enum xcm_attr_type *value_type, void *attr_value, size_t value_capacity)
__CPROVER_requires(XV_FD_GHOST_RANGE && __CPROVER_is_fresh(session, sizeof(*session)) && XVU_SESS_OK(session))
__CPROVER_requires(xvu_g_len <= XVU_NAME_OBJ_MAX && __CPROVER_is_fresh(attr_name, xvu_g_len + 1) && XVU_STR_IS(attr_name, xvu_g_len) && \
                   xvu_str[1].base == attr_name && xvu_str[1].len == xvu_g_len && xvu_str[0].base == NULL && xvu_str[2].base == NULL)
__CPROVER_requires((value_type == NULL || __CPROVER_is_fresh(value_type, sizeof(*value_type))) && value_capacity <= XVU_VAL_CAP_MAX && \
                   __CPROVER_is_fresh(attr_value, value_capacity == 0 ? 1 : value_capacity))
__CPROVER_assigns(xv_errno, xv_blocked, XV_SEND_ASSIGNS, XV_RECV_ASSIGNS, xvu_rx, xvu_tx_tracked, xvu_str[5])
__CPROVER_assigns(value_type != NULL: *value_type)
__CPROVER_assigns(value_capacity > 0: __CPROVER_object_upto(attr_value, value_capacity))
__CPROVER_ensures(__CPROVER_return_value >= -1)
/* PO[C14] xcmc_attr_get.long_name_refused: a name that does not fit attr_name[64] with its NUL is refused before anything is sent */
__CPROVER_ensures(xvu_g_len >= XCM_ATTR_NAME_MAX ==> (__CPROVER_return_value == -1 && xv_errno == EOVERFLOW && xv_send_calls == __CPROVER_old(xv_send_calls) && xv_recv_calls == __CPROVER_old(xv_recv_calls)))
/* PO[C14] xcmc_attr_get.one_request: otherwise exactly ONE full-size message goes out on the session's descriptor: type get_attr_req, the name with its NUL, zeros behind it in the name field */
__CPROVER_ensures(xvu_g_len < XCM_ATTR_NAME_MAX ==> (XVU_SENT_ONE(session) && ((XVU_IN(0, xv_j, 4) || XVU_IN(8, xv_j, XVU_TX_HDR)) ==> xvu_tx_tracked) && \
                  (XVU_IN(0, xv_j, 4) ==> xv_send_c == 0) && \
                  (XVU_IN((long)XVU_OFF_NAME, xv_j, (long)(XVU_OFF_NAME + xvu_g_len)) ==> xv_send_c == (uint8_t)attr_name[xv_j - (long)XVU_OFF_NAME]) && \
                  (XVU_IN((long)(XVU_OFF_NAME + xvu_g_len), xv_j, (long)(XVU_OFF_NAME + XCM_ATTR_NAME_MAX)) ==> xv_send_c == 0)))
__CPROVER_ensures((xvu_g_len < XCM_ATTR_NAME_MAX && !XVU_SEND_OK) ==> (__CPROVER_return_value == -1 && xv_recv_calls == __CPROVER_old(xv_recv_calls)))
/* PO[C14] xcmc_attr_get.reply_size_checked: one recv of at most one full message; anything but a full-size reply is a failure */
__CPROVER_ensures((xvu_g_len < XCM_ATTR_NAME_MAX && XVU_SEND_OK) ==> (XVU_RECV_ONE(session) && (!xvu_rx.full ==> __CPROVER_return_value == -1)))
/* PO[C14] xcmc_attr_get.value_len_not_trusted: a length is reported only if it is within the caller's capacity AND within the 512-byte value field of the protocol */
__CPROVER_ensures(__CPROVER_return_value >= 0 ==> ((size_t)__CPROVER_return_value <= value_capacity && (size_t)__CPROVER_return_value <= CTL_ATTR_VALUE_MAX))
/* PO[C14] xcmc_attr_get.confirmation: a well-formed confirmation yields its length, type and value bytes */
__CPROVER_ensures((xvu_g_len < XCM_ATTR_NAME_MAX && XVU_SEND_OK && XVU_CFM_OK(value_capacity)) ==> ((size_t)__CPROVER_return_value == xvu_rx.value_len && \
                  (value_type != NULL ==> (int)*value_type == xvu_rx.value_type) && \
                  (xv_mc < xvu_rx.value_len ==> ((const uint8_t *)attr_value)[xv_mc] == xvu_rx.val_mc)))
/* PO[C14] xcmc_attr_get.rejection_and_garbage: a rejection fails with the peer's errno; a confirmation that does not fit fails with EOVERFLOW; any other type is a protocol error */
__CPROVER_ensures((xvu_g_len < XCM_ATTR_NAME_MAX && XVU_SEND_OK && xvu_rx.full && !XVU_CFM_OK(value_capacity)) ==> (__CPROVER_return_value == -1 && \
                  (xvu_rx.type == ctl_proto_type_get_attr_rej ? xv_errno == xvu_rx.rej_errno : \
                   xvu_rx.type == ctl_proto_type_get_attr_cfm ? (xv_errno == EOVERFLOW || xv_errno == EPROTO) : xv_errno == EPROTO)))
;

/* ---- xcmc_attr_get_all.  The callback (a function pointer) is the contract-carrying xvu_attr_cb: its PRECONDITION is what a
 * callback written against xcmc.h relies on -- the name is a C string inside name[64], the value pointer is good for attr_len
 * bytes and attr_len is at most the 512 bytes of the protocol field. */
#ifdef XVU_CB_NAME_CHECK
#define XVU_CB_NAME_OK(attr_name) XVU_CSTR64(attr_name)
#else   /* (variant above64 of job xcmc_attr_get_all: the loop must not be reached at all; the 64 reads at a symbolic entry index are left out) */
#define XVU_CB_NAME_OK(attr_name) 1
#endif
void xvu_attr_cb(const char *attr_name, enum xcm_attr_type type, void *attr_value, size_t attr_len, void *cb_data)
/* PO[C14] xcmc_attr_get_all.callback_gets_a_terminated_name_and_a_bounded_value */
__CPROVER_requires(attr_len <= CTL_ATTR_VALUE_MAX)
__CPROVER_requires(__CPROVER_r_ok(attr_value, attr_len == 0 ? 1 : attr_len))
__CPROVER_requires(__CPROVER_r_ok(attr_name, XCM_ATTR_NAME_MAX))
__CPROVER_requires(XVU_CB_NAME_OK(attr_name))
__CPROVER_assigns(xvu_cb)
__CPROVER_ensures(xvu_cb.calls == __CPROVER_old(xvu_cb.calls) + 1)
;
#define XVU_ALL_OK (xvu_rx.full && xvu_rx.type == ctl_proto_type_get_all_attr_cfm && xvu_rx.attrs_len <= CTL_PROTO_MAX_ATTRS)
int xcmc_attr_get_all(struct xcmc_session *session, xcmc_attr_cb cb, void *cb_data)
__CPROVER_requires(XV_FD_GHOST_RANGE && __CPROVER_is_fresh(session, sizeof(*session)) && XVU_SESS_OK(session) && cb == xvu_attr_cb)
__CPROVER_assigns(xv_errno, xv_blocked, XV_SEND_ASSIGNS, XV_RECV_ASSIGNS, xvu_rx, xvu_tx_tracked, xvu_cb)
__CPROVER_ensures(__CPROVER_return_value == 0 || __CPROVER_return_value == -1)
/* PO[C14] xcmc_attr_get_all.one_request: one full-size message of type get_all_attr_req, all zero behind the type */
__CPROVER_ensures(XVU_SENT_ONE(session) && ((XVU_IN(0, xv_j, 4) || XVU_IN(8, xv_j, XVU_TX_HDR)) ==> xvu_tx_tracked) && (xv_j == 0 ==> xv_send_c == ctl_proto_type_get_all_attr_req) && \
                  (XVU_IN(1, xv_j, 4) ==> xv_send_c == 0) && (XVU_IN(8, xv_j, XVU_TX_HDR) ==> xv_send_c == 0))
/* PO[C14] xcmc_attr_get_all.reply_checked: short replies, other types and attribute counts above the 64 entries of the message fail, without any callback */
__CPROVER_ensures((!XVU_SEND_OK || !XVU_ALL_OK) ==> (__CPROVER_return_value == -1 && xvu_cb.calls == __CPROVER_old(xvu_cb.calls)))
__CPROVER_ensures((XVU_SEND_OK && xvu_rx.full && !XVU_ALL_OK) ==> xv_errno == EPROTO)
/* PO[C14] xcmc_attr_get_all.one_callback_per_attribute */
__CPROVER_ensures((XVU_SEND_OK && XVU_ALL_OK && __CPROVER_return_value == 0) ==> xvu_cb.calls == __CPROVER_old(xvu_cb.calls) + xvu_rx.attrs_len)
;

/* ---- xcmc_list: callback xvu_list_cb (contract-carrying); ctl_parse_info assumed under its contract above */
void xvu_list_cb(pid_t creator_pid, int64_t sock_ref, void *cb_data)
__CPROVER_requires(1)
__CPROVER_assigns(xvu_lcb)
__CPROVER_ensures(xvu_lcb.calls == __CPROVER_old(xvu_lcb.calls) + 1 && xvu_lcb.pid == creator_pid && xvu_lcb.ref == sock_ref)
;
int xcmc_list(xcmc_list_cb cb, void *cb_data)
__CPROVER_requires(XVU_DIR_RANGE && XVU_ENV_REQ && cb == xvu_list_cb)
__CPROVER_assigns(xv_errno, XVU_DIR_ASSIGNS, xvu_lcb, xvu_strto, xvu_str[2])
__CPROVER_ensures(__CPROVER_return_value == 0 || __CPROVER_return_value == -1)
/* PO[C08] xcmc_list.dir_closed: the directory stream is closed exactly once iff it was opened; -1 iff it could not be opened */
__CPROVER_ensures(xvu_opendir_calls == __CPROVER_old(xvu_opendir_calls) + 1 && xvu_dir_open == __CPROVER_old(xvu_dir_open) && \
                  xvu_closedir_calls - __CPROVER_old(xvu_closedir_calls) == xvu_opendir_ok - __CPROVER_old(xvu_opendir_ok) && \
                  (__CPROVER_return_value == 0) == (xvu_opendir_ok == __CPROVER_old(xvu_opendir_ok) + 1))
;
#endif /* XVU_XCMC */

#include "contracts/end.h"
#endif
