/* contracts/utilctl.h -- unit utilctl: the I/O helpers of common/util.c, common/common_ctl.c and the client library of the
 * control interface libxcmctl/xcmc.c.  Properties: C05 (the poll/accept helpers never sleep), C08 (every path releases
 * what it took; nothing aborts), C14 (the control-interface client does not trust the wire), C18 (credential files are
 * read exactly).  Attached by redeclaration after the real TU was included; the kernel and libc are env/fd.h and
 * env/utilctl_env.h (TRUSTED).  Two sections: XVU_UTIL (harness/utilctl/_unit_util.h, _unit_stream.h) and XVU_XCMC
 * (harness/utilctl/_unit_xcmc.h).
 *
 * Ghost conventions: xv_j, xv_k, xv_fk (never assigned) are arbitrary indices -- a clause about "the byte at xv_j" is proved
 * for every offset.  xvu_g_* are ghost constants bound to entry values by a requires clause of the contract under proof.
 */
#ifndef XV_UTILCTL_H
#define XV_UTILCTL_H
#include "contracts/begin.h"

/* ghost constants xvu_g_len, xvu_g_off, xvu_g_int (never assigned by code or stub): env/utilctl_env.h */

#define XVU_CAP_MAX 4096   /* buffer capacities above this are not explored (is_fresh needs a bound) */
#define XVU_IN(lo, x, hi) ((x) >= (lo) && (x) < (hi))
/* p is a C string of exactly n characters: NUL at n, no NUL at the arbitrary position xv_j before it */
#define XVU_STR_IS(p, n) ((p)[n] == 0 && (XVU_IN(0, xv_j, (long)(n)) ==> (p)[xv_j] != 0))
#define XVU_B(x) ((x) ? 1 : 0)

#ifdef XVU_UTIL
/* ================================================================================================== fcntl helpers */
#define XVU_FC_ASSIGNS xvu_fc.flags, xvu_fc.getfl_calls, xvu_fc.setfl_calls, xvu_fc.setfl_ok, xvu_fc.setfl_arg, xvu_fc.other_calls
int ut_set_blocking(int fd, bool should_block)
__CPROVER_requires(fd == xvu_fl_fd && XVU_FC_RANGE && xvu_fl == xvu_g_int)
__CPROVER_assigns(xv_errno, XVU_FC_ASSIGNS)
__CPROVER_ensures(__CPROVER_return_value == 0 || (__CPROVER_return_value == -1 && xv_errno > 0))
/* PO[C05] ut_set_blocking.exactly_o_nonblock: success sets / clears exactly O_NONBLOCK, every other status flag is kept */
__CPROVER_ensures(__CPROVER_return_value == 0 ==> (xvu_fl_valid && xvu_fl == (should_block ? (xvu_g_int & ~O_NONBLOCK) : (xvu_g_int | O_NONBLOCK))))
/* PO[C05] ut_set_blocking.failure_changes_nothing */
__CPROVER_ensures(__CPROVER_return_value == -1 ==> xvu_fl == xvu_g_int)
/* one F_GETFL, one F_SETFL, nothing else */
__CPROVER_ensures(xvu_fc.getfl_calls == __CPROVER_old(xvu_fc.getfl_calls) + 1 && xvu_fc.setfl_calls == __CPROVER_old(xvu_fc.setfl_calls) + 1 && \
                  xvu_fc.other_calls == __CPROVER_old(xvu_fc.other_calls))
;

bool ut_is_blocking(int fd)
__CPROVER_requires(fd == xvu_fl_fd && XVU_FC_RANGE)
__CPROVER_assigns(xv_errno, xvu_fc.getfl_calls)
/* PO[C05] ut_is_blocking.reads_o_nonblock: for a valid descriptor the answer is the O_NONBLOCK bit; nothing is changed (frame), errno kept */
__CPROVER_ensures(xvu_fl_valid ==> (XVU_B(__CPROVER_return_value) == XVU_B((xvu_fl & O_NONBLOCK) == 0) && xv_errno == __CPROVER_old(xv_errno)))
;

/* ================================================================================================== SO_ERROR / poll helpers (C05) */
#define XVU_FD_REQ(fd) (XV_FD_OURS(fd) && XV_FD_GHOST_RANGE && xv_open_cnt >= 1)
/* what SO_ERROR said: the pending error (0: none), or the errno of a failed getsockopt */
#define XVU_SO_OUTCOME (xvu_so.rc == 0 ? xvu_so.val : xvu_so.err)
static int socket_error(int fd)
__CPROVER_requires(XVU_FD_REQ(fd) && XVU_SO_RANGE)
__CPROVER_assigns(xv_errno, xvu_so)
__CPROVER_ensures(xvu_so.calls == __CPROVER_old(xvu_so.calls) + 1 && xvu_so.fd == fd && xvu_so.level == SOL_SOCKET && xvu_so.name == SO_ERROR)
/* PO[C05] socket_error.actual_outcome: 0 iff the kernel reports no pending error (errno kept); otherwise -1 and errno is the socket's error (or getsockopt's own) */
__CPROVER_ensures((__CPROVER_return_value == 0 && xvu_so.rc == 0 && xvu_so.val == 0 && xv_errno == __CPROVER_old(xv_errno)) || \
                  (__CPROVER_return_value == -1 && XVU_SO_OUTCOME != 0 && xv_errno == XVU_SO_OUTCOME))
;

#define XVU_WRITABLE ((xvu_pl.revents & (POLLOUT | POLLERR)) != 0)
int ut_established(int fd)
__CPROVER_requires(XVU_FD_REQ(fd) && XVU_SO_RANGE && XVU_POLL_RANGE)
/* the frame is the C05 claim: xv_blocked is not assignable (the poll model writes it for every timeout other than 0) */
__CPROVER_assigns(xv_errno, xvu_so, xvu_pl)
/* PO[C05] ut_established.poll_zero_timeout: exactly one poll, on this descriptor, for POLLOUT, timeout 0 */
__CPROVER_ensures(xvu_pl.calls == __CPROVER_old(xvu_pl.calls) + 1 && xvu_pl.fd == fd && xvu_pl.events == POLLOUT && xvu_pl.timeout == 0 && xvu_pl.nfds == 1)
/* PO[C05] ut_established.in_progress: not (yet) writable: -1/EINPROGRESS, SO_ERROR is not consumed */
__CPROVER_ensures(!XVU_WRITABLE ==> (__CPROVER_return_value == -1 && xv_errno == EINPROGRESS && xvu_so.calls == __CPROVER_old(xvu_so.calls)))
/* PO[C05] ut_established.actual_outcome: writable or in error: SO_ERROR is read once; 0 iff it is 0 (errno kept), else -1 with that error */
__CPROVER_ensures(XVU_WRITABLE ==> (xvu_so.calls == __CPROVER_old(xvu_so.calls) + 1 && xvu_so.fd == fd && \
                  ((__CPROVER_return_value == 0 && xvu_so.rc == 0 && xvu_so.val == 0 && xv_errno == __CPROVER_old(xv_errno)) || \
                   (__CPROVER_return_value == -1 && XVU_SO_OUTCOME != 0 && xv_errno == XVU_SO_OUTCOME))))
;

bool ut_is_readable(int fd)
__CPROVER_requires(XVU_POLL_RANGE)
__CPROVER_assigns(xv_errno, xvu_pl)
/* PO[C05] ut_is_readable.poll_zero_timeout */
__CPROVER_ensures(xvu_pl.calls == __CPROVER_old(xvu_pl.calls) + 1 && xvu_pl.fd == fd && xvu_pl.events == POLLIN && xvu_pl.timeout == 0 && xvu_pl.nfds == 1)
/* PO[C05] ut_is_readable.answer: readable iff poll reported POLLIN for the descriptor; errno is left as it was (also when poll fails) */
__CPROVER_ensures(XVU_B(__CPROVER_return_value) == XVU_B(xvu_pl.rc == 1 && (xvu_pl.revents & POLLIN) != 0) && xv_errno == __CPROVER_old(xv_errno))
;

/* ut_accept: the listening descriptor is the library's and O_NONBLOCK; the flags are handed to accept4 (whose model has the
 * obligation "SOCK_NONBLOCK asked for" and makes the new descriptor non-blocking iff it was) */
int ut_accept(int sockfd, struct sockaddr *addr, socklen_t *addrlen, unsigned int flags)
__CPROVER_requires(XVU_FD_REQ(sockfd) && xv_fdt.e[sockfd].nonblock && (flags & SOCK_NONBLOCK) != 0 && flags <= 0x7fffffffU && addr == NULL && addrlen == NULL)
__CPROVER_requires(xv_fk >= 0 && xv_fk < XV_NFD)
__CPROVER_assigns(xv_errno, XV_ACCEPT_ASSIGNS)
/* PO[C05] ut_accept.nonblocking_descriptor: a descriptor obtained is new, the library's, and O_NONBLOCK; every other slot of the table is untouched */
__CPROVER_ensures(__CPROVER_return_value >= 0 ==> (__CPROVER_return_value < XV_NFD && __CPROVER_return_value != sockfd && xv_fdt.e[__CPROVER_return_value].open && \
                  xv_fdt.e[__CPROVER_return_value].nonblock && xv_open_cnt == __CPROVER_old(xv_open_cnt) + 1))
__CPROVER_ensures(xv_fk != __CPROVER_return_value ==> (XVU_B(xv_fdt.e[xv_fk].open) == XVU_B(__CPROVER_old(xv_fdt.e[xv_fk].open)) && \
                  XVU_B(xv_fdt.e[xv_fk].nonblock) == XVU_B(__CPROVER_old(xv_fdt.e[xv_fk].nonblock))))
/* PO[C05] ut_accept.eagain: failure is -1 with the kernel's errno ("would block" is EAGAIN: on Linux EWOULDBLOCK is the same number); nothing was opened */
__CPROVER_ensures(__CPROVER_return_value < 0 ==> (__CPROVER_return_value == -1 && xv_errno > 0 && (EWOULDBLOCK == EAGAIN || xv_errno != EWOULDBLOCK) && xv_open_cnt == __CPROVER_old(xv_open_cnt)))
__CPROVER_ensures(xv_accept_calls == __CPROVER_old(xv_accept_calls) + 1 && xv_accept_fd == sockfd)
;

/* ================================================================================================== ut_vaprintf / ut_aprintf
 * append formatted text to the C string in buf[0..capacity): never a byte outside the buffer, the result is NUL-terminated, the
 * old text is kept.  (vsnprintf model: any would-be length; see env/utilctl_env.h) */
#define XVU_LEFT(capacity) ((capacity) - xvu_g_len - 1)
#define XVU_APPENDED(capacity) (XVU_LEFT(capacity) == 0 ? 0 : ((size_t)xvu_vsn.ret < XVU_LEFT(capacity) ? (size_t)xvu_vsn.ret : XVU_LEFT(capacity) - 1))
void ut_vaprintf(char *buf, size_t capacity, const char *format, va_list ap)
__CPROVER_requires(capacity >= 1 && capacity <= XVU_CAP_MAX && __CPROVER_is_fresh(buf, capacity) && __CPROVER_is_fresh(format, 4))
__CPROVER_requires(xvu_g_len < capacity && XVU_STR_IS(buf, xvu_g_len) && xvu_str[0].base == buf && xvu_str[0].len == xvu_g_len && XVU_VSN_RANGE)
__CPROVER_assigns(xvu_vsn, __CPROVER_object_upto(buf, capacity))
/* PO[C08] ut_vaprintf.within_capacity: the text ends inside the buffer; nothing is written when there is no room */
__CPROVER_ensures(xvu_g_len + XVU_APPENDED(capacity) < capacity && buf[xvu_g_len + XVU_APPENDED(capacity)] == 0)
__CPROVER_ensures(XVU_LEFT(capacity) == 0 ? xvu_vsn.calls == __CPROVER_old(xvu_vsn.calls) \
                  : (xvu_vsn.calls == __CPROVER_old(xvu_vsn.calls) + 1 && xvu_vsn.dst == buf + xvu_g_len && xvu_vsn.cap == XVU_LEFT(capacity)))
/* PO[C08] ut_vaprintf.old_text_kept */
__CPROVER_ensures(XVU_IN(0, xv_j, (long)xvu_g_len) ==> buf[xv_j] == __CPROVER_old(buf[xv_j]))
;

/* the variadic front end: same contract (the harness passes no variable arguments; the vsnprintf model does not look at them) */
void ut_aprintf(char *buf, size_t capacity, const char *format, ...)
__CPROVER_requires(capacity >= 1 && capacity <= XVU_CAP_MAX && __CPROVER_is_fresh(buf, capacity) && __CPROVER_is_fresh(format, 4))
__CPROVER_requires(xvu_g_len < capacity && XVU_STR_IS(buf, xvu_g_len) && xvu_str[0].base == buf && xvu_str[0].len == xvu_g_len && XVU_VSN_RANGE)
__CPROVER_assigns(xvu_vsn, __CPROVER_object_upto(buf, capacity))
/* PO[C08] ut_aprintf.within_capacity */
__CPROVER_ensures(xvu_g_len + XVU_APPENDED(capacity) < capacity && buf[xvu_g_len + XVU_APPENDED(capacity)] == 0)
/* PO[C08] ut_aprintf.old_text_kept */
__CPROVER_ensures(XVU_IN(0, xv_j, (long)xvu_g_len) ==> buf[xv_j] == __CPROVER_old(buf[xv_j]))
;

/* ================================================================================================== double <-> timespec */
void ut_f_to_timespec(double t, struct timespec *ts)
__CPROVER_requires(t >= 0.0 && t <= 9.0e18 && __CPROVER_is_fresh(ts, sizeof(*ts)))
__CPROVER_assigns(ts->tv_sec, ts->tv_nsec)
/* PO[C08] ut_f_to_timespec.valid_timespec: whole seconds, 0 <= tv_nsec <= 999999999 (what timerfd_settime / ppoll accept) */
__CPROVER_ensures(ts->tv_sec >= 0 && (double)ts->tv_sec <= t && t - (double)ts->tv_sec < 1.0 && ts->tv_nsec >= 0 && ts->tv_nsec <= 999999999L)
;
double ut_timespec_to_f(const struct timespec *ts)
__CPROVER_requires(__CPROVER_is_fresh(ts, sizeof(*ts)) && ts->tv_sec >= 0 && ts->tv_sec <= (1L << 53) && ts->tv_nsec >= 0 && ts->tv_nsec <= 999999999L)
__CPROVER_assigns()
/* PO[C08] ut_timespec_to_f.in_range: the result lies between the whole seconds and the next second */
__CPROVER_ensures(__CPROVER_return_value >= (double)ts->tv_sec && __CPROVER_return_value <= (double)ts->tv_sec + 1.0)
;

/* ================================================================================================== load_file & co (C18, C08) */
#define XVU_LOAD_ASSIGNS xv_errno, *data, xvu_f, xv_rx_off, xv_rx_eof, xvu_heap, xvu_blk_size, __CPROVER_object_whole(xvu_blk)
#define XVU_LOAD_REQ(filename, data) (__CPROVER_is_fresh(filename, 8) && __CPROVER_is_fresh(data, sizeof(*data)) && XVU_FILE_RANGE && XVU_HEAP_RANGE && \
        xv_rx_off >= 0 && xv_rx_off <= XV_OFF_MAX && xv_rx_off == xvu_g_off && \
        xvu_blk_cap >= 1 && xvu_blk_cap <= XVU_BLK_MAX && __CPROVER_is_fresh(xvu_blk, xvu_blk_cap) && xvu_blk_size == 0)
/* every path closes the stream it opened, exactly once */
#define XVU_LOAD_CLOSED (xvu_f.open == __CPROVER_old(xvu_f.open) && xvu_f.fopen_calls == __CPROVER_old(xvu_f.fopen_calls) + 1 && \
        xvu_f.fclose_calls - __CPROVER_old(xvu_f.fclose_calls) == xvu_f.fopen_ok - __CPROVER_old(xvu_f.fopen_ok))
/* failure: no block is left allocated, and no pointer to one is handed out */
#define XVU_LOAD_FAIL_CLEAN(data) (xvu_heap == __CPROVER_old(xvu_heap) && xvu_blk_size == 0 && xv_errno > 0 && (xvu_f.fopen_ok != __CPROVER_old(xvu_f.fopen_ok) ==> *(data) == NULL))
/* success: the n bytes are ALL bytes the stream delivered up to its end (end of file seen, no read error), in order, in one
 * block owned by the caller, with `spare` more bytes of room behind them.
 * Two texts for "one block with room for n + spare bytes": where load_file is ENFORCED the block is the arena of the heap model
 * (env/utilctl_env.h) with a logical size of at least n + spare; where load_file is ASSUMED (XVU_LOAD_ASSUMED: jobs ut_load_file,
 * ut_load_text_file) the caller gets a fresh object of EXACTLY n + spare bytes, so that CBMC's own bounds checks decide
 * whether the caller (the terminator ut_load_text_file appends) stays inside what load_file promised. */
#ifdef XVU_LOAD_ASSUMED
#define XVU_LOAD_BLOCK(data, n, spare) (__CPROVER_is_fresh(*(data), (size_t)(n) + (spare) == 0 ? 1 : (size_t)(n) + (spare)) && xvu_blk_size == (size_t)(n) + (spare))
#else
#define XVU_LOAD_BLOCK(data, n, spare) (*(data) == (char *)xvu_blk && xvu_blk_size >= (size_t)(n) + (spare) && xvu_blk_size <= xvu_blk_cap)
#endif
#define XVU_LOAD_EXACT(data, n, spare) ((long)(n) == xv_rx_off - xvu_g_off && xv_rx_eof && !xvu_f.err && xvu_heap == __CPROVER_old(xvu_heap) + 1 && \
        XVU_LOAD_BLOCK(data, n, spare) && \
        (XVU_IN(xvu_g_off, xv_k, xvu_g_off + (long)(n)) ==> ((const uint8_t *)*(data))[xv_k - xvu_g_off] == xv_rx_k))
static ssize_t load_file(const char *filename, char **data, size_t spare_capacity)
__CPROVER_requires(XVU_LOAD_REQ(filename, data) && spare_capacity <= 1)
__CPROVER_assigns(XVU_LOAD_ASSIGNS)
__CPROVER_ensures(__CPROVER_return_value >= -1)
/* PO[C08,C18] load_file.stream_closed */
__CPROVER_ensures(XVU_LOAD_CLOSED)
/* PO[C08] load_file.failure_releases_everything */
__CPROVER_ensures(__CPROVER_return_value == -1 ==> XVU_LOAD_FAIL_CLEAN(data))
/* PO[C18] load_file.exactly_the_files_bytes */
__CPROVER_ensures(__CPROVER_return_value >= 0 ==> XVU_LOAD_EXACT(data, __CPROVER_return_value, spare_capacity))
;

ssize_t ut_load_file(const char *filename, char **data)
__CPROVER_requires(XVU_LOAD_REQ(filename, data))
__CPROVER_assigns(XVU_LOAD_ASSIGNS)
__CPROVER_ensures(__CPROVER_return_value >= -1)
/* PO[C08,C18] ut_load_file.stream_closed */
__CPROVER_ensures(XVU_LOAD_CLOSED)
/* PO[C08] ut_load_file.failure_releases_everything */
__CPROVER_ensures(__CPROVER_return_value == -1 ==> XVU_LOAD_FAIL_CLEAN(data))
/* PO[C18] ut_load_file.exactly_the_files_bytes */
__CPROVER_ensures(__CPROVER_return_value >= 0 ==> XVU_LOAD_EXACT(data, __CPROVER_return_value, 0))
;
/* the text variant: the bytes of the file followed by ONE NUL, inside the block; the count includes the NUL (so it is never 0) */
ssize_t ut_load_text_file(const char *filename, char **data)
__CPROVER_requires(XVU_LOAD_REQ(filename, data))
__CPROVER_assigns(XVU_LOAD_ASSIGNS)
__CPROVER_ensures(__CPROVER_return_value == -1 || __CPROVER_return_value >= 1)
/* PO[C08,C18] ut_load_text_file.stream_closed */
__CPROVER_ensures(XVU_LOAD_CLOSED)
/* PO[C08] ut_load_text_file.failure_releases_everything */
__CPROVER_ensures(__CPROVER_return_value == -1 ==> XVU_LOAD_FAIL_CLEAN(data))
/* PO[C18] ut_load_text_file.exactly_the_files_bytes */
__CPROVER_ensures(__CPROVER_return_value >= 1 ==> XVU_LOAD_EXACT(data, __CPROVER_return_value - 1, 1))
/* PO[C18] ut_load_text_file.nul_terminated */
__CPROVER_ensures(__CPROVER_return_value >= 1 ==> (*data)[__CPROVER_return_value - 1] == 0)
;

/* ================================================================================================== ut_self_net_ns (C18: namespace-specific credential file names)
 * "'name' buffer needs to be NAME_MAX in size" (util.h); the caller (finalize_tls_conf) passes char ns[NAME_MAX]. */
int ut_self_net_ns(char *name)
__CPROVER_requires(__CPROVER_is_fresh(name, XVU_NS_CAP) && XVU_DIR_RANGE && xvu_str[0].base == NULL && xvu_str[5].base == NULL)
__CPROVER_assigns(xv_errno, XVU_DIR_ASSIGNS, xvu_stat_calls, xvu_str[5], __CPROVER_object_upto(name, XVU_NS_CAP))
__CPROVER_ensures(__CPROVER_return_value == 0 || __CPROVER_return_value == -1)
/* PO[C08] ut_self_net_ns.dir_closed: the directory stream is closed on every path, once */
__CPROVER_ensures(xvu_dir_open == __CPROVER_old(xvu_dir_open) && xvu_closedir_calls - __CPROVER_old(xvu_closedir_calls) == xvu_opendir_ok - __CPROVER_old(xvu_opendir_ok))
/* PO[C18] ut_self_net_ns.name_is_a_string: success leaves a C string inside the buffer: empty (no named namespace) or the matching entry's name */
__CPROVER_ensures(__CPROVER_return_value == 0 ==> (name[0] == 0 || (xvu_ent_len < XVU_NS_CAP && name[xvu_ent_len] == 0)))
;
#endif /* XVU_UTIL */

#ifdef XVU_STREAM
/* ================================================================================================== ut_send_all
 * The outgoing ghost byte stream (prelude.h / contracts/lower.h idiom): the kernel has accepted xv_tx_off bytes; xv_tx_k is the
 * byte it was handed at the arbitrary stream offset xv_k.  Success: exactly count bytes went down, in order, each once.
 * Failure: -1 with the errno of the send that failed; what went down before is a prefix of the buffer (shorter than count). */
#define XVU_SENT_PREFIX(buf) (XVU_IN(xvu_g_off, xv_k, xv_tx_off) \
        ? (xv_tx_k_set && xv_tx_k == ((const uint8_t *)(buf))[xv_k - xvu_g_off]) \
        : (xv_tx_k == __CPROVER_old(xv_tx_k) && XVU_B(xv_tx_k_set) == XVU_B(__CPROVER_old(xv_tx_k_set))))
int ut_send_all(int fd, void *buf, size_t count, int flags)
__CPROVER_requires(count <= 0x7fffffffUL && __CPROVER_is_fresh(buf, count == 0 ? 1 : count))
__CPROVER_requires(xv_tx_off >= 0 && xv_tx_off <= XV_OFF_MAX && xv_tx_off == xvu_g_off && xvu_snd.fd == fd && xvu_snd.flags == flags && xvu_snd.same)
__CPROVER_assigns(xv_errno, xv_tx_off, xv_tx_k, xv_tx_k_set, xvu_snd.calls, xvu_snd.err, xvu_snd.same)
__CPROVER_ensures(__CPROVER_return_value == -1 || (__CPROVER_return_value >= 0 && (size_t)__CPROVER_return_value == count))
/* PO[C08] ut_send_all.all_bytes_in_order */
__CPROVER_ensures(__CPROVER_return_value >= 0 ==> xv_tx_off == xvu_g_off + (long)count)
/* PO[C08] ut_send_all.prefix_in_order */
__CPROVER_ensures(XVU_SENT_PREFIX(buf))
/* PO[C08] ut_send_all.errno_of_send */
__CPROVER_ensures(__CPROVER_return_value == -1 ==> (xv_errno == xvu_snd.err && xv_errno > 0 && xv_tx_off >= xvu_g_off && \
                  (count == 0 ? xv_tx_off == xvu_g_off : xv_tx_off - xvu_g_off < (long)count)))
/* every send(2) named this descriptor and these flags */
__CPROVER_ensures(xvu_snd.same)
;
#endif /* XVU_STREAM */

#include "contracts/end.h"
#endif
