/* contracts/relay.h -- tools/xcmrelay/xrelay.c (C20: xcmrelay is transparent).
 *
 * One `struct xfwd` is one DIRECTION of a relay: it holds at most one message (or run of bytes) in data[0..data_len)
 * received from its source leg and not yet accepted by its destination leg.  The public XCM API and libevent are
 * env/relay_env.h (TRUSTED).  Attached to the REAL static functions by redeclaration after the TU has been #included.
 *
 * Vocabulary (all in terms of the ghost leg table, i.e. of what the XCM sockets were really told):
 *   XS / XD          index of the source / destination leg of the direction under proof (xv_src: any of 0, 1)
 *   XF_AWAIT_IN      source leg awaits RECEIVABLE, destination leg does not await SENDABLE
 *   XF_AWAIT_OUT     destination leg awaits SENDABLE, source leg does not await RECEIVABLE
 *   XF_INTEREST(r)   data_len == 0 <=> XF_AWAIT_IN,  data_len > 0 <=> XF_AWAIT_OUT          (interest invariant)
 *   XF_MIRROR(r)     the two condition words the xfwd points to equal what the two sockets await
 *   XF_OTHER_KEPT    every bit that belongs to the OTHER direction (SENDABLE on the source leg, RECEIVABLE on the
 *                    destination leg -- and any further bit) is what it was on entry
 * The xfwd-level contracts take the two condition words as separate objects holding ARBITRARY values in the other
 * direction's bits, so each is proved for every state of the other direction; jobs relay.xrelay_* and relay.pair_step
 * re-check on the real embedding (struct xrelay: fwd0.src_condition == fwd1.dst_condition == &cond0).
 */
#ifndef XV_RELAY_H
#define XV_RELAY_H
#include "contracts/begin.h"

#define XR_R XCM_SO_RECEIVABLE
#define XR_S XCM_SO_SENDABLE
#define XR_DATA_CAP 65535                      /* sizeof(((struct xfwd *)0)->data) */
#define XS xv_src
#define XD (1 - xv_src)

/* ghost constants (never assigned): bytes of data[] at the ghost indices xv_j, xv_k on entry */
char xv_g_dj, xv_g_dk;

/* ---- shape ---------------------------------------------------------------------------------------------------------- */
/* the direction's two legs are the two sockets of the table, crosswise; its callback is the caller's (env) */
#define XF_WIRED(r) ((xv_src == 0 || xv_src == 1) && (r)->src_conn == XV_CONN(XS) && (r)->dst_conn == XV_CONN(XD) && \
                     (r)->err_cb == xv_fwd_cb && (xv_cb_frees ==> __CPROVER_is_freeable((r)->err_cb_data)))
/* both sockets are open, non-blocking connection sockets with their own descriptor; the relay has not been terminated */
#define XV_LEG_LIVE(i) (!xv_legs[i].closed && !xv_legs[i].blocking && xv_legs[i].fd >= 0)
#define XV_LEGS_LIVE (XV_LEG_LIVE(0) && XV_LEG_LIVE(1) && xv_legs[0].fd != xv_legs[1].fd && !xv_terminated)
#define XV_LEGS_OPEN (!xv_legs[0].closed && !xv_legs[1].closed && xv_legs[0].fd >= 0 && xv_legs[1].fd >= 0 && \
                      xv_legs[0].fd != xv_legs[1].fd && !xv_terminated)
/* only bits valid on a connection socket are ever awaited (anything else makes xcm_await fail) */
#define XV_COND_VALID (((xv_legs[0].cond | xv_legs[1].cond) & ~(XR_R | XR_S)) == 0)
#define XF_MIRROR(r) (*(r)->src_condition == xv_legs[XS].cond && *(r)->dst_condition == xv_legs[XD].cond)
#define XF_LEN_OK(r) ((r)->data_len >= 0 && (r)->data_len <= XR_DATA_CAP)

#define XF_AWAIT_IN  ((xv_legs[XS].cond & XR_R) != 0 && (xv_legs[XD].cond & XR_S) == 0)
#define XF_AWAIT_OUT ((xv_legs[XS].cond & XR_R) == 0 && (xv_legs[XD].cond & XR_S) != 0)
#define XF_AWAIT_NONE ((xv_legs[XS].cond & XR_R) == 0 && (xv_legs[XD].cond & XR_S) == 0)
#define XF_INTEREST(r) (XF_LEN_OK(r) && ((r)->data_len == 0 ? XF_AWAIT_IN : XF_AWAIT_OUT))
#define XF_OTHER_KEPT ((xv_legs[XS].cond & ~XR_R) == (__CPROVER_old(xv_legs[XS].cond) & ~XR_R) && \
                       (xv_legs[XD].cond & ~XR_S) == (__CPROVER_old(xv_legs[XD].cond) & ~XR_S))
#define XF_COND_SAME (xv_legs[0].cond == __CPROVER_old(xv_legs[0].cond) && xv_legs[1].cond == __CPROVER_old(xv_legs[1].cond) && \
                      xv_aw_calls == __CPROVER_old(xv_aw_calls))

/* libevent registration of a running direction: both events pending, on the two legs' descriptors, for reading,
 * persistent, dispatching to xfwd_active with this xfwd */
#define XF_EV1_OK(r, e, leg) ((XV_EV_FLAGS(&(r)->e) & (EVLIST_INIT | EVLIST_INSERTED)) == (EVLIST_INIT | EVLIST_INSERTED) && \
                              (r)->e.ev_fd == xv_legs[leg].fd && (r)->e.ev_events == (EV_READ | EV_PERSIST) && \
                              XV_EV_CB(&(r)->e) == xfwd_active && XV_EV_ARG(&(r)->e) == (void *)(r) && (r)->e.ev_base == (r)->event_base)
#define XF_EV_OK(r) (XF_EV1_OK(r, src_event, XS) && XF_EV1_OK(r, dst_event, XD))
#define XF_EV_OFF(r) ((XV_EV_FLAGS(&(r)->src_event) & EVLIST_INSERTED) == 0 && (XV_EV_FLAGS(&(r)->dst_event) & EVLIST_INSERTED) == 0)

/* what a running direction looks like between two steps */
#define XF_RUNNING_INV(r) ((r)->running && XF_EV_OK(r) && XF_INTEREST(r) && XF_MIRROR(r) && xv_ev_pending >= 2)

/* The objects are supplied by the harness (XV_RELAY_SETUP in harness/relay/_unit.h): a malloc'ed `struct xrelay`, the xfwd
 * under proof being its fwd0 or fwd1 and the two condition words its cond0/cond1 -- the embedding xrelay_create() builds
 * (job relay.xrelay_create) -- with ARBITRARY content.  The harness also points the ghost xv_own_data at the xfwd's hold
 * buffer, through which the environment observes bytes (a `char (*)[65535]`: an access through a void pointer at a ghost
 * offset into a 66 KB struct costs CBMC a 66K-way multiplexer over the whole struct, twice). */
#define XF_FRESH(r) (__CPROVER_rw_ok((r), sizeof(struct xfwd)) && xv_own_data == &(r)->data)
#define XF_CONDS_FRESH(r) (__CPROVER_rw_ok((r)->src_condition, sizeof(int)) && __CPROVER_rw_ok((r)->dst_condition, sizeof(int)) && \
                           (r)->src_condition != (r)->dst_condition)

/* data[] content bound to the ghost constants on entry, for the two ghost indices */
#define XF_BIND(r) ((xv_j >= 0 && xv_j < (long)(r)->data_len) ==> (r)->data[xv_j] == xv_g_dj) && \
                   ((xv_k >= 0 && xv_k < (long)(r)->data_len) ==> (r)->data[xv_k] == xv_g_dk)

/* assigns fragments */
#define XF_COND_ASSIGNS(r) *(r)->src_condition, *(r)->dst_condition, xv_legs[0].cond, xv_legs[1].cond, xv_aw_calls
#define XF_CB_ASSIGNS xv_fcb_calls, xv_fcb_reason, xv_fcb_msg, xv_fcb_data, xv_terminated
#define XF_RCV_ASSIGNS xv_rcv_calls, xv_rcv_conn, xv_rcv_buf, xv_rcv_cap, xv_rcv_ret, xv_rcv_errno, xv_rcv_c
#define XF_SND_ASSIGNS xv_snd_calls, xv_snd_conn, xv_snd_buf, xv_snd_len, xv_snd_ret, xv_snd_errno, xv_snd_c, \
                       xv_legs[0].pending_out, xv_legs[1].pending_out
#define XF_FIN_ASSIGNS xv_fin_calls, xv_fin_conn, xv_fin_ret, xv_fin_errno, xv_legs[0].pending_out, xv_legs[1].pending_out

#define XF_NO_CB (xv_fcb_calls == __CPROVER_old(xv_fcb_calls) && !xv_terminated)
/* terminated through the callback: exactly one call, with the reason and the caller's cookie; an error carries a text */
#define XF_CB_ONCE(r, reason) (xv_fcb_calls == __CPROVER_old(xv_fcb_calls) + 1 && xv_fcb_reason == (reason) && \
                               xv_fcb_data == __CPROVER_old((r)->err_cb_data) && xv_terminated)
#define XF_SAME(x) ((x) == __CPROVER_old(x))

/* ==== xfwd_handle_term / xfwd_handle_err ============================================================================== */
/* The only two places where the caller's callback is invoked.  CBMC resolves `relay->err_cb(...)` to every address-taken
 * function of a compatible type (xfwd_active among them: recursion), so the other jobs REPLACE these two one-liners by
 * their contracts and jobs relay.xfwd_handle_term / relay.xfwd_handle_err prove the contracts on the real bodies. */
#define XF_CB_REQUIRES(r) (XF_FRESH(r) && (r)->err_cb == xv_fwd_cb && (xv_cb_frees ==> __CPROVER_is_freeable((r)->err_cb_data)) && XV_RCNT_OK(xv_fcb_calls))
static void xfwd_handle_term(struct xfwd *relay)
__CPROVER_requires(XF_CB_REQUIRES(relay))
__CPROVER_assigns(XF_CB_ASSIGNS)
__CPROVER_frees(relay->err_cb_data)
/* PO[C20] xfwd_handle_term.callback_once */
__CPROVER_ensures(XF_CB_ONCE(relay, 0) && xv_fcb_msg == NULL)
;
static void xfwd_handle_err(struct xfwd *relay, const char *msg)
__CPROVER_requires(XF_CB_REQUIRES(relay))
__CPROVER_assigns(XF_CB_ASSIGNS)
__CPROVER_frees(relay->err_cb_data)
/* PO[C20] xfwd_handle_err.callback_once */
__CPROVER_ensures(XF_CB_ONCE(relay, -1) && xv_fcb_msg == msg)
;

/* ==== xfwd_await_input / xfwd_await_output ============================================================================ */
static void xfwd_await_input(struct xfwd *relay)
__CPROVER_requires(XF_FRESH(relay) && XF_CONDS_FRESH(relay))
__CPROVER_requires(XF_WIRED(relay) && XV_LEGS_LIVE && XV_COND_VALID && XF_MIRROR(relay) && XV_RELAY_GHOST_RANGE)
/* frame: the two condition words and what the two sockets await; NOT data, data_len, running, the events, errno */
__CPROVER_assigns(XF_COND_ASSIGNS(relay))
/* PO[C20] xfwd_await_input.interest */
__CPROVER_ensures(XF_AWAIT_IN && XF_MIRROR(relay))
/* PO[C20] xfwd_await_input.other_direction_kept */
__CPROVER_ensures(XF_OTHER_KEPT)
__CPROVER_ensures(xv_aw_calls == __CPROVER_old(xv_aw_calls) + 2 && XV_COND_VALID)
;

static void xfwd_await_output(struct xfwd *relay)
__CPROVER_requires(XF_FRESH(relay) && XF_CONDS_FRESH(relay))
__CPROVER_requires(XF_WIRED(relay) && XV_LEGS_LIVE && XV_COND_VALID && XF_MIRROR(relay) && XV_RELAY_GHOST_RANGE)
__CPROVER_assigns(XF_COND_ASSIGNS(relay))
/* PO[C20] xfwd_await_output.interest */
__CPROVER_ensures(XF_AWAIT_OUT && XF_MIRROR(relay))
/* PO[C20] xfwd_await_output.other_direction_kept */
__CPROVER_ensures(XF_OTHER_KEPT)
__CPROVER_ensures(xv_aw_calls == __CPROVER_old(xv_aw_calls) + 2 && XV_COND_VALID)
;

/* ==== xfwd_receive ==================================================================================================== */
/* outcome of the one xcm_receive call, in terms of its ghost record */
#define RCV_GOT   (xv_rcv_ret > 0)
#define RCV_AGAIN (xv_rcv_ret == -1 && xv_rcv_errno == EAGAIN)
#define RCV_EOF   (xv_rcv_ret == 0)
#define RCV_ERR   (xv_rcv_ret == -1 && xv_rcv_errno != EAGAIN)

#define XF_RECEIVE_ENSURES(r) \
    /* hold-one: exactly one xcm_receive, on the source leg, into the xfwd's own buffer, offering its full capacity; nothing sent, nothing finished */ \
    (xv_rcv_calls == __CPROVER_old(xv_rcv_calls) + 1 && xv_rcv_conn == XV_CONN(XS) && xv_rcv_buf == (void *)(r)->data && \
     xv_rcv_cap == XR_DATA_CAP && XF_SAME(xv_snd_calls) && XF_SAME(xv_fin_calls))
#define XF_RECEIVE_GOT(r) \
    /* what was received is what is held, unmodified: length and every byte (xv_j) */ \
    (RCV_GOT ==> (XF_NO_CB && (r)->data_len == xv_rcv_ret && (r)->data_len <= XR_DATA_CAP && \
                  ((xv_j >= 0 && xv_j < (long)xv_rcv_ret) ==> (r)->data[xv_j] == xv_rcv_c)))
#define XF_RECEIVE_GOT_INTEREST(r) \
    (RCV_GOT ==> (XF_AWAIT_OUT && XF_MIRROR(r) && XV_COND_VALID && xv_aw_calls == __CPROVER_old(xv_aw_calls) + 2))
#define XF_RECEIVE_AGAIN(r) \
    /* nothing there yet: still empty, still awaiting input, nothing reported */ \
    (RCV_AGAIN ==> (XF_NO_CB && (r)->data_len == 0 && XF_COND_SAME && XF_SAME(*(r)->src_condition) && XF_SAME(*(r)->dst_condition)))
#define XF_RECEIVE_TERM(r) \
    /* peer closed: terminated (reason 0, no text); fatal error: terminated (reason -1, a text); once; nothing is done afterwards */ \
    ((RCV_EOF ==> (XF_CB_ONCE(r, 0) && xv_fcb_msg == NULL)) && (RCV_ERR ==> (XF_CB_ONCE(r, -1) && xv_fcb_msg != NULL)) && \
     ((RCV_EOF || RCV_ERR) ==> XF_COND_SAME))

static void xfwd_receive(struct xfwd *relay)
__CPROVER_requires(XF_FRESH(relay) && XF_CONDS_FRESH(relay))
__CPROVER_requires(XF_WIRED(relay) && XV_LEGS_LIVE && XV_COND_VALID && XF_MIRROR(relay) && XV_RELAY_GHOST_RANGE)
/* called only when nothing is held (see xfwd_active.dispatch) */
__CPROVER_requires(relay->data_len == 0 && XF_INTEREST(relay))
__CPROVER_assigns(xv_errno, XF_RCV_ASSIGNS, XF_CB_ASSIGNS, XF_COND_ASSIGNS(relay), relay->data_len, __CPROVER_object_upto(relay->data, XR_DATA_CAP))
__CPROVER_frees(relay->err_cb_data)
/* PO[C20] xfwd_receive.hold_one */
__CPROVER_ensures(XF_RECEIVE_ENSURES(relay))
/* PO[C20] xfwd_receive.held_as_received */
__CPROVER_ensures(XF_RECEIVE_GOT(relay))
/* PO[C20] xfwd_receive.interest_switched_to_output */
__CPROVER_ensures(XF_RECEIVE_GOT_INTEREST(relay))
/* PO[C20] xfwd_receive.other_direction_kept */
__CPROVER_ensures(XF_OTHER_KEPT)
/* PO[C20] xfwd_receive.eagain_keeps_state */
__CPROVER_ensures(XF_RECEIVE_AGAIN(relay))
/* PO[C20] xfwd_receive.close_and_error_terminate */
__CPROVER_ensures(XF_RECEIVE_TERM(relay))
;

/* ==== xfwd_send ======================================================================================================= */
#define SND_OLDLEN __CPROVER_old((relay)->data_len)
#define SND_AGAIN (xv_snd_ret == -1 && xv_snd_errno == EAGAIN)
#define SND_GONE  (xv_snd_ret == -1 && (xv_snd_errno == EPIPE || xv_snd_errno == ECONNRESET))
#define SND_ERR   (xv_snd_ret == -1 && xv_snd_errno != EAGAIN && xv_snd_errno != EPIPE && xv_snd_errno != ECONNRESET)

#define XF_SEND_ENSURES(r, oldlen) \
    /* hold-one: exactly one xcm_send, on the destination leg, of exactly (data, data_len) as held; every byte (xv_j) as held; nothing received, nothing finished */ \
    (xv_snd_calls == __CPROVER_old(xv_snd_calls) + 1 && xv_snd_conn == XV_CONN(XD) && xv_snd_buf == (const void *)(r)->data && \
     xv_snd_len == (size_t)(oldlen) && ((xv_j >= 0 && xv_j < (long)(oldlen)) ==> xv_snd_c == xv_g_dj) && \
     XF_SAME(xv_rcv_calls) && XF_SAME(xv_fin_calls))
#define XF_SEND_MSG(r) \
    /* messaging: accepted => forwarded exactly once: nothing is held any more, input is awaited again */ \
    (xv_snd_ret == 0 ==> (XF_NO_CB && (r)->data_len == 0 && XF_AWAIT_IN && XF_MIRROR(r) && XV_COND_VALID))
#define XF_SEND_AGAIN(r, oldlen) \
    /* back-pressure: nothing dropped, nothing duplicated: length, bytes and interest are what they were */ \
    (SND_AGAIN ==> (XF_NO_CB && (r)->data_len == (oldlen) && ((xv_j >= 0 && xv_j < (long)(oldlen)) ==> (r)->data[xv_j] == xv_g_dj) && \
                    XF_COND_SAME && XF_SAME(*(r)->src_condition) && XF_SAME(*(r)->dst_condition)))
#define XF_SEND_STREAM(r, oldlen) \
    /* byte stream: r bytes accepted => what is held are the old bytes [r, len) in order; all accepted => input awaited again */ \
    (xv_snd_ret > 0 ==> (XF_NO_CB && (r)->data_len == (oldlen) - xv_snd_ret && (r)->data_len >= 0 && \
                         ((xv_j >= 0 && xv_j < (long)(r)->data_len && xv_k == xv_j + (long)xv_snd_ret) ==> (r)->data[xv_j] == xv_g_dk) && \
                         ((r)->data_len == 0 ? (XF_AWAIT_IN && xv_aw_calls == __CPROVER_old(xv_aw_calls) + 2) : XF_COND_SAME) && XF_MIRROR(r) && XV_COND_VALID))
#define XF_SEND_TERM(r) \
    ((SND_GONE ==> (XF_CB_ONCE(r, 0) && xv_fcb_msg == NULL)) && (SND_ERR ==> (XF_CB_ONCE(r, -1) && xv_fcb_msg != NULL)) && \
     ((SND_GONE || SND_ERR) ==> XF_COND_SAME))

static void xfwd_send(struct xfwd *relay)
__CPROVER_requires(XF_FRESH(relay) && XF_CONDS_FRESH(relay))
__CPROVER_requires(XF_WIRED(relay) && XV_LEGS_LIVE && XV_COND_VALID && XF_MIRROR(relay) && XV_RELAY_GHOST_RANGE)
/* called only when something is held (see xfwd_active.dispatch) */
__CPROVER_requires(relay->data_len >= 1 && XF_INTEREST(relay))
/* the one offset at which the memmove model (env/relay_env.h) is exact is the ghost index the stream obligation talks about */
__CPROVER_requires(XF_BIND(relay) && (xv_j >= 0 ==> xv_mc == (size_t)xv_j))
__CPROVER_assigns(xv_errno, XF_SND_ASSIGNS, XF_CB_ASSIGNS, XF_COND_ASSIGNS(relay), relay->data_len, __CPROVER_object_upto(relay->data, XR_DATA_CAP))
__CPROVER_frees(relay->err_cb_data)
/* PO[C20] xfwd_send.hold_one */
__CPROVER_ensures(XF_SEND_ENSURES(relay, SND_OLDLEN))
/* PO[C20] xfwd_send.message_forwarded_once */
__CPROVER_ensures(XF_SEND_MSG(relay))
/* PO[C20] xfwd_send.eagain_keeps_message */
__CPROVER_ensures(XF_SEND_AGAIN(relay, SND_OLDLEN))
/* PO[C20] xfwd_send.stream_remainder_in_order */
__CPROVER_ensures(XF_SEND_STREAM(relay, SND_OLDLEN))
/* PO[C20] xfwd_send.other_direction_kept */
__CPROVER_ensures(XF_OTHER_KEPT)
/* PO[C20] xfwd_send.close_and_error_terminate */
__CPROVER_ensures(XF_SEND_TERM(relay))
;

#include "contracts/end.h"
#endif
