/* contracts/relay.h -- tools/xcmrelay/xrelay.c (C20: xcmrelay is transparent).
 *
 * One `struct xfwd` is one DIRECTION of a relay: it holds at most one message (or run of bytes) in data[0..data_len)
 * received from its source leg and not yet accepted by its destination leg.  The public XCM API, libevent, memmove and
 * the relay's user (termination callbacks) are env/relay_env.h (TRUSTED).  Contracts are attached to the REAL static
 * functions by redeclaration after the TU has been #included.
 *
 * Vocabulary (all in terms of the ghost state of env/relay_env.h, i.e. of what the XCM sockets were really told):
 *   XS / XD          index of the source / destination leg of the direction under proof (xv_src: 0 or 1)
 *   XF_AWAIT_IN      source leg awaits RECEIVABLE, destination leg does not await SENDABLE
 *   XF_AWAIT_OUT     destination leg awaits SENDABLE, source leg does not await RECEIVABLE
 *   XF_INTEREST(r)   data_len == 0 <=> XF_AWAIT_IN,  data_len > 0 <=> XF_AWAIT_OUT             (interest invariant)
 *   XF_MIRROR(r)     the two condition words the xfwd points to equal what the two sockets await
 *   XF_OTHER_KEPT    every bit that belongs to the OTHER direction (SENDABLE on the source leg, RECEIVABLE on the
 *                    destination leg -- and any further bit) is what it was on entry
 *   XF_STREAM(r)     content accounting: of the source's byte stream S, [0, tx_off) has been accepted by the destination,
 *                    [tx_off, rx_off) has been received and is HELD: rx_off - tx_off == data_len, and when something is
 *                    held the hold buffer starts with S[tx_off ...) (hold_off == tx_off, at least data_len valid bytes).
 *                    Nothing received is ever outside "forwarded" + "held": nothing lost, nothing duplicated, in order.
 * The other direction's bits in the two condition words are ARBITRARY in every xfwd-level job, so each contract is proved
 * for every state of the other direction.  The objects are supplied by the harness (XV_RELAY_SETUP, harness/relay/_unit.h):
 * a malloc'ed `struct xrelay` of arbitrary content whose fwd0 / fwd1 (variants d0 / d1) is the xfwd under proof, wired the
 * way xrelay_create() wires it (job relay.xrelay_create).
 */
#ifndef XV_RELAY_H
#define XV_RELAY_H
#include "contracts/begin.h"

#define XR_R XCM_SO_RECEIVABLE
#define XR_S XCM_SO_SENDABLE
#define XR_DATA_CAP 65535                      /* sizeof(((struct xfwd *)0)->data) */
#define XS xv_src
#define XD (1 - xv_src)

/* ---- shape ---------------------------------------------------------------------------------------------------------- */
#define XF_FRESH(r) (__CPROVER_rw_ok((r), sizeof(struct xfwd)) && xv_hold_buf == (void *)(r)->data)
#define XF_CONDS_FRESH(r) (__CPROVER_rw_ok((r)->src_condition, sizeof(int)) && __CPROVER_rw_ok((r)->dst_condition, sizeof(int)) && \
                           (r)->src_condition != (r)->dst_condition)
/* the direction's two legs are the two sockets of the table, crosswise; its callback is the caller's (env), which may
 * destroy the object it is given */
#define XF_WIRED(r) ((xv_src == 0 || xv_src == 1) && (r)->src_conn == XV_CONN(XS) && (r)->dst_conn == XV_CONN(XD) && \
                     (r)->err_cb == xv_fwd_cb && (xv_cb_frees ==> __CPROVER_is_freeable((r)->err_cb_data)))
/* both sockets are open, non-blocking connection sockets with their own descriptor; the relay has not been terminated */
#define XV_LEG_LIVE(i) (!xv_legs[i].closed && !xv_legs[i].blocking && xv_legs[i].fd >= 0)
#define XV_LEGS_LIVE (XV_LEG_LIVE(0) && XV_LEG_LIVE(1) && xv_legs[0].fd != xv_legs[1].fd && !xv_terminated)
#define XV_LEGS_OPEN (!xv_legs[0].closed && !xv_legs[1].closed && xv_legs[0].fd >= 0 && xv_legs[1].fd >= 0 && \
                      xv_legs[0].fd != xv_legs[1].fd && !xv_terminated)
/* only bits valid on a connection socket are ever awaited (anything else makes xcm_await fail) */
#define XV_COND_VALID (((xv_legs[0].cond | xv_legs[1].cond) & ~(XR_R | XR_S)) == 0)
/* (generic in the index s of the source leg; the xfwd-level contracts use s = XS) */
#define XG_MIRROR(r, s) (*(r)->src_condition == xv_legs[s].cond && *(r)->dst_condition == xv_legs[1 - (s)].cond)
#define XF_MIRROR(r) XG_MIRROR(r, XS)
#define XF_LEN_OK(r) ((r)->data_len >= 0 && (r)->data_len <= XR_DATA_CAP)

#define XG_AWAIT_IN(s)   ((xv_legs[s].cond & XR_R) != 0 && (xv_legs[1 - (s)].cond & XR_S) == 0)
#define XG_AWAIT_OUT(s)  ((xv_legs[s].cond & XR_R) == 0 && (xv_legs[1 - (s)].cond & XR_S) != 0)
#define XG_AWAIT_NONE(s) ((xv_legs[s].cond & XR_R) == 0 && (xv_legs[1 - (s)].cond & XR_S) == 0)
#define XG_INTEREST(r, s) (XF_LEN_OK(r) && ((r)->data_len == 0 ? XG_AWAIT_IN(s) : XG_AWAIT_OUT(s)))
#define XF_AWAIT_IN  XG_AWAIT_IN(XS)
#define XF_AWAIT_OUT XG_AWAIT_OUT(XS)
#define XF_AWAIT_NONE XG_AWAIT_NONE(XS)
#define XF_INTEREST(r) XG_INTEREST(r, XS)
#define XF_OTHER_KEPT ((xv_legs[XS].cond & ~XR_R) == (__CPROVER_old(xv_legs[XS].cond) & ~XR_R) && \
                       (xv_legs[XD].cond & ~XR_S) == (__CPROVER_old(xv_legs[XD].cond) & ~XR_S))
#define XF_SAME(x) ((x) == __CPROVER_old(x))
#define XF_COND_SAME (XF_SAME(xv_legs[0].cond) && XF_SAME(xv_legs[1].cond) && XF_SAME(xv_aw_calls))

/* content accounting (see env/relay_env.h: message content is abstract) */
/* offsets are assumed < 2^50 on entry of a step (a connection cannot move a PiB); a step adds at most one buffer */
#define XV_OFFS_LIM(lim) (xv_tx_off >= 0 && xv_tx_off <= xv_rx_off && xv_rx_off < (lim))
#define XF_STREAM_LIM(r, lim) (XV_OFFS_LIM(lim) && xv_rx_off - xv_tx_off == (long)(r)->data_len && \
                      ((r)->data_len > 0 ==> (xv_hold_off == xv_tx_off && xv_hold_len >= (long)(r)->data_len)))
#define XF_STREAM(r) XF_STREAM_LIM(r, XV_OFF_MAX)                    /* entry */
#define XF_STREAM_OUT(r) XF_STREAM_LIM(r, XV_OFF_MAX + (1L << 16))   /* exit  */
#define XF_STREAM_SAME (XF_SAME(xv_rx_off) && XF_SAME(xv_tx_off) && XF_SAME(xv_hold_off) && XF_SAME(xv_hold_len) && XF_SAME(xv_mm_calls))

/* libevent registration of a running direction: both events pending, on the two legs' descriptors, for reading,
 * persistent, dispatching to xfwd_active with this xfwd */
#define XF_EV1_SET(r, e, leg) ((r)->e.ev_fd == xv_legs[leg].fd && (r)->e.ev_events == (EV_READ | EV_PERSIST) && \
                               XV_EV_CB(&(r)->e) == xfwd_active && XV_EV_ARG(&(r)->e) == (void *)(r) && (r)->e.ev_base == (r)->event_base && \
                               (XV_EV_FLAGS(&(r)->e) & EVLIST_INIT) != 0)
#define XF_EV1_OK(r, e, leg) (XF_EV1_SET(r, e, leg) && (XV_EV_FLAGS(&(r)->e) & EVLIST_INSERTED) != 0)
#define XG_EV_OK(r, s) (XF_EV1_OK(r, src_event, s) && XF_EV1_OK(r, dst_event, 1 - (s)))
#define XF_EV_OK(r) XG_EV_OK(r, XS)
#define XF_EV_OFF(r) ((XV_EV_FLAGS(&(r)->src_event) & EVLIST_INSERTED) == 0 && (XV_EV_FLAGS(&(r)->dst_event) & EVLIST_INSERTED) == 0)
#define XF_EV_SAME(r) (XF_SAME(XV_EV_FLAGS(&(r)->src_event)) && XF_SAME(XV_EV_FLAGS(&(r)->dst_event)) && XF_SAME(xv_ev_pending))

/* assigns fragments */
#define XF_COND_ASSIGNS(r) *(r)->src_condition, *(r)->dst_condition, xv_legs[0].cond, xv_legs[1].cond, xv_aw_calls
#define XF_CB_ASSIGNS xv_fcb_calls, xv_fcb_reason, xv_fcb_msg, xv_fcb_data, xv_terminated
#define XF_RCV_ASSIGNS xv_rcv_calls, xv_rcv_conn, xv_rcv_buf, xv_rcv_cap, xv_rcv_ret, xv_rcv_errno, xv_rx_off, xv_rx_eof, xv_hold_off, xv_hold_len
#define XF_SND_ASSIGNS xv_snd_calls, xv_snd_conn, xv_snd_buf, xv_snd_len, xv_snd_ret, xv_snd_errno, xv_snd_off, xv_tx_off, \
                       xv_legs[0].pending_out, xv_legs[1].pending_out, xv_mm_calls, xv_mm_n, xv_hold_off, xv_hold_len
#define XF_FIN_ASSIGNS xv_fin_calls, xv_fin_conn, xv_fin_ret, xv_fin_errno, xv_legs[0].pending_out, xv_legs[1].pending_out

#define XF_NO_CB (XF_SAME(xv_fcb_calls) && !xv_terminated)
/* terminated through the callback: exactly one call, with the reason and the caller's cookie */
#define XF_CB_ONCE(r, reason) (xv_fcb_calls == __CPROVER_old(xv_fcb_calls) + 1 && xv_fcb_reason == (reason) && \
                               xv_fcb_data == __CPROVER_old((r)->err_cb_data) && xv_terminated)

/* ==== xfwd_handle_term / xfwd_handle_err ============================================================================== */
/* The only two places where the caller's callback is invoked.  CBMC resolves `relay->err_cb(...)` to every address-taken
 * function of a compatible type (xfwd_active among them: unbounded recursion), so the other jobs REPLACE these two
 * one-liners by their contracts and jobs relay.xfwd_handle_term / relay.xfwd_handle_err prove the contracts on the real
 * bodies.  `frees`: the callback may destroy the relay (rserver.c does); a replaced call frees it nondeterministically,
 * so any later access by the caller is a failed pointer check ("not used afterwards"). */
#define XF_CB_REQUIRES(r) (__CPROVER_rw_ok((r), sizeof(struct xfwd)) && (r)->err_cb == xv_fwd_cb && \
                           (xv_cb_frees ==> __CPROVER_is_freeable((r)->err_cb_data)) && XV_RCNT_OK(xv_fcb_calls))
static void xfwd_handle_term(struct xfwd *relay)
__CPROVER_requires(XF_CB_REQUIRES(relay))
__CPROVER_assigns(XF_CB_ASSIGNS)
__CPROVER_frees(relay->err_cb_data)
/* PO[C20] xfwd_handle_term.callback_once */
__CPROVER_ensures(XF_CB_ONCE(relay, 0) && xv_fcb_msg == NULL)
;
static void xfwd_handle_err(struct xfwd *relay, const char *msg)
__CPROVER_requires(XF_CB_REQUIRES(relay))
__CPROVER_assigns(XF_CB_ASSIGNS)
__CPROVER_frees(relay->err_cb_data)
/* PO[C20] xfwd_handle_err.callback_once */
__CPROVER_ensures(XF_CB_ONCE(relay, -1) && xv_fcb_msg == msg)
;

/* ==== xfwd_await_input / xfwd_await_output ============================================================================ */
#define XF_BASE_REQUIRES(r) (XF_WIRED(r) && XV_LEGS_LIVE && XV_COND_VALID && XF_MIRROR(r) && XV_RELAY_GHOST_RANGE)
static void xfwd_await_input(struct xfwd *relay)
__CPROVER_requires(XF_FRESH(relay) && XF_CONDS_FRESH(relay))
__CPROVER_requires(XF_BASE_REQUIRES(relay))
/* frame: the two condition words and what the two sockets await; NOT data, data_len, running, the events, errno */
__CPROVER_assigns(XF_COND_ASSIGNS(relay))
/* PO[C20] xfwd_await_input.interest */
__CPROVER_ensures(XF_AWAIT_IN && XF_MIRROR(relay))
/* PO[C20] xfwd_await_input.other_direction_kept */
__CPROVER_ensures(XF_OTHER_KEPT)
__CPROVER_ensures(xv_aw_calls == __CPROVER_old(xv_aw_calls) + 2 && XV_COND_VALID)
;

static void xfwd_await_output(struct xfwd *relay)
__CPROVER_requires(XF_FRESH(relay) && XF_CONDS_FRESH(relay))
__CPROVER_requires(XF_BASE_REQUIRES(relay))
__CPROVER_assigns(XF_COND_ASSIGNS(relay))
/* PO[C20] xfwd_await_output.interest */
__CPROVER_ensures(XF_AWAIT_OUT && XF_MIRROR(relay))
/* PO[C20] xfwd_await_output.other_direction_kept */
__CPROVER_ensures(XF_OTHER_KEPT)
__CPROVER_ensures(xv_aw_calls == __CPROVER_old(xv_aw_calls) + 2 && XV_COND_VALID)
;

/* ==== xfwd_receive ==================================================================================================== */
/* outcome of the one xcm_receive call, in terms of its ghost record */
#define RCV_GOT   (xv_rcv_ret > 0)
#define RCV_AGAIN (xv_rcv_ret == -1 && xv_rcv_errno == EAGAIN)
#define RCV_EOF   (xv_rcv_ret == 0)
#define RCV_ERR   (xv_rcv_ret == -1 && xv_rcv_errno != EAGAIN)

/* hold-one: exactly one xcm_receive, on the source leg, into the xfwd's own buffer, offering its full capacity; nothing
 * sent, nothing finished, nothing moved */
#define XF_RECEIVE_ONE(r) \
    (xv_rcv_calls == __CPROVER_old(xv_rcv_calls) + 1 && xv_rcv_conn == XV_CONN(XS) && xv_rcv_buf == (void *)(r)->data && \
     xv_rcv_cap == XR_DATA_CAP && XF_SAME(xv_snd_calls) && XF_SAME(xv_fin_calls) && XF_SAME(xv_mm_calls) && XF_SAME(xv_tx_off))
/* what was received is what is held: its length; the hold buffer starts with the bytes just delivered; nothing reported */
#define XF_RECEIVE_GOT(r) \
    (RCV_GOT ==> (XF_NO_CB && (r)->data_len == xv_rcv_ret && xv_rx_off == __CPROVER_old(xv_rx_off) + (long)xv_rcv_ret && \
                  xv_hold_off == __CPROVER_old(xv_rx_off) && XF_STREAM_OUT(r)))
#define XF_RECEIVE_GOT_INTEREST(r) \
    (RCV_GOT ==> (XF_AWAIT_OUT && XF_MIRROR(r) && XV_COND_VALID && xv_aw_calls == __CPROVER_old(xv_aw_calls) + 2))
/* nothing there yet: still empty, still awaiting input, nothing reported */
#define XF_RECEIVE_AGAIN(r) \
    (RCV_AGAIN ==> (XF_NO_CB && (r)->data_len == 0 && XF_COND_SAME && XF_SAME(*(r)->src_condition) && XF_SAME(*(r)->dst_condition) && \
                    XF_STREAM_SAME))
/* peer closed: terminated (reason 0, no text); fatal error: terminated (reason -1, a text); once; nothing done afterwards */
#define XF_RECEIVE_TERM(r) \
    ((RCV_EOF ==> (XF_CB_ONCE(r, 0) && xv_fcb_msg == NULL)) && (RCV_ERR ==> (XF_CB_ONCE(r, -1) && xv_fcb_msg != NULL)) && \
     ((RCV_EOF || RCV_ERR) ==> (XF_COND_SAME && XF_STREAM_SAME)))

static void xfwd_receive(struct xfwd *relay)
__CPROVER_requires(XF_FRESH(relay) && XF_CONDS_FRESH(relay))
__CPROVER_requires(XF_BASE_REQUIRES(relay))
/* called only when nothing is held (see xfwd_active.dispatch) */
__CPROVER_requires(relay->data_len == 0 && XF_INTEREST(relay) && XF_STREAM(relay))
/* frame: NOT data[] (the environment's stores are abstract: any store of xrelay.c into the buffer fails here) */
__CPROVER_assigns(xv_errno, XF_RCV_ASSIGNS, XF_CB_ASSIGNS, XF_COND_ASSIGNS(relay), relay->data_len)
__CPROVER_frees(relay->err_cb_data)
/* PO[C20] xfwd_receive.hold_one */
__CPROVER_ensures(XF_RECEIVE_ONE(relay))
/* PO[C20] xfwd_receive.held_as_received */
__CPROVER_ensures(XF_RECEIVE_GOT(relay))
/* PO[C20] xfwd_receive.interest_switched_to_output */
__CPROVER_ensures(XF_RECEIVE_GOT_INTEREST(relay))
/* PO[C20] xfwd_receive.other_direction_kept */
__CPROVER_ensures(XF_OTHER_KEPT)
/* PO[C20] xfwd_receive.eagain_keeps_state */
__CPROVER_ensures(XF_RECEIVE_AGAIN(relay))
/* PO[C20] xfwd_receive.close_and_error_terminate */
__CPROVER_ensures(XF_RECEIVE_TERM(relay))
;

/* ==== xfwd_send ======================================================================================================= */
#define SND_AGAIN (xv_snd_ret == -1 && xv_snd_errno == EAGAIN)
#define SND_GONE  (xv_snd_ret == -1 && (xv_snd_errno == EPIPE || xv_snd_errno == ECONNRESET))
#define SND_ERR   (xv_snd_ret == -1 && xv_snd_errno != EAGAIN && xv_snd_errno != EPIPE && xv_snd_errno != ECONNRESET)

/* hold-one: exactly one xcm_send, on the destination leg, of exactly (data, data_len): the bytes received and not yet
 * forwarded -- stream positions [tx_off, rx_off) as they were on entry; nothing received, nothing finished */
#define XF_SEND_ONE(r, oldlen) \
    (xv_snd_calls == __CPROVER_old(xv_snd_calls) + 1 && xv_snd_conn == XV_CONN(XD) && xv_snd_buf == (const void *)(r)->data && \
     xv_snd_len == (size_t)(oldlen) && xv_snd_off == __CPROVER_old(xv_tx_off) && xv_snd_off + (long)xv_snd_len == xv_rx_off && \
     XF_SAME(xv_rcv_calls) && XF_SAME(xv_fin_calls) && XF_SAME(xv_rx_off))
/* messaging: accepted => forwarded exactly once: nothing is held any more, everything received has been accepted, input is awaited again */
#define XF_SEND_MSG(r) \
    (xv_snd_ret == 0 ==> (XF_NO_CB && (r)->data_len == 0 && xv_tx_off == xv_rx_off && XF_SAME(xv_mm_calls) && \
                          XF_AWAIT_IN && XF_MIRROR(r) && XV_COND_VALID && xv_aw_calls == __CPROVER_old(xv_aw_calls) + 2))
/* back-pressure: nothing dropped, nothing duplicated: what is held, where it is and the interest are what they were */
#define XF_SEND_AGAIN(r, oldlen) \
    (SND_AGAIN ==> (XF_NO_CB && (r)->data_len == (oldlen) && XF_STREAM_SAME && \
                    XF_COND_SAME && XF_SAME(*(r)->src_condition) && XF_SAME(*(r)->dst_condition)))
/* byte stream: r bytes accepted => what is held are the old bytes [r, len), in order, at the start of the buffer (moved
 * there by one memmove of exactly that many bytes); all accepted => nothing moved, input awaited again */
#define XF_SEND_STREAM(r, oldlen) \
    (xv_snd_ret > 0 ==> (XF_NO_CB && (r)->data_len == (oldlen) - xv_snd_ret && (r)->data_len >= 0 && \
                         xv_tx_off == __CPROVER_old(xv_tx_off) + (long)xv_snd_ret && XF_STREAM_OUT(r) && \
                         ((r)->data_len == 0 ? (XF_AWAIT_IN && xv_aw_calls == __CPROVER_old(xv_aw_calls) + 2 && XF_SAME(xv_mm_calls)) \
                                             : (XF_COND_SAME && xv_mm_calls == __CPROVER_old(xv_mm_calls) + 1 && xv_mm_n == (size_t)(r)->data_len)) && \
                         XF_MIRROR(r) && XV_COND_VALID))
#define XF_SEND_TERM(r) \
    ((SND_GONE ==> (XF_CB_ONCE(r, 0) && xv_fcb_msg == NULL)) && (SND_ERR ==> (XF_CB_ONCE(r, -1) && xv_fcb_msg != NULL)) && \
     ((SND_GONE || SND_ERR) ==> (XF_COND_SAME && XF_STREAM_SAME)))

static void xfwd_send(struct xfwd *relay)
__CPROVER_requires(XF_FRESH(relay) && XF_CONDS_FRESH(relay))
__CPROVER_requires(XF_BASE_REQUIRES(relay))
/* called only when something is held (see xfwd_active.dispatch) */
__CPROVER_requires(relay->data_len >= 1 && XF_INTEREST(relay) && XF_STREAM(relay))
__CPROVER_assigns(xv_errno, XF_SND_ASSIGNS, XF_CB_ASSIGNS, XF_COND_ASSIGNS(relay), relay->data_len)
__CPROVER_frees(relay->err_cb_data)
/* PO[C20] xfwd_send.hold_one */
__CPROVER_ensures(XF_SEND_ONE(relay, __CPROVER_old(relay->data_len)))
/* PO[C20] xfwd_send.message_forwarded_once */
__CPROVER_ensures(XF_SEND_MSG(relay))
/* PO[C20] xfwd_send.eagain_keeps_message */
__CPROVER_ensures(XF_SEND_AGAIN(relay, __CPROVER_old(relay->data_len)))
/* PO[C20] xfwd_send.stream_remainder_in_order */
__CPROVER_ensures(XF_SEND_STREAM(relay, __CPROVER_old(relay->data_len)))
/* PO[C20] xfwd_send.other_direction_kept */
__CPROVER_ensures(XF_OTHER_KEPT)
/* PO[C20] xfwd_send.close_and_error_terminate */
__CPROVER_ensures(XF_SEND_TERM(relay))
;

/* ==== xfwd_active ===================================================================================================== */
/* the libevent callback: one step of a running direction, on activity of either leg's descriptor */
#define XA(arg) ((struct xfwd *)(arg))
#define XA_IDLE(len) ((len) == 0)
#define XA_ON_SRC (fd == xv_legs[XS].fd)
/* what a running direction looks like between two steps */
#define XG_RUNNING_INV(r, s) ((r)->running && XG_EV_OK(r, s) && XG_INTEREST(r, s) && XG_MIRROR(r, s) && xv_ev_pending >= 2)
#define XF_RUNNING_INV(r) XG_RUNNING_INV(r, XS)

static void xfwd_active(int fd, short ev, void *arg)
__CPROVER_requires(XF_FRESH(XA(arg)) && XF_CONDS_FRESH(XA(arg)))
__CPROVER_requires(XF_BASE_REQUIRES(XA(arg)))
__CPROVER_requires(XF_RUNNING_INV(XA(arg)) && XF_STREAM(XA(arg)))
/* libevent calls back for the two registered descriptors only */
__CPROVER_requires(fd == xv_legs[0].fd || fd == xv_legs[1].fd)
__CPROVER_assigns(xv_errno, XF_RCV_ASSIGNS, XF_SND_ASSIGNS, XF_FIN_ASSIGNS, XF_CB_ASSIGNS, XF_COND_ASSIGNS(XA(arg)), XA(arg)->data_len)
__CPROVER_frees(XA(arg)->err_cb_data)
/* PO[C20] xfwd_active.dispatch: exactly ONE XCM operation per step: receive (source active, nothing held), send (destination active, something held), else xcm_finish on the socket that is not operated */
__CPROVER_ensures(XA_IDLE(__CPROVER_old(XA(arg)->data_len)) \
    ? (XA_ON_SRC ? (xv_rcv_calls == __CPROVER_old(xv_rcv_calls) + 1 && XF_SAME(xv_snd_calls) && XF_SAME(xv_fin_calls)) \
                 : (xv_fin_calls == __CPROVER_old(xv_fin_calls) + 1 && xv_fin_conn == XV_CONN(XD) && XF_SAME(xv_rcv_calls) && XF_SAME(xv_snd_calls))) \
    : (!XA_ON_SRC ? (xv_snd_calls == __CPROVER_old(xv_snd_calls) + 1 && XF_SAME(xv_rcv_calls) && XF_SAME(xv_fin_calls)) \
                  : (xv_fin_calls == __CPROVER_old(xv_fin_calls) + 1 && xv_fin_conn == XV_CONN(XS) && XF_SAME(xv_rcv_calls) && XF_SAME(xv_snd_calls))))
/* PO[C20] xfwd_active.invariant_kept: unless terminated, the direction is as consistent after the step as before */
__CPROVER_ensures(XF_NO_CB ==> (XF_RUNNING_INV(XA(arg)) && XF_STREAM_OUT(XA(arg)) && XV_COND_VALID && XF_EV_SAME(XA(arg))))
/* PO[C20] xfwd_active.other_direction_kept */
__CPROVER_ensures(XF_OTHER_KEPT)
/* PO[C20] xfwd_active.receive_hold_one */
__CPROVER_ensures(xv_rcv_calls != __CPROVER_old(xv_rcv_calls) ==> XF_RECEIVE_ONE(XA(arg)))
/* PO[C20] xfwd_active.receive_held_as_received */
__CPROVER_ensures(xv_rcv_calls != __CPROVER_old(xv_rcv_calls) ==> (XF_RECEIVE_GOT(XA(arg)) && XF_RECEIVE_GOT_INTEREST(XA(arg)) && XF_RECEIVE_AGAIN(XA(arg))))
/* PO[C20] xfwd_active.receive_close_and_error_terminate */
__CPROVER_ensures(xv_rcv_calls != __CPROVER_old(xv_rcv_calls) ==> XF_RECEIVE_TERM(XA(arg)))
/* PO[C20] xfwd_active.send_hold_one */
__CPROVER_ensures(xv_snd_calls != __CPROVER_old(xv_snd_calls) ==> XF_SEND_ONE(XA(arg), __CPROVER_old(XA(arg)->data_len)))
/* PO[C20] xfwd_active.send_forwarded_once_or_kept */
__CPROVER_ensures(xv_snd_calls != __CPROVER_old(xv_snd_calls) ==> (XF_SEND_MSG(XA(arg)) && XF_SEND_AGAIN(XA(arg), __CPROVER_old(XA(arg)->data_len)) && \
                                                                    XF_SEND_STREAM(XA(arg), __CPROVER_old(XA(arg)->data_len))))
/* PO[C20] xfwd_active.send_close_and_error_terminate */
__CPROVER_ensures(xv_snd_calls != __CPROVER_old(xv_snd_calls) ==> XF_SEND_TERM(XA(arg)))
/* PO[C20] xfwd_active.finish_only: a step that only finishes work changes nothing; a fatal xcm_finish error terminates (reason -1), EAGAIN and success do not */
__CPROVER_ensures(xv_fin_calls != __CPROVER_old(xv_fin_calls) ==> (XF_COND_SAME && XF_STREAM_SAME && \
        ((xv_fin_ret == -1 && xv_fin_errno != EAGAIN) ? (XF_CB_ONCE(XA(arg), -1) && xv_fcb_msg == NULL) \
                                                       : (XF_NO_CB && XF_SAME(XA(arg)->data_len)))))
;

/* ==== xfwd_start / xfwd_stop ========================================================================================== */
/* a stopped direction has no pending event; a running one is registered (XF_EV_OK) */
static int xfwd_start(struct xfwd *relay)
__CPROVER_requires(XF_FRESH(relay) && XF_CONDS_FRESH(relay))
/* the legs may still be in blocking mode (as accepted / connected); nothing else is assumed about them */
__CPROVER_requires(XF_WIRED(relay) && XV_LEGS_OPEN && XV_COND_VALID && XF_MIRROR(relay) && XV_RELAY_GHOST_RANGE && XF_LEN_OK(relay))
__CPROVER_requires(relay->running ? (XF_RUNNING_INV(relay) && XV_LEGS_LIVE) : XF_EV_OFF(relay))
/* frame: NOT data, data_len (a held message survives), not the stream accounting */
__CPROVER_assigns(xv_errno, xv_sb_calls, xv_legs[0].blocking, xv_legs[1].blocking, relay->src_event, relay->dst_event, relay->running, \
                  xv_ev_pending, xv_ev_add_calls, xv_ev_assign_calls, xv_ev_add_failed, XF_COND_ASSIGNS(relay))
__CPROVER_ensures(__CPROVER_return_value == 0 || __CPROVER_return_value == -1)
/* PO[C20] xfwd_start.idempotent: starting a running direction does nothing */
__CPROVER_ensures(__CPROVER_old(relay->running) ==> (__CPROVER_return_value == 0 && relay->running && XF_COND_SAME && XF_EV_SAME(relay) && XF_SAME(xv_sb_calls)))
/* PO[C20] xfwd_start.interest_established: success => non-blocking legs, the interest that fits what is held, the other direction's bits untouched */
__CPROVER_ensures(__CPROVER_return_value == 0 ==> (relay->running && XV_LEGS_LIVE && XF_INTEREST(relay) && XF_MIRROR(relay) && XV_COND_VALID))
/* PO[C20] xfwd_start.other_direction_kept */
__CPROVER_ensures(XF_OTHER_KEPT)
/* PO[C20] xfwd_start.events_registered: success => both descriptors are watched and dispatch to xfwd_active with this xfwd (interest is not lost in the event loop) */
__CPROVER_ensures(__CPROVER_return_value == 0 ==> (XF_EV_OK(relay) && (!__CPROVER_old(relay->running) ==> xv_ev_pending == __CPROVER_old(xv_ev_pending) + 2)))
/* PO[C20] xfwd_start.failure_leaves_stopped: failure (a leg cannot be made non-blocking) => not running, nothing registered, nothing awaited anew */
__CPROVER_ensures(__CPROVER_return_value == -1 ==> (!relay->running && XF_EV_OFF(relay) && XF_COND_SAME && XF_SAME(xv_ev_pending)))
;

static void xfwd_stop(struct xfwd *relay)
__CPROVER_requires(XF_FRESH(relay) && XF_CONDS_FRESH(relay))
__CPROVER_requires(XF_WIRED(relay) && XV_LEGS_OPEN && XV_COND_VALID && XF_MIRROR(relay) && XV_RELAY_GHOST_RANGE && XF_LEN_OK(relay))
__CPROVER_requires(relay->running ? (XF_RUNNING_INV(relay) && XV_LEGS_LIVE) : XF_EV_OFF(relay))
__CPROVER_assigns(relay->src_event, relay->dst_event, relay->running, xv_ev_pending, xv_ev_del_calls, XF_COND_ASSIGNS(relay))
/* PO[C20] xfwd_stop.stopped: no event pending, this direction awaits nothing, the held message (data, data_len: frame) is kept */
__CPROVER_ensures(!relay->running && XF_EV_OFF(relay) && XF_MIRROR(relay) && XV_COND_VALID && \
                  (__CPROVER_old(relay->running) ? (XF_AWAIT_NONE && xv_ev_pending == __CPROVER_old(xv_ev_pending) - 2) : (XF_COND_SAME && XF_EV_SAME(relay))))
/* PO[C20] xfwd_stop.other_direction_kept */
__CPROVER_ensures(XF_OTHER_KEPT)
;

/* ==== struct xrelay: the two directions together ====================================================================== */
/* fwd0 relays leg 0 -> leg 1, fwd1 relays leg 1 -> leg 0; they share cond0 (what leg 0 awaits) and cond1 (leg 1) */
#define XR_WIRED1(rl, f, s, c_src, c_dst) ((rl)->f.src_conn == XV_CONN(s) && (rl)->f.dst_conn == XV_CONN(1 - (s)) && \
        (rl)->f.src_condition == &(rl)->c_src && (rl)->f.dst_condition == &(rl)->c_dst && \
        (rl)->f.err_cb == xrelay_fwd_term && (rl)->f.err_cb_data == (void *)(rl))
#define XR_WIRED(rl) (XR_WIRED1(rl, fwd0, 0, cond0, cond1) && XR_WIRED1(rl, fwd1, 1, cond1, cond0))
#define XR_MIRROR(rl) ((rl)->cond0 == xv_legs[0].cond && (rl)->cond1 == xv_legs[1].cond)
#define XR_DIR_STATE(rl, f, s) ((rl)->f.running ? (XG_RUNNING_INV(&(rl)->f, s) && XV_LEGS_LIVE) : XF_EV_OFF(&(rl)->f))
#define XR_STATE(rl) (XR_WIRED(rl) && XR_MIRROR(rl) && XV_COND_VALID && XF_LEN_OK(&(rl)->fwd0) && XF_LEN_OK(&(rl)->fwd1) && \
                      XR_DIR_STATE(rl, fwd0, 0) && XR_DIR_STATE(rl, fwd1, 1) && \
                      xv_ev_pending >= 2 * XR_B2I((rl)->fwd0.running) + 2 * XR_B2I((rl)->fwd1.running))
#define XR_B2I(b) ((b) ? 1 : 0)

/* ---- xrelay_create -------------------------------------------------------------------------------------------------- */
struct xrelay *xrelay_create(struct xcm_socket *conn0, struct xcm_socket *conn1, xrelay_err_cb err_cb, void *cb_data,
                             struct event_base *event_base)
__CPROVER_requires(1)
__CPROVER_assigns()
/* PO[C20] xrelay_create.wiring: a fresh relay; direction 0 goes conn0 -> conn1, direction 1 conn1 -> conn0; both share the two condition words crosswise; both report to xrelay_fwd_term with the relay as cookie */
__CPROVER_ensures(__CPROVER_is_fresh(__CPROVER_return_value, sizeof(struct xrelay)) && \
    __CPROVER_return_value->fwd0.src_conn == conn0 && __CPROVER_return_value->fwd0.dst_conn == conn1 && \
    __CPROVER_return_value->fwd1.src_conn == conn1 && __CPROVER_return_value->fwd1.dst_conn == conn0 && \
    __CPROVER_return_value->fwd0.src_condition == &__CPROVER_return_value->cond0 && __CPROVER_return_value->fwd0.dst_condition == &__CPROVER_return_value->cond1 && \
    __CPROVER_return_value->fwd1.src_condition == &__CPROVER_return_value->cond1 && __CPROVER_return_value->fwd1.dst_condition == &__CPROVER_return_value->cond0 && \
    __CPROVER_return_value->fwd0.err_cb == xrelay_fwd_term && __CPROVER_return_value->fwd0.err_cb_data == (void *)__CPROVER_return_value && \
    __CPROVER_return_value->fwd1.err_cb == xrelay_fwd_term && __CPROVER_return_value->fwd1.err_cb_data == (void *)__CPROVER_return_value && \
    __CPROVER_return_value->fwd0.event_base == event_base && __CPROVER_return_value->fwd1.event_base == event_base && \
    __CPROVER_return_value->err_cb == err_cb && __CPROVER_return_value->err_cb_data == cb_data)
/* PO[C20] xrelay_create.initial_state: nothing held, nothing awaited, not running, no event pending */
__CPROVER_ensures(__CPROVER_return_value->fwd0.data_len == 0 && __CPROVER_return_value->fwd1.data_len == 0 && \
    !__CPROVER_return_value->fwd0.running && !__CPROVER_return_value->fwd1.running && !__CPROVER_return_value->running && \
    __CPROVER_return_value->cond0 == 0 && __CPROVER_return_value->cond1 == 0 && \
    XF_EV_OFF(&__CPROVER_return_value->fwd0) && XF_EV_OFF(&__CPROVER_return_value->fwd1))
;

/* ---- xrelay_fwd_term: the real termination callback of both directions ------------------------------------------------ */
static void xrelay_fwd_term(int reason, const char *msg, void *cb_data)
__CPROVER_requires(__CPROVER_rw_ok((struct xrelay *)cb_data, sizeof(struct xrelay)) && ((struct xrelay *)cb_data)->err_cb == xv_relay_cb && \
                   (xv_cb_frees ==> __CPROVER_is_freeable(cb_data)) && XV_RCNT_OK(xv_rcb_calls))
__CPROVER_assigns(xv_rcb_calls, xv_rcb_relay, xv_rcb_reason, xv_rcb_msg, xv_rcb_data, xv_terminated)
__CPROVER_frees(cb_data)
/* PO[C20] xrelay_fwd_term.passed_on_once: the relay's user is told exactly once, about this relay, with the reason, the text and its own cookie */
__CPROVER_ensures(xv_rcb_calls == __CPROVER_old(xv_rcb_calls) + 1 && xv_rcb_relay == (struct xrelay *)cb_data && xv_rcb_reason == reason && \
                  xv_rcb_msg == msg && xv_rcb_data == __CPROVER_old(((struct xrelay *)cb_data)->err_cb_data) && xv_terminated)
;

/* ---- xrelay_start / xrelay_stop / xrelay_destroy ------------------------------------------------------------------------ */
#define XR_EV_ASSIGNS(rl) (rl)->fwd0.src_event, (rl)->fwd0.dst_event, (rl)->fwd1.src_event, (rl)->fwd1.dst_event, \
                          (rl)->fwd0.running, (rl)->fwd1.running, xv_ev_pending
#define XR_COND_ASSIGNS(rl) (rl)->cond0, (rl)->cond1, xv_legs[0].cond, xv_legs[1].cond, xv_aw_calls
int xrelay_start(struct xrelay *relay)
__CPROVER_requires(__CPROVER_rw_ok(relay, sizeof(*relay)) && XV_LEGS_OPEN && XV_RELAY_GHOST_RANGE && XR_STATE(relay))
__CPROVER_assigns(xv_errno, xv_sb_calls, xv_legs[0].blocking, xv_legs[1].blocking, XR_EV_ASSIGNS(relay), \
                  xv_ev_add_calls, xv_ev_assign_calls, xv_ev_add_failed, XR_COND_ASSIGNS(relay))
__CPROVER_ensures((__CPROVER_return_value == 0 || __CPROVER_return_value == -1) && XV_RELAY_GHOST_RANGE_OUT)
/* PO[C20] xrelay_start.both_directions: success => both directions run, each with the interest that fits what it holds */
__CPROVER_ensures(__CPROVER_return_value == 0 ==> (relay->fwd0.running && relay->fwd1.running && XV_LEGS_LIVE && XR_MIRROR(relay) && \
                                                   XG_INTEREST(&relay->fwd0, 0) && XG_INTEREST(&relay->fwd1, 1)))
/* PO[C20] xrelay_start.disjoint_bits: what each leg awaits is exactly the union of the two directions' needs: RECEIVABLE iff the direction reading from it is empty, SENDABLE iff the direction writing to it holds something */
__CPROVER_ensures(__CPROVER_return_value == 0 ==> ( \
    xv_legs[0].cond == ((relay->fwd0.data_len == 0 ? XR_R : 0) | (relay->fwd1.data_len > 0 ? XR_S : 0)) && \
    xv_legs[1].cond == ((relay->fwd1.data_len == 0 ? XR_R : 0) | (relay->fwd0.data_len > 0 ? XR_S : 0))))
/* PO[C20] xrelay_start.events_registered */
__CPROVER_ensures(__CPROVER_return_value == 0 ==> (XG_EV_OK(&relay->fwd0, 0) && XG_EV_OK(&relay->fwd1, 1)))
/* PO[C20] xrelay_start.failure: only a leg that cannot be made non-blocking makes the start fail, and then before anything was registered or awaited */
__CPROVER_ensures(__CPROVER_return_value == -1 ==> (XF_COND_SAME && XF_SAME(xv_ev_pending) && XF_SAME(relay->fwd0.running) && XF_SAME(relay->fwd1.running) && \
                                                    XF_SAME(XV_EV_FLAGS(&relay->fwd0.src_event)) && XF_SAME(XV_EV_FLAGS(&relay->fwd0.dst_event)) && \
                                                    XF_SAME(XV_EV_FLAGS(&relay->fwd1.src_event)) && XF_SAME(XV_EV_FLAGS(&relay->fwd1.dst_event)) && \
                                                    XR_MIRROR(relay) && (xv_legs[0].blocking || xv_legs[1].blocking)))
;

void xrelay_stop(struct xrelay *relay)
__CPROVER_requires(__CPROVER_rw_ok(relay, sizeof(*relay)) && XV_LEGS_OPEN && XV_RELAY_GHOST_RANGE && XR_STATE(relay))
__CPROVER_assigns(XR_EV_ASSIGNS(relay), xv_ev_del_calls, XR_COND_ASSIGNS(relay))
__CPROVER_ensures(XV_RELAY_GHOST_RANGE_OUT)
/* PO[C20] xrelay_stop.stopped: neither direction runs, none of their events is pending, a direction that ran awaits nothing any more; held messages (frame) are kept */
__CPROVER_ensures(!relay->fwd0.running && !relay->fwd1.running && XF_EV_OFF(&relay->fwd0) && XF_EV_OFF(&relay->fwd1) && XR_MIRROR(relay) && XV_COND_VALID && \
                  xv_ev_pending == __CPROVER_old(xv_ev_pending) - 2 * XR_B2I(__CPROVER_old(relay->fwd0.running)) - 2 * XR_B2I(__CPROVER_old(relay->fwd1.running)) && \
                  (__CPROVER_old(relay->fwd0.running) ==> XG_AWAIT_NONE(0)) && (__CPROVER_old(relay->fwd1.running) ==> XG_AWAIT_NONE(1)) && \
                  ((!__CPROVER_old(relay->fwd0.running) && !__CPROVER_old(relay->fwd1.running)) ==> XF_COND_SAME))
;

/* (__CPROVER_was_freed cannot be used in a contract that is REPLACED -- DFCC rejects it when the pointer may be NULL -- so the
 * rserver jobs, which replace xrelay_destroy, assume the contract without that conjunct; job relay.xrelay_destroy proves it) */
#ifdef XV_RSERVER
#define XR_WAS_FREED(p) 1
#else
#define XR_WAS_FREED(p) __CPROVER_was_freed(p)
#endif
void xrelay_destroy(struct xrelay *relay)
__CPROVER_requires(relay == NULL || (__CPROVER_rw_ok(relay, sizeof(*relay)) && __CPROVER_is_freeable(relay) && XV_LEGS_OPEN && XV_RELAY_GHOST_LIM(XV_RELAY_CALLS_MAX + 96) && XR_STATE(relay)))
__CPROVER_assigns(relay != NULL: XR_EV_ASSIGNS(relay), xv_ev_del_calls, XR_COND_ASSIGNS(relay), xv_close_calls, xv_close_unflushed, xv_legs[0].closed, xv_legs[1].closed)
__CPROVER_frees(relay)
__CPROVER_ensures(relay != NULL ==> XV_RELAY_GHOST_RANGE_OUT2)
/* PO[C20] xrelay_destroy.released: both connections closed, each exactly once; no event of the relay left pending in the event base (it would point into freed memory); the relay freed; NULL is a no-op */
__CPROVER_ensures(relay == NULL ? (XF_SAME(xv_close_calls) && XF_SAME(xv_ev_pending)) \
    : (xv_close_calls == __CPROVER_old(xv_close_calls) + 2 && xv_legs[0].closed && xv_legs[1].closed && XR_WAS_FREED(relay) && \
       xv_ev_pending == __CPROVER_old(xv_ev_pending) - 2 * XR_B2I(__CPROVER_old(relay->fwd0.running)) - 2 * XR_B2I(__CPROVER_old(relay->fwd1.running))))
/* PO[C20] xrelay_destroy.flush_before_close: "the other side sees the close only after the messages": no connection is closed while output that xcm_send accepted is still buffered in XCM (xcm.h, "Buffer Flush Before Close") */
__CPROVER_ensures(!__CPROVER_old(xv_close_unflushed) ==> !xv_close_unflushed)
;

#ifdef XV_RSERVER
/* ==== rserver.c: accepting connections, pairing them, terminating relays ================================================ */
/* The xrelay_* functions are REPLACED by the contracts above.  rserver_num_relays (a walk over the list of live relays) is
 * cut by an ASSUMED contract returning any count: both sides of every `== MAX_RELAYS` test are explored, the list walk
 * itself is not verified (it would need an inductive list predicate). */
#ifdef XV_RS_TERMINATE_JOB
/* (job relay.rserver_terminate_relay) the count is that of the OTHER relays (ghost, any value) plus the terminating one for as long as it
 * is linked into the list: the administrative limit must be tested on the list as it was BEFORE the relay is unlinked */
size_t xv_rs_others; struct xrelay *xv_rs_term;
static size_t rserver_num_relays(struct rserver *server)
__CPROVER_requires(__CPROVER_rw_ok(xv_rs_term, sizeof(struct xrelay)) && __CPROVER_r_ok(xv_rs_term->entry.le_prev, sizeof(struct xrelay *)) && xv_rs_others < 100000)
__CPROVER_assigns()
__CPROVER_ensures(__CPROVER_return_value == xv_rs_others + (*xv_rs_term->entry.le_prev == xv_rs_term ? 1 : 0))
;
#else
static size_t rserver_num_relays(struct rserver *server)
__CPROVER_requires(1)
__CPROVER_assigns()
__CPROVER_ensures(1)
;
#endif
#define RS(arg) ((struct rserver *)(arg))
#define RS_HEAD(sv) ((sv)->relays.lh_first)
/* the listening socket is entry XV_SRV of the socket table: open, non-blocking; the two slots for the connections to come are free */
#define RS_SHAPE(sv) (__CPROVER_rw_ok((sv), sizeof(struct rserver)) && xv_srv_present && (sv)->server_socket == XV_CONN(XV_SRV) && \
                      !xv_legs[XV_SRV].closed && !xv_legs[XV_SRV].blocking && xv_legs[XV_SRV].fd >= 0 && !xv_terminated && \
                      ((sv)->fatal_cb == NULL || (sv)->fatal_cb == xv_fatal_cb) && \
                      (xv_legs[XV_SRV].cond & ~XCM_SO_ACCEPTABLE) == 0)
/* the list of live relays: empty, or its first element is a valid relay that points back at the list head */
#define RS_LIST(sv) (RS_HEAD(sv) == NULL || (__CPROVER_rw_ok(RS_HEAD(sv), sizeof(struct xrelay)) && RS_HEAD(sv)->entry.le_prev == &RS_HEAD(sv)))
#define RS_SLOTS_FREE (!xv_legs[0].exists && !xv_legs[1].exists && xv_legs[0].fd >= 0 && xv_legs[1].fd >= 0 && xv_legs[0].fd != xv_legs[1].fd)
#define RS_CNT_OK (XV_RELAY_GHOST_RANGE && XV_RCNT_OK(xv_accept_calls) && XV_RCNT_OK(xv_connect_calls) && XV_RCNT_OK(xv_fatal_calls))
/* a connection that came into being is either closed again or owned by the relay now at the head of the list */
#define RS_INSERTED(sv, oldhead) (RS_HEAD(sv) != (oldhead))
#define RS_NO_LEAK(sv, oldhead) ((xv_legs[0].exists ==> (xv_legs[0].closed != RS_INSERTED(sv, oldhead))) && \
                                 (xv_legs[1].exists ==> (xv_legs[1].closed != RS_INSERTED(sv, oldhead))))

static void rserver_accept(int fd, short ev, void *arg)
__CPROVER_requires(RS_SHAPE(RS(arg)) && RS_LIST(RS(arg)) && RS_SLOTS_FREE && RS_CNT_OK && !xv_close_unflushed)
__CPROVER_assigns(xv_errno, XF_FIN_ASSIGNS, xv_legs[XV_SRV].pending_out, xv_aw_calls, xv_legs[XV_SRV].cond, xv_accept_calls, xv_connect_calls, xv_fatal_calls, xv_fatal_data, \
                  __CPROVER_object_whole(&xv_legs), xv_close_calls, xv_close_unflushed, xv_sb_calls, xv_ev_pending, xv_ev_add_calls, xv_ev_assign_calls, xv_ev_del_calls, xv_ev_add_failed, \
                  RS_HEAD(RS(arg)))
__CPROVER_assigns(RS_HEAD(RS(arg)) != NULL: RS_HEAD(RS(arg))->entry.le_prev)
/* PO[C20] rserver_accept.no_connection_leaked: on every path, each connection socket that was created is either closed (exactly once) or owned by a relay that was inserted in the list */
__CPROVER_ensures(RS_NO_LEAK(RS(arg), __CPROVER_old(RS_HEAD(RS(arg)))) && xv_close_calls <= __CPROVER_old(xv_close_calls) + 2)
/* PO[C20] rserver_accept.paired_and_running: a relay is inserted only if both connections exist and have the same service type; it relays exactly these two, runs in both directions, and heads the list with the old list behind it */
__CPROVER_ensures(RS_INSERTED(RS(arg), __CPROVER_old(RS_HEAD(RS(arg)))) ==> ( \
    xv_legs[0].exists && xv_legs[1].exists && xv_legs[0].bytestream == xv_legs[1].bytestream && \
    RS_HEAD(RS(arg))->fwd0.src_conn == XV_CONN(0) && RS_HEAD(RS(arg))->fwd0.dst_conn == XV_CONN(1) && \
    RS_HEAD(RS(arg))->fwd1.src_conn == XV_CONN(1) && RS_HEAD(RS(arg))->fwd1.dst_conn == XV_CONN(0) && \
    RS_HEAD(RS(arg))->fwd0.running && RS_HEAD(RS(arg))->fwd1.running && \
    RS_HEAD(RS(arg))->err_cb == rserver_terminate_relay && RS_HEAD(RS(arg))->err_cb_data == arg && \
    RS_HEAD(RS(arg))->entry.le_next == __CPROVER_old(RS_HEAD(RS(arg))) && RS_HEAD(RS(arg))->entry.le_prev == &RS_HEAD(RS(arg)) && \
    (__CPROVER_old(RS_HEAD(RS(arg))) != NULL ==> __CPROVER_old(RS_HEAD(RS(arg)))->entry.le_prev == &RS_HEAD(RS(arg))->entry.le_next) && \
    xv_fatal_calls == __CPROVER_old(xv_fatal_calls)))
/* PO[C20] rserver_accept.mismatch_is_fatal_not_relayed: connections of different service types are never relayed: both are closed and the owner is told (once) */
__CPROVER_ensures((xv_legs[0].exists && xv_legs[1].exists && xv_legs[0].bytestream != xv_legs[1].bytestream) ==> \
    (!RS_INSERTED(RS(arg), __CPROVER_old(RS_HEAD(RS(arg)))) && xv_legs[0].closed && xv_legs[1].closed && \
     xv_fatal_calls == __CPROVER_old(xv_fatal_calls) + (RS(arg)->fatal_cb != NULL ? 1 : 0)))
/* PO[C20] rserver_accept.one_failed_connection_is_not_fatal: the relay keeps serving its other connections: the owner's fatal callback (main.c: leave the event loop, exit 1) is used only for a configuration error seen on an established PAIR (service type unobtainable or different), at most once; a failed accept or a target server that cannot be reached drops this one client only */
__CPROVER_ensures(xv_fatal_calls == __CPROVER_old(xv_fatal_calls) || (xv_fatal_calls == __CPROVER_old(xv_fatal_calls) + 1 && xv_legs[0].exists && xv_legs[1].exists))
/* PO[C20] rserver_accept.one_accept_or_finish: each activation either accepts (at most one connection) or, at the administrative limit, finishes outstanding work on the listening socket as the API demands */
__CPROVER_ensures((xv_accept_calls == __CPROVER_old(xv_accept_calls) + 1 && XF_SAME(xv_fin_calls)) || \
                  (XF_SAME(xv_accept_calls) && XF_SAME(xv_connect_calls) && xv_fin_calls == __CPROVER_old(xv_fin_calls) + 1 && xv_fin_conn == XV_CONN(XV_SRV) && \
                   !RS_INSERTED(RS(arg), __CPROVER_old(RS_HEAD(RS(arg))))))
;

static void rserver_terminate_relay(struct xrelay *relay, int reason, const char *msg, void *cb_data)
/* the relay is an element of the server's list: its back pointer is writable and points at it; its successor, if any, is valid */
__CPROVER_requires(RS_SHAPE(RS(cb_data)) && RS_CNT_OK && xv_legs[0].exists && xv_legs[1].exists)
__CPROVER_requires(__CPROVER_rw_ok(relay, sizeof(*relay)) && __CPROVER_is_freeable(relay) && XV_LEGS_OPEN && XR_STATE(relay))
__CPROVER_requires(__CPROVER_rw_ok(relay->entry.le_prev, sizeof(struct xrelay *)) && *relay->entry.le_prev == relay && \
                   (relay->entry.le_next == NULL || (__CPROVER_rw_ok(relay->entry.le_next, sizeof(struct xrelay)) && \
                                                      relay->entry.le_next->entry.le_prev == &relay->entry.le_next)))
__CPROVER_assigns(xv_errno, xv_aw_calls, __CPROVER_object_whole(&xv_legs), xv_close_calls, xv_close_unflushed, xv_ev_pending, xv_ev_del_calls, \
                  *relay->entry.le_prev, XR_EV_ASSIGNS(relay), relay->cond0, relay->cond1)
__CPROVER_assigns(relay->entry.le_next != NULL: relay->entry.le_next->entry.le_prev)
__CPROVER_frees(relay)
#ifdef XV_RS_TERMINATE_JOB
/* PO[C20] rserver_terminate_relay.full_relay_accepts_again: when the relay was at its administrative limit (MAX_RELAYS live relays, the terminating one included) the listening socket awaits ACCEPTABLE again afterwards - otherwise a relay that has been full once never serves a new client; below the limit what the listening socket awaits is left alone */
__CPROVER_ensures(xv_rs_others + 1 == MAX_RELAYS ? (xv_legs[XV_SRV].cond & XCM_SO_ACCEPTABLE) != 0 : xv_legs[XV_SRV].cond == __CPROVER_old(xv_legs[XV_SRV].cond))
#endif
/* PO[C20] rserver_terminate_relay.unlinked_and_released: the relay is taken out of the list (its neighbours are linked to each other) and handed to xrelay_destroy (both its connections closed; that it is freed is xrelay_destroy.released); nothing else is closed */
__CPROVER_ensures(*__CPROVER_old(relay->entry.le_prev) == __CPROVER_old(relay->entry.le_next) && \
                  (__CPROVER_old(relay->entry.le_next) != NULL ==> __CPROVER_old(relay->entry.le_next)->entry.le_prev == __CPROVER_old(relay->entry.le_prev)) && \
                  xv_legs[0].closed && xv_legs[1].closed && !xv_legs[XV_SRV].closed && xv_close_calls == __CPROVER_old(xv_close_calls) + 2)
;

int rserver_start(struct rserver *server)
__CPROVER_requires(RS_SHAPE(server) && RS_CNT_OK)
__CPROVER_requires(server->running ? (XV_EV_FLAGS(&server->server_socket_event) & (EVLIST_INIT | EVLIST_INSERTED)) == (EVLIST_INIT | EVLIST_INSERTED) \
                                   : (XV_EV_FLAGS(&server->server_socket_event) & EVLIST_INSERTED) == 0)
__CPROVER_assigns(xv_errno, xv_aw_calls, xv_legs[XV_SRV].cond, server->server_socket_event, server->running, xv_ev_pending, xv_ev_add_calls, xv_ev_assign_calls, xv_ev_add_failed)
/* PO[C20] rserver_start.listening: the server awaits connections */
__CPROVER_ensures(__CPROVER_return_value == 0 && server->running && (!__CPROVER_old(server->running) ==> xv_legs[XV_SRV].cond == XCM_SO_ACCEPTABLE))
/* PO[C20] rserver_start.event_registered: ... and its descriptor is watched, dispatching to rserver_accept with the server */
__CPROVER_ensures(!__CPROVER_old(server->running) ==> ( \
        (XV_EV_FLAGS(&server->server_socket_event) & (EVLIST_INIT | EVLIST_INSERTED)) == (EVLIST_INIT | EVLIST_INSERTED) && \
        server->server_socket_event.ev_fd == xv_legs[XV_SRV].fd && XV_EV_CB(&server->server_socket_event) == rserver_accept && \
        XV_EV_ARG(&server->server_socket_event) == (void *)server && server->server_socket_event.ev_events == (EV_READ | EV_PERSIST)))
;

void rserver_stop(struct rserver *server)
__CPROVER_requires(RS_SHAPE(server) && RS_CNT_OK)
__CPROVER_requires(server->running ? (XV_EV_FLAGS(&server->server_socket_event) & (EVLIST_INIT | EVLIST_INSERTED)) == (EVLIST_INIT | EVLIST_INSERTED) \
                                   : (XV_EV_FLAGS(&server->server_socket_event) & EVLIST_INSERTED) == 0)
__CPROVER_assigns(xv_errno, xv_aw_calls, xv_legs[XV_SRV].cond, server->server_socket_event, server->running, xv_ev_pending, xv_ev_del_calls)
/* PO[C20] rserver_stop.not_listening: no new connections are awaited or dispatched; live relays are not touched (frame) */
__CPROVER_ensures(!server->running && (XV_EV_FLAGS(&server->server_socket_event) & EVLIST_INSERTED) == 0 && \
                  (__CPROVER_old(server->running) ==> xv_legs[XV_SRV].cond == 0))
;
#endif

#include "contracts/end.h"
#endif
