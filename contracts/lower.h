/* contracts/lower.h -- the byte-stream interface a framing transport (tcp, tls)
 * sees of the layer below it (btcp, btls), DESIGN 4.1.
 *
 * The same macro text is (a) ASSUMED of xcm_tp_socket_send/receive/finish when
 * the framing layer is under proof and (b) ENFORCED on btcp_send/btcp_receive/
 * btcp_finish (unit btcp) and btls_* (unit btls), so the assumption is discharged
 * inside the repository down to send(2)/recv(2)/SSL_write/SSL_read.
 */
#ifndef XV_LOWER_H
#define XV_LOWER_H
#include "contracts/begin.h"


#define XV_U8(p) ((const uint8_t *)(p))

#define XV_IN_TX(off, rv) (xv_k >= (off) && xv_k < (off) + (rv))

/* ---- send: accepts 1..len leading bytes of buf, or fails accepting nothing */
#define LOWER_SEND_REQUIRES(buf, len) \
    ((len) >= 1 && (len) <= 0x7ffff000UL && __CPROVER_r_ok((buf), (len)))

#define LOWER_SEND_ASSIGNS xv_errno, xv_tx_off, xv_tx_k, xv_tx_k_set, xv_lower_dead

#define LOWER_SEND_ENSURES(rv, buf, len) ( \
    ((rv) == -1 && xv_errno > 0 && xv_tx_off == __CPROVER_old(xv_tx_off) && \
        xv_tx_k == __CPROVER_old(xv_tx_k) && xv_tx_k_set == __CPROVER_old(xv_tx_k_set) && \
        (xv_errno != EAGAIN ==> xv_lower_dead) && (__CPROVER_old(xv_lower_dead) ==> xv_errno != EAGAIN)) || \
    ((rv) >= 1 && (size_t)(rv) <= (len) && !__CPROVER_old(xv_lower_dead) && \
        xv_tx_off == __CPROVER_old(xv_tx_off) + (rv) && \
        (XV_IN_TX(__CPROVER_old(xv_tx_off), (rv)) \
            ? (xv_tx_k_set && xv_tx_k == XV_U8(buf)[xv_k - __CPROVER_old(xv_tx_off)]) \
            : (xv_tx_k == __CPROVER_old(xv_tx_k) && xv_tx_k_set == __CPROVER_old(xv_tx_k_set)))))

#define LOWER_DEAD_MONOTONE (__CPROVER_old(xv_lower_dead) ==> xv_lower_dead)

/* ---- receive: delivers the next 1..capacity stream bytes, EOF (0), or fails */
#define LOWER_RECV_REQUIRES(buf, capacity) \
    ((capacity) >= 1 && (capacity) <= 0x7ffff000UL && __CPROVER_w_ok((buf), (capacity)))

#define LOWER_RECV_ASSIGNS(buf, capacity) xv_errno, xv_rx_off, xv_rx_eof, xv_lower_dead, __CPROVER_object_upto((buf), (capacity))

#define XV_RXB(buf, off, rv, pos, val) (((pos) >= (off) && (pos) < (off) + (rv)) ==> XV_U8(buf)[(pos) - (off)] == (val))
#define XV_RX_BYTES(buf, off, rv) XV_RXB(buf, off, rv, xv_k, xv_rx_k)

#define LOWER_RECV_ENSURES(rv, buf, capacity) ( \
    ((rv) == -1 && xv_errno > 0 && xv_rx_off == __CPROVER_old(xv_rx_off) && xv_rx_eof == __CPROVER_old(xv_rx_eof) && \
        (xv_errno != EAGAIN ==> xv_lower_dead) && (__CPROVER_old(xv_lower_dead) ==> xv_errno != EAGAIN)) || \
    ((rv) == 0 && xv_rx_eof && xv_rx_off == __CPROVER_old(xv_rx_off)) || \
    ((rv) >= 1 && (size_t)(rv) <= (capacity) && !__CPROVER_old(xv_rx_eof) && !xv_rx_eof && \
        xv_rx_off == __CPROVER_old(xv_rx_off) + (rv) && XV_RX_BYTES(buf, __CPROVER_old(xv_rx_off), (rv))))

#include "contracts/end.h"
#endif
