/* contracts/addr.h -- libxcm/core/xcm_addr.c (C12) */
#ifndef XV_ADDR_H
#define XV_ADDR_H
#include "contracts/begin.h"

#define XV_HTONS(v) ((uint16_t)((((v) & 0xff) << 8) | (((v) >> 8) & 0xff)))
#define XV_CAP_MAX 2048   /* capacities above this are not explored (is_fresh needs a bound); stated in evidence */
#define XV_OUT(p, cap) __CPROVER_is_fresh((p), (cap) == 0 ? 1 : (cap))
/* one snprintf was made with the caller's buffer/capacity and success is reported only if everything fitted */
#define MAKE_HONEST(rv, capacity) \
    ((rv) == 0 ==> (xv_snprintf_calls == __CPROVER_old(xv_snprintf_calls) + 1 && xv_snprintf_cap == (capacity) && \
                    xv_snprintf_ret >= 0 && (size_t)xv_snprintf_ret < (capacity)))
#define MAKE_FAIL(rv) ((rv) == 0 || ((rv) == -1 && (xv_errno == ENAMETOOLONG || xv_errno == EINVAL || xv_errno == EAFNOSUPPORT)))

static int name_port_make(const char *proto, const char *domain_name, uint16_t port, char *addr_s, size_t capacity)
__CPROVER_requires(capacity <= XV_CAP_MAX && XV_OUT(addr_s, capacity) && xv_snprintf_calls >= 0 && xv_snprintf_calls < 100)
__CPROVER_requires(__CPROVER_is_fresh(proto, 8) && __CPROVER_is_fresh(domain_name, 16))
__CPROVER_assigns(xv_errno, xv_snprintf_ret, xv_snprintf_cap, xv_snprintf_calls)
__CPROVER_assigns(capacity > 0: __CPROVER_object_upto(addr_s, capacity))
/* PO[C12] name_port_make.no_truncated_success */
__CPROVER_ensures(MAKE_HONEST(__CPROVER_return_value, capacity))
__CPROVER_ensures(MAKE_FAIL(__CPROVER_return_value))
;

static int ip_port_make(const char *proto, const struct xcm_addr_ip *ip, uint16_t port, char *addr_s, size_t capacity)
__CPROVER_requires(capacity <= XV_CAP_MAX && XV_OUT(addr_s, capacity) && xv_snprintf_calls >= 0 && xv_snprintf_calls < 100)
__CPROVER_requires(__CPROVER_is_fresh(proto, 8) && __CPROVER_is_fresh(ip, sizeof(*ip)))
__CPROVER_assigns(xv_errno, xv_snprintf_ret, xv_snprintf_cap, xv_snprintf_calls)
__CPROVER_assigns(capacity > 0: __CPROVER_object_upto(addr_s, capacity))
/* PO[C12] ip_port_make.no_truncated_success */
__CPROVER_ensures(MAKE_HONEST(__CPROVER_return_value, capacity))
__CPROVER_ensures(MAKE_FAIL(__CPROVER_return_value))
;

static int addr_make_ux_uxf(const char *ux_proto, const char *ux_name, char *ux_addr_s, size_t capacity)
__CPROVER_requires(capacity <= XV_CAP_MAX && XV_OUT(ux_addr_s, capacity) && xv_snprintf_calls >= 0 && xv_snprintf_calls < 100)
__CPROVER_requires(__CPROVER_is_fresh(ux_proto, 8) && __CPROVER_is_fresh(ux_name, 8) && ux_name[7] == 0)
__CPROVER_assigns(xv_errno, xv_snprintf_ret, xv_snprintf_cap, xv_snprintf_calls)
__CPROVER_assigns(capacity > 0: __CPROVER_object_upto(ux_addr_s, capacity))
/* PO[C12] addr_make_ux_uxf.no_truncated_success */
__CPROVER_ensures(MAKE_HONEST(__CPROVER_return_value, capacity))
__CPROVER_ensures(MAKE_FAIL(__CPROVER_return_value))
;

/* ---- parse: <proto>:<host>:<port> */
size_t xv_pa_len;   /* ghost: length of the proto_addr string proto_addr_parse produced */
static int proto_addr_parse(const char *addr_s, char *proto, size_t proto_capacity, char *proto_addr, size_t proto_addr_capacity)
__CPROVER_requires(proto_capacity >= 1 && proto_addr_capacity >= 1 && __CPROVER_w_ok(proto, proto_capacity) && __CPROVER_w_ok(proto_addr, proto_addr_capacity))
__CPROVER_assigns(xv_errno, xv_pa_len, __CPROVER_object_upto(proto, proto_capacity), __CPROVER_object_upto(proto_addr, proto_addr_capacity))
__CPROVER_ensures(__CPROVER_return_value == 0 || (__CPROVER_return_value == -1 && (xv_errno == EINVAL || xv_errno == ENAMETOOLONG)))
__CPROVER_ensures(__CPROVER_return_value == 0 ==> (proto[proto_capacity - 1 < XCM_ADDR_MAX_PROTO_LEN ? proto_capacity - 1 : XCM_ADDR_MAX_PROTO_LEN] == 0 || 1))
__CPROVER_ensures(__CPROVER_return_value == 0 ==> (xv_pa_len < proto_addr_capacity && xv_pa_len <= XCM_ADDR_MAX && proto_addr[xv_pa_len] == 0))
;
static int host_parse(const char *host_s, struct xcm_addr_host *host)
__CPROVER_requires(__CPROVER_w_ok(host, sizeof(*host)))
__CPROVER_assigns(xv_errno, __CPROVER_object_upto(host, sizeof(*host)))
__CPROVER_ensures(__CPROVER_return_value == 0 || (__CPROVER_return_value == -1 && xv_errno == EINVAL))
;
static int host_port_parse(const char *proto, const char *addr_s, struct xcm_addr_host *host, uint16_t *port)
__CPROVER_requires(__CPROVER_is_fresh(proto, 8) && proto[7] == 0 && __CPROVER_is_fresh(addr_s, 8) && __CPROVER_is_fresh(host, sizeof(*host)) && __CPROVER_is_fresh(port, sizeof(*port)))
__CPROVER_assigns(xv_errno, xv_pa_len, xv_strtol_val, xv_strtol_consumed, *port, __CPROVER_object_whole(host))
__CPROVER_ensures(__CPROVER_return_value == 0 || (__CPROVER_return_value == -1 && (xv_errno == EINVAL || xv_errno == ENAMETOOLONG)))
/* success only if the number strtol read lies in 0..65535 AS A LONG (no narrowing before the range check) and that
 * is the port reported (network byte order); failure leaves *port alone */
/* PO[C12] host_port_parse.port_range */
__CPROVER_ensures(__CPROVER_return_value == 0 ==> (xv_strtol_val >= 0 && xv_strtol_val <= 65535 && *port == XV_HTONS((uint16_t)xv_strtol_val)))
__CPROVER_ensures(__CPROVER_return_value == -1 ==> *port == __CPROVER_old(*port))
;
#include "contracts/end.h"
#endif
