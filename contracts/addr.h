/* contracts/addr.h -- libxcm/core/xcm_addr.c (C12) */
#ifndef XV_ADDR_H
#define XV_ADDR_H
#include "contracts/begin.h"

#define XV_HTONS(v) ((uint16_t)((((v) & 0xff) << 8) | (((v) >> 8) & 0xff)))
#define XV_CAP_MAX 2048   /* capacities above this are not explored (is_fresh needs a bound); stated in evidence */
#define XV_OUT(p, cap) __CPROVER_is_fresh((p), (cap) == 0 ? 1 : (cap))
/* one snprintf was made with the caller's buffer/capacity and success is reported only if everything fitted */
#define MAKE_HONEST(rv, capacity) \
    ((rv) == 0 ==> (xv_snprintf_calls == __CPROVER_old(xv_snprintf_calls) + 1 && xv_snprintf_cap == (capacity) && \
                    xv_snprintf_ret >= 0 && (size_t)xv_snprintf_ret < (capacity)))
#define MAKE_FAIL(rv) ((rv) == 0 || ((rv) == -1 && (xv_errno == ENAMETOOLONG || xv_errno == EINVAL || xv_errno == EAFNOSUPPORT)))

static int name_port_make(const char *proto, const char *domain_name, uint16_t port, char *addr_s, size_t capacity)
__CPROVER_requires(capacity <= XV_CAP_MAX && XV_OUT(addr_s, capacity) && xv_snprintf_calls >= 0 && xv_snprintf_calls < 100)
__CPROVER_requires(__CPROVER_is_fresh(proto, 8) && __CPROVER_is_fresh(domain_name, 16))
__CPROVER_assigns(xv_errno, xv_snprintf_ret, xv_snprintf_cap, xv_snprintf_calls)
__CPROVER_assigns(capacity > 0: __CPROVER_object_upto(addr_s, capacity))
/* PO[C12] name_port_make.no_truncated_success */
__CPROVER_ensures(MAKE_HONEST(__CPROVER_return_value, capacity))
__CPROVER_ensures(MAKE_FAIL(__CPROVER_return_value))
;

static int ip_port_make(const char *proto, const struct xcm_addr_ip *ip, uint16_t port, char *addr_s, size_t capacity)
__CPROVER_requires(capacity <= XV_CAP_MAX && XV_OUT(addr_s, capacity) && xv_snprintf_calls >= 0 && xv_snprintf_calls < 100)
__CPROVER_requires(__CPROVER_is_fresh(proto, 8) && __CPROVER_is_fresh(ip, sizeof(*ip)))
__CPROVER_assigns(xv_errno, xv_snprintf_ret, xv_snprintf_cap, xv_snprintf_calls)
__CPROVER_assigns(capacity > 0: __CPROVER_object_upto(addr_s, capacity))
/* PO[C12] ip_port_make.no_truncated_success */
__CPROVER_ensures(MAKE_HONEST(__CPROVER_return_value, capacity))
__CPROVER_ensures(MAKE_FAIL(__CPROVER_return_value))
;

static int addr_make_ux_uxf(const char *ux_proto, const char *ux_name, char *ux_addr_s, size_t capacity)
__CPROVER_requires(capacity <= XV_CAP_MAX && XV_OUT(ux_addr_s, capacity) && xv_snprintf_calls >= 0 && xv_snprintf_calls < 100)
__CPROVER_requires(__CPROVER_is_fresh(ux_proto, 8) && __CPROVER_is_fresh(ux_name, 8) && ux_name[7] == 0)
__CPROVER_assigns(xv_errno, xv_snprintf_ret, xv_snprintf_cap, xv_snprintf_calls)
__CPROVER_assigns(capacity > 0: __CPROVER_object_upto(ux_addr_s, capacity))
/* PO[C12] addr_make_ux_uxf.no_truncated_success */
__CPROVER_ensures(MAKE_HONEST(__CPROVER_return_value, capacity))
__CPROVER_ensures(MAKE_FAIL(__CPROVER_return_value))
;

/* ---- parse: <proto>:<host>:<port> */
#ifndef XV_ADDR_UX
size_t xv_pa_len;   /* ghost: length of the proto_addr string proto_addr_parse produced */
static int proto_addr_parse(const char *addr_s, char *proto, size_t proto_capacity, char *proto_addr, size_t proto_addr_capacity)
__CPROVER_requires(proto_capacity >= 1 && proto_addr_capacity >= 1 && __CPROVER_w_ok(proto, proto_capacity) && __CPROVER_w_ok(proto_addr, proto_addr_capacity))
__CPROVER_assigns(xv_errno, xv_pa_len, __CPROVER_object_upto(proto, proto_capacity), __CPROVER_object_upto(proto_addr, proto_addr_capacity))
__CPROVER_ensures(__CPROVER_return_value == 0 || (__CPROVER_return_value == -1 && (xv_errno == EINVAL || xv_errno == ENAMETOOLONG)))
__CPROVER_ensures(__CPROVER_return_value == 0 ==> (proto[proto_capacity - 1 < XCM_ADDR_MAX_PROTO_LEN ? proto_capacity - 1 : XCM_ADDR_MAX_PROTO_LEN] == 0 || 1))
__CPROVER_ensures(__CPROVER_return_value == 0 ==> (xv_pa_len < proto_addr_capacity && xv_pa_len <= XCM_ADDR_MAX && proto_addr[xv_pa_len] == 0))
;
#else
size_t xv_pa_len;
#endif
static int host_parse(const char *host_s, struct xcm_addr_host *host)
__CPROVER_requires(__CPROVER_w_ok(host, sizeof(*host)))
__CPROVER_assigns(xv_errno, __CPROVER_object_upto(host, sizeof(*host)))
__CPROVER_ensures(__CPROVER_return_value == 0 || (__CPROVER_return_value == -1 && xv_errno == EINVAL))
;
static int host_port_parse(const char *proto, const char *addr_s, struct xcm_addr_host *host, uint16_t *port)
__CPROVER_requires(__CPROVER_is_fresh(proto, 8) && proto[7] == 0 && __CPROVER_is_fresh(addr_s, 8) && __CPROVER_is_fresh(host, sizeof(*host)) && __CPROVER_is_fresh(port, sizeof(*port)))
__CPROVER_assigns(xv_errno, xv_pa_len, xv_strtol_val, xv_strtol_consumed, *port, __CPROVER_object_whole(host))
__CPROVER_ensures(__CPROVER_return_value == 0 || (__CPROVER_return_value == -1 && (xv_errno == EINVAL || xv_errno == ENAMETOOLONG)))
/* success only if the number strtol read lies in 0..65535 AS A LONG (no narrowing before the range check) and that
 * is the port reported (network byte order); failure leaves *port alone */
/* PO[C12] host_port_parse.port_range */
__CPROVER_ensures(__CPROVER_return_value == 0 ==> (xv_strtol_val >= 0 && xv_strtol_val <= 65535 && *port == XV_HTONS((uint16_t)xv_strtol_val)))
__CPROVER_ensures(__CPROVER_return_value == -1 ==> *port == __CPROVER_old(*port))
;

/* ---- xcm_addr_is_valid / xcm_addr_is_supported agree with the parsers (C12) */
/* ghost: which parser ran last (index into the list below) and what it returned; xv_proto_sel = which protocol name
 * xcm_addr_parse_proto produced (0 tcp, 1 btcp, 2 ux, 3 uxf, 4 utls, 5 tls, 6 btls, 7 sctp, 8 something else) */
int xv_parser_ran, xv_parser_rv, xv_parser_calls, xv_proto_sel;
#define XV_PARSER_CONTRACT(fn, idx, T2, a2, T3, a3) \
    int fn(const char *addr_s, T2 a2, T3 a3) \
    __CPROVER_requires(1) \
    __CPROVER_assigns(xv_errno, xv_parser_ran, xv_parser_rv, xv_parser_calls) \
    __CPROVER_ensures(xv_parser_ran == (idx) && xv_parser_calls == __CPROVER_old(xv_parser_calls) + 1 && xv_parser_rv == __CPROVER_return_value && \
                      (__CPROVER_return_value == 0 || __CPROVER_return_value == -1))
XV_PARSER_CONTRACT(xcm_addr_parse_tcp, 0, struct xcm_addr_host *, host, uint16_t *, port);
XV_PARSER_CONTRACT(xcm_addr_parse_btcp, 1, struct xcm_addr_host *, host, uint16_t *, port);
/* the UX/UXF parsers are asked with room for every valid name (UX_NAME_MAX characters + NUL), so the verdict never depends on the checker's own buffer */
#define XV_UX_PARSER_CONTRACT(fn, idx) \
    int fn(const char *addr_s, char *name, size_t capacity) \
    __CPROVER_requires(capacity >= UX_NAME_MAX + 1 && __CPROVER_w_ok(name, capacity)) \
    __CPROVER_assigns(xv_errno, xv_parser_ran, xv_parser_rv, xv_parser_calls) \
    __CPROVER_ensures(xv_parser_ran == (idx) && xv_parser_calls == __CPROVER_old(xv_parser_calls) + 1 && xv_parser_rv == __CPROVER_return_value && \
                      (__CPROVER_return_value == 0 || __CPROVER_return_value == -1))
/* PO[C12] is_valid_addr.ux_verdict_independent_of_scratch_buffer (precondition of the replaced parser, checked at the call) */
XV_UX_PARSER_CONTRACT(xcm_addr_parse_ux, 2);
/* PO[C12] is_valid_addr.uxf_verdict_independent_of_scratch_buffer (precondition of the replaced parser, checked at the call) */
XV_UX_PARSER_CONTRACT(xcm_addr_parse_uxf, 3);
XV_PARSER_CONTRACT(xcm_addr_parse_utls, 4, struct xcm_addr_host *, host, uint16_t *, port);
XV_PARSER_CONTRACT(xcm_addr_parse_tls, 5, struct xcm_addr_host *, host, uint16_t *, port);
XV_PARSER_CONTRACT(xcm_addr_parse_btls, 6, struct xcm_addr_host *, host, uint16_t *, port);
XV_PARSER_CONTRACT(xcm_addr_parse_sctp, 7, struct xcm_addr_host *, host, uint16_t *, port);
#define XV_STR4(p, a, b, c, d, e) ((p)[0] == (a) && (p)[1] == (b) && (p)[2] == (c) && (p)[3] == (d) && (p)[4] == (e))
int xcm_addr_parse_proto(const char *addr_s, char *proto, size_t capacity)
__CPROVER_requires(capacity >= 6 && __CPROVER_w_ok(proto, capacity))
__CPROVER_assigns(xv_errno, __CPROVER_object_upto(proto, capacity))
__CPROVER_ensures(__CPROVER_return_value == 0 || __CPROVER_return_value == -1)
__CPROVER_ensures(__CPROVER_return_value == 0 ==> ( \
    xv_proto_sel == 0 ? XV_STR4(proto, 't', 'c', 'p', 0, 0) : xv_proto_sel == 1 ? XV_STR4(proto, 'b', 't', 'c', 'p', 0) : \
    xv_proto_sel == 2 ? XV_STR4(proto, 'u', 'x', 0, 0, 0) : xv_proto_sel == 3 ? XV_STR4(proto, 'u', 'x', 'f', 0, 0) : \
    xv_proto_sel == 4 ? XV_STR4(proto, 'u', 't', 'l', 's', 0) : xv_proto_sel == 5 ? XV_STR4(proto, 't', 'l', 's', 0, 0) : \
    xv_proto_sel == 6 ? XV_STR4(proto, 'b', 't', 'l', 's', 0) : xv_proto_sel == 7 ? XV_STR4(proto, 's', 'c', 't', 'p', 0) : \
    XV_STR4(proto, 'z', 'z', 0, 0, 0)))
;
static bool is_valid_addr(const char *xcm_addr_s, bool require_supported)
__CPROVER_requires(__CPROVER_is_fresh(xcm_addr_s, 8) && xv_parser_calls >= 0 && xv_parser_calls < 100 && xv_proto_sel >= 0 && xv_proto_sel <= 8)
__CPROVER_assigns(xv_errno, xv_parser_ran, xv_parser_rv, xv_parser_calls)
/* PO[C12] is_valid_addr.agrees_with_parser: valid <=> the parser of the address's own transport accepts it; errno is left alone */
__CPROVER_ensures(__CPROVER_return_value ==> (xv_parser_calls == __CPROVER_old(xv_parser_calls) + 1 && xv_parser_ran == xv_proto_sel && xv_parser_rv == 0))
__CPROVER_ensures((!__CPROVER_return_value && xv_parser_calls != __CPROVER_old(xv_parser_calls)) ==> (xv_parser_calls == __CPROVER_old(xv_parser_calls) + 1 && xv_parser_ran == xv_proto_sel && xv_parser_rv == -1))
__CPROVER_ensures(xv_errno == __CPROVER_old(xv_errno))
/* PO[C12] is_valid_addr.dispatch: the parser of every built-in transport is consulted exactly once (SCTP is not built: only when !require_supported); an unknown transport name is invalid without any parser */
__CPROVER_ensures(((xv_proto_sel <= 6 || (xv_proto_sel == 7 && !require_supported)) && xv_parser_calls != __CPROVER_old(xv_parser_calls)) ==> xv_parser_calls == __CPROVER_old(xv_parser_calls) + 1)
__CPROVER_ensures((xv_proto_sel == 8 || (xv_proto_sel == 7 && require_supported)) ==> (!__CPROVER_return_value && xv_parser_calls == __CPROVER_old(xv_parser_calls)))
__CPROVER_ensures((xv_proto_sel <= 6 && xv_parser_calls == __CPROVER_old(xv_parser_calls)) ==> !__CPROVER_return_value)
;

/* ---- addr_parse_ux_uxf (C12): UX/UXF name limits.  Separate instantiation (-DXV_ADDR_UX): proto_addr_parse is assumed
 * to deliver a protocol string and a name string whose exact lengths are the ghosts xv_pp_len / xv_pa_len (no interior
 * NUL: stated for the arbitrary position xv_j, which is what the strlen model below is allowed to rely on). */
#ifdef XV_ADDR_UX
static int proto_addr_parse(const char *addr_s, char *proto, size_t proto_capacity, char *proto_addr, size_t proto_addr_capacity)
__CPROVER_requires(proto_capacity == XCM_ADDR_MAX_PROTO_LEN + 1 && proto_addr_capacity == XCM_ADDR_MAX + 1 && __CPROVER_w_ok(proto, proto_capacity) && __CPROVER_w_ok(proto_addr, proto_addr_capacity))
__CPROVER_assigns(xv_errno, xv_pa_len, xv_pp_len, __CPROVER_object_upto(proto, proto_capacity), __CPROVER_object_upto(proto_addr, proto_addr_capacity))
__CPROVER_ensures(__CPROVER_return_value == 0 || (__CPROVER_return_value == -1 && (xv_errno == EINVAL || xv_errno == ENAMETOOLONG)))
__CPROVER_ensures(__CPROVER_return_value == 0 ==> (xv_pa_len <= XCM_ADDR_MAX && proto_addr[xv_pa_len] == 0 && ((xv_j >= 0 && (size_t)xv_j < xv_pa_len) ==> proto_addr[xv_j] != 0)))
__CPROVER_ensures(__CPROVER_return_value == 0 ==> (xv_pp_len <= XCM_ADDR_MAX_PROTO_LEN && proto[xv_pp_len] == 0 && ((xv_j >= 0 && (size_t)xv_j < xv_pp_len) ==> proto[xv_j] != 0)))
;
static int addr_parse_ux_uxf(const char *ux_proto, const char *ux_addr_s, char *ux_name, size_t capacity)
__CPROVER_requires(__CPROVER_is_fresh(ux_proto, 4) && ux_proto[0] == 'u' && ux_proto[1] == 'x' && (ux_proto[2] == 0 || (ux_proto[2] == 'f' && ux_proto[3] == 0)))
__CPROVER_requires(__CPROVER_is_fresh(ux_addr_s, 8) && capacity <= 1024 && XV_OUT(ux_name, capacity))
__CPROVER_assigns(xv_errno, xv_pa_len, xv_pp_len)
__CPROVER_assigns(capacity > 0: __CPROVER_object_upto(ux_name, capacity))
__CPROVER_ensures(__CPROVER_return_value == 0 || (__CPROVER_return_value == -1 && (xv_errno == EINVAL || xv_errno == ENAMETOOLONG)))
/* PO[C12] addr_parse_ux_uxf.name_limits: an accepted UX/UXF name has 1..UX_NAME_MAX (107) characters and fits the caller's buffer with its NUL */
__CPROVER_ensures(__CPROVER_return_value == 0 ==> (xv_pa_len >= 1 && xv_pa_len <= UX_NAME_MAX && xv_pa_len < capacity && ux_name[xv_pa_len] == 0))
/* PO[C12] addr_parse_ux_uxf.name_copied: the name is copied byte for byte */
__CPROVER_ensures((__CPROVER_return_value == 0 && xv_j >= 0 && (size_t)xv_j < xv_pa_len) ==> ux_name[xv_j] != 0)
;
#endif
#include "contracts/end.h"
#endif
